#!/usr/bin/env bash
# Offline setup: warm the Go build cache for the harness against /repo's current tree.
set -e
cd "$(dirname "$0")/harness"
export GOFLAGS=-mod=mod GOPROXY=off GOSUMDB=off GOTOOLCHAIN=local CGO_CFLAGS="-w -O1"
[ -f go.sum ] || cp /repo/go.sum go.sum
go build -tags verif ./... 2>&1 | grep -v -i "warning\|sqlite3\|^#\|note:\|~\|\^" || true
go vet -tags verif ./internal/... >/dev/null 2>&1 || true
echo setup done
