#!/usr/bin/env bash
cd "$(dirname "$0")"
for id in ${@:-C18 C08 C09 C10 C02 C03 C04 C07 C11 C12 C14 C16 C13 C15 C20 C01 C06 C19 C17 C05}; do
  t0=$(date +%s); out=$(./check $id thorough 2>&1); rc=$?
  echo "$id rc=$rc $(( $(date +%s)-t0 ))s $(echo "$out" | grep -E '^(OK|VIOLATION|INCONCLUSIVE)' | tail -1)"
  [ $rc -ne 0 ] && echo "$out" | grep -v genesis | tail -30
done
