#!/usr/bin/env bash
# ./seed_accept.sh <ID> <seedwork-dir> <demo-dest-pkg-dir (relative to repo root)> <demo go-test -run regex> [stable-test-pkg ...]
# Confirms an independently seeded change in a scratch worktree of /repo HEAD: patch applies and builds (with and without
# the verif tag), the demonstration FAILS with it and PASSES without it, the pinned stable tests of the touched packages
# still pass with it; then runs ./selftest <ID> against it and files everything under /verif/seeded/<id>-<n>/.
set -u
export GOFLAGS=-mod=mod GOPROXY=off GOSUMDB=off GOTOOLCHAIN=local CGO_CFLAGS="-w -O1"
ID=$1; SW=$2; PKG=$3; RUN=$4; shift 4
wt=$(mktemp -d /tmp/seedacc-XXXXXX); rmdir $wt
git -C /repo worktree add -q --detach $wt HEAD || exit 2
res() { echo "$1"; git -C /repo worktree remove --force $wt >/dev/null 2>&1; rm -rf $wt; exit ${2:-1}; }
git -C $wt apply $SW/patch.diff || res "REJECT: patch does not apply to current HEAD"
(cd $wt && go build ./... 2>&1 | grep -v "warning\|note:\|sqlite\|\^\||" | grep . && exit 1; exit 0) || res "REJECT: does not build"
(cd $wt && go build -tags verif ./... 2>&1 | grep -v "warning\|note:\|sqlite\|\^\||" | grep . && exit 1; exit 0) || res "REJECT: does not build with -tags verif"
cp $SW/demo/*_test.go $wt/$PKG/ 2>/dev/null
with=$(cd $wt/$PKG && timeout 600 go test -tags verif -vet=off -count=1 -run "$RUN" . 2>&1 | tail -30); wrc=$?
echo "$with" | grep -q "^FAIL\|--- FAIL" || res "REJECT: demo does not fail with the patch: $(echo "$with" | tail -3)"
git -C $wt apply -R $SW/patch.diff
without=$(cd $wt/$PKG && timeout 600 go test -tags verif -vet=off -count=1 -run "$RUN" . 2>&1 | tail -30)
echo "$without" | grep -q "^ok" || res "REJECT: demo does not pass without the patch: $(echo "$without" | tail -5)"
git -C $wt apply $SW/patch.diff
# pinned stable tests of the named packages (guard off, as the baseline runs them)
stable_ok=true; stable_note=""
for p in "$@"; do
  tests=$(jq -r --arg p "com.tuntun.rangers/node/$p" '.stable_pass[] | select(startswith($p+"::")) | split("::")[1] | select(contains("/")|not)' /root/.vp/BASELINE.json | paste -sd'|')
  [ -z "$tests" ] && continue
  out=$(cd $wt/$p && timeout 1500 go test -vet=off -count=1 -run "^($tests)\$" . 2>&1 | tail -5)
  echo "$out" | grep -q "^ok" || { stable_ok=false; stable_note="$stable_note $p: $(echo "$out" | tail -2 | tr '\n' ' ')"; }
done
$stable_ok || res "REJECT: pinned stable tests fail with the patch:$stable_note"
git -C /repo worktree remove --force $wt >/dev/null 2>&1; rm -rf $wt
n=1; while [ -d /verif/seeded/$ID-$n ]; do n=$((n+1)); done
d=/verif/seeded/$ID-$n; mkdir -p $d/demo
cp $SW/patch.diff $d/; cp $SW/demo/* $d/demo/ 2>/dev/null
st=$(cd /verif && ./selftest $ID $d/patch.diff 2>&1 | grep SELFTEST)
verdict=$(echo "$st" | grep -o "KILLED\|SURVIVED" | head -1)
jq --arg v "$verdict" --arg st "$st" --arg pkgs "$*" --arg run "$RUN" --arg pkg "$PKG" \
  '. + {confirmed_by_main:{patch_applies_and_builds:true, demo_fails_with_patch:true, demo_passes_without_patch:true, stable_tests_of_packages_pass_with_patch:$pkgs, demo_pkg:$pkg, demo_run:$run}, check_result:$v, check_output:$st}' \
  $SW/meta.json > $d/meta.json 2>/dev/null || echo "{\"property\":\"$ID\",\"check_result\":\"$verdict\"}" > $d/meta.json
echo "ACCEPTED $d : check $verdict"
