#!/usr/bin/env bash
# runs ./selftest for every property (mutants/<ID>/*.diff + seeded/*/patch.diff) and prints one summary line each
cd "$(dirname "$0")"
for id in ${@:-C18 C08 C02 C10 C09 C07 C03 C04 C14 C16 C13 C20 C01 C06 C11 C12 C15 C19 C05 C17}; do
  ./selftest $id 2>&1 | grep SELFTEST | cut -c1-220
done
