#!/usr/bin/env bash
# soak: every quick check at several seeds; prints one line per run (anything but OK deserves a look)
cd "$(dirname "$0")"
for s in ${SEEDS:-11 12 13}; do
  for id in C01 C02 C03 C04 C05 C06 C07 C08 C09 C10 C11 C12 C13 C14 C15 C16 C17 C18 C19 C20; do
    out=$(VERIF_SEED=$s ./check $id quick 2>&1); rc=$?
    echo "seed=$s $id rc=$rc $(echo "$out" | grep -E '^(OK|VIOLATION|INCONCLUSIVE)' | tail -1)"
    if [ $rc -ne 0 ]; then bad=$((bad+1)); echo "$out" | grep -v genesis | tail -25; fi
  done
done
echo "SOAK failures=${bad:-0}"
[ "${bad:-0}" -eq 0 ]
