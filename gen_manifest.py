#!/usr/bin/env python3
"""Regenerates MANIFEST.json from harness/cNN/check.json (single source of truth for what is claimed)."""
import json, os, subprocess
V = os.path.dirname(os.path.abspath(__file__))
import glob
cfg = {}
for _f in sorted(glob.glob(os.path.join(V, "harness", "c[0-9][0-9]*", "check.json"))):
    _c = json.load(open(_f))
    cfg[_c["property_id"]] = _c
props = [json.loads(l) for l in open(os.path.join(V, "properties.jsonl")) if l.strip()]
hooks = []
try:
    out = subprocess.run(["git", "-C", "/repo", "log", "--format=%H %s"], capture_output=True, text=True).stdout
    hooks = [l.split()[0] for l in out.splitlines() if l.split(" ", 1)[1].startswith("verif hook")]
except Exception:
    pass
checks, na = [], []
for p in props:
    pid = p["id"]
    c = cfg.get(pid)
    if not c or c.get("disabled") or not c.get("ready"):
        na.append({"property_id": pid, "reason": (c or {}).get("na_reason", "check not built yet (work in progress); see DESIGN.md")})
        continue
    e = {
        "property_id": pid,
        "quick_cmd": f"./check {pid} quick",
        "thorough_cmd": f"./check {pid} thorough",
        "evidence_file": f"/verif/evidence/{pid}.json",
        "replay_cmd_template": f"./check {pid} --replay {{path}}",
        "engine": "rapid-harness",
        "level_claimed": {"category": c.get("level", "exploration"), "text": c.get("level_text", ""), "design_ref": f"DESIGN.md §2 {pid}"},
        "level_note": c.get("level_note", ""),
        "technique": c.get("technique", "property-based testing (rapid) against an independent reference"),
    }
    checks.append(e)
m = {
    "version": 1,
    "setup_cmd": "./setup.sh",
    "hooks": {
        "guard": "verif",
        "enable": "go test -tags verif (the driver ./check always builds /repo's working tree with this tag)",
        "baseline_off_cmd": "cd /repo && GOFLAGS=-mod=mod go test -vet=off -count=1 -timeout 25m ./...",
        "source_commits": hooks,
        "add_only": True,
    },
    "engines": [{"name": "rapid-harness", "path": "/verif/harness", "serves_properties": [c["property_id"] for c in checks],
                 "kind_free_text": "Go module with one test package per property: pgregory.net/rapid v1.3.0 generators and state machines, native go fuzz targets in the thorough tier, independent reference models in internal/ref; driver ./check shards by seed and merges statistics into evidence"}],
    "checks": checks,
    "not_applicable": na,
    "notes": "All checks: exit 0 = held on everything explored, exit 1 + VIOLATION line, exit 2 = inconclusive (build failure/timeout), never reported as violation. VERIF_SEED selects the rapid seed. known_findings.jsonl lists recorded/fixed defects.",
}
json.dump(m, open(os.path.join(V, "MANIFEST.json"), "w"), indent=1)
print("claimed:", [c["property_id"] for c in checks], "n/a:", [x["property_id"] for x in na])
