#!/bin/bash
id=$1
{
echo "You are a test-adequacy engineer. Your job: produce ONE realistic change (a bug) to the Go repository checked out in the git worktree /tmp/seed-$id (module com.tuntun.rangers/node, code under src/) that BREAKS the semantic property below, while the code still compiles and the repository's existing tests still pass. Someone else maintains a verification suite for this property; your change is used to find out whether that suite notices. You must work ONLY inside /tmp/seed-$id and scratch files under /tmp/seedwork-$id/ — do NOT read, list or touch /verif or /repo (that would contaminate the experiment)."
echo
echo "PROPERTY"
jq -r --arg id $id 'select(.id==$id) | "\(.id): \(.title)\nStatement: \(.statement)\nQuantified over: \(.quantifier.text)\nCode anchors: \(.anchors.files|join(", "))\nMechanisms meant to make it hold: \([.anchors.mechanism[]|"\(.name) @ \(.where)"]|join("; "))"' /verif/properties.jsonl
cat <<'EOT'

REQUIREMENTS FOR THE CHANGE
- It must be the kind of mistake a developer could plausibly make (a refactor slip, an optimisation, a forgotten case, a wrong boundary, a cache, an off-by-one, two sites that each look fine alone), NOT sabotage that ordinary use would expose at once. It should need something specific to manifest: a particular multi-step sequence of operations, an unusual input, a crash/fault at a particular point, a particular interleaving, or two cooperating sites.
- Small: one to three hunks, unified diff against the worktree's HEAD. Do not touch test files, files named verif_*.go, or build tags. The code must build (`go build ./...` in the worktree) both normally and with `-tags verif`.
- The packages' existing tests that pass at HEAD must still pass with your change (run the relevant packages' tests before and after: e.g. `go test -vet=off -count=1 ./src/<pkg>/...` with a timeout; some tests in this repo fail or hang at HEAD already — only tests passing at HEAD matter; tests needing network time out, skip those).
- Provide a DEMONSTRATION: a small Go test file (or program) that you place in the worktree (e.g. src/<pkg>/seeddemo_test.go, it may use build tag `verif` and the exported Verif* hooks that exist in files named verif_*.go) which FAILS with your change applied and PASSES without it (verify both, by `git stash`/`git apply -R`), and which shows the property violation directly (not just "output differs").

ENVIRONMENT (offline sandbox): every shell call `export GOFLAGS=-mod=mod GOPROXY=off GOSUMDB=off GOTOOLCHAIN=local CGO_CFLAGS="-w -O1"`; go 1.23; nothing can be downloaded; first build of packages importing sqlite takes ~60 s (cgo warnings are noise). Under build tag `verif`, utility.GetTime() does not query NTP (without the tag it hangs offline, so tests calling it need `-tags verif`). `git -C /tmp/seed-ID status` may show go.sum modified by -mod=mod; restore it with `git checkout go.sum` before producing the diff.

DELIVERABLES (write them, then report their paths):
1. /tmp/seedwork-ID/patch.diff  — `git diff` of ONLY the bug (no demo file, no go.sum), applies with `git apply` to a clean checkout of HEAD.
2. /tmp/seedwork-ID/demo/ — the demonstration file(s) and a README.txt with the exact command to run it from the worktree root, expected output with and without the patch.
3. /tmp/seedwork-ID/meta.json — {"property":"ID","title":"short name of the bug","what_it_needs_to_manifest":"...","files_changed":[...],"why_existing_tests_pass":"...","commands_run":["..."]}.
Leave the worktree with the patch applied and the demo file present. In your final message give: the diff, a 5-line explanation of why it violates the property and what is needed to trigger it, and the commands you ran to confirm (build, existing tests before/after, demo fails with / passes without).
EOT
} | sed "s/seedwork-ID/seedwork-$id/g; s/seed-ID/seed-$id/g; s/\"property\":\"ID\"/\"property\":\"$id\"/" > /tmp/seedprompts/$id.txt
mkdir -p /tmp/seedwork-$id
