#!/bin/bash
# round N prompt: same as round 1 plus a list of ideas already used
id=$1; round=$2
used=$(for f in /verif/seeded/$id-*/meta.json; do jq -r '"- " + .title' $f 2>/dev/null; done)
/tmp/seedprompts/make.sh $id
sed -i "s#/tmp/seed-$id#/tmp/seed$round-$id#g; s#/tmp/seedwork-$id#/tmp/seedwork$round-$id#g" /tmp/seedprompts/$id.txt
{
cat /tmp/seedprompts/$id.txt
echo
echo "ALREADY USED (other engineers seeded these before you; yours must be a DIFFERENT kind of mistake, in a different function or mechanism, manifesting through a different kind of input/history):"
echo "$used"
echo
echo "Do NOT use 'git stash' (the stash stack is shared between all worktrees of this repository and other engineers use it concurrently): to toggle your change use 'git diff > /tmp/seedwork$round-$id/p.diff; git apply -R /tmp/seedwork$round-$id/p.diff' and 'git apply /tmp/seedwork$round-$id/p.diff'."
echo
echo "Prefer bugs that hide well: ones that need a rare but legitimate combination (a boundary value, a second occurrence, a particular order, state carried over from an earlier operation, a crash/restart at one particular point, behaviour that differs only after a reload from disk), or two small changes that are each harmless alone."
} > /tmp/seedprompts/$id-r$round.txt
mkdir -p /tmp/seedwork$round-$id
git -C /repo worktree add -q --detach /tmp/seed$round-$id main
