#!/bin/bash
# Runs the repository's pinned test suite (guard off: no -tags verif) on /repo's working tree and compares
# with the stable-pass list in /root/.vp/BASELINE.json. ~50 min. Output: /tmp/baseline_<tag>.json + summary.
tag=${1:-run}
export GOFLAGS=-mod=mod GOPROXY=off GOSUMDB=off GOTOOLCHAIN=local
cd /repo || exit 2
git status --short | grep -v '^??'
go test -json -vet=off -count=1 -timeout 25m ./... > /tmp/baseline_$tag.json 2> /tmp/baseline_$tag.err
python3 - "$tag" <<'EOF'
import json,sys,ast
tag=sys.argv[1]
base=json.load(open('/root/.vp/BASELINE.json'))
def lst(v): return v if isinstance(v,list) else ast.literal_eval(v)
stable=lst(base['stable_pass']); always=set(lst(base['always_fail'])); flaky=set(lst(base['flaky']))
res={}
for l in open(f'/tmp/baseline_{tag}.json'):
    try: e=json.loads(l)
    except Exception: continue
    if e.get('Action') in ('pass','fail','skip') and e.get('Test'):
        res[e['Package']+'::'+e['Test']]=e['Action']
missing=[t for t in stable if res.get(t)!='pass']
print('stable',len(stable),'passed now',len(stable)-len(missing))
for t in sorted(missing): print('NOT PASS:',t,res.get(t))
print('new failures outside always_fail/flaky:',[t for t,a in res.items() if a=='fail' and t not in always and t not in flaky])
EOF
# the suite regenerates tracked/untracked artefacts: restore
git -C /repo checkout -- src/common/ed25519/vrf_comparisonData_go.txt go.sum 2>/dev/null
git -C /repo clean -fdq -e 'verif_*' -- src
git -C /repo status --short
