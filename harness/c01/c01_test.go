package c01

import (
	"encoding/json"
	"fmt"
	"os"
	"os/exec"
	"sort"
	"strings"
	"sync"
	"testing"
	"time"

	"com.tuntun.rangers/node/src/common"
	"com.tuntun.rangers/node/src/middleware/types"
	"com.tuntun.rangers/node/src/service"
	"com.tuntun.rangers/node/src/storage/account"
	"com.tuntun.rangers/node/src/utility"
	"pgregory.net/rapid"

	"verifharness/internal/blockgen"
	"verifharness/internal/boot"
	"verifharness/internal/stats"
	"verifharness/internal/txgen"
)

var (
	node        *boot.Node
	genesisRoot common.Hash
	reps        = 16
)

func TestMain(m *testing.M) {
	stats.SetRule("case = parent state (dev genesis + funding/deploy block + 0-2 generated blocks) and a generated block of 1-10 transactions over every executor " +
		"type (multi-target transfers incl. self/duplicate-case targets and odd amount strings, miner apply/add/refund/change, contract create/call with generated " +
		"EVM programs, EIP-155 wrapped txs); the SAME (parent, header, txs) is executed 16x (64x thorough) on fresh state objects, additionally with cold process caches, " +
		"with accounts pre-touched in generated orders and with the tx list handed over in shuffled order; all runs must agree on state root, receipts " +
		"(status, message, gas, logs, contract address), evicted list and executed order. non-trivial = >=2 txs of >=2 kinds or a transfer with >=2 targets")
	stats.Assume("one CPU architecture; the 3 s wall-clock cut of the proposer's 'casting' mode is by design outside the verified result")
	stats.Assume("Go randomises map iteration per range loop, so repetitions inside one process sample different orders (2-entry maps flip in ~5% of loops: hence >=16 repetitions and 4-6-target maps)")
	boot.ConfigureForks = func() {
		c := &common.LocalChainConfig
		c.Proposal020Block, c.Proposal023Block, c.Proposal026Block = 0, 0, 1
	}
	if stats.Thorough() {
		reps = 64
	}
	var err error
	if d := os.Getenv("VERIF_C01_NODEDIR"); d != "" {
		node, err = boot.StartAt(d)
	} else {
		node, err = boot.Start()
	}
	if err != nil {
		fmt.Println("VERIF-INCONCLUSIVE boot:", err)
		os.Exit(1)
	}
	genesisRoot = boot.Chain().TopBlock().StateTree
	code := m.Run()
	stats.Flush("C01")
	if os.Getenv("VERIF_C01_NODEDIR") == "" {
		node.Stop()
	}
	os.Exit(code)
}

type outcome struct {
	Root     string
	Evicted  []string
	Executed []string
	Receipts []string
	Panic    string
}

func render(res boot.ExecResult) outcome {
	o := outcome{Root: res.Root.Hex()}
	if res.Panic != nil {
		o.Panic = fmt.Sprint(res.Panic)
		return o
	}
	for _, h := range res.Evicted {
		o.Evicted = append(o.Evicted, h.Hex())
	}
	for _, tx := range res.Executed {
		o.Executed = append(o.Executed, tx.Hash.Hex())
	}
	for _, r := range res.Receipts {
		logs, _ := json.Marshal(r)
		o.Receipts = append(o.Receipts, fmt.Sprintf("tx=%s status=%d gas=%d addr=%s msg=%q result=%q logs=%s", r.TxHash.Hex()[:10], r.Status, r.GasUsed, r.ContractAddress.GetHexString(), r.Msg, r.Result, logs))
	}
	return o
}

func (a outcome) diff(b outcome) string {
	if a.Panic != b.Panic {
		return fmt.Sprintf("panic %q vs %q", a.Panic, b.Panic)
	}
	if strings.Join(a.Evicted, ",") != strings.Join(b.Evicted, ",") {
		return fmt.Sprintf("evicted lists differ: %v vs %v", a.Evicted, b.Evicted)
	}
	if strings.Join(a.Executed, ",") != strings.Join(b.Executed, ",") {
		return fmt.Sprintf("executed order differs: %v vs %v", a.Executed, b.Executed)
	}
	if len(a.Receipts) != len(b.Receipts) {
		return fmt.Sprintf("receipt counts differ %d vs %d", len(a.Receipts), len(b.Receipts))
	}
	for i := range a.Receipts {
		if a.Receipts[i] != b.Receipts[i] {
			return fmt.Sprintf("receipt %d differs:\n   %s\nvs %s", i, a.Receipts[i], b.Receipts[i])
		}
	}
	if a.Root != b.Root {
		return fmt.Sprintf("state roots differ %s vs %s (receipts equal)", a.Root, b.Root)
	}
	return ""
}

var saltCounter int

// script is everything a fresh process needs to replay a case: the blocks in order.
type scriptBlock struct {
	Height uint64
	Castor byte
	Group  []byte
	Txs    []byte // types.MarshalTransactions
}

type script struct {
	Salt   string
	Blocks []scriptBlock
}

func mustMarshalTxs(txs []*types.Transaction) []byte {
	b, err := types.MarshalTransactions(txs)
	if err != nil {
		panic(err)
	}
	return b
}

// replayScript executes a script from the genesis state and returns the outcome of every block.
func replayScript(sc *script) ([]outcome, error) {
	root, height := genesisRoot, uint64(0)
	var outs []outcome
	for _, b := range sc.Blocks {
		txs, err := types.UnMarshalTransactions(b.Txs)
		if err != nil {
			return nil, err
		}
		res := boot.Exec(root, height, hdr(sc.Salt, b.Height, b.Castor, b.Group), txs, "fullverify")
		outs = append(outs, render(res))
		if res.Panic != nil {
			return outs, nil
		}
		r, err := boot.Persist(res.State)
		if err != nil {
			return nil, err
		}
		root, height = r, b.Height
	}
	return outs, nil
}

// TestChildReplay runs only in a child process started by the main property: a brand-new
// process (no process-local cache has ever been filled) replays a recorded case.
func TestChildReplay(t *testing.T) {
	path := os.Getenv("VERIF_C01_SCRIPT")
	if path == "" {
		t.Skip("child mode only")
	}
	raw, err := os.ReadFile(path)
	if err != nil {
		t.Fatal(err)
	}
	var sc script
	if err := json.Unmarshal(raw, &sc); err != nil {
		t.Fatal(err)
	}
	outs, err := replayScript(&sc)
	if err != nil {
		t.Fatal(err)
	}
	b, _ := json.Marshal(outs)
	if err := os.WriteFile(path+".out", b, 0o644); err != nil {
		t.Fatal(err)
	}
}

func runChild(sc *script) ([]outcome, error) {
	dir, err := os.MkdirTemp("", "c01child-")
	if err != nil {
		return nil, err
	}
	defer os.RemoveAll(dir)
	path := dir + "/script.json"
	b, _ := json.Marshal(sc)
	if err := os.WriteFile(path, b, 0o644); err != nil {
		return nil, err
	}
	cmd := exec.Command(selfExe, "-test.run", "^TestChildReplay$", "-test.timeout", "120s")
	cmd.Dir = dir
	cmd.Env = append(os.Environ(), "VERIF_C01_SCRIPT="+path, "VERIF_OUT=", "TMPDIR="+dir)
	out, err := cmd.CombinedOutput()
	if err != nil {
		return nil, fmt.Errorf("child failed: %v\n%s", err, out)
	}
	raw, err := os.ReadFile(path + ".out")
	if err != nil {
		return nil, err
	}
	var outs []outcome
	return outs, json.Unmarshal(raw, &outs)
}

var selfExe, _ = os.Executable()

type world struct {
	root      common.Hash
	height    uint64
	contracts []string
	suicidal  []string // deployed contracts whose runtime is a bare SELFDESTRUCT(beneficiary)
	shared    int      // >0: this history registers several proposers with one reward account (in its first block)
	nonces    map[int]uint64
}

func hdr(salt string, h uint64, castor byte, group []byte) *types.BlockHeader {
	return &types.BlockHeader{Height: h, Castor: []byte{castor, 1}, GroupId: group, CurTime: time.Date(2024, 5, 1, 0, 0, int(h%60), 0, time.UTC),
		Hash: common.BytesToHash(common.Sha256([]byte(fmt.Sprintf("%s-%d", salt, h))))}
}

// universe of addresses programs and transfers may name
func universe() []string {
	var u []string
	for i := 0; i < blockgen.NKeys; i++ {
		u = append(u, blockgen.Addr(i))
	}
	return u
}

func genBlock(t *rapid.T, w *world, salt string, label string) ([]*types.Transaction, []blockgen.Tx) {
	n := rapid.IntRange(1, 10).Draw(t, label+"_nTx")
	var out []blockgen.Tx
	blockgen.ExtraTargets = w.contracts
	for i := 0; i < n; i++ {
		src := rapid.IntRange(0, 3).Draw(t, "src")
		w.nonces[src]++
		s := fmt.Sprintf("%s-%s-%d", salt, label, i)
		var tx blockgen.Tx
		switch rapid.SampledFrom([]string{"transfer", "transfer", "transfer", "miner", "miner", "contract", "contract", "contract", "eth"}).Draw(t, "txKind") {
		case "transfer":
			tx = blockgen.GenTransfer(t, src, w.nonces[src], s, stats.IsKnown("F-C01-a"))
			if strings.Contains(tx.Desc, "[steered]") {
				stats.Exclude("F-C01-a")
			}
		case "miner":
			tx = blockgen.GenMiner(t, src, w.nonces[src], s)
		case "contract":
			tx = blockgen.GenContract(t, src, w.nonces[src], s, w.contracts, universe(), nil)
		case "eth":
			st, err := boot.OpenState(w.root)
			if err != nil {
				t.Fatalf("open: %v", err)
			}
			tx = blockgen.GenEthTx(t, src, st.GetNonce(common.HexToAddress(blockgen.Addr(src))), w.contracts, universe(), nil)
		}
		dup := false
		for _, o := range out {
			if o.Tx.Hash == tx.Tx.Hash {
				dup = true
			}
		}
		if !dup {
			out = append(out, tx)
		}
	}
	// a contract that self-destructs when called, called and paid (without running code) in the same block, by
	// different senders so that the executor's order decides which comes first
	if len(w.suicidal) > 0 && rapid.IntRange(0, 2).Draw(t, label+"_paySuicided") == 0 {
		c := rapid.SampledFrom(w.suicidal).Draw(t, label+"_suicidal")
		a, b := rapid.IntRange(0, 3).Draw(t, label+"_caller"), rapid.IntRange(0, 3).Draw(t, label+"_payer")
		w.nonces[a]++
		ka := txgen.K(a)
		call := txgen.Contract(ka, ka.Addr, c, "0x", rapid.SampledFrom([]string{"0", "1"}).Draw(t, label+"_callValue"), "3000000", "1000000000", w.nonces[a], fmt.Sprintf("%s-%s-sdcall", salt, label))
		out = append(out, blockgen.Tx{Tx: call, Kind: "contract_call", Desc: fmt.Sprintf("call(K%d->selfdestructor %s)", a, c[:10])})
		for i, n := 0, rapid.IntRange(1, 2).Draw(t, label+"_nPay"); i < n; i++ {
			w.nonces[b]++
			kb := txgen.K(b)
			pay := txgen.Transfer(kb.Addr, kb, [][2]string{{c, rapid.SampledFrom([]string{"1", "0.5", "7"}).Draw(t, label+"_payAmount")}}, w.nonces[b], fmt.Sprintf("%s-%s-sdpay%d", salt, label, i))
			out = append(out, blockgen.Tx{Tx: pay, Kind: "transfer", Desc: fmt.Sprintf("transfer(K%d->selfdestructor %s)", b, c[:10])})
		}
		stats.Class("block:selfdestructor_called_and_paid")
	}
	// several proposers applying in one block with the same reward account and unrelated stakes: once they are
	// mature, the reward of that account is a sum over several registry entries
	if w.shared == 1 {
		w.shared = 2
		acc := blockgen.Addr(4 + rapid.IntRange(0, 1).Draw(t, label+"_sharedAcc"))
		for _, src := range rapid.Permutation([]int{0, 1, 2, 3}).Draw(t, label+"_sharedSrcs")[:rapid.IntRange(3, 4).Draw(t, label+"_nShared")] {
			w.nonces[src]++
			stake := uint64(2000 + rapid.IntRange(0, 3000).Draw(t, label+"_sharedStake"))
			md := txgen.MinerData{Type: 1, Stake: stake, PublicKey: "0x0102", VrfPublicKey: []byte{3, 4}, Account: acc}
			tx := txgen.MinerApply(txgen.K(src), md, w.nonces[src], fmt.Sprintf("%s-%s-shared%d", salt, label, src))
			out = append(out, blockgen.Tx{Tx: tx, Kind: "miner_apply", Desc: fmt.Sprintf("apply(K%d,proposer,stake%d,acc=shared)", src, stake)})
		}
		stats.Class("block:proposers_sharing_a_reward_account")
	}
	var txs []*types.Transaction
	for _, x := range out {
		txs = append(txs, x.Tx)
	}
	return txs, out
}

func addressesNamed(txs []blockgen.Tx) []common.Address {
	set := map[common.Address]bool{common.FeeAccount: true}
	for _, x := range txs {
		set[common.HexToAddress(x.Tx.Source)] = true
		if x.Tx.Target != "" {
			set[common.HexToAddress(x.Tx.Target)] = true
		}
		var m map[string]json.RawMessage
		if json.Unmarshal([]byte(x.Tx.ExtraData), &m) == nil {
			for k := range m {
				set[common.HexToAddress(k)] = true
			}
		}
	}
	var out []common.Address
	for a := range set {
		out = append(out, a)
	}
	sort.Slice(out, func(i, j int) bool { return out[i].GetHexString() < out[j].GetHexString() })
	return out
}

func TestBlockExecutionIsDeterministic(t *testing.T) {
	stats.Check(t, 160, 900, func(t *rapid.T) {
		saltCounter++
		salt := fmt.Sprintf("c01-%d-%d", os.Getpid(), saltCounter)
		w := &world{root: genesisRoot, nonces: map[int]uint64{}}
		if rapid.IntRange(0, 5).Draw(t, "sharedRewardAccount") == 0 {
			w.shared = 1
		}
		sc := &script{Salt: salt}
		var parentOutcomes []outcome
		// block 1: funding + a few contract deployments
		var b1 []*types.Transaction
		for i := 0; i < 4; i++ {
			amt := rapid.SampledFrom([]string{"5", "450", "2500", "100000"}).Draw(t, fmt.Sprintf("fund%d", i))
			if w.shared > 0 {
				amt = "100000"
			}
			b1 = append(b1, txgen.Transfer(txgen.Faucets[0], nil, [][2]string{{blockgen.Addr(i), amt}}, uint64(i+1), fmt.Sprintf("%s-f%d", salt, i)))
		}
		nDeploy := rapid.IntRange(0, 3).Draw(t, "nDeploy")
		suicidalDeploys := map[common.Hash]bool{}
		for i := 0; i < nDeploy; i++ {
			rt, _ := blockgen.GenRuntime(t, universe(), fmt.Sprintf("dep%d", i))
			bare := rapid.IntRange(0, 2).Draw(t, fmt.Sprintf("bareSelfdestruct%d", i)) == 0
			if bare {
				rt = (&blockgen.Asm{}).PushAddr(blockgen.Addr(rapid.IntRange(0, 3).Draw(t, "beneficiary"))).Op(blockgen.SELFDESTRUCT).Bytes()
			}
			dtx := txgen.Contract(nil, txgen.Faucets[1], "", "0x"+fmt.Sprintf("%x", blockgen.InitCodeFor(rt)), "0", "3000000", "1000000000", uint64(i+1), fmt.Sprintf("%s-d%d", salt, i))
			suicidalDeploys[dtx.Hash] = bare
			b1 = append(b1, dtx)
		}
		unknownGroup := []byte("no-such-group")
		genesisGroup := boot.Groups().LastGroup().Id
		r1 := boot.Exec(w.root, 0, hdr(salt, 1, 1, unknownGroup), b1, "fullverify")
		sc.Blocks = append(sc.Blocks, scriptBlock{Height: 1, Castor: 1, Group: unknownGroup, Txs: mustMarshalTxs(b1)})
		parentOutcomes = append(parentOutcomes, render(r1))
		if r1.Panic != nil {
			t.Fatalf("setup block panicked: %v", r1.Panic)
		}
		for _, r := range r1.Receipts {
			if (r.ContractAddress != common.Address{}) && r.Status == types.ReceiptStatusSuccessful {
				w.contracts = append(w.contracts, r.ContractAddress.GetHexString())
				if suicidalDeploys[r.TxHash] {
					w.suicidal = append(w.suicidal, r.ContractAddress.GetHexString())
				}
			}
		}
		root, err := boot.Persist(r1.State)
		if err != nil {
			t.Fatalf("persist: %v", err)
		}
		w.root, w.height = root, 1

		nBlocks := rapid.IntRange(1, 4).Draw(t, "nBlocks")
		for b := 0; b < nBlocks; b++ {
			txs, meta := genBlock(t, w, salt, fmt.Sprintf("b%d", b))
			group := unknownGroup
			if rapid.Bool().Draw(t, "rewardedBlock") || (w.shared == 2 && rapid.IntRange(0, 3).Draw(t, "rewardShared") > 0) {
				group = genesisGroup // rewards are computed and scheduled
			}
			castor := byte(rapid.IntRange(1, 3).Draw(t, "castor"))
			// heights need not be consecutive; a jump past the stake maturity delay makes miners applied
			// earlier in the history count for election totals and rewards
			nextHeight := w.height + rapid.SampledFrom([]uint64{1, 1, 1, 350}).Draw(t, "heightInc")
			if w.shared == 2 && b == 1 {
				nextHeight = w.height + 350 // the proposers registered in the previous block are mature now
			}
			h := hdr(salt, nextHeight, castor, group)
			base := boot.Exec(w.root, w.height, h, txs, "fullverify")
			ref := render(base)
			sc.Blocks = append(sc.Blocks, scriptBlock{Height: nextHeight, Castor: castor, Group: group, Txs: mustMarshalTxs(txs)})
			parentOutcomes = append(parentOutcomes, ref)
			if base.Panic != nil {
				t.Fatalf("block executor panicked: %v\nblock: %s", base.Panic, descs(meta))
			}
			named := addressesNamed(meta)
			for rep := 1; rep < reps; rep++ {
				var pre func(*account.AccountDB)
				list := txs
				mode := rep % 6
				globalHeight := w.height
				var stopReaders func() string
				switch mode {
				case 5: // goroutine timing: other goroutines of the node (RPC balance queries, pool checks) read
					// accounts of the parent state through their own AccountDB while the block executes
					stopReaders = startReaders(w.root, named, rapid.IntRange(2, 6).Draw(t, "readers"))
				case 4: // a node whose own head is elsewhere (verifying a fork block): the process-global head
					// height differs; no fork boundary lies in between, so the result must not
					globalHeight = w.height + uint64(rapid.IntRange(1, 5000).Draw(t, "headAhead"))
				case 1: // cold process-local caches
					account.VerifResetProcessCaches()
				case 2: // accounts first touched in a generated order, through read-only accessors
					order := rapid.Permutation(named).Draw(t, "touchOrder")
					pre = func(st *account.AccountDB) {
						for _, a := range order {
							st.GetBalance(a)
							st.GetNonce(a)
							st.GetCodeHash(a)
						}
					}
				case 3: // the same transaction set handed over in another order (the executor sorts it)
					list = rapid.Permutation(txs).Draw(t, "listOrder")
				}
				got := boot.ExecWith(w.root, globalHeight, h, list, "fullverify", pre)
				if stopReaders != nil {
					if p := stopReaders(); p != "" {
						t.Fatalf("a goroutine reading balances of the parent state while the block executed crashed: %s\nblock: %s", p, descs(meta))
					}
					stats.Count("executions_with_concurrent_readers", 1)
				}
				if d := ref.diff(render(got)); d != "" {
					t.Fatalf("repetition %d (mode %d) of the same block disagrees with the first run: %s\nblock: %s", rep, mode, d, descs(meta))
				}
			}
			// proposer and verifiers: the proposer executes the offered list until its time budget is spent (the
			// clock is steered here so that the budget runs out at a generated transaction), and puts what it reports
			// as executed into the block. A verifier executing exactly that list on the same parent with the same header
			// must arrive at the proposer's root and receipts, wherever the budget happened to end.
			{
				offered := append([]*types.Transaction{}, txs...)
				txgen.SortForBlock(offered)
				cutAt := rapid.IntRange(0, len(offered)+1).Draw(t, "castBudgetEndsAtClockRead")
				reads := 0
				t0 := time.Date(2024, 5, 1, 8, 0, 0, 0, time.UTC)
				utility.VerifSetClock(func() time.Time {
					reads++
					if reads > cutAt+1 { // the first read is the start of the budget
						return t0.Add(10 * time.Second)
					}
					return t0
				})
				cast := boot.ExecWith(w.root, w.height, h, offered, "casting", nil)
				utility.VerifSetClock(nil)
				if cast.Panic != nil {
					t.Fatalf("block executor panicked while casting: %v\nblock: %s", cast.Panic, descs(meta))
				}
				ver := boot.ExecWith(w.root, w.height, h, cast.Executed, "fullverify", nil)
				if ver.Panic != nil {
					t.Fatalf("block executor panicked while verifying the cast block: %v\nblock: %s", ver.Panic, descs(meta))
				}
				pc, pv := render(cast), render(ver)
				pc.Evicted, pv.Evicted = nil, nil // the proposer's evictions are not part of what verifiers recompute
				if d := pc.diff(pv); d != "" {
					t.Fatalf("a verifier executing the %d transactions the proposer packed (of %d offered; time budget spent at clock read %d) disagrees with the proposer: %s\nblock: %s",
						len(cast.Executed), len(offered), cutAt, d, descs(meta))
				}
				if len(cast.Executed) < len(offered)-len(cast.Evicted) {
					stats.Class("cast:time_budget_cut_the_list")
				} else {
					stats.Class("cast:whole_list_packed")
				}
			}
			stats.Count("executions", int64(reps))
			kinds := map[string]bool{}
			multi := false
			for _, m := range meta {
				kinds[m.Kind] = true
				if m.Kind == "transfer" && strings.Count(m.Tx.ExtraData, "balance") >= 2 {
					multi = true
				}
				stats.Class("tx_" + m.Kind)
			}
			for _, r := range base.Receipts {
				stats.Class(fmt.Sprintf("receipt_status_%d", r.Status))
			}
			key := ""
			if len(meta) >= 2 && len(kinds) >= 2 || multi {
				key = descs(meta)
			}
			stats.Case(key, fmt.Sprintf("kinds_%d", len(kinds)))
			if len(meta) <= 4 {
				stats.Sample(map[string]interface{}{"block": descs(meta), "receipts": ref.Receipts})
			}
			// continue the history on the executed state
			root, err := boot.Persist(base.State)
			if err != nil {
				t.Fatalf("persist: %v", err)
			}
			if root != base.Root {
				t.Fatalf("commit root %s differs from executor root %s", root.Hex(), base.Root.Hex())
			}
			for _, r := range base.Receipts {
				if (r.ContractAddress != common.Address{}) && r.Status == types.ReceiptStatusSuccessful {
					w.contracts = append(w.contracts, r.ContractAddress.GetHexString())
				}
			}
			w.root, w.height = root, nextHeight
		}
		// a brand-new process (all process-local caches empty, no earlier case executed) replays the case
		if rapid.IntRange(0, 7).Draw(t, "freshProcess") == 0 {
			childOuts, err := runChild(sc)
			if err != nil {
				t.Fatalf("VERIF-INCONCLUSIVE child process: %v", err)
			}
			if len(childOuts) != len(parentOutcomes) {
				t.Fatalf("fresh process produced %d block outcomes, this process %d", len(childOuts), len(parentOutcomes))
			}
			for i := range childOuts {
				if d := parentOutcomes[i].diff(childOuts[i]); d != "" {
					t.Fatalf("a fresh process executing the same history disagrees at block %d: %s", i, d)
				}
			}
			stats.Count("fresh_process_replays", 1)
		}
	})
}

// startReaders starts n goroutines that read balances, nonces and code hashes of the given accounts at
// root, each through an AccountDB of its own (as the RPC layer and the pool do on a running node),
// until the returned function is called. It reports a reader's panic, if any.
func startReaders(root common.Hash, addrs []common.Address, n int) func() string {
	all := append([]common.Address{}, addrs...)
	for i := 0; i < 4; i++ {
		all = append(all, common.HexToAddress(blockgen.Addr(i)))
	}
	stop := make(chan struct{})
	var wg sync.WaitGroup
	var mu sync.Mutex
	crashed := ""
	for g := 0; g < n; g++ {
		wg.Add(1)
		go func(g int) {
			defer wg.Done()
			defer func() {
				if r := recover(); r != nil {
					mu.Lock()
					crashed = fmt.Sprint(r)
					mu.Unlock()
				}
			}()
			st, err := boot.OpenState(root)
			if err != nil {
				return
			}
			for i := g; ; i++ {
				select {
				case <-stop:
					return
				default:
				}
				a := all[i%len(all)]
				st.GetBalance(a)
				st.GetNonce(a)
			}
		}(g)
	}
	return func() string {
		close(stop)
		wg.Wait()
		mu.Lock()
		defer mu.Unlock()
		return crashed
	}
}

func descs(m []blockgen.Tx) string {
	var s []string
	for _, x := range m {
		s = append(s, x.Desc)
	}
	return strings.Join(s, "; ")
}

// TestChangeAssetsDirect calls the asset-transfer routine itself many times on copies of one
// state: (message, ok, root) must not depend on the iteration order of the target map.
func TestChangeAssetsDirect(t *testing.T) {
	stats.Check(t, 120, 800, func(t *rapid.T) {
		saltCounter++
		st0, err := boot.OpenState(genesisRoot)
		if err != nil {
			t.Fatal(err)
		}
		src := txgen.Faucets[2]
		bal := rapid.SampledFrom([]string{"10", "3", "1000"}).Draw(t, "sourceBalance")
		n := rapid.IntRange(2, 6).Draw(t, "nTargets")
		targets := map[string]types.TransferData{}
		selfOrDup := false
		for i := 0; i < n; i++ {
			var a string
			switch rapid.IntRange(0, 4).Draw(t, "kind") {
			case 0:
				a = src
				selfOrDup = true
			case 1:
				a = "0x" + strings.ToUpper(blockgen.Addr(rapid.IntRange(0, 2).Draw(t, "up"))[2:])
			default:
				a = blockgen.Addr(rapid.IntRange(0, 2).Draw(t, "idx"))
			}
			targets[a] = types.TransferData{Balance: rapid.SampledFrom([]string{"1", "2", "5", "8", "0.5", "11"}).Draw(t, "amt")}
		}
		seen := map[string]bool{}
		for a := range targets {
			if seen[strings.ToLower(a)] {
				selfOrDup = true
			}
			seen[strings.ToLower(a)] = true
		}
		if selfOrDup && stats.IsKnown("F-C01-a") {
			stats.Exclude("F-C01-a")
			clean := map[string]types.TransferData{}
			s2 := map[string]bool{}
			for a, v := range targets {
				if strings.ToLower(a) == src || s2[strings.ToLower(a)] {
					continue
				}
				s2[strings.ToLower(a)] = true
				clean[a] = v
			}
			targets = clean
		}
		run := func() string {
			st, _ := boot.OpenState(genesisRoot)
			b, _ := utility.StrToBigInt(bal)
			st.SetBalance(common.HexToAddress(src), b)
			msg, ok := service.ChangeAssets(src, targets, st)
			if !ok {
				// the caller (block executor) reverts to its snapshot on failure, so partially applied
				// transfers are not part of the outcome
				return fmt.Sprintf("ok=%v msg=%s", ok, msg)
			}
			return fmt.Sprintf("ok=%v msg=%s root=%s", ok, msg, st.IntermediateRoot(true).Hex())
		}
		_ = st0
		first := run()
		for i := 1; i < 8*reps; i++ {
			if got := run(); got != first {
				t.Fatalf("ChangeAssets is order dependent for source balance %s targets %v:\n   %s\nvs %s", bal, targets, first, got)
			}
		}
		key := ""
		if len(targets) >= 2 {
			key = fmt.Sprintf("%s|%v", bal, targets)
		}
		stats.Case(key, fmt.Sprintf("direct_targets_%d", len(targets)))
	})
}

// ---------- warm process vs. brand-new process on the SAME stores ----------

type coldJob struct {
	ParentRoot   string
	ParentHeight uint64
	Height       uint64
	Castor       byte
	Group        []byte
	Salt         string
	Txs          []byte
}

// TestChildColdExec runs only in a child process: it boots over a COPY of the parent's node directory
// and executes the given blocks, last one first, each on its recorded parent root.
func TestChildColdExec(t *testing.T) {
	path := os.Getenv("VERIF_C01_COLD")
	if path == "" {
		t.Skip("child mode only")
	}
	raw, err := os.ReadFile(path)
	if err != nil {
		t.Fatal(err)
	}
	var jobs []coldJob
	if err := json.Unmarshal(raw, &jobs); err != nil {
		t.Fatal(err)
	}
	if os.Getenv("VERIF_C01_CLOSE_SIDE_STORES") != "" {
		// a replica whose node-local side store (the miner public-key store, not part of the state) has become
		// unwritable - closed during shutdown while a block is still being executed, disk full: what it executes
		// may not depend on that
		service.MinerManagerImpl.Close()
	}
	outs := make([]outcome, len(jobs))
	for i := len(jobs) - 1; i >= 0; i-- {
		j := jobs[i]
		txs, err := types.UnMarshalTransactions(j.Txs)
		if err != nil {
			t.Fatal(err)
		}
		outs[i] = render(boot.Exec(common.HexToHash(j.ParentRoot), j.ParentHeight, hdr(j.Salt, j.Height, j.Castor, j.Group), txs, "fullverify"))
	}
	b, _ := json.Marshal(outs)
	if err := os.WriteFile(path+".out", b, 0o644); err != nil {
		t.Fatal(err)
	}
}

func runColdChild(jobs []coldJob, env ...string) ([]outcome, error) {
	dir, err := os.MkdirTemp("", "c01cold-")
	if err != nil {
		return nil, err
	}
	defer os.RemoveAll(dir)
	nodeCopy := dir + "/node"
	if out, err := exec.Command("cp", "-r", node.Dir, nodeCopy).CombinedOutput(); err != nil {
		return nil, fmt.Errorf("copy stores: %v %s", err, out)
	}
	path := dir + "/jobs.json"
	b, _ := json.Marshal(jobs)
	if err := os.WriteFile(path, b, 0o644); err != nil {
		return nil, err
	}
	cmd := exec.Command(selfExe, "-test.run", "^TestChildColdExec$", "-test.timeout", "120s")
	cmd.Dir = dir
	cmd.Env = append(os.Environ(), "VERIF_C01_COLD="+path, "VERIF_C01_NODEDIR="+nodeCopy, "VERIF_OUT=", "TMPDIR="+dir)
	cmd.Env = append(cmd.Env, env...)
	out, err := cmd.CombinedOutput()
	if err != nil {
		return nil, fmt.Errorf("child failed: %v\n%s", err, out)
	}
	raw, err := os.ReadFile(path + ".out")
	if err != nil {
		return nil, err
	}
	var outs []outcome
	return outs, json.Unmarshal(raw, &outs)
}

// TestMinerHistoriesWarmVsFresh: miner-heavy histories (the registry is consulted through several lookup
// paths that invite caching). The process that executed the whole history - and therefore has every
// process-local cache warm - must agree, block by block, with a brand-new process that opens the same
// stores and executes the blocks in reverse order without ever having seen the earlier ones.
func TestMinerHistoriesWarmVsFresh(t *testing.T) {
	stats.Check(t, 45, 300, func(t *rapid.T) {
		saltCounter++
		salt := fmt.Sprintf("c01m-%d-%d", os.Getpid(), saltCounter)
		root, height := genesisRoot, uint64(0)
		var fund []*types.Transaction
		for i := 0; i < 4; i++ {
			fund = append(fund, txgen.Transfer(txgen.Faucets[0], nil, [][2]string{{blockgen.Addr(i), "9000"}}, uint64(i+1), fmt.Sprintf("%s-f%d", salt, i)))
		}
		group := []byte("no-such-group") // headers naming an unknown group schedule no reward
		if rapid.Bool().Draw(t, "rewardedBlocks") {
			group = boot.Groups().LastGroup().Id // rewards are computed from the registry and scheduled
			stats.Class("miner_history_with_rewarded_blocks")
		}
		r1 := boot.Exec(root, 0, hdr(salt, 1, 1, group), fund, "fullverify")
		if r1.Panic != nil {
			t.Fatalf("funding panicked: %v", r1.Panic)
		}
		nr, err := boot.Persist(r1.State)
		if err != nil {
			t.Fatal(err)
		}
		root, height = nr, 1
		var jobs []coldJob
		var warm []outcome
		var fingerprint []string
		nonces := map[int]uint64{}
		nBlocks := rapid.IntRange(3, 7).Draw(t, "nBlocks")
		// a third of the histories start with two or three senders applying for their own proposer with the full
		// stake and keep 350 heights between blocks (a proposer counts from 300 heights after its application):
		// later blocks - and their siblings - then run with working proposers whose stake can be topped up
		proposerFocus := rapid.IntRange(0, 2).Draw(t, "proposerFocus") == 0
		nFocus := 0
		if proposerFocus {
			nFocus = rapid.IntRange(2, 3).Draw(t, "focusProposers")
			stats.Class("miner_history_with_working_proposers")
		}
		for b := 0; b < nBlocks; b++ {
			var txs []*types.Transaction
			var meta []blockgen.Tx
			before := map[int]uint64{}
			for k, v := range nonces {
				before[k] = v
			}
			if proposerFocus && b == 0 {
				for src := 0; src < nFocus; src++ {
					nonces[src]++
					md := txgen.MinerData{Type: common.MinerTypeProposer, Stake: 2000, PublicKey: "0x0102", VrfPublicKey: []byte{3, 4}}
					x := blockgen.Tx{Tx: txgen.MinerApply(txgen.K(src), md, nonces[src], fmt.Sprintf("%s-b0-own%d", salt, src)), Kind: "miner_apply", Desc: fmt.Sprintf("apply(K%d,type1,stake2000)", src)}
					meta = append(meta, x)
					txs = append(txs, x.Tx)
				}
			}
			for i, n := 0, rapid.IntRange(1, 3).Draw(t, "nTx"); i < n && !(proposerFocus && b == 0); i++ {
				src := rapid.IntRange(0, 3).Draw(t, "src")
				nonces[src]++
				x := blockgen.GenMiner(t, src, nonces[src], fmt.Sprintf("%s-b%d-%d", salt, b, i))
				meta = append(meta, x)
				txs = append(txs, x.Tx)
			}
			nextHeight := height + rapid.SampledFrom([]uint64{1, 1, 350}).Draw(t, "heightInc")
			if proposerFocus {
				nextHeight = height + 350
			}
			// a node also executes blocks that never join its chain: competing candidates of the same height on the
			// same parent (verified for another proposer, or met on a fork). In half of the steps the warm process
			// executes such a sibling - other miner operations, same senders and nonces - right before the block
			// of the history; the brand-new process below never sees the siblings.
			if rapid.Bool().Draw(t, "siblingFirst") {
				var sib []*types.Transaction
				var sibMeta []blockgen.Tx
				used := map[int]uint64{} // the sibling spends the same nonces as the block of the history
				for k, v := range before {
					used[k] = v
				}
				for i, n := 0, rapid.IntRange(1, 3).Draw(t, "nSibTx"); i < n; i++ {
					src := rapid.IntRange(0, 3).Draw(t, "sibSrc")
					used[src]++
					x := blockgen.GenMiner(t, src, used[src], fmt.Sprintf("%s-s%d-%d", salt, b, i))
					if proposerFocus && rapid.Bool().Draw(t, "sibTopUp") {
						who := rapid.IntRange(0, nFocus-1).Draw(t, "sibTopUpWhom")
						amt := rapid.SampledFrom([]uint64{1, 100, 1000}).Draw(t, "sibTopUpStake")
						x = blockgen.Tx{Tx: txgen.MinerAdd(txgen.K(src), common.ToHex(txgen.K(who).ID), amt, used[src], fmt.Sprintf("%s-s%d-%d", salt, b, i)), Kind: "miner_add", Desc: fmt.Sprintf("add(K%d->proposer of K%d,+%d)", src, who, amt)}
					}
					sibMeta = append(sibMeta, x)
					sib = append(sib, x.Tx)
				}
				sres := boot.Exec(root, height, hdr(salt+"-sibling", nextHeight, 2, group), sib, "fullverify")
				if sres.Panic != nil {
					t.Fatalf("executor panicked on a sibling block: %v\nblock: %s", sres.Panic, descs(sibMeta))
				}
				stats.Class("miner_history_sibling_block_executed_first")
				fingerprint = append(fingerprint, "[sibling at the same height: "+descs(sibMeta)+"]")
			}
			res := boot.Exec(root, height, hdr(salt, nextHeight, 1, group), txs, "fullverify")
			if res.Panic != nil {
				t.Fatalf("executor panicked: %v\nblock: %s", res.Panic, descs(meta))
			}
			o := render(res)
			warm = append(warm, o)
			jobs = append(jobs, coldJob{ParentRoot: root.Hex(), ParentHeight: height, Height: nextHeight, Castor: 1, Group: group, Salt: salt, Txs: mustMarshalTxs(txs)})
			for i, m := range meta {
				st := "?"
				if i < len(res.Receipts) {
					st = fmt.Sprint(res.Receipts[i].Status)
				}
				fingerprint = append(fingerprint, m.Desc+"="+st)
			}
			nr, err := boot.Persist(res.State)
			if err != nil {
				t.Fatal(err)
			}
			root, height = nr, nextHeight
		}
		// the warm process itself, blocks in reverse order
		for i := len(jobs) - 1; i >= 0; i-- {
			j := jobs[i]
			txs, _ := types.UnMarshalTransactions(j.Txs)
			again := render(boot.Exec(common.HexToHash(j.ParentRoot), j.ParentHeight, hdr(j.Salt, j.Height, j.Castor, j.Group), txs, "fullverify"))
			if d := warm[i].diff(again); d != "" {
				t.Fatalf("re-executing block %d of the history (same parent root, same header, same txs) after later blocks disagrees with its first execution: %s\nhistory: %s", i, d, strings.Join(fingerprint, "; "))
			}
		}
		cold, err := runColdChild(jobs)
		if err != nil {
			t.Fatalf("VERIF-INCONCLUSIVE cold child: %v", err)
		}
		for i := range jobs {
			if d := warm[i].diff(cold[i]); d != "" {
				t.Fatalf("a brand-new process on the same stores disagrees with the process that executed the history, at block %d: %s\nhistory: %s", i, d, strings.Join(fingerprint, "; "))
			}
		}
		if rapid.IntRange(0, 2).Draw(t, "replicaWithClosedSideStore") == 0 {
			faulty, err := runColdChild(jobs, "VERIF_C01_CLOSE_SIDE_STORES=1")
			if err != nil {
				t.Fatalf("VERIF-INCONCLUSIVE cold child (side stores closed): %v", err)
			}
			for i := range jobs {
				if d := warm[i].diff(faulty[i]); d != "" {
					t.Fatalf("a replica whose node-local miner public-key store cannot be written (it is not part of the state) disagrees with a healthy one, at block %d: %s\nhistory: %s", i, d, strings.Join(fingerprint, "; "))
				}
			}
			stats.Class("miner_history_replica_with_closed_side_store")
		}
		stats.Count("cold_process_blocks", int64(len(jobs)))
		stats.Case("minerhist:"+strings.Join(fingerprint, ";"), "miner_history")
		if len(fingerprint) < 8 {
			stats.Sample(map[string]interface{}{"miner_history": fingerprint})
		}
	})
}
