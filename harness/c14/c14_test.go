package c14

import (
	"bytes"
	"encoding/json"
	"fmt"
	"math/big"
	"os"
	"testing"

	"com.tuntun.rangers/node/src/consensus/base"
	"com.tuntun.rangers/node/src/consensus/groupsig"
	bn "com.tuntun.rangers/node/src/consensus/groupsig/bn256"
	"pgregory.net/rapid"

	"verifharness/internal/ref"
	"verifharness/internal/stats"
)

func TestMain(m *testing.M) {
	stats.SetRule("one case = one (secret key, message) pair with ~700 candidate signature encodings (TestSigBytes) or ~1300 candidate public-key " +
		"encodings (TestPubkeyBytes): identity, -s, 2s, k*s, s+s', s for a related/other message or key, random curve points, twist points outside G2, " +
		"pk + cofactor-torsion point, all single-bit flips, off-curve pairs, every truncation, over-long, coordinates >= p; plus round trips and pairing laws. " +
		"non-trivial = the case contains an adversarial encoding that parses to a valid curve point or a bit flip (all Sig/Pubkey cases do); for round trips / pairing " +
		"laws non-trivial = scalar >= 2^64. Receiver-history tests: the same byte strings parsed into receivers with 10-14 generated prior histories per parse entry point " +
		"(non-trivial = accepted well-formed point into a non-fresh receiver). Secret-key magnitude tests: held integer drawn by magnitude class x constructor (non-trivial = held value >= 2^64). distinct by (law, key, message) and, for valid-point candidates, by (family/history, candidate bytes)")
	stats.Assume("reference = affine big.Int arithmetic for the BN256 curve / twist in internal/ref/bn256.go (p, n derived from u; generator of G2 and the hash-to-point " +
		"taken from the implementation as scheme parameters); BLS uniqueness: for pk = sk*g2 the only G1 element s with e(s,g2)=e(H(m),pk) is sk*H(m)")
	stats.Assume("public keys: the statement fixes the key as a group element, so a non-canonical byte string that denotes the SAME element (pk||junk, coordinate+p) is " +
		"recorded (classes pk_noncanonical_same_element:*) but not asserted; every byte string that denotes a different element or none must not verify")
	if initErr != "" { // scheme parameters do not match the reference: nothing below would be meaningful
		fmt.Printf("--- FAIL: TestReferenceParameters (0.00s)\n    c14_test.go:1: %s\nFAIL\n", initErr)
		stats.Flush("C14")
		os.Exit(1)
	}
	stats.Main(m, "C14")
}

const (
	fTrailing = "F-C14-a" // sigma||junk verifies
	fRange    = "F-C14-b" // coordinate x+p accepted as x
)

var (
	p       = ref.BNP
	order   = ref.BNOrder
	two256  = new(big.Int).Lsh(big.NewInt(1), 256)
	g2genB  = bn.GetG2Base().Marshal()
	g2gen   ref.G2Pt
	gtOne   = func() []byte { b := make([]byte, 384); b[383] = 1; return b }()
	zero64  = make([]byte, 64)
	zero128 = make([]byte, 128)
)

var initErr string

func init() {
	if p.Cmp(bn.P) != 0 || order.Cmp(bn.Order) != 0 {
		initErr = "reference curve parameters differ from bn256.P / bn256.Order"
		return
	}
	pt, cls := ref.G2DecodeStrict(g2genB)
	if cls != ref.EncPoint || !ref.G2InSubgroup(pt) {
		initErr = fmt.Sprintf("G2 generator as marshalled by the implementation (%x) is not a point of order n on the reference twist: %s", g2genB, cls)
		return
	}
	g2gen = pt
}

type fataler interface {
	Fatalf(string, ...interface{})
}

// sameScalar: two held integers denote the same element of Z_n.
func sameScalar(a, b *big.Int) bool {
	return new(big.Int).Mod(new(big.Int).Sub(a, b), order).Sign() == 0
}

func cp(b []byte) []byte { return append([]byte{}, b...) }

func cat(bs ...[]byte) []byte {
	var out []byte
	for _, b := range bs {
		out = append(out, b...)
	}
	return out
}

func word(x *big.Int) []byte { return x.FillBytes(make([]byte, 32)) }

// ---------- generators ----------

func genScalar() *rapid.Generator[*big.Int] {
	edges := []*big.Int{big.NewInt(1), big.NewInt(2), big.NewInt(3), new(big.Int).Sub(order, big.NewInt(1)), new(big.Int).Sub(order, big.NewInt(2)),
		new(big.Int).Rsh(order, 1), new(big.Int).Lsh(big.NewInt(1), 64), new(big.Int).Lsh(big.NewInt(1), 255), new(big.Int).Add(order, big.NewInt(1)),
		new(big.Int).Sub(two256, big.NewInt(1)), new(big.Int).Set(p)}
	return rapid.Custom(func(t *rapid.T) *big.Int {
		switch rapid.IntRange(0, 5).Draw(t, "scalarKind") {
		case 0:
			return new(big.Int).Set(rapid.SampledFrom(edges).Draw(t, "edge"))
		case 1:
			return big.NewInt(int64(rapid.IntRange(1, 5000).Draw(t, "small")))
		default:
			return new(big.Int).SetBytes(rapid.SliceOfN(rapid.Byte(), 32, 32).Draw(t, "scalarBytes"))
		}
	})
}

// genSeckey: a valid (non-zero mod n) secret key, from a seed (NewSeckeyFromRand) or from an integer.
func genSeckey(t *rapid.T, label string) groupsig.Seckey {
	if rapid.IntRange(0, 2).Draw(t, label+"FromSeed") == 0 {
		seed := rapid.SliceOfN(rapid.Byte(), 0, 40).Draw(t, label+"Seed")
		sk := groupsig.NewSeckeyFromRand(base.RandFromBytes(seed))
		if sk != nil && sk.IsValid() {
			stats.Class("sk:from_seed")
			return *sk
		}
	}
	if rapid.IntRange(0, 3).Draw(t, label+"Wire") == 0 {
		// a key as it comes off the wire or out of a config file: Deserialize / SetHexString do not reduce,
		// so the held value is anywhere in [0, 2^256) (about 44% of them >= p)
		raw := rapid.SliceOfN(rapid.Byte(), 32, 32).Draw(t, label+"WireBytes")
		var sk groupsig.Seckey
		if rapid.Bool().Draw(t, label+"WireHex") {
			sk.SetHexString("0x" + new(big.Int).SetBytes(raw).Text(16))
		} else {
			sk.Deserialize(raw)
		}
		if new(big.Int).Mod(sk.GetBigInt(), order).Sign() != 0 {
			switch h := sk.GetBigInt(); {
			case h.Cmp(order) < 0:
				stats.Class("sk:wire_below_n")
			case h.Cmp(p) < 0:
				stats.Class("sk:wire_n_to_p")
			default:
				stats.Class("sk:wire_ge_p")
			}
			return sk
		}
	}
	v := genScalar().Draw(t, label)
	v.Mod(v, order)
	if v.Sign() == 0 {
		v.SetInt64(1)
	}
	switch {
	case v.BitLen() <= 16:
		stats.Class("sk:small")
	case new(big.Int).Sub(order, v).BitLen() <= 16:
		stats.Class("sk:near_order")
	default:
		stats.Class("sk:wide")
	}
	return *groupsig.NewSeckeyFromBigInt(new(big.Int).Set(v))
}

func genMsg() *rapid.Generator[[]byte] {
	return rapid.Custom(func(t *rapid.T) []byte {
		switch rapid.IntRange(0, 7).Draw(t, "msgKind") {
		case 0:
			return []byte{}
		case 1:
			return make([]byte, 32)
		case 2:
			return rapid.SliceOfN(rapid.Byte(), 1, 80).Draw(t, "msgAny")
		default: // what callers sign: 32-byte hashes / previous random values
			return rapid.SliceOfN(rapid.Byte(), 32, 32).Draw(t, "msgHash")
		}
	})
}

// relatedMsg: a message near msg (one bit, one byte longer/shorter) or unrelated.
func relatedMsg(t *rapid.T, msg []byte) ([]byte, string) {
	switch k := rapid.IntRange(0, 4).Draw(t, "msg2Kind"); {
	case k == 0 && len(msg) > 0:
		out := cp(msg)
		i := rapid.IntRange(0, len(msg)*8-1).Draw(t, "msg2Bit")
		out[i/8] ^= 1 << uint(i%8)
		return out, "bitflip"
	case k == 1:
		return append(cp(msg), rapid.Byte().Draw(t, "msg2Extra")), "extended"
	case k == 2 && len(msg) > 0:
		return cp(msg[:len(msg)-1]), "shortened"
	case k == 3:
		return append([]byte{0}, msg...), "prefixed"
	default:
		return genMsg().Draw(t, "msg2"), "independent"
	}
}

// ---------- pipelines under test ----------

// verifySig runs what a verifier runs on received bytes (processor_block.go, round_sign_finalizer.go,
// model/message.go): DeserializeSign then VerifySig; and the msg_decode.go variant Signature.Deserialize
// with the error checked. A panic is reported, never swallowed.
//
// both=false skips the second variant: it differs from the first only in error handling, so it is run on
// every input that is not a well-formed point and on the honest signature, but not on the (pairing-bound)
// well-formed wrong points, where it would only repeat the same two pairings.
func verifySig(pk groupsig.Pubkey, msg, b []byte, both bool) (r1, r2 bool, panicked interface{}) {
	defer func() {
		if r := recover(); r != nil {
			panicked = r
		}
	}()
	r1 = groupsig.VerifySig(pk, msg, *groupsig.DeserializeSign(b))
	if !both {
		return r1, r1, nil
	}
	var s groupsig.Signature
	if err := s.Deserialize(b); err == nil {
		r2 = groupsig.VerifySig(pk, msg, s)
	}
	return
}

// verifyWithPkBytes: ByteToPublicKey(bytes) then VerifySig (processor_block.go VerifyGroupSign), and
// Pubkey.Deserialize with the error checked (msg_decode.go).
func verifyWithPkBytes(b, msg []byte, sig groupsig.Signature, both bool) (r1, r2 bool, panicked interface{}) {
	defer func() {
		if r := recover(); r != nil {
			panicked = r
		}
	}()
	r1 = groupsig.VerifySig(groupsig.ByteToPublicKey(b), msg, sig)
	if !both {
		return r1, r1, nil
	}
	var pk groupsig.Pubkey
	if err := pk.Deserialize(b); err == nil {
		r2 = groupsig.VerifySig(pk, msg, sig)
	}
	return
}

type cand struct {
	family string
	b      []byte
	// other: the candidate was made for a different message or key, so by the property's statement it must
	// be rejected whatever its bytes are (otherwise an implementation whose Sign ignores part of the message
	// would make it byte-identical to the honest signature and pass the byte-equality oracle).
	other bool
}

// parse-level differential for G1: the decoder accepts only curve points and re-encodes them faithfully.
func checkG1Parse(t fataler, b []byte) string {
	cls, _ := checkG1ParseInto(t, new(bn.G1), "fresh", b)
	return cls
}

// checkG1ParseInto parses b into the given receiver (whatever it held before) and checks the outcome against
// the reference; returns the strict class and whether the decoder accepted.
func checkG1ParseInto(t fataler, gp *bn.G1, hist string, b []byte) (string, bool) {
	_, cls := ref.G1DecodeStrict(b)
	g := gp
	var rest []byte
	var err error
	var enc []byte
	func() {
		defer func() {
			if r := recover(); r != nil {
				t.Fatalf("[receiver "+hist+"] G1.Unmarshal(%x) panicked: %v", b, r)
			}
		}()
		rest, err = g.Unmarshal(b)
		if err == nil {
			enc = g.Marshal()
		}
	}()
	if err == nil {
		pt, ok := ref.G1DecodeLenient(b)
		if !ok {
			t.Fatalf("[receiver "+hist+"] G1.Unmarshal accepted %x, which is no curve point under any reading (%s)", b, cls)
		}
		if !bytes.Equal(enc, ref.G1Encode(pt)) {
			t.Fatalf("[receiver "+hist+"] G1.Unmarshal(%x).Marshal() = %x, reference point %x", b, enc, ref.G1Encode(pt))
		}
		if len(rest) != len(b)-64 {
			t.Fatalf("[receiver "+hist+"] G1.Unmarshal(%x) returned %d remaining bytes", b, len(rest))
		}
	}
	switch cls {
	case ref.EncPoint, ref.EncIdentity:
		if err != nil {
			t.Fatalf("[receiver "+hist+"] G1.Unmarshal rejected the canonical encoding %x (%s): %v", b, cls, err)
		}
		if !bytes.Equal(enc, b) {
			t.Fatalf("[receiver "+hist+"] G1 round trip: %x -> %x", b, enc)
		}
	case ref.EncOffCurve:
		if err == nil {
			t.Fatalf("[receiver "+hist+"] G1.Unmarshal accepted the off-curve pair %x", b)
		}
	case ref.EncOutOfRange:
		// whether the range check lives in bn256 or in groupsig is not the property's business: the
		// signature pipeline is asserted in runSigCase; here only record what the decoder does
		stats.Class(fmt.Sprintf("g1_parse:out_of_range:accepted=%v", err == nil))
	case ref.EncBadLength:
		if len(b) < 64 && err == nil {
			t.Fatalf("[receiver "+hist+"] G1.Unmarshal accepted %d bytes", len(b))
		}
	}
	return cls, err == nil
}

func checkG2Parse(t fataler, b []byte) string {
	cls, _ := checkG2ParseInto(t, new(bn.G2), "fresh", b)
	return cls
}

func checkG2ParseInto(t fataler, gp *bn.G2, hist string, b []byte) (string, bool) {
	_, cls := ref.G2DecodeStrict(b)
	g := gp
	var rest []byte
	var err error
	var enc []byte
	func() {
		defer func() {
			if r := recover(); r != nil {
				t.Fatalf("[receiver "+hist+"] G2.Unmarshal(%x) panicked: %v", b, r)
			}
		}()
		rest, err = g.Unmarshal(b)
		if err == nil {
			enc = g.Marshal()
		}
	}()
	if err == nil {
		pt, ok := ref.G2DecodeLenient(b)
		if !ok {
			t.Fatalf("[receiver "+hist+"] G2.Unmarshal accepted %x, which is no twist point under any reading (%s)", b, cls)
		}
		if !pt.Inf && !bytes.Equal(enc, ref.G2Encode(pt)) {
			t.Fatalf("[receiver "+hist+"] G2.Unmarshal(%x).Marshal() = %x, reference point %x", b, enc, ref.G2Encode(pt))
		}
		if len(rest) != len(b)-128 {
			t.Fatalf("[receiver "+hist+"] G2.Unmarshal(%x) returned %d remaining bytes", b, len(rest))
		}
	}
	switch cls {
	case ref.EncPoint:
		if err != nil {
			t.Fatalf("[receiver "+hist+"] G2.Unmarshal rejected the canonical encoding %x: %v", b, err)
		}
		if !bytes.Equal(enc, b) {
			t.Fatalf("[receiver "+hist+"] G2 round trip: %x -> %x", b, enc)
		}
	case ref.EncOffCurve:
		if err == nil {
			t.Fatalf("[receiver "+hist+"] G2.Unmarshal accepted the off-curve value %x", b)
		}
	case ref.EncOutOfRange:
		stats.Class(fmt.Sprintf("g2_parse:out_of_range:accepted=%v", err == nil))
	case ref.EncBadLength:
		if len(b) < 128 && err == nil {
			t.Fatalf("[receiver "+hist+"] G2.Unmarshal accepted %d bytes", len(b))
		}
	}
	return cls, err == nil
}

// ---------- signatures ----------

type sigEnv struct {
	sk    groupsig.Seckey
	skInt *big.Int
	pk    groupsig.Pubkey
	msg   []byte
	canon []byte
	S     ref.G1Pt
}

// honest builds the honest artefacts and checks them against the reference: sigma = sk*H(m) computed with
// big.Int affine arithmetic from the implementation's hash point, pk = sk*g2.
func honest(t fataler, sk groupsig.Seckey, msg []byte) *sigEnv {
	e := &sigEnv{sk: sk, skInt: sk.GetBigInt(), msg: msg}
	e.pk = *groupsig.GeneratePubkey(sk)
	sig := groupsig.Sign(sk, msg)
	e.canon = sig.Serialize()
	var h bn.G1
	if err := h.HashToPoint(msg); err != nil {
		t.Fatalf("HashToPoint(%x): %v", msg, err)
	}
	H, cls := ref.G1DecodeStrict(h.Marshal())
	if cls != ref.EncPoint {
		t.Fatalf("H(%x) = %x is not a canonical curve point (%s)", msg, h.Marshal(), cls)
	}
	e.S = ref.G1Mul(H, e.skInt)
	if want := ref.G1Encode(e.S); !bytes.Equal(e.canon, want) {
		t.Fatalf("Sign(sk=%x, msg=%x).Serialize() = %x, reference sk*H(m) = %x", e.skInt, msg, e.canon, want)
	}
	if want := ref.G2Encode(ref.G2Mul(g2gen, e.skInt)); !bytes.Equal(e.pk.Serialize(), want) {
		t.Fatalf("GeneratePubkey(sk=%x).Serialize() = %x, reference sk*g2 = %x", e.skInt, e.pk.Serialize(), want)
	}
	return e
}

func fitsPlusP(x *big.Int) (*big.Int, bool) {
	v := new(big.Int).Add(x, p)
	return v, v.Cmp(two256) < 0
}

// randomCurvePoint: first x >= x0 with x^3+3 a square.
func randomCurvePoint(x0 *big.Int, odd bool) ref.G1Pt {
	x := new(big.Int).Mod(x0, p)
	for {
		if pt, ok := ref.G1FromX(x, odd); ok {
			return pt
		}
		x.Add(x, big.NewInt(1))
	}
}

func randomTwistPoint(re, im *big.Int, neg bool) ref.G2Pt {
	x := ref.Fp2{Re: new(big.Int).Mod(re, p), Im: new(big.Int).Mod(im, p)}
	for {
		if pt, ok := ref.G2FromX(x, neg); ok {
			return pt
		}
		x.Re = new(big.Int).Mod(new(big.Int).Add(x.Re, big.NewInt(1)), p)
	}
}

func sigCandidates(t *rapid.T, e *sigEnv) []cand {
	var cs []cand
	add := func(f string, b []byte) { cs = append(cs, cand{family: f, b: b}) }
	S, canon := e.S, e.canon
	neg := ref.G1Encode(ref.G1Neg(S))

	add("honest", cp(canon))
	add("identity", cp(zero64))
	add("neg", neg)
	add("double", ref.G1Encode(ref.G1Add(S, S)))
	k := genScalar().Draw(t, "k")
	add("k_times_sigma", ref.G1Encode(ref.G1Mul(S, k))) // k = 1 mod n gives sigma itself: oracle is byte equality
	add("sigma_plus_gen", ref.G1Encode(ref.G1Add(S, ref.G1Gen())))

	sk2 := genSeckey(t, "sk2")
	msg2, rel := relatedMsg(t, e.msg)
	sOtherMsg := groupsig.Sign(e.sk, msg2)
	sOtherKey := groupsig.Sign(sk2, e.msg)
	sOtherBoth := groupsig.Sign(sk2, msg2)
	msgDiffers := !bytes.Equal(msg2, e.msg)
	keyDiffers := !sameScalar(sk2.GetBigInt(), e.skInt)
	cs = append(cs, cand{"other_msg_" + rel, sOtherMsg.Serialize(), msgDiffers})
	cs = append(cs, cand{"other_key", sOtherKey.Serialize(), keyDiffers})
	cs = append(cs, cand{"other_key_and_msg", sOtherBoth.Serialize(), msgDiffers && keyDiffers}) // one differing alone could cancel only by collision
	if o, cls := ref.G1DecodeStrict(sOtherMsg.Serialize()); cls == ref.EncPoint {
		add("sum_with_other_msg", ref.G1Encode(ref.G1Add(S, o)))
	}
	if o, cls := ref.G1DecodeStrict(sOtherKey.Serialize()); cls == ref.EncPoint {
		add("sum_with_other_key", ref.G1Encode(ref.G1Add(S, o)))
	}
	var h bn.G1
	h.HashToPoint(e.msg)
	add("hash_point_itself", h.Marshal()) // = signature under sk 1

	x0 := new(big.Int).SetBytes(rapid.SliceOfN(rapid.Byte(), 32, 32).Draw(t, "rx"))
	rp := randomCurvePoint(x0, rapid.Bool().Draw(t, "rodd"))
	add("random_curve_point", ref.G1Encode(rp))
	add("same_x_other_y", ref.G1Encode(ref.G1Pt{X: S.X, Y: ref.G1Neg(S).Y})) // = neg, kept as named shape

	// off-curve pairs with reduced coordinates
	one := big.NewInt(1)
	add("offcurve_y_plus_1", cat(word(S.X), word(new(big.Int).Mod(new(big.Int).Add(S.Y, one), p))))
	add("offcurve_x_plus_1", cat(word(new(big.Int).Mod(new(big.Int).Add(S.X, one), p)), word(S.Y)))
	add("offcurve_swapped", cat(word(S.Y), word(S.X)))
	add("offcurve_y_zero", cat(word(S.X), make([]byte, 32)))
	add("offcurve_x_zero", cat(make([]byte, 32), word(S.Y)))
	ry := new(big.Int).Mod(new(big.Int).SetBytes(rapid.SliceOfN(rapid.Byte(), 32, 32).Draw(t, "ry")), p)
	add("offcurve_random", cat(word(rp.X), word(ry)))
	add("offcurve_x_of_other", cat(word(rp.X), word(S.Y)))

	// every single-bit flip of the canonical encoding
	for i := 0; i < 512; i++ {
		b := cp(canon)
		b[i/8] ^= 1 << uint(i%8)
		add("bitflip", b)
	}
	// every truncation, plus tails
	for n := 0; n < 64; n++ {
		add("truncated", cp(canon[:n]))
	}
	add("truncated_tail", cp(canon[1:]))
	add("truncated_tail", cp(canon[32:]))

	// over-long encodings
	jl := rapid.IntRange(1, 66).Draw(t, "junkLen")
	junk := rapid.SliceOfN(rapid.Byte(), jl, jl).Draw(t, "junk")
	for _, b := range [][]byte{cat(canon, []byte{0}), cat(canon, junk), cat(canon, canon), cat(canon, make([]byte, 66))} {
		add("overlong_sigma_plus_junk", b) // F-C14-a shape, filtered below while that finding is listed as known
	}
	add("overlong_other", cat(neg, junk))
	add("overlong_other", cat(sOtherMsg.Serialize(), junk))
	add("overlong_other", cat(junk[:1], canon)) // shifted by one byte
	add("overlong_other", make([]byte, 64+jl))
	add("overlong_other", cat(word(S.X), word(ry), junk))

	// coordinates >= p
	var geSigma [][]byte
	xp, okx := fitsPlusP(S.X)
	yp, oky := fitsPlusP(S.Y)
	if okx {
		geSigma = append(geSigma, cat(word(xp), word(S.Y)))
	}
	if oky {
		geSigma = append(geSigma, cat(word(S.X), word(yp)))
	}
	if okx && oky {
		geSigma = append(geSigma, cat(word(xp), word(yp)))
	}
	for _, b := range geSigma {
		add("coord_ge_p_sigma", b) // F-C14-b shape
	}
	if okx { // both shapes at once
		add("coord_ge_p_sigma_plus_junk", cat(word(xp), word(S.Y), junk))
	}
	N := ref.G1Neg(S)
	if v, ok := fitsPlusP(N.Y); ok {
		add("coord_ge_p_other", cat(word(N.X), word(v)))
	}
	add("coord_ge_p_other", cat(word(p), word(p)))
	add("coord_ge_p_other", cat(word(p), make([]byte, 32)))
	add("coord_ge_p_other", cat(make([]byte, 32), word(p)))
	add("coord_ge_p_other", bytes.Repeat([]byte{0xff}, 64))
	add("coord_ge_p_other", cat(word(new(big.Int).Sub(two256, one)), word(S.Y)))

	// Steer around exactly the shapes of recorded, unrepaired findings (whatever family produced them:
	// e.g. "other message" with msg2 == msg plus junk is sigma||junk again).
	kept := cs[:0]
	for _, c := range cs {
		if id := knownSigShape(e, c.b); id != "" {
			stats.Exclude(id)
			continue
		}
		kept = append(kept, c)
	}
	return kept
}

func runSigCase(t fataler, e *sigEnv, cs []cand) {
	pkWire := groupsig.ByteToPublicKey(e.pk.Serialize()) // the key as a verifier holds it
	for _, c := range cs {
		want := bytes.Equal(c.b, e.canon) && !c.other
		_, strict := ref.G1DecodeStrict(c.b)
		wellFormed := strict == ref.EncPoint || strict == ref.EncIdentity
		r1, r2, pn := verifySig(pkWire, e.msg, c.b, want || !wellFormed)
		if pn != nil {
			t.Fatalf("[%s] DeserializeSign+VerifySig panicked on %x: %v (sk=%x msg=%x)", c.family, c.b, pn, e.skInt, e.msg)
		}
		if r1 != want || r2 != want {
			what := "REJECTED the honest signature"
			if !want {
				what = "ACCEPTED a byte string that is not the signature"
			}
			t.Fatalf("[%s] verification %s: DeserializeSign->VerifySig=%v, Deserialize(err checked)->VerifySig=%v, want %v\n candidate %x\n honest    %x\n sk=%x msg=%x",
				c.family, what, r1, r2, want, c.b, e.canon, e.skInt, e.msg)
		}
		cls := checkG1Parse(t, c.b)
		stats.Class("sig:" + c.family + ":" + cls)
		if (cls == ref.EncPoint || cls == ref.EncIdentity) && !want {
			stats.NonTrivialOnly("sigcand:" + c.family + ":" + string(c.b))
			stats.Count("sig_valid_point_candidates_rejected", 1)
		}
	}
	stats.Count("sig_candidates", int64(len(cs)))
	stats.Evals(int64(len(cs)))
}

// TestSigBytes: the verifier pipeline accepts exactly the canonical encoding of Sign(sk, msg).
func TestSigBytes(t *testing.T) {
	stats.Check(t, 120, 1500, func(t *rapid.T) {
		sk := genSeckey(t, "sk")
		msg := genMsg().Draw(t, "msg")
		e := honest(t, sk, msg)
		cs := sigCandidates(t, e)
		stats.Case(fmt.Sprintf("sig:%x:%x", e.skInt, msg), "law:sig_bytes", fmt.Sprintf("msg_len:%d", lenBucket(len(msg))))
		runSigCase(t, e, cs)
		stats.Sample(map[string]string{"law": "sig_bytes", "sk": fmt.Sprintf("%x", e.skInt), "msg": fmt.Sprintf("%x", msg), "sigma": fmt.Sprintf("%x", e.canon),
			"candidates": fmt.Sprint(len(cs))})
	})
}

func lenBucket(n int) int {
	switch {
	case n == 0 || n == 32:
		return n
	case n < 32:
		return 1
	default:
		return 33
	}
}

// ---------- public keys ----------

func pkCandidates(t *rapid.T, e *sigEnv) []cand {
	var cs []cand
	add := func(f string, b []byte) { cs = append(cs, cand{family: f, b: b}) }
	canon := e.pk.Serialize()
	PK, _ := ref.G2DecodeStrict(canon)
	neg := ref.G2Encode(ref.G2Neg(PK))

	add("honest", cp(canon))
	add("identity_128_zero", cp(zero128))
	add("identity_node_encoding", []byte{0}) // what G2.Marshal emits for infinity
	add("neg", neg)
	add("double", ref.G2Encode(ref.G2Add(PK, PK)))
	add("pk_plus_gen", ref.G2Encode(ref.G2Add(PK, g2gen)))
	add("generator", cp(g2genB))
	sk2 := genSeckey(t, "sk2")
	pk2b := groupsig.GeneratePubkey(sk2).Serialize()
	cs = append(cs, cand{"other_key", pk2b, !sameScalar(sk2.GetBigInt(), e.skInt)})
	if o, cls := ref.G2DecodeStrict(pk2b); cls == ref.EncPoint {
		add("sum_with_other_key", ref.G2Encode(ref.G2Add(PK, o)))
	}
	agg := groupsig.AggregatePubkeys([]groupsig.Pubkey{e.pk, *groupsig.GeneratePubkey(sk2)})
	add("aggregate_with_other", agg.Serialize())

	// twist points outside the order-n subgroup, and pk shifted by a cofactor-torsion point
	re := new(big.Int).SetBytes(rapid.SliceOfN(rapid.Byte(), 32, 32).Draw(t, "tre"))
	im := new(big.Int).SetBytes(rapid.SliceOfN(rapid.Byte(), 32, 32).Draw(t, "tim"))
	tp := randomTwistPoint(re, im, rapid.Bool().Draw(t, "tneg"))
	add("twist_point_outside_G2", ref.G2Encode(tp))
	tor := ref.G2Mul(tp, order) // order divides the cofactor 2p-n
	if !tor.Inf {
		add("cofactor_torsion_point", ref.G2Encode(tor))
		add("pk_plus_cofactor_torsion", ref.G2Encode(ref.G2Add(PK, tor)))
	}

	w := func(i int) []byte { return cp(canon[32*i : 32*i+32]) }
	inc := func(b []byte) []byte {
		v := new(big.Int).SetBytes(b)
		return word(v.Add(v, big.NewInt(1)).Mod(v, p))
	}
	add("offcurve_word0_plus_1", cat(inc(w(0)), w(1), w(2), w(3)))
	add("offcurve_word3_plus_1", cat(w(0), w(1), w(2), inc(w(3))))
	add("offcurve_swap_re_im", cat(w(1), w(0), w(3), w(2)))
	add("offcurve_swap_x_y", cat(w(2), w(3), w(0), w(1)))
	add("offcurve_y_zero", cat(w(0), w(1), make([]byte, 64)))
	add("offcurve_random", cat(word(tp.X.Im), word(tp.X.Re), word(new(big.Int).Mod(re, p)), word(new(big.Int).Mod(im, p))))

	for i := 0; i < 1024; i++ {
		b := cp(canon)
		b[i/8] ^= 1 << uint(i%8)
		add("bitflip", b)
	}
	for n := 0; n < 128; n++ {
		add("truncated", cp(canon[:n]))
	}
	add("truncated_tail", cp(canon[1:]))
	add("truncated_g1_sized", cp(canon[:64]))

	jl := rapid.IntRange(1, 130).Draw(t, "junkLen")
	junk := rapid.SliceOfN(rapid.Byte(), jl, jl).Draw(t, "junk")
	add("overlong_same_element", cat(canon, []byte{0}))
	add("overlong_same_element", cat(canon, junk))
	add("overlong_other", cat(neg, junk))
	add("overlong_other", cat(junk[:1], canon))
	add("overlong_other", make([]byte, 128+jl))
	for i := 0; i < 4; i++ {
		if v, ok := fitsPlusP(new(big.Int).SetBytes(w(i))); ok {
			ws := [][]byte{w(0), w(1), w(2), w(3)}
			ws[i] = word(v)
			add("coord_ge_p_same_element", cat(ws...))
		}
	}
	N := ref.G2Neg(PK)
	if v, ok := fitsPlusP(N.Y.Re); ok {
		add("coord_ge_p_other", cat(word(N.X.Im), word(N.X.Re), word(N.Y.Im), word(v)))
	}
	add("coord_ge_p_other", cat(word(p), word(p), word(p), word(p)))
	add("coord_ge_p_other", bytes.Repeat([]byte{0xff}, 128))
	return cs
}

func runPkCase(t fataler, e *sigEnv, cs []cand) {
	canon := e.pk.Serialize()
	PK, _ := ref.G2DecodeStrict(canon)
	sig := *groupsig.DeserializeSign(e.canon)
	for _, c := range cs {
		_, strict := ref.G2DecodeStrict(c.b)
		r1, r2, pn := verifyWithPkBytes(c.b, e.msg, sig, bytes.Equal(c.b, canon) || strict != ref.EncPoint)
		if pn != nil {
			t.Fatalf("[%s] ByteToPublicKey+VerifySig panicked on %x: %v", c.family, c.b, pn)
		}
		cls := checkG2Parse(t, c.b)
		sameElem := false
		if pt, ok := ref.G2DecodeLenient(c.b); ok && pt.Equal(PK) {
			sameElem = true
		}
		switch {
		case c.other && (r1 || r2):
			t.Fatalf("[%s] signature verified under the public key of a different secret key: pk %x sk=%x msg=%x", c.family, c.b, e.skInt, e.msg)
		case bytes.Equal(c.b, canon):
			if !r1 || !r2 {
				t.Fatalf("[%s] honest signature rejected under the honest public key bytes (ByteToPublicKey=%v, Deserialize=%v) pk=%x sk=%x msg=%x", c.family, r1, r2, c.b, e.skInt, e.msg)
			}
		case sameElem:
			// a different byte string denoting the same group element: not asserted (see assumptions)
			stats.Class(fmt.Sprintf("pk_noncanonical_same_element:%s:accepted=%v", c.family, r1))
			if r1 != r2 {
				t.Fatalf("[%s] the two public-key pipelines disagree on %x: %v vs %v", c.family, c.b, r1, r2)
			}
		default:
			if r1 || r2 {
				t.Fatalf("[%s] signature verified under bytes that do not encode the signer's public key (ByteToPublicKey=%v, Deserialize=%v)\n candidate pk %x\n honest pk    %x\n sk=%x msg=%x sigma=%x",
					c.family, r1, r2, c.b, canon, e.skInt, e.msg, e.canon)
			}
		}
		stats.Class("pk:" + c.family + ":" + cls)
		if cls == ref.EncPoint && !sameElem {
			stats.NonTrivialOnly("pkcand:" + c.family + ":" + string(c.b))
			stats.Count("pk_valid_point_candidates_rejected", 1)
		}
	}
	// the zero-value key is what ByteToPublicKey returns on error
	if ok, pn := safeBool(func() bool { return groupsig.VerifySig(groupsig.Pubkey{}, e.msg, sig) }); ok || pn != nil {
		t.Fatalf("VerifySig with the empty public key returned %v (panic %v)", ok, pn)
	}
	stats.Count("pk_candidates", int64(len(cs)))
	stats.Evals(int64(len(cs)))
}

func safeBool(f func() bool) (ok bool, panicked interface{}) {
	defer func() {
		if r := recover(); r != nil {
			panicked = r
		}
	}()
	return f(), nil
}

// TestPubkeyBytes: an honest signature verifies only under bytes that encode the signer's public key.
func TestPubkeyBytes(t *testing.T) {
	stats.Check(t, 80, 1000, func(t *rapid.T) {
		sk := genSeckey(t, "sk")
		msg := genMsg().Draw(t, "msg")
		e := honest(t, sk, msg)
		cs := pkCandidates(t, e)
		stats.Case(fmt.Sprintf("pk:%x:%x", e.skInt, msg), "law:pubkey_bytes")
		runPkCase(t, e, cs)
		stats.Sample(map[string]string{"law": "pubkey_bytes", "sk": fmt.Sprintf("%x", e.skInt), "msg": fmt.Sprintf("%x", msg), "pk": fmt.Sprintf("%x", e.pk.Serialize()),
			"candidates": fmt.Sprint(len(cs))})
	})
}

// ---------- round trips ----------

func TestRoundTrips(t *testing.T) {
	stats.Check(t, 300, 4000, func(t *rapid.T) {
		// a panic inside the property is turned into a failure by rapid itself
		skA, skB := genSeckey(t, "skA"), genSeckey(t, "skB")
		msg := genMsg().Draw(t, "msg")
		a, b := skA.GetBigInt(), skB.GetBigInt()
		same := a.Cmp(b) == 0       // the held integers (Seckey.IsEqual compares these)
		sameMod := sameScalar(a, b) // the scalars they denote (public keys, signatures, ids derive from these)
		key := ""
		if a.BitLen() > 64 {
			key = fmt.Sprintf("rt:%x:%x", a, msg)
		}
		stats.Case(key, "law:round_trips")

		// Seckey
		sb := skA.Serialize()
		var sk2 groupsig.Seckey
		if err := sk2.Deserialize(sb); err != nil || !bytes.Equal(sk2.Serialize(), sb) || !sk2.IsEqual(skA) || !skA.IsEqual(sk2) || sk2.GetBigInt().Cmp(a) != 0 {
			t.Fatalf("Seckey round trip: %x -> err=%v %x", sb, err, sk2.Serialize())
		}
		if new(big.Int).SetBytes(sb).Cmp(a) != 0 {
			t.Fatalf("Seckey.Serialize() = %x for value %x", sb, a)
		}
		var sk3 groupsig.Seckey
		if err := sk3.SetHexString(skA.GetHexString()); err != nil || !sk3.IsEqual(skA) {
			t.Fatalf("Seckey hex round trip: %s -> err=%v %s", skA.GetHexString(), err, sk3.GetHexString())
		}
		if skA.IsEqual(skB) != same {
			t.Fatalf("Seckey.IsEqual(%x, %x) = %v", a, b, !same)
		}

		// Pubkey
		pkA, pkB := *groupsig.GeneratePubkey(skA), *groupsig.GeneratePubkey(skB)
		pb := pkA.Serialize()
		var pk2 groupsig.Pubkey
		if err := pk2.Deserialize(pb); err != nil || !bytes.Equal(pk2.Serialize(), pb) || !pk2.IsEqual(pkA) || !pkA.IsEqual(pk2) || len(pb) != 128 {
			t.Fatalf("Pubkey round trip: %x -> err=%v %x", pb, err, pk2.Serialize())
		}
		if pk3 := groupsig.ByteToPublicKey(pb); !pk3.IsEqual(pkA) || !pk3.IsValid() {
			t.Fatalf("ByteToPublicKey(%x) differs", pb)
		}
		var pk4 groupsig.Pubkey
		if err := pk4.SetHexString(pkA.GetHexString()); err != nil || !pk4.IsEqual(pkA) || !bytes.Equal(pk4.Serialize(), pb) {
			t.Fatalf("Pubkey hex round trip: %s", pkA.GetHexString())
		}
		js, err := json.Marshal(pkA)
		var pk5 groupsig.Pubkey
		if err != nil || json.Unmarshal(js, &pk5) != nil || !pk5.IsEqual(pkA) {
			t.Fatalf("Pubkey JSON round trip: %s err=%v", js, err)
		}
		if pkA.IsEqual(pkB) != sameMod {
			t.Fatalf("Pubkey.IsEqual for keys of %x and %x = %v", a, b, !same)
		}

		// Signature
		sigA, sigB := groupsig.Sign(skA, msg), groupsig.Sign(skB, msg)
		gb := sigA.Serialize()
		var sg2 groupsig.Signature
		if err := sg2.Deserialize(gb); err != nil || !bytes.Equal(sg2.Serialize(), gb) || !sg2.IsEqual(sigA) || !sigA.IsEqual(sg2) || len(gb) != 64 {
			t.Fatalf("Signature round trip: %x -> err=%v %x", gb, err, sg2.Serialize())
		}
		if sg3 := groupsig.DeserializeSign(gb); !sg3.IsEqual(sigA) || !bytes.Equal(sg3.Serialize(), gb) {
			t.Fatalf("DeserializeSign(%x) differs", gb)
		}
		var sg4 groupsig.Signature
		if err := sg4.SetHexString(sigA.GetHexString()); err != nil || !sg4.IsEqual(sigA) || !bytes.Equal(sg4.Serialize(), gb) {
			t.Fatalf("Signature hex round trip: %s", sigA.GetHexString())
		}
		if sigA.IsEqual(sigB) != sameMod {
			t.Fatalf("Signature.IsEqual for signatures of keys %x and %x = %v", a, b, !same)
		}
		if !sg2.IsValid() || !groupsig.VerifySig(pk2, msg, sg2) {
			t.Fatalf("round-tripped signature/public key do not verify (sk=%x msg=%x)", a, msg)
		}

		// ID: from a public key, from an integer below 2^256, from up to 32 bytes
		var id groupsig.ID
		switch rapid.IntRange(0, 2).Draw(t, "idKind") {
		case 0:
			id = *groupsig.NewIDFromPubkey(pkA)
			stats.Class("id:from_pubkey")
		case 1:
			v := genScalar().Draw(t, "idInt")
			if rapid.Bool().Draw(t, "idShort") {
				v.Rsh(v, uint(rapid.IntRange(1, 255).Draw(t, "idShift")))
			}
			id.SetBigInt(v)
			stats.Class("id:from_int")
		default:
			id = groupsig.DeserializeID(rapid.SliceOfN(rapid.Byte(), 0, 32).Draw(t, "idBytes"))
			stats.Class("id:from_bytes")
		}
		ib := id.Serialize()
		if len(ib) != groupsig.ID_LENGTH {
			t.Fatalf("ID.Serialize() has %d bytes", len(ib))
		}
		if new(big.Int).SetBytes(ib).Cmp(id.GetBigInt()) != 0 {
			t.Fatalf("ID.Serialize() = %x for value %x", ib, id.GetBigInt())
		}
		var id2 groupsig.ID
		if err := id2.Deserialize(ib); err != nil || !bytes.Equal(id2.Serialize(), ib) || !id2.IsEqual(id) || !id.IsEqual(id2) {
			t.Fatalf("ID round trip: %x -> err=%v %x", ib, err, id2.Serialize())
		}
		if id3 := groupsig.DeserializeID(ib); !id3.IsEqual(id) {
			t.Fatalf("DeserializeID(%x) differs", ib)
		}
		var id4 groupsig.ID
		if err := id4.SetHexString(id.GetHexString()); err != nil || !id4.IsEqual(id) || !bytes.Equal(id4.Serialize(), ib) {
			t.Fatalf("ID hex round trip: %s -> %x", id.GetHexString(), id4.Serialize())
		}
		js, err = json.Marshal(id)
		var id5 groupsig.ID
		if err != nil || json.Unmarshal(js, &id5) != nil || !id5.IsEqual(id) {
			t.Fatalf("ID JSON round trip: %s err=%v", js, err)
		}
		idB := *groupsig.NewIDFromPubkey(pkB)
		idA := *groupsig.NewIDFromPubkey(pkA)
		if idA.IsEqual(idB) != sameMod {
			t.Fatalf("ID.IsEqual for ids of different keys = %v", !same)
		}
	})
}

// ---------- pairing laws ----------

func gtEq(t fataler, what string, a, b *bn.GT, want bool) {
	eq := bytes.Equal(a.Marshal(), b.Marshal())
	if eq != want {
		t.Fatalf("%s: equality of GT encodings = %v, want %v\n %x\n %x", what, eq, want, a.Marshal(), b.Marshal())
	}
	if got := bn.PairIsEuqal(a, b); got != want {
		t.Fatalf("%s: PairIsEuqal = %v, want %v", what, got, want)
	}
}

func TestPairingLaws(t *testing.T) {
	if !bytes.Equal(bn.Pair(new(bn.G1).ScalarBaseMult(big.NewInt(1)), bn.GetG2Base()).Marshal(), new(bn.GT).ScalarBaseMult(big.NewInt(1)).Marshal()) {
		// informational only: gfP12Gen is e(g1,g2) in the upstream library
		stats.Note("gt_generator", "GT.ScalarBaseMult(1) != e(g1,g2)")
	}
	stats.Check(t, 200, 2500, func(t *rapid.T) {
		a, b := genScalar().Draw(t, "a"), genScalar().Draw(t, "b")
		if rapid.IntRange(0, 19).Draw(t, "zeroA") == 0 {
			a = new(big.Int)
		}
		kp, kq := genScalar().Draw(t, "kp"), genScalar().Draw(t, "kq")
		for _, k := range []*big.Int{kp, kq} { // base points must be non-zero
			if new(big.Int).Mod(k, order).Sign() == 0 {
				k.SetInt64(7)
			}
		}
		var P bn.G1
		pKind := "kG1"
		if rapid.Bool().Draw(t, "hashedP") {
			if err := P.HashToPoint(kp.Bytes()); err != nil {
				t.Fatalf("HashToPoint: %v", err)
			}
			pKind = "hashed"
		} else {
			P.ScalarBaseMult(kp)
		}
		Q := new(bn.G2).ScalarBaseMult(kq)
		ab := new(big.Int).Mul(a, b)
		abr := new(big.Int).Mod(ab, order)
		key := ""
		if a.BitLen() > 64 && b.BitLen() > 64 {
			key = fmt.Sprintf("pair:%x:%x:%x:%x:%s", a, b, kp, kq, pKind)
		}
		zc := "ab_nonzero"
		if abr.Sign() == 0 {
			zc = "ab_zero_mod_n"
		}
		stats.Case(key, "law:pairing", "pairing:P_"+pKind, "pairing:"+zc)

		aP := new(bn.G1).ScalarMult(&P, a)
		bQ := new(bn.G2).ScalarMult(Q, b)
		e1 := bn.Pair(aP, bQ)
		e2 := bn.Pair(new(bn.G1).ScalarMult(&P, abr), Q)
		e3 := bn.Pair(&P, new(bn.G2).ScalarMult(Q, abr))
		base := bn.Pair(&P, Q)
		e4 := new(bn.GT).ScalarMult(base, abr)
		gtEq(t, fmt.Sprintf("e(aP,bQ) vs e(abP,Q) a=%x b=%x", a, b), e1, e2, true)
		gtEq(t, fmt.Sprintf("e(aP,bQ) vs e(P,abQ) a=%x b=%x", a, b), e1, e3, true)
		gtEq(t, fmt.Sprintf("e(aP,bQ) vs e(P,Q)^ab a=%x b=%x", a, b), e1, e4, true)

		// non-degeneracy and order
		if bytes.Equal(base.Marshal(), gtOne) {
			t.Fatalf("e(P,Q) = 1 for non-zero P=%s*.. Q=%x*g2", pKind, kq)
		}
		if un := new(bn.GT).ScalarMult(base, order).Marshal(); !bytes.Equal(un, gtOne) {
			t.Fatalf("e(P,Q)^n != 1: %x", un)
		}
		if (abr.Sign() == 0) != bytes.Equal(e1.Marshal(), gtOne) {
			t.Fatalf("e(aP,bQ) == 1 is %v but ab mod n == 0 is %v (a=%x b=%x)", bytes.Equal(e1.Marshal(), gtOne), abr.Sign() == 0, a, b)
		}
		// additivity in the first argument: e(P+P',Q) = e(P,Q)*e(P',Q)
		P2 := new(bn.G1).ScalarBaseMult(new(big.Int).Add(new(big.Int).Mod(b, order), big.NewInt(1)))
		sum := new(bn.G1).Add(&P, P2)
		gtEq(t, "e(P+P',Q) vs e(P,Q)e(P',Q)", bn.Pair(sum, Q), new(bn.GT).Add(base, bn.Pair(P2, Q)), true)
		// negation: e(-P,Q) = e(P,-Q) = e(P,Q)^-1, and the pairing is a function of the group elements, however the
		// point objects were produced (computed, negated, parsed from their own encoding)
		inv := new(bn.GT).Neg(base)
		negP, negQ := new(bn.G1).Neg(&P), new(bn.G2).Neg(Q)
		gtEq(t, "e(-P,Q) vs e(P,Q)^-1", bn.Pair(negP, Q), inv, true)
		gtEq(t, "e(P,-Q) vs e(P,Q)^-1 (Q negated with G2.Neg)", bn.Pair(&P, negQ), inv, true)
		parsedQ, parsedNegQ, parsedP := new(bn.G2), new(bn.G2), new(bn.G1)
		if _, err := parsedQ.Unmarshal(Q.Marshal()); err != nil {
			t.Fatalf("G2 does not parse its own encoding: %v", err)
		}
		if _, err := parsedNegQ.Unmarshal(negQ.Marshal()); err != nil {
			t.Fatalf("G2 does not parse the encoding of a negated point: %v", err)
		}
		if _, err := parsedP.Unmarshal(P.Marshal()); err != nil {
			t.Fatalf("G1 does not parse its own encoding: %v", err)
		}
		gtEq(t, "e(P,Q) vs e(P, parsed Q)", base, bn.Pair(&P, parsedQ), true)
		gtEq(t, "e(P,Q) vs e(parsed P, Q)", base, bn.Pair(parsedP, Q), true)
		gtEq(t, "e(P,-Q) with -Q parsed from its encoding vs e(P,Q)^-1", bn.Pair(&P, parsedNegQ), inv, true)
		gtEq(t, "e(P,-(parsed Q)) vs e(P,Q)^-1", bn.Pair(&P, new(bn.G2).Neg(parsedQ)), inv, true)
		gtEq(t, "e(-(parsed P),Q) vs e(P,Q)^-1", bn.Pair(new(bn.G1).Neg(parsedP), Q), inv, true)
		// distinct values compare unequal, wherever they differ
		gtEq(t, "e(P,Q) vs e(2P,Q)", base, bn.Pair(new(bn.G1).Add(&P, &P), Q), false)
		mb := base.Marshal()
		i := rapid.IntRange(0, 11).Draw(t, "gtWord")*256 + rapid.IntRange(0, 255).Draw(t, "gtBit")
		mb[i/8] ^= 1 << uint(i%8)
		var tam bn.GT
		if _, err := tam.Unmarshal(mb); err == nil {
			stats.Class(fmt.Sprintf("pairing:tamper_word_%02d", i/256))
			if bn.PairIsEuqal(base, &tam) || bn.PairIsEuqal(&tam, base) {
				t.Fatalf("PairIsEuqal says equal for GT values differing in bit %d", i)
			}
		}
	})
}

// ---------- recorded findings: minimal reproductions ----------

func probeEnv(t *testing.T) *sigEnv {
	sk := *groupsig.NewSeckeyFromBigInt(big.NewInt(123456789))
	return honest(t, sk, bytes.Repeat([]byte{0xab}, 32))
}

func TestProbeTrailingBytes(t *testing.T) {
	e := probeEnv(t)
	b := cat(e.canon, []byte{0x00})
	r1, r2, pn := verifySig(e.pk, e.msg, b, true)
	if pn != nil {
		t.Fatalf("panic: %v", pn)
	}
	stats.Probe(t, fTrailing, "C14", r1 || r2, fmt.Sprintf("groupsig.DeserializeSign(sigma||0x00) then VerifySig returns true: bytes after the 64-byte "+
		"signature are ignored (Signature.Deserialize drops G1.Unmarshal's remainder and error), so sigma||junk is a second accepted encoding; len=%d", len(b)))
}

func TestProbeCoordinateNotReduced(t *testing.T) {
	// find a key whose signature has x + p < 2^256
	for i := int64(1); i < 50; i++ {
		sk := *groupsig.NewSeckeyFromBigInt(big.NewInt(1000 + i))
		e := honest(t, sk, bytes.Repeat([]byte{0xab}, 32))
		xp, ok := fitsPlusP(e.S.X)
		if !ok {
			continue
		}
		b := cat(word(xp), word(e.S.Y))
		r1, r2, pn := verifySig(e.pk, e.msg, b, true)
		if pn != nil {
			t.Fatalf("panic: %v", pn)
		}
		stats.Probe(t, fRange, "C14", r1 || r2, "groupsig.DeserializeSign((x+p)||y) then VerifySig returns true: gfP.Unmarshal/G1.Unmarshal do not reject coordinates >= p "+
			"(montEncode reduces them), so (x+p, y) is a second accepted 64-byte encoding of the same signature")
		return
	}
	t.Fatalf("no signature with x+p < 2^256 among 50 keys")
}

// ---------- native fuzz targets (thorough tier) ----------

type fixture struct {
	e  *sigEnv
	PK ref.G2Pt
}

var fixtures []fixture

func getFixtures(t fataler) []fixture {
	if fixtures == nil {
		for i, skv := range []*big.Int{big.NewInt(1), big.NewInt(123456789), new(big.Int).Sub(order, big.NewInt(1)),
			new(big.Int).SetBytes(bytes.Repeat([]byte{0x5a}, 31))} {
			e := honest(t, *groupsig.NewSeckeyFromBigInt(skv), bytes.Repeat([]byte{byte(i + 1)}, 32))
			PK, _ := ref.G2DecodeStrict(e.pk.Serialize())
			fixtures = append(fixtures, fixture{e, PK})
		}
	}
	return fixtures
}

// knownSigShape: b is a non-canonical encoding of sigma of exactly the shape of a recorded, unrepaired finding.
func knownSigShape(e *sigEnv, b []byte) string {
	if len(b) < 64 || bytes.Equal(b, e.canon) {
		return ""
	}
	pt, ok := ref.G1DecodeLenient(b)
	if !ok || !pt.Equal(e.S) {
		return ""
	}
	trailing, unreduced := len(b) > 64, !bytes.Equal(b[:64], e.canon)
	switch {
	case trailing && unreduced:
		if stats.IsKnown(fTrailing) {
			return fTrailing
		}
		if stats.IsKnown(fRange) {
			return fRange
		}
	case trailing:
		if stats.IsKnown(fTrailing) {
			return fTrailing
		}
	case unreduced:
		if stats.IsKnown(fRange) {
			return fRange
		}
	}
	return ""
}

func FuzzVerifySigBytes(f *testing.F) {
	fx := getFixtures(f)
	for i, x := range fx {
		c := x.e.canon
		f.Add(byte(i), cp(c))
		f.Add(byte(i), cat(c, []byte{0}))
		f.Add(byte(i), cp(c[:63]))
		f.Add(byte(i), ref.G1Encode(ref.G1Neg(x.e.S)))
		if xp, ok := fitsPlusP(x.e.S.X); ok {
			f.Add(byte(i), cat(word(xp), word(x.e.S.Y)))
		}
	}
	f.Add(byte(0), cp(zero64))
	f.Add(byte(1), []byte{})
	f.Add(byte(2), bytes.Repeat([]byte{0xff}, 64))
	f.Fuzz(func(t *testing.T, sel byte, b []byte) {
		if len(b) > 300 {
			return
		}
		x := fx[int(sel)%len(fx)]
		if id := knownSigShape(x.e, b); id != "" {
			stats.Exclude(id)
			return
		}
		_, cls := ref.G1DecodeStrict(b)
		key := ""
		if cls == ref.EncPoint || cls == ref.EncIdentity {
			key = "fuzzsig:" + string(b)
		}
		stats.Case(key, "law:fuzz_sig_bytes", "fuzzsig:"+cls)
		runSigCase(t, x.e, []cand{{family: "fuzz", b: b}})
	})
}

func FuzzPubkeyDeserialize(f *testing.F) {
	fx := getFixtures(f)
	for i, x := range fx {
		c := x.e.pk.Serialize()
		f.Add(byte(i), cp(c))
		f.Add(byte(i), cat(c, []byte{0}))
		f.Add(byte(i), cp(c[:127]))
		f.Add(byte(i), ref.G2Encode(ref.G2Neg(x.PK)))
	}
	f.Add(byte(0), cp(zero128))
	f.Add(byte(1), []byte{0})
	f.Add(byte(2), bytes.Repeat([]byte{0xff}, 128))
	f.Fuzz(func(t *testing.T, sel byte, b []byte) {
		if len(b) > 400 {
			return
		}
		x := fx[int(sel)%len(fx)]
		_, cls := ref.G2DecodeStrict(b)
		key := ""
		if cls == ref.EncPoint {
			key = "fuzzpk:" + string(b)
		}
		stats.Case(key, "law:fuzz_pubkey_bytes", "fuzzpk:"+cls)
		runPkCase(t, x.e, []cand{{family: "fuzz", b: b}})
	})
}
