package c14

// Signing and verifying are functions of their arguments also when several goroutines do it at the same time
// on unrelated keys and messages (a node verifies block, piece and group signatures concurrently): every
// goroutine must produce exactly the signature a quiet process produces, and the matching key's signature
// must verify.

import (
	"bytes"
	"fmt"
	"sync"
	"testing"

	"pgregory.net/rapid"

	"com.tuntun.rangers/node/src/consensus/groupsig"

	"verifharness/internal/stats"
)

func TestConcurrentSignAndVerify(t *testing.T) {
	stats.Check(t, 6, 60, func(t *rapid.T) {
		type job struct {
			sk   groupsig.Seckey
			pk   groupsig.Pubkey
			msg  []byte
			want []byte
		}
		workers := rapid.IntRange(4, 12).Draw(t, "goroutines")
		perWorker := rapid.IntRange(4, 10).Draw(t, "jobsPerGoroutine")
		jobs := make([][]job, workers)
		for w := range jobs {
			for i := 0; i < perWorker; i++ {
				sk := genSeckey(t, fmt.Sprintf("sk%d_%d", w, i))
				msg := rapid.SliceOfN(rapid.Byte(), 0, 64).Draw(t, "msg")
				sig := groupsig.Sign(sk, msg) // quiet reference, computed before any concurrency
				jobs[w] = append(jobs[w], job{sk: sk, pk: *groupsig.GeneratePubkey(sk), msg: msg, want: sig.Serialize()})
			}
		}
		var mu sync.Mutex
		var failures []string
		fail := func(s string) {
			mu.Lock()
			if len(failures) < 5 {
				failures = append(failures, s)
			}
			mu.Unlock()
		}
		var wg sync.WaitGroup
		start := make(chan struct{})
		for w := range jobs {
			wg.Add(1)
			go func(w int) {
				defer wg.Done()
				defer func() {
					if r := recover(); r != nil {
						fail(fmt.Sprintf("goroutine %d panicked: %v", w, r))
					}
				}()
				<-start
				for round := 0; round < 6; round++ {
					for i, j := range jobs[w] {
						sig := groupsig.Sign(j.sk, j.msg)
						if got := sig.Serialize(); !bytes.Equal(got, j.want) {
							fail(fmt.Sprintf("goroutine %d job %d: Sign gave %x while other goroutines were signing and verifying, a quiet process gives %x (msg %x)", w, i, got, j.want, j.msg))
						}
						ref := groupsig.DeserializeSign(j.want)
						if ref == nil || !groupsig.VerifySig(j.pk, j.msg, *ref) {
							fail(fmt.Sprintf("goroutine %d job %d: the matching key's signature was rejected while other goroutines were signing and verifying (msg %x)", w, i, j.msg))
						}
					}
				}
			}(w)
		}
		close(start)
		wg.Wait()
		if len(failures) > 0 {
			t.Fatalf("concurrent use changes results:\n%s", failures[0])
		}
		stats.Case(fmt.Sprintf("conc|%d|%d|%x", workers, perWorker, jobs[0][0].want), "law:concurrent_sign_verify")
		stats.Count("concurrent_sign_verify_ops", int64(workers*perWorker*6*2))
	})
}
