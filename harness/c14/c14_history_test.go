package c14

// Parsing must be a function of the presented bytes only, whatever the receiver held before.
//
// Every parse entry point under test (Signature.Deserialize / SetHexString, Pubkey.Deserialize / SetHexString,
// Seckey and ID Deserialize / SetHexString, bn256 G1.Unmarshal / G2.Unmarshal) is fed the byte strings the other
// tests generate (honest, identity, algebraically related points, off-curve, bit flips, truncated, over-long,
// coordinates >= p), once into a fresh receiver and once into receivers with a generated prior history:
// previously parsed identity / another valid value / the same value, un-normalised Jacobian results of
// Sign / RecoverGroupSignature / Add / ScalarMult / Neg, normalised results, and receivers left behind by a
// FAILED parse of garbage. Oracle: accept/reject verdict, re-serialised bytes and verification verdict equal
// those of the fresh receiver; for G1/G2.Unmarshal the independent-reference expectations of
// checkG1ParseInto / checkG2ParseInto hold for every history too.

import (
	"bytes"
	"encoding/hex"
	"fmt"
	"math/big"
	"testing"

	"com.tuntun.rangers/node/src/consensus/groupsig"
	bn "com.tuntun.rangers/node/src/consensus/groupsig/bn256"
	"pgregory.net/rapid"

	"verifharness/internal/ref"
	"verifharness/internal/stats"
)

const fHexStale = "F-C14-c" // SetHexString ignores the decode error: a reused receiver keeps its old value

// thin keeps every candidate of the small families and a drawn sample of the two exhaustive ones.
func thin(t *rapid.T, cs []cand, nFlips int) []cand {
	var out []cand
	var flips, truncs []cand
	for _, c := range cs {
		switch c.family {
		case "bitflip":
			flips = append(flips, c)
		case "truncated":
			truncs = append(truncs, c)
		default:
			out = append(out, c)
		}
	}
	for i := 0; i < nFlips && len(flips) > 0; i++ {
		out = append(out, flips[rapid.IntRange(0, len(flips)-1).Draw(t, "flipIdx")])
	}
	for _, n := range []int{0, 1, len(truncs) / 2, len(truncs)/2 - 1, len(truncs) - 1, rapid.IntRange(0, len(truncs)-1).Draw(t, "truncIdx")} {
		if n >= 0 && n < len(truncs) {
			out = append(out, truncs[n])
		}
	}
	return out
}

type outcome struct {
	accepted bool
	panicked interface{}
	ser      []byte
	isNil    bool
	verified bool
}

func (o outcome) String() string {
	return fmt.Sprintf("{accepted=%v panic=%v nil=%v verified=%v bytes=%x}", o.accepted, o.panicked, o.isNil, o.verified, o.ser)
}

// sameOutcome: verdicts always; state (bytes, nil-ness, verification) whenever the entry point reported success
// (what a receiver holds after a reported failure is the caller's to discard). SetHexString reporting success
// for undecodable input is therefore compared by state.
func sameOutcome(a, b outcome) bool {
	if a.accepted != b.accepted || (a.panicked != nil) != (b.panicked != nil) {
		return false
	}
	if a.accepted {
		return bytes.Equal(a.ser, b.ser) && a.isNil == b.isNil && a.verified == b.verified
	}
	return true
}

// ---------- Signature ----------

type sigHist struct {
	name string
	mk   func() *groupsig.Signature
}

func sigHistories(t *rapid.T, e *sigEnv, garbage []byte) []sigHist {
	sk2 := genSeckey(t, "histSk")
	msg2 := genMsg().Draw(t, "histMsg")
	other := groupsig.Sign(sk2, msg2)
	otherB := other.Serialize()
	// a 2-of-2 shared key, to obtain a fresh result of RecoverGroupSignature
	poly := []groupsig.Seckey{genSeckey(t, "histC0"), genSeckey(t, "histC1")}
	var ids [2]groupsig.ID
	ids[0].SetBigInt(big.NewInt(int64(rapid.IntRange(1, 1000).Draw(t, "histId0"))))
	ids[1].SetBigInt(big.NewInt(int64(rapid.IntRange(1001, 2000).Draw(t, "histId1"))))
	shares := []groupsig.Seckey{*groupsig.ShareSeckey(poly, ids[0]), *groupsig.ShareSeckey(poly, ids[1])}
	parsed := func(b []byte) func() *groupsig.Signature {
		return func() *groupsig.Signature { s := &groupsig.Signature{}; s.Deserialize(b); return s }
	}
	hexed := func(b []byte) func() *groupsig.Signature {
		return func() *groupsig.Signature {
			s := &groupsig.Signature{}
			s.SetHexString("0x" + hex.EncodeToString(b))
			return s
		}
	}
	return []sigHist{
		{"fresh", func() *groupsig.Signature { return &groupsig.Signature{} }},
		{"parsed_identity", parsed(zero64)},
		{"parsed_other_valid", parsed(otherB)},
		{"parsed_same_value", parsed(e.canon)},
		{"hex_parsed_identity", hexed(zero64)},
		{"hex_parsed_other_valid", hexed(otherB)},
		{"jacobian_sign", func() *groupsig.Signature { s := groupsig.Sign(sk2, msg2); return &s }},
		{"jacobian_sign_same_key_msg", func() *groupsig.Signature { s := groupsig.Sign(e.sk, e.msg); return &s }},
		{"jacobian_recover", func() *groupsig.Signature {
			m := map[string]groupsig.Signature{}
			for i := range ids {
				m[ids[i].GetHexString()] = groupsig.Sign(shares[i], msg2)
			}
			return groupsig.RecoverGroupSignature(m, 2)
		}},
		{"normalised_after_serialize", func() *groupsig.Signature { s := groupsig.Sign(sk2, msg2); s.Serialize(); return &s }},
		{"failed_parse_garbage", parsed(garbage)},
		{"failed_parse_short_after_valid", func() *groupsig.Signature { s := parsed(otherB)(); s.Deserialize(otherB[:40]); return s }},
		{"hex_failed_parse_garbage", hexed(garbage)}, // SetHexString does not report the failure: the garbage stays behind
	}
}

func sigOutcome(s *groupsig.Signature, api string, b []byte, pk groupsig.Pubkey, msg []byte, verify bool) (o outcome) {
	defer func() {
		if r := recover(); r != nil {
			o.panicked = r
		}
	}()
	switch api {
	case "Deserialize":
		o.accepted = s.Deserialize(b) == nil
	case "SetHexString":
		o.accepted = s.SetHexString("0x"+hex.EncodeToString(b)) == nil
	}
	if verify { // before Serialize, which normalises the stored point
		o.verified = groupsig.VerifySig(pk, msg, *s)
	}
	o.isNil = s.IsNil()
	o.ser = s.Serialize()
	return
}

// ---------- Pubkey ----------

type pkHist struct {
	name string
	mk   func() *groupsig.Pubkey
}

func pkHistories(t *rapid.T, e *sigEnv, garbage []byte) []pkHist {
	sk2 := genSeckey(t, "histSk")
	otherB := groupsig.GeneratePubkey(sk2).Serialize()
	canon := e.pk.Serialize()
	parsed := func(b []byte) func() *groupsig.Pubkey {
		return func() *groupsig.Pubkey { k := &groupsig.Pubkey{}; k.Deserialize(b); return k }
	}
	hexed := func(b []byte) func() *groupsig.Pubkey {
		return func() *groupsig.Pubkey {
			k := &groupsig.Pubkey{}
			k.SetHexString("0x" + hex.EncodeToString(b))
			return k
		}
	}
	return []pkHist{
		{"fresh", func() *groupsig.Pubkey { return &groupsig.Pubkey{} }},
		{"parsed_identity", parsed(zero128)},
		{"parsed_other_valid", parsed(otherB)},
		{"parsed_same_value", parsed(canon)},
		{"hex_parsed_other_valid", hexed(otherB)},
		{"jacobian_generated", func() *groupsig.Pubkey { return groupsig.GeneratePubkey(sk2) }},
		{"jacobian_generated_same_key", func() *groupsig.Pubkey { return groupsig.GeneratePubkey(e.sk) }},
		{"jacobian_aggregated", func() *groupsig.Pubkey {
			return groupsig.AggregatePubkeys([]groupsig.Pubkey{*groupsig.GeneratePubkey(sk2), *groupsig.GeneratePubkey(e.sk)})
		}},
		{"normalised_after_serialize", func() *groupsig.Pubkey { k := groupsig.GeneratePubkey(sk2); k.Serialize(); return k }},
		{"failed_parse_garbage", parsed(garbage)},
		{"failed_parse_short_after_valid", func() *groupsig.Pubkey { k := parsed(otherB)(); k.Deserialize(otherB[:70]); return k }},
	}
}

func pkOutcome(k *groupsig.Pubkey, api string, b []byte, msg []byte, sig groupsig.Signature, verify bool) (o outcome) {
	defer func() {
		if r := recover(); r != nil {
			o.panicked = r
		}
	}()
	switch api {
	case "Deserialize":
		o.accepted = k.Deserialize(b) == nil
	case "SetHexString":
		o.accepted = k.SetHexString("0x"+hex.EncodeToString(b)) == nil
	}
	if verify {
		o.verified = groupsig.VerifySig(*k, msg, sig)
	}
	o.isNil = k.IsEmpty()
	if !o.isNil {
		o.ser = k.Serialize()
	}
	return
}

// staleHexShape: exactly the recorded shape of F-C14-c: SetHexString, which does not report decode errors,
// given bytes that G1/G2.Unmarshal rejects before it has overwritten the whole point (fewer bytes than one
// point, or a coordinate >= p) while the receiver already holds something.
func staleHexShape(api string, holdsValue bool, b []byte, full int) bool {
	if api != "SetHexString" || !holdsValue {
		return false
	}
	if len(b) < full {
		return true
	}
	for i := 0; i < full; i += 32 {
		if new(big.Int).SetBytes(b[i:i+32]).Cmp(p) >= 0 {
			return true
		}
	}
	return false
}

// ---------- bn256 receivers ----------

type g1Hist struct {
	name string
	mk   func() *bn.G1
}

func g1Histories(t *rapid.T, e *sigEnv, garbage []byte) []g1Hist {
	k := genScalar().Draw(t, "histK")
	k2 := genScalar().Draw(t, "histK2")
	other := new(bn.G1).ScalarBaseMult(k).Marshal()
	parsed := func(bs ...[]byte) func() *bn.G1 {
		return func() *bn.G1 {
			g := new(bn.G1)
			for _, b := range bs {
				g.Unmarshal(b)
			}
			return g
		}
	}
	return []g1Hist{
		{"fresh", func() *bn.G1 { return new(bn.G1) }},
		{"parsed_identity", parsed(zero64)},
		{"parsed_other_valid", parsed(other)},
		{"parsed_same_value", parsed(e.canon)},
		{"jacobian_scalar_base_mult", func() *bn.G1 { return new(bn.G1).ScalarBaseMult(k) }},
		{"jacobian_scalar_mult_hashed", func() *bn.G1 {
			var h bn.G1
			h.HashToPoint(e.msg)
			return new(bn.G1).ScalarMult(&h, k2)
		}},
		{"jacobian_add", func() *bn.G1 {
			return new(bn.G1).Add(new(bn.G1).ScalarBaseMult(k), new(bn.G1).ScalarBaseMult(k2))
		}},
		{"neg_result", func() *bn.G1 { return new(bn.G1).Neg(new(bn.G1).ScalarBaseMult(k)) }},
		{"infinity_result", func() *bn.G1 { return new(bn.G1).ScalarBaseMult(new(big.Int).Set(order)) }},
		{"hashed_point", func() *bn.G1 { var h bn.G1; h.HashToPoint(e.msg); return &h }},
		{"normalised_after_marshal", func() *bn.G1 { g := new(bn.G1).ScalarBaseMult(k); g.Marshal(); return g }},
		{"failed_parse_garbage", parsed(garbage)},
		{"failed_parse_garbage_after_valid", parsed(other, garbage)},
		{"failed_parse_short_after_identity", parsed(zero64, other[:40])},
	}
}

type g2Hist struct {
	name string
	mk   func() *bn.G2
}

func g2Histories(t *rapid.T, garbage []byte) []g2Hist {
	k := genScalar().Draw(t, "histK")
	k2 := genScalar().Draw(t, "histK2")
	for _, v := range []*big.Int{k, k2} { // G2.Marshal of infinity is one byte: keep "other" a finite point
		if new(big.Int).Mod(v, order).Sign() == 0 {
			v.SetInt64(5)
		}
	}
	other := new(bn.G2).ScalarBaseMult(k).Marshal()
	parsed := func(bs ...[]byte) func() *bn.G2 {
		return func() *bn.G2 {
			g := new(bn.G2)
			for _, b := range bs {
				g.Unmarshal(b)
			}
			return g
		}
	}
	return []g2Hist{
		{"fresh", func() *bn.G2 { return new(bn.G2) }},
		{"parsed_identity", parsed(zero128)},
		{"parsed_other_valid", parsed(other)},
		{"jacobian_scalar_base_mult", func() *bn.G2 { return new(bn.G2).ScalarBaseMult(k) }},
		{"jacobian_add", func() *bn.G2 {
			return new(bn.G2).Add(new(bn.G2).ScalarBaseMult(k), new(bn.G2).ScalarBaseMult(k2))
		}},
		{"neg_result", func() *bn.G2 { return new(bn.G2).Neg(new(bn.G2).ScalarBaseMult(k)) }},
		{"infinity_result", func() *bn.G2 { return new(bn.G2).ScalarBaseMult(new(big.Int).Set(order)) }},
		{"normalised_after_marshal", func() *bn.G2 { g := new(bn.G2).ScalarBaseMult(k); g.Marshal(); return g }},
		{"failed_parse_garbage", parsed(garbage)},
		{"failed_parse_garbage_after_valid", parsed(other, garbage)},
		{"failed_parse_short_after_identity", parsed(zero128, other[:70])},
	}
}

func accClass(kind, cls string, acc bool) string {
	return fmt.Sprintf("hist_outcome:%s:%s:accepted=%v", kind, cls, acc)
}

// TestSigParseIgnoresReceiverHistory: Signature.Deserialize / SetHexString and G1.Unmarshal.
func TestSigParseIgnoresReceiverHistory(t *testing.T) {
	stats.Check(t, 25, 400, func(t *rapid.T) {
		sk := genSeckey(t, "sk")
		msg := genMsg().Draw(t, "msg")
		e := honest(t, sk, msg)
		cs := thin(t, sigCandidates(t, e), 8)
		garbage := cat(word(e.S.Y), word(e.S.X)) // off-curve, coordinates < p
		pkWire := groupsig.ByteToPublicKey(e.pk.Serialize())
		hs := sigHistories(t, e, garbage)
		ghs := g1Histories(t, e, garbage)
		stats.Case(fmt.Sprintf("hist_sig:%x:%x", e.skInt, msg), "law:sig_parse_history")
		n := 0
		for _, c := range cs {
			_, strict := ref.G1DecodeStrict(c.b)
			for _, api := range []string{"Deserialize", "SetHexString"} {
				// verification verdict (two pairings each): the honest bytes through both entry points, -sigma and identity through one
				verify := c.family == "honest" || (api == "Deserialize" && (c.family == "neg" || c.family == "identity"))
				fresh := sigOutcome(hs[0].mk(), api, c.b, pkWire, e.msg, verify)
				if fresh.panicked != nil {
					t.Fatalf("Signature.%s(%x) panicked on a fresh receiver: %v", api, c.b, fresh.panicked)
				}
				if verify && fresh.verified != (bytes.Equal(c.b, e.canon) && fresh.accepted) {
					t.Fatalf("[%s] Signature.%s(%x) into a fresh receiver: verification = %v (honest %x)", c.family, api, c.b, fresh.verified, e.canon)
				}
				stats.Class(accClass("Signature."+api, strict, fresh.accepted))
				for _, h := range hs[1:] {
					r := h.mk()
					if staleHexShape(api, !r.IsNil(), c.b, 64) && stats.IsKnown(fHexStale) {
						stats.Exclude(fHexStale)
						continue
					}
					got := sigOutcome(r, api, c.b, pkWire, e.msg, verify)
					n++
					stats.Class("hist:Signature." + api + ":" + h.name)
					if !sameOutcome(fresh, got) {
						t.Fatalf("Signature.%s depends on what the receiver held before [%s, receiver history %s]\n bytes  %x\n fresh  %v\n reused %v\n honest %x sk=%x msg=%x",
							api, c.family, h.name, c.b, fresh, got, e.canon, e.skInt, e.msg)
					}
					if got.accepted && (strict == ref.EncPoint || strict == ref.EncIdentity) {
						stats.NonTrivialOnly("hist_sig:" + api + ":" + h.name + ":" + string(c.b))
					}
				}
			}
			_, freshAcc := checkG1ParseInto(t, ghs[0].mk(), "fresh", c.b)
			stats.Class(accClass("G1.Unmarshal", strict, freshAcc))
			for _, h := range ghs[1:] {
				_, acc := checkG1ParseInto(t, h.mk(), h.name, c.b) // reference expectations for every history
				n++
				stats.Class("hist:G1.Unmarshal:" + h.name)
				if acc != freshAcc {
					t.Fatalf("G1.Unmarshal(%x) [%s]: accepted=%v into a receiver with history %s, %v into a fresh one", c.b, c.family, acc, h.name, freshAcc)
				}
			}
		}
		stats.Evals(int64(n))
		stats.Count("history_parses", int64(n))
	})
}

// TestPubkeyParseIgnoresReceiverHistory: Pubkey.Deserialize / SetHexString and G2.Unmarshal.
func TestPubkeyParseIgnoresReceiverHistory(t *testing.T) {
	stats.Check(t, 20, 300, func(t *rapid.T) {
		sk := genSeckey(t, "sk")
		msg := genMsg().Draw(t, "msg")
		e := honest(t, sk, msg)
		canon := e.pk.Serialize()
		PK, _ := ref.G2DecodeStrict(canon)
		cs := thin(t, pkCandidates(t, e), 8)
		garbage := cat(canon[32:64], canon[0:32], canon[96:128], canon[64:96]) // re/im swapped: off the twist
		sig := *groupsig.DeserializeSign(e.canon)
		hs := pkHistories(t, e, garbage)
		ghs := g2Histories(t, garbage)
		stats.Case(fmt.Sprintf("hist_pk:%x:%x", e.skInt, msg), "law:pubkey_parse_history")
		n := 0
		for _, c := range cs {
			_, strict := ref.G2DecodeStrict(c.b)
			for _, api := range []string{"Deserialize", "SetHexString"} {
				verify := c.family == "honest" || (api == "Deserialize" && c.family == "neg")
				fresh := pkOutcome(hs[0].mk(), api, c.b, e.msg, sig, verify)
				if fresh.panicked != nil {
					t.Fatalf("Pubkey.%s(%x) panicked on a fresh receiver: %v", api, c.b, fresh.panicked)
				}
				if pt, ok := ref.G2DecodeLenient(c.b); verify && fresh.verified != (ok && pt.Equal(PK) && fresh.accepted) {
					t.Fatalf("[%s] Pubkey.%s(%x) into a fresh receiver: verification of the honest signature = %v", c.family, api, c.b, fresh.verified)
				}
				stats.Class(accClass("Pubkey."+api, strict, fresh.accepted))
				for _, h := range hs[1:] {
					r := h.mk()
					if staleHexShape(api, !r.IsEmpty(), c.b, 128) && stats.IsKnown(fHexStale) {
						stats.Exclude(fHexStale)
						continue
					}
					got := pkOutcome(r, api, c.b, e.msg, sig, verify)
					n++
					stats.Class("hist:Pubkey." + api + ":" + h.name)
					if !sameOutcome(fresh, got) {
						t.Fatalf("Pubkey.%s depends on what the receiver held before [%s, receiver history %s]\n bytes  %x\n fresh  %v\n reused %v\n honest %x sk=%x",
							api, c.family, h.name, c.b, fresh, got, canon, e.skInt)
					}
					if got.accepted && strict == ref.EncPoint {
						stats.NonTrivialOnly("hist_pk:" + api + ":" + h.name + ":" + string(c.b))
					}
				}
			}
			_, freshAcc := checkG2ParseInto(t, ghs[0].mk(), "fresh", c.b)
			stats.Class(accClass("G2.Unmarshal", strict, freshAcc))
			for _, h := range ghs[1:] {
				_, acc := checkG2ParseInto(t, h.mk(), h.name, c.b)
				n++
				stats.Class("hist:G2.Unmarshal:" + h.name)
				if acc != freshAcc {
					t.Fatalf("G2.Unmarshal(%x) [%s]: accepted=%v into a receiver with history %s, %v into a fresh one", c.b, c.family, acc, h.name, freshAcc)
				}
			}
		}
		stats.Evals(int64(n))
		stats.Count("history_parses", int64(n))
	})
}

// ---------- Seckey / ID ----------

type intOutcome struct {
	accepted bool
	panicked interface{}
	val      string
	ser      []byte
}

func intOut(parse func() error, val func() *big.Int, ser func() []byte) (o intOutcome) {
	defer func() {
		if r := recover(); r != nil {
			o.panicked = fmt.Sprint(r)
		}
	}()
	o.accepted = parse() == nil
	o.val = val().Text(16)
	o.ser = ser() // ID.Serialize panics above 32 bytes: then both receivers must panic alike
	return
}

func sameInt(a, b intOutcome) bool {
	return a.accepted == b.accepted && fmt.Sprint(a.panicked) == fmt.Sprint(b.panicked) && a.val == b.val && bytes.Equal(a.ser, b.ser)
}

func TestScalarParseIgnoresReceiverHistory(t *testing.T) {
	stats.Check(t, 300, 3000, func(t *rapid.T) {
		v := genScalar().Draw(t, "value")
		prior := genScalar().Draw(t, "prior")
		var in []byte
		kind := ""
		switch rapid.IntRange(0, 4).Draw(t, "inKind") {
		case 0:
			in, kind = v.Bytes(), "minimal"
		case 1:
			in, kind = word(new(big.Int).Rsh(v, uint(rapid.IntRange(0, 255).Draw(t, "shift")))), "padded_32"
		case 2:
			in, kind = []byte{}, "empty"
		case 3:
			in, kind = rapid.SliceOfN(rapid.Byte(), 33, 48).Draw(t, "long"), "longer_than_32"
		default:
			in, kind = rapid.SliceOfN(rapid.Byte(), 0, 32).Draw(t, "any"), "any_upto_32"
		}
		hexIn := rapid.SampledFrom([]string{"0x" + hex.EncodeToString(in), "0x" + new(big.Int).SetBytes(in).Text(16), hex.EncodeToString(in), "", "0x", "0xzz", "0x12zz", "x", "0X10"}).Draw(t, "hexIn")
		key := ""
		if v.BitLen() > 64 {
			key = fmt.Sprintf("hist_scalar:%x:%x:%s", in, prior, hexIn)
		}
		stats.Case(key, "law:scalar_parse_history", "scalar_in:"+kind)
		priorB := prior.Bytes()
		n := 0
		// F-C14-c shape for the integer types: the prefix alone, no digits (big.Int.SetString fails before touching
		// the value and the failure is dropped). Strings with undecodable digits ("0xzz") zero the value in every
		// receiver and are compared normally.
		hexUndecodable := hexIn == "0x"
		stats.Class(fmt.Sprintf("scalar_hex_undecodable:%v", hexUndecodable))

		skHists := map[string]func() *groupsig.Seckey{
			"parsed_other":     func() *groupsig.Seckey { s := &groupsig.Seckey{}; s.Deserialize(priorB); return s },
			"from_bigint":      func() *groupsig.Seckey { return groupsig.NewSeckeyFromBigInt(new(big.Int).Set(prior)) },
			"hex_parsed_other": func() *groupsig.Seckey { s := &groupsig.Seckey{}; s.SetHexString("0x" + prior.Text(16)); return s },
			"failed_hex_no_prefix": func() *groupsig.Seckey {
				s := &groupsig.Seckey{}
				s.Deserialize(priorB)
				s.SetHexString("zz")
				return s
			},
			"failed_hex_bad_digits": func() *groupsig.Seckey {
				s := &groupsig.Seckey{}
				s.Deserialize(priorB)
				s.SetHexString("0xzz")
				return s
			},
		}
		idHists := map[string]func() *groupsig.ID{
			"parsed_other":     func() *groupsig.ID { s := &groupsig.ID{}; s.Deserialize(priorB); return s },
			"set_bigint":       func() *groupsig.ID { s := &groupsig.ID{}; s.SetBigInt(prior); return s },
			"hex_parsed_other": func() *groupsig.ID { s := &groupsig.ID{}; s.SetHexString("0x" + prior.Text(16)); return s },
			"failed_hex_no_prefix": func() *groupsig.ID {
				s := &groupsig.ID{}
				s.Deserialize(priorB)
				s.SetHexString("zz")
				return s
			},
			"failed_hex_bad_digits": func() *groupsig.ID {
				s := &groupsig.ID{}
				s.Deserialize(priorB)
				s.SetHexString("0xzz")
				return s
			},
		}
		skRun := func(s *groupsig.Seckey, api string) intOutcome {
			parse := func() error { return s.Deserialize(in) }
			if api == "SetHexString" {
				parse = func() error { return s.SetHexString(hexIn) }
			}
			return intOut(parse, func() *big.Int { return s.GetBigInt() }, func() []byte { return s.Serialize() })
		}
		idRun := func(s *groupsig.ID, api string) intOutcome {
			parse := func() error { return s.Deserialize(in) }
			if api == "SetHexString" {
				parse = func() error { return s.SetHexString(hexIn) }
			}
			return intOut(parse, func() *big.Int { return s.GetBigInt() }, func() []byte { return s.Serialize() })
		}
		for _, api := range []string{"Deserialize", "SetHexString"} {
			fresh := skRun(&groupsig.Seckey{}, api)
			if api == "Deserialize" && (fresh.panicked != nil || !fresh.accepted || fresh.val != new(big.Int).SetBytes(in).Text(16)) {
				t.Fatalf("Seckey.Deserialize(%x) into a fresh receiver: %+v", in, fresh)
			}
			for _, name := range []string{"parsed_other", "from_bigint", "hex_parsed_other", "failed_hex_no_prefix", "failed_hex_bad_digits"} {
				r := skHists[name]()
				if api == "SetHexString" && hexUndecodable && r.GetBigInt().Sign() != 0 && stats.IsKnown(fHexStale) {
					stats.Exclude(fHexStale)
					continue
				}
				got := skRun(r, api)
				n++
				stats.Class("hist:Seckey." + api + ":" + name)
				// a rejected SetHexString (no 0x prefix) leaves the receiver as it was: only the verdict is compared then
				if got.accepted != fresh.accepted || (fresh.accepted && !sameInt(fresh, got)) {
					t.Fatalf("Seckey.%s depends on what the receiver held before (history %s, prior %x)\n input %x / %q\n fresh  %+v\n reused %+v", api, name, prior, in, hexIn, fresh, got)
				}
			}
			freshID := idRun(&groupsig.ID{}, api)
			if api == "Deserialize" && len(in) <= 32 && (freshID.panicked != nil || !freshID.accepted || freshID.val != new(big.Int).SetBytes(in).Text(16) || !bytes.Equal(freshID.ser, word(new(big.Int).SetBytes(in)))) {
				t.Fatalf("ID.Deserialize(%x) into a fresh receiver: %+v", in, freshID)
			}
			for _, name := range []string{"parsed_other", "set_bigint", "hex_parsed_other", "failed_hex_no_prefix", "failed_hex_bad_digits"} {
				r := idHists[name]()
				if api == "SetHexString" && hexUndecodable && r.GetBigInt().Sign() != 0 && stats.IsKnown(fHexStale) {
					stats.Exclude(fHexStale)
					continue
				}
				got := idRun(r, api)
				n++
				stats.Class("hist:ID." + api + ":" + name)
				if got.accepted != freshID.accepted || (freshID.accepted && !sameInt(freshID, got)) {
					t.Fatalf("ID.%s depends on what the receiver held before (history %s, prior %x)\n input %x / %q\n fresh  %+v\n reused %+v", api, name, prior, in, hexIn, freshID, got)
				}
			}
		}
		stats.Evals(int64(n))
		stats.Count("history_parses", int64(n))
	})
}

// Minimal reproduction of F-C14-c: SetHexString reports success although nothing was decoded, and the receiver
// keeps what it held before (a fresh receiver stays empty).
func TestProbeSetHexStringKeepsOldValue(t *testing.T) {
	e := probeEnv(t)
	var k groupsig.Pubkey
	if err := k.Deserialize(e.pk.Serialize()); err != nil {
		t.Fatalf("setup: %v", err)
	}
	errPk := k.SetHexString("0x00") // one byte: no public key
	pkStale := errPk == nil && !k.IsEmpty() && k.IsEqual(e.pk)
	var s groupsig.Signature
	s.Deserialize(e.canon)
	errSig := s.SetHexString("0x" + hex.EncodeToString(e.canon[:63])) // truncated signature
	sigStale := errSig == nil && !s.IsNil() && groupsig.VerifySig(e.pk, e.msg, s)
	var sk groupsig.Seckey
	sk.Deserialize([]byte{7})
	errSk := sk.SetHexString("0x") // no digits
	skStale := errSk == nil && sk.GetBigInt().Int64() == 7
	var id groupsig.ID
	id.Deserialize([]byte{7})
	errID := id.SetHexString("0xzz")
	idStale := errID == nil && id.GetBigInt().Int64() == 7
	stats.Probe(t, fHexStale, "C14", pkStale || sigStale || skStale || idStale, fmt.Sprintf("SetHexString ignores the decode failure and returns nil, so the outcome depends on what the "+
		"receiver held before: a Pubkey holding pk given \"0x00\" still holds pk (stale=%v); a Signature holding sigma given the hex of sigma[:63] still verifies (stale=%v); "+
		"a Seckey holding 7 given \"0x\" still holds 7 (stale=%v); an ID holding 7 given \"0xzz\" (stale=%v); fresh receivers stay empty/zero", pkStale, sigStale, skStale, idStale))
}
