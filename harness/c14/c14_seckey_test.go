package c14

// "For every secret key" means every value the key type can HOLD, through every way of making one.
//
// Seckey wraps an arbitrary big.Int: NewSeckeyFromRand / NewSeckeyFromBigInt / AggregateSeckeys / ShareSeckey reduce
// modulo the group order n, but Deserialize and SetHexString (shares decoded off the wire, keys read from the
// configuration) keep whatever integer the input denotes. The scalar a key denotes is its value mod n; signing,
// public-key generation and verification must agree on that for every magnitude: [0,n), [n,p), [p,2^256), above
// 2^256, exactly n, n+-1, p, p+-1, multiples of n, 2^256-1.

import (
	"bytes"
	"encoding/hex"
	"fmt"
	"math/big"
	"strings"
	"testing"

	"com.tuntun.rangers/node/src/consensus/base"
	"com.tuntun.rangers/node/src/consensus/groupsig"
	bn "com.tuntun.rangers/node/src/consensus/groupsig/bn256"
	"pgregory.net/rapid"

	"verifharness/internal/ref"
	"verifharness/internal/stats"
)

func magnitudeClass(v *big.Int) string {
	switch {
	case v.Sign() < 0:
		return "negative"
	case v.Sign() == 0:
		return "zero"
	case v.Cmp(order) < 0:
		return "in_1_n"
	case v.Cmp(order) == 0:
		return "exactly_n"
	case v.Cmp(p) < 0:
		return "in_n_p"
	case v.Cmp(p) == 0:
		return "exactly_p"
	case v.Cmp(two256) < 0:
		return "in_p_2^256"
	default:
		return "ge_2^256"
	}
}

// genMagnitude draws an integer by magnitude class (bounded by 2^320).
func genMagnitude(allowHuge bool) *rapid.Generator[*big.Int] {
	one := big.NewInt(1)
	sub := func(a *big.Int, k int64) *big.Int { return new(big.Int).Sub(a, big.NewInt(k)) }
	add := func(a *big.Int, k int64) *big.Int { return new(big.Int).Add(a, big.NewInt(k)) }
	edges := []*big.Int{big.NewInt(0), one, big.NewInt(2), sub(order, 2), sub(order, 1), new(big.Int).Set(order), add(order, 1), add(order, 2),
		new(big.Int).Lsh(order, 1), sub(new(big.Int).Lsh(order, 1), 1), sub(p, 1), new(big.Int).Set(p), add(p, 1), new(big.Int).Add(p, order),
		sub(two256, 1), sub(two256, 2), new(big.Int).Lsh(one, 255), new(big.Int).Lsh(one, 128), new(big.Int).Rsh(order, 1)}
	huge := []*big.Int{new(big.Int).Set(two256), add(two256, 1), new(big.Int).Mul(order, big.NewInt(3)), new(big.Int).Lsh(order, 40), add(new(big.Int).Lsh(order, 40), 7)}
	if !allowHuge { // keep to what fits 32 bytes
		var small []*big.Int
		for _, e := range edges {
			if e.Cmp(two256) < 0 {
				small = append(small, e)
			}
		}
		edges = small
	}
	return rapid.Custom(func(t *rapid.T) *big.Int {
		r := new(big.Int).SetBytes(rapid.SliceOfN(rapid.Byte(), 40, 40).Draw(t, "magBytes"))
		span := func(lo, hi *big.Int) *big.Int { // lo + r mod (hi-lo)
			w := new(big.Int).Sub(hi, lo)
			return new(big.Int).Add(lo, new(big.Int).Mod(r, w))
		}
		kinds := 5
		if allowHuge {
			kinds = 7
		}
		switch rapid.IntRange(0, kinds).Draw(t, "magKind") {
		case 0:
			return new(big.Int).Set(rapid.SampledFrom(edges).Draw(t, "magEdge"))
		case 1:
			return span(one, order)
		case 2:
			return span(order, p)
		case 3, 4:
			return span(p, two256)
		case 5:
			return big.NewInt(int64(rapid.IntRange(1, 70000).Draw(t, "magSmall")))
		case 6:
			return new(big.Int).Set(rapid.SampledFrom(huge).Draw(t, "magHuge"))
		default:
			return span(two256, new(big.Int).Lsh(one, 320))
		}
	})
}

type madeKey struct {
	sk   groupsig.Seckey
	how  string
	want *big.Int // the integer the key must hold according to the constructor's contract; nil = not specified
}

// makeKey builds a Seckey from the integer v through a drawn constructor.
func makeKey(t *rapid.T, v *big.Int, label string) madeKey {
	var sk groupsig.Seckey
	minimal := v.Bytes()
	switch rapid.IntRange(0, 8).Draw(t, label+"Ctor") {
	case 0:
		k := groupsig.NewSeckeyFromBigInt(new(big.Int).Set(v)) // reduces mod n
		return madeKey{*k, "FromBigInt", new(big.Int).Mod(v, order)}
	case 1:
		sk.Deserialize(minimal)
		return madeKey{sk, "Deserialize_minimal", v}
	case 2:
		if v.BitLen() <= 256 {
			sk.Deserialize(word(v))
			return madeKey{sk, "Deserialize_32_bytes", v}
		}
		sk.Deserialize(minimal)
		return madeKey{sk, "Deserialize_longer_than_32", v}
	case 3:
		pad := rapid.IntRange(1, 16).Draw(t, label+"Pad")
		sk.Deserialize(cat(make([]byte, pad), minimal))
		return madeKey{sk, "Deserialize_zero_padded", v}
	case 4:
		sk.SetHexString("0x" + v.Text(16))
		return madeKey{sk, "SetHexString_minimal", v}
	case 5:
		sk.SetHexString("0x" + strings.ToUpper(hex.EncodeToString(cat(make([]byte, 3), minimal))))
		return madeKey{sk, "SetHexString_padded_upper", v}
	case 6:
		w := new(big.Int).SetBytes(rapid.SliceOfN(rapid.Byte(), 32, 32).Draw(t, label+"AggOther"))
		var a, b groupsig.Seckey
		a.Deserialize(minimal)
		b.Deserialize(w.Bytes())
		k := groupsig.AggregateSeckeys([]groupsig.Seckey{a, b})
		return madeKey{*k, "AggregateSeckeys", new(big.Int).Mod(new(big.Int).Add(v, w), order)}
	case 7:
		k := groupsig.NewSeckeyFromRand(base.RandFromBytes(minimal))
		return madeKey{*k, "FromRand", nil}
	default:
		var id groupsig.ID
		id.SetBigInt(big.NewInt(int64(rapid.IntRange(1, 9).Draw(t, label+"ShareAt"))))
		var c1 groupsig.Seckey
		c1.Deserialize(rapid.SliceOfN(rapid.Byte(), 32, 32).Draw(t, label+"ShareC1"))
		var c0 groupsig.Seckey
		c0.Deserialize(minimal)
		k := groupsig.ShareSeckey([]groupsig.Seckey{c0, c1}, id)
		x := id.GetBigInt()
		wv := new(big.Int).Mul(c1.GetBigInt(), x)
		wv.Add(wv, v).Mod(wv, order)
		return madeKey{*k, "ShareSeckey", wv}
	}
}

// refSig / refPk: what the scalar (held mod n) must produce, by the big.Int reference.
func refSig(t fataler, msg []byte, scalar *big.Int) []byte {
	var h bn.G1
	if err := h.HashToPoint(msg); err != nil {
		t.Fatalf("HashToPoint(%x): %v", msg, err)
	}
	H, cls := ref.G1DecodeStrict(h.Marshal())
	if cls != ref.EncPoint {
		t.Fatalf("H(%x) is not a canonical curve point", msg)
	}
	return ref.G1Encode(ref.G1Mul(H, scalar))
}

// TestSeckeyMagnitude: sign / public key / verify agree on the scalar a key denotes, whatever integer it holds.
func TestSeckeyMagnitude(t *testing.T) {
	stats.Check(t, 300, 3000, func(t *rapid.T) {
		v := genMagnitude(true).Draw(t, "v")
		msg := genMsg().Draw(t, "msg")
		mk := makeKey(t, v, "k")
		sk := mk.sk
		held := sk.GetBigInt()
		scalar := new(big.Int).Mod(held, order)
		key := ""
		if held.BitLen() > 64 {
			key = fmt.Sprintf("skmag:%x:%s:%x", held, mk.how, msg)
		}
		stats.Case(key, "law:seckey_magnitude", "skmag_ctor:"+mk.how, "skmag_input:"+magnitudeClass(v), "skmag_held:"+magnitudeClass(held))
		if mk.want != nil && held.Cmp(mk.want) != 0 {
			t.Fatalf("%s of %x holds %x, expected %x", mk.how, v, held, mk.want)
		}

		// serialise / parse round trips keep the held integer and the bytes
		sb := sk.Serialize()
		var back groupsig.Seckey
		if err := back.Deserialize(sb); err != nil || !bytes.Equal(back.Serialize(), sb) || back.GetBigInt().Cmp(held) != 0 || !back.IsEqual(sk) || !sk.IsEqual(back) {
			t.Fatalf("Seckey (%s, value %x): Serialize() = %x parses back to %x (err %v)", mk.how, held, sb, back.GetBigInt(), err)
		}
		hs := sk.GetHexString()
		var hback groupsig.Seckey
		if err := hback.SetHexString(hs); err != nil || hback.GetBigInt().Cmp(held) != 0 || hback.GetHexString() != hs || !hback.IsEqual(sk) {
			t.Fatalf("Seckey (%s, value %x): GetHexString() = %s parses back to %x (err %v)", mk.how, held, hs, hback.GetBigInt(), err)
		}
		if sk.IsValid() != (held.Sign() != 0) { // what IsValid documents: the held integer is non-zero
			t.Fatalf("Seckey.IsValid() = %v for value %x", sk.IsValid(), held)
		}

		if scalar.Sign() == 0 {
			// a key that denotes the scalar 0 (0, n, 2n, ...): public key and signature are the identity; nothing the
			// statement says applies, only record what the code does
			ok, pn := safeBool(func() bool {
				sig := groupsig.Sign(sk, msg)
				return groupsig.VerifySig(*groupsig.GeneratePubkey(sk), msg, sig)
			})
			stats.Class(fmt.Sprintf("skmag_zero_scalar:IsValid=%v:verifies=%v:panic=%v", sk.IsValid(), ok, pn != nil))
			return
		}

		var sigB, pkB []byte
		var v1, v2 bool
		if _, pn := safeBool(func() bool {
			sig := groupsig.Sign(sk, msg)
			pk := groupsig.GeneratePubkey(sk)
			v1 = groupsig.VerifySig(*pk, msg, sig) // as produced (un-normalised point)
			sigB, pkB = sig.Serialize(), pk.Serialize()
			v2 = groupsig.VerifySig(groupsig.ByteToPublicKey(pkB), msg, *groupsig.DeserializeSign(sigB)) // over the wire
			return true
		}); pn != nil {
			t.Fatalf("Sign/GeneratePubkey/VerifySig panicked for a key holding %x (%s): %v", held, mk.how, pn)
		}
		wantSig := refSig(t, msg, scalar)
		wantPk := ref.G2Encode(ref.G2Mul(g2gen, scalar))
		if !bytes.Equal(sigB, wantSig) {
			t.Fatalf("Sign with a key holding %x (%s, %s; scalar %x): signature %x, reference (sk mod n)*H(m) = %x, msg=%x", held, mk.how, magnitudeClass(held), scalar, sigB, wantSig, msg)
		}
		if !bytes.Equal(pkB, wantPk) {
			t.Fatalf("GeneratePubkey with a key holding %x (%s, %s; scalar %x): %x, reference (sk mod n)*g2 = %x", held, mk.how, magnitudeClass(held), scalar, pkB, wantPk)
		}
		if !v1 || !v2 {
			t.Fatalf("the matching key's signature does not verify (direct=%v, over the wire=%v): key holds %x (%s, %s), msg=%x", v1, v2, held, mk.how, magnitudeClass(held), msg)
		}

		// another integer denoting the same scalar: same signature and public key; what IsEqual says is only recorded
		shift := new(big.Int).Mul(order, big.NewInt(int64(rapid.IntRange(1, 3).Draw(t, "shift"))))
		var alias groupsig.Seckey
		alias.Deserialize(new(big.Int).Add(held, shift).Bytes())
		as, ap := groupsig.Sign(alias, msg), groupsig.GeneratePubkey(alias)
		if !bytes.Equal(as.Serialize(), sigB) || !bytes.Equal(ap.Serialize(), pkB) {
			t.Fatalf("keys holding %x and %x denote the same scalar but sign / derive public keys differently:\n %x %x\n %x %x", held, alias.GetBigInt(), sigB, pkB, as.Serialize(), ap.Serialize())
		}
		stats.Class(fmt.Sprintf("skmag_alias_plus_kn:IsEqual=%v", sk.IsEqual(alias)))
		stats.Sample(map[string]string{"law": "seckey_magnitude", "ctor": mk.how, "held": fmt.Sprintf("%x", held), "class": magnitudeClass(held)})
	})
}

// TestSeckeyHexSigns: the textual form may carry a sign big.Int understands; record / check what that does to
// the round trip (the held value must survive Serialize -> Deserialize).
func TestSeckeyHexSigns(t *testing.T) {
	stats.Check(t, 100, 1000, func(t *rapid.T) {
		v := genMagnitude(false).Draw(t, "v")
		if v.Sign() == 0 {
			v.SetInt64(5)
		}
		sign := rapid.SampledFrom([]string{"-", "+"}).Draw(t, "sign")
		in := "0x" + sign + v.Text(16)
		var sk groupsig.Seckey
		err := sk.SetHexString(in)
		held := sk.GetBigInt()
		key := ""
		if v.BitLen() > 64 {
			key = "skhexsign:" + in
		}
		stats.Case(key, "law:seckey_hex_sign", fmt.Sprintf("skhex:%s:accepted=%v:held_%s", sign, err == nil, magnitudeClass(held)))
		var id groupsig.ID
		errID := error(nil)
		if v.BitLen() <= 256 {
			errID = id.SetHexString(in)
			stats.Class(fmt.Sprintf("idhex:%s:accepted=%v:held_%s", sign, errID == nil, magnitudeClass(id.GetBigInt())))
		}
		if sign == "-" && stats.IsKnown(fHexSign) { // exactly the recorded shape: a minus sign in the hex text
			stats.Exclude(fHexSign)
			return
		}
		// accepted: then it is a key / id like any other and must survive its own serialisation
		if err == nil {
			var back groupsig.Seckey
			back.Deserialize(sk.Serialize())
			if back.GetBigInt().Cmp(held) != 0 || !back.IsEqual(sk) {
				t.Fatalf("Seckey.SetHexString(%q) is accepted and holds %s, but Serialize() = %x parses back to %s: the key does not survive a serialise/parse round trip",
					in, held.Text(10), sk.Serialize(), back.GetBigInt().Text(10))
			}
		}
		if errID == nil && v.BitLen() <= 256 {
			var back groupsig.ID
			back.Deserialize(id.Serialize())
			if back.GetBigInt().Cmp(id.GetBigInt()) != 0 || !back.IsEqual(id) {
				t.Fatalf("ID.SetHexString(%q) is accepted and holds %s, but Serialize() = %x parses back to %s", in, id.GetBigInt().Text(10), id.Serialize(), back.GetBigInt().Text(10))
			}
		}
	})
}

const fHexSign = "F-C14-d" // SetHexString accepts a minus sign: negative key/id that Serialize cannot represent

func TestProbeNegativeHexKey(t *testing.T) {
	var sk, back groupsig.Seckey
	err := sk.SetHexString("0x-5")
	back.Deserialize(sk.Serialize())
	present := err == nil && sk.GetBigInt().Sign() < 0 && !back.IsEqual(sk)
	stats.Probe(t, fHexSign, "C14", present, fmt.Sprintf("Seckey.SetHexString(\"0x-5\") returns nil and the key holds -5 (so does ID.SetHexString); Serialize() = %x drops the sign and parses back to +5, "+
		"GetHexString() = %q: a held value that does not survive the byte round trip", sk.Serialize(), sk.GetHexString()))
}

// TestThresholdMagnitude: member ids feed the Lagrange coefficients; ids and polynomial coefficients of every
// magnitude must recover the group signature (master key's signature).
func TestThresholdMagnitude(t *testing.T) {
	stats.Check(t, 150, 1500, func(t *rapid.T) {
		k := rapid.IntRange(2, 3).Draw(t, "k")
		msg := genMsg().Draw(t, "msg")
		var poly []groupsig.Seckey
		for i := 0; i < k; i++ {
			mk := makeKey(t, genMagnitude(true).Draw(t, fmt.Sprintf("c%d", i)), fmt.Sprintf("c%d", i))
			poly = append(poly, mk.sk)
			stats.Class("thr_coeff:" + magnitudeClass(mk.sk.GetBigInt()))
		}
		master := new(big.Int).Mod(poly[0].GetBigInt(), order)
		var ids []groupsig.ID
		for i := 0; i < k; i++ {
			x := genMagnitude(false).Draw(t, fmt.Sprintf("id%d", i))
			var id groupsig.ID
			switch rapid.IntRange(0, 2).Draw(t, fmt.Sprintf("idCtor%d", i)) {
			case 0:
				id.SetBigInt(x)
			case 1:
				id.Deserialize(word(x))
			default:
				id.SetHexString("0x" + x.Text(16))
			}
			ids = append(ids, id)
		}
		// domain: ids pairwise distinct and non-zero as scalars (otherwise interpolation is undefined / the share is the secret)
		okDomain := master.Sign() != 0
		for i := range ids {
			if new(big.Int).Mod(ids[i].GetBigInt(), order).Sign() == 0 {
				okDomain = false
			}
			for j := 0; j < i; j++ {
				if sameScalar(ids[i].GetBigInt(), ids[j].GetBigInt()) {
					okDomain = false
				}
			}
		}
		if !okDomain {
			stats.Case("", "law:threshold_magnitude", "thr:outside_domain")
			return
		}
		idc := ""
		for _, id := range ids {
			idc += magnitudeClass(id.GetBigInt()) + ","
			stats.Class("thr_id:" + magnitudeClass(id.GetBigInt()))
		}
		stats.Case(fmt.Sprintf("thr:%x:%s:%x", master, idc, msg), "law:threshold_magnitude", "thr:in_domain")
		var got []byte
		var ver bool
		if _, pn := safeBool(func() bool {
			m := map[string]groupsig.Signature{}
			for _, id := range ids {
				share := groupsig.ShareSeckey(poly, id)
				m[id.GetHexString()] = groupsig.Sign(*share, msg)
			}
			rec := groupsig.RecoverGroupSignature(m, k)
			ver = groupsig.VerifySig(*groupsig.GeneratePubkey(poly[0]), msg, *rec)
			got = rec.Serialize()
			return true
		}); pn != nil {
			t.Fatalf("share / sign / recover panicked (ids %s): %v", idc, pn)
		}
		if want := refSig(t, msg, master); !bytes.Equal(got, want) {
			t.Fatalf("recovered group signature %x differs from the master key's signature %x (master scalar %x, ids %s)", got, want, master, idc)
		}
		if !ver {
			t.Fatalf("recovered group signature does not verify under the master public key (ids %s)", idc)
		}
	})
}
