package c03

import (
	"errors"
	"sync"

	xdb "com.tuntun.rangers/node/src/middleware/db"
)

// recDB is the "disk": an xdb.Database that keeps the current content and the exact sequence
// of physical writes that produced it. A physical write is a Put, a Delete or one Batch.Write
// (atomic unit, as LevelDB guarantees). A write can be made to fail (error returned, nothing
// applied) to model a disk error that the process survives.
type kvItem struct {
	k   string
	v   []byte
	del bool
}

type physWrite struct {
	kind  string // "put" | "delete" | "batch"
	items []kvItem
	bytes int
}

var errInjected = errors.New("c03: injected disk write error")

type recDB struct {
	xdb.Database // nil: only supplies NewIterator/NewIteratorWithPrefix, which the trie and account layers never call (a call panics -> test failure)
	mu       sync.Mutex
	m        map[string][]byte
	log      []physWrite
	failIn   int // > 0: the failIn-th physical write from now fails
	injected int // number of injected failures so far
}

func newRecDB() *recDB { return &recDB{m: map[string][]byte{}} }

func applyWrite(m map[string][]byte, w physWrite) {
	for _, it := range w.items {
		if it.del {
			delete(m, it.k)
		} else {
			m[it.k] = it.v
		}
	}
}

func (d *recDB) phys(w physWrite) error {
	d.mu.Lock()
	defer d.mu.Unlock()
	if d.failIn > 0 {
		d.failIn--
		if d.failIn == 0 {
			d.injected++
			return errInjected
		}
	}
	applyWrite(d.m, w)
	d.log = append(d.log, w)
	return nil
}

func (d *recDB) snapshot() map[string][]byte {
	d.mu.Lock()
	defer d.mu.Unlock()
	c := make(map[string][]byte, len(d.m))
	for k, v := range d.m {
		c[k] = v // values are never mutated in place
	}
	return c
}

func cp(b []byte) []byte { return append([]byte{}, b...) }

func (d *recDB) Put(k, v []byte) error {
	return d.phys(physWrite{kind: "put", items: []kvItem{{k: string(k), v: cp(v)}}, bytes: len(v)})
}
func (d *recDB) Delete(k []byte) error {
	return d.phys(physWrite{kind: "delete", items: []kvItem{{k: string(k), del: true}}})
}
func (d *recDB) Get(k []byte) ([]byte, error) {
	d.mu.Lock()
	defer d.mu.Unlock()
	if v, ok := d.m[string(k)]; ok {
		return cp(v), nil
	}
	return nil, errors.New("not found")
}
func (d *recDB) Has(k []byte) (bool, error) {
	d.mu.Lock()
	defer d.mu.Unlock()
	_, ok := d.m[string(k)]
	return ok, nil
}
func (d *recDB) Close() {}
func (d *recDB) NewBatch() xdb.Batch { return &recBatch{d: d} }

// recBatch mirrors ldbBatch/prefixBatch: ValueSize counts value bytes only.
type recBatch struct {
	d     *recDB
	items []kvItem
	size  int
}

func (b *recBatch) Put(k, v []byte) error {
	b.items = append(b.items, kvItem{k: string(k), v: cp(v)})
	b.size += len(v)
	return nil
}
func (b *recBatch) ValueSize() int { return b.size }
func (b *recBatch) Write() error {
	return b.d.phys(physWrite{kind: "batch", items: append([]kvItem{}, b.items...), bytes: b.size})
}
func (b *recBatch) Reset() { b.items, b.size = nil, 0 }

// roDB is a frozen disk image handed to cold readers. Reading code has no business writing.
type roDB struct {
	xdb.Database // nil, see recDB
	m      map[string][]byte
	writes int
}

func (d *roDB) Put(k, v []byte) error { d.writes++; return errors.New("c03: read-only disk image") }
func (d *roDB) Delete(k []byte) error { d.writes++; return errors.New("c03: read-only disk image") }
func (d *roDB) Get(k []byte) ([]byte, error) {
	if v, ok := d.m[string(k)]; ok {
		return cp(v), nil
	}
	return nil, errors.New("not found")
}
func (d *roDB) Has(k []byte) (bool, error) { _, ok := d.m[string(k)]; return ok, nil }
func (d *roDB) Close()                     {}
func (d *roDB) NewBatch() xdb.Batch { return &roBatch{d: d} }

type roBatch struct {
	d *roDB
	n int
}

func (b *roBatch) Put(k, v []byte) error { b.n += len(v); return nil }
func (b *roBatch) ValueSize() int        { return b.n }
func (b *roBatch) Write() error {
	b.d.writes++
	return errors.New("c03: read-only disk image")
}
func (b *roBatch) Reset() { b.n = 0 }
