// Package c03 checks property C03: a committed state root is durable, complete and never
// invalidates older roots.
//
// A case is a history of 1-6 "blocks". Every block opens a fresh AccountDB on a parent root over
// ONE long-lived account.NewDatabase(recDB) (as the node does), applies generated mutations
// (balances through the bound token contract, nonces, SetData/RemoveData with variable-length
// prefix-related keys, SetCode 0-3 KB, Suicide, CreateAccount / re-creation), optionally
// IntermediateRoot(true) (core/vmexecutor.go), and then commits exactly like
// core/blockchain_add.go:saveStates: AccountDB.Commit(true) + TrieDB().Commit(root,false). In half
// of the histories the two calls are separated: several state-committed roots are pending in the
// shared trie node cache and are flushed in a generated order (older first, younger first,
// interleaved with further state commits, some never) - what the chain insert and the fork
// processor (no common lock, one NodeDatabase) and retries of failed flushes can produce.
// In 4 of 10 blocks generated runs of the mutations sit inside journal scopes (Snapshot ...
// RevertToSnapshot, nested up to depth 3, also rewriting what the same block wrote before the
// scope and what earlier blocks committed); the model does not apply reverted runs, and for such
// a block the expectation is read from the warm AccountDB after IntermediateRoot(true), right
// before Commit(true) - the property's own wording.
// recDB is the disk; it records every physical write (Put, Delete, each Batch.Write = one atomic
// unit) and can make one write fail (error returned, nothing applied).
//
// Oracles
//
//	(a) durability/completeness: after every commit that reported success, a COLD AccountDB over a
//	    fresh account.NewDatabase(frozen disk image) answers Exist/GetNonce/GetCode/GetCodeHash/
//	    GetData/GetBalance and full storage iteration exactly like the model captured before the
//	    commit - for the new root and for every root committed earlier. The same image is also read
//	    by an independent raw walker (internal/ref/mptwalk.go: RLP + Keccak only) whose decoded
//	    accounts, storage and code must equal the model too.
//	(b) crash enumeration, exhaustive over the recorded write sequence of every commit attempt:
//	    for every prefix of the physical writes the disk image is materialised; every root (of the
//	    whole history, including the one being committed and abandoned ones) whose top node is
//	    present must resolve completely (account trie -> storage tries -> code blobs, every blob
//	    hashing to its reference); every root that was durable before the commit began must still be
//	    present, resolve, and return its model values (raw walker + cold AccountDB).
//
// The model is a plain map (address -> nonce, code, storage); balances and the token contract's
// slots are taken from what the warm AccountDB answers right after the write ("readable before
// the commit"), because the decimal conversion on the balance path is property C18's business.
package c03

import (
	"bytes"
	"crypto/sha256"
	"encoding/binary"
	"encoding/hex"
	"fmt"
	"math/big"
	"os"
	"runtime/debug"
	"sort"
	"strings"
	"testing"

	"com.tuntun.rangers/node/src/common"
	xdb "com.tuntun.rangers/node/src/middleware/db"
	"com.tuntun.rangers/node/src/storage/account"
	"golang.org/x/crypto/sha3"
	"pgregory.net/rapid"

	"verifharness/internal/ref"
	"verifharness/internal/stats"
)

func TestMain(m *testing.M) {
	stats.SetRule("histories of 1-6 blocks (fresh AccountDB per block on one long-lived AccountDatabase over a recording disk; <=40 prefix-related " +
		"addresses; optional fork parent; optional injected disk-write error followed by retry at once, retry later, or drop; one generated class makes a block >=150 KB so " +
		"that its flush spans >=2 physical batches; in half of the histories state commits (AccountDB.Commit) stay pending in the shared node cache and the flushes " +
		"(TrieDB().Commit) come in a generated order: older first, younger first, interleaved with further state commits, some never); every prefix of the physical writes of " +
		"every flush attempt is checked. non-trivial = the history contains a crash prefix strictly inside a multi-batch flush, or deletes an account in one commit and " +
		"re-creates it in a later one, or flushes an older root after a younger one that was state-committed later, or reverts (RevertToSnapshot) a run of mutations that rewrote " +
		"an account/slot/balance which the un-reverted part of the same block had already written; distinct by hash of the whole generated history")
	stats.Assume("crash model: a prefix of whole Put/Delete/Batch.Write operations (LevelDB batch atomicity and ordering trusted)")
	stats.Assume("usage as in core: one AccountDB per block, IntermediateRoot(true) only at the end of a block (vmexecutor), state commit = AccountDB.Commit(true), flush = TrieDB().Commit(root,false) " +
		"(blockchain_add.go saveStates, fork_block.go saveState); 'a commit reported success for a root' = both calls returned nil for it. " +
		"A flush whose disk write failed is retried (at once or after other blocks) by Commit(true) on the same cached state object + TrieDB().Commit, or never")
	stats.Assume("flush orders: saveStates (under the chain lock) and the fork processor's saveState (own lock only, separate goroutine) share one NodeDatabase, so two state-committed roots can be pending " +
		"and be flushed in either order; failed flushes add further pending roots. Histories with more than two never-failed pending roots are generated too and tagged sched:beyond_two_concurrent_callers")
	stats.Assume("journal scopes: in 4 of 10 blocks generated runs of the mutations are wrapped in Snapshot()/RevertToSnapshot() (nested to depth 3; 1 scope in 4 ends without revert; scopes may stay open) as the executors do " +
		"per transaction / inner call; the model does not apply reverted runs. Such a block always ends with IntermediateRoot(true) (as vmexecutor does) and its expectation is what the warm AccountDB answers after it, " +
		"right before Commit(true) (Exist/GetNonce/GetCodeHash/GetCode/GetData over every key ever used/GetBalance): what a revert leaves behind in the object (known F-C04-a/b: nil cache entry, dirty mark) and thereby " +
		"whether Finalise keeps an account is C04's subject and is only counted here (class revert:warm_state_before_commit_differs...)")
	stats.Assume("balances live in the storage of the token contract bound by AddERC20Binding in the first block (as the genesis builder does); nonces are only set to values >= 1; storage keys are 1-40 bytes; " +
		"nil and zero-length answers are the same answer")
	stats.Exhaustive("every prefix of the recorded physical write sequence of every commit attempt of each generated history (histories themselves are sampled)")
	common.Init(0, "1.ini", "dev") // writes 1.ini/logs into the scratch cwd
	account.Init()
	// The bound token contract's address is cached in a process global on first use; prime it so no
	// case depends on being first.
	if err := prime(); err != nil {
		fmt.Println("VERIF-INCONCLUSIVE: cannot build a base state:", err)
		os.Exit(2)
	}
	stats.Main(m, "C03")
}

// ---------------------------------------------------------------- universe

const nPool = 40

var (
	addrT     = common.HexToAddress("0x71d9cfd1b7adb1e8eb4c193ce6ffbe19b4aee0db") // token contract (genesis address of wRPG)
	addrB     = common.GenerateERC20Binding(common.BLANCE_NAME)
	pool      [nPool]common.Address
	tokenCode = append([]byte{0x60, 0x80, 0x60, 0x40, 0x52}, bytes.Repeat([]byte{0x5b, 0x00}, 90)...)
	keyPool   [][]byte

	emptyCodeHash = sha3.Sum256(nil) // what the node stores for "no code" (SHA3-256, not Keccak)
)

func init() {
	lead := []byte{0xaa, 0xab, 0xa0, 0x0a}
	for i := 0; i < nPool; i++ {
		var a common.Address
		if i >= 32 { // differs from pool[i-32] in the last nibble only: deepest possible fork
			a = pool[i-32]
			a[19] ^= 0x01
		} else {
			h := sha256.Sum256([]byte{byte(i), 'c', '0', '3'})
			copy(a[:], h[:20])
			a[0] = lead[i%4]
			a[1] = byte(i / 4 % 3)
		}
		pool[i] = a
	}
	k32a := bytes.Repeat([]byte{0xa5}, 32)
	k32b := append(bytes.Repeat([]byte{0xa5}, 31), 0xa4)
	k20 := bytes.Repeat([]byte{0x11}, 20)
	keyPool = [][]byte{
		[]byte("a"), []byte("ab"), []byte("abc"), []byte("abd"), []byte("b"),
		{0x00}, {0x00, 0x00}, {0x00, 0x01}, {0x01}, {0x10}, {0xff},
		k20, append(append([]byte{}, k20...), 0x00),
		k32a, k32b, append(append([]byte{}, k32a...), 0x00),
		bytes.Repeat([]byte{0x3c}, 40), []byte("ft-xyz"), []byte("nso"),
		{0x00, 0x00, 0x00, 0x00, 0x00, 0x00, 0x00, 0x01},
	}
}

func keccak(b []byte) common.Hash { return common.Hash(ref.MPTKeccak256(b)) }

// erc20Key: slot of `balances[a]` in a Solidity mapping at the given position (EVM ABI).
func erc20Key(a common.Address) string {
	pos := uint64(3)
	if common.IsSub() {
		pos = 4
	}
	var d [64]byte
	copy(d[12:32], a[:])
	binary.BigEndian.PutUint64(d[56:], pos)
	h := ref.MPTKeccak256(d[:])
	return string(h[:])
}

// expand is a pure function of drawn values (splitmix64 stream): long byte strings cost one draw.
func expand(seed uint64, n int) []byte {
	out := make([]byte, n)
	x := seed
	for i := 0; i < n; i += 8 {
		x += 0x9e3779b97f4a7c15
		z := x
		z = (z ^ (z >> 30)) * 0xbf58476d1ce4e5b9
		z = (z ^ (z >> 27)) * 0x94d049bb133111eb
		z ^= z >> 31
		for j := 0; j < 8 && i+j < n; j++ {
			out[i+j] = byte(z >> (8 * uint(j)))
		}
	}
	return out
}

// ---------------------------------------------------------------- model

type mAcct struct {
	Nonce   uint64
	CodeSet bool // SetCode was called in this incarnation (hash = Keccak(code), even for empty code)
	Code    []byte
	Stor    map[string][]byte
}

type mState struct {
	Accts   map[common.Address]*mAcct
	Bal     map[common.Address]*big.Int // GetBalance answers read back from the warm state
	Deleted map[common.Address]bool     // addresses deleted by some commit in this lineage
}

func newState() *mState {
	return &mState{Accts: map[common.Address]*mAcct{}, Bal: map[common.Address]*big.Int{}, Deleted: map[common.Address]bool{}}
}

func (s *mState) clone() *mState {
	c := newState()
	for a, x := range s.Accts {
		y := &mAcct{Nonce: x.Nonce, CodeSet: x.CodeSet, Code: x.Code, Stor: make(map[string][]byte, len(x.Stor))}
		for k, v := range x.Stor {
			y.Stor[k] = v
		}
		c.Accts[a] = y
	}
	for a, v := range s.Bal {
		c.Bal[a] = v
	}
	for a := range s.Deleted {
		c.Deleted[a] = true
	}
	return c
}

// blockObj mirrors what decides deletion at Finalise/Commit(true): the dirty mark, the suicide mark
// and whether the block touched a non-empty storage entry of the object.
type blockObj struct{ dirty, suicided, cachedNonEmpty, fresh bool }

type blockRun struct {
	t       *rapid.T
	st      *account.AccountDB
	w       *mState
	objs    map[common.Address]*blockObj
	keys    map[common.Address]map[string]bool // history-wide: keys ever used per address
	recreat bool

	// open journal scopes: the model keeps a full copy per Snapshot and simply does not apply reverted runs
	scopes   []scopeCopy
	touchLog []string // what the un-reverted part of the block has written so far ("a:"+addr, "d:"+addr+key, "b:"+addr)
	parent   *mState

	nReverted, nReleased, maxDepth             int
	revertedOverEarlierWrite, revertedCommitted bool
}

type scopeCopy struct {
	id      int
	w       *mState
	objs    map[common.Address]*blockObj
	recreat bool
	touched int
}

func (b *blockRun) touch(kind string, a common.Address, k []byte) {
	b.touchLog = append(b.touchLog, "a:"+string(a[:]))
	if kind != "a" {
		b.touchLog = append(b.touchLog, kind+":"+string(a[:])+string(k))
	}
}

func (b *blockRun) snapshot() {
	var id int
	b.guard("Snapshot", func() { id = b.st.Snapshot() })
	objs := make(map[common.Address]*blockObj, len(b.objs))
	for a, o := range b.objs {
		c := *o
		objs[a] = &c
	}
	b.scopes = append(b.scopes, scopeCopy{id: id, w: b.w.clone(), objs: objs, recreat: b.recreat, touched: len(b.touchLog)})
	if len(b.scopes) > b.maxDepth {
		b.maxDepth = len(b.scopes)
	}
}

func (b *blockRun) endScope(revert bool) {
	if len(b.scopes) == 0 {
		return
	}
	sc := b.scopes[len(b.scopes)-1]
	b.scopes = b.scopes[:len(b.scopes)-1]
	if !revert {
		b.nReleased++
		return
	}
	b.guard("RevertToSnapshot", func() { b.st.RevertToSnapshot(sc.id) })
	b.nReverted++
	earlier := map[string]bool{}
	for _, x := range b.touchLog[:sc.touched] {
		earlier[x] = true
	}
	for _, x := range b.touchLog[sc.touched:] {
		if earlier[x] {
			b.revertedOverEarlierWrite = true
		}
		if x[0] == 'a' {
			var a common.Address
			copy(a[:], x[2:])
			if b.parent.Accts[a] != nil {
				b.revertedCommitted = true
			}
		}
	}
	b.touchLog = b.touchLog[:sc.touched]
	b.w, b.objs, b.recreat = sc.w, sc.objs, sc.recreat
}

func (b *blockRun) getOrNew(a common.Address) *blockObj {
	if o := b.objs[a]; o != nil {
		return o
	}
	o := &blockObj{}
	if b.w.Accts[a] == nil {
		b.w.Accts[a] = &mAcct{Stor: map[string][]byte{}}
		o.dirty, o.fresh = true, true
	}
	b.objs[a] = o
	return o
}

func (b *blockRun) get(a common.Address) *blockObj {
	if o := b.objs[a]; o != nil {
		return o
	}
	if b.w.Accts[a] == nil {
		return nil
	}
	o := &blockObj{}
	b.objs[a] = o
	return o
}

func (b *blockRun) noteKey(a common.Address, k []byte) {
	if b.keys[a] == nil {
		b.keys[a] = map[string]bool{}
	}
	b.keys[a][string(k)] = true
}

func (b *blockRun) guard(what string, f func()) {
	defer func() {
		if r := recover(); r != nil {
			b.t.Fatalf("PANIC in %s: %v\n%s", what, r, debug.Stack())
		}
	}()
	f()
}

// readBackBalance records what the warm state answers for a's balance and for its slot in the token
// contract (both cached reads on an object that is already loaded: no side effects).
func (b *blockRun) readBackBalance(a common.Address) {
	b.guard("GetBalance/GetData read-back", func() {
		b.w.Bal[a] = new(big.Int).Set(b.st.GetBalance(a))
		k := erc20Key(a)
		v := b.st.GetData(addrT, []byte(k))
		t := b.w.Accts[addrT]
		if len(v) == 0 {
			delete(t.Stor, k)
		} else {
			t.Stor[k] = cp(v)
		}
	})
	b.noteKey(addrT, []byte(erc20Key(a)))
}

func (b *blockRun) setNonce(a common.Address, n uint64) {
	b.guard("SetNonce", func() { b.st.SetNonce(a, n) })
	b.touch("a", a, nil)
	o := b.getOrNew(a)
	b.w.Accts[a].Nonce = n
	o.dirty = true
}

func (b *blockRun) incNonce(a common.Address) {
	b.guard("IncreaseNonce", func() { b.st.IncreaseNonce(a) })
	b.touch("a", a, nil)
	o := b.getOrNew(a)
	b.w.Accts[a].Nonce++
	o.dirty = true
}

func (b *blockRun) setData(a common.Address, k, v []byte, viaRemove bool) {
	if viaRemove {
		b.guard("RemoveData", func() { b.st.RemoveData(a, k) })
	} else {
		b.guard("SetData", func() { b.st.SetData(a, k, v) })
	}
	b.noteKey(a, k)
	b.touch("d", a, k)
	o := b.getOrNew(a)
	acc := b.w.Accts[a]
	pre := acc.Stor[string(k)]
	if len(pre) > 0 {
		o.cachedNonEmpty = true
	}
	if bytes.Equal(pre, v) || (len(pre) == 0 && len(v) == 0) {
		return
	}
	if len(v) == 0 {
		delete(acc.Stor, string(k))
	} else {
		acc.Stor[string(k)] = cp(v)
	}
	o.dirty, o.cachedNonEmpty = true, true
}

func (b *blockRun) setCode(a common.Address, code []byte) {
	b.guard("SetCode", func() { b.st.SetCode(a, code) })
	b.touch("a", a, nil)
	o := b.getOrNew(a)
	acc := b.w.Accts[a]
	acc.Code, acc.CodeSet = cp(code), true
	o.dirty = true
}

func (b *blockRun) create(a common.Address) {
	b.guard("CreateAccount", func() { b.st.CreateAccount(a) })
	b.touch("a", a, nil)
	b.getOrNew(a)
}

func (b *blockRun) suicide(a common.Address) {
	var ret bool
	b.guard("Suicide", func() { ret = b.st.Suicide(a) })
	o := b.get(a)
	if (o != nil) != ret {
		b.t.Fatalf("harness model out of step (not a C03 verdict): Suicide(%x) returned %v, model has account=%v", a, ret, o != nil)
	}
	if o == nil {
		return
	}
	o.dirty, o.suicided = true, true
	b.touch("b", a, nil)
	b.readBackBalance(a)
}

func (b *blockRun) genesisOps() {
	b.setCode(addrT, tokenCode)
	b.setNonce(addrT, 1)
	var ok bool
	b.guard("AddERC20Binding", func() { ok = b.st.AddERC20Binding(common.BLANCE_NAME, addrT, 3, 18) })
	if !ok {
		b.t.Fatalf("harness: AddERC20Binding refused on a state without binding")
	}
	o := b.getOrNew(addrB)
	acc := b.w.Accts[addrB]
	p3, p18 := make([]byte, 8), make([]byte, 8)
	binary.BigEndian.PutUint64(p3, 3)
	binary.BigEndian.PutUint64(p18, 18)
	acc.Stor["c"], acc.Stor["p"], acc.Stor["d"] = cp(addrT[:]), p3, p18
	o.dirty, o.cachedNonEmpty = true, true
	for _, k := range []string{"c", "p", "d"} {
		b.noteKey(addrB, []byte(k))
	}
}

// finalize applies what Finalise(true)/Commit(true) do to the objects of the block: suicided objects
// and dirty objects that are "empty" (nonce 0, no code hash, no storage entry touched) leave the trie.
func (b *blockRun) finalize() {
	for a, o := range b.objs {
		acc := b.w.Accts[a]
		if acc == nil {
			continue
		}
		empty := acc.Nonce == 0 && !acc.CodeSet && !o.cachedNonEmpty
		if o.suicided || (o.dirty && empty) {
			if !o.suicided && len(acc.Stor) > 0 {
				b.t.Fatalf("harness: generator left its domain (dirty object with nonce 0, no code and committed storage that the block never touched)")
			}
			delete(b.w.Accts, a)
			if !o.fresh {
				b.w.Deleted[a] = true
			}
			continue
		}
		if o.fresh && b.w.Deleted[a] {
			b.recreat = true
		}
	}
}

// ---------------------------------------------------------------- history generation

const (
	opSetData = iota
	opRemoveData
	opSetNonce
	opIncNonce
	opSetCode
	opSuicide
	opCreate
	opSetBalance
	opAddBalance
	opSubBalance
	nOpKinds
	// journal scope markers (core executors wrap every transaction / inner call in Snapshot and
	// RevertToSnapshot on failure); not drawn by drawOp
	opSnapshot
	opRevert  // RevertToSnapshot(id of the innermost open scope)
	opRelease // the scope ended successfully: nothing is called, the id is simply dropped
)

var opNames = []string{"SetData", "RemoveData", "SetNonce", "IncNonce", "SetCode", "Suicide", "Create", "SetBalance", "AddBalance", "SubBalance", "", "Snapshot", "Revert", "Release"}

type opSpec struct {
	Kind int
	A    int
	Key  []byte
	Val  []byte
	N    uint64
	Amt  *big.Int
}

type blockSpec struct {
	Parent int // -1: latest durable root; >= 0: index (mod) into the durable roots
	Ops    []opSpec
	Big    int // 0 none, 1: >=150 KB, 2: >=500 KB
	EndIR  bool
	FailAt int // 0: none; k: the k-th physical write of the commit fails
	Retry  bool
	Replay bool // same operations and parent as the previous block, which was dropped after a write error
	Defer  bool // state commit only; the root stays pending in the node cache
	After  []flushSpec // flushes of pending roots issued after this block
}

func (o opSpec) render() string {
	if o.Kind >= opSnapshot {
		return opNames[o.Kind]
	}
	s := fmt.Sprintf("%s(%d", opNames[o.Kind], o.A)
	switch o.Kind {
	case opSetData:
		s += fmt.Sprintf(",k=%x,v#%d:%x", o.Key, len(o.Val), short(o.Val))
	case opRemoveData:
		s += fmt.Sprintf(",k=%x", o.Key)
	case opSetNonce:
		s += fmt.Sprintf(",%d", o.N)
	case opSetCode:
		s += fmt.Sprintf(",#%d:%x", len(o.Val), short(o.Val))
	case opSetBalance, opAddBalance, opSubBalance:
		s += "," + o.Amt.String()
	}
	return s + ")"
}

func short(b []byte) []byte {
	if len(b) > 6 {
		return b[:6]
	}
	return b
}

func (bs blockSpec) render(maxOps int) string {
	var sb strings.Builder
	fmt.Fprintf(&sb, "parent=%d big=%d ir=%v fail=%d retry=%v replay=%v defer=%v after=%v ops[%d]:", bs.Parent, bs.Big, bs.EndIR, bs.FailAt, bs.Retry, bs.Replay, bs.Defer, bs.After, len(bs.Ops))
	for i, o := range bs.Ops {
		if maxOps > 0 && i >= maxOps {
			sb.WriteString(" ...")
			break
		}
		sb.WriteString(" " + o.render())
	}
	return sb.String()
}

func drawAddr(t *rapid.T) int {
	if rapid.IntRange(0, 9).Draw(t, "hot") < 6 {
		return rapid.IntRange(0, 5).Draw(t, "addrHot")
	}
	return rapid.IntRange(0, nPool-1).Draw(t, "addr")
}

func drawKey(t *rapid.T) []byte {
	if rapid.IntRange(0, 6).Draw(t, "keyKind") == 0 {
		return rapid.SliceOfN(rapid.Byte(), 1, 40).Draw(t, "keyBytes")
	}
	return keyPool[rapid.IntRange(0, len(keyPool)-1).Draw(t, "keyIdx")]
}

func drawVal(t *rapid.T) []byte {
	switch rapid.IntRange(0, 9).Draw(t, "valKind") {
	case 0:
		return nil
	case 1, 2, 3:
		return rapid.SliceOfN(rapid.Byte(), 1, 31).Draw(t, "valShort")
	case 4:
		return expand(rapid.Uint64().Draw(t, "valSeed"), rapid.IntRange(200, 2000).Draw(t, "valLong"))
	default:
		return expand(rapid.Uint64().Draw(t, "valSeed"), rapid.IntRange(32, 100).Draw(t, "valMid"))
	}
}

func drawCode(t *rapid.T) []byte {
	var n int
	switch rapid.IntRange(0, 9).Draw(t, "codeKind") {
	case 0:
		n = 0
	case 1, 2:
		n = rapid.IntRange(1, 31).Draw(t, "codeTiny")
	case 3, 4, 5:
		n = rapid.IntRange(32, 300).Draw(t, "codeSmall")
	default:
		n = rapid.IntRange(1000, 3072).Draw(t, "codeLarge")
	}
	return expand(rapid.Uint64().Draw(t, "codeSeed"), n)
}

func drawAmt(t *rapid.T) *big.Int {
	switch rapid.IntRange(0, 3).Draw(t, "amtKind") {
	case 0:
		return big.NewInt(0)
	case 1:
		return big.NewInt(int64(rapid.IntRange(1, 1000).Draw(t, "amtSmall")))
	default:
		v := new(big.Int).SetUint64(rapid.Uint64().Draw(t, "amt64"))
		return v.Lsh(v, uint(rapid.IntRange(0, 6).Draw(t, "amtShift")))
	}
}

var opWeights = []int{opSetData, opSetData, opSetData, opSetData, opSetData, opSetData, opRemoveData, opSetNonce, opSetNonce, opIncNonce, opIncNonce,
	opSetCode, opSetCode, opSetCode, opSuicide, opSuicide, opCreate, opSetBalance, opSetBalance, opAddBalance, opAddBalance, opSubBalance}

func drawOp(t *rapid.T) opSpec {
	o := opSpec{Kind: opWeights[rapid.IntRange(0, len(opWeights)-1).Draw(t, "op")], A: drawAddr(t)}
	switch o.Kind {
	case opSetData:
		o.Key, o.Val = drawKey(t), drawVal(t)
	case opRemoveData:
		o.Key = drawKey(t)
	case opSetNonce:
		o.N = uint64(rapid.IntRange(1, 1<<20).Draw(t, "nonce"))
	case opSetCode:
		o.Val = drawCode(t)
	case opSetBalance, opAddBalance, opSubBalance:
		o.Amt = drawAmt(t)
	}
	return o
}

// drawOpNear: another mutation of something an earlier operation of the same block already touched
// (same address; same storage key if it had one).
func drawOpNear(t *rapid.T, prev opSpec) opSpec {
	if prev.Key != nil && rapid.IntRange(0, 3).Draw(t, "nearSameKey") > 0 {
		if rapid.IntRange(0, 4).Draw(t, "nearRemove") == 0 {
			return opSpec{Kind: opRemoveData, A: prev.A, Key: prev.Key}
		}
		return opSpec{Kind: opSetData, A: prev.A, Key: prev.Key, Val: drawVal(t)}
	}
	o := drawOp(t)
	o.A = prev.A
	return o
}

// drawScopedOps: n mutations with journal scopes around generated runs of them, nested up to depth 3.
// A scope ends with RevertToSnapshot (3 of 4) or successfully; scopes still open at the end of the
// block stay open (a successful transaction never closes its snapshot).
func drawScopedOps(t *rapid.T, n int) []opSpec {
	var out, plain []opSpec
	depth := 0
	for i := 0; i < n; i++ {
		switch r := rapid.IntRange(0, 5).Draw(t, "scopeStep"); {
		case r == 0 && depth < 3:
			out = append(out, opSpec{Kind: opSnapshot})
			depth++
		case r == 1 && depth > 0:
			k := opRevert
			if rapid.IntRange(0, 3).Draw(t, "scopeSucceeds") == 0 {
				k = opRelease
			}
			out = append(out, opSpec{Kind: k})
			depth--
		}
		var o opSpec
		if len(plain) > 0 && rapid.IntRange(0, 2).Draw(t, "near") > 0 {
			o = drawOpNear(t, plain[rapid.IntRange(0, len(plain)-1).Draw(t, "nearIdx")])
		} else {
			o = drawOp(t)
		}
		out, plain = append(out, o), append(plain, o)
	}
	for ; depth > 0; depth-- {
		switch rapid.IntRange(0, 3).Draw(t, "scopeTail") {
		case 0:
			return out // left open
		case 1:
			out = append(out, opSpec{Kind: opRelease})
		default:
			out = append(out, opSpec{Kind: opRevert})
		}
	}
	return out
}

// bigOps: a block that carries >= 150 KB (big=1) or >= 500 KB (big=2) of new code and trie nodes:
// distinct ~3 KB code for every pool address and many storage slots.
func bigOps(seed uint64, big int, slots, valLen int) []opSpec {
	var ops []opSpec
	for i := 0; i < nPool; i++ {
		s := seed + uint64(i)*1000003
		ops = append(ops, opSpec{Kind: opSetCode, A: i, Val: expand(s, 2900+int(s%173))})
		for j := 0; j < slots; j++ {
			k := expand(s^uint64(j+1)*0x51ed, 1+int((s+uint64(j))%33))
			k[0] = byte(j) // distinct per account, shares prefixes across lengths
			ops = append(ops, opSpec{Kind: opSetData, A: i, Key: k, Val: expand(s+uint64(j)*77, valLen+int((s>>8+uint64(j))%40))})
		}
		if big == 2 {
			for j := 0; j < 8; j++ {
				k := append([]byte{0xf0, byte(j)}, expand(s+uint64(j), j%5)...)
				ops = append(ops, opSpec{Kind: opSetData, A: i, Key: k, Val: expand(s*31+uint64(j), 1500+int((s+uint64(j))%500))})
			}
		}
	}
	return ops
}

type history struct {
	Blocks []blockSpec
	Tail   []flushSpec // flushes issued after the last block; what is still pending then is never flushed
}

func drawFlushes(t *rapid.T, max int) []flushSpec {
	var out []flushSpec
	for i, n := 0, rapid.IntRange(0, max).Draw(t, "nFlush"); i < n; i++ {
		fs := flushSpec{Pick: rapid.SampledFrom([]int{0, 0, 1, 1, 1, 2, 3, 4}).Draw(t, "pick")}
		if rapid.IntRange(0, 7).Draw(t, "flushFault") == 0 {
			fs.FailAt = rapid.IntRange(1, 3).Draw(t, "flushFailAt")
		}
		out = append(out, fs)
	}
	return out
}

func drawHistory(t *rapid.T, forceBig int) history {
	n := rapid.IntRange(1, 6).Draw(t, "nBlocks")
	h := history{}
	bigAt, faultAt := -1, -1
	if forceBig > 0 || rapid.IntRange(0, 9).Draw(t, "bigClass") < 3 {
		bigAt = rapid.IntRange(0, n-1).Draw(t, "bigAt")
	}
	if rapid.IntRange(0, 9).Draw(t, "faultClass") < 3 {
		faultAt = rapid.IntRange(0, n-1).Draw(t, "faultAt")
		if bigAt >= 0 && rapid.Bool().Draw(t, "faultInBig") {
			faultAt = bigAt
		}
	}
	// schedule class: 0-4 = every block is flushed right after its state commit (single-threaded
	// saveStates); otherwise some state commits stay pending and flushes come in a generated order
	sched := rapid.IntRange(0, 9).Draw(t, "schedClass") >= 5
	for b := 0; b < n; b++ {
		bs := blockSpec{Parent: -1, EndIR: rapid.IntRange(0, 4).Draw(t, "endIR") > 0}
		if sched {
			bs.Defer = rapid.IntRange(0, 2).Draw(t, "defer") > 0
			bs.After = drawFlushes(t, 2)
		}
		if b > 0 && rapid.IntRange(0, 4).Draw(t, "fork") == 0 {
			bs.Parent = rapid.IntRange(0, 5).Draw(t, "parent")
		}
		nOps := rapid.IntRange(0, 20).Draw(t, "nOps")
		if b == bigAt {
			nOps = rapid.IntRange(0, 6).Draw(t, "nOpsBig")
		}
		scoped := rapid.IntRange(0, 9).Draw(t, "scopedBlock") < 4
		if scoped {
			bs.Ops = drawScopedOps(t, nOps+2)
		} else {
			for i := 0; i < nOps; i++ {
				bs.Ops = append(bs.Ops, drawOp(t))
			}
		}
		if b == bigAt {
			bs.Big = 1
			if forceBig > 1 {
				bs.Big = 2
			}
			big := bigOps(rapid.Uint64().Draw(t, "bigSeed"), bs.Big, rapid.IntRange(12, 24).Draw(t, "bigSlots"), rapid.IntRange(60, 100).Draw(t, "bigValLen"))
			cut := rapid.IntRange(0, len(bs.Ops)).Draw(t, "bigCut")
			if scoped { // keep the big run outside the journal scopes: before them, or after them all ended
				cut = 0
				if rapid.Bool().Draw(t, "bigLast") {
					open := 0
					for _, o := range bs.Ops {
						switch o.Kind {
						case opSnapshot:
							open++
						case opRevert, opRelease:
							open--
						}
					}
					for ; open > 0; open-- {
						bs.Ops = append(bs.Ops, opSpec{Kind: opRelease})
					}
					cut = len(bs.Ops)
				}
			}
			ops := append(append(append([]opSpec{}, bs.Ops[:cut]...), big...), bs.Ops[cut:]...)
			bs.Ops = ops
		}
		if b == faultAt {
			bs.FailAt = rapid.IntRange(1, 3).Draw(t, "failAt")
			if b == bigAt && bs.Big == 2 {
				bs.FailAt = rapid.IntRange(1, 7).Draw(t, "failAtHuge")
			}
			bs.Retry = rapid.Bool().Draw(t, "retry")
		}
		h.Blocks = append(h.Blocks, bs)
		if b == faultAt && !bs.Retry && b+1 < n && rapid.Bool().Draw(t, "replayDropped") {
			// the dropped block arrives again later and is executed from scratch on the same parent
			again := bs
			again.FailAt, again.Replay = 0, true
			h.Blocks = append(h.Blocks, again)
			b++
		}
	}
	if sched {
		h.Tail = drawFlushes(t, 4)
	}
	return h
}

func (h history) fingerprint() string {
	hs := sha256.New()
	for _, b := range h.Blocks {
		hs.Write([]byte(b.render(0)))
		hs.Write([]byte{'|'})
	}
	fmt.Fprintf(hs, "tail=%v", h.Tail)
	return hex.EncodeToString(hs.Sum(nil)[:12])
}

// ---------------------------------------------------------------- execution

type rootRec struct {
	Root    common.Hash
	Model   *mState
	Durable bool
	Block   int
}

type caseRun struct {
	t      *rapid.T
	rec    *recDB
	adbase account.AccountDatabase
	roots  []*rootRec
	keys   map[common.Address]map[string]bool

	pending      []*pendingRoot
	durableOrder []*rootRec // in the order in which their flush reported success
	img          map[string][]byte
	logChecked   int
	seq          int

	// statistics of the case
	commits, multiBatch, insidePrefixes, prefixes, maxBatches int
	faultHit, retried, abandoned, recreated, sameRoot, forked   bool
	refused, replayed, deferred                                 bool
	youngerFirst, olderAfterYounger, retriedLater               bool
	lastDropped, laterFlushes, maxPending, maxUnfailedPending   int
	neverFlushed                                                int
	scopedBlocks, reverted, released, maxDepth                  int
	revertedOverEarlierWrite, revertedCommitted, revertArtefact bool
	nodesWalked                                                 int
}

func (c *caseRun) durable() []*rootRec { return c.durableOrder }

func runHistory(t *rapid.T, h history) *caseRun {
	c := &caseRun{t: t, rec: newRecDB(), keys: map[common.Address]map[string]bool{}, lastDropped: -5, img: map[string][]byte{}}
	c.adbase = account.NewDatabase(c.rec)
	for bi, bs := range h.Blocks {
		c.runBlock(bi, bs)
	}
	for _, fs := range h.Tail {
		c.flushPick(fs)
	}
	c.neverFlushed = len(c.pending)
	return c
}

func (c *caseRun) runBlock(bi int, bs blockSpec) {
	t := c.t
	parentRoot, parentModel := common.Hash{}, newState()
	if d := c.durable(); len(d) > 0 {
		p := d[len(d)-1]
		if bs.Parent >= 0 {
			p = d[bs.Parent%len(d)]
			if p != d[len(d)-1] {
				c.forked = true
			}
		}
		parentRoot, parentModel = p.Root, p.Model
	}
	var st *account.AccountDB
	func() {
		defer func() {
			if r := recover(); r != nil {
				t.Fatalf("PANIC in NewAccountDB(%x) on the warm database: %v\n%s", parentRoot, r, debug.Stack())
			}
		}()
		var err error
		st, err = account.NewAccountDB(parentRoot, c.adbase)
		if err != nil {
			t.Fatalf("block %d: cannot open durable parent root %x on the warm database: %v", bi, parentRoot, err)
		}
	}()
	if bs.Replay && c.lastDropped == bi-1 && bi > 0 {
		c.replayed = true
	}
	b := &blockRun{t: t, st: st, w: parentModel.clone(), objs: map[common.Address]*blockObj{}, keys: c.keys, parent: parentModel}
	if b.w.Accts[addrB] == nil {
		b.genesisOps()
	}
	for _, o := range bs.Ops {
		switch o.Kind {
		case opSnapshot:
			b.snapshot()
			continue
		case opRevert:
			b.endScope(true)
			continue
		case opRelease:
			b.endScope(false)
			continue
		}
		a := pool[o.A]
		switch o.Kind {
		case opSetData:
			b.setData(a, o.Key, o.Val, false)
		case opRemoveData:
			b.setData(a, o.Key, nil, true)
		case opSetNonce:
			b.setNonce(a, o.N)
		case opIncNonce:
			b.incNonce(a)
		case opSetCode:
			if acc := b.w.Accts[a]; acc != nil && acc.CodeSet && len(acc.Code) == 0 {
				// An account whose code was set to the empty string carries hash Keccak("") which the
				// code reader reports as "not found"; SetCode on it memoizes that error and the block's
				// AccountDB.Commit then refuses. A refused commit is outside C03 (nothing was reported
				// committed), so the history just stays away from it to remain productive.
				stats.Class("skipped_op:SetCode_on_account_whose_code_was_set_empty")
				continue
			}
			b.setCode(a, o.Val)
		case opSuicide:
			b.suicide(a)
		case opCreate:
			b.create(a)
		case opSetBalance:
			b.guard("SetBalance", func() { st.SetBalance(a, o.Amt) })
			b.touchLog = append(b.touchLog, "b:"+string(a[:]))
			b.getOrNew(addrT)
			b.readBackBalance(a)
		case opAddBalance:
			b.guard("AddBalance", func() { st.AddBalance(a, o.Amt) })
			b.touchLog = append(b.touchLog, "b:"+string(a[:]))
			b.getOrNew(addrT)
			b.readBackBalance(a)
		case opSubBalance:
			b.guard("SubBalance", func() { st.SubBalance(a, o.Amt) })
			b.touchLog = append(b.touchLog, "b:"+string(a[:]))
			b.getOrNew(addrT)
			b.readBackBalance(a)
		}
	}
	scoped := b.nReverted+b.nReleased+len(b.scopes) > 0
	if bs.EndIR || scoped { // the executor always ends a block with IntermediateRoot(true)
		b.guard("IntermediateRoot(true)", func() { st.IntermediateRoot(true) })
	}
	b.finalize()
	if b.recreat {
		c.recreated = true
	}
	model := b.w // the model captured before the commit
	if scoped {
		// What a revert leaves behind in the journaled object (dirty marks, nil cache entries: C04's
		// subject) can decide whether Finalise keeps an account. C03 only says that what was readable
		// right before the commit is readable from the committed root, so for a block with journal
		// scopes the expectation is what the warm AccountDB answers now - after IntermediateRoot(true),
		// where reads can no longer influence what Commit(true) does.
		warm := c.warmSweep(b, model)
		if d := diffStates(model, warm); d != "" {
			stats.Class("revert:warm_state_before_commit_differs_from_model_without_reverted_runs(C04_territory):" + strings.Fields(d)[0])
			if os.Getenv("C03_DEBUG") != "" {
				fmt.Printf("C03_DEBUG warm!=model: %s | %s\n", d, bs.render(0))
			}
			c.revertArtefact = true
		}
		model = warm
		c.scopedBlocks++
		c.reverted += b.nReverted
		c.released += b.nReleased
		if b.maxDepth > c.maxDepth {
			c.maxDepth = b.maxDepth
		}
		c.revertedOverEarlierWrite = c.revertedOverEarlierWrite || b.revertedOverEarlierWrite
		c.revertedCommitted = c.revertedCommitted || b.revertedCommitted
	}

	// ---- state commit (AccountDB.Commit): nodes enter the shared trie node cache, nothing reaches disk
	var root common.Hash
	var err error
	b.guard("AccountDB.Commit(true)", func() { root, err = st.Commit(true) })
	if err != nil {
		// The property promises nothing about a commit that reports failure on a healthy disk; the
		// block is dropped (as the chain does).
		c.refusedClass("commit_refused_on_healthy_disk:", err)
		return
	}
	rr := &rootRec{Root: root, Model: model, Block: bi}
	for _, o := range c.roots {
		if o.Root == root {
			c.sameRoot = true
		}
	}
	c.roots = append(c.roots, rr)
	c.seq++
	p := &pendingRoot{rr: rr, st: st, seq: c.seq}
	c.pending = append(c.pending, p)
	c.notePending()

	// ---- flush (TrieDB().Commit): immediately, as saveStates does single-threaded, or deferred
	if !bs.Defer {
		ok := c.flush(p, bs.FailAt)
		if !ok && p.failed {
			if bs.Retry {
				// retry at once on the same state object (blockchain_add.go with a cached verified block)
				c.retried = true
				c.flush(p, 0)
			} else {
				c.abandoned = true
				c.lastDropped = bi
			}
		}
	} else {
		c.deferred = true
	}
	for _, fs := range bs.After {
		c.flushPick(fs)
	}
}

// warmSweep reads the whole universe from the block's own AccountDB (Exist, GetNonce, GetCodeHash,
// GetCode, GetData over every key the history ever used for the address, GetBalance).
func (c *caseRun) warmSweep(b *blockRun, fwd *mState) *mState {
	w := newState()
	for a := range fwd.Deleted {
		w.Deleted[a] = true
	}
	emptyKeccak := keccak(nil)
	b.guard("reading the warm AccountDB before the commit", func() {
		for _, a := range universe() {
			if !b.st.Exist(a) {
				continue
			}
			acc := &mAcct{Nonce: b.st.GetNonce(a), Stor: map[string][]byte{}}
			h := b.st.GetCodeHash(a)
			acc.CodeSet = h != common.Hash(emptyCodeHash)
			if acc.CodeSet && h != emptyKeccak { // GetCode on an account whose code was set empty memoizes an error
				acc.Code = cp(b.st.GetCode(a))
			}
			keys := make([]string, 0, len(c.keys[a]))
			for k := range c.keys[a] {
				keys = append(keys, k)
			}
			sort.Strings(keys)
			for _, k := range keys {
				if v := b.st.GetData(a, []byte(k)); len(v) > 0 {
					acc.Stor[k] = cp(v)
				}
			}
			w.Accts[a] = acc
		}
		for _, a := range pool {
			if v := b.st.GetBalance(a); v != nil && v.Sign() != 0 {
				w.Bal[a] = new(big.Int).Set(v)
			}
		}
	})
	return w
}

// diffStates names the first difference between two model states ("" if none).
func diffStates(x, y *mState) string {
	for _, a := range universe() {
		p, q := x.Accts[a], y.Accts[a]
		if (p == nil) != (q == nil) {
			return fmt.Sprintf("existence of %x", a)
		}
		if p == nil {
			continue
		}
		if p.Nonce != q.Nonce || p.CodeSet != q.CodeSet || !bytes.Equal(p.Code, q.Code) || len(p.Stor) != len(q.Stor) {
			return fmt.Sprintf("account %x", a)
		}
		for k, v := range p.Stor {
			if !bytes.Equal(v, q.Stor[k]) {
				return fmt.Sprintf("slot %x of %x", k, a)
			}
		}
	}
	for _, a := range pool {
		p, q := x.Bal[a], y.Bal[a]
		if p == nil {
			p = big.NewInt(0)
		}
		if q == nil {
			q = big.NewInt(0)
		}
		if p.Cmp(q) != 0 {
			return fmt.Sprintf("balance of %x", a)
		}
	}
	return ""
}

// pendingRoot: a root whose state commit succeeded and whose flush has not yet reported success.
type pendingRoot struct {
	rr        *rootRec
	st        *account.AccountDB
	seq       int  // order of the state commits
	failed    bool // a flush of it returned an error (the chain would retry through the cached state)
	overtaken bool // a younger root was flushed successfully while this one was pending
}

type flushSpec struct {
	Pick   int // 0: oldest pending, 1: youngest pending, >= 2: (Pick-2) mod len
	FailAt int
}

func (c *caseRun) refusedClass(prefix string, err error) {
	msg := err.Error()
	if len(msg) > 60 {
		msg = msg[:60]
	}
	stats.Class(prefix + msg)
	c.refused = true
}

// notePending tracks whether the schedule stays inside what two unsynchronised callers (chain
// insert under the chain lock, fork processor under its own lock) plus retries of failed commits
// can produce: at most two roots pending that never had a failed flush.
func (c *caseRun) notePending() {
	unfailed := 0
	for _, q := range c.pending {
		if !q.failed {
			unfailed++
		}
	}
	if unfailed > c.maxUnfailedPending {
		c.maxUnfailedPending = unfailed
	}
	if len(c.pending) > c.maxPending {
		c.maxPending = len(c.pending)
	}
}

func (c *caseRun) flushPick(fs flushSpec) {
	if len(c.pending) == 0 {
		return
	}
	var p *pendingRoot
	switch fs.Pick {
	case 0:
		p = c.pending[0]
	case 1:
		p = c.pending[len(c.pending)-1]
	default:
		p = c.pending[(fs.Pick-2)%len(c.pending)]
	}
	c.laterFlushes++
	c.flush(p, fs.FailAt)
}

// flush runs the node's flush path for one pending root and checks every disk image it produced.
// A root whose earlier flush failed is retried the way saveStates does it: AccountDB.Commit(true)
// again on the cached state object, then TrieDB().Commit.
func (c *caseRun) flush(p *pendingRoot, failAt int) bool {
	t := c.t
	guard := func(what string, f func()) {
		defer func() {
			if r := recover(); r != nil {
				t.Fatalf("PANIC in %s: %v\n%s", what, r, debug.Stack())
			}
		}()
		f()
	}
	rr := p.rr
	var err error
	if p.failed {
		c.retriedLater = c.retriedLater || p.overtaken
		var root2 common.Hash
		guard("AccountDB.Commit(true) (retry)", func() { root2, err = p.st.Commit(true) })
		if err != nil {
			c.refusedClass("retry_refused_on_healthy_disk:", err)
			c.enumerate(rr.Block, nil, false)
			return false
		}
		if root2 != rr.Root { // not C03's business; the root that is reported committed is the one that counts
			stats.Class("retry_produced_a_different_root")
			rr = &rootRec{Root: root2, Model: rr.Model, Block: rr.Block}
			c.roots = append(c.roots, rr)
			p.rr = rr
		}
	}
	inj0 := c.rec.injected
	c.rec.failIn = failAt
	guard("TrieDB().Commit", func() { err = c.adbase.TrieDB().Commit(rr.Root, false) })
	c.rec.failIn = 0
	injected := c.rec.injected > inj0
	c.commits++
	if err != nil {
		if injected {
			c.faultHit = true
		} else {
			c.refusedClass("flush_refused_on_healthy_disk:", err)
		}
		p.failed = true
		c.enumerate(rr.Block, nil, false)
		return false
	}
	if injected {
		// success was reported although a write returned an error: the report is what counts, the
		// root is checked like any committed root
		stats.Class("commit_reported_success_despite_write_error")
	}
	// bookkeeping of the flush order
	var rest []*pendingRoot
	for _, q := range c.pending {
		if q == p {
			continue
		}
		if q.seq < p.seq {
			q.overtaken = true
			c.youngerFirst = true
		}
		rest = append(rest, q)
	}
	c.pending = rest
	if p.overtaken {
		c.olderAfterYounger = true
	}
	c.enumerate(rr.Block, rr, true)
	return true
}

// enumerate materialises every prefix of the physical writes issued since the last enumeration
// (= the writes of one flush attempt; a state commit writes nothing).
func (c *caseRun) enumerate(bi int, cur *rootRec, success bool) {
	writes := c.rec.log[c.logChecked:]
	c.logChecked = len(c.rec.log)
	n := len(writes)
	nonEmpty := 0
	for _, w := range writes {
		if len(w.items) > 0 {
			nonEmpty++
		}
	}
	if nonEmpty >= 2 {
		c.multiBatch++
	}
	if nonEmpty > c.maxBatches {
		c.maxBatches = nonEmpty
	}
	before := append([]*rootRec{}, c.durableOrder...)
	for k := 0; k <= n; k++ {
		if k > 0 {
			applyWrite(c.img, writes[k-1])
		}
		c.prefixes++
		if k > 0 && k < n && nonEmpty >= 2 {
			c.insidePrefixes++
		}
		if k == n && success && cur != nil && !cur.Durable {
			cur.Durable = true
			c.durableOrder = append(c.durableOrder, cur)
		}
		c.checkImage(fmt.Sprintf("flush of block %d, disk image after %d of %d physical writes (success reported=%v, %d other roots pending)", bi, k, n, success, len(c.pending)), c.img, before, k == n && success, cur)
	}
}

// ---------------------------------------------------------------- oracles on one disk image

type rawAcct struct {
	Nonce    uint64
	Root     common.Hash
	CodeHash []byte
	Stor     map[string][]byte
	Code     []byte
}

func getter(img map[string][]byte) ref.NodeGetter {
	return func(h [32]byte) ([]byte, bool) {
		v, ok := img[string(h[:])]
		return v, ok
	}
}

func beUint(b []byte) (uint64, bool) {
	if len(b) > 8 || (len(b) > 0 && b[0] == 0) {
		return 0, false
	}
	var v uint64
	for _, x := range b {
		v = v<<8 | uint64(x)
	}
	return v, true
}

// rawState reads a whole state out of the image with the independent walker.
func rawState(img map[string][]byte, root common.Hash, st *ref.WalkStats) (map[common.Address]*rawAcct, error) {
	out := map[common.Address]*rawAcct{}
	get := getter(img)
	err := ref.WalkTrie(get, root, st, func(key, val []byte) error {
		if len(key) != common.AddressLength {
			return fmt.Errorf("account trie key of %d bytes: %x", len(key), key)
		}
		it, err := ref.RLPParse(val)
		if err != nil || !it.IsList || len(it.List) != 3 || it.List[0].IsList || it.List[1].IsList || it.List[2].IsList || len(it.List[1].Str) != 32 {
			return fmt.Errorf("account %x: leaf is not RLP [nonce, root32, codehash]: %x", key, val)
		}
		ra := &rawAcct{Stor: map[string][]byte{}, CodeHash: it.List[2].Str}
		var ok bool
		if ra.Nonce, ok = beUint(it.List[0].Str); !ok {
			return fmt.Errorf("account %x: nonce field %x", key, it.List[0].Str)
		}
		copy(ra.Root[:], it.List[1].Str)
		if e := ref.WalkTrie(get, ra.Root, st, func(k, v []byte) error {
			ra.Stor[string(k)] = v
			return nil
		}); e != nil {
			return fmt.Errorf("account %x: storage trie %x: %v", key, ra.Root, e)
		}
		if !bytes.Equal(ra.CodeHash, emptyCodeHash[:]) {
			if len(ra.CodeHash) != 32 {
				return fmt.Errorf("account %x: code hash of %d bytes", key, len(ra.CodeHash))
			}
			blob, ok := img[string(ra.CodeHash)]
			if !ok {
				return fmt.Errorf("account %x: code blob %x not in store", key, ra.CodeHash)
			}
			if keccak(blob) != common.BytesToHash(ra.CodeHash) {
				return fmt.Errorf("account %x: code blob stored under %x does not hash to it", key, ra.CodeHash)
			}
			ra.Code = blob
			st.Bytes += len(blob)
		}
		var a common.Address
		copy(a[:], key)
		out[a] = ra
		return nil
	})
	return out, err
}

func topPresent(img map[string][]byte, root common.Hash) bool {
	if root == (common.Hash{}) || root == common.Hash(ref.EmptyTrieRoot) {
		return true
	}
	_, ok := img[string(root[:])]
	return ok
}

func sortedKeys(m map[string][]byte) []string {
	ks := make([]string, 0, len(m))
	for k := range m {
		ks = append(ks, k)
	}
	sort.Strings(ks)
	return ks
}

func universe() []common.Address {
	u := append([]common.Address{}, pool[:]...)
	return append(u, addrT, addrB)
}

func (c *caseRun) compareRaw(where string, root common.Hash, raw map[common.Address]*rawAcct, m *mState) {
	t := c.t
	if len(raw) != len(m.Accts) {
		var extra, missing []string
		for a := range raw {
			if m.Accts[a] == nil {
				extra = append(extra, a.GetHexString())
			}
		}
		for a := range m.Accts {
			if raw[a] == nil {
				missing = append(missing, a.GetHexString())
			}
		}
		sort.Strings(extra)
		sort.Strings(missing)
		t.Fatalf("%s: root %x on disk holds %d accounts, model %d (on disk only: %v; in model only: %v)", where, root, len(raw), len(m.Accts), extra, missing)
	}
	for _, a := range universe() {
		ma, ra := m.Accts[a], raw[a]
		if ma == nil && ra == nil {
			continue
		}
		if ma == nil || ra == nil {
			t.Fatalf("%s: root %x: account %x on disk=%v, in model=%v", where, root, a, ra != nil, ma != nil)
		}
		if ra.Nonce != ma.Nonce {
			t.Fatalf("%s: root %x: account %x nonce on disk %d, model %d", where, root, a, ra.Nonce, ma.Nonce)
		}
		wantHash := emptyCodeHash[:]
		if ma.CodeSet {
			h := keccak(ma.Code)
			wantHash = h[:]
		}
		if !bytes.Equal(ra.CodeHash, wantHash) {
			t.Fatalf("%s: root %x: account %x code hash on disk %x, model %x", where, root, a, ra.CodeHash, wantHash)
		}
		if !bytes.Equal(ra.Code, ma.Code) {
			t.Fatalf("%s: root %x: account %x code on disk #%d, model #%d", where, root, a, len(ra.Code), len(ma.Code))
		}
		if len(ra.Stor) != len(ma.Stor) {
			t.Fatalf("%s: root %x: account %x has %d storage slots on disk, model %d", where, root, a, len(ra.Stor), len(ma.Stor))
		}
		for _, k := range sortedKeys(ma.Stor) {
			if !bytes.Equal(ra.Stor[k], ma.Stor[k]) {
				t.Fatalf("%s: root %x: account %x slot %x on disk %x, model %x", where, root, a, k, ra.Stor[k], ma.Stor[k])
			}
		}
	}
}

// compareCold asks a cold AccountDB everything the property names and compares with the model.
func (c *caseRun) compareCold(where string, cold *account.AccountDB, root common.Hash, m *mState) {
	t := c.t
	defer func() {
		if r := recover(); r != nil {
			t.Fatalf("%s: PANIC while reading root %x from a cold AccountDB: %v\n%s", where, root, r, debug.Stack())
		}
	}()
	for _, a := range universe() {
		ma := m.Accts[a]
		if got := cold.Exist(a); got != (ma != nil) {
			t.Fatalf("%s: cold root %x: Exist(%x)=%v, model %v", where, root, a, got, ma != nil)
		}
		var wantNonce uint64
		var wantCode []byte
		wantHash := common.Hash{}
		wantStor := map[string][]byte{}
		if ma != nil {
			wantNonce, wantCode, wantStor = ma.Nonce, ma.Code, ma.Stor
			wantHash = common.Hash(emptyCodeHash)
			if ma.CodeSet {
				wantHash = keccak(ma.Code)
			}
		}
		if got := cold.GetNonce(a); got != wantNonce {
			t.Fatalf("%s: cold root %x: GetNonce(%x)=%d, model %d", where, root, a, got, wantNonce)
		}
		if got := cold.GetCode(a); !bytes.Equal(got, wantCode) {
			t.Fatalf("%s: cold root %x: GetCode(%x)=#%d %x.., model #%d %x..", where, root, a, len(got), short(got), len(wantCode), short(wantCode))
		}
		if got := cold.GetCodeHash(a); got != wantHash {
			t.Fatalf("%s: cold root %x: GetCodeHash(%x)=%x, model %x", where, root, a, got, wantHash)
		}
		// full storage iteration (order between prefix-related keys is C02's business: compare as sets)
		var seen []ref.Pair
		if it := cold.DataIterator(a, nil); it != nil {
			for it.Next() {
				seen = append(seen, ref.Pair{K: cp(it.Key), V: cp(it.Value)})
			}
		}
		sort.Slice(seen, func(i, j int) bool { return bytes.Compare(seen[i].K, seen[j].K) < 0 })
		var want []ref.Pair
		for _, k := range sortedKeys(wantStor) {
			want = append(want, ref.Pair{K: []byte(k), V: wantStor[k]})
		}
		if !ref.PairsEqual(seen, want) {
			t.Fatalf("%s: cold root %x: storage iteration of %x yields %d pairs %s, model %d pairs %s", where, root, a, len(seen), renderPairs(seen), len(want), renderPairs(want))
		}
		keys := make([]string, 0, len(c.keys[a]))
		for k := range c.keys[a] {
			keys = append(keys, k)
		}
		sort.Strings(keys)
		for _, k := range keys {
			if got := cold.GetData(a, []byte(k)); !bytes.Equal(got, wantStor[k]) {
				t.Fatalf("%s: cold root %x: GetData(%x, %x)=%x, model %x", where, root, a, k, got, wantStor[k])
			}
		}
	}
	for _, a := range pool {
		want := m.Bal[a]
		if want == nil {
			want = big.NewInt(0)
		}
		if got := cold.GetBalance(a); got == nil || got.Cmp(want) != 0 {
			t.Fatalf("%s: cold root %x: GetBalance(%x)=%v, before the commit %v", where, root, a, got, want)
		}
	}
	if err := cold.Error(); err != nil {
		t.Fatalf("%s: cold root %x: AccountDB memoized a database error while reading: %v", where, root, err)
	}
}

func renderPairs(p []ref.Pair) string {
	var sb strings.Builder
	for i, x := range p {
		if i == 6 {
			sb.WriteString(" ...")
			break
		}
		fmt.Fprintf(&sb, " %x=#%d:%x", x.K, len(x.V), short(x.V))
	}
	return "[" + sb.String() + " ]"
}

// checkImage applies the property to one disk image. before = roots durable before the current
// commit attempt began; if final, cur has just been reported committed.
func (c *caseRun) checkImage(where string, img map[string][]byte, before []*rootRec, final bool, cur *rootRec) {
	t := c.t
	durable := map[common.Hash]*rootRec{}
	for _, r := range before {
		durable[r.Root] = r
	}
	if final && cur != nil {
		if old := durable[cur.Root]; old == nil {
			durable[cur.Root] = cur
		}
	}
	ro := &roDB{m: img}
	var coldBase account.AccountDatabase
	seen := map[common.Hash]bool{}
	for _, r := range c.roots {
		if seen[r.Root] {
			continue
		}
		seen[r.Root] = true
		d := durable[r.Root]
		present := topPresent(img, r.Root)
		if !present {
			if d != nil {
				if d == cur && final {
					t.Fatalf("%s: the commit of root %x (block %d) reported success but its top node is not on disk", where, r.Root, r.Block)
				}
				t.Fatalf("%s: root %x (block %d) was durable before this commit began; its top node is no longer on disk", where, r.Root, d.Block)
			}
			continue
		}
		ws := &ref.WalkStats{}
		raw, err := rawState(img, r.Root, ws)
		c.nodesWalked += ws.HashedNodes
		if err != nil {
			switch {
			case d != nil && d == cur && final:
				t.Fatalf("%s: the commit of root %x (block %d) reported success but the root is not fully resolvable from disk: %v", where, r.Root, r.Block, err)
			case d != nil:
				t.Fatalf("%s: root %x (block %d) was durable before this commit began and is no longer fully resolvable: %v", where, r.Root, d.Block, err)
			default:
				t.Fatalf("%s: top node of root %x (block %d) is on disk but the root is not fully resolvable: %v", where, r.Root, r.Block, err)
			}
		}
		if d == nil {
			continue // resolvable; values are only promised for committed roots
		}
		c.compareRaw(where+" [raw walker]", r.Root, raw, d.Model)
		if coldBase == nil {
			coldBase = account.NewDatabase(xdb.Database(ro))
		}
		var cold *account.AccountDB
		func() {
			defer func() {
				if rec := recover(); rec != nil {
					t.Fatalf("%s: PANIC opening root %x cold: %v\n%s", where, r.Root, rec, debug.Stack())
				}
			}()
			var e error
			cold, e = account.NewAccountDB(r.Root, coldBase)
			if e != nil {
				t.Fatalf("%s: durable root %x (block %d) cannot be opened from disk: %v", where, r.Root, d.Block, e)
			}
		}()
		c.compareCold(where, cold, r.Root, d.Model)
	}
	if ro.writes != 0 {
		t.Fatalf("%s: reading from a cold database issued %d disk writes", where, ro.writes)
	}
}

// ---------------------------------------------------------------- properties

func (c *caseRun) record(h history) {
	classes := []string{fmt.Sprintf("blocks:%d", len(h.Blocks)), fmt.Sprintf("max_batches_in_one_commit:%s", bucket(c.maxBatches))}
	flag := func(b bool, s string) {
		if b {
			classes = append(classes, s)
		}
	}
	flag(c.multiBatch > 0, "has_multi_batch_commit")
	flag(c.insidePrefixes > 0, "has_crash_prefix_inside_multi_batch_commit")
	flag(c.recreated, "delete_then_recreate_across_commits")
	flag(c.faultHit, "injected_write_error_hit")
	flag(c.retried, "commit_retried_after_write_error")
	flag(c.abandoned, "block_abandoned_after_write_error")
	flag(c.sameRoot, "root_equal_to_an_earlier_root")
	flag(c.forked, "fork_parent_not_latest")
	flag(c.refused, "has_commit_refused_on_healthy_disk")
	flag(c.scopedBlocks > 0, "revert:has_block_with_journal_scopes")
	flag(c.reverted > 0, "revert:has_reverted_scope")
	flag(c.released > 0, "revert:has_scope_that_ended_without_revert")
	flag(c.maxDepth == 2, "revert:nesting_depth_2")
	flag(c.maxDepth >= 3, "revert:nesting_depth_3")
	flag(c.revertedOverEarlierWrite, "revert:reverted_run_rewrote_what_the_same_block_had_written_before")
	flag(c.revertedCommitted, "revert:reverted_run_touched_account_committed_in_an_earlier_block")
	flag(c.revertArtefact, "revert:has_block_whose_warm_state_differs_from_model(C04_territory)")
	flag(c.deferred, "sched:has_deferred_flush")
	flag(c.maxPending >= 2, "sched:two_or_more_roots_pending_at_once")
	flag(c.maxPending >= 3, "sched:three_or_more_roots_pending_at_once")
	flag(c.youngerFirst, "sched:younger_root_flushed_while_older_pending")
	flag(c.olderAfterYounger, "sched:older_root_flushed_after_a_younger_one")
	flag(c.retriedLater, "sched:failed_flush_retried_after_a_younger_root_was_flushed")
	flag(c.neverFlushed > 0, "sched:some_root_never_flushed")
	flag(c.deferred && c.maxUnfailedPending <= 2, "sched:producible_by_chain_insert+fork_processor+retries")
	flag(c.maxUnfailedPending > 2, "sched:beyond_two_concurrent_callers")
	flag(c.replayed, "dropped_block_executed_again_from_scratch")
	nt := ""
	if c.insidePrefixes > 0 || c.recreated || c.olderAfterYounger || c.revertedOverEarlierWrite {
		nt = h.fingerprint()
	}
	stats.Case(nt, classes...)
	stats.Count("commit_attempts", int64(c.commits))
	stats.Count("multi_batch_commit_attempts", int64(c.multiBatch))
	stats.Count("crash_prefixes_checked", int64(c.prefixes))
	stats.Count("crash_prefixes_strictly_inside_multi_batch_commit", int64(c.insidePrefixes))
	stats.Count("nodes_walked_raw", int64(c.nodesWalked))
	stats.Count("reverted_scopes", int64(c.reverted))
	stats.Count("flushes_of_a_root_that_waited_behind_other_state_commits", int64(c.laterFlushes))
	var blocks []string
	for _, b := range h.Blocks {
		blocks = append(blocks, b.render(8))
	}
	stats.Sample(map[string]interface{}{
		"blocks": blocks, "commit_attempts": c.commits, "prefixes": c.prefixes, "inside_multi_batch": c.insidePrefixes,
		"max_batches": c.maxBatches, "recreated": c.recreated, "fault": c.faultHit, "retried": c.retried,
	})
}

func bucket(n int) string {
	switch {
	case n <= 1:
		return "1"
	case n == 2:
		return "2"
	case n <= 4:
		return "3-4"
	}
	return ">=5"
}

// TestCommitDurableCrashSafe: mixed histories; about one in three contains a >=150 KB block.
func TestCommitDurableCrashSafe(t *testing.T) {
	stats.Check(t, 300, 800, func(t *rapid.T) {
		h := drawHistory(t, 0)
		c := runHistory(t, h)
		c.record(h)
	})
}

// TestCommitMultiBatch: every history contains a block of >=150 KB (quick) so that each quick run
// enumerates prefixes strictly inside multi-batch commits; in the thorough tier half of them carry
// >=500 KB (>=5 batches).
func TestCommitMultiBatch(t *testing.T) {
	stats.Check(t, 10, 6, func(t *rapid.T) {
		force := 1
		if stats.Thorough() && rapid.Bool().Draw(t, "huge") {
			force = 2
		}
		h := drawHistory(t, force)
		c := runHistory(t, h)
		c.record(h)
	})
}

// TestCommitHugeOnce: one >=500 KB block per quick run as well (>=5 batches), fixed small history.
func TestCommitHugeOnce(t *testing.T) {
	stats.Check(t, 1, 1, func(t *rapid.T) {
		h := drawHistory(t, 2)
		c := runHistory(t, h)
		c.record(h)
	})
}

// ---------------------------------------------------------------- priming

func prime() (err error) {
	defer func() {
		if r := recover(); r != nil {
			err = fmt.Errorf("panic: %v", r)
		}
	}()
	rec := newRecDB()
	base := account.NewDatabase(rec)
	st, e := account.NewAccountDB(common.Hash{}, base)
	if e != nil {
		return e
	}
	st.SetCode(addrT, tokenCode)
	st.SetNonce(addrT, 1)
	if !st.AddERC20Binding(common.BLANCE_NAME, addrT, 3, 18) {
		return fmt.Errorf("binding refused")
	}
	st.SetBalance(pool[0], big.NewInt(7))
	if st.GetBalance(pool[0]).Cmp(big.NewInt(7)) != 0 {
		return fmt.Errorf("balance does not read back")
	}
	if len(st.GetData(addrT, []byte(erc20Key(pool[0])))) == 0 {
		return fmt.Errorf("balance slot is not where the ABI mapping puts it (token contract not bound?)")
	}
	return nil
}
