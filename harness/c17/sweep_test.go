package c17

import (
	"fmt"
	"testing"

	"pgregory.net/rapid"

	"com.tuntun.rangers/node/src/common"
	"com.tuntun.rangers/node/src/middleware/db"
	"com.tuntun.rangers/node/src/middleware/types"

	"verifharness/internal/boot"
	"verifharness/internal/stats"
)

// TestReorgCrashSweep enumerates EVERY crash point of one reorganising delivery. A generated block tree is
// replayed in creation order on a fresh node up to the delivery that removes the most transactions from the
// chain; that delivery is then repeated once per store write n = 1..W with write n and all later ones lost,
// followed by a restart. Checked before anything is submitted again: a block that left the chain has all of
// its (not re-executed) transactions pending again or none of them (the pending container is memory-only, so
// "none" is what a removal that was complete before the crash leaves; a removal the crash interrupted is
// completed at start-up and queues all of them) - never a part. Then, with everything submitted again, the
// full pool-against-chain comparison of the reorg histories.
func TestReorgCrashSweep(t *testing.T) {
	dropNode()
	stats.Check(t, 5, 40, func(t *rapid.T) {
		tr := buildTree(t)
		deliver := func(b *mblock) interface{} {
			blk, err := types.UnMarshalBlock(b.raw)
			if err != nil {
				t.Fatalf("VERIF-INCONCLUSIVE cannot re-parse own block: %v", err)
			}
			return safely(func() { boot.Chain().AddBlockOnChain(blk) })
		}
		// dry run on a fresh node (a node that did not build the blocks decides some deliveries differently from
		// the builder): heads and store writes of every delivery in creation order
		type rec struct {
			before, after *mblock
			writes        int64
		}
		recs := make([]rec, len(tr.blocks))
		{
			node, err := boot.Start()
			if err != nil {
				t.Fatalf("VERIF-INCONCLUSIVE boot: %v", err)
			}
			for _, tx := range tr.txs {
				boot.Pool().AddTransaction(copyTx(tx))
			}
			for i, b := range tr.blocks {
				recs[i].before = tr.byHash[boot.Chain().TopBlock().Hash]
				w0 := db.VerifWriteCount()
				if p := deliver(b); p != nil {
					node.Stop()
					t.Fatalf("delivery of %s panicked: %v\ntree: %s", b.name(), p, tr.describe())
				}
				recs[i].writes = db.VerifWriteCount() - w0
				recs[i].after = tr.byHash[boot.Chain().TopBlock().Hash]
			}
			node.Stop()
		}
		target, best := -1, 0
		for i := range tr.blocks {
			r := recs[i]
			if r.before == nil || r.after == nil || isAncestor(r.before, r.after) {
				continue
			}
			most := 0
			for x := r.before; x != nil && !isAncestor(x, r.after); x = x.parent {
				if len(x.txs) > most {
					most = len(x.txs)
				}
			}
			if most >= best {
				target, best = i, most
			}
		}
		if target < 0 || best == 0 {
			stats.Case("", "sweep_tree_without_reorg_that_removes_transactions")
			return
		}
		evicted := map[common.Hash]bool{}
		for _, b := range tr.blocks {
			for _, h := range b.hdr.EvictedTxs {
				evicted[h] = true
			}
		}
		op := tr.blocks[target]
		opWrites, opBefore := recs[target].writes, recs[target].before
		var outcomes []string
		requeued, lost := 0, 0
		for n := int64(1); n <= opWrites+1; n++ {
			node, err := boot.Start()
			if err != nil {
				t.Fatalf("VERIF-INCONCLUSIVE boot: %v", err)
			}
			func() {
				defer node.Stop()
				for _, tx := range tr.txs {
					boot.Pool().AddTransaction(copyTx(tx))
				}
				for _, b := range tr.blocks[:target] {
					if p := deliver(b); p != nil {
						t.Fatalf("prefix delivery of %s panicked: %v\ntree: %s", b.name(), p, tr.describe())
					}
				}
				old := tr.byHash[boot.Chain().TopBlock().Hash]
				if old != opBefore {
					t.Fatalf("VERIF-INCONCLUSIVE replay of the tree in creation order gives another head (%s) than when it was built (%s); n=%d target %s\ntree: %s", old.name(), opBefore.name(), n, op.name(), tr.describe())
				}
				db.VerifArmCrash(n)
				deliver(op) // whatever happens in memory after the crash point is void
				dropped := db.VerifDisarm()
				if err := node.Restart(); err != nil {
					t.Fatalf("restart after a crash at store write %d of the delivery of %s failed: %v\ntree: %s", n, op.name(), err, tr.describe())
				}
				hr := tr.byHash[boot.Chain().TopBlock().Hash]
				if hr == nil {
					t.Fatalf("VERIF-INCONCLUSIVE head after restart is not a block of the tree")
				}
				onNew := map[common.Hash]bool{}
				for _, a := range ancestors(hr) {
					for _, tx := range a.txs {
						onNew[tx.Hash] = true
					}
				}
				out := fmt.Sprintf("w%d:head=%s", n, hr.name())
				for x := old; x != nil && !isAncestor(x, hr); x = x.parent {
					pend, not := 0, 0
					for _, tx := range x.txs {
						if onNew[tx.Hash] {
							continue
						}
						if boot.Pool().IsExisted(tx.Hash) {
							pend++
						} else {
							not++
						}
					}
					out += fmt.Sprintf(",%s:%d/%d", x.name(), pend, pend+not)
					switch {
					case pend > 0 && not > 0:
						t.Fatalf("crash at store write %d of %d of the delivery of %s (%d writes lost), restart: block %s is no longer on the chain, but only %d of its %d transactions are pending again (%d are neither executed nor pending, before anything was submitted again)\ntree: %s\nsweep so far: %v",
							n, opWrites, op.name(), dropped, x.name(), pend, pend+not, not, tr.describe(), outcomes)
					case pend > 0:
						requeued++
						stats.Class(fmt.Sprintf("sweep_removed_block_requeued_at_startup_%dtx", imin(pend, 3)))
					case not > 0:
						lost++
						stats.Class(fmt.Sprintf("sweep_removed_block_not_requeued_%dtx", imin(not, 3)))
					}
				}
				outcomes = append(outcomes, out)
				for _, tx := range tr.txs {
					boot.Pool().AddTransaction(copyTx(tx))
				}
				if err := checkPoolAgainstChain(tr.txs, evicted, fmt.Sprintf("crash at store write %d of %d of the delivery of %s (%d writes lost), restart, everything submitted again", n, opWrites, op.name(), dropped)); err != nil {
					t.Fatalf("%v\ntree: %s", err, tr.describe())
				}
				stats.Count("sweep_crash_points", 1)
			}()
		}
		stats.Case(fmt.Sprintf("sweep|%s|%s", tr.describe(), op.name()), "sweep_case", fmt.Sprintf("sweep_writes_%d0s", opWrites/10), fmt.Sprintf("sweep_largest_removed_block_%dtx", best))
		stats.Sample(map[string]interface{}{"part": "crash sweep", "tree": tr.describe(), "delivery": op.name(), "outcomes": outcomes})
	})
}
