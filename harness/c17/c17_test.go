package c17

import (
	"crypto/sha256"
	"encoding/json"
	"fmt"
	"math/big"
	"os"
	"os/exec"
	"path/filepath"
	"runtime"
	"runtime/debug"
	"sort"
	"strings"
	"sync"
	"sync/atomic"
	"testing"
	"time"

	"com.tuntun.rangers/node/src/common"
	"com.tuntun.rangers/node/src/middleware"
	"com.tuntun.rangers/node/src/middleware/db"
	"com.tuntun.rangers/node/src/middleware/types"
	"com.tuntun.rangers/node/src/service"
	"com.tuntun.rangers/node/src/storage/account"
	"pgregory.net/rapid"

	"verifharness/internal/boot"
	"verifharness/internal/ref"
	"verifharness/internal/stats"
)

func TestMain(m *testing.M) {
	stats.SetRule("part 1: history of add/pack/mark-executed(with evictions)/unmark/lookup over the real pool (<=4 senders, nonces around the state nonce, request ids 0/non-zero, " +
		"foreign block transactions, one class with >200 pending) checked step by step against a Pending/Executed set model; part 2: block trees delivered to a fresh node in " +
		"generated orders (reorgs), pool checked against the canonical chain after every delivery; part 3 (-race build): 4-8 goroutines running pre-generated scripts of " +
		"add/pack/mark/unmark/lookup. non-trivial = history with an unmark followed by a re-pack of a returned transaction, or a pack that withheld a transaction for a nonce gap " +
		"or a single mark whose executed records exceed the pool's 100 KB write chunk (part 1); history with a reorg that removed a block carrying transactions (part 2); mix with >=1 mark or unmark running while other goroutines add/pack (part 3); " +
		"distinct by operation trace / (tree shape, delivery order) / script set")
	stats.Assume("callers' locking is reproduced: MarkExecuted/UnMarkExecuted under the chain write lock, PackForCast under the read lock, AddTransaction and lookups without any lock")
	stats.Assume("blocks handed to MarkExecuted carry one receipt per transaction and only transactions that have no executed record (blockchain_verify refuses other blocks)")
	stats.Assume("schedules are explored statistically only (Go scheduler under the race detector), not enumerated")
	boot.ConfigureForks = func() {
		c := &common.LocalChainConfig
		c.Proposal020Block, c.Proposal023Block, c.Proposal026Block = 0, 0, 1
	}
	stats.Main(m, "C17")
}

const (
	faucet        = "0x8744c51069589296fcb7faa2f891b1f513a0310c"
	perBlockLimit = 200
)

var senders = [4]string{
	"0x00000000000000000000000000000000c1700001",
	"0x00000000000000000000000000000000c1700002",
	"0xf0000000000000000000000000000000c1700003",
	"0x7fffffffffffffffffffffffffffffffc1700004",
}

var txTypes = []int32{types.TransactionTypeETHTX, types.TransactionTypeETHTX, types.TransactionTypeOperatorEvent, types.TransactionTypeContract, types.TransactionTypeMinerApply}

var caseSeq uint64 // makes transaction hashes unique across the cases of one process (executed records persist in the node's store)

func safely(f func()) (p interface{}) {
	defer func() {
		if r := recover(); r != nil {
			p = fmt.Sprintf("%v\n%s", r, debug.Stack())
		}
	}()
	f()
	return nil
}

func proj(tx *types.Transaction) ref.PoolTx {
	return ref.PoolTx{Hash: tx.Hash.Hex(), Sender: strings.ToLower(tx.Source), Nonce: tx.Nonce, RequestId: tx.RequestId}
}

func projAll(txs []*types.Transaction) []ref.PoolTx {
	out := make([]ref.PoolTx, len(txs))
	for i, tx := range txs {
		out[i] = proj(tx)
	}
	return out
}

func mkPoolTx(salt uint64, idx int, sender int, typ int32, nonce, reqId, gate uint64) *types.Transaction {
	tx := &types.Transaction{
		Source:    senders[sender],
		Target:    "0x00000000000000000000000000000000000000aa",
		Type:      typ,
		Time:      fmt.Sprintf("c17-%d-%d", salt, idx),
		Nonce:     nonce,
		RequestId: reqId,
		ChainId:   common.ChainId(1),
	}
	if gate != 0 {
		tx.SubTransactions = []types.UserData{{Address: gate}}
	}
	tx.Hash = tx.GenHash()
	return tx
}

func senderIdx(src string) int {
	for i, s := range senders {
		if s == src {
			return i
		}
	}
	return -1
}

func copyTx(tx *types.Transaction) *types.Transaction { c := *tx; return &c }

func blockHash(salt uint64, n int) common.Hash {
	s := sha256.Sum256([]byte(fmt.Sprintf("c17-block-%d-%d", salt, n)))
	return common.BytesToHash(s[:])
}

// stateWith opens the head state and sets the generated account nonces (what CastBlock hands
// to PackForCast is the head state; the nonces are the part PackForCast reads).
func stateWith(nonces map[string]uint64) (*account.AccountDB, error) {
	st, err := middleware.AccountDBManagerInstance.GetAccountDBByHash(boot.Chain().TopBlock().StateTree)
	if err != nil {
		return nil, err
	}
	for s, n := range nonces {
		st.SetNonce(common.HexToAddress(s), n)
		if got := st.GetNonce(common.HexToAddress(s)); got != n {
			return nil, fmt.Errorf("state nonce of %s reads %d after SetNonce(%d)", s, got, n)
		}
	}
	return st, nil
}

// checkPacked applies the batch rules of the property to a PackForCast result, in the order
// returned and in the order CastBlock puts into the block (it sorts the result again).
func checkPacked(out []*types.Transaction, state map[string]uint64) error {
	for i, tx := range out {
		if tx == nil {
			return fmt.Errorf("packed batch has a nil entry at %d", i)
		}
	}
	if err := ref.CheckBatch(projAll(out), state, perBlockLimit); err != nil {
		return err
	}
	sorted := append([]*types.Transaction(nil), out...)
	var p interface{}
	if len(sorted) > 0 {
		p = safely(func() { sort.Sort(types.Transactions(sorted)) })
	}
	if p != nil {
		return fmt.Errorf("sorting the packed batch as CastBlock does panicked: %v", p)
	}
	if err := ref.CheckBatch(projAll(sorted), state, perBlockLimit); err != nil {
		return fmt.Errorf("after CastBlock's sort: %v", err)
	}
	return nil
}

// ---------------------------------------------------------------------------------------
// Part 1: sequential state machine over the real pool
// ---------------------------------------------------------------------------------------

type pblock struct {
	hdr     *types.BlockHeader
	txs     []*types.Transaction
	evicted []common.Hash
	state   map[string]uint64 // state nonces its transactions were packed against (nil: foreign block)
}

type machine struct {
	t        *rapid.T
	pool     service.TransactionPool
	salt     uint64
	univ     []*types.Transaction
	byHash   map[common.Hash]*types.Transaction
	pending  map[common.Hash]bool
	executed map[common.Hash]common.Hash // tx hash -> block hash
	returned map[common.Hash]bool        // back from an unmark, not yet packed again
	stack    []*pblock
	lastPack []*types.Transaction
	lastSt   map[string]uint64
	cur      [4]uint64
	nBlocks  int
	trace    []string

	hugeTx, fatBlock, wholeBigPack bool
	maxFlushes                     int

	unmarkRepack, nonceGap, limitHit, refusedPending, refusedExecuted, foreign, evictions, deepReorg bool
}

func (m *machine) fail(format string, a ...interface{}) {
	m.t.Helper()
	m.t.Fatalf("%s\ntrace: %s", fmt.Sprintf(format, a...), strings.Join(m.trace, " "))
}

// payload returns n bytes of call data (deterministic content).
func payload(n int) string {
	if n <= 0 {
		return ""
	}
	return strings.Repeat("c17data.", n/8+1)[:n]
}

func (m *machine) newTx(sender int, typ int32, nonce, reqId, gate uint64, dataLen int) *types.Transaction {
	tx := mkPoolTx(m.salt, len(m.univ), sender, typ, nonce, reqId, gate)
	if dataLen > 0 {
		// call data / extra data of realistic and of extreme size: the executed record of a
		// transaction embeds the whole transaction
		if typ == types.TransactionTypeETHTX {
			tx.ExtraData = payload(dataLen)
		} else {
			tx.Data = payload(dataLen)
		}
		tx.Hash = tx.GenHash()
	}
	m.univ = append(m.univ, tx)
	m.byHash[tx.Hash] = tx
	return tx
}

func (m *machine) genTx() *types.Transaction {
	t := m.t
	s := rapid.IntRange(0, 3).Draw(t, "sender")
	typ := rapid.SampledFrom(txTypes).Draw(t, "type")
	d := rapid.SampledFrom([]int{-2, -1, 0, 0, 0, 1, 1, 2, 3, 5}).Draw(t, "nonceDelta")
	n := int64(m.cur[s]) + int64(d)
	if n < 0 {
		n = 0
	}
	nonce := uint64(n)
	// nonces are attacker-chosen 64-bit values: far-ahead ones around 2^31, 2^32, 2^63 and 2^64 must be held back
	// like any other nonce that lies ahead of the sender's next expected one
	if rapid.IntRange(0, 24).Draw(t, "extremeNonce") == 0 {
		base := rapid.SampledFrom([]uint64{1 << 31, 1 << 32, 1<<63 - 1, 1 << 63, ^uint64(0) - 5}).Draw(t, "nonceBase")
		nonce = base + uint64(rapid.IntRange(0, 5).Draw(t, "nonceOff"))
		m.t.Logf("extreme nonce %d", nonce)
	}
	var req uint64
	if rapid.IntRange(0, 4).Draw(t, "hasReqId") == 0 {
		req = uint64(rapid.IntRange(1, 40).Draw(t, "reqId"))
	}
	var gate uint64
	if rapid.IntRange(0, 7).Draw(t, "gate") == 0 {
		gate = uint64(rapid.IntRange(1, 1000).Draw(t, "gateNonce"))
	}
	return m.newTx(s, typ, nonce, req, gate, m.genDataLen())
}

// genDataLen: mostly no call data, some 1-4 KB, rarely a transaction whose record alone is larger
// than the pool's 100 KB write chunk.
func (m *machine) genDataLen() int {
	switch k := rapid.IntRange(0, 199).Draw(m.t, "dataClass"); {
	case k == 137: // (rapid favours the ends of a range: rare classes sit inside it)
		m.hugeTx = true
		return rapid.IntRange(100*1024, 140*1024).Draw(m.t, "hugeData")
	case k >= 40 && k < 60:
		return rapid.IntRange(1024, 4096).Draw(m.t, "kbData")
	case k >= 60 && k < 74:
		return rapid.IntRange(1, 300).Draw(m.t, "smallData")
	}
	return 0
}

// recordFlushes labels a block for the class histogram only (never used as an oracle): how many
// times the executed records of one MarkExecuted call cross the pool's 100 KB chunk size, with
// the records sized as the pool documents them (JSON of receipt + marshalled transaction).
func recordFlushes(hdr *types.BlockHeader, receipts types.Receipts, txs []*types.Transaction) (flushes int, total int) {
	size := 0
	for i, r := range receipts {
		raw, _ := types.MarshalTransaction(txs[i])
		er := service.ExecutedReceipt{BlockHash: hdr.Hash}
		er.Height, er.TxHash, er.Status = r.Height, r.TxHash, r.Status
		b, _ := json.Marshal(&service.ExecutedTransaction{Receipt: er, Transaction: raw})
		size += len(b)
		total += len(b)
		if size > 100*1024 {
			flushes++
			size = 0
		}
	}
	return
}

func (m *machine) add(tx *types.Transaction, what string) {
	var ok bool
	var err error
	if p := safely(func() { ok, err = m.pool.AddTransaction(tx) }); p != nil {
		m.fail("AddTransaction panicked (%s): %v", what, p)
	}
	h := tx.Hash
	accepted := ok && err == nil
	_, isExec := m.executed[h]
	switch {
	case isExec:
		m.refusedExecuted = true
		if accepted {
			m.fail("%s: transaction %s is executed in block %s and was accepted into the pool again", what, h.Hex(), m.executed[h].Hex())
		}
	case m.pending[h]:
		m.refusedPending = true
		if accepted {
			m.fail("%s: transaction %s is already pending and was accepted again", what, h.Hex())
		}
	default:
		if !accepted {
			m.fail("%s: never-seen transaction %s refused (ok=%v err=%v) with %d pending", what, h.Hex(), ok, err, len(m.pending))
		}
		m.pending[h] = true
	}
}

func (m *machine) pendingList() []*types.Transaction {
	var l []*types.Transaction
	for _, tx := range m.univ { // universe order: deterministic
		if m.pending[tx.Hash] {
			l = append(l, tx)
		}
	}
	return l
}

func (m *machine) pack(state map[string]uint64, what string) {
	st, err := stateWith(state)
	if err != nil {
		m.t.Fatalf("VERIF-INCONCLUSIVE state db: %v", err)
	}
	var out []*types.Transaction
	if p := safely(func() { out = m.pool.PackForCast(uint64(100+m.nBlocks), st) }); p != nil {
		m.fail("PackForCast panicked (%s): %v", what, p)
	}
	in := map[common.Hash]bool{}
	for _, tx := range out {
		if tx == nil {
			m.fail("%s: nil entry in the packed batch", what)
		}
		if b, ok := m.executed[tx.Hash]; ok {
			m.fail("%s: transaction %s is executed in block %s and was packed for a new block", what, tx.Hash.Hex(), b.Hex())
		}
		if !m.pending[tx.Hash] {
			m.fail("%s: packed transaction %s is not pending (never added, or evicted)", what, tx.Hash.Hex())
		}
		in[tx.Hash] = true
	}
	if err := checkPacked(out, state); err != nil {
		m.fail("%s: state nonces %v: %v", what, state, err)
	}
	pend := m.pendingList()
	must, ahead := ref.Packable(projAll(pend), state)
	if ahead > 0 {
		m.nonceGap = true
	}
	if len(pend) > perBlockLimit && len(out) == perBlockLimit {
		m.limitHit = true
	}
	for _, tx := range pend {
		if !m.returned[tx.Hash] {
			continue
		}
		if in[tx.Hash] {
			delete(m.returned, tx.Hash)
			m.unmarkRepack = true
		} else if len(pend) <= perBlockLimit && must[tx.Hash.Hex()] {
			m.fail("%s: transaction %s came back from a removed block, is pending and not ahead of nonce (state %v), but was not packed (%d pending, %d packed)",
				what, tx.Hash.Hex(), state, len(pend), len(out))
		}
	}
	m.lastPack, m.lastSt = out, state
	m.trace = append(m.trace, fmt.Sprintf("pack(%d/%d)", len(out), len(pend)))
}

func (m *machine) genState() map[string]uint64 {
	state := map[string]uint64{}
	for i, s := range senders {
		d := rapid.SampledFrom([]int{-1, 0, 0, 0, 0, 1}).Draw(m.t, "stateDelta")
		n := int64(m.cur[i]) + int64(d)
		if n < 0 {
			n = 0
		}
		state[s] = uint64(n)
	}
	return state
}

func (m *machine) mark() { m.markMode("") }

// markMode: "" = generated kind; "whole" = the whole last pack as one block, nothing evicted (what
// the proposer's own full block looks like); "fat" = a foreign block of many transactions with
// 1-4 KB of call data each.
func (m *machine) markMode(mode string) {
	t := m.t
	var txs []*types.Transaction
	var evicted []common.Hash
	var st map[string]uint64
	usable := len(m.lastPack) > 0
	for _, tx := range m.lastPack {
		if !m.pending[tx.Hash] {
			usable = false
		}
	}
	kind := "own"
	if mode == "" && rapid.IntRange(0, 19).Draw(t, "fatBlock") == 7 {
		mode = "fat"
	}
	if mode == "whole" && !usable {
		mode = ""
	}
	if mode == "fat" {
		kind = "fat"
		m.foreign, m.fatBlock = true, true
		n := rapid.IntRange(20, 70).Draw(t, "fatTxs")
		lo := rapid.SampledFrom([]int{1024, 2048, 3000}).Draw(t, "fatData")
		seen := rapid.IntRange(0, 3).Draw(t, "fatSeenEvery") // some of them were gossiped to this node before
		for i := 0; i < n; i++ {
			s := i % 4
			tx := m.newTx(s, txTypes[i%len(txTypes)], m.cur[s]+uint64(i/4), 0, 0, lo+(i*37)%1024)
			if seen > 0 && i%(seen+1) == 0 {
				m.add(tx, "add before fat block")
			}
			txs = append(txs, tx)
		}
	} else if usable && (mode == "whole" || rapid.IntRange(0, 3).Draw(t, "ownBlock") != 0) {
		k := len(m.lastPack)
		evictSome := mode != "whole"
		if mode != "whole" && rapid.Bool().Draw(t, "prefixOnly") {
			k = rapid.IntRange(1, len(m.lastPack)).Draw(t, "prefix")
		} else if mode != "whole" && k > 20 {
			evictSome = rapid.Bool().Draw(t, "evictSome")
		}
		if k == len(m.lastPack) && k >= 150 {
			m.wholeBigPack = true
		}
		for _, tx := range m.lastPack[:k] {
			if evictSome && rapid.IntRange(0, 6).Draw(t, "evict") == 0 {
				evicted = append(evicted, tx.Hash)
				m.evictions = true
			} else {
				txs = append(txs, tx)
			}
		}
		st = m.lastSt
	} else {
		// a block of another proposer: transactions this node never saw plus some it holds
		kind = "foreign"
		m.foreign = true
		nf := rapid.IntRange(0, 3).Draw(t, "nForeign")
		for i := 0; i < nf; i++ {
			txs = append(txs, m.genTx())
		}
		for _, tx := range m.pendingList() {
			if len(txs) < 6 && rapid.IntRange(0, 5).Draw(t, "takePending") == 0 {
				txs = append(txs, tx)
			}
		}
	}
	m.nBlocks++
	hdr := &types.BlockHeader{Height: uint64(100 + m.nBlocks), Hash: blockHash(m.salt, m.nBlocks), EvictedTxs: evicted}
	if evicted == nil {
		hdr.EvictedTxs = []common.Hash{}
	}
	receipts := make(types.Receipts, 0, len(txs))
	failEvery := 0
	if len(txs) > 20 {
		failEvery = rapid.IntRange(2, 9).Draw(t, "failEvery")
	}
	for i, tx := range txs {
		failed := false
		if failEvery > 0 {
			failed = i%failEvery == 0
		} else {
			failed = rapid.IntRange(0, 4).Draw(t, "failed") == 0
		}
		r := types.NewReceipt(nil, failed, 0, hdr.Height, "", tx.Source, "")
		r.TxHash = tx.Hash
		receipts = append(receipts, r)
	}
	flushes, recBytes := recordFlushes(hdr, receipts, txs)
	if flushes > m.maxFlushes {
		m.maxFlushes = flushes
	}
	if flushes > 0 {
		stats.Count("p1_marks_crossing_100KB", 1)
		stats.Count("p1_chunk_flushes", int64(flushes))
	}
	m.trace = append(m.trace, fmt.Sprintf("mark(%s,%dtx,%dev,%dKB)", kind, len(txs), len(evicted), recBytes/1024))
	if p := safely(func() { m.pool.MarkExecuted(hdr, receipts, txs, hdr.EvictedTxs) }); p != nil {
		m.fail("MarkExecuted panicked: %v", p)
	}
	for _, tx := range txs {
		delete(m.pending, tx.Hash)
		delete(m.returned, tx.Hash)
		m.executed[tx.Hash] = hdr.Hash
		if sd := senderIdx(tx.Source); sd >= 0 {
			m.cur[sd]++ // every executed transaction advances the account nonce (vmexecutor)
		}
	}
	for _, h := range evicted {
		// the property is silent on whether an evicted transaction stays pending: follow the pool
		delete(m.returned, h)
		var e error
		if p := safely(func() { _, e = m.pool.GetTransaction(h) }); p != nil {
			m.fail("GetTransaction panicked: %v", p)
		}
		if e == nil {
			m.pending[h] = true
		} else {
			delete(m.pending, h)
		}
	}
	for _, tx := range txs {
		m.lookup(tx.Hash, "after mark")
	}
	m.stack = append(m.stack, &pblock{hdr: hdr, txs: txs, evicted: evicted, state: st})
	m.lastPack = nil
	if flushes > 0 || len(txs) >= 150 {
		// a block written in several chunks: every one of its transactions is executed now, is
		// refused at the pool's door and is not handed out for the next block
		for _, tx := range txs {
			m.add(copyTx(tx), fmt.Sprintf("re-submission after mark of a %d KB block", recBytes/1024))
		}
		state := map[string]uint64{}
		for i, s := range senders {
			state[s] = m.cur[i]
		}
		m.pack(state, "pack after mark of a large block")
	}
}

func (m *machine) unmark() {
	if len(m.stack) == 0 {
		return
	}
	b := m.stack[len(m.stack)-1]
	m.stack = m.stack[:len(m.stack)-1]
	m.trace = append(m.trace, fmt.Sprintf("unmark(%dtx)", len(b.txs)))
	blk := &types.Block{Header: b.hdr, Transactions: b.txs}
	if p := safely(func() { m.pool.UnMarkExecuted(blk) }); p != nil {
		m.fail("UnMarkExecuted panicked: %v", p)
	}
	for _, tx := range b.txs {
		delete(m.executed, tx.Hash)
		m.pending[tx.Hash] = true
		m.returned[tx.Hash] = true
		for i, s := range senders {
			if s == tx.Source && m.cur[i] > 0 {
				m.cur[i]--
			}
		}
	}
	for _, tx := range b.txs {
		m.lookup(tx.Hash, "after unmark")
	}
	m.lastPack = nil
	if b.state != nil && len(b.txs) > 0 && rapid.Bool().Draw(m.t, "repackNow") {
		m.pack(b.state, "re-pack after unmark")
	}
}

// lookup compares IsExisted / GetTransaction / GetExecuted with the model for one hash.
func (m *machine) lookup(h common.Hash, what string) {
	var ex bool
	var tx *types.Transaction
	var err error
	var et *service.ExecutedTransaction
	if p := safely(func() {
		ex = m.pool.IsExisted(h)
		tx, err = m.pool.GetTransaction(h)
		et = m.pool.GetExecuted(h)
	}); p != nil {
		m.fail("lookup panicked (%s): %v", what, p)
	}
	blk, isExec := m.executed[h]
	known := isExec || m.pending[h]
	if ex != known {
		m.fail("%s: IsExisted(%s)=%v, model: pending=%v executed=%v", what, h.Hex(), ex, m.pending[h], isExec)
	}
	if known && (err != nil || tx == nil || tx.Hash != h) {
		m.fail("%s: GetTransaction(%s) does not return the transaction (err=%v), model: pending=%v executed=%v", what, h.Hex(), err, m.pending[h], isExec)
	}
	if !known && err == nil {
		m.fail("%s: GetTransaction(%s) returns a transaction the pool should not know", what, h.Hex())
	}
	if isExec && (et == nil || et.Receipt.BlockHash != blk || et.Receipt.TxHash != h) {
		m.fail("%s: executed record of %s missing or pointing elsewhere (want block %s, got %+v)", what, h.Hex(), blk.Hex(), et)
	}
	if !isExec && et != nil {
		m.fail("%s: %s has an executed record (block %s) but is in no block of the model chain", what, h.Hex(), et.Receipt.BlockHash.Hex())
	}
}

func drainPool(pool service.TransactionPool) {
	service.VerifDrainPending() // hook: clean-up independent of the operations under test
}

// One node per process for the pool-level tests (a second boot in the same process would let
// the first node's background goroutines touch re-initialised package globals - noise for the
// race detector); only the reorg part boots its own nodes, after dropping this one.
var poolNode *boot.Node

var startCwd string

// keepFailFiles: the booted node changes the process cwd, so rapid writes its fail file under the
// node directory; copy it to where the driver looks (the cwd the process was started in).
func keepFailFiles(t *testing.T) {
	if !t.Failed() || startCwd == "" {
		return
	}
	cwd, err := os.Getwd()
	if err != nil || cwd == startCwd {
		return
	}
	files, _ := filepath.Glob(filepath.Join(cwd, "testdata", "rapid", "*", "*.fail"))
	for _, f := range files {
		dst := filepath.Join(startCwd, "testdata", "rapid", filepath.Base(filepath.Dir(f)))
		if os.MkdirAll(dst, 0o755) == nil {
			if b, e := os.ReadFile(f); e == nil {
				_ = os.WriteFile(filepath.Join(dst, filepath.Base(f)), b, 0o644)
			}
		}
	}
}

func needNode(t *testing.T) {
	if poolNode != nil {
		return
	}
	if startCwd == "" {
		startCwd, _ = os.Getwd()
	}
	n, err := boot.Start()
	if err != nil {
		t.Fatalf("VERIF-INCONCLUSIVE boot: %v", err)
	}
	poolNode = n
}

func dropNode() {
	if poolNode != nil {
		poolNode.Stop()
		poolNode = nil
	}
}

func TestPoolStateMachine(t *testing.T) {
	needNode(t)
	defer keepFailFiles(t)
	pool := boot.Pool()
	stats.Check(t, 2500, 8000, func(t *rapid.T) {
		m := &machine{t: t, pool: pool, salt: atomic.AddUint64(&caseSeq, 1),
			byHash: map[common.Hash]*types.Transaction{}, pending: map[common.Hash]bool{},
			executed: map[common.Hash]common.Hash{}, returned: map[common.Hash]bool{}}
		defer func() { _ = safely(func() { drainPool(pool) }) }()
		if n := pool.TxNum(); n != 0 {
			t.Fatalf("%d transactions are pending at case start although every key of the pending container was removed after the previous case: the container is corrupted", n)
		}
		for i := range m.cur {
			m.cur[i] = uint64(rapid.IntRange(0, 4).Draw(t, "baseNonce"))
		}
		big := rapid.IntRange(0, 14).Draw(t, "bigPool") == 0
		steps := rapid.IntRange(4, 40).Draw(t, "steps")
		if big {
			steps = rapid.IntRange(3, 10).Draw(t, "stepsBig")
			nb := rapid.IntRange(190, 260).Draw(t, "bulk")
			oneSender := rapid.Bool().Draw(t, "bulkOneSender")
			bulkData := rapid.SampledFrom([]int{0, 0, 100, 400, 1500}).Draw(t, "bulkData")
			var seq [4]uint64
			for i := 0; i < nb; i++ {
				s := i % 4
				if oneSender {
					s = 0
				}
				// in-sequence nonces from the state nonce; every 9th carries a request id (not
				// nonce-checked, takes no sequence number), every 50th is a stray one ahead of the sequence
				n := m.cur[s] + seq[s]
				var req uint64
				switch {
				case i%9 == 8:
					req = uint64(i)
				case i%50 == 49:
					n += 3
				default:
					seq[s]++
				}
				m.add(m.newTx(s, types.TransactionTypeETHTX, n, req, 0, bulkData), "bulk add")
			}
			m.trace = append(m.trace, fmt.Sprintf("bulk(%d,%dB)", nb, bulkData))
			if rapid.IntRange(0, 2).Draw(t, "fullBlockFirst") != 0 {
				// the proposer's full block: pack against the current state, whole batch on chain
				state := map[string]uint64{}
				for i, s := range senders {
					state[s] = m.cur[i]
				}
				m.pack(state, "pack of the bulk")
				m.markMode("whole")
			}
		}
		ops := []string{"add", "add", "add", "add", "addDup", "pack", "pack", "pack", "mark", "mark", "unmark", "unmark", "lookup"}
		for i := 0; i < steps; i++ {
			switch rapid.SampledFrom(ops).Draw(t, "op") {
			case "add":
				tx := m.genTx()
				m.trace = append(m.trace, fmt.Sprintf("add(s%d,n%d,r%d)", senderIdx(tx.Source), tx.Nonce, tx.RequestId))
				m.add(tx, "add")
				m.lookup(tx.Hash, "after add")
			case "addDup":
				if len(m.univ) == 0 {
					continue
				}
				tx := m.univ[rapid.IntRange(0, len(m.univ)-1).Draw(t, "dupOf")]
				_, ie := m.executed[tx.Hash]
				m.trace = append(m.trace, fmt.Sprintf("addAgain(pending=%v,executed=%v)", m.pending[tx.Hash], ie))
				m.add(copyTx(tx), "add again")
			case "pack":
				m.pack(m.genState(), "pack")
			case "mark":
				m.mark()
			case "unmark":
				if len(m.stack) == 0 {
					continue
				}
				if len(m.stack) >= 2 && rapid.IntRange(0, 3).Draw(t, "deep") == 0 {
					m.unmark() // reorg of depth 2: two removals back to back
					m.deepReorg = true
				}
				m.unmark()
			case "lookup":
				if len(m.univ) > 0 && rapid.IntRange(0, 5).Draw(t, "unknownHash") != 0 {
					m.lookup(m.univ[rapid.IntRange(0, len(m.univ)-1).Draw(t, "which")].Hash, "lookup")
				} else {
					m.lookup(blockHash(m.salt, 1000000+i), "lookup of an unknown hash")
				}
			}
		}
		// final: pool == model
		got := map[common.Hash]bool{}
		for _, tx := range pool.GetReceived() {
			got[tx.Hash] = true
			if !m.pending[tx.Hash] {
				_, ie := m.executed[tx.Hash]
				m.fail("final: %s is pending in the pool but not in the model (executed in model: %v)", tx.Hash.Hex(), ie)
			}
		}
		for h := range m.pending {
			if !got[h] {
				m.fail("final: %s is pending in the model but missing from the pool", h.Hex())
			}
		}
		for _, tx := range m.univ {
			m.lookup(tx.Hash, "final")
		}
		key := ""
		if m.unmarkRepack || m.nonceGap || m.maxFlushes > 0 {
			key = strings.Join(m.trace, " ")
		}
		cl := []string{"p1_case"}
		for name, on := range map[string]bool{"p1_unmark_then_repack": m.unmarkRepack, "p1_nonce_gap_withheld": m.nonceGap, "p1_limit_200_hit": m.limitHit,
			"p1_readd_pending_refused": m.refusedPending, "p1_readd_executed_refused": m.refusedExecuted, "p1_foreign_block": m.foreign,
			"p1_evictions": m.evictions, "p1_reorg_depth2": m.deepReorg, "p1_big_pool": big, "p1_tx_record_over_100KB": m.hugeTx,
			"p1_fat_foreign_block": m.fatBlock, "p1_whole_pack_150plus_marked": m.wholeBigPack} {
			if on {
				cl = append(cl, name)
			}
		}
		if m.maxFlushes > 0 {
			cl = append(cl, fmt.Sprintf("p1_mark_crossing_100KB_batch_boundary_flushes_%d", imin(m.maxFlushes, 4)))
		}
		sort.Strings(cl)
		stats.Case(key, cl...)
		stats.Count("p1_steps", int64(len(m.trace)))
		stats.Sample(map[string]interface{}{"part": 1, "trace": strings.Join(m.trace, " ")})
	})
}

// ---------------------------------------------------------------------------------------
// Part 2: with the chain - reorg histories (reduced form of the C05 block-tree histories)
// ---------------------------------------------------------------------------------------

type mblock struct {
	id     int
	parent *mblock
	hdr    *types.BlockHeader
	txs    []*types.Transaction
	raw    []byte
	writes int64 // store writes its delivery made when the tree was built (creation order)
}

func (b *mblock) name() string {
	if b.parent == nil {
		return "G"
	}
	return fmt.Sprintf("B%d", b.id)
}

type tree struct {
	genesis *mblock
	blocks  []*mblock
	byHash  map[common.Hash]*mblock
	txs     []*types.Transaction
}

func chainTx(i int, nonce uint64) *types.Transaction {
	tx := &types.Transaction{
		Source:    faucet,
		Type:      types.TransactionTypeOperatorEvent,
		Time:      fmt.Sprintf("2024-05-01 00:00:%02d", i),
		ExtraData: fmt.Sprintf(`{"0x%040x":{"balance":"%d"}}`, 0xc17000+i, i+1),
		Nonce:     nonce,
		ChainId:   common.ChainId(1),
	}
	tx.Hash = tx.GenHash()
	return tx
}

func ancestors(b *mblock) []*mblock {
	var out []*mblock
	for x := b; x != nil; x = x.parent {
		out = append(out, x)
	}
	return out
}

func isAncestor(a, b *mblock) bool {
	for x := b; x != nil; x = x.parent {
		if x == a {
			return true
		}
	}
	return false
}

// checkPoolAgainstChain: the pool's bookkeeping against the canonical chain as the chain itself
// reports it (head, then parent links through the hash index).
func checkPoolAgainstChain(univ []*types.Transaction, evicted map[common.Hash]bool, where string) error {
	ch, pool := boot.Chain(), boot.Pool()
	top := ch.TopBlock()
	inBlock := map[common.Hash]common.Hash{}
	h := top.Hash
	for steps := 0; ; steps++ {
		blk := ch.QueryBlockByHash(h)
		if blk == nil || blk.Header == nil {
			return fmt.Errorf("%s: VERIF-INCONCLUSIVE canonical block %s not readable", where, h.Hex())
		}
		for _, tx := range blk.Transactions {
			if other, dup := inBlock[tx.Hash]; dup {
				return fmt.Errorf("%s: transaction %s occurs in two canonical blocks: %s (h=%d) and %s", where, tx.Hash.Hex(), blk.Header.Hash.Hex(), blk.Header.Height, other.Hex())
			}
			inBlock[tx.Hash] = blk.Header.Hash
		}
		if blk.Header.Height == 0 || steps > 1000 {
			break
		}
		h = blk.Header.PreHash
	}
	for i, tx := range univ {
		var ex *service.ExecutedTransaction
		var known bool
		if p := safely(func() { ex = pool.GetExecuted(tx.Hash); known = pool.IsExisted(tx.Hash) }); p != nil {
			return fmt.Errorf("%s: lookup panicked: %v", where, p)
		}
		if b, on := inBlock[tx.Hash]; on {
			if ex == nil || ex.Receipt.BlockHash != b {
				return fmt.Errorf("%s: tx%d is in canonical block %s but its executed record is %+v", where, i, b.Hex(), ex)
			}
			var ok bool
			var err error
			if p := safely(func() { ok, err = pool.AddTransaction(copyTx(tx)) }); p != nil {
				return fmt.Errorf("%s: AddTransaction panicked: %v", where, p)
			}
			if ok && err == nil {
				return fmt.Errorf("%s: tx%d is executed in canonical block %s and was accepted into the pool again", where, i, b.Hex())
			}
		} else {
			if ex != nil {
				return fmt.Errorf("%s: tx%d is in no canonical block but has an executed record pointing to block %s", where, i, ex.Receipt.BlockHash.Hex())
			}
			if !known && !evicted[tx.Hash] {
				return fmt.Errorf("%s: tx%d is in no canonical block (never executed, or its block was removed) and is not pending", where, i)
			}
		}
	}
	st, err := middleware.AccountDBManagerInstance.GetAccountDBByHash(top.StateTree)
	if err != nil {
		return fmt.Errorf("%s: VERIF-INCONCLUSIVE head state: %v", where, err)
	}
	state := map[string]uint64{faucet: st.GetNonce(common.HexToAddress(faucet))}
	var out []*types.Transaction
	if p := safely(func() { out = pool.PackForCast(top.Height+1, st) }); p != nil {
		return fmt.Errorf("%s: PackForCast panicked: %v", where, p)
	}
	for _, tx := range out {
		if tx == nil {
			return fmt.Errorf("%s: nil entry in packed batch", where)
		}
		if b, on := inBlock[tx.Hash]; on {
			return fmt.Errorf("%s: transaction %s is executed in canonical block %s and was packed for the next block", where, tx.Hash.Hex(), b.Hex())
		}
	}
	if err := checkPacked(out, state); err != nil {
		return fmt.Errorf("%s: pack at head (faucet state nonce %d): %v", where, state[faucet], err)
	}
	stats.Count("p2_packed_txs", int64(len(out)))
	return nil
}

func buildTree(t *rapid.T) *tree {
	n, err := boot.Start()
	if err != nil {
		t.Fatalf("VERIF-INCONCLUSIVE boot: %v", err)
	}
	defer n.Stop()
	ch := boot.Chain()
	g := &mblock{hdr: ch.TopBlock()}
	tr := &tree{genesis: g, byHash: map[common.Hash]*mblock{g.hdr.Hash: g}}
	for i := 0; i < 8; i++ {
		tr.txs = append(tr.txs, chainTx(i, uint64(rapid.SampledFrom([]int{0, 0, 1, 1, 2, 3, 4}).Draw(t, "txNonce"))))
	}
	for _, tx := range tr.txs {
		boot.Pool().AddTransaction(tx)
	}
	evicted := map[common.Hash]bool{}
	nBlocks := rapid.IntRange(3, 8).Draw(t, "nBlocks")
	for i := 1; i <= nBlocks; i++ {
		head := tr.byHash[ch.TopBlock().Hash]
		canon := ancestors(head)
		parent := head
		if len(canon) > 1 && rapid.IntRange(0, 9).Draw(t, "fork") < 4 {
			parent = canon[rapid.IntRange(1, len(canon)-1).Draw(t, "forkDepth")]
		}
		height := parent.hdr.Height + 1
		target := int64(head.hdr.TotalQN) + int64(rapid.SampledFrom([]int{-1, 0, 1, 1, 2}).Draw(t, "relQN"))
		if parent == head {
			target = int64(head.hdr.TotalQN) + int64(rapid.IntRange(0, 2).Draw(t, "qnInc"))
		}
		inc := target - int64(parent.hdr.TotalQN)
		if inc < 0 {
			inc = 0
		}
		pv := big.NewInt(int64(rapid.IntRange(1, 3).Draw(t, "pv")))
		used := map[common.Hash]bool{}
		for _, a := range ancestors(parent) {
			for _, tx := range a.txs {
				used[tx.Hash] = true
			}
		}
		var txs []*types.Transaction
		if parent == head && rapid.Bool().Draw(t, "fromPack") {
			// the proposer's way: what the pool packs against the head state
			st, e := middleware.AccountDBManagerInstance.GetAccountDBByHash(head.hdr.StateTree)
			if e != nil {
				t.Fatalf("VERIF-INCONCLUSIVE head state: %v", e)
			}
			var out []*types.Transaction
			if p := safely(func() { out = boot.Pool().PackForCast(height, st) }); p != nil {
				t.Fatalf("PackForCast panicked in builder: %v", p)
			}
			for _, tx := range out {
				if used[tx.Hash] {
					t.Fatalf("builder: pool packed transaction %s which is already in a canonical block", tx.Hash.Hex())
				}
			}
			if k := rapid.IntRange(0, 3).Draw(t, "packTake"); len(out) > k {
				out = out[:k]
			}
			txs = out
			stats.Class("p2_block_from_pack")
		} else {
			for _, tx := range tr.txs {
				if !used[tx.Hash] && len(txs) < 3 && rapid.IntRange(0, 2).Draw(t, "takeTx") == 0 {
					txs = append(txs, tx)
				}
			}
			sort.Sort(types.Transactions(txs))
		}
		castor := []byte{byte(rapid.IntRange(1, 3).Draw(t, "castor"))}
		bh := boot.NewHeader(parent.hdr, height, uint64(inc), pv, txs, castor, []byte{7}, parent.hdr.CurTime.Add(time.Second))
		var code int8
		if p := safely(func() { _, code = ch.VerifyBlock(bh) }); p != nil {
			t.Fatalf("VerifyBlock panicked while building block %d: %v", i, p)
		}
		if code != 0 {
			stats.Class(fmt.Sprintf("p2_build_refused_code%d", code))
			continue
		}
		for _, h := range bh.EvictedTxs {
			evicted[h] = true
		}
		if len(bh.EvictedTxs) > 0 { // evicted transactions are not part of the block
			var kept []*types.Transaction
			for _, tx := range txs {
				if !evicted[tx.Hash] {
					kept = append(kept, tx)
				}
			}
			txs = kept
		}
		blk := &types.Block{Header: bh, Transactions: txs}
		raw, err := types.MarshalBlock(blk)
		if err != nil {
			t.Fatalf("marshal: %v", err)
		}
		mb := &mblock{id: i, parent: parent, hdr: bh, txs: txs, raw: raw}
		tr.blocks = append(tr.blocks, mb)
		tr.byHash[bh.Hash] = mb
		w0 := db.VerifWriteCount()
		if p := safely(func() { ch.AddBlockOnChain(blk) }); p != nil {
			t.Fatalf("AddBlockOnChain panicked in builder on %s: %v", mb.name(), p)
		}
		mb.writes = db.VerifWriteCount() - w0
		if err := checkPoolAgainstChain(tr.txs, evicted, fmt.Sprintf("builder after %s", mb.name())); err != nil {
			t.Fatalf("%v\ntree: %s", err, tr.describe())
		}
	}
	return tr
}

func (tr *tree) describe() string {
	var sb strings.Builder
	for _, b := range tr.blocks {
		fmt.Fprintf(&sb, "%s<-%s h=%d qn=%d pv=%v tx=%d; ", b.name(), b.parent.name(), b.hdr.Height, b.hdr.TotalQN, b.hdr.ProveValue, len(b.txs))
	}
	return sb.String()
}

func TestReorgHistories(t *testing.T) {
	dropNode()
	stats.Check(t, 24, 80, func(t *rapid.T) {
		tr := buildTree(t)
		if len(tr.blocks) < 2 {
			t.Skip("tree too small")
		}
		n, err := boot.Start()
		if err != nil {
			t.Fatalf("VERIF-INCONCLUSIVE boot: %v", err)
		}
		defer n.Stop()
		if boot.Chain().TopBlock().Hash != tr.genesis.hdr.Hash {
			t.Fatalf("VERIF-INCONCLUSIVE genesis differs between two boots")
		}
		for _, tx := range tr.txs {
			boot.Pool().AddTransaction(tx)
		}
		evicted := map[common.Hash]bool{}
		for _, b := range tr.blocks {
			for _, h := range b.hdr.EvictedTxs {
				evicted[h] = true
			}
		}
		order := rapid.Permutation(tr.blocks).Draw(t, "order")
		nd := rapid.IntRange(0, 2).Draw(t, "nDup")
		for i := 0; i < nd; i++ {
			order = append(order, rapid.SampledFrom(tr.blocks).Draw(t, "dup"))
		}
		if rapid.IntRange(0, 2).Draw(t, "mostlyInOrder") != 0 {
			sort.SliceStable(order, func(i, j int) bool { return order[i].id < order[j].id })
		}
		if err := checkPoolAgainstChain(tr.txs, evicted, "fresh node"); err != nil {
			t.Fatalf("%v", err)
		}
		head := tr.genesis
		reorgs, txReorgs := 0, 0
		var trace []string
		// in half of the histories the process dies inside one delivery, at a generated store write (all later
		// writes are lost), and is restarted: what the chain then holds and what the pool refuses must still agree
		crashStep, crashWrite := -1, int64(0)
		if rapid.Bool().Draw(t, "withCrash") {
			crashStep = rapid.IntRange(0, len(order)-1).Draw(t, "crashStep")
			crashWrite = int64(rapid.IntRange(1, 24).Draw(t, "crashWrite"))
			// when the blocks are replayed in creation order the delivery makes the same writes as in the builder:
			// aim at its last writes (where head pointer, marks and pool records are finalised) as often as at any
			replayed := true
			for i := 0; i <= crashStep; i++ {
				if i >= len(tr.blocks) || order[i].id != tr.blocks[i].id {
					replayed = false
				}
			}
			if w := order[crashStep].writes; replayed && w > 0 {
				back := int64(rapid.IntRange(0, 3).Draw(t, "crashFromEnd"))
				if rapid.Bool().Draw(t, "crashNearEnd") && w-back >= 1 {
					crashWrite = w - back
				} else {
					crashWrite = int64(rapid.IntRange(1, int(w)).Draw(t, "crashWriteIn"))
				}
				stats.Class("p2_crash_aimed_within_known_write_count")
			}
		}
		for step, b := range order {
			blk, err := types.UnMarshalBlock(b.raw)
			if err != nil {
				t.Fatalf("VERIF-INCONCLUSIVE cannot re-parse own block: %v", err)
			}
			var res types.AddBlockResult
			if step == crashStep {
				db.VerifArmCrash(crashWrite)
				safely(func() { res = boot.Chain().AddBlockOnChain(blk) })
				dropped := db.VerifDisarm()
				if err := n.Restart(); err != nil {
					t.Fatalf("restart after a crash at store write %d of the delivery of %s failed: %v\ntree: %s\ntrace: %v", crashWrite, b.name(), err, tr.describe(), trace)
				}
				// Before anything is submitted again: what the node itself holds pending after the restart. The
				// pending container lives in memory, so what was queued before the crash is gone; but a block removal
				// that the crash interrupted is completed at start-up, and completing it queues the block's
				// transactions again. Either way a block that was on the chain before the crash and is not any more
				// has all of its transactions (the ones not executed on the chain now) pending, or none of them:
				// a removal is never half done.
				if hr := tr.byHash[boot.Chain().TopBlock().Hash]; hr != nil {
					onNew := map[common.Hash]bool{}
					for _, a := range ancestors(hr) {
						for _, tx := range a.txs {
							onNew[tx.Hash] = true
						}
					}
					for x := head; x != nil && !isAncestor(x, hr); x = x.parent {
						var pend, not []common.Hash
						for _, tx := range x.txs {
							if onNew[tx.Hash] {
								continue
							}
							if boot.Pool().IsExisted(tx.Hash) {
								pend = append(pend, tx.Hash)
							} else {
								not = append(not, tx.Hash)
							}
						}
						switch {
						case len(pend) > 0 && len(not) > 0:
							t.Fatalf("crash at store write %d of the delivery of %s (%d writes lost), restart: block %s is no longer on the chain and its removal was completed at start-up, but only %d of its %d transactions are pending again (%d are neither executed nor pending)\ntree: %s\ntrace: %v",
								crashWrite, b.name(), dropped, x.name(), len(pend), len(pend)+len(not), len(not), tr.describe(), trace)
						case len(pend) > 0:
							stats.Class(fmt.Sprintf("p2_crash_removed_block_requeued_at_startup_%dtx", imin(len(pend), 3)))
						case len(not) > 0:
							stats.Class(fmt.Sprintf("p2_crash_removed_block_not_requeued_%dtx", imin(len(not), 3)))
						}
					}
				}
				for _, tx := range tr.txs {
					boot.Pool().AddTransaction(copyTx(tx)) // what is executed on the chain must be refused
				}
				trace = append(trace, fmt.Sprintf("%s->crash@%d(dropped %d)+restart", b.name(), crashWrite, dropped))
				if dropped > 0 {
					stats.Class("p2_crash_inside_delivery")
				} else {
					stats.Class("p2_restart_after_complete_delivery")
				}
				if err := checkPoolAgainstChain(tr.txs, evicted, fmt.Sprintf("step %d: crash at store write %d of the delivery of %s (%d writes lost), restart", step, crashWrite, b.name(), dropped)); err != nil {
					t.Fatalf("%v\ntree: %s\ntrace: %v", err, tr.describe(), trace)
				}
				h2 := tr.byHash[boot.Chain().TopBlock().Hash]
				if h2 == nil {
					t.Fatalf("VERIF-INCONCLUSIVE head after restart is not a block of the tree")
				}
				head = h2
				continue
			}
			if p := safely(func() { res = boot.Chain().AddBlockOnChain(blk) }); p != nil {
				t.Fatalf("AddBlockOnChain(%s) panicked: %v\ntree: %s\ntrace: %v", b.name(), p, tr.describe(), trace)
			}
			trace = append(trace, fmt.Sprintf("%s->%d", b.name(), res))
			if err := checkPoolAgainstChain(tr.txs, evicted, fmt.Sprintf("step %d after delivering %s (result %d)", step, b.name(), res)); err != nil {
				t.Fatalf("%v\ntree: %s\ntrace: %v", err, tr.describe(), trace)
			}
			h2 := tr.byHash[boot.Chain().TopBlock().Hash]
			if h2 == nil {
				t.Fatalf("VERIF-INCONCLUSIVE head is not a block of the tree")
			}
			if !isAncestor(head, h2) {
				reorgs++
				for x := head; x != nil && !isAncestor(x, h2); x = x.parent {
					if len(x.txs) > 0 {
						txReorgs++
						break
					}
				}
			}
			head = h2
		}
		key := ""
		if txReorgs > 0 {
			key = "p2|" + tr.describe() + "|" + strings.Join(trace, ",")
		}
		stats.Case(key, "p2_case", fmt.Sprintf("p2_reorgs_%d", imin(reorgs, 3)), fmt.Sprintf("p2_reorgs_removing_txs_%d", imin(txReorgs, 3)))
		stats.Sample(map[string]interface{}{"part": 2, "tree": tr.describe(), "trace": trace})
	})
}

func imin(a, b int) int {
	if a < b {
		return a
	}
	return b
}

// ---------------------------------------------------------------------------------------
// Part 3: concurrent mixes (meant for the -race build; also runs without it)
// ---------------------------------------------------------------------------------------

type cblock struct {
	hdr      *types.BlockHeader
	txs      []*types.Transaction
	receipts types.Receipts
	owner    int
}

type cop struct {
	kind  byte // a add, p pack, g lookup, m mark, u unmark
	tx    int
	blk   int
	state map[string]uint64
	st    *account.AccountDB
}

// gateAddsRaceWithBatch: F-C17-a shape - a gate-originated transaction (exactly one sub
// transaction with a non-zero address) submitted through AddTransaction while another goroutine
// is inside MarkExecuted or submits another such transaction.
const findingGateBatch = "F-C17-a"

// F-C17-b shape - AddTransaction(t) from one goroutine while another goroutine is inside
// MarkExecuted of a block that contains t (existence check and insertion are not atomic).
const findingAddVsMark = "F-C17-b"

func TestConcurrentMixes(t *testing.T) {
	needNode(t)
	defer keepFailFiles(t)
	pool := boot.Pool()
	stats.Check(t, 400, 1500, func(t *rapid.T) {
		salt := atomic.AddUint64(&caseSeq, 1)
		// A mix takes milliseconds. If its pool operations (or the clean-up) have not returned after
		// three minutes the pool is hung - a corrupted container walked forever or a lock never
		// released. That is "corrupt the pool", not a slow machine: report it as a failure with all
		// goroutine stacks instead of waiting for the driver's hang guard.
		wd := time.AfterFunc(180*time.Second, func() {
			buf := make([]byte, 1<<20)
			n := runtime.Stack(buf, true)
			fmt.Printf("--- FAIL: TestConcurrentMixes\n    c17_test.go:1: pool operations of a concurrent mix did not return within 180 s: the pool is hung (corrupted pending container or a lock that is never released)\n%s\nFAIL\n", buf[:n])
			os.Exit(1)
		})
		defer wd.Stop()
		defer func() { _ = safely(func() { drainPool(pool) }) }()
		if n := pool.TxNum(); n != 0 {
			t.Fatalf("%d transactions are pending at case start although every key of the pending container was removed after the previous case: the container is corrupted", n)
		}
		var base [4]uint64
		for i := range base {
			base[i] = uint64(rapid.IntRange(0, 3).Draw(t, "baseNonce"))
		}
		steer := stats.IsKnown(findingGateBatch)
		steerB := stats.IsKnown(findingAddVsMark)
		nTx := rapid.IntRange(24, 70).Draw(t, "nTx")
		univ := make([]*types.Transaction, nTx)
		idxOf := map[common.Hash]int{}
		gates := 0
		for i := range univ {
			s := rapid.IntRange(0, 3).Draw(t, "sender")
			n := int64(base[s]) + int64(rapid.SampledFrom([]int{-1, 0, 0, 1, 1, 2, 3, 4}).Draw(t, "nonceDelta"))
			if n < 0 {
				n = 0
			}
			var req, gate uint64
			if rapid.IntRange(0, 4).Draw(t, "hasReqId") == 0 {
				req = uint64(rapid.IntRange(1, 40).Draw(t, "reqId"))
			}
			if rapid.IntRange(0, 5).Draw(t, "gate") == 0 {
				gate = uint64(rapid.IntRange(1, 1000).Draw(t, "gateNonce"))
				gates++
			}
			univ[i] = mkPoolTx(salt, i, s, rapid.SampledFrom(txTypes).Draw(t, "type"), uint64(n), req, gate)
			idxOf[univ[i].Hash] = i
		}
		// roles: [0,nStable) transactions of blocks marked before the goroutines start, then owned
		// blocks, then an eviction-only set, the rest free
		G := rapid.IntRange(4, 8).Draw(t, "goroutines")
		role := make([]int, nTx) // -1 free, -2 evict-only, >=0 block index
		for i := range role {
			role[i] = -1
		}
		var blocks []*cblock
		next := 0
		mkBlock := func(owner, n int) *cblock {
			b := &cblock{owner: owner}
			b.hdr = &types.BlockHeader{Height: uint64(500 + len(blocks)), Hash: blockHash(salt, len(blocks)), EvictedTxs: []common.Hash{}}
			for k := 0; k < n && next < nTx; k++ {
				tx := univ[next]
				role[next] = len(blocks)
				next++
				b.txs = append(b.txs, tx)
				r := types.NewReceipt(nil, k%3 == 2, 0, b.hdr.Height, "", tx.Source, "")
				r.TxHash = tx.Hash
				b.receipts = append(b.receipts, r)
			}
			blocks = append(blocks, b)
			return b
		}
		nStable := rapid.IntRange(1, 2).Draw(t, "stableBlocks")
		for i := 0; i < nStable; i++ {
			mkBlock(-1, rapid.IntRange(1, 4).Draw(t, "stableSize"))
		}
		nOwned := rapid.IntRange(1, 5).Draw(t, "ownedBlocks")
		for i := 0; i < nOwned; i++ {
			mkBlock(rapid.IntRange(0, G-1).Draw(t, "owner"), rapid.IntRange(1, 5).Draw(t, "blockSize"))
		}
		nEv := rapid.IntRange(0, 4).Draw(t, "evictOnly")
		for k := 0; k < nEv && next < nTx; k++ {
			role[next] = -2
			b := blocks[nStable+rapid.IntRange(0, nOwned-1).Draw(t, "evictedBy")]
			b.hdr.EvictedTxs = append(b.hdr.EvictedTxs, univ[next].Hash)
			next++
		}
		stableExec := map[common.Hash]common.Hash{}
		for _, b := range blocks[:nStable] {
			// some of the stable transactions are pending first, as on a node that saw them
			for _, tx := range b.txs {
				if rapid.Bool().Draw(t, "stableSeenBefore") {
					pool.AddTransaction(tx)
				}
				stableExec[tx.Hash] = b.hdr.Hash
			}
			if p := safely(func() { pool.MarkExecuted(b.hdr, b.receipts, b.txs, b.hdr.EvictedTxs) }); p != nil {
				t.Fatalf("MarkExecuted panicked (sequential prefix): %v", p)
			}
		}
		// scripts
		scripts := make([][]cop, G)
		pendingBlockOps := make([][]cop, G) // per owner: mark/unmark sequence of its blocks, interleaved into the script in order
		finalMarked := map[int]bool{}
		touched := map[int]bool{}
		for bi := nStable; bi < len(blocks); bi++ {
			b := blocks[bi]
			n := rapid.IntRange(1, 4).Draw(t, "blockOps")
			for k := 0; k < n; k++ {
				kind := byte('m')
				if k%2 == 1 {
					kind = 'u'
				}
				pendingBlockOps[b.owner] = append(pendingBlockOps[b.owner], cop{kind: kind, blk: bi})
				finalMarked[bi] = kind == 'm'
			}
			touched[bi] = true
		}
		added := map[int]bool{}
		var preAdds []int
		chainOps, otherOps := 0, 0
		var sig strings.Builder
		for g := 0; g < G; g++ {
			n := rapid.IntRange(6, 36).Draw(t, "scriptLen")
			for k := 0; k < n; k++ {
				switch rapid.SampledFrom([]string{"a", "a", "a", "a", "p", "p", "g", "g", "c", "c"}).Draw(t, "op") {
				case "a":
					i := rapid.IntRange(0, nTx-1).Draw(t, "addTx")
					added[i] = true
					if steer && len(univ[i].SubTransactions) == 1 {
						// known finding: a gate-originated transaction must not go through AddTransaction
						// while other goroutines run; it is submitted before they start instead
						stats.Exclude(findingGateBatch)
						preAdds = append(preAdds, i)
						continue
					}
					otherOps++
					if r := role[i]; steerB && r >= nStable && blocks[r].owner != g {
						// known finding: submission of a transaction must not overlap MarkExecuted of its own
						// block; the submission moves into the script of the goroutine that owns the block
						stats.Exclude(findingAddVsMark)
						scripts[blocks[r].owner] = append(scripts[blocks[r].owner], cop{kind: 'a', tx: i})
						continue
					}
					scripts[g] = append(scripts[g], cop{kind: 'a', tx: i})
				case "p":
					state := map[string]uint64{}
					for si, s := range senders {
						state[s] = base[si] + uint64(rapid.IntRange(0, 2).Draw(t, "stateDelta"))
					}
					st, err := stateWith(state)
					if err != nil {
						t.Fatalf("VERIF-INCONCLUSIVE state db: %v", err)
					}
					scripts[g] = append(scripts[g], cop{kind: 'p', state: state, st: st})
					otherOps++
				case "g":
					scripts[g] = append(scripts[g], cop{kind: 'g', tx: rapid.IntRange(0, nTx-1).Draw(t, "getTx")})
					otherOps++
				case "c":
					if len(pendingBlockOps[g]) > 0 {
						scripts[g] = append(scripts[g], pendingBlockOps[g][0])
						pendingBlockOps[g] = pendingBlockOps[g][1:]
						chainOps++
					}
				}
			}
			scripts[g] = append(scripts[g], pendingBlockOps[g]...) // whatever is left of the owner's block sequence
			chainOps += len(pendingBlockOps[g])
		}
		for g := 0; g < G; g++ {
			for _, o := range scripts[g] {
				fmt.Fprintf(&sig, "%c%d.%d ", o.kind, o.tx, o.blk)
			}
			sig.WriteString("| ")
		}

		for _, i := range preAdds {
			if p := safely(func() { pool.AddTransaction(univ[i]) }); p != nil {
				t.Fatalf("AddTransaction panicked (sequential prefix): %v", p)
			}
		}

		// run
		var chainLock sync.RWMutex // stands for middleware's chain lock exactly as the callers use it
		start := make(chan struct{})
		errs := make([][]string, G)
		var wg sync.WaitGroup
		for g := 0; g < G; g++ {
			wg.Add(1)
			go func(g int) {
				defer wg.Done()
				defer func() {
					if r := recover(); r != nil {
						errs[g] = append(errs[g], fmt.Sprintf("goroutine %d panicked: %v\n%s", g, r, debug.Stack()))
					}
				}()
				bad := func(f string, a ...interface{}) {
					errs[g] = append(errs[g], fmt.Sprintf("goroutine %d: ", g)+fmt.Sprintf(f, a...))
				}
				<-start
				for _, o := range scripts[g] {
					switch o.kind {
					case 'a':
						tx := univ[o.tx]
						ok, err := pool.AddTransaction(tx)
						if b, st := stableExec[tx.Hash]; st && ok && err == nil {
							bad("transaction %d is executed in block %s (marked before the run, never removed) and was accepted into the pool again", o.tx, b.Hex())
						}
					case 'p':
						chainLock.RLock()
						out := pool.PackForCast(600, o.st)
						chainLock.RUnlock()
						for _, tx := range out {
							if tx == nil {
								bad("nil entry in packed batch")
								continue
							}
							if _, in := idxOf[tx.Hash]; !in {
								bad("packed transaction %s was never offered to the pool in this case", tx.Hash.Hex())
							}
							if b, st := stableExec[tx.Hash]; st {
								bad("transaction %s is executed in block %s (never removed) and was packed for a new block", tx.Hash.Hex(), b.Hex())
							}
						}
						if err := checkPacked(out, o.state); err != nil {
							bad("pack with state nonces %v: %v", o.state, err)
						}
					case 'g':
						tx := univ[o.tx]
						known := pool.IsExisted(tx.Hash)
						got, err := pool.GetTransaction(tx.Hash)
						ex := pool.GetExecuted(tx.Hash)
						if b, st := stableExec[tx.Hash]; st {
							if !known || err != nil || got == nil || got.Hash != tx.Hash || ex == nil || ex.Receipt.BlockHash != b {
								bad("lookup of transaction %d, executed in never-removed block %s: IsExisted=%v GetTransaction err=%v GetExecuted=%+v", o.tx, b.Hex(), known, err, ex)
							}
						} else if err == nil && (got == nil || got.Hash != tx.Hash) {
							bad("GetTransaction(%d) returned a different transaction", o.tx)
						}
						if role[o.tx] < 0 && ex != nil {
							bad("transaction %d is in no block at all but has an executed record (block %s)", o.tx, ex.Receipt.BlockHash.Hex())
						}
					case 'm':
						b := blocks[o.blk]
						chainLock.Lock()
						pool.MarkExecuted(b.hdr, b.receipts, b.txs, b.hdr.EvictedTxs)
						for _, tx := range b.txs {
							if ex := pool.GetExecuted(tx.Hash); ex == nil || ex.Receipt.BlockHash != b.hdr.Hash {
								bad("right after MarkExecuted of block %d (chain lock still held) transaction %s has executed record %+v", o.blk, tx.Hash.Hex(), ex)
							}
						}
						chainLock.Unlock()
					case 'u':
						b := blocks[o.blk]
						chainLock.Lock()
						pool.UnMarkExecuted(&types.Block{Header: b.hdr, Transactions: b.txs})
						for _, tx := range b.txs {
							if ex := pool.GetExecuted(tx.Hash); ex != nil {
								bad("right after UnMarkExecuted of block %d (chain lock still held) transaction %s still has an executed record", o.blk, tx.Hash.Hex())
							}
							if !pool.IsExisted(tx.Hash) {
								bad("right after UnMarkExecuted of block %d (chain lock still held) transaction %s is not pending", o.blk, tx.Hash.Hex())
							}
						}
						chainLock.Unlock()
					}
				}
			}(g)
		}
		close(start)
		wg.Wait()
		for g := range errs {
			if len(errs[g]) > 0 {
				t.Fatalf("%s\n(%d goroutines; %d gate transactions; scripts: %s)", strings.Join(errs[g], "\n"), G, gates, sig.String())
			}
		}
		// final state == result of every linearisation, for the commutative subset
		recv := map[common.Hash]bool{}
		for _, tx := range pool.GetReceived() {
			if _, in := idxOf[tx.Hash]; !in {
				t.Fatalf("final: pending transaction %s was never offered in this case", tx.Hash.Hex())
			}
			recv[tx.Hash] = true
		}
		for i, tx := range univ {
			ex := pool.GetExecuted(tx.Hash)
			wantExec, wantPending, why := false, false, ""
			switch r := role[i]; {
			case r == -2:
				continue // evicted while being added concurrently: order dependent, not asserted
			case r == -1:
				wantPending, why = added[i], fmt.Sprintf("free transaction, added by a script: %v", added[i])
			case r < nStable:
				wantExec, why = true, "in a block marked before the run and never removed"
			case finalMarked[r]:
				wantExec, why = true, "its block's last operation is MarkExecuted"
			case touched[r]:
				wantPending, why = true, "its block's last operation is UnMarkExecuted"
			}
			if wantExec {
				if ex == nil || ex.Receipt.BlockHash != blocks[role[i]].hdr.Hash {
					t.Fatalf("final: transaction %d (%s) should be executed in block %d, executed record: %+v\nscripts: %s", i, why, role[i], ex, sig.String())
				}
				if recv[tx.Hash] {
					t.Fatalf("final: transaction %d (%s) is executed AND pending: it can be packed a second time\nscripts: %s", i, why, sig.String())
				}
				if ok, err := pool.AddTransaction(copyTx(tx)); ok && err == nil {
					t.Fatalf("final: executed transaction %d accepted into the pool again", i)
				}
			} else {
				if ex != nil {
					t.Fatalf("final: transaction %d (%s) has an executed record for block %s\nscripts: %s", i, why, ex.Receipt.BlockHash.Hex(), sig.String())
				}
				if recv[tx.Hash] != wantPending {
					t.Fatalf("final: transaction %d (%s): pending in pool = %v\nscripts: %s", i, why, recv[tx.Hash], sig.String())
				}
			}
		}
		key := ""
		if chainOps > 0 && otherOps > 0 {
			key = "p3|" + sig.String()
		}
		stats.Case(key, "p3_case", fmt.Sprintf("p3_goroutines_%d", G), fmt.Sprintf("p3_race_detector_%v", raceEnabled), fmt.Sprintf("p3_gate_txs_%v", gates > 0))
		stats.Count("p3_ops", int64(chainOps+otherOps))
		stats.Count("p3_chain_ops", int64(chainOps))
		stats.Sample(map[string]interface{}{"part": 3, "goroutines": G, "txs": nTx, "gate_txs": gates, "blocks": len(blocks), "scripts": sig.String()})
	})
}

// ---------------------------------------------------------------------------------------
// Probe for F-C17-a (needs the -race build: the defect is an unsynchronised shared batch)
// ---------------------------------------------------------------------------------------

const childEnv = "VERIF_C17_CHILD"

// TestChildGateBatch is the minimal shape, run in a child process by the probe: one goroutine
// submits gate-originated transactions, one marks blocks executed. Nothing else.
func TestChildGateBatch(t *testing.T) {
	if os.Getenv(childEnv) == "" {
		t.Skip("only run as a child of TestProbeGateBatch")
	}
	needNode(t)
	pool := boot.Pool()
	rounds, adders := 300, 3
	if raceEnabled {
		rounds, adders = 30, 1 // the detector needs one unsynchronised pair, not a collision
	}
	var blocks []*cblock
	for i := 0; i < rounds; i++ {
		b := &cblock{hdr: &types.BlockHeader{Height: uint64(i + 1), Hash: blockHash(1, i), EvictedTxs: []common.Hash{}}}
		for k := 0; k < 40; k++ {
			tx := mkPoolTx(2, i*40+k, k%4, types.TransactionTypeETHTX, uint64(i), 0, 0)
			r := types.NewReceipt(nil, false, 0, b.hdr.Height, "", tx.Source, "")
			r.TxHash = tx.Hash
			b.txs, b.receipts = append(b.txs, tx), append(b.receipts, r)
		}
		blocks = append(blocks, b)
	}
	var lost, panics int64
	var wg sync.WaitGroup
	wg.Add(1 + adders)
	var done int32
	for a := 0; a < adders; a++ {
		go func(a int) {
			defer wg.Done()
			for i := 0; atomic.LoadInt32(&done) == 0 && i < 12000; i++ {
				tx := mkPoolTx(uint64(10+a), i, i%4, types.TransactionTypeOperatorEvent, uint64(i), uint64(i+1), uint64(i+1))
				if p := safely(func() { pool.AddTransaction(tx) }); p != nil {
					atomic.AddInt64(&panics, 1)
				}
			}
		}(a)
	}
	go func() {
		defer wg.Done()
		for _, b := range blocks {
			if p := safely(func() { pool.MarkExecuted(b.hdr, b.receipts, b.txs, b.hdr.EvictedTxs) }); p != nil {
				atomic.AddInt64(&panics, 1)
			}
			for _, tx := range b.txs {
				if pool.GetExecuted(tx.Hash) == nil {
					atomic.AddInt64(&lost, 1)
				}
			}
		}
		atomic.StoreInt32(&done, 1)
	}()
	wg.Wait()
	fmt.Printf("C17-CHILD executed_records_lost=%d panics=%d\n", lost, panics)
}

func TestProbeGateBatch(t *testing.T) {
	if os.Getenv(childEnv) != "" {
		t.Skip("child process")
	}
	if !raceEnabled {
		stats.Class("probe_skipped_needs_race_build:" + findingGateBatch)
		t.Skip("F-C17-a is a data race; the probe needs the -race build")
	}
	dir, err := os.MkdirTemp("", "c17-child-")
	if err != nil {
		t.Fatalf("VERIF-INCONCLUSIVE %v", err)
	}
	defer os.RemoveAll(dir)
	cmd := exec.Command(os.Args[0], "-test.run", "^TestChildGateBatch$", "-test.v")
	cmd.Dir = dir
	cmd.Env = append([]string{}, os.Environ()...)
	cmd.Env = append(cmd.Env, childEnv+"=1", "VERIF_OUT=", "TMPDIR="+dir)
	outB, runErr := cmd.CombinedOutput()
	out := string(outB)
	raced := strings.Contains(out, "WARNING: DATA RACE") && strings.Contains(out, "refreshGateNonce")
	if runErr != nil && !raced {
		t.Fatalf("VERIF-INCONCLUSIVE probe child failed without a race report on refreshGateNonce: %v\n%s", runErr, tail(out, 3000))
	}
	what := "TxPool.refreshGateNonce (called from AddTransaction without any lock) writes into the shared pool.batch while MarkExecuted (under the chain lock) puts/writes/resets the same batch: " +
		"data race on the goleveldb Batch reported by the race detector"
	for _, l := range strings.Split(out, "\n") {
		if strings.HasPrefix(l, "C17-CHILD") {
			t.Log(strings.TrimSpace(l)) // scheduler dependent, kept out of the KNOWN-FINDING line
		}
	}
	stats.Probe(t, findingGateBatch, "C17", raced, what)
}

// TestProbeAddVsMark replays the minimal interleaving of F-C17-b deterministically: MarkExecuted of
// a block containing t runs to completion between AddTransaction(t)'s existence check and its
// insertion (hook: service.VerifAfterNextExecutedHas, on the submitting goroutine).
func TestProbeAddVsMark(t *testing.T) {
	if os.Getenv(childEnv) != "" {
		t.Skip("child process")
	}
	needNode(t)
	pool := boot.Pool()
	salt := atomic.AddUint64(&caseSeq, 1)
	defer func() { _ = safely(func() { drainPool(pool) }) }()
	tx := mkPoolTx(salt, 0, 0, types.TransactionTypeETHTX, 0, 0, 0)
	hdr := &types.BlockHeader{Height: 900, Hash: blockHash(salt, 0), EvictedTxs: []common.Hash{}}
	r := types.NewReceipt(nil, false, 0, hdr.Height, "", tx.Source, "")
	r.TxHash = tx.Hash
	// The block bookkeeping runs on its own goroutine (as in the node) while the submitting
	// goroutine is parked between its check and its insertion. If a repaired pool makes the
	// two mutually exclusive, MarkExecuted simply waits: the park ends after a grace period,
	// the submission completes first, and the probe reports the defect as absent.
	marked := make(chan interface{}, 1)
	restore := service.VerifAfterNextExecutedHas(func([]byte) {
		done := make(chan struct{})
		go func() {
			marked <- safely(func() { pool.MarkExecuted(hdr, types.Receipts{r}, []*types.Transaction{tx}, hdr.EvictedTxs) })
			close(done)
		}()
		select {
		case <-done:
		case <-time.After(500 * time.Millisecond):
		}
	})
	var ok bool
	var err error
	p := safely(func() { ok, err = pool.AddTransaction(tx) })
	restore()
	if p != nil {
		t.Fatalf("AddTransaction panicked: %v", p)
	}
	select {
	case mp := <-marked:
		if mp != nil {
			t.Fatalf("MarkExecuted panicked: %v", mp)
		}
	case <-time.After(300 * time.Second):
		t.Fatalf("VERIF-INCONCLUSIVE probe: MarkExecuted did not return")
	}
	ex := pool.GetExecuted(tx.Hash)
	if ex == nil || ex.Receipt.BlockHash != hdr.Hash {
		t.Fatalf("VERIF-INCONCLUSIVE probe: the block was not marked executed inside AddTransaction (hook not reached?) ex=%+v", ex)
	}
	pendingToo := false
	for _, x := range pool.GetReceived() {
		if x.Hash == tx.Hash {
			pendingToo = true
		}
	}
	st, e := stateWith(map[string]uint64{tx.Source: 0})
	if e != nil {
		t.Fatalf("VERIF-INCONCLUSIVE state db: %v", e)
	}
	packedAgain := false
	for _, x := range pool.PackForCast(901, st) {
		if x.Hash == tx.Hash {
			packedAgain = true
		}
	}
	stats.Probe(t, findingAddVsMark, "C17", pendingToo || packedAgain,
		fmt.Sprintf("TxPool.add checks isTransactionExisted and then inserts without holding anything: MarkExecuted of the block containing the transaction completing in between "+
			"leaves it executed (block %s) AND pending (AddTransaction returned ok=%v err=%v; pending=%v; PackForCast packs it for the next block=%v)", hdr.Hash.Hex()[:10], ok, err, pendingToo, packedAgain))
}

func tail(s string, n int) string {
	if len(s) > n {
		return s[len(s)-n:]
	}
	return s
}
