//go:build !race
// +build !race

package c17

const raceEnabled = false
