package c15

import (
	"bytes"
	"crypto/sha256"
	"encoding/binary"
	"encoding/hex"
	"fmt"
	"math/big"
	"sort"
	"strings"
	"testing"
	"time"

	"com.tuntun.rangers/node/src/common"
	"com.tuntun.rangers/node/src/consensus/access"
	"com.tuntun.rangers/node/src/consensus/base"
	"com.tuntun.rangers/node/src/consensus/groupsig"
	bn "com.tuntun.rangers/node/src/consensus/groupsig/bn256"
	"com.tuntun.rangers/node/src/consensus/logical"
	"com.tuntun.rangers/node/src/consensus/logical/group_create"
	"com.tuntun.rangers/node/src/consensus/model"
	cnet "com.tuntun.rangers/node/src/consensus/net"
	"com.tuntun.rangers/node/src/core"
	"com.tuntun.rangers/node/src/middleware/notify"
	middleware_pb "com.tuntun.rangers/node/src/middleware/pb"
	"com.tuntun.rangers/node/src/middleware/types"
	"github.com/gogo/protobuf/proto"
	"pgregory.net/rapid"

	"verifharness/internal/stats"
)

// C15: verifiers count only signature shares valid for the block being signed.
//
// One case = one verifier node's SignParty for one proposed block of one freshly generated group
// (the node's own DKG, hook H3), fed with a generated schedule of ConsensusVerifyMessages through
// the unmodified baseParty.Update (hook H3c builds the party as Processor.loadOrNewSignParty does and
// completes round0 with injected headers/group). After every delivery the share sets held by
// round1's gSignGenerator / rSignGenerator are compared with a model that is computed from the
// message contents only (a message is valid iff its signer id is member i by value, its data hash
// is bh.Hash, its share bytes are sk_i*H(bh.Hash) and its beacon share bytes are sk_i*H(preBH.Random)).

const findingOtherHash = "F-C15-a"

func TestMain(m *testing.M) {
	stats.SetRule("one case = one group (n members, node's own DKG), one proposed header + previous beacon, one verifier node and a generated delivery schedule of verify messages " +
		"(honest / valid share over another hash / hash and share mismatched / replayed shares / garbage or foreign points / wrong beacon share / non-member and malformed ids / exact duplicates; " +
		"wire-decoded or in-memory; an initial part of the schedule may arrive while the party is still in round0); checked after every delivery; " +
		"a second family (TestProposalHistories) embeds such a schedule in a history where round0 has really accepted the wire-decoded proposal and waits for the parent block while re-sent proposals in other encodings, " +
		"identical duplicates, equivocating / foreign proposals and early verify messages arrive, then completes; " +
		"a third family (TestProcessorEarlyBuffer) sends every verify message through the real Processor.OnMessageVerify: early ones (incl. a burst of 0..25 junk messages of one faulty sender) are buffered by the Processor before the proposal / during round0 / before the re-registration under the block hash, then replayed; " +
		"non-trivial = at least one invalid (Byzantine) message is delivered before the k-th distinct valid one; distinct by (n, verifier, number of early messages, sequence of (sender, kind, transport))")
	stats.Assume("Processor.OnMessageVerify routes by cvm.BlockHash: messages filed under bh.Hash reach this party, and so do messages filed under the party's initial key " +
		"generatePartyKey(bh) while the party is still registered under it (round0 running / re-registration pending). Messages that are consistently about another hash X " +
		"(BlockHash = data hash = X, the sender's real share over X) are also handed to the party directly for X = sibling/previous/random block hash: whatever the route, a share over a hash other than bh.Hash must be ignored")
	stats.Assume("share public keys are registered through JoinedGroupStorage.JoinGroup/AddMemberSignPk; the verifier's own key and/or one other member's key may be missing (lost SignPubKey message). " +
		"Validity of a share is decided by the harness from the bytes under the sender's REAL share key, independent of what the node has registered. A valid share of a member whose key the verifier " +
		"does not know need not be counted (the unchanged tree ignores it); it must be counted when the key is registered. So: share set is a subset of the valid senders and holds at least min(k, countable) " +
		"entries, countable = valid AND key registered; finalisation is required once k countable senders have arrived and happens exactly when the set holds k shares")
	stats.Assume("validity of a message is decided from its bytes: BLS shares are unique (one G1 point verifies for a given key and message) and, on the current tree, have one canonical 64-byte encoding; " +
		"the expected shares sk_i*H(m) and the expected group signature (sum of dealer secrets)*H(m) are computed with groupsig.Sign from the secret keys (C13 checks that primitive against a reference)")
	stats.Assume("a wire message whose decoding fails (error, or panic recovered by ConsensusHandler.Handle) is dropped before it reaches the party; the decoder itself is the subject of C09/C10")
	stats.Assume("round0's proposer/VRF/group-selection/execution checks are replaced by injected bh, preBH and group (they need a booted chain and are not part of this property)")
	common.Init(0, "1.ini", "dev") // writes 1.ini/logs into the scratch cwd
	logical.InitConsensus()        // model.InitParam(...) the way the node does it
	group_create.VerifInitLoggers()
	notify.BUS = notify.NewBus() // middleware.InitMiddleware does this; round0.NextRound unsubscribes from it
	cnet.InitStateMachines()     // sets the decoder's logger (NewConsensusHandler does this)
	stats.Main(m, "C15")
}

// ---------- stubs (interfaces embedded; only what the code under test calls is overridden) ----------

type chainStub struct {
	core.BlockChain
	added   chan *types.Block
	hasHash map[common.Hash]bool
}

func newChainStub() *chainStub {
	return &chainStub{added: make(chan *types.Block, 4), hasHash: map[common.Hash]bool{}}
}
func (c *chainStub) HasBlockByHash(h common.Hash) bool           { return false }
func (c *chainStub) QueryBlockByHash(h common.Hash) *types.Block { return nil }
func (c *chainStub) TotalQN() uint64                             { return 0 }
func (c *chainStub) GenerateBlock(bh types.BlockHeader) *types.Block {
	return &types.Block{Header: &bh}
}
func (c *chainStub) AddBlockOnChain(b *types.Block) types.AddBlockResult {
	c.added <- b
	return types.AddBlockSucc
}

type groupChainStub struct {
	core.GroupChain
	kv map[string][]byte
}

func (g *groupChainStub) SaveJoinedGroup(id []byte, v []byte) bool {
	g.kv[string(id)] = append([]byte{}, v...)
	return true
}
func (g *groupChainStub) GetJoinedGroup(id []byte) ([]byte, error) {
	if v, ok := g.kv[string(id)]; ok {
		return v, nil
	}
	return nil, fmt.Errorf("not found")
}
func (g *groupChainStub) DeleteJoinedGroup(id []byte) bool { delete(g.kv, string(id)); return true }

type netStub struct {
	cnet.NetworkServer
	asked     int
	ownPieces []model.ConsensusVerifyMessage
	blocks    int
}

func (s *netStub) AskSignPkMessage(msg *model.SignPubkeyReqMessage, receiver groupsig.ID) { s.asked++ }
func (s *netStub) SendVerifiedCast(cvm *model.ConsensusVerifyMessage, receiver groupsig.ID) {
	s.ownPieces = append(s.ownPieces, *cvm)
}
func (s *netStub) BroadcastNewBlock(cbm *model.ConsensusBlockMessage) { s.blocks++ }
func (s *netStub) ReleaseGroupNet(id string)                          {}

// ---------- byte source (rapid draws, or a fixed stream for the hand-written probe) ----------

type source interface {
	Bytes(label string, n int) []byte
	Int(label string, lo, hi int) int
}

type rapidSrc struct{ t *rapid.T }

func (r rapidSrc) Bytes(label string, n int) []byte {
	return rapid.SliceOfN(rapid.Byte(), n, n).Draw(r.t, label)
}
func (r rapidSrc) Int(label string, lo, hi int) int { return rapid.IntRange(lo, hi).Draw(r.t, label) }

// fixedSrc: a constant, documented stream (SHA-256 in counter mode over the label) for the probe.
type fixedSrc struct{ ctr uint64 }

func (f *fixedSrc) Bytes(label string, n int) []byte {
	out := []byte{}
	for len(out) < n {
		var c [8]byte
		binary.BigEndian.PutUint64(c[:], f.ctr)
		f.ctr++
		h := sha256.Sum256(append([]byte("c15-probe:"+label), c[:]...))
		out = append(out, h[:]...)
	}
	return out[:n]
}
func (f *fixedSrc) Int(label string, lo, hi int) int {
	b := f.Bytes(label, 4)
	return lo + int(binary.BigEndian.Uint32(b)%uint32(hi-lo+1))
}

// ---------- instance: group, headers, verifier ----------

type failer interface {
	Fatalf(format string, args ...any)
}

type instance struct {
	n, k      int
	ids       []groupsig.ID
	hexes     []string
	sks       []groupsig.Seckey
	pks       []groupsig.Pubkey
	gpk       groupsig.Pubkey
	gid       groupsig.ID
	groupSK   groupsig.Seckey
	group     *model.GroupInfo
	bh, preBH *types.BlockHeader
	hash      common.Hash
	self      int

	expBlock, expBeacon [][]byte // member's one valid share for bh.Hash / preBH.Random
	expGroupSig         []byte
	expGroupBeacon      []byte

	partyKey     common.Hash
	realProposal bool
	selfInfo     model.SelfMinerInfo
	storage      *access.JoinedGroupStorage
	castorSK     groupsig.Seckey
	castSign     model.SignInfo
	registered   []bool // share public key of member i is in the verifier's joined-group record
	missingOwn   bool
	missingOther int // -1 = none

	chain *chainStub
	net   *netStub
	party *logical.VerifC15Party
}

func short(b []byte) string {
	h := hex.EncodeToString(b)
	if len(h) > 16 {
		return h[:6] + ".." + h[len(h)-6:] + fmt.Sprintf("(%dB)", len(b))
	}
	return h
}

// buildInstance runs the node's DKG for n members and sets up one verifier node (member self).
func buildInstance(t failer, src source, n int) *instance {
	return buildInstanceKeys(t, src, n, -1, -1)
}

// buildInstanceKeys: ownMissing / otherMissing = 1 forces the verifier's own / one other member's share
// public key to be absent from the verifier's joined-group record, 0 forces it present, -1 draws it.
func buildInstanceKeys(t failer, src source, n int, ownMissing, otherMissing int, opts ...string) *instance {
	in := &instance{n: n, k: model.Param.GetGroupK(n)}
	for _, o := range opts {
		if o == "real_proposal" { // the header is a complete proposal whose hash is its GenHash, signed by its castor
			in.realProposal = true
		}
	}
	if in.k < 1 || in.k > n {
		t.Fatalf("GetGroupK(%d)=%d", n, in.k)
	}
	// member ids: non-zero and distinct modulo the group order (ids are hashes of public keys)
	seen := map[string]bool{}
	for i := 0; i < n; i++ {
		var v *big.Int
		if src.Int(fmt.Sprintf("idstyle%d", i), 0, 5) == 0 {
			v = big.NewInt(int64(src.Int(fmt.Sprintf("smallid%d", i), 1, 1000)))
		} else {
			v = new(big.Int).SetBytes(src.Bytes(fmt.Sprintf("id%d", i), 32))
		}
		for {
			m := new(big.Int).Mod(v, bn.Order)
			if m.Sign() != 0 && !seen[m.String()] {
				seen[m.String()] = true
				break
			}
			v.Add(v, big.NewInt(1))
		}
		id := groupsig.DeserializeID(v.Bytes())
		in.ids = append(in.ids, id)
		in.hexes = append(in.hexes, id.GetHexString())
	}
	var gh common.Hash
	copy(gh[:], src.Bytes("grouphash", 32))

	// --- the node's DKG (hook H3 of C13) ---
	members := make([]*group_create.VerifDKGMember, n)
	dealt := make([]map[string]model.SharePiece, n)
	sum := new(big.Int)
	for i := 0; i < n; i++ {
		var seed base.Rand
		copy(seed[:], src.Bytes(fmt.Sprintf("seed%d", i), 32))
		members[i] = group_create.VerifNewDKGMember(seed, gh, append([]groupsig.ID{}, in.ids...))
		if members[i] == nil {
			t.Fatalf("harness: group init context not created for member %d", i)
		}
		dealt[i] = members[i].GenSharePieces()
		sum.Add(sum, members[i].SeedSecKey().GetBigInt())
	}
	sum.Mod(sum, bn.Order)
	for j := 0; j < n; j++ {
		for d := 0; d < n; d++ {
			p := dealt[d][in.hexes[j]]
			r := members[j].HandleSharePiece(in.ids[d], &p)
			if d < n-1 && r != 0 || d == n-1 && r != 1 {
				t.Fatalf("harness: DKG with honest pieces did not complete (receiver %d, dealer %d, result %d)", j, d, r)
			}
		}
		sk := members[j].SignSecKey()
		in.sks = append(in.sks, sk)
		in.pks = append(in.pks, *groupsig.GeneratePubkey(sk))
	}
	in.gpk = members[0].GroupPubKey()
	in.gid = *groupsig.NewIDFromPubkey(in.gpk)
	in.groupSK = *groupsig.NewSeckeyFromBigInt(new(big.Int).Set(sum))
	if !groupsig.GeneratePubkey(in.groupSK).IsEqual(in.gpk) {
		t.Fatalf("harness: group public key is not the public key of the sum of dealer secrets")
	}
	in.group = model.NewGroupInfo(in.gid, in.gpk, &model.GroupInitInfo{
		GroupHeader:  &types.GroupHeader{Hash: gh},
		GroupMembers: append([]groupsig.ID{}, in.ids...),
	})

	// --- headers ---
	copy(in.hash[:], src.Bytes("blockhash", 32))
	preRandom := src.Bytes("prerandom", []int{32, 64, 64, 64}[src.Int("prerandomlen", 0, 3)])
	var preHash common.Hash
	copy(preHash[:], src.Bytes("prehash", 32))
	height := uint64(src.Int("height", 1, 1<<30))
	in.preBH = &types.BlockHeader{Hash: preHash, Height: height - 1, Random: preRandom}
	in.bh = &types.BlockHeader{Hash: in.hash, PreHash: preHash, Height: height, GroupId: in.gid.Serialize(),
		Castor: src.Bytes("castor", 32), ProveValue: new(big.Int).SetBytes(src.Bytes("prove", 32))}
	copy(in.bh.TxTree[:], src.Bytes("txtree", 32))
	if in.realProposal {
		base := int64(1700000000 + src.Int("pretime", 0, 1<<20))
		in.preBH.CurTime = time.Unix(base, 0).UTC()
		in.bh.PreTime = in.preBH.CurTime
		in.bh.CurTime = time.Unix(base+int64(src.Int("castdelay", 1, 10)), 0).UTC()
		in.bh.TotalQN = uint64(src.Int("totalqn", 1, 1000))
		in.bh.Nonce = uint64(src.Int("nonce", 0, 1<<20))
		in.hash = in.bh.GenHash()
		in.bh.Hash = in.hash
		in.castorSK = *groupsig.NewSeckeyFromBigInt(new(big.Int).SetBytes(src.Bytes("castorsk", 32)))
		var forSign model.ConsensusCastMessage
		forSign.BH = *in.bh
		si, ok := model.NewSignInfo(in.castorSK, groupsig.DeserializeID(in.bh.Castor), &forSign)
		if !ok {
			t.Fatalf("harness: cannot sign the proposal")
		}
		in.castSign = si
	}
	// the key under which the Processor registers this party until round0 has finished (public: cast-message fields)
	in.partyKey = common.BytesToHash(logical.VerifC15InitialPartyKey(*in.bh))
	switch src.Int("initialrandom", 0, 2) * map[bool]int{true: 0, false: 1}[in.realProposal] { // what the proposer left in the fields the round fills in
	case 1:
		in.bh.Random = src.Bytes("bhrandom", 64)
	case 2:
		in.bh.Random = append([]byte{}, preRandom...)
	}

	for i := 0; i < n; i++ {
		sb := groupsig.Sign(in.sks[i], in.hash.Bytes())
		sr := groupsig.Sign(in.sks[i], preRandom)
		in.expBlock = append(in.expBlock, sb.Serialize())
		in.expBeacon = append(in.expBeacon, sr.Serialize())
	}
	gs := groupsig.Sign(in.groupSK, in.hash.Bytes())
	gr := groupsig.Sign(in.groupSK, preRandom)
	in.expGroupSig, in.expGroupBeacon = gs.Serialize(), gr.Serialize()

	// --- the verifier node ---
	in.self = src.Int("self", 0, n-1)
	in.chain = newChainStub()
	in.net = &netStub{}
	storage := access.VerifC15NewJoinedGroupStorage(&groupChainStub{kv: map[string][]byte{}})
	jg := model.NewJoindGroupInfo(in.sks[in.self], in.gpk, gh)
	storage.JoinGroup(jg, in.ids[in.self])
	// node state: which share public keys the verifier has received (SignPubKey messages can be lost;
	// the verifier's own entry is written only when its own message loops back)
	in.missingOther = -1
	in.missingOwn = src.Int("own_key_missing", 0, 2) == 0
	if ownMissing >= 0 {
		in.missingOwn = ownMissing == 1
	}
	if dm := src.Int("other_key_missing", 0, 4) == 0; otherMissing == 1 || otherMissing < 0 && dm {
		in.missingOther = in.otherMember(src, "other_key_missing_who", in.self)
	}
	in.registered = make([]bool, n)
	for i := 0; i < n; i++ {
		if i == in.self && in.missingOwn || i == in.missingOther {
			continue
		}
		in.registered[i] = true
		storage.AddMemberSignPk(in.ids[i], in.gid, in.pks[i])
	}
	in.selfInfo = model.SelfMinerInfo{SecKey: in.sks[in.self], MinerInfo: model.MinerInfo{ID: in.ids[in.self]}}
	in.storage = storage
	group_create.VerifC15Install(in.selfInfo, storage, in.net)
	in.party = logical.VerifC15NewParty(in.ids[in.self], in.chain, in.net, storage, common.ToHex(in.partyKey.Bytes()))
	if in.party == nil {
		t.Fatalf("SignParty.Start failed")
	}
	return in
}

// ---------- message specs ----------

type spec struct {
	sender   int // member index the sender controls, -1 = outsider
	kind     string
	filed    []byte // BlockHash field (routing key); nil = bh.Hash
	idBytes  []byte
	dataHash []byte
	sig      []byte
	rnd      []byte
	wire     bool
	msgID    string // for in-memory delivery (the wire id is the hash of the bytes)

	extra []byte // unknown protobuf field appended to the wire bytes (same content, other bytes => other id)

	cast     string // non-empty: this item is a ConsensusCastMessage (proposal) of that variant
	castWire []byte // its wire bytes
}

func (s spec) copyAs(kind string) spec {
	c := s
	c.kind = kind
	return c
}

// validFor decides from the bytes whether the message is member i's valid share pair for this block.
func (in *instance) validFor(s *spec) int {
	idv := new(big.Int).SetBytes(s.idBytes)
	for i := 0; i < in.n; i++ {
		if in.ids[i].GetBigInt().Cmp(idv) != 0 {
			continue
		}
		if len(s.dataHash) == 32 && bytes.Equal(s.dataHash, in.hash.Bytes()) &&
			bytes.Equal(s.sig, in.expBlock[i]) && bytes.Equal(s.rnd, in.expBeacon[i]) {
			return i
		}
		return -1
	}
	return -1
}

var byzKinds = []string{
	"honest", "other_hash", "other_hash", "other_hash", "other_hash_sig_bh", "bh_hash_sig_other",
	"replay_member", "replay_block_share", "garbage_sig", "garbage_sig", "foreign_point_sig", "group_sig_as_share",
	"beacon_other_value", "beacon_replay", "beacon_garbage", "beacon_over_block_hash", "swapped_shares",
	"claim_verifier_replay", "claim_verifier_foreign_points", "claim_verifier_other_key", "claim_verifier_own_shares_swapped",
	"about_party_key", "about_party_key", "about_sibling_block", "about_previous_block", "about_random_hash",
}

var outsiderKinds = []string{"outsider_own_key", "outsider_replay", "zero_id", "oversize_id", "padded_member_id",
	"claim_verifier_replay", "claim_verifier_foreign_points", "claim_verifier_other_key",
	"about_party_key", "about_sibling_block", "about_random_hash"}

func garbage(src source, label string) []byte {
	switch src.Int(label+"_g", 0, 4) {
	case 0:
		return []byte{}
	case 1:
		return src.Bytes(label, 63)
	case 2:
		return src.Bytes(label, 65)
	case 3: // x < p with overwhelming probability, (x, y) not on the curve
		b := src.Bytes(label, 64)
		b[0] &= 0x0f
		b[32] &= 0x0f
		return b
	}
	return bytes.Repeat([]byte{0}, 64) // encoding of the point at infinity
}

func (in *instance) otherMember(src source, label string, not int) int {
	j := src.Int(label, 0, in.n-2)
	if j >= not && not >= 0 {
		j++
	}
	return j
}

// mkSpec builds one message of the given kind sent by the holder of member b's key (b = -1: an outsider).
func (in *instance) mkSpec(src source, kind string, b int, tag string) spec {
	s := spec{sender: b, kind: kind, dataHash: in.hash.Bytes()}
	var otherHash common.Hash
	copy(otherHash[:], src.Bytes(tag+"_oh", 32))
	if bytes.Equal(otherHash[:], in.hash[:]) {
		otherHash[0] ^= 1
	}
	if b >= 0 {
		s.idBytes = in.ids[b].Serialize()
		s.sig = in.expBlock[b]
		s.rnd = in.expBeacon[b]
	}
	sign := func(sk groupsig.Seckey, m []byte) []byte { x := groupsig.Sign(sk, m); return x.Serialize() }
	switch kind {
	case "honest":
	case "other_hash": // a well-signed share over another hash, filed under bh.Hash
		s.dataHash = otherHash.Bytes()
		s.sig = sign(in.sks[b], otherHash.Bytes())
	case "other_hash_sig_bh":
		s.dataHash = otherHash.Bytes()
	case "bh_hash_sig_other":
		s.sig = sign(in.sks[b], otherHash.Bytes())
	case "replay_member":
		j := in.otherMember(src, tag+"_j", b)
		s.sig, s.rnd = in.expBlock[j], in.expBeacon[j]
	case "replay_block_share":
		j := in.otherMember(src, tag+"_j", b)
		s.sig = in.expBlock[j]
	case "garbage_sig":
		s.sig = garbage(src, tag+"_gs")
	case "foreign_point_sig":
		s.sig = sign(*groupsig.NewSeckeyFromBigInt(new(big.Int).SetBytes(src.Bytes(tag+"_fk", 32))), src.Bytes(tag+"_fm", 8))
	case "group_sig_as_share":
		s.sig, s.rnd = in.expGroupSig, in.expGroupBeacon
	case "beacon_other_value":
		s.rnd = sign(in.sks[b], src.Bytes(tag+"_ob", len(in.preBH.Random)))
	case "beacon_replay":
		j := in.otherMember(src, tag+"_j", b)
		s.rnd = in.expBeacon[j]
	case "beacon_garbage":
		s.rnd = garbage(src, tag+"_gr")
	case "beacon_over_block_hash":
		s.rnd = in.expBlock[b]
	case "swapped_shares":
		s.sig, s.rnd = in.expBeacon[b], in.expBlock[b]
	// messages that are internally consistent but about ANOTHER hash X: BlockHash = data hash = X, the
	// sender's real share over X (an outsider: its own key and id), valid beacon share
	case "about_party_key", "about_sibling_block", "about_previous_block", "about_random_hash":
		var x common.Hash
		switch kind {
		case "about_party_key": // the party's initial registration key
			x = in.partyKey
		case "about_sibling_block": // the block another castor proposed at the same height on the same parent
			sib := *in.bh
			sib.Castor = src.Bytes(tag+"_sibcastor", 32)
			sib.Hash = common.Hash{}
			x = sib.GenHash()
		case "about_previous_block":
			x = in.preBH.Hash
		default:
			x = otherHash
		}
		if x == in.hash {
			x[0] ^= 1
		}
		sk := groupsig.Seckey{}
		if b >= 0 {
			sk = in.sks[b]
		} else {
			sk = *groupsig.NewSeckeyFromBigInt(new(big.Int).SetBytes(src.Bytes(tag+"_ok", 32)))
			s.idBytes = groupsig.NewIDFromPubkey(*groupsig.GeneratePubkey(sk)).Serialize()
			s.rnd = sign(sk, in.preBH.Random)
		}
		s.filed, s.dataHash = x.Bytes(), x.Bytes()
		s.sig = sign(sk, x.Bytes())
	// messages that name the VERIFIER itself as signer (the signer id is only a claimed field)
	case "claim_verifier_replay": // another member's valid shares
		j := in.otherMember(src, tag+"_j", in.self)
		s.idBytes = in.ids[in.self].Serialize()
		s.sig, s.rnd = in.expBlock[j], in.expBeacon[j]
	case "claim_verifier_foreign_points": // arbitrary valid G1 points
		s.idBytes = in.ids[in.self].Serialize()
		fk := *groupsig.NewSeckeyFromBigInt(new(big.Int).SetBytes(src.Bytes(tag+"_fk", 32)))
		s.sig, s.rnd = sign(fk, src.Bytes(tag+"_fm", 8)), sign(fk, src.Bytes(tag+"_fr", 8))
	case "claim_verifier_other_key": // well-formed shares over bh.Hash / preBH.Random made with another key
		s.idBytes = in.ids[in.self].Serialize()
		var ok groupsig.Seckey
		if b >= 0 && b != in.self {
			ok = in.sks[b]
		} else {
			ok = *groupsig.NewSeckeyFromBigInt(new(big.Int).SetBytes(src.Bytes(tag+"_ok", 32)))
		}
		s.sig, s.rnd = sign(ok, in.hash.Bytes()), sign(ok, in.preBH.Random)
	case "claim_verifier_own_shares_swapped": // the verifier's real points in the wrong fields
		s.idBytes = in.ids[in.self].Serialize()
		s.sig, s.rnd = in.expBeacon[in.self], in.expBlock[in.self]
	case "outsider_own_key":
		sk := *groupsig.NewSeckeyFromBigInt(new(big.Int).SetBytes(src.Bytes(tag+"_ok", 32)))
		s.idBytes = groupsig.NewIDFromPubkey(*groupsig.GeneratePubkey(sk)).Serialize()
		s.sig, s.rnd = sign(sk, in.hash.Bytes()), sign(sk, in.preBH.Random)
	case "outsider_replay":
		j := src.Int(tag+"_j", 0, in.n-1)
		s.idBytes = src.Bytes(tag+"_oid", 32)
		s.sig, s.rnd = in.expBlock[j], in.expBeacon[j]
	case "zero_id":
		j := src.Int(tag+"_j", 0, in.n-1)
		s.idBytes = []byte{}
		s.sig, s.rnd = in.expBlock[j], in.expBeacon[j]
	case "oversize_id": // 33 significant bytes: groupsig.ID.Serialize panics on it
		j := src.Int(tag+"_j", 0, in.n-1)
		s.idBytes = append([]byte{1}, in.ids[j].Serialize()...)
		s.sig, s.rnd = in.expBlock[j], in.expBeacon[j]
	case "padded_member_id": // member j's id with leading zero bytes: the same id by value
		j := src.Int(tag+"_j", 0, in.n-1)
		s.sender = j
		s.idBytes = append([]byte{0, 0}, in.ids[j].Serialize()...)
		s.sig, s.rnd = in.expBlock[j], in.expBeacon[j]
	default:
		panic("kind " + kind)
	}
	s.wire = src.Int(tag+"_wire", 0, 2) > 0
	if kind == "oversize_id" || kind == "padded_member_id" {
		s.wire = true
	}
	s.msgID = "m-" + hex.EncodeToString(src.Bytes(tag+"_mid", 6))
	return s
}

// realise turns a spec into the message object the party receives: through the node's wire
// decoder, or built in memory (undecodable points become the nil signature there).
func (in *instance) realise(s *spec) (msg *model.ConsensusVerifyMessage, dropped string) {
	nz := func(b []byte) []byte {
		if b == nil {
			return []byte{}
		}
		return b
	}
	filed := in.hash
	if s.filed != nil {
		filed = common.BytesToHash(s.filed)
	}
	if s.wire {
		v := int32(common.ConsensusVersion)
		pb := &middleware_pb.ConsensusVerifyMessage{
			BlockHash:  filed.Bytes(),
			RandomSign: nz(s.rnd),
			Sign:       &middleware_pb.SignData{DataHash: nz(s.dataHash), DataSign: nz(s.sig), SignMember: nz(s.idBytes), Version: &v},
		}
		b, err := proto.Marshal(pb)
		if err != nil {
			return nil, "unsendable"
		}
		b = append(b, s.extra...)
		func() {
			defer func() {
				if r := recover(); r != nil { // ConsensusHandler.Handle recovers and drops the message
					msg, dropped = nil, "decode_panic_recovered_by_handler"
				}
			}()
			m, e := cnet.UnMarshalConsensusVerifyMessage(b)
			if e != nil || m == nil {
				msg, dropped = nil, "decode_error"
				return
			}
			msg = m
		}()
		return
	}
	var sig, rnd groupsig.Signature
	_ = sig.Deserialize(s.sig) // on error the signature stays the zero value (nil point)
	_ = rnd.Deserialize(s.rnd)
	id := groupsig.DeserializeID(s.idBytes)
	var dh common.Hash
	copy(dh[:], s.dataHash)
	return &model.ConsensusVerifyMessage{
		BlockHash:  filed,
		RandomSign: rnd,
		Id:         s.msgID,
		SignInfo:   model.MakeSignInfo(dh, sig, id, common.ConsensusVersion),
	}, ""
}

// ---------- schedule ----------

type schedule struct {
	msgs     []spec
	nEarly   int // delivered while the party is still in round0
	steered  bool
	proposal bool // msgs[0] is the real proposal: round0 accepts it and waits for the parent block until completion
}

func genSchedule(in *instance, src source, t *rapid.T) schedule {
	var sc schedule
	n, k := in.n, in.k
	f := src.Int("f", 0, n-k)
	perm := make([]int, n)
	for i := range perm {
		perm[i] = i
	}
	perm = rapid.Permutation(perm).Draw(t, "byzantine_pick")
	isByz := map[int]bool{}
	for _, b := range perm[:f] {
		isByz[b] = true
	}
	steer := stats.IsKnown(findingOtherHash)
	starve := src.Int("starve", 0, 4) == 0 // some schedules never get k valid messages
	for i := 0; i < n; i++ {
		tag := fmt.Sprintf("m%d", i)
		if !isByz[i] {
			silentP := 6
			if starve {
				silentP = 1
			}
			if src.Int(tag+"_silent", 0, silentP) == 0 {
				continue
			}
			sc.msgs = append(sc.msgs, in.mkSpec(src, "honest", i, tag))
			continue
		}
		cnt := src.Int(tag+"_cnt", 1, 3)
		for c := 0; c < cnt; c++ {
			kind := rapid.SampledFrom(byzKinds).Draw(t, fmt.Sprintf("%s_kind%d", tag, c))
			if kind == "other_hash" && steer {
				// known finding F-C15-a: exactly this shape is counted by round1.Update; steer around it
				sc.steered = true
				kind = "other_hash_sig_bh"
			}
			sc.msgs = append(sc.msgs, in.mkSpec(src, kind, i, fmt.Sprintf("%s_%d", tag, c)))
		}
	}
	for o, cnt := 0, src.Int("outsiders", 0, 2); o < cnt; o++ {
		kind := rapid.SampledFrom(outsiderKinds).Draw(t, fmt.Sprintf("o%d_kind", o))
		sc.msgs = append(sc.msgs, in.mkSpec(src, kind, -1, fmt.Sprintf("o%d", o)))
	}
	if len(sc.msgs) > 0 {
		for d, cnt := 0, src.Int("dups", 0, 2); d < cnt; d++ {
			j := src.Int(fmt.Sprintf("dup%d", d), 0, len(sc.msgs)-1)
			sc.msgs = append(sc.msgs, sc.msgs[j].copyAs("dup:"+strings.TrimPrefix(sc.msgs[j].kind, "dup:")))
		}
	}
	order := make([]int, len(sc.msgs))
	for i := range order {
		order[i] = i
	}
	order = rapid.Permutation(order).Draw(t, "arrival_order")
	arrived := make([]spec, len(order))
	for pos, i := range order {
		arrived[pos] = sc.msgs[i]
	}
	sc.msgs = arrived
	if src.Int("early", 0, 2) == 0 && len(sc.msgs) > 0 {
		sc.nEarly = src.Int("n_early", 1, len(sc.msgs))
	}
	// messages about another hash are what a faulty member can get to the party while it is still
	// registered under its initial key: in half of the schedules that contain some, they come first and early
	var about, rest []spec
	for _, m := range sc.msgs {
		if strings.HasPrefix(strings.TrimPrefix(m.kind, "dup:"), "about_") {
			about = append(about, m)
		} else {
			rest = append(rest, m)
		}
	}
	if len(about) > 0 && src.Int("about_first", 0, 1) == 0 {
		sc.msgs = append(about, rest...)
		if sc.nEarly < len(about) {
			sc.nEarly = len(about)
		}
	}
	// The oversize id makes groupsig.ID.Serialize panic inside round1.Update; baseParty.Update recovers
	// it for a message delivered in round1. Early (future) verify messages cannot occur through
	// Processor routing at all (the party is keyed by the block hash only after round0), so the
	// harness keeps that one malformed shape out of the early part.
	for i := 0; i < sc.nEarly; i++ {
		if strings.HasSuffix(sc.msgs[i].kind, "oversize_id") {
			sc.msgs[i] = in.mkSpec(src, "outsider_replay", -1, fmt.Sprintf("early_swap%d", i))
		}
	}
	return sc
}

// ---------- the oracle ----------

type runner struct {
	in        *instance
	valid     map[int]bool // V: members whose valid message has been delivered
	countable int          // |C|: those of V whose share public key the verifier has registered
	frozen    []string     // share-holder ids at the moment |V| first reached k
	finalised bool
	log       []string
}

func sortedKeys(m map[string][]byte) []string { return logical.VerifC15ShareIDs(m) }

func (r *runner) idxOf(hexID string) int {
	for i, h := range r.in.hexes {
		if h == hexID {
			return i
		}
	}
	return -1
}

// check compares the party with the model; returns "" or the first discrepancy.
func (r *runner) check(step string) string {
	in := r.in
	bs, rs := in.party.BlockShares(), in.party.BeaconShares()
	bids, rids := sortedKeys(bs), sortedKeys(rs)
	// only valid shares, each the member's share for bh.Hash / preBH.Random
	for _, id := range bids {
		i := r.idxOf(id)
		if i < 0 {
			return fmt.Sprintf("%s: block-signature share set holds a share under id %s, which is not a member of the group", step, id)
		}
		if !r.valid[i] {
			return fmt.Sprintf("%s: block-signature share set holds a share of member %d, but no valid share of that member for block %s has been delivered (held bytes %s, its valid share is %s)",
				step, i, short(in.hash.Bytes()), short(bs[id]), short(in.expBlock[i]))
		}
		if !bytes.Equal(bs[id], in.expBlock[i]) {
			return fmt.Sprintf("%s: share held for member %d is %s, not its share %s for bh.Hash", step, i, short(bs[id]), short(in.expBlock[i]))
		}
	}
	for _, id := range rids {
		i := r.idxOf(id)
		if i < 0 || !r.valid[i] {
			return fmt.Sprintf("%s: beacon share set holds a share under id %s (member index %d) without a valid message from it", step, id, i)
		}
		if !bytes.Equal(rs[id], in.expBeacon[i]) {
			return fmt.Sprintf("%s: beacon share held for member %d is %s, not its share %s for preBH.Random", step, i, short(rs[id]), short(in.expBeacon[i]))
		}
	}
	if strings.Join(bids, ",") != strings.Join(rids, ",") {
		return fmt.Sprintf("%s: block share holders %v differ from beacon share holders %v", step, bids, rids)
	}
	// every valid share of a member with a registered key is counted until the threshold is reached
	lo, hi := r.countable, len(r.valid)
	if lo > in.k {
		lo = in.k
	}
	if hi > in.k {
		hi = in.k
	}
	if len(bids) < lo || len(bids) > hi {
		return fmt.Sprintf("%s: %d valid distinct senders delivered, %d of them with a registered share key (k=%d), but the share set holds %d shares %v",
			step, len(r.valid), r.countable, in.k, len(bids), bids)
	}
	if len(bids) >= in.k {
		if r.frozen == nil {
			r.frozen = bids
		} else if strings.Join(r.frozen, ",") != strings.Join(bids, ",") {
			return fmt.Sprintf("%s: share set changed after the threshold was reached: %v -> %v", step, r.frozen, bids)
		}
	}
	// proceed / finalise exactly when k valid messages have arrived
	reached := len(bids) >= in.k // all held shares are valid (checked above), so k of them must finalise
	done, errText := in.party.Drain()
	if errText != "" {
		return fmt.Sprintf("%s: the party failed: %s (valid senders so far %d, k=%d)", step, errText, len(r.valid), in.k)
	}
	if cp := in.party.Round1CanProceed(); cp != reached {
		return fmt.Sprintf("%s: round1 canProceed=%v with %d valid distinct senders, k=%d", step, cp, len(r.valid), in.k)
	}
	if !reached {
		if done {
			return fmt.Sprintf("%s: party signalled Done with only %d valid senders (k=%d)", step, len(r.valid), in.k)
		}
		select {
		case b := <-in.chain.added:
			return fmt.Sprintf("%s: block added with only %d valid senders, signature %s", step, len(r.valid), short(b.Header.Signature))
		default:
		}
		return ""
	}
	if r.finalised {
		if done {
			return step + ": party signalled Done a second time"
		}
		select {
		case <-in.chain.added:
			return step + ": block added a second time"
		default:
		}
		return ""
	}
	if !done {
		return fmt.Sprintf("%s: %d valid shares held (k=%d) but the party did not finish (round %d, checkSignature: %q)",
			step, len(bids), in.k, in.party.RoundNumber(), in.party.CheckSignature())
	}
	r.finalised = true
	blk := <-in.chain.added // round2.Start hands the block to AddBlockOnChain in a goroutine it has started
	h := blk.Header
	if h.Hash != in.hash {
		return step + ": added block has another hash"
	}
	if !bytes.Equal(h.Signature, in.expGroupSig) {
		return fmt.Sprintf("%s: recovered block signature %s is not the group signature %s of bh.Hash", step, short(h.Signature), short(in.expGroupSig))
	}
	if !bytes.Equal(h.Random, in.expGroupBeacon) {
		return fmt.Sprintf("%s: recovered beacon %s is not the group signature %s of preBH.Random", step, short(h.Random), short(in.expGroupBeacon))
	}
	if !groupsig.VerifySig(in.gpk, in.hash.Bytes(), *groupsig.DeserializeSign(h.Signature)) ||
		!groupsig.VerifySig(in.gpk, in.preBH.Random, *groupsig.DeserializeSign(h.Random)) {
		return step + ": recovered signatures do not verify under the group public key"
	}
	if e := in.party.CheckSignature(); e != "" {
		return fmt.Sprintf("%s: round2.checkSignature rejects the recovered signatures: %s", step, e)
	}
	return ""
}

// run delivers the schedule; returns the first discrepancy (or panic) and bookkeeping for the statistics.
type outcome struct {
	fail             string
	byzBeforeThresh  int
	dropped          map[string]int
	finalised        bool
	validSenders     int
	kindsBeforeThres []string
}

func run(in *instance, sc schedule) (out outcome) {
	out.dropped = map[string]int{}
	r := &runner{in: in, valid: map[int]bool{}}
	defer func() {
		if p := recover(); p != nil {
			out.fail = fmt.Sprintf("panic escaped the party: %v", p)
		}
		out.finalised = r.finalised
		out.validSenders = len(r.valid)
	}()
	deliver := func(i int) {
		s := &sc.msgs[i]
		if s.cast != "" {
			ccm, dropped := realiseCast(s)
			if dropped != "" {
				out.dropped["cast_"+dropped]++
				return
			}
			if r.countable < in.k {
				if s.cast != "original" {
					out.byzBeforeThresh++
				}
				out.kindsBeforeThres = append(out.kindsBeforeThres, s.kind)
			}
			in.party.Update(ccm)
			return
		}
		msg, dropped := in.realise(s)
		if dropped != "" {
			out.dropped[dropped]++
			return
		}
		v := in.validFor(s)
		if r.countable < in.k {
			if v < 0 {
				out.byzBeforeThresh++
			}
			out.kindsBeforeThres = append(out.kindsBeforeThres, s.kind)
		}
		in.party.Update(msg)
		if v >= 0 && !r.valid[v] {
			r.valid[v] = true
			if in.registered[v] {
				r.countable++
			}
		}
	}
	for i := 0; i < sc.nEarly; i++ {
		deliver(i)
	}
	if got := in.party.BlockShares(); len(got) != 0 {
		out.fail = "shares counted before round1"
		return
	}
	if sc.proposal {
		// round0 holds the real proposal and waits for its parent; now the parent arrives and the proposal passes
		if h, waiting := in.party.WaitingProposal(); !waiting || h != in.hash.String() {
			out.fail = fmt.Sprintf("harness: before completion round0 holds proposal %q, waiting=%v; expected the real proposal %s", h, waiting, in.hash.String())
			return
		}
		held := in.party.CompleteWaitingRound0(in.preBH, in.group)
		if held == nil || held.Hash != in.hash {
			out.fail = "harness: round0 did not hold the real proposal at completion"
			return
		}
		in.bh = held
	} else {
		in.party.FinishRound0(in.bh, in.preBH, in.group, true)
	}
	// the verifier's own message, as round0.normalPieceVerify builds it, is what the harness calls honest
	if len(in.net.ownPieces) != 1 {
		out.fail = fmt.Sprintf("normalPieceVerify sent %d messages", len(in.net.ownPieces))
		return
	}
	own := in.net.ownPieces[0]
	if own.BlockHash != in.hash || own.GetDataHash() != in.hash || !own.GetSignerID().IsEqual(in.ids[in.self]) ||
		!bytes.Equal(own.GetSignature().Serialize(), in.expBlock[in.self]) || !bytes.Equal(own.RandomSign.Serialize(), in.expBeacon[in.self]) {
		out.fail = "harness: the honest message model differs from what round0.normalPieceVerify sends"
		return
	}
	if out.fail = r.check(fmt.Sprintf("after round0 completed and round1.Start replayed the stored ones of %d early messages", sc.nEarly)); out.fail != "" {
		return
	}
	for i := sc.nEarly; i < len(sc.msgs); i++ {
		deliver(i)
		s := sc.msgs[i]
		if out.fail = r.check(fmt.Sprintf("after message #%d (%s from %d, wire=%v)", i, s.kind, s.sender, s.wire)); out.fail != "" {
			if sc.proposal {
				out.fail += fmt.Sprintf(" [the party held the real proposal while %d messages arrived before round0 completed]", sc.nEarly)
			}
			return
		}
	}
	return
}

func render(in *instance, sc schedule) []string {
	var l []string
	for i, s := range sc.msgs {
		tr := "mem"
		if s.wire {
			tr = "wire"
		}
		e := ""
		if i < sc.nEarly {
			e = "early "
		}
		if s.cast != "" {
			l = append(l, e+s.kind)
			continue
		}
		l = append(l, fmt.Sprintf("%s%d:%s/%s", e, s.sender, s.kind, tr))
	}
	return l
}

// ---------- the property ----------

func TestShareCounting(t *testing.T) {
	maxN := 7
	if stats.Thorough() {
		maxN = model.GROUP_MAX_MEMBERS
	}
	stats.Check(t, 600, 2500, func(t *rapid.T) {
		src := rapidSrc{t}
		n := src.Int("n", 5, maxN)
		in := buildInstance(t, src, n)
		sc := genSchedule(in, src, t)
		out := run(in, sc)

		shape := render(in, sc)
		nt := ""
		if out.byzBeforeThresh > 0 {
			nt = fmt.Sprintf("%d|%d|%d|%v|%d|%s", n, in.self, sc.nEarly, in.missingOwn, in.missingOther, strings.Join(shape, ","))
		}
		classes := []string{"family:share_schedule", fmt.Sprintf("n=%d,k=%d", n, in.k)}
		if out.finalised {
			classes = append(classes, "outcome:finalised")
		} else {
			classes = append(classes, "outcome:below_threshold")
		}
		if sc.nEarly > 0 {
			classes = append(classes, "early_messages:yes")
		} else {
			classes = append(classes, "early_messages:no")
		}
		switch {
		case out.byzBeforeThresh == 0:
			classes = append(classes, "byz_before_threshold:0")
		case out.byzBeforeThresh <= 2:
			classes = append(classes, "byz_before_threshold:1-2")
		default:
			classes = append(classes, "byz_before_threshold:3+")
		}
		if in.missingOwn {
			classes = append(classes, "verifier_own_key:missing")
		} else {
			classes = append(classes, "verifier_own_key:registered")
		}
		if in.missingOther >= 0 {
			classes = append(classes, "other_member_key:missing")
		} else {
			classes = append(classes, "other_member_key:all_registered")
		}
		// a message naming the verifier as signer that arrives before the verifier's own valid share
		ownAt, forgedAt := len(sc.msgs), -1
		for i := range sc.msgs {
			if in.validFor(&sc.msgs[i]) == in.self && i < ownAt {
				ownAt = i
			}
			if forgedAt < 0 && strings.Contains(sc.msgs[i].kind, "claim_verifier") {
				forgedAt = i
			}
		}
		if forgedAt >= 0 && forgedAt < ownAt {
			when := "late"
			if forgedAt < sc.nEarly {
				when = "early"
			}
			ks := "own_key_registered"
			if in.missingOwn {
				ks = "own_key_missing"
			}
			classes = append(classes, "forged_verifier_id_before_own_share:"+when+","+ks)
		}
		aboutSeen := map[string]bool{}
		for i := range sc.msgs {
			if k := strings.TrimPrefix(sc.msgs[i].kind, "dup:"); strings.HasPrefix(k, "about_") {
				when := "late"
				if i < sc.nEarly {
					when = "early"
				}
				who := "member"
				if sc.msgs[i].sender < 0 {
					who = "outsider"
				}
				c := "consistent_other_hash:" + k + "," + when + "," + who
				if !aboutSeen[c] {
					aboutSeen[c] = true
					classes = append(classes, c)
				}
			}
		}
		stats.Case(nt, classes...)
		seen := map[string]bool{}
		for _, k := range out.kindsBeforeThres {
			if !seen[k] {
				seen[k] = true
				stats.Class("kind_before_threshold:" + k)
			}
		}
		for d, c := range out.dropped {
			stats.Count("dropped:"+d, int64(c))
		}
		if sc.steered {
			stats.Exclude(findingOtherHash)
		}
		stats.Count("messages_delivered", int64(len(sc.msgs)))
		stats.Count("ask_sign_pk_calls", int64(in.net.asked))
		stats.Sample(map[string]interface{}{"n": n, "k": in.k, "self": in.self, "early": sc.nEarly, "schedule": shape, "own_key_missing": in.missingOwn, "other_key_missing": in.missingOther,
			"valid_senders": out.validSenders, "finalised": out.finalised})
		if out.fail != "" {
			t.Fatalf("C15 violated: n=%d k=%d verifier=member %d block %s\nschedule: %v\n%s", n, in.k, in.self, in.hash.String(), shape, out.fail)
		}
	})
}

// ---------- histories with a real accepted proposal in round0 ----------

func realiseCast(s *spec) (msg *model.ConsensusCastMessage, dropped string) {
	defer func() {
		if r := recover(); r != nil { // ConsensusHandler.Handle recovers and drops the message
			msg, dropped = nil, "decode_panic_recovered_by_handler"
		}
	}()
	m, e := cnet.UnMarshalConsensusCastMessage(s.castWire)
	if e != nil || m == nil {
		return nil, "decode_error"
	}
	return m, ""
}

func signPb(si model.SignInfo) *middleware_pb.SignData {
	v := si.GetVersion()
	return &middleware_pb.SignData{DataHash: si.GetDataHash().Bytes(), DataSign: si.GetSignature().Serialize(), SignMember: si.GetSignerID().Serialize(), Version: &v}
}

// mkCast builds one proposal message as wire bytes. Copies carry the same header and castor signature in
// another encoding (other bytes => other message id); foreign proposals carry another header signed by the castor.
func (in *instance) mkCast(t failer, src source, variant, tag string, original []byte) spec {
	s := spec{sender: -1, cast: variant, kind: "proposal:" + variant}
	enc := func(bh *types.BlockHeader, si model.SignInfo, groupID []byte, prove [][]byte) []byte {
		b, err := proto.Marshal(&middleware_pb.ConsensusCastMessage{Bh: types.BlockHeaderToPb(bh), Sign: signPb(si), GroupID: groupID, ProveHash: prove})
		if err != nil {
			t.Fatalf("harness: marshal proposal: %v", err)
		}
		return b
	}
	foreign := func(mut func(h *types.BlockHeader)) []byte {
		h := *in.bh
		h.Signature, h.Random = nil, nil
		mut(&h)
		h.Hash = h.GenHash()
		if h.Hash == in.hash {
			t.Fatalf("harness: foreign proposal has the same hash")
		}
		var forSign model.ConsensusCastMessage
		forSign.BH = h
		si, _ := model.NewSignInfo(in.castorSK, groupsig.DeserializeID(h.Castor), &forSign)
		return enc(&h, si, nil, nil)
	}
	clean := *in.bh
	clean.Signature, clean.Random = nil, nil
	switch variant {
	case "original":
		s.castWire = enc(&clean, in.castSign, nil, nil)
	case "identical_duplicate":
		s.castWire = append([]byte{}, original...)
	case "copy_groupid_field": // the unused optional field GroupID filled in
		s.castWire = enc(&clean, in.castSign, src.Bytes(tag+"_gid", src.Int(tag+"_gidlen", 1, 32)), nil)
	case "copy_unknown_field": // an unknown varint field (number 15) appended
		s.castWire = append(append([]byte{}, original...), 0x78, byte(src.Int(tag+"_unk", 0, 127)))
		s.castWire = append(s.castWire, 0x78, byte(src.Int(tag+"_unk2", 0, 127)))
	case "copy_prove_hashes": // the repeated field ProveHash filled in
		s.castWire = enc(&clean, in.castSign, nil, [][]byte{src.Bytes(tag+"_ph", 32)})
	case "equivocation": // same party key (height, parent, castor, prove value, tx tree, group), another block hash
		s.castWire = foreign(func(h *types.BlockHeader) {
			h.TotalQN += uint64(src.Int(tag+"_dqn", 1, 5))
			h.Nonce += uint64(src.Int(tag+"_dn", 0, 5))
		})
	case "other_block": // a proposal for another height by another castor
		s.castWire = foreign(func(h *types.BlockHeader) {
			h.Height += uint64(src.Int(tag+"_dh", 1, 3))
			h.Castor = src.Bytes(tag+"_castor", 32)
		})
	default:
		panic("cast variant " + variant)
	}
	return s
}

var earlyCastVariants = []string{"copy_groupid_field", "copy_groupid_field", "copy_unknown_field", "copy_prove_hashes", "identical_duplicate", "equivocation", "other_block"}

// genProposalSchedule: the verify-message schedule of genSchedule, embedded in a history in which round0
// first accepts the real proposal (and waits for the parent), then receives the early part mixed with
// re-sent / duplicated / foreign proposals, completes, and receives the late part (with a few more of them).
func genProposalSchedule(in *instance, src source, t *rapid.T) schedule {
	sc := genSchedule(in, src, t)
	early, late := append([]spec{}, sc.msgs[:sc.nEarly]...), append([]spec{}, sc.msgs[sc.nEarly:]...)
	// most histories get at least a few early verify messages
	if len(early) == 0 && len(late) > 1 && src.Int("force_early", 0, 2) > 0 {
		c := src.Int("force_early_n", 1, len(late)-1)
		early, late = late[:c], late[c:]
	}
	// the one malformed shape kept out of the early part (see genSchedule) stays out of it here too
	var keep []spec
	for _, m := range early {
		if strings.HasSuffix(m.kind, "oversize_id") {
			late = append(late, m)
		} else {
			keep = append(keep, m)
		}
	}
	early = keep
	orig := in.mkCast(t, src, "original", "orig", nil)
	for c, cnt := 0, src.Int("early_casts", 0, 3); c < cnt; c++ {
		v := rapid.SampledFrom(earlyCastVariants).Draw(t, fmt.Sprintf("early_cast%d", c))
		early = append(early, in.mkCast(t, src, v, fmt.Sprintf("ec%d", c), orig.castWire))
	}
	for c, cnt := 0, src.Int("late_casts", 0, 3)/3*src.Int("late_casts_n", 1, 2); c < cnt; c++ {
		v := rapid.SampledFrom(earlyCastVariants).Draw(t, fmt.Sprintf("late_cast%d", c))
		late = append(late, in.mkCast(t, src, v, fmt.Sprintf("lc%d", c), orig.castWire))
	}
	shuffle := func(l []spec, label string) []spec {
		idx := make([]int, len(l))
		for i := range idx {
			idx[i] = i
		}
		idx = rapid.Permutation(idx).Draw(t, label)
		out := make([]spec, len(l))
		for pos, i := range idx {
			out[pos] = l[i]
		}
		return out
	}
	early = append([]spec{orig}, shuffle(early, "early_order")...)
	late = shuffle(late, "late_order")
	// The proposal round0 holds at completion is the last one it processed (messages with an id it has
	// already seen are rejected). The block being signed is the real one, so the last effective proposal
	// of the early part must be the real header: otherwise a fresh copy follows (the castor / a member re-sends it).
	seen := map[string]bool{}
	lastReal := true
	for _, m := range early {
		if m.cast == "" || seen[string(m.castWire)] {
			continue
		}
		seen[string(m.castWire)] = true
		lastReal = m.cast != "equivocation" && m.cast != "other_block"
	}
	if !lastReal {
		for {
			c := in.mkCast(t, src, "copy_groupid_field", fmt.Sprintf("restore%d", len(seen)), orig.castWire)
			if !seen[string(c.castWire)] {
				early = append(early, c)
				break
			}
			seen[string(c.castWire)+"x"] = true
		}
	}
	sc.msgs = append(early, late...)
	sc.nEarly = len(early)
	sc.proposal = true
	return sc
}

func proposalClasses(sc schedule) []string {
	seen := map[string]bool{}
	var out []string
	add := func(c string) {
		if !seen[c] {
			seen[c] = true
			out = append(out, c)
		}
	}
	earlyVerify, earlyCasts := 0, 0
	for i, m := range sc.msgs {
		when := "late"
		if i < sc.nEarly {
			when = "early"
		}
		if m.cast != "" {
			if m.cast != "original" {
				add("proposal_history:" + m.cast + "," + when)
				if i < sc.nEarly {
					earlyCasts++
				}
			}
		} else if i < sc.nEarly {
			earlyVerify++
		}
	}
	add(fmt.Sprintf("proposal_history:early_extra_proposals=%d", earlyCasts))
	switch {
	case earlyVerify == 0:
		add("proposal_history:early_verify_messages=0")
	case earlyVerify <= 3:
		add("proposal_history:early_verify_messages=1-3")
	default:
		add("proposal_history:early_verify_messages=4+")
	}
	return out
}

// TestProposalHistories: the verifier's round0 has really accepted the proposal (round0.Update on the
// wire-decoded ConsensusCastMessage; the parent block is not on the chain, so it waits) and, before round0
// completes, receives re-sent proposals in other encodings, identical duplicates, proposals for another
// hash and early verify messages of all kinds; then round0 completes and the rest of the schedule arrives.
// Same oracle as TestShareCounting.
func TestProposalHistories(t *testing.T) {
	stats.Check(t, 260, 1200, func(t *rapid.T) {
		src := rapidSrc{t}
		n := src.Int("n", 5, 7)
		in := buildInstanceKeys(t, src, n, -1, -1, "real_proposal")
		sc := genProposalSchedule(in, src, t)
		out := run(in, sc)

		shape := render(in, sc)
		nt := ""
		if out.byzBeforeThresh > 0 {
			nt = fmt.Sprintf("P|%d|%d|%d|%v|%d|%s", n, in.self, sc.nEarly, in.missingOwn, in.missingOther, strings.Join(shape, ","))
		}
		classes := append([]string{"family:proposal_history"}, proposalClasses(sc)...)
		if out.finalised {
			classes = append(classes, "proposal_history:finalised")
		} else {
			classes = append(classes, "proposal_history:below_threshold")
		}
		stats.Case(nt, classes...)
		for d, c := range out.dropped {
			stats.Count("dropped:"+d, int64(c))
		}
		stats.Count("messages_delivered", int64(len(sc.msgs)))
		stats.Sample(map[string]interface{}{"family": "proposal_history", "n": n, "k": in.k, "self": in.self, "early": sc.nEarly, "schedule": shape,
			"valid_senders": out.validSenders, "finalised": out.finalised})
		if out.fail != "" {
			t.Fatalf("C15 violated: n=%d k=%d verifier=member %d block %s\nhistory: %v\n%s", n, in.k, in.self, in.hash.String(), shape, out.fail)
		}
	})
}

// TestResentProposalExample: proposal accepted (waiting for the parent), one faulty member re-sends it in
// another encoding, the parent arrives, k honest shares arrive: the block must finalise.
func TestResentProposalExample(t *testing.T) {
	for _, v := range []string{"copy_groupid_field", "copy_unknown_field", "copy_prove_hashes", "identical_duplicate"} {
		src := &fixedSrc{ctr: 808}
		in := buildInstanceKeys(t, src, 5, 0, 0, "real_proposal")
		var sc schedule
		orig := in.mkCast(t, src, "original", "orig", nil)
		sc.msgs = append(sc.msgs, orig, in.mkCast(t, src, v, "copy", orig.castWire))
		sc.nEarly, sc.proposal = 2, true
		for i := 0; i < in.k; i++ {
			sc.msgs = append(sc.msgs, in.mkSpec(src, "honest", i, fmt.Sprintf("h%d", i)))
		}
		out := run(in, sc)
		if out.fail != "" || !out.finalised {
			t.Fatalf("C15 violated: re-sent proposal (%s) while round0 waits for the parent: finalised=%v\nhistory: %v\n%s", v, out.finalised, render(in, sc), out.fail)
		}
	}
}

// ---------- histories through the Processor's early buffer ----------

var burstKinds = []string{"outsider_replay", "outsider_own_key", "bh_hash_sig_other", "other_hash", "other_hash_sig_bh", "replay_member",
	"foreign_point_sig", "beacon_other_value", "swapped_shares", "zero_id", "reencoded_copy", "reencoded_copy"}

type procSchedule struct {
	schedule
	cutProposal, cutCompleted int // early messages [0,cutProposal) arrive before the proposal, [cutProposal,cutCompleted) during round0, the rest before the re-registration
	burst                     int
	honestAfter10             int // valid early messages with >= 10 earlier early messages filed under the block hash
}

// genProcSchedule: genSchedule's messages, most of the valid ones early, plus a burst of 0..25 junk messages
// of ONE faulty sender filed under the block hash, placed before / inside / after the early honest shares.
func genProcSchedule(in *instance, src source, t *rapid.T) procSchedule {
	sc := genSchedule(in, src, t)
	var early, late []spec
	earlyBias := src.Int("early_bias", 0, 3) // 0: as drawn, else most messages early
	for i, m := range sc.msgs {
		if strings.HasSuffix(m.kind, "oversize_id") {
			late = append(late, m)
		} else if i < sc.nEarly || earlyBias > 0 && src.Int(fmt.Sprintf("to_early%d", i), 0, earlyBias) > 0 {
			early = append(early, m)
		} else {
			late = append(late, m)
		}
	}
	var ps procSchedule
	switch src.Int("burst_class", 0, 4) {
	case 0:
		ps.burst = 0
	case 1:
		ps.burst = src.Int("burst_small", 1, 9)
	case 2:
		ps.burst = 10
	default:
		ps.burst = src.Int("burst_big", 11, 25)
	}
	faulty := src.Int("burst_sender", -1, in.n-1)
	var burst []spec
	for i := 0; i < ps.burst; i++ {
		kind := rapid.SampledFrom(burstKinds).Draw(t, fmt.Sprintf("burst_kind%d", i))
		tag := fmt.Sprintf("b%d", i)
		var m spec
		switch {
		case kind == "reencoded_copy" && len(burst) > 0: // an earlier burst message once more, other bytes
			m = burst[src.Int(tag+"_of", 0, len(burst)-1)].copyAs("reencoded_copy")
			m.extra = append(append([]byte{}, m.extra...), 0x78, byte(src.Int(tag+"_x", 0, 127)))
		case kind == "reencoded_copy" || faulty < 0 && !strings.HasPrefix(kind, "outsider") && kind != "zero_id":
			m = in.mkSpec(src, "outsider_replay", -1, tag)
		default:
			b := faulty
			if strings.HasPrefix(kind, "outsider") || kind == "zero_id" {
				b = -1
			}
			m = in.mkSpec(src, kind, b, tag)
		}
		m.wire = true
		m.kind = "burst:" + m.kind
		burst = append(burst, m)
	}
	// position of the burst relative to the other early messages
	pos := 0
	switch src.Int("burst_position", 0, 3) {
	case 0:
		pos = 0
	case 1:
		pos = len(early)
	default:
		pos = src.Int("burst_at", 0, len(early))
	}
	merged := append(append(append([]spec{}, early[:pos]...), burst...), early[pos:]...)
	if src.Int("burst_interleave", 0, 3) == 0 && len(merged) > 1 { // a few swaps: shares inside the burst
		for c := 0; c < 4; c++ {
			i, j := src.Int(fmt.Sprintf("sw%da", c), 0, len(merged)-1), src.Int(fmt.Sprintf("sw%db", c), 0, len(merged)-1)
			merged[i], merged[j] = merged[j], merged[i]
		}
	}
	ps.schedule = sc
	ps.msgs = append(merged, late...)
	ps.nEarly = len(merged)
	ps.cutProposal = src.Int("cut_proposal", 0, ps.nEarly)
	if src.Int("all_before_proposal", 0, 1) == 0 {
		ps.cutProposal = ps.nEarly
	}
	ps.cutCompleted = src.Int("cut_completed", ps.cutProposal, ps.nEarly)
	filedHere := 0
	for i := 0; i < ps.nEarly; i++ {
		m := &ps.msgs[i]
		if m.filed == nil {
			if filedHere >= 10 && in.validFor(m) >= 0 {
				ps.honestAfter10++
			}
			filedHere++
		}
	}
	return ps
}

// runProcessor: every verify message enters through Processor.OnMessageVerify. Early ones are buffered by
// the Processor (no party is registered under the block hash yet); the party is registered under its initial
// key, round0 completes, the party is re-registered under the block hash and the buffered messages are
// replayed; late ones are routed to the party. The model counts a valid message when it is SENT; the
// comparison with the party is made whenever nothing is pending in the buffer.
func runProcessor(in *instance, ps procSchedule) (out outcome) {
	out.dropped = map[string]int{}
	r := &runner{in: in, valid: map[int]bool{}}
	defer func() {
		if p := recover(); p != nil {
			out.fail = fmt.Sprintf("panic escaped the node: %v", p)
		}
		out.finalised = r.finalised
		out.validSenders = len(r.valid)
	}()
	proc := logical.VerifC15NewProcessor(in.selfInfo, in.storage, in.chain, in.net)
	initialKey, realKey := common.ToHex(in.partyKey.Bytes()), common.ToHex(in.hash.Bytes())
	if realKey != in.hash.String() {
		out.fail = "harness: Hash.String() is not the routing key format"
		return
	}
	send := func(i int) {
		s := &ps.msgs[i]
		msg, dropped := in.realise(s)
		if dropped != "" {
			out.dropped[dropped]++
			return
		}
		v := in.validFor(s)
		if r.countable < in.k {
			if v < 0 {
				out.byzBeforeThresh++
			}
			out.kindsBeforeThres = append(out.kindsBeforeThres, s.kind)
		}
		proc.OnMessageVerify(msg)
		if v >= 0 && !r.valid[v] {
			r.valid[v] = true
			if in.registered[v] {
				r.countable++
			}
		}
	}
	for i := 0; i < ps.cutProposal; i++ {
		send(i)
	}
	proc.Register(in.party, initialKey) // the proposal arrives: party under its initial key, round0 running
	for i := ps.cutProposal; i < ps.cutCompleted; i++ {
		send(i)
	}
	in.party.FinishRound0(in.bh, in.preBH, in.group, true)
	for i := ps.cutCompleted; i < ps.nEarly; i++ {
		send(i)
	}
	for _, m := range proc.Rekey(in.party, initialKey, realKey) { // the node: one goroutine per message, any order
		in.party.Update(m)
	}
	if out.fail = r.check(fmt.Sprintf("after the re-registration under the block hash replayed the buffered ones of %d early messages (burst of %d)", ps.nEarly, ps.burst)); out.fail != "" {
		return
	}
	for i := ps.nEarly; i < len(ps.msgs); i++ {
		send(i)
		s := ps.msgs[i]
		if out.fail = r.check(fmt.Sprintf("after late message #%d (%s from %d)", i, s.kind, s.sender)); out.fail != "" {
			return
		}
	}
	return
}

// TestProcessorEarlyBuffer: see runProcessor. Same oracle as TestShareCounting.
func TestProcessorEarlyBuffer(t *testing.T) {
	stats.Check(t, 220, 1000, func(t *rapid.T) {
		src := rapidSrc{t}
		n := src.Int("n", 5, 7)
		in := buildInstance(t, src, n)
		ps := genProcSchedule(in, src, t)
		out := runProcessor(in, ps)

		shape := render(in, ps.schedule)
		nt := ""
		if out.byzBeforeThresh > 0 {
			nt = fmt.Sprintf("Q|%d|%d|%d|%d|%d|%v|%d|%s", n, in.self, ps.nEarly, ps.cutProposal, ps.cutCompleted, in.missingOwn, in.missingOther, strings.Join(shape, ","))
		}
		classes := []string{"family:processor_early_buffer"}
		switch {
		case ps.burst == 0:
			classes = append(classes, "early_buffer:burst=0")
		case ps.burst < 10:
			classes = append(classes, "early_buffer:burst=1-9")
		case ps.burst == 10:
			classes = append(classes, "early_buffer:burst=10")
		default:
			classes = append(classes, "early_buffer:burst=11-25")
		}
		switch {
		case ps.honestAfter10 == 0:
			classes = append(classes, "early_buffer:valid_early_shares_after_10_earlier_messages=0")
		case ps.honestAfter10 < 3:
			classes = append(classes, "early_buffer:valid_early_shares_after_10_earlier_messages=1-2")
		default:
			classes = append(classes, "early_buffer:valid_early_shares_after_10_earlier_messages=3+")
		}
		switch {
		case ps.cutProposal == ps.nEarly:
			classes = append(classes, "early_buffer:all_early_before_proposal")
		default:
			classes = append(classes, "early_buffer:early_split_around_round0")
		}
		if out.finalised {
			classes = append(classes, "early_buffer:finalised")
		} else {
			classes = append(classes, "early_buffer:below_threshold")
		}
		stats.Case(nt, classes...)
		for d, c := range out.dropped {
			stats.Count("dropped:"+d, int64(c))
		}
		stats.Count("messages_delivered", int64(len(ps.msgs)))
		stats.Sample(map[string]interface{}{"family": "processor_early_buffer", "n": n, "k": in.k, "self": in.self, "early": ps.nEarly, "burst": ps.burst,
			"before_proposal": ps.cutProposal, "before_completion": ps.cutCompleted, "schedule": shape, "valid_senders": out.validSenders, "finalised": out.finalised})
		if out.fail != "" {
			t.Fatalf("C15 violated: n=%d k=%d verifier=member %d block %s\nearly [0,%d) before the proposal, [%d,%d) during round0, [%d,%d) before the re-registration; burst of %d from one sender\nhistory: %v\n%s",
				n, in.k, in.self, in.hash.String(), ps.cutProposal, ps.cutProposal, ps.cutCompleted, ps.cutCompleted, ps.nEarly, ps.burst, shape, out.fail)
		}
	})
}

// ---------- probe for the recorded finding (hand-written minimal schedule) ----------

// TestProbeOtherHashShare: n=5, k=3. Member 0 sends a share that is well signed over ANOTHER hash,
// filed under bh.Hash; members 1 and 2 send honest shares. The defect is present if member 0's
// share is counted (the recovered signature is then invalid and round2.checkSignature fails).
func TestProbeOtherHashShare(t *testing.T) {
	mk := func() (*instance, schedule) {
		src := &fixedSrc{}
		in := buildInstanceKeys(t, src, 5, 0, 0)
		var sc schedule
		bad := in.mkSpec(src, "other_hash", 0, "probe_bad")
		bad.wire = true
		sc.msgs = append(sc.msgs, bad)
		for _, i := range []int{1, 2, 0} { // member 0's honest share arrives too, after the threshold
			h := in.mkSpec(src, "honest", i, fmt.Sprintf("probe_h%d", i))
			h.wire = true
			sc.msgs = append(sc.msgs, h)
		}
		return in, sc
	}
	in, sc := mk()
	out := run(in, sc)
	present := out.fail != ""
	consequence := ""
	if present {
		if !strings.Contains(out.fail, "block-signature share set holds a share of member 0") {
			t.Fatalf("probe failed in an unexpected way: %s", out.fail)
		}
		// what the node does with it: same schedule, no oracle in between
		in2, sc2 := mk()
		in2.party.FinishRound0(in2.bh, in2.preBH, in2.group, false)
		var errs []string
		doneSeen := false
		for i := range sc2.msgs {
			m, _ := in2.realise(&sc2.msgs[i])
			in2.party.Update(m)
			d, e := in2.party.Drain()
			doneSeen = doneSeen || d
			if e != "" {
				errs = append(errs, fmt.Sprintf("after message #%d: %s", i, e))
			}
		}
		added := false
		select {
		case <-in2.chain.added:
			added = true
		default:
		}
		consequence = fmt.Sprintf("; without the oracle in between: party errors %q, Done=%v, block handed to the chain=%v, checkSignature=%q", errs, doneSeen, added, in2.party.CheckSignature())
	}
	what := "round1.Update (consensus/logical/round_sign_piece.go) checks SignInfo.VerifySign(pk) against the data hash carried in the message and never compares it with bh.Hash: " +
		"a member's share that is well signed over another hash and filed under BlockHash=bh.Hash enters the share set; " +
		"with n=5,k=3 and deliveries [member0: share over other hash, member1 honest, member2 honest, member0 honest] -> " + out.fail + consequence
	stats.Probe(t, findingOtherHash, "C15", present, what)
	if !present && !out.finalised {
		t.Fatalf("probe: the block did not finalise although 3 honest shares arrived")
	}
}

// TestHonestOnly is the plain liveness example: k honest messages in member order finalise the block.
func TestHonestOnly(t *testing.T) {
	for n := 5; n <= 7; n++ {
		src := &fixedSrc{ctr: uint64(1000 * n)}
		in := buildInstanceKeys(t, src, n, 0, 0)
		var sc schedule
		for i := 0; i < in.k; i++ {
			sc.msgs = append(sc.msgs, in.mkSpec(src, "honest", i, fmt.Sprintf("h%d", i)))
		}
		out := run(in, sc)
		if out.fail != "" || !out.finalised {
			t.Fatalf("n=%d: %d honest messages: finalised=%v %s", n, in.k, out.finalised, out.fail)
		}
	}
}

// TestForgedVerifierIdExample: the verifier has no share public key registered for itself; a message that
// names the verifier as signer (data hash = bh.Hash, arbitrary valid G1 points) arrives while the party is
// still in round0 (and once more late), then every member's honest message. The forged shares must not be
// counted and the block must finalise with the other members' shares.
func TestForgedVerifierIdExample(t *testing.T) {
	for _, kind := range []string{"claim_verifier_foreign_points", "claim_verifier_replay", "claim_verifier_other_key"} {
		for early := 0; early <= 1; early++ {
			src := &fixedSrc{ctr: 77}
			in := buildInstanceKeys(t, src, 5, 1, 0)
			var sc schedule
			sc.msgs = append(sc.msgs, in.mkSpec(src, kind, -1, "forged"))
			sc.nEarly = early
			sc.msgs = append(sc.msgs, in.mkSpec(src, "honest", in.self, "own"))
			for i := 0; i < in.n; i++ {
				if i != in.self {
					sc.msgs = append(sc.msgs, in.mkSpec(src, "honest", i, fmt.Sprintf("h%d", i)))
				}
			}
			out := run(in, sc)
			if out.fail != "" || !out.finalised {
				t.Fatalf("C15 violated: %s early=%d verifier=member %d without its own share key registered: finalised=%v\nschedule: %v\n%s",
					kind, early, in.self, out.finalised, render(in, sc), out.fail)
			}
		}
	}
}

// TestConsistentOtherHashExample: a member sends a message that is consistently about another hash X
// (BlockHash = data hash = X, its real share over X, valid beacon share), X = the party's initial key /
// a sibling block / the previous block, while the party is in round0 or afterwards; then every member's
// honest message. The foreign share must not be counted and the block must finalise.
func TestConsistentOtherHashExample(t *testing.T) {
	for _, kind := range []string{"about_party_key", "about_sibling_block", "about_previous_block", "about_random_hash"} {
		for early := 0; early <= 1; early++ {
			src := &fixedSrc{ctr: 4242}
			in := buildInstanceKeys(t, src, 5, 0, 0)
			var sc schedule
			sc.msgs = append(sc.msgs, in.mkSpec(src, kind, 0, "foreign"))
			sc.nEarly = early
			for i := 0; i < in.n; i++ {
				sc.msgs = append(sc.msgs, in.mkSpec(src, "honest", i, fmt.Sprintf("h%d", i)))
			}
			out := run(in, sc)
			if out.fail != "" || !out.finalised {
				t.Fatalf("C15 violated: %s early=%d: finalised=%v\nschedule: %v\n%s", kind, early, out.finalised, render(in, sc), out.fail)
			}
		}
	}
}

var _ = sort.Strings
