package c11

import (
	"bytes"
	"encoding/binary"
	"fmt"
	"testing"

	"pgregory.net/rapid"

	"verifharness/internal/evmh"
	"verifharness/internal/stats"
)

// A "jumpy" init code: a chain of forward jumps over junk that contains 0x5b bytes inside PUSH data,
// ending in the deployment of a one-byte runtime. With bad=true one jump targets a 0x5b that sits
// inside PUSH data (must fail as a bad jump).
func genJumpyInit(t *rapid.T, label string) (code []byte, bad bool) {
	var c []byte
	nJumps := rapid.IntRange(1, 4).Draw(t, label+"_nJumps")
	badAt := -1
	if rapid.IntRange(0, 3).Draw(t, label+"_bad") == 0 {
		badAt = rapid.IntRange(0, nJumps-1).Draw(t, label+"_badAt")
	}
	for j := 0; j < nJumps; j++ {
		patch := len(c) + 1
		c = append(c, 0x61, 0, 0, 0x56) // PUSH2 <target> JUMP
		dataPos := -1
		for k, n := 0, rapid.IntRange(0, 6).Draw(t, label+"_junk"); k < n; k++ {
			switch rapid.IntRange(0, 2).Draw(t, label+"_junkKind") {
			case 0:
				c = append(c, 0x60, 0x5b, 0x50) // PUSH1 0x5b POP
				dataPos = len(c) - 2
			case 1:
				c = append(c, 0x7f)
				dataPos = len(c) + rapid.IntRange(0, 31).Draw(t, label+"_in32")
				c = append(c, bytes.Repeat([]byte{0x5b}, 32)...)
				c = append(c, 0x50) // PUSH32 5b..5b POP
			default:
				c = append(c, 0x5b) // a real JUMPDEST in dead code
			}
		}
		target := len(c)
		c = append(c, 0x5b) // JUMPDEST
		if j == badAt && dataPos >= 0 {
			target = dataPos
			bad = true
		}
		binary.BigEndian.PutUint16(c[patch:], uint16(target))
	}
	// deploy runtime 0x01: MSTORE8(0,1); RETURN(0,1)
	c = append(c, 0x60, 0x01, 0x60, 0x00, 0x53, 0x60, 0x01, 0x60, 0x00, 0xf3)
	return c, bad
}

func push2(v int) []byte { return []byte{0x61, byte(v >> 8), byte(v)} }

// parentCreating builds a contract that CREATEs each of the init codes in order and returns the
// resulting addresses (zero = failed), 32 bytes each.
func parentCreating(inits ...[]byte) []byte {
	// per init: PUSH2 len PUSH2 off PUSH2 0 CODECOPY PUSH2 len PUSH2 0 PUSH2 0 CREATE  = 3*6+2 = 20 bytes
	// epilogue per result: PUSH2 memoff MSTORE (4 bytes), then PUSH2 n*32 PUSH2 0x100 RETURN (7 bytes)
	progLen := 20*len(inits) + 4*len(inits) + 7
	var prog []byte
	off := progLen
	for _, in := range inits {
		prog = append(prog, push2(len(in))...)
		prog = append(prog, push2(off)...)
		prog = append(prog, push2(0)...)
		prog = append(prog, 0x39) // CODECOPY
		prog = append(prog, push2(len(in))...)
		prog = append(prog, push2(0)...)
		prog = append(prog, push2(0)...)
		prog = append(prog, 0xf0) // CREATE -> address stays on the stack
		off += len(in)
	}
	for i := len(inits) - 1; i >= 0; i-- {
		prog = append(prog, push2(0x100+32*i)...)
		prog = append(prog, 0x52) // MSTORE
	}
	prog = append(prog, push2(32*len(inits))...)
	prog = append(prog, push2(0x100)...)
	prog = append(prog, 0xf3)
	if len(prog) != progLen {
		panic(fmt.Sprintf("parent program length %d != %d", len(prog), progLen))
	}
	for _, in := range inits {
		prog = append(prog, in...)
	}
	return prog
}

// TestCreateSequencesIndependent: init codes run through CREATE have no code hash; whatever the
// interpreter remembers about one of them (jump-destination analysis) must not affect a later,
// different init code of the same call tree. Oracle: the outcome of every CREATE in a sequence equals
// the outcome of the same init code created alone; bad jumps fail; nothing panics.
func TestCreateSequencesIndependent(t *testing.T) {
	stats.Check(t, 1500, 12000, func(t *rapid.T) {
		evmh.SetProposalsUpTo(rapid.SampledFrom([]int{13, 14, 22, 26, 99}).Draw(t, "config"))
		n := rapid.IntRange(2, 3).Draw(t, "nCreates")
		var inits [][]byte
		var bads []bool
		for i := 0; i < n; i++ {
			c, b := genJumpyInit(t, fmt.Sprintf("init%d", i))
			inits = append(inits, c)
			bads = append(bads, b)
		}
		gas := uint64(1) << 46 // a failed CREATE burns 63/64 of what is left: keep plenty for up to three of them
		alone := make([]bool, n)
		for i, in := range inits {
			st := evmh.NewState()
			r := evmh.Create(st, evmh.NewContext(evmh.Origin, gas), evmh.Origin, in, gas, nil)
			if r.Panicked() {
				t.Fatalf("CREATE of init code %x alone panicked: %v", in, r.Panic)
			}
			alone[i] = r.Err == nil
			if bads[i] && alone[i] {
				t.Fatalf("init code that jumps into PUSH data was created successfully alone: %x", in)
			}
			if !bads[i] && !alone[i] {
				t.Fatalf("well-formed jumping init code failed alone (%v): %x", r.Err, in)
			}
		}
		st := evmh.NewState()
		evmh.Install(st, evmh.Contract, parentCreating(inits...))
		r := evmh.Call(st, evmh.NewContext(evmh.Origin, gas), evmh.Origin, evmh.Contract, nil, gas, nil)
		if r.Panicked() {
			t.Fatalf("a frame creating %d contracts in sequence crashed the host: %v\ninit codes: %x", n, r.Panic, inits)
		}
		if r.Err != nil || len(r.Ret) != 32*n {
			t.Fatalf("parent frame failed: err=%v ret=%x", r.Err, r.Ret)
		}
		lens := ""
		for i := range inits {
			created := !bytes.Equal(r.Ret[32*i:32*i+32], make([]byte, 32))
			if created != alone[i] {
				t.Fatalf("CREATE #%d in a sequence of %d has outcome created=%v, but the same init code alone gives created=%v (bad jump in it: %v)\ninit codes: %x",
					i, n, created, alone[i], bads[i], inits)
			}
			lens += fmt.Sprintf("%d%v,", len(inits[i])/8, bads[i])
		}
		stats.Case("createseq:"+lens, "family:create_sequence")
		if len(inits[0]) < 40 {
			stats.Sample(map[string]interface{}{"family": "create_sequence", "inits": fmt.Sprintf("%x", inits)})
		}
	})
}
