package c11

import (
	"fmt"
	"testing"

	"verifharness/internal/evmh"
)

func TestScratch(t *testing.T) {
	evmh.Boot()
	for _, cfg := range []int{13, 14, 22, 26, 99} {
		evmh.SetProposalsUpTo(cfg)
		// BLOBHASH
		r := evmh.RunCode([]byte{0x60, 0x00, 0x49, 0x00}, nil, 100000)
		fmt.Printf("cfg=%d BLOBHASH: err=%v panic=%v left=%d\n", cfg, r.Err, r.Panic, r.GasLeft)
		// AUTH: mem=64, offset 40, len 128
		code := []byte{0x60, 0x00, 0x60, 0x20, 0x52, 0x60, 0x80, 0x60, 0x28, 0x30, 0xf6, 0x00}
		r = evmh.RunCode(code, nil, 1000000)
		fmt.Printf("cfg=%d AUTH: err=%v panic=%v left=%d\n", cfg, r.Err, r.Panic, r.GasLeft)
		// CHAINID etc
		for _, op := range []byte{0x46, 0x47, 0x48, 0x4a, 0x3a, 0x41, 0x42, 0x43, 0x44, 0x45} {
			r = evmh.RunCode([]byte{op, 0x00}, nil, 100000)
			fmt.Printf("cfg=%d op=%02x: err=%v panic=%v left=%d\n", cfg, op, r.Err, r.Panic, r.GasLeft)
		}
	}
}
