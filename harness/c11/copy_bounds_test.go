package c11

import (
	"fmt"
	"math/big"
	"testing"

	"pgregory.net/rapid"

	"verifharness/internal/evmh"
	"verifharness/internal/stats"
)

var cbTwo64 = new(big.Int).Lsh(big.NewInt(1), 64)

func pushBig(v *big.Int) []byte {
	b := v.Bytes()
	if len(b) == 0 {
		b = []byte{0}
	}
	return append([]byte{byte(0x5f + len(b))}, b...)
}

// genEdge draws an operand at the edges where "offset + length" arithmetic in 64 bits wraps or a bound is
// crossed: around 0, the available data length n, 2^32, 2^63, 2^64 and 2^256.
func genEdge(t *rapid.T, label string, n int64) *big.Int {
	d := int64(rapid.IntRange(-33, 33).Draw(t, label+"_delta"))
	var base *big.Int
	switch rapid.IntRange(0, 6).Draw(t, label+"_base") {
	case 0:
		base = big.NewInt(0)
	case 1:
		base = big.NewInt(n)
	case 2:
		base = new(big.Int).Lsh(big.NewInt(1), 32)
	case 3:
		base = new(big.Int).Lsh(big.NewInt(1), 63)
	case 4:
		base = new(big.Int).Set(cbTwo64)
	case 5:
		base = new(big.Int).Sub(new(big.Int).Lsh(big.NewInt(1), 256), big.NewInt(34))
	default:
		base = big.NewInt(int64(rapid.IntRange(0, 200).Draw(t, label+"_small")))
	}
	v := new(big.Int).Add(base, big.NewInt(d))
	if v.Sign() < 0 {
		v.Neg(v)
	}
	return v
}

// TestCopyOperandBounds: the data-offset and length operands of the copy opcodes at the edges of the
// 64-bit range, with a small memory offset so that the expansion is affordable. Whatever the operands,
// the frame returns: RETURNDATACOPY beyond the return-data buffer is an ordinary failure, the others
// zero-fill; nothing may panic, and the common gas invariants hold.
func TestCopyOperandBounds(t *testing.T) {
	stats.Check(t, 4000, 30000, func(t *rapid.T) {
		evmh.SetProposalsUpTo(rapid.SampledFrom([]int{13, 14, 22, 26, 99}).Draw(t, "config"))
		op := rapid.SampledFrom([]struct {
			name string
			code byte
		}{{"CALLDATACOPY", 0x37}, {"CODECOPY", 0x39}, {"EXTCODECOPY", 0x3c}, {"RETURNDATACOPY", 0x3e}, {"MCOPY", 0x5e}, {"CALLDATALOAD", 0x35}}).Draw(t, "op")
		var code []byte
		retN := int64(0)
		if rapid.Bool().Draw(t, "fillReturnData") {
			// STATICCALL(gas, 0x04 identity, in 0, insize N, out 0, outsize 0): leaves N bytes of return data
			retN = int64(rapid.SampledFrom([]int{1, 16, 32, 33, 64}).Draw(t, "retN"))
			code = append(code, 0x60, 0, 0x60, 0, 0x60, byte(retN), 0x60, 0, 0x60, 4, 0x5a, 0xfa, 0x50)
		}
		input := make([]byte, rapid.SampledFrom([]int{0, 1, 32, 33}).Draw(t, "calldataLen"))
		avail := retN
		if op.name == "CALLDATACOPY" || op.name == "CALLDATALOAD" {
			avail = int64(len(input))
		}
		dataOff := genEdge(t, "dataOff", avail)
		length := genEdge(t, "len", avail)
		// keep the memory expansion affordable: lengths beyond 64 KiB only together with the data offset edge
		memOff := big.NewInt(int64(rapid.SampledFrom([]int{0, 1, 31, 32, 100}).Draw(t, "memOff")))
		bigLen := length.Cmp(big.NewInt(1<<16)) > 0
		switch op.name {
		case "CALLDATALOAD":
			code = append(code, pushBig(dataOff)...)
			code = append(code, op.code, 0x50)
		case "EXTCODECOPY":
			code = append(code, pushBig(length)...)
			code = append(code, pushBig(dataOff)...)
			code = append(code, pushBig(memOff)...)
			code = append(code, 0x30, op.code) // ADDRESS
		case "MCOPY":
			code = append(code, pushBig(length)...)
			code = append(code, pushBig(dataOff)...) // source offset in memory
			code = append(code, pushBig(memOff)...)
			code = append(code, op.code)
		default:
			code = append(code, pushBig(length)...)
			code = append(code, pushBig(dataOff)...)
			code = append(code, pushBig(memOff)...)
			code = append(code, op.code)
		}
		code = append(code, 0x00)
		gas := uint64(50000000)
		res := evmh.RunCode(code, input, gas)
		if res.Panicked() {
			t.Fatalf("%s(mem=%s, data=%s, len=%s) with %d bytes of return data crashed the host: %v\ncode %x", op.name, memOff, dataOff, length, retN, res.Panic, code)
		}
		k := evmh.Kind(res.Err)
		if res.GasLeft > gas {
			t.Fatalf("leftOverGas %d > gas %d", res.GasLeft, gas)
		}
		if exceptionalKinds[k] && res.GasLeft != 0 {
			t.Fatalf("exceptional halt (%s) returned %d gas", k, res.GasLeft)
		}
		if k == evmh.KindOther {
			t.Fatalf("%s failed with an error outside the documented surface: %v", op.name, res.Err)
		}
		if op.name == "RETURNDATACOPY" && !bigLen {
			end := new(big.Int).Add(dataOff, length)
			within := end.Cmp(big.NewInt(retN)) <= 0
			jumpTableHasIt := true
			if k == evmh.KindInvalidOpcode {
				jumpTableHasIt = false
			}
			if jumpTableHasIt && within && k != evmh.KindOK {
				t.Fatalf("RETURNDATACOPY(data=%s,len=%s) within %d bytes of return data failed: %v", dataOff, length, retN, res.Err)
			}
			if jumpTableHasIt && !within && k == evmh.KindOK {
				t.Fatalf("RETURNDATACOPY(data=%s,len=%s) beyond %d bytes of return data succeeded", dataOff, length, retN)
			}
		}
		wraps := new(big.Int).Add(dataOff, length).Cmp(cbTwo64) >= 0 && dataOff.Cmp(cbTwo64) < 0 && length.Cmp(cbTwo64) < 0
		key := ""
		if wraps || dataOff.Cmp(big.NewInt(avail)) >= 0 {
			key = fmt.Sprintf("copy:%s:%s:%s:%d:%s", op.name, dataOff, length, retN, k)
		}
		cls := "copy_no_wrap"
		if wraps {
			cls = "copy_offset_plus_len_crosses_2^64"
		}
		stats.Case(key, "family:copy_bounds", "copy:"+op.name+":"+k, cls)
	})
}
