package c11

import (
	"fmt"
	"math/big"
	"testing"

	"pgregory.net/rapid"

	"com.tuntun.rangers/node/src/common"

	"verifharness/internal/evmh"
	"verifharness/internal/stats"
)

// Write attempts in a read-only context: a frame entered through a static call first runs a generated
// sequence of harmless sub-calls (static calls, plain calls without value, delegate calls and call codes to a
// contract, to itself-less targets, to precompiles and to an address without code - all of which return to
// it), possibly grows memory and jumps, and then attempts one state-modifying instruction. Whatever came
// before, the attempt must surface as the ordinary "write protection" failure of that frame (all gas gone).
func TestWriteInStaticContextAfterSubcalls(t *testing.T) {
	stats.Check(t, 5000, 50000, func(t *rapid.T) {
		cfgIdx, c := genConfig(t)
		var a asm
		nCalls := rapid.IntRange(0, 4).Draw(t, "nSubcalls")
		desc := ""
		for i := 0; i < nCalls; i++ {
			kind := rapid.SampledFrom([]struct {
				name string
				op   byte
			}{{"STATICCALL", 0xfa}, {"STATICCALL", 0xfa}, {"CALL", 0xf1}, {"DELEGATECALL", 0xf4}, {"CALLCODE", 0xf2}}).Draw(t, "subKind")
			target := rapid.SampledFrom([]struct {
				name string
				addr common.Address
			}{{"contract", childA}, {"no_code", ghost}, {"identity", precompileAddress(4)}, {"sha256", precompileAddress(2)}}).Draw(t, "subTarget")
			a.pushU(0).pushU(0).pushU(uint64(rapid.SampledFrom([]int{0, 3, 32}).Draw(t, "subIn"))).pushU(0)
			if kind.op == 0xf1 || kind.op == 0xf2 {
				a.pushU(0) // no value
			}
			a.push(new(big.Int).SetBytes(target.addr.Bytes()))
			a.op(0x5a, kind.op, 0x50) // GAS <call> POP
			desc += fmt.Sprintf("%s(%s);", kind.name, target.name)
		}
		if rapid.Bool().Draw(t, "touchMemory") {
			a.pushU(1).pushU(uint64(rapid.SampledFrom([]int{0, 64, 1000}).Draw(t, "memAt"))).op(0x52)
			desc += "MSTORE;"
		}
		w := rapid.SampledFrom([]struct {
			name string
			op   byte
			pops int
		}{{"SSTORE", 0x55, 2}, {"LOG0", 0xa0, 2}, {"LOG1", 0xa1, 3}, {"LOG4", 0xa4, 6}, {"CREATE", 0xf0, 3}, {"CREATE2", 0xf5, 4},
			{"SELFDESTRUCT", 0xff, 1}, {"CALL_with_value", 0xf1, 7}, {"TSTORE", 0x5d, 2}}).Draw(t, "write")
		if !c.defined(w.op) {
			stats.Case("", "static_write:opcode_not_in_this_fork")
			return
		}
		switch w.name {
		case "CALL_with_value":
			a.pushU(0).pushU(0).pushU(0).pushU(0).pushU(1).push(new(big.Int).SetBytes(ghost.Bytes())).op(0x5a)
		default:
			for i := 0; i < w.pops; i++ {
				a.pushU(uint64(rapid.SampledFrom([]int{0, 0, 1, 7}).Draw(t, "wOperand")))
			}
		}
		a.op(w.op, 0x00)
		desc += w.name
		s := &runSpec{cfgIdx: cfgIdx, entry: "static", code: a.b, input: []byte{1, 2, 3}, gas: 50_000_000, extra: map[common.Address][]byte{childA: childACode}}
		res := execute(s)
		k := checkCommon(t, s, res)
		if k != evmh.KindWriteProtect {
			t.Fatalf("a %s attempted in a frame entered by a static call, after [%s], did not fail with write protection: outcome %s (%v), gas left %d\n%s",
				w.name, desc, k, res.Err, res.GasLeft, s)
		}
		key := ""
		if nCalls > 0 {
			key = fmt.Sprintf("static_write|%s|%s", c.name, desc)
		}
		stats.Case(key, "family:static_write", "static_write:"+w.name, fmt.Sprintf("static_write_after_subcalls_%d", nCalls))
	})
}

// Code that ends inside the immediate data of a PUSH, at every code length and for every PUSH width, executed
// far enough to need the jump-destination analysis of the whole code (a taken jump): as contract code and as
// init code. The frame ends as an ordinary call; nothing may crash the host.
func TestTruncatedPushAtEndOfCode(t *testing.T) {
	stats.Check(t, 6000, 60000, func(t *rapid.T) {
		cfgIdx, _ := genConfig(t)
		total := rapid.IntRange(6, 200).Draw(t, "codeLen")
		if rapid.IntRange(0, 2).Draw(t, "alignedLen") == 0 {
			total = 8 * rapid.IntRange(1, 40).Draw(t, "codeLen8")
		}
		n := rapid.IntRange(1, 32).Draw(t, "pushWidth")
		have := rapid.IntRange(0, n-1).Draw(t, "dataBytesPresent")
		if rapid.IntRange(0, 2).Draw(t, "bare") == 0 {
			have = 0
		}
		if total < 5+1+have {
			total = 5 + 1 + have
		}
		code := []byte{0x60, 0x04, 0x56, 0x00, 0x5b} // PUSH1 4 JUMP STOP JUMPDEST
		for len(code) < total-1-have {
			code = append(code, rapid.SampledFrom([]byte{0x00, 0x5b, 0x5b, 0x01}).Draw(t, "filler"))
		}
		// the filler must stop before the trailing PUSH: make the byte after the JUMPDEST a STOP
		code[5%len(code)] = code[5%len(code)]
		if len(code) > 5 {
			code[5] = 0x00
		}
		code = append(code, byte(0x5f+n))
		code = append(code, rapid.SliceOfN(rapid.Byte(), have, have).Draw(t, "pushData")...)
		entry := rapid.SampledFrom([]string{"call", "create", "static"}).Draw(t, "entry")
		s := &runSpec{cfgIdx: cfgIdx, entry: entry, code: code, input: nil, gas: 5_000_000, extra: map[common.Address][]byte{childA: childACode}}
		res := execute(s)
		k := checkCommon(t, s, res)
		if k != evmh.KindOK {
			t.Fatalf("a program that jumps to a JUMPDEST followed by STOP, with a PUSH%d cut off after %d data bytes at the end of its %d bytes of code, ended with %s (%v)\n%s", n, have, len(code), k, res.Err, s)
		}
		stats.Case(fmt.Sprintf("truncpush|%d|%d|%d|%s", len(code), n, have, entry), "family:truncated_push_at_end", fmt.Sprintf("truncpush_len_mod8_%d", len(code)%8))
	})
}
