package c11

import (
	"bytes"
	"fmt"
	"testing"

	"com.tuntun.rangers/node/src/vm"

	"verifharness/internal/evmh"
	"verifharness/internal/stats"
)

// TestPrecompileLengthSweep is the deterministic companion of TestPrecompileDirect on the length axis: every
// precompile is priced (RequiredGas) and called with less gas than its price for EVERY input length 0..1300 and
// for every whole number of its input units (pairs / blocks / words) from 0 to 300, +-1 byte, zero-filled and
// 0xff-filled. Pricing and refusing must not panic whatever the length, a refused call returns nothing and no gas,
// and the input is left alone. (Calls with enough gas are the business of TestPrecompileDirect.)
func TestPrecompileLengthSweep(t *testing.T) {
	calls := 0
	for n := uint64(1); n <= 18; n++ {
		p := precompileAt(n)
		if p == nil {
			t.Fatalf("no precompile at address %d", n)
		}
		lens := map[int]bool{}
		for l := 0; l <= 1300; l++ {
			lens[l] = true
		}
		u := precompileUnit(n)
		for k := 0; k <= 300; k++ {
			for _, d := range []int{-1, 0, 1} {
				if l := k*u + d; l >= 0 {
					lens[l] = true
				}
			}
		}
		for l := range lens {
			for _, fill := range []byte{0x00, 0xff} {
				in := bytes.Repeat([]byte{fill}, l)
				if n == 5 && fill == 0xff && l >= 96 {
					// modexp: declared lengths of 2^256-1 are priced by formula without allocating; keep them, they are
					// covered by the direct test as well
					_ = in
				}
				var cost uint64
				func() {
					defer func() {
						if r := recover(); r != nil {
							t.Fatalf("C11 violated: Go panic in RequiredGas of precompile %d for %d input bytes of %#02x (%d units of %d bytes %+d): %v", n, l, fill, l/u, u, l-l/u*u, r)
						}
					}()
					cost = p.RequiredGas(in)
				}()
				if cost == 0 {
					continue
				}
				var (
					ret  []byte
					left uint64
					err  error
				)
				func() {
					defer func() {
						if r := recover(); r != nil {
							t.Fatalf("C11 violated: Go panic escaped RunPrecompiledContract(%d) for %d input bytes of %#02x with gas %d < price %d: %v", n, l, fill, cost-1, cost, r)
						}
					}()
					ret, left, err = vm.RunPrecompiledContract(p, in, cost-1)
				}()
				if evmh.Kind(err) != evmh.KindOutOfGas || left != 0 || ret != nil {
					t.Fatalf("C11 violated: precompile %d, %d input bytes, gas %d < price %d: outcome (err=%v, left=%d, ret=%x), want out of gas", n, l, cost-1, cost, err, left, ret)
				}
				calls++
			}
		}
		stats.Case(fmt.Sprintf("presweep|%d", n), "precompile_length_sweep")
	}
	stats.Count("precompile_length_sweep_calls", int64(calls))
}
