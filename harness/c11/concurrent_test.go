package c11

import (
	"bytes"
	"fmt"
	"sync"
	"testing"
	"time"

	"pgregory.net/rapid"

	"com.tuntun.rangers/node/src/common"

	"verifharness/internal/evmh"
	"verifharness/internal/ref"
	"verifharness/internal/stats"
)

// A node runs several EVMs at the same time (block execution, eth_call and estimateGas requests): every run
// has its own state, context and EVM object, and "running any byte string ... terminates without crashing the
// host" with the stated gas bounds must hold for each of them whatever the others are doing. The check runs a
// generated set of programs first alone (and, for the hashing programs, against a result computed without the
// node: a chain of Keccak-256 over a modelled memory), then all of them at the same time from several
// goroutines, each many times over: no run may panic, and every run must end exactly as it did alone
// (same return data, same gas left, same kind of error).

type hashProg struct {
	seed  []byte // call data copied to memory offset 0
	steps []hashStep
	loops int
	out   int // bytes returned from offset 0
}

type hashStep struct{ off, length, dst int }

func (p *hashProg) code() []byte {
	var a asm
	a.pushU(uint64(len(p.seed))).pushU(0).pushU(0).op(0x37) // CALLDATACOPY(0, 0, len)
	a.pushW(bu(uint64(p.loops)), 2)
	loop := a.pc()
	a.op(0x5b)
	for _, s := range p.steps {
		a.pushU(uint64(s.length)).pushU(uint64(s.off)).op(0x20) // SHA3(off, length)
		a.pushU(uint64(s.dst)).op(0x52)                         // MSTORE(dst, hash)
	}
	a.pushU(1).op(0x90, 0x03)                      // counter-1
	a.op(0x80).pushW(bu(uint64(loop)), 2).op(0x57) // DUP1 PUSH2 loop JUMPI
	a.op(0x50)
	a.pushU(uint64(p.out)).pushU(0).op(0xf3)
	return a.b
}

// expected runs the program on a byte-slice memory with the harness' own Keccak-256.
func (p *hashProg) expected() []byte {
	mem := make([]byte, 0)
	grow := func(n int) {
		n = (n + 31) / 32 * 32
		for len(mem) < n {
			mem = append(mem, 0)
		}
	}
	if len(p.seed) > 0 {
		grow(len(p.seed))
		copy(mem, p.seed)
	}
	for i := 0; i < p.loops; i++ {
		for _, s := range p.steps {
			if s.length > 0 {
				grow(s.off + s.length)
			}
			var h [32]byte
			if s.length > 0 {
				h = ref.Keccak256(mem[s.off : s.off+s.length])
			} else {
				h = ref.Keccak256(nil) // a zero-length range does not touch (or grow) memory
			}
			grow(s.dst + 32)
			copy(mem[s.dst:], h[:])
		}
	}
	if p.out > 0 {
		grow(p.out)
	}
	return append([]byte{}, mem[:p.out]...)
}

func genHashProg(t *rapid.T) *hashProg {
	p := &hashProg{}
	p.seed = rapid.SliceOfN(rapid.Byte(), 0, 200).Draw(t, "seed")
	n := rapid.IntRange(1, 4).Draw(t, "hashSteps")
	for i := 0; i < n; i++ {
		p.steps = append(p.steps, hashStep{
			off:    rapid.SampledFrom([]int{0, 0, 1, 31, 32, 64, 100, 136, 200}).Draw(t, "off"),
			length: rapid.SampledFrom([]int{0, 1, 32, 32, 64, 135, 136, 137, 272, 500}).Draw(t, "len"),
			dst:    rapid.SampledFrom([]int{0, 0, 32, 64, 7, 300}).Draw(t, "dst"),
		})
	}
	p.loops = rapid.SampledFrom([]int{1, 2, 20, 100, 400}).Draw(t, "loops")
	p.out = rapid.SampledFrom([]int{32, 64, 96, 352}).Draw(t, "out")
	return p
}

func sameOutcome(a, b evmh.Result) (bool, string) {
	if a.Panicked() != b.Panicked() {
		return false, "panic"
	}
	if evmh.Kind(a.Err) != evmh.Kind(b.Err) {
		return false, fmt.Sprintf("error kind %q vs %q (%v / %v)", evmh.Kind(a.Err), evmh.Kind(b.Err), a.Err, b.Err)
	}
	if a.GasLeft != b.GasLeft {
		return false, fmt.Sprintf("gas left %d vs %d", a.GasLeft, b.GasLeft)
	}
	if !bytes.Equal(a.Ret, b.Ret) {
		return false, fmt.Sprintf("return data %x vs %x", a.Ret, b.Ret)
	}
	if len(a.Logs) != len(b.Logs) {
		return false, fmt.Sprintf("%d logs vs %d", len(a.Logs), len(b.Logs))
	}
	for i := range a.Logs {
		if !bytes.Equal(a.Logs[i].Data, b.Logs[i].Data) || len(a.Logs[i].Topics) != len(b.Logs[i].Topics) {
			return false, fmt.Sprintf("log %d differs", i)
		}
		for k := range a.Logs[i].Topics {
			if a.Logs[i].Topics[k] != b.Logs[i].Topics[k] {
				return false, fmt.Sprintf("log %d topic %d differs", i, k)
			}
		}
	}
	return true, ""
}

func TestConcurrentIndependentRuns(t *testing.T) {
	stats.Check(t, 150, 3000, func(t *rapid.T) {
		cfgIdx, c := genConfig(t)
		c.apply()
		nProg := rapid.IntRange(2, 4).Draw(t, "programs")
		var specs []*runSpec
		var solo []evmh.Result
		nHash, nFuzz := 0, 0
		for i := 0; i < nProg; i++ {
			var s *runSpec
			if rapid.IntRange(0, 3).Draw(t, "kind") > 0 {
				p := genHashProg(t)
				s = &runSpec{cfgIdx: cfgIdx, entry: "call", code: p.code(), input: p.seed, gas: 50000000}
				res := execute(s)
				checkCommon(t, s, res)
				if res.Err != nil {
					t.Fatalf("hash program failed when run alone: %v\n%s", res.Err, s)
				}
				if want := p.expected(); !bytes.Equal(res.Ret, want) {
					t.Fatalf("hash program run alone returned %x, computed without the node: %x\n%+v\n%s", res.Ret, want, *p, s)
				}
				nHash++
				specs, solo = append(specs, s), append(solo, res)
				continue
			}
			code, _ := genCode(t, c)
			code = steerKnown(code, c)
			s = &runSpec{cfgIdx: cfgIdx, entry: rapid.SampledFrom([]string{"call", "call", "create", "static"}).Draw(t, "entry"), code: code,
				input: rapid.SliceOfN(rapid.Byte(), 0, 96).Draw(t, "input"), gas: rapid.SampledFrom([]uint64{21000, 100000, 1000000}).Draw(t, "gas"),
				extra: map[common.Address][]byte{childA: childACode}}
			res := execute(s)
			checkCommon(t, s, res)
			nFuzz++
			specs, solo = append(specs, s), append(solo, res)
		}
		// determinism alone first (otherwise a difference under concurrency proves nothing)
		for i, s := range specs {
			if ok, why := sameOutcome(solo[i], execute(s)); !ok {
				stats.Case("", "concurrent:program_not_deterministic_alone")
				_ = why
				return
			}
		}
		copies := rapid.IntRange(1, 3).Draw(t, "copiesPerProgram")
		reps := rapid.SampledFrom([]int{3, 10, 30}).Draw(t, "repetitions")
		var wg sync.WaitGroup
		var mu sync.Mutex
		var failure string
		start := make(chan struct{})
		for i := range specs {
			for k := 0; k < copies; k++ {
				wg.Add(1)
				go func(i int) {
					defer wg.Done()
					<-start
					for r := 0; r < reps; r++ {
						res := executeApplied(specs[i])
						if res.Panicked() {
							mu.Lock()
							failure = fmt.Sprintf("Go panic escaped the EVM while %d other runs with their own state and EVM were in progress: %v\n%s\n%s", len(specs)*copies-1, res.Panic, specs[i], noOOMwords(res.Stack))
							mu.Unlock()
							return
						}
						if ok, why := sameOutcome(solo[i], res); !ok {
							mu.Lock()
							failure = fmt.Sprintf("a run ended differently while other runs with their own state and EVM were in progress than alone: %s\n%s", why, specs[i])
							mu.Unlock()
							return
						}
					}
				}(i)
			}
		}
		close(start)
		// every run is bounded by its gas (alone each took milliseconds): a set of runs that is still going
		// after four minutes does not terminate
		done := make(chan struct{})
		go func() { wg.Wait(); close(done) }()
		select {
		case <-done:
		case <-time.After(240 * time.Second):
			t.Fatalf("%d runs, each with its own state and EVM and each terminating within milliseconds alone, did not terminate within 240 s when run at the same time; first program:\n%s", len(specs)*copies*reps, specs[0])
		}
		if failure != "" {
			t.Fatalf("%s", failure)
		}
		key := ""
		if nHash > 0 {
			key = fmt.Sprintf("conc|%s|%d|%d|%x", c.name, nHash, nFuzz, ref.Keccak256(specs[0].code))
		}
		stats.Case(key, "concurrent_cfg:"+c.name, fmt.Sprintf("concurrent_goroutines:%d", len(specs)*copies), fmt.Sprintf("concurrent_hash_programs:%d", nHash),
			fmt.Sprintf("concurrent_fuzz_programs:%d", nFuzz), fmt.Sprintf("concurrent_repetitions:%d", reps))
		stats.Count("concurrent_runs", int64(len(specs)*copies*reps))
	})
}
