// Package c04 checks property C04: reverting to a snapshot restores the account state exactly.
//
// Shape of a case: a generated committed base state (built through the same API the genesis
// builder uses, Commit(true) + TrieDB().Commit) and then 1-2 "blocks". A block is what
// core/vmexecutor.go does with one AccountDB: a sequence of transactions (Prepare, then journaled
// mutators with nested Snapshot/RevertToSnapshot), one IntermediateRoot(true), one Commit(true),
// and a fresh AccountDB at the new root for the next block.
//
// Oracles (no journal logic shared, no forward semantics re-implemented):
//
//	(A) a stack of full copies of the observable state: at Snapshot() every accessor is read over a
//	    fixed universe and the copy is stored; after RevertToSnapshot(id) the same sweep must be
//	    equal to the copy stored for id (nested: the older copies stay on the stack).
//	(B) differential against the never-executed run: the block's operations with every reverted
//	    segment removed are replayed on a second AccountDB over an identical base; after each
//	    surviving operation the full sweep of the replay must equal the sweep the main run showed
//	    after the same operation, return values must agree, IntermediateRoot(true) must agree and
//	    so must the committed root. On a root mismatch both account tries are diffed leaf by leaf
//	    (and storage tries slot by slot) so the message names the account / slot.
package c04

import (
	"bytes"
	"encoding/hex"
	"fmt"
	"math/big"
	"os"
	"sort"
	"strings"
	"testing"

	"com.tuntun.rangers/node/src/common"
	"com.tuntun.rangers/node/src/middleware/db"
	"com.tuntun.rangers/node/src/middleware/types"
	"com.tuntun.rangers/node/src/storage/account"
	"com.tuntun.rangers/node/src/storage/rlp"
	"com.tuntun.rangers/node/src/storage/trie"
	"pgregory.net/rapid"

	"verifharness/internal/stats"
)

const (
	findingA = "F-C04-a" // storageChange.undo leaves a nil map entry -> Empty() flips
	findingB = "F-C04-b" // the dirty mark set by a reverted mutation is not reverted -> Finalise(true) deletes a loaded account whose storage was not read
	findingC = "F-C04-c" // touchChange.undo removes the dirty mark but the object's onDirty callback stays nil -> later writes never reach the trie
)

func TestMain(m *testing.M) {
	stats.SetRule("histories = 1-2 blocks of <=45 steps on one AccountDB over a generated committed base (6 accounts in classes absent/eoa/contract/" +
		"storage-only/unread-storage-only/balance-only + bound token contract); non-trivial = the case contains a revert that undoes >=2 kinds of " +
		"journaled mutation across >=2 addresses, or a revert while >=2 snapshots are live (nested); distinct by (set of reverted mutator kinds, " +
		"life-cycle classes of the addresses they touched, nested?)")
	stats.Assume("usage as in core/vmexecutor.go: Prepare only between transactions (never reverted across), one IntermediateRoot(true)+Commit(true) per AccountDB, " +
		"fresh AccountDB per block; SubRefund never exceeds the counter; RevertToSnapshot only with ids that are still valid")
	stats.Assume("balances live in the storage of the token contract bound by AddERC20Binding (as in the genesis builder); Proposal002 active (dev preset), so balance writes are journaled")
	stats.Assume("nil and zero-length GetData results are the same answer (the storage trie cannot tell them apart)")
	stats.Assume("address 0x..03 (ripemd) is not in the universe: touchChange.undo skips it on purpose (inherited consensus quirk)")
	common.Init(0, "1.ini", "dev") // writes 1.ini/logs into the scratch cwd
	account.Init()
	// The address of the bound token contract is cached in a process global on the first balance
	// access (accountdb_eth.go: rpgContractAddress), and that first access reads the binding
	// account. Do it once here so that no case depends on being the first one in the process.
	if w, err := buildBase(baseSpec{Accts: []baseAcct{{Class: clBalanceOnly, Balance: big.NewInt(1)}}}); err != nil || w.st.GetBalance(users[0]).Sign() == 0 {
		fmt.Println("VERIF-INCONCLUSIVE: cannot build a base state:", err)
		os.Exit(2)
	}
	stats.Main(m, "C04")
}

// ---------------------------------------------------------------- universe

var (
	addrT = common.HexToAddress("0x71d9cfd1b7adb1e8eb4c193ce6ffbe19b4aee0db") // token contract (genesis address of wRPG)
	addrB = common.GenerateERC20Binding(common.BLANCE_NAME)
	users = []common.Address{
		common.HexToAddress("0xa000000000000000000000000000000000000001"),
		common.HexToAddress("0xa000000000000000000000000000000000000002"),
		common.HexToAddress("0xb0000000000000000000000000000000000000f3"),
		common.HexToAddress("0x00000000000000000000000000000000000000c4"),
		common.HexToAddress("0xa0000000000000000000000000000000000001a5"),
		common.HexToAddress("0xffffffffffffffffffffffffffffffffffffff06"),
	}
	nUsers   = len(users)
	allAddrs = append(append([]common.Address{}, users...), addrT, addrB)
	allNames = []string{"A0", "A1", "A2", "A3", "A4", "A5", "T", "B"}

	ftName = "FTX"
	key32a = common.HexToHash("0x0000000000000000000000000000000000000000000000000000000000000001")
	key32b = common.HexToHash("0xa5a5a5a5a5a5a5a5a5a5a5a5a5a5a5a5a5a5a5a5a5a5a5a5a5a5a5a5a5a5a5a5")
	// data keys read by every sweep; index 0,1 are also used through SetState/GetState, as
	// access-list slots and as transient-storage keys
	dataKeys  = [][]byte{key32a.Bytes(), key32b.Bytes(), []byte("ab"), []byte(common.GenerateFTKey(ftName))}
	keyNames  = []string{"k1", "ka5", "ab", "ft"}
	hiddenKey = []byte("never-read-in-block")
	hashKeys  = []common.Hash{key32a, key32b}

	codes = [][]byte{
		{0x60, 0x00, 0x60, 0x00, 0xfd},
		bytes.Repeat([]byte{0x5b}, 70),
		{0xfe},
	}
	nTx = 4
)

func txHash(i int) common.Hash {
	if i <= 0 {
		return common.Hash{}
	}
	return common.BytesToHash([]byte{0x77, byte(i)})
}

func addrName(a common.Address) string {
	for i, x := range allAddrs {
		if x == a {
			return allNames[i]
		}
	}
	return a.GetHexString()
}

// ---------------------------------------------------------------- base state

const (
	clAbsent = iota
	clEOA
	clContract
	clStorageOnly
	clHiddenOnly
	clBalanceOnly
	nClasses
)

var classNames = []string{"absent", "eoa", "contract", "storage-only", "unread-storage-only", "balance-only"}

type baseAcct struct {
	Class   int
	Nonce   uint64
	Balance *big.Int
	Data    [][]byte // per dataKeys, nil = unset
}

type baseSpec struct {
	Accts []baseAcct
}

var amounts = []*big.Int{
	big.NewInt(0), big.NewInt(0), big.NewInt(1), big.NewInt(7), big.NewInt(1000),
	new(big.Int).Exp(big.NewInt(10), big.NewInt(18), nil),
	new(big.Int).Lsh(big.NewInt(1), 200),
}

func genAmount(t *rapid.T, label string) *big.Int {
	return new(big.Int).Set(rapid.SampledFrom(amounts).Draw(t, label))
}

func genValue(t *rapid.T, label string) []byte {
	switch rapid.IntRange(0, 5).Draw(t, label+"Kind") {
	case 0:
		return nil
	case 1:
		return []byte{}
	case 2:
		return []byte{byte(rapid.IntRange(0, 255).Draw(t, label+"Byte"))}
	case 3:
		return common.BytesToHash([]byte{byte(rapid.IntRange(1, 255).Draw(t, label+"Word"))}).Bytes()
	default:
		return rapid.SliceOfN(rapid.Byte(), 1, 40).Draw(t, label)
	}
}

func genBase(t *rapid.T) baseSpec {
	var s baseSpec
	for i := 0; i < nUsers; i++ {
		a := baseAcct{Class: rapid.IntRange(0, nClasses-1).Draw(t, fmt.Sprintf("class%d", i)), Data: make([][]byte, len(dataKeys))}
		if a.Class != clAbsent && rapid.Bool().Draw(t, fmt.Sprintf("hasBal%d", i)) || a.Class == clBalanceOnly {
			a.Balance = genAmount(t, fmt.Sprintf("bal%d", i))
			if a.Class == clBalanceOnly && a.Balance.Sign() == 0 {
				a.Balance = big.NewInt(5)
			}
		}
		switch a.Class {
		case clEOA:
			a.Nonce = uint64(rapid.IntRange(1, 5).Draw(t, fmt.Sprintf("nonce%d", i)))
		case clContract:
			a.Nonce = 1
			for k := range dataKeys {
				if rapid.Bool().Draw(t, fmt.Sprintf("has%d_%d", i, k)) {
					a.Data[k] = []byte{byte(0x10 + k), byte(i)}
				}
			}
		case clStorageOnly:
			n := 0
			for k := range dataKeys {
				if rapid.Bool().Draw(t, fmt.Sprintf("has%d_%d", i, k)) {
					a.Data[k] = []byte{byte(0x20 + k), byte(i)}
					n++
				}
			}
			if n == 0 {
				a.Data[3] = []byte{9}
			}
		}
		s.Accts = append(s.Accts, a)
	}
	return s
}

type world struct {
	mem  *db.MemDatabase
	adb  account.AccountDatabase
	st   *account.AccountDB
	root common.Hash
}

// buildBase creates the committed base the way the genesis builder does: mutate a fresh
// AccountDB, Commit(true), TrieDB().Commit. It is deterministic in the spec, so calling it twice
// gives two independent stores with the same root.
func buildBase(spec baseSpec) (*world, error) {
	mem, err := db.NewMemDatabase()
	if err != nil {
		return nil, err
	}
	adb := account.NewDatabase(mem)
	st, err := account.NewAccountDB(common.Hash{}, adb)
	if err != nil {
		return nil, err
	}
	st.AddERC20Binding(common.BLANCE_NAME, addrT, 3, 18)
	st.SetNonce(addrT, 1)
	st.SetCode(addrT, []byte{0x60, 0x80, 0x60, 0x40, 0x52})
	st.SetData(addrT, []byte("name"), []byte("wRPG"))
	for i, a := range spec.Accts {
		addr := users[i]
		switch a.Class {
		case clEOA:
			st.SetNonce(addr, a.Nonce)
		case clContract:
			st.SetNonce(addr, a.Nonce)
			st.SetCode(addr, codes[i%2])
		case clHiddenOnly:
			st.SetData(addr, hiddenKey, []byte{0xee, byte(i)})
		}
		for k, v := range a.Data {
			if v != nil {
				st.SetData(addr, dataKeys[k], v)
			}
		}
		if a.Balance != nil && a.Balance.Sign() > 0 {
			st.SetBalance(addr, a.Balance)
		}
	}
	root, err := st.Commit(true)
	if err != nil {
		return nil, err
	}
	if err := adb.TrieDB().Commit(root, false); err != nil {
		return nil, err
	}
	w := &world{mem: mem, adb: adb, root: root}
	if w.st, err = account.NewAccountDB(root, adb); err != nil {
		return nil, err
	}
	return w, nil
}

// ---------------------------------------------------------------- observation

type obs []string

var obsNames []string

func hx(b []byte) string {
	if len(b) == 0 {
		return "" // nil and empty are the same answer
	}
	return hex.EncodeToString(b)
}

// sweep reads every accessor over the fixed universe. build=true also (re)builds obsNames.
func sweep(st *account.AccountDB) obs {
	build := obsNames == nil
	var names []string
	o := make(obs, 0, 200)
	put := func(name func() string, v string) {
		if build {
			names = append(names, name())
		}
		o = append(o, v)
	}
	for i, a := range allAddrs {
		n := allNames[i]
		put(func() string { return n + ".exist" }, fmt.Sprint(st.Exist(a)))
		put(func() string { return n + ".empty" }, fmt.Sprint(st.Empty(a)))
		put(func() string { return n + ".suicided" }, fmt.Sprint(st.HasSuicided(a)))
		put(func() string { return n + ".nonce" }, fmt.Sprint(st.GetNonce(a)))
		put(func() string { return n + ".balance" }, st.GetBalance(a).String())
		put(func() string { return n + ".code" }, hx(st.GetCode(a)))
		put(func() string { return n + ".codeHash" }, st.GetCodeHash(a).Hex())
		put(func() string { return n + ".codeSize" }, fmt.Sprint(st.GetCodeSize(a)))
		for k, key := range dataKeys {
			k := k
			put(func() string { return n + ".data[" + keyNames[k] + "]" }, hx(st.GetData(a, key)))
		}
		for k, key := range hashKeys {
			k := k
			put(func() string { return n + ".state[" + keyNames[k] + "]" }, st.GetState(a, key).Hex())
		}
		put(func() string { return n + ".accessList" }, fmt.Sprint(st.AddressInAccessList(a)))
		for k, key := range hashKeys {
			k := k
			ap, sp := st.SlotInAccessList(a, key)
			put(func() string { return n + ".accessSlot[" + keyNames[k] + "]" }, fmt.Sprint(ap, sp))
		}
		for k, key := range hashKeys {
			k := k
			put(func() string { return n + ".transient[" + keyNames[k] + "]" }, st.GetTransientState(a, key).Hex())
		}
	}
	put(func() string { return "refund" }, fmt.Sprint(st.GetRefund()))
	for i := 0; i <= nTx; i++ {
		i := i
		var sb strings.Builder
		for _, l := range st.GetLogs(txHash(i)) {
			fmt.Fprintf(&sb, "{%s %x %x tx=%x ti=%d idx=%d}", addrName(l.Address), l.Topics, l.Data, l.TxHash[:2], l.TxIndex, l.Index)
		}
		put(func() string { return fmt.Sprintf("logs[tx%d]", i) }, sb.String())
	}
	if build {
		obsNames = names
	}
	return o
}

var obsIdx map[string]int

func obsIndex(name string) int {
	if obsIdx == nil {
		obsIdx = map[string]int{}
		for i, n := range obsNames {
			obsIdx[n] = i
		}
	}
	i, ok := obsIdx[name]
	if !ok {
		panic("no observation " + name)
	}
	return i
}

func (o obs) get(addr int, field string) string { return o[obsIndex(allNames[addr]+"."+field)] }

func diffObs(want, got obs) string {
	var d []string
	for i := range want {
		if want[i] != got[i] {
			d = append(d, fmt.Sprintf("%s: expected %q, got %q", obsNames[i], want[i], got[i]))
		}
	}
	if len(want) != len(got) {
		d = append(d, "sweep length differs")
	}
	return strings.Join(d, "; ")
}

// ---------------------------------------------------------------- operations

type op struct {
	Kind string
	A    int // index into allAddrs
	K    int // key index
	Val  []byte
	Amt  *big.Int
	N    uint64
	Snap int // for revert: index into the live snapshot stack
}

func (o op) String() string {
	s := o.Kind
	switch o.Kind {
	case "snapshot":
	case "revert":
		s += fmt.Sprintf("(live#%d)", o.Snap)
	case "prepare":
		s += fmt.Sprintf("(tx%d)", o.N)
	case "addRefund", "subRefund":
		s += fmt.Sprintf("(%d)", o.N)
	case "addBalance", "subBalance", "setBalance":
		s += fmt.Sprintf("(%s,%s)", allNames[o.A], o.Amt)
	case "addFT", "subFT", "setFT":
		s += fmt.Sprintf("(%s,%s,%s)", allNames[o.A], ftName, o.Amt)
	case "setNonce":
		s += fmt.Sprintf("(%s,%d)", allNames[o.A], o.N)
	case "setData", "setState", "setTransient", "addLog":
		s += fmt.Sprintf("(%s,%s,%x)", allNames[o.A], keyNames[o.K], o.Val)
	case "removeData", "alSlot":
		s += fmt.Sprintf("(%s,%s)", allNames[o.A], keyNames[o.K])
	case "setCode":
		s += fmt.Sprintf("(%s,%x)", allNames[o.A], o.Val)
	default:
		s += "(" + allNames[o.A] + ")"
	}
	return s
}

// ownSlot is the slot of the account's own storage into which the operation puts a non-empty
// value (-1: none). Writing "no value" over "no value" is a no-op in SetData.
func (o op) ownSlot() int {
	switch o.Kind {
	case "setData":
		if len(o.Val) > 0 {
			return o.K
		}
	case "setState":
		return o.K
	case "addFT", "setFT":
		if o.Amt.Sign() > 0 {
			return 3
		}
	}
	return -1
}

var kindWeights = []struct {
	k string
	w int
}{
	{"snapshot", 8}, {"revert", 6}, {"prepare", 2},
	{"addBalance", 5}, {"subBalance", 4}, {"setBalance", 2},
	{"setNonce", 5}, {"incNonce", 3},
	{"setData", 7}, {"removeData", 3}, {"setState", 5},
	{"addFT", 4}, {"subFT", 2}, {"setFT", 2},
	{"setCode", 4}, {"create", 5}, {"suicide", 4},
	{"addLog", 3}, {"addRefund", 3}, {"subRefund", 2},
	{"alAddr", 3}, {"alSlot", 3}, {"setTransient", 4},
}

// kindList repeats every kind by its weight, interleaved round-robin: rapid prefers small
// indices, so the head of the list must already be a fair mixture.
var kindList = func() []string {
	order := []string{"setData", "revert", "snapshot", "setNonce", "addBalance", "create", "suicide", "setCode", "addFT", "setState",
		"subBalance", "incNonce", "setTransient", "alSlot", "alAddr", "addLog", "addRefund", "subRefund", "removeData", "setBalance",
		"subFT", "setFT", "prepare"}
	left := map[string]int{}
	for _, kw := range kindWeights {
		left[kw.k] = kw.w
	}
	if len(left) != len(order) {
		panic("kindList: order and weights disagree")
	}
	var l []string
	for more := true; more; {
		more = false
		for _, k := range order {
			if left[k] > 0 {
				left[k]--
				l = append(l, k)
				more = true
			}
		}
	}
	return l
}()

// genOp draws one abstract operation. It does not look at the current state, so that a history is
// a plain slice of independent draws (rapid can then delete single operations while shrinking);
// runBlock turns an operation that is not applicable in the current state into a no-op.
func genOp(t *rapid.T) op {
	o := op{Kind: rapid.SampledFrom(kindList).Draw(t, "kind")}
	switch o.Kind {
	case "snapshot", "prepare":
	case "revert":
		// counted from the innermost live snapshot (0), any live id is allowed
		o.Snap = rapid.SampledFrom([]int{0, 0, 0, 1, 1, 2, 3, 4, 5}).Draw(t, "snapFromTop")
	case "addRefund", "subRefund":
		o.N = uint64(rapid.SampledFrom([]int{0, 1, 4800, 15000}).Draw(t, "gas"))
	default:
		// user accounts; the token contract itself is written (SSTORE) now and then
		o.A = rapid.SampledFrom(addrBias).Draw(t, "addr")
		switch o.Kind {
		case "addBalance", "subBalance", "setBalance", "addFT", "subFT", "setFT":
			o.Amt = genAmount(t, "amt")
		case "setNonce":
			o.N = uint64(rapid.SampledFrom([]int{0, 1, 2, 9}).Draw(t, "nonce"))
		case "setData":
			o.K = rapid.IntRange(0, len(dataKeys)-1).Draw(t, "key")
			o.Val = genValue(t, "val")
		case "removeData":
			o.K = rapid.IntRange(0, len(dataKeys)-1).Draw(t, "key")
		case "setState", "setTransient":
			if o.Kind == "setState" && rapid.IntRange(0, 7).Draw(t, "onToken") == 7 {
				o.A = nUsers // T
			}
			o.K = rapid.IntRange(0, 1).Draw(t, "key")
			o.Val = common.BytesToHash([]byte{byte(rapid.IntRange(0, 3).Draw(t, "word"))}).Bytes()
		case "alSlot":
			o.K = rapid.IntRange(0, 1).Draw(t, "key")
		case "addLog":
			o.K = rapid.IntRange(0, 1).Draw(t, "key")
			o.Val = []byte{byte(rapid.IntRange(0, 255).Draw(t, "data"))}
		case "setCode":
			if rapid.IntRange(0, 4).Draw(t, "emptyCode") == 4 {
				o.Val = []byte{}
			} else {
				o.Val = rapid.SampledFrom(codes).Draw(t, "code")
			}
		}
	}
	return o
}

var opGen = rapid.Custom(genOp)

// operations concentrate on a few accounts so that they interact
var addrBias = []int{0, 0, 0, 0, 1, 1, 1, 2, 2, 3, 4, 5}

// apply performs one operation on an AccountDB. A panic inside the code under test is returned
// as an error string, never swallowed.
func apply(st *account.AccountDB, o op, revID int) (ret string, panicked string) {
	defer func() {
		if r := recover(); r != nil {
			panicked = fmt.Sprint(r)
		}
	}()
	a := allAddrs[o.A]
	amt := func() *big.Int { return new(big.Int).Set(o.Amt) }
	switch o.Kind {
	case "snapshot":
		return fmt.Sprint(st.Snapshot()), ""
	case "revert":
		st.RevertToSnapshot(revID)
	case "prepare":
		st.Prepare(txHash(int(o.N)), common.Hash{}, int(o.N))
	case "addBalance":
		st.AddBalance(a, amt())
	case "subBalance":
		if left := st.SubBalance(a, amt()); left != nil {
			ret = left.String()
		} else {
			ret = "nil"
		}
	case "setBalance":
		st.SetBalance(a, amt())
	case "addFT":
		ret = fmt.Sprint(st.AddFT(a, ftName, amt()))
	case "subFT":
		left, ok := st.SubFT(a, ftName, amt())
		ret = fmt.Sprint(left, ok)
	case "setFT":
		st.SetFT(a, ftName, amt())
	case "setNonce":
		st.SetNonce(a, o.N)
	case "incNonce":
		ret = fmt.Sprint(st.IncreaseNonce(a))
	case "setData":
		var v []byte
		if o.Val != nil {
			v = append([]byte{}, o.Val...)
		}
		st.SetData(a, append([]byte{}, dataKeys[o.K]...), v)
	case "removeData":
		st.RemoveData(a, append([]byte{}, dataKeys[o.K]...))
	case "setState":
		st.SetState(a, hashKeys[o.K], common.BytesToHash(o.Val))
	case "setCode":
		st.SetCode(a, append([]byte{}, o.Val...))
	case "create":
		st.CreateAccount(a)
	case "suicide":
		ret = fmt.Sprint(st.Suicide(a))
	case "addLog":
		st.AddLog(&types.Log{Address: a, Topics: []common.Hash{hashKeys[o.K]}, Data: append([]byte{}, o.Val...)})
	case "addRefund":
		st.AddRefund(o.N)
	case "subRefund":
		if o.N > st.GetRefund() {
			return "skipped", "" // callers never ask for more than the counter holds
		}
		st.SubRefund(o.N)
	case "alAddr":
		st.AddAddressToAccessList(a)
	case "alSlot":
		st.AddSlotToAccessList(a, hashKeys[o.K])
	case "setTransient":
		st.SetTransientState(a, hashKeys[o.K], common.BytesToHash(o.Val))
	default:
		panic("harness: unknown op " + o.Kind)
	}
	return ret, ""
}

// ---------------------------------------------------------------- the state machine

type entry struct {
	op       op
	ret      string
	after    obs
	reverted bool
	// shape bookkeeping for the recorded findings, taken from the sweep before the operation
	freshSlotOn int  // F-C04-a: storage write into a slot (of an existing account) that held no value; address index or -1
	touchesObj  bool // F-C04-b: a mutator that goes through the account object of op.A
	zeroAddFT   bool // F-C04-c: AddFT(a, name, 0) on an existing account that reports Empty()
	classAt     string
}

type snap struct {
	id  int
	pos int // index in the block log of the Snapshot op
	obs obs
}

func lifeClass(spec baseSpec, start, cur obs, a int, recreated map[int]bool) string {
	if a >= nUsers {
		return "token-contract"
	}
	switch {
	case cur.get(a, "suicided") == "true" && recreated[a]:
		return "recreated-after-suicide"
	case cur.get(a, "suicided") == "true":
		return "suicided"
	case cur.get(a, "exist") == "false":
		if spec.Accts[a].Class == clBalanceOnly {
			return "absent-with-balance"
		}
		return "absent"
	case start.get(a, "exist") == "false":
		return "created-this-block"
	case spec.Accts[a].Class == clAbsent || spec.Accts[a].Class == clBalanceOnly:
		return "loaded-created-in-earlier-block"
	}
	return "loaded-" + classNames[spec.Accts[a].Class]
}

var objKinds = map[string]bool{"setNonce": true, "incNonce": true, "setCode": true, "suicide": true, "create": true,
	"setData": true, "removeData": true, "setState": true, "addFT": true, "subFT": true, "setFT": true}

// knownShape decides whether reverting to live[target] would run into a recorded finding. It
// only ever returns a finding that is currently listed as known; otherwise nothing is steered.
// taint lists accounts on which an (as yet invisible) leftover of F-C04-a remains.
func knownShape(log []*entry, live []snap, target int, start obs, skipC bool) (finding string, taint []int) {
	tg := live[target]
	seenObj := map[int]bool{}
	for _, x := range log[tg.pos:] {
		if x.reverted {
			continue
		}
		a := x.op.A
		// F-C04-a: the undo of a write to a fresh slot leaves a nil entry behind. It is only
		// observable if the object survives the revert and the account is, or can again become
		// (by reverting further), nonce 0 and codeless.
		if stats.IsKnown(findingA) && x.freshSlotOn >= 0 && tg.obs.get(a, "exist") == "true" {
			couldBeEmpty := false
			for _, s := range live[:target+1] {
				if s.obs.get(a, "exist") == "true" && nonceZeroCodeless(s.obs, a) {
					couldBeEmpty = true
				}
			}
			if couldBeEmpty {
				return findingA, nil
			}
			taint = append(taint, a)
		}
		// F-C04-b / F-C04-c: the account was loaded from the trie and reports Empty() at the snapshot
		// (nonce 0, no code, none of its storage read or written yet in this block). The first
		// reverted mutator that goes through its account object decides which finding it is:
		// AddFT(a, name, 0) calls accountObject.touch(), whose undo takes the dirty mark away again
		// (F-C04-c: later writes to the object never reach the trie); every other mutator leaves
		// the dirty mark behind (F-C04-b: Finalise(true) deletes the account and its storage).
		if x.touchesObj && !seenObj[a] {
			seenObj[a] = true
			loadedEmpty := start.get(a, "exist") == "true" && tg.obs.get(a, "exist") == "true" && tg.obs.get(a, "empty") == "true"
			if loadedEmpty && x.zeroAddFT && stats.IsKnown(findingC) && !skipC {
				return findingC, nil
			}
			if loadedEmpty && !x.zeroAddFT && stats.IsKnown(findingB) {
				return findingB, nil
			}
		}
	}
	return "", taint
}

// touchedThenReverted: the loaded-empty accounts whose first reverted object mutator (in the range a revert to
// live[target] undoes) is a zero-amount AddFT - the accounts left in the state F-C04-c describes.
func touchedThenReverted(log []*entry, live []snap, target int, start obs) (out []int) {
	tg := live[target]
	seenObj := map[int]bool{}
	for _, x := range log[tg.pos:] {
		if x.reverted || !x.touchesObj || seenObj[x.op.A] {
			continue
		}
		a := x.op.A
		seenObj[a] = true
		loadedEmpty := start.get(a, "exist") == "true" && tg.obs.get(a, "exist") == "true" && tg.obs.get(a, "empty") == "true"
		if loadedEmpty && x.zeroAddFT {
			out = append(out, a)
		}
	}
	return out
}

func nonceZeroCodeless(o obs, a int) bool {
	return o.get(a, "nonce") == "0" && o.get(a, "codeSize") == "0"
}

type caseStats struct {
	ntKeys  []string
	classes map[string]bool
	trace   []string
}

func runBlock(t *rapid.T, spec baseSpec, main, replay *world, blockNo int, lastBlock bool, ops []op, cs *caseStats) {
	start := sweep(main.st)
	if d := diffObs(start, sweep(replay.st)); d != "" {
		t.Fatalf("harness: the two copies of the base state differ before any operation: %s", d)
	}
	var (
		log       []*entry
		live      []snap
		cur       = start
		txNo      = 0
		tainted   = map[int]bool{} // F-C04-a steering only
		cTainted  = map[int]bool{} // F-C04-c steering: accounts whose object must not be mutated again in this block
		recreated = map[int]bool{}
	)
	for step, o := range ops {
		// operations that are not applicable in the current state are dropped
		switch {
		case o.Kind == "revert" && len(live) == 0, o.Kind == "snapshot" && len(live) >= 6, o.Kind == "prepare" && txNo >= nTx:
			stats.Class("op-not-applicable")
			continue
		case o.Kind == "revert":
			if o.Snap > len(live)-1 {
				o.Snap = len(live) - 1
			}
			o.Snap = len(live) - 1 - o.Snap // index into the live stack
		case o.Kind == "prepare":
			o.N = uint64(txNo + 1)
		case o.Kind == "setCode" && len(o.Val) == 0 && !lastBlock:
			// Empty code only in the last block of a case: SetCode(a, []byte{}) stores the legacy
			// Keccak hash of "" which is not the package's emptyCodeHash (SHA3-256), so a later
			// AccountDB cannot load the code and its Commit fails (with or without reverts - not C04).
			o.Val = codes[2]
		}
		e := &entry{op: o, freshSlotOn: -1}
		revID := 0
		switch o.Kind {
		case "revert":
			target := live[o.Snap]
			revID = target.id
			// --- steering around recorded findings (each only while it is listed as known)
			f, taint := knownShape(log, live, o.Snap, start, false)
			if f == findingC {
				if f2, taint2 := knownShape(log, live, o.Snap, start, true); f2 != "" {
					f = f2 // another recorded shape lies in the same range
				} else {
					f, taint = "performC", taint2
				}
			}
			if f == "performC" {
				// F-C04-c only shows when the account object is mutated again after this revert (the write never
				// reaches the trie). The revert itself is performed and checked like any other; later mutators of
				// the accounts concerned are steered away below.
				for _, a := range touchedThenReverted(log, live, o.Snap, start) {
					cTainted[a] = true
				}
				for _, a := range taint {
					tainted[a] = true
				}
				stats.Class("revert_of_zero_amount_touch_on_loaded_empty_account_performed")
			} else if f != "" {
				stats.Exclude(f)
				cs.trace = append(cs.trace, "(revert steered away: "+f+")")
				continue
			} else {
				for _, a := range taint {
					tainted[a] = true
				}
			}
		case "setNonce", "setCode":
			// a leftover of F-C04-a on this account would become visible once it is nonce 0 and codeless
			if stats.IsKnown(findingA) && tainted[o.A] {
				becomesEmptyish := (o.Kind == "setNonce" && o.N == 0 && cur.get(o.A, "codeSize") == "0") ||
					(o.Kind == "setCode" && len(o.Val) == 0 && cur.get(o.A, "nonce") == "0")
				if becomesEmptyish {
					stats.Exclude(findingA)
					continue
				}
			}
		case "create":
			if cur.get(o.A, "suicided") == "true" {
				recreated[o.A] = true
			}
		}
		if stats.IsKnown(findingC) && objKinds[o.Kind] && cTainted[o.A] {
			stats.Exclude(findingC)
			cs.trace = append(cs.trace, "(mutator steered away: "+findingC+")")
			continue
		}
		if o.Kind != "snapshot" && o.Kind != "revert" && o.Kind != "prepare" && o.Kind != "addRefund" && o.Kind != "subRefund" {
			e.classAt = lifeClass(spec, start, cur, o.A, recreated)
		}
		if k := o.ownSlot(); k >= 0 && cur.get(o.A, "exist") == "true" && cur.get(o.A, "data["+keyNames[k]+"]") == "" {
			e.freshSlotOn = o.A
		}
		e.touchesObj = objKinds[o.Kind]
		e.zeroAddFT = o.Kind == "addFT" && o.Amt.Sign() == 0 && cur.get(o.A, "exist") == "true" && cur.get(o.A, "empty") == "true"

		ret, p := apply(main.st, o, revID)
		if p != "" {
			t.Fatalf("block %d step %d: %s panicked: %s\ntrace: %s", blockNo, step, o, p, strings.Join(cs.trace, " ; "))
		}
		e.ret = ret
		e.after = sweep(main.st)
		cur = e.after
		cs.trace = append(cs.trace, o.String())
		stats.Class("op:" + o.Kind)

		switch o.Kind {
		case "snapshot":
			id := 0
			fmt.Sscan(ret, &id)
			live = append(live, snap{id: id, pos: len(log), obs: e.after})
			e.ret = ""
		case "revert":
			target := live[o.Snap]
			// oracle (A): every query answers as it did when the snapshot was taken
			if d := diffObs(target.obs, e.after); d != "" {
				t.Fatalf("block %d step %d: after RevertToSnapshot(%d) the state does not answer as it did at the snapshot: %s\ntrace: %s",
					blockNo, step, target.id, d, strings.Join(cs.trace, " ; "))
			}
			kinds := map[string]bool{}
			addrs := map[int]bool{}
			lcs := map[string]bool{}
			for _, x := range log[target.pos:] {
				if !x.reverted && x.classAt != "" {
					kinds[x.op.Kind] = true
					addrs[x.op.A] = true
					lcs[x.classAt] = true
					stats.Class("reverted:" + x.op.Kind)
					stats.Class("reverted-on:" + x.classAt)
				} else if !x.reverted && (x.op.Kind == "addRefund" || x.op.Kind == "subRefund") {
					kinds[x.op.Kind] = true
					stats.Class("reverted:" + x.op.Kind)
				}
				x.reverted = true
			}
			nested := len(live) >= 2
			stats.Class(fmt.Sprintf("revert-with-live-snapshots:%d", len(live)))
			if o.Snap < len(live)-1 {
				stats.Class("revert-skips-inner-snapshots")
			}
			if (len(kinds) >= 2 && len(addrs) >= 2) || (nested && len(kinds) >= 1) {
				cs.ntKeys = append(cs.ntKeys, fmt.Sprintf("%v|%v|%v", keys(kinds), keys(lcs), nested))
			}
			live = live[:o.Snap]
			e.reverted = true
		case "prepare":
			txNo = int(o.N)
			live = nil // ids of finished transactions are never used again by callers
		}
		log = append(log, e)
	}

	// oracle (B): the never-executed run
	for i, e := range log {
		if e.reverted {
			continue
		}
		ret, p := apply(replay.st, e.op, 0)
		if p != "" {
			t.Fatalf("block %d: replay without the reverted segments panicked at %s: %s", blockNo, e.op, p)
		}
		if e.op.Kind == "snapshot" {
			ret = ""
		}
		got := sweep(replay.st)
		if ret != e.ret {
			t.Fatalf("block %d: %s (log #%d) returned %q in the run with reverts but %q when the reverted operations are never executed\ntrace: %s",
				blockNo, e.op, i, e.ret, ret, strings.Join(cs.trace, " ; "))
		}
		if d := diffObs(got, e.after); d != "" {
			t.Fatalf("block %d: after %s (log #%d) the run with reverts differs from the run in which the reverted operations were never executed "+
				"(expected = never executed): %s\ntrace: %s", blockNo, e.op, i, d, strings.Join(cs.trace, " ; "))
		}
	}
	rootM, p1 := intermediateRoot(main.st)
	rootR, p2 := intermediateRoot(replay.st)
	if p1 != "" || p2 != "" {
		t.Fatalf("block %d: IntermediateRoot panicked: %s %s\ntrace: %s", blockNo, p1, p2, strings.Join(cs.trace, " ; "))
	}
	cm, errM := main.st.Commit(true)
	cr, errR := replay.st.Commit(true)
	if errM != nil || errR != nil {
		t.Fatalf("block %d: Commit failed: %v / %v", blockNo, errM, errR)
	}
	if rootM != rootR || cm != cr {
		t.Fatalf("block %d: state root %s differs from the root %s computed when the reverted operations were never executed (committed %s vs %s)\n%s\ntrace: %s",
			blockNo, rootM.Hex(), rootR.Hex(), cm.Hex(), cr.Hex(), diffTries(main.adb, replay.adb, cm, cr), strings.Join(cs.trace, " ; "))
	}
	for _, w := range []*world{main, replay} {
		if err := w.adb.TrieDB().Commit(cm, false); err != nil {
			t.Fatalf("trie commit: %v", err)
		}
		st, err := account.NewAccountDB(cm, w.adb)
		if err != nil {
			t.Fatalf("reopen at %s: %v", cm.Hex(), err)
		}
		w.st, w.root = st, cm
	}
}

func intermediateRoot(st *account.AccountDB) (h common.Hash, panicked string) {
	defer func() {
		if r := recover(); r != nil {
			panicked = fmt.Sprint(r)
		}
	}()
	return st.IntermediateRoot(true), ""
}

func keys(m map[string]bool) []string {
	var l []string
	for k := range m {
		l = append(l, k)
	}
	sort.Strings(l)
	return l
}

// ---------------------------------------------------------------- trie diff

func leaves(adb account.AccountDatabase, root common.Hash) (map[string][]byte, error) {
	out := map[string][]byte{}
	if root == (common.Hash{}) {
		return out, nil
	}
	tr, err := trie.NewTrie(root, adb.TrieDB())
	if err != nil {
		return nil, err
	}
	it := trie.NewIterator(tr.NodeIterator(nil))
	for it.Next() {
		out[string(it.Key)] = append([]byte{}, it.Value...)
	}
	return out, it.Err
}

func keyName(k string) string {
	for i, dk := range dataKeys {
		if string(dk) == k {
			return keyNames[i]
		}
	}
	if k == string(hiddenKey) {
		return "unread"
	}
	return hex.EncodeToString([]byte(k))
}

// diffTries names the accounts (and, below them, the storage slots) in which two committed
// states differ. "with reverts" is the run under test, "never executed" the reference.
func diffTries(a, b account.AccountDatabase, rootA, rootB common.Hash) string {
	la, errA := leaves(a, rootA)
	lb, errB := leaves(b, rootB)
	if errA != nil || errB != nil {
		return fmt.Sprintf("(trie walk failed: %v / %v)", errA, errB)
	}
	union := map[string]bool{}
	for k := range la {
		union[k] = true
	}
	for k := range lb {
		union[k] = true
	}
	var out []string
	for _, k := range keys(union) {
		va, vb := la[k], lb[k]
		if bytes.Equal(va, vb) {
			continue
		}
		name := addrName(common.BytesToAddress([]byte(k)))
		switch {
		case va == nil:
			out = append(out, fmt.Sprintf("account %s: missing with reverts, present when never executed", name))
			continue
		case vb == nil:
			out = append(out, fmt.Sprintf("account %s: present with reverts, absent when never executed", name))
			continue
		}
		var xa, xb account.Account
		if rlp.DecodeBytes(va, &xa) != nil || rlp.DecodeBytes(vb, &xb) != nil {
			out = append(out, fmt.Sprintf("account %s: undecodable leaf %x vs %x", name, va, vb))
			continue
		}
		if xa.Nonce != xb.Nonce {
			out = append(out, fmt.Sprintf("account %s: nonce %d vs %d", name, xa.Nonce, xb.Nonce))
		}
		if !bytes.Equal(xa.NFTSetDefinitionHash, xb.NFTSetDefinitionHash) {
			out = append(out, fmt.Sprintf("account %s: code hash %x vs %x", name, xa.NFTSetDefinitionHash, xb.NFTSetDefinitionHash))
		}
		if xa.Root != xb.Root {
			sa, _ := leaves(a, xa.Root)
			sb, _ := leaves(b, xb.Root)
			su := map[string]bool{}
			for s := range sa {
				su[s] = true
			}
			for s := range sb {
				su[s] = true
			}
			for _, s := range keys(su) {
				if !bytes.Equal(sa[s], sb[s]) {
					out = append(out, fmt.Sprintf("account %s slot %s: %x with reverts, %x when never executed", name, keyName(s), sa[s], sb[s]))
				}
			}
		}
	}
	if len(out) == 0 {
		return "(no leaf-level difference found)"
	}
	return "leaf diff: " + strings.Join(out, "; ")
}

// ---------------------------------------------------------------- the property

func TestRevertRestoresState(t *testing.T) {
	stats.Check(t, 3000, 8000, func(t *rapid.T) {
		spec := genBase(t)
		main, err := buildBase(spec)
		if err != nil {
			t.Fatalf("harness: base: %v", err)
		}
		replay, err := buildBase(spec)
		if err != nil {
			t.Fatalf("harness: base: %v", err)
		}
		if main.root != replay.root {
			t.Fatalf("harness: base roots differ")
		}
		cs := &caseStats{classes: map[string]bool{}}
		cs.trace = append(cs.trace, "base{"+specString(spec)+"}")
		// rapid's slices average minLen+max(minLen,5) elements, so the minimum is drawn too
		min0 := rapid.SampledFrom([]int{1, 4, 8, 15, 22}).Draw(t, "minLen0")
		min1 := rapid.SampledFrom([]int{0, 0, 1, 8, 15}).Draw(t, "minLen1")
		blocks := [][]op{rapid.SliceOfN(opGen, min0, 45).Draw(t, "block0")}
		if b1 := rapid.SliceOfN(opGen, min1, 45).Draw(t, "block1"); len(b1) > 0 {
			blocks = append(blocks, b1)
		}
		nBlocks := len(blocks)
		defer func() {
			// exactly one Case per executed case, also when the case fails
			sort.Strings(cs.ntKeys)
			key := strings.Join(cs.ntKeys, "#")
			cl := []string{fmt.Sprintf("blocks:%d", nBlocks)}
			for _, a := range spec.Accts {
				cl = append(cl, "base:"+classNames[a.Class])
			}
			stats.Case(key, cl...)
			tr := cs.trace
			if len(tr) > 60 {
				tr = tr[:60]
			}
			stats.Sample(map[string]interface{}{"base": specString(spec), "ops": strings.Join(tr, " ; "), "nontrivial": key != ""})
		}()
		for b := 0; b < nBlocks; b++ {
			cs.trace = append(cs.trace, fmt.Sprintf("[block %d]", b))
			runBlock(t, spec, main, replay, b, b == nBlocks-1, blocks[b], cs)
		}
	})
}

func specString(s baseSpec) string {
	var l []string
	for i, a := range s.Accts {
		x := fmt.Sprintf("A%d=%s", i, classNames[a.Class])
		if a.Nonce > 0 {
			x += fmt.Sprintf(" nonce=%d", a.Nonce)
		}
		if a.Balance != nil {
			x += " bal=" + a.Balance.String()
		}
		for k, v := range a.Data {
			if v != nil {
				x += fmt.Sprintf(" %s=%x", keyNames[k], v)
			}
		}
		l = append(l, x)
	}
	return strings.Join(l, ", ")
}

// ---------------------------------------------------------------- probe for the recorded finding

// TestProbeFC04a replays the minimal case of F-C04-a: an account that is empty at the snapshot
// is no longer Empty() after a reverted write to a fresh slot, and survives Finalise(true).
func TestProbeFC04a(t *testing.T) {
	run := func(withRevertedWrite bool) (emptyBefore, emptyAfter bool, root common.Hash) {
		w, err := buildBase(baseSpec{Accts: make([]baseAcct, nUsers)})
		if err != nil {
			t.Fatalf("base: %v", err)
		}
		a := users[0]
		w.st.CreateAccount(a)
		emptyBefore = w.st.Empty(a)
		if withRevertedWrite {
			id := w.st.Snapshot()
			w.st.SetData(a, dataKeys[2], []byte{1})
			w.st.RevertToSnapshot(id)
		}
		emptyAfter = w.st.Empty(a)
		return emptyBefore, emptyAfter, w.st.IntermediateRoot(true)
	}
	b, a, rootWith := run(true)
	_, _, rootWithout := run(false)
	present := b != a || rootWith != rootWithout
	stats.Probe(t, findingA, "C04", present,
		fmt.Sprintf("CreateAccount(A); Snapshot; SetData(A,k,v); RevertToSnapshot: Empty(A) %v -> %v, IntermediateRoot(true) %s vs %s when the write is never executed "+
			"(storageChange.undo leaves a nil entry in cachedStorage/dirtyStorage, accountObject.empty() counts map entries)", b, a, rootWith.Hex()[:12], rootWithout.Hex()[:12]))
}

func unreadStorageOnlyBase(t *testing.T) *world {
	spec := baseSpec{Accts: make([]baseAcct, nUsers)}
	spec.Accts[0].Class = clHiddenOnly // nonce 0, no code, one storage slot that the block never reads
	w, err := buildBase(spec)
	if err != nil {
		t.Fatalf("base: %v", err)
	}
	return w
}

// TestProbeFC04b: a reverted mutation leaves the account in accountObjectsDirty; if the account
// reports empty() (nonce 0, no code, storage not yet read) Finalise(true) deletes it.
func TestProbeFC04b(t *testing.T) {
	a := users[0]
	w1 := unreadStorageOnlyBase(t)
	id := w1.st.Snapshot()
	w1.st.IncreaseNonce(a)
	w1.st.RevertToSnapshot(id)
	with := w1.st.IntermediateRoot(true)
	c1, _ := w1.st.Commit(true)
	w2 := unreadStorageOnlyBase(t)
	without := w2.st.IntermediateRoot(true)
	c2, _ := w2.st.Commit(true)
	stats.Probe(t, findingB, "C04", with != without,
		fmt.Sprintf("account A loaded with nonce 0, no code, one storage slot (not read in this block): Snapshot; IncreaseNonce(A); RevertToSnapshot; IntermediateRoot(true) = %s, "+
			"without the reverted call %s; %s (the revert does not take A out of accountObjectsDirty, accountObject.empty() ignores unread storage, Finalise(true) deletes A)",
			with.Hex()[:12], without.Hex()[:12], diffTries(w1.adb, w2.adb, c1, c2)))
}

// TestProbeFC04c: touchChange.undo deletes the dirty mark but the object's onDirty callback was
// consumed by touch(), so later mutations of the object are never written to the trie.
func TestProbeFC04c(t *testing.T) {
	a := users[0]
	w1 := unreadStorageOnlyBase(t)
	id := w1.st.Snapshot()
	w1.st.AddFT(a, ftName, big.NewInt(0))
	w1.st.RevertToSnapshot(id)
	w1.st.SetNonce(a, 7)
	seen := w1.st.GetNonce(a)
	with := w1.st.IntermediateRoot(true)
	c1, _ := w1.st.Commit(true)
	w2 := unreadStorageOnlyBase(t)
	w2.st.SetNonce(a, 7)
	without := w2.st.IntermediateRoot(true)
	c2, _ := w2.st.Commit(true)
	stats.Probe(t, findingC, "C04", with != without,
		fmt.Sprintf("account A loaded with nonce 0, no code, unread storage: Snapshot; AddFT(A,%q,0); RevertToSnapshot; SetNonce(A,7): GetNonce(A)=%d but IntermediateRoot(true) = %s, "+
			"without the reverted call %s; %s (touchChange.undo removes A from accountObjectsDirty while A.onDirty stays nil, so the later write is never flushed)",
			ftName, seen, with.Hex()[:12], without.Hex()[:12], diffTries(w1.adb, w2.adb, c1, c2)))
}
