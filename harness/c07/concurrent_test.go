package c07

import (
	"fmt"
	"sync"
	"testing"

	"pgregory.net/rapid"

	"com.tuntun.rangers/node/src/common"
	"com.tuntun.rangers/node/src/middleware/types"

	"verifharness/internal/stats"
)

// Transactions are verified from many goroutines of a node at once (one per network message / RPC request).
// Under one chain configuration a generated set of honest transactions (native and wrapped Ethereum ones) and
// forged relatives (content changed and hash recomputed under the old signature; another key's signature) is
// verified first one by one - honest ones must be admitted, forged ones refused - and then from several
// goroutines at the same time, each on its own copy, many times over: every single verdict must be the same.
func TestConcurrentVerification(t *testing.T) {
	stats.Check(t, 40, 1000, func(t *rapid.T) {
		c := drawChain(t)
		defer c.apply()()
		n := rapid.IntRange(2, 5).Draw(t, "transactions")
		type task struct {
			tx     *types.Transaction
			honest bool
			label  string
		}
		var tasks []task
		for i := 0; i < n; i++ {
			var base *types.Transaction
			kind := "native"
			if rapid.Bool().Draw(t, "eth") {
				kind = "eth"
				k := drawKey(t, "ethKey")
				f := drawEthFields(t)
				payload, _, _, _ := f.sign(t, k, bigFromDec(c.id), "ethSig")
				base = wrap(f, k.addrHex, payload, c.id)
			} else {
				base, _, _ = nativeBase(t, c)
			}
			if err := verify(t, base, c.height); err != nil {
				t.Fatalf("C07 violated (completeness): honest %s transaction rejected: %v\ntx=%s", kind, err, render(base))
			}
			tasks = append(tasks, task{tx: base, honest: true, label: "honest " + kind})
			if kind == "native" {
				forged := clone(base)
				switch rapid.IntRange(0, 1).Draw(t, "forgery") {
				case 0:
					forged.Nonce = base.Nonce + 1
					forged.Hash = refNativeHash(forged)
				default:
					other := drawKey(t, "otherKey")
					r, s, recid := refSign(t, forged.Hash.Bytes(), other, "otherSig")
					forged.Sign = common.BytesToSign(sig65(r, s, 27+recid))
					if other.addrHex == base.Source {
						continue
					}
				}
				if err := verify(t, forged, c.height); err == nil {
					t.Fatalf("C07 violated (soundness): forged native transaction admitted\nforged=%s\nhonest=%s", render(forged), render(base))
				}
				tasks = append(tasks, task{tx: forged, honest: false, label: "forged native"})
			}
		}
		reps := rapid.SampledFrom([]int{5, 20, 80}).Draw(t, "repetitions")
		var wg sync.WaitGroup
		var mu sync.Mutex
		failure := ""
		start := make(chan struct{})
		for i := range tasks {
			wg.Add(1)
			go func(k task) {
				defer wg.Done()
				defer func() {
					if p := recover(); p != nil {
						mu.Lock()
						failure = fmt.Sprintf("%s: panic while %d other transactions were being verified: %v\ntx=%s", k.label, len(tasks)-1, p, render(k.tx))
						mu.Unlock()
					}
				}()
				<-start
				for r := 0; r < reps; r++ {
					err := pool.VerifyTransaction(clone(k.tx), c.height)
					if (err == nil) != k.honest {
						mu.Lock()
						failure = fmt.Sprintf("%s transaction: verdict admitted=%v (err %v) while %d other transactions were being verified in other goroutines (repetition %d); alone the verdict was admitted=%v\ntx=%s", k.label, err == nil, err, len(tasks)-1, r, k.honest, render(k.tx))
						mu.Unlock()
						return
					}
				}
			}(tasks[i])
		}
		close(start)
		wg.Wait()
		if failure != "" {
			t.Fatalf("C07 violated: %s", failure)
		}
		// the digest alone, at a much higher rate and with more goroutines than cores (so that goroutines are
		// preempted in the middle of a digest): the digest of a transaction is a function of its own content
		storm := rapid.SampledFrom([]int{2000, 20000}).Draw(t, "digestRounds")
		nG := rapid.SampledFrom([]int{8, 48}).Draw(t, "digestGoroutines")
		padTo := rapid.SampledFrom([]int{0, 3000, 60000}).Draw(t, "digestPayloadBytes")
		var natives []*types.Transaction
		for _, k := range tasks {
			if k.honest && k.tx.Type != types.TransactionTypeETHTX {
				tx := clone(k.tx)
				for len(tx.ExtraData) < padTo {
					tx.ExtraData += "0123456789abcdef0123456789abcdef0123456789abcdef0123456789abcdef"
				}
				tx.Hash = refNativeHash(tx)
				natives = append(natives, tx)
			}
		}
		if len(natives) > 0 {
			var wg2 sync.WaitGroup
			for g := 0; g < nG; g++ {
				wg2.Add(1)
				go func(tx *types.Transaction) {
					defer wg2.Done()
					for r := 0; r < storm; r++ {
						if h := tx.GenHash(); h != tx.Hash {
							mu.Lock()
							failure = fmt.Sprintf("GenHash of an unchanged transaction gave %x while %d other goroutines were hashing their own transactions (round %d); SHA-256 of its content, and GenHash alone: %x\ntx=%s", h[:], nG-1, r, tx.Hash[:], render(tx))
							mu.Unlock()
							return
						}
					}
				}(clone(natives[g%len(natives)]))
			}
			wg2.Wait()
			if failure != "" {
				t.Fatalf("C07 violated: %s", failure)
			}
			stats.Count("concurrent_digests", int64(nG*storm))
		}
		stats.Case(fmt.Sprintf("conc|%d|%x", len(tasks), tasks[0].tx.Hash[:8]), "concurrent_verification", c.class(), fmt.Sprintf("concurrent_goroutines:%d", len(tasks)), fmt.Sprintf("concurrent_repetitions:%d", reps))
		stats.Count("concurrent_verifications", int64(len(tasks)*reps))
	})
}
