// Package c07 decides C07 "Only authentic transactions are admitted": honest native and wrapped
// Ethereum transactions, built by an independent signer/encoder/wrapper, must be accepted by
// TransactionPool.VerifyTransaction; every single-field / single-bit mutant must be rejected.
package c07

import (
	"crypto/sha256"
	"encoding/hex"
	"fmt"
	"math/big"
	"os"
	"strconv"
	"strings"
	"testing"

	"com.tuntun.rangers/node/src/common"
	"com.tuntun.rangers/node/src/eth_tx"
	"com.tuntun.rangers/node/src/middleware/types"
	"com.tuntun.rangers/node/src/service"
	"com.tuntun.rangers/node/src/storage/rlp"
	"pgregory.net/rapid"

	"verifharness/internal/boot"
	"verifharness/internal/ref"
	"verifharness/internal/stats"
)

const findingA = "F-C07-a"

var pool service.TransactionPool

func TestMain(m *testing.M) {
	stats.SetRule("base = honestly hashed+signed native tx / EIP-155 legacy RLP tx wrapped field by field (independent secp256k1, Keccak, RLP, SHA-256 in the harness), " +
		"on a generated chain configuration (chain id, original chain id, fork height, height on either side). " +
		"non-trivial = a mutant that differs from an ACCEPTED base in exactly one authenticated field / one bit of hash, signature or RLP payload / the chain id " +
		"(or is validly signed by another key / for another chain / without replay protection); distinct by (base hash, mutation group). " +
		"honest bases and count-only twins (high-s, v alias, hex-case aliases) are recorded as trivial")
	stats.Assume("textual conventions of the wrapped form are those of the RPC wrapper: 0x lower-case hex (empty -> 0x0), transferValue = decimal with 18 fractional digits (zero -> \"0\"), " +
		"Data = JSON object with keys gasPrice,gasLimit,transferValue,abiData in that order, ChainId = canonical decimal")
	stats.Assume("chain ids are canonical positive decimals < 2^32; common.Genesis == nil (not a sub chain)")
	stats.Assume("a flipped signature/hash bit yields a signature valid for the same key with negligible probability (2^-128)")
	if _, err := boot.Start(); err != nil {
		fmt.Println("boot failed:", err)
		os.Exit(2)
	}
	pool = boot.Pool()
	stats.Main(m, "C07")
}

type fataler interface {
	Fatalf(format string, args ...any)
}

// verify calls the entry point; a panic is a failure, never a verdict.
func verify(t fataler, tx *types.Transaction, height uint64) (err error) {
	defer func() {
		if r := recover(); r != nil {
			t.Fatalf("VerifyTransaction panicked: %v\ntx=%s height=%d", r, render(tx), height)
		}
	}()
	return pool.VerifyTransaction(tx, height)
}

func render(tx *types.Transaction) string {
	sig := "nil"
	if tx.Sign != nil {
		sig = hex.EncodeToString(tx.Sign.Bytes())
	}
	return fmt.Sprintf("{Source:%q Target:%q Type:%d Time:%q Data:%q ExtraData:%q Nonce:%d ChainId:%q Hash:%x Sign:%s}",
		tx.Source, tx.Target, tx.Type, tx.Time, tx.Data, tx.ExtraData, tx.Nonce, tx.ChainId, tx.Hash[:], sig)
}

func clone(tx *types.Transaction) *types.Transaction {
	c := *tx
	if tx.Sign != nil {
		c.Sign = common.BytesToSign(tx.Sign.Bytes())
	}
	return &c
}

// ---------- chain configuration ----------

type chain struct {
	cur, orig string
	fork      uint64
	height    uint64
	id        string // the chain's id at height (derived here, not read from the node)
}

var presetIds = []string{"1", "2025", "8888", "9500", "9527"}

func genChainId() *rapid.Generator[string] {
	return rapid.OneOf(rapid.SampledFrom(presetIds),
		rapid.Custom(func(t *rapid.T) string {
			return strconv.FormatUint(uint64(rapid.Uint32Range(1, 1<<32-1).Draw(t, "cid")), 10)
		}))
}

func drawChain(t *rapid.T) chain {
	var c chain
	c.cur = genChainId().Draw(t, "chainId")
	if rapid.IntRange(0, 2).Draw(t, "origSame") == 0 {
		c.orig = c.cur
	} else {
		c.orig = genChainId().Draw(t, "origChainId")
	}
	c.fork = rapid.OneOf(rapid.SampledFrom([]uint64{0, 1, 894116}), rapid.Uint64Range(0, 1<<40)).Draw(t, "fork")
	switch rapid.IntRange(0, 5).Draw(t, "heightKind") {
	case 0:
		c.height = c.fork
	case 1:
		c.height = c.fork + 1
	case 2:
		if c.fork > 0 {
			c.height = c.fork - 1
		}
	case 3:
		c.height = 0
	case 4:
		c.height = ^uint64(0)
	default:
		c.height = rapid.Uint64().Draw(t, "height")
	}
	if c.height >= c.fork {
		c.id = c.cur
	} else {
		c.id = c.orig
	}
	return c
}

// apply installs the configuration in the node's process-global chain config.
func (c chain) apply() (restore func()) {
	cfg := &common.LocalChainConfig
	a, b, f := cfg.ChainId, cfg.OriginalChainId, cfg.Proposal001Block
	cfg.ChainId, cfg.OriginalChainId, cfg.Proposal001Block = c.cur, c.orig, c.fork
	return func() { cfg.ChainId, cfg.OriginalChainId, cfg.Proposal001Block = a, b, f }
}

func (c chain) class() string {
	e := "after_fork"
	if c.height < c.fork {
		e = "before_fork"
	}
	if c.cur == c.orig {
		return "chain:" + e + ":same_ids"
	}
	return "chain:" + e + ":distinct_ids"
}

// wrongIds: numerically different chain ids, the other epoch's id first when it differs.
func (c chain) wrongIds(t *rapid.T) []string {
	id, _ := strconv.ParseUint(c.id, 10, 64)
	var out []string
	other := c.cur
	if c.id == c.cur {
		other = c.orig
	}
	if other != c.id {
		out = append(out, other)
	}
	cands := []string{strconv.FormatUint(id+1, 10), strconv.FormatUint(id-1, 10), "0"}
	for _, p := range presetIds {
		if p != c.id {
			cands = append(cands, p)
		}
	}
	pick := rapid.SampledFrom(cands).Draw(t, "wrongId")
	if pick != c.id && (len(out) == 0 || out[0] != pick) {
		out = append(out, pick)
	}
	return out
}

// ---------- keys and the reference signer ----------

type key struct {
	d       *big.Int
	pub     ref.SecpPoint
	addr    [20]byte
	addrHex string
}

var keyCache = map[string]key{}

func mkKey(d *big.Int) key {
	if k, ok := keyCache[d.String()]; ok {
		return k
	}
	k := key{d: d, pub: ref.SecpPub(d)}
	k.addr = ref.SecpEthAddress(k.pub)
	k.addrHex = "0x" + hex.EncodeToString(k.addr[:])
	if len(keyCache) < 4096 {
		keyCache[d.String()] = k
	}
	return k
}

var nMinus1 = new(big.Int).Sub(ref.SecpN, big.NewInt(1))

func scalarFromSeed(seed []byte) *big.Int {
	d := new(big.Int).SetBytes(seed)
	d.Mod(d, nMinus1)
	return d.Add(d, big.NewInt(1))
}

func drawKey(t *rapid.T, label string) key {
	kind := rapid.IntRange(0, 9).Draw(t, label+"Kind")
	if label == "key" {
		stats.Class("key_kind:" + []string{"tiny", "near_n", "31_bytes", "random"}[min(kind, 3)])
	}
	switch kind {
	case 0: // tiny scalar (leading zero bytes in D)
		return mkKey(big.NewInt(int64(rapid.IntRange(1, 5).Draw(t, label+"Small"))))
	case 1: // near the group order
		return mkKey(new(big.Int).Sub(ref.SecpN, big.NewInt(int64(rapid.IntRange(1, 5).Draw(t, label+"NearN")))))
	case 2: // 31-byte scalar
		b := rapid.SliceOfN(rapid.Byte(), 31, 31).Draw(t, label+"Seed31")
		return mkKey(scalarFromSeed(b))
	default:
		b := rapid.SliceOfN(rapid.Byte(), 32, 32).Draw(t, label+"Seed")
		return mkKey(scalarFromSeed(b))
	}
}

// refSign: ECDSA with a generated nonce, normalised to low s, recovery id 0/1.
func refSign(t *rapid.T, z []byte, k key, label string) (r, s *big.Int, recid byte) {
	for i := 0; ; i++ {
		nb := rapid.SliceOfN(rapid.Byte(), 32, 32).Draw(t, fmt.Sprintf("%sNonce%d", label, i))
		r, s, recid, ok := ref.SecpSign(z, k.d, scalarFromSeed(nb))
		if !ok || recid > 1 {
			continue
		}
		if !ref.SecpIsLowS(s) {
			r, s, recid = ref.SecpTwin(r, s, recid)
		}
		return r, s, recid
	}
}

func sig65(r, s *big.Int, v byte) []byte {
	b := make([]byte, 65)
	r.FillBytes(b[:32])
	s.FillBytes(b[32:64])
	b[64] = v
	return b
}

func nodeKey(k key) *common.PrivateKey {
	return common.HexStringToSecKey("0x" + hex.EncodeToString(k.d.FillBytes(make([]byte, 32))))
}

// ---------- generic value generators / mutators ----------

func genU64() *rapid.Generator[uint64] {
	return rapid.OneOf(
		rapid.SampledFrom([]uint64{0, 1, 2, 9, 10, 127, 128, 255, 256, 1<<32 - 1, 1 << 32, 1<<63 - 1, 1 << 63, ^uint64(0)}),
		rapid.Uint64Range(0, 1000), rapid.Uint64())
}

func genHexAddr() *rapid.Generator[string] {
	return rapid.Custom(func(t *rapid.T) string {
		return "0x" + hex.EncodeToString(rapid.SliceOfN(rapid.Byte(), 20, 20).Draw(t, "addr"))
	})
}

var digits = []rune("0123456789")

func genText() *rapid.Generator[string] {
	return rapid.OneOf(
		rapid.Just(""),
		rapid.StringOfN(rapid.RuneFrom(digits), 1, 12, -1),
		genHexAddr(),
		rapid.Custom(func(t *rapid.T) string {
			return fmt.Sprintf(`{"%s":"%s","n":%d}`, rapid.StringMatching(`[a-z]{1,6}`).Draw(t, "jk"),
				rapid.StringMatching(`[0-9a-fx.]{0,20}`).Draw(t, "jv"), rapid.IntRange(0, 99).Draw(t, "jn"))
		}),
		rapid.StringN(0, 40, -1),
	)
}

func genType() *rapid.Generator[int32] {
	return rapid.OneOf(
		rapid.SampledFrom([]int32{0, 1, 2, 3, 4, 5, 6, 7, 99, 100, 187, 189, 200, 600, 612}),
		rapid.Int32().Filter(func(v int32) bool { return v != types.TransactionTypeETHTX }))
}

func mutString(t *rapid.T, old string, label string) string {
	for i := 0; ; i++ {
		var v string
		switch rapid.IntRange(0, 5).Draw(t, fmt.Sprintf("%sMutKind%d", label, i)) {
		case 0:
			v = old + string(rapid.SampledFrom(digits).Draw(t, label+"App"))
		case 1:
			v = string(rapid.SampledFrom(digits).Draw(t, label+"Pre")) + old
		case 2:
			if len(old) > 0 {
				v = old[:len(old)-1]
			}
		case 3: // one byte replaced
			if len(old) > 0 {
				p := rapid.IntRange(0, len(old)-1).Draw(t, label+"Pos")
				b := []byte(old)
				b[p] ^= byte(1 << uint(rapid.IntRange(0, 6).Draw(t, label+"Bit")))
				v = string(b)
			}
		default:
			v = genText().Draw(t, label+"New")
		}
		if v != old {
			return v
		}
	}
}

func mutU64(t *rapid.T, old uint64, label string) uint64 {
	for i := 0; ; i++ {
		var v uint64
		switch rapid.IntRange(0, 3).Draw(t, fmt.Sprintf("%sMutKind%d", label, i)) {
		case 0:
			v = old + 1
		case 1:
			v = old - 1
		case 2:
			v = old ^ (1 << uint(rapid.IntRange(0, 63).Draw(t, label+"Bit")))
		default:
			v = genU64().Draw(t, label+"New")
		}
		if v != old {
			return v
		}
	}
}

func upperHex(s string) string { // 0x-prefixed lower hex -> same bytes, upper-case digits
	if strings.HasPrefix(s, "0x") {
		return "0x" + strings.ToUpper(s[2:])
	}
	return strings.ToUpper(s)
}

// drawBits picks n distinct positions in [0,total) (all of them if n >= total). The positions
// are spread by a splitmix64 stream whose seed is a rapid draw (rapid's own integer draws are
// biased towards small values, which would concentrate the flips in the first bytes).
func drawBits(t *rapid.T, total, n int, label string) []int {
	if n >= total {
		out := make([]int, total)
		for i := range out {
			out[i] = i
		}
		return out
	}
	x := rapid.Uint64().Draw(t, label+"Seed")
	next := func() uint64 {
		x += 0x9e3779b97f4a7c15
		z := x
		z = (z ^ (z >> 30)) * 0xbf58476d1ce4e5b9
		z = (z ^ (z >> 27)) * 0x94d049bb133111eb
		return z ^ (z >> 31)
	}
	seen := map[int]bool{}
	var out []int
	for len(out) < n {
		p := int(next() % uint64(total))
		if !seen[p] {
			seen[p] = true
			out = append(out, p)
		}
	}
	return out
}

// ---------- evaluation bookkeeping ----------

type evaluator struct {
	t      *rapid.T
	height uint64
	base   string // base hash hex
	n      int
}

// mustReject: a mutant of an accepted base; acceptance is a violation.
func (e *evaluator) mustReject(group, name string, tx *types.Transaction, why string) {
	err := verify(e.t, tx, e.height)
	stats.Case(e.base+"|"+group, name)
	e.n++
	if err == nil {
		e.t.Fatalf("C07 violated: inauthentic transaction accepted (%s: %s)\nmutant=%s\nheight=%d chain=%s/%s fork=%d",
			name, why, render(tx), e.height, common.LocalChainConfig.ChainId, common.LocalChainConfig.OriginalChainId, common.LocalChainConfig.Proposal001Block)
	}
}

// otherEpoch: the same accepted transaction presented at a height on the other side of the chain-id fork, where
// the chain's id is a different number: it names (ETH: is signed for) an id that is not the chain's there. The
// verdict must be a function of (transaction, height), whatever was verified before.
func (e *evaluator) otherEpoch(c chain, base *types.Transaction, kind string) {
	if bigFromDec(c.cur).Cmp(bigFromDec(c.orig)) == 0 || c.fork == 0 {
		return
	}
	var h uint64
	if c.height >= c.fork {
		h = c.fork - 1
		if c.fork > 1 && rapid.Bool().Draw(e.t, "otherEpochLow") {
			h = rapid.Uint64Range(0, c.fork-1).Draw(e.t, "otherEpochHeight")
		}
	} else {
		h = c.fork
		if rapid.Bool().Draw(e.t, "otherEpochHigh") {
			h = rapid.Uint64Range(c.fork, ^uint64(0)).Draw(e.t, "otherEpochHeight")
		}
	}
	err := verify(e.t, clone(base), h)
	stats.Case(e.base+"|otherEpoch", kind+"_same_tx_on_other_side_of_chainid_fork")
	if err == nil {
		e.t.Fatalf("C07 violated: a transaction for chain id %s, accepted at height %d, is also accepted at height %d where the chain id is another one (chain=%s/%s fork=%d)\ntx=%s",
			c.id, c.height, h, c.cur, c.orig, c.fork, render(base))
	}
	// and it is still accepted where it belongs
	if err := verify(e.t, clone(base), c.height); err != nil {
		e.t.Fatalf("C07 violated (completeness): honest transaction rejected at height %d after having been accepted there before (and refused at height %d in between): %v\ntx=%s", c.height, h, err, render(base))
	}
}

// countOnly: a variant on which the property statement is silent.
func (e *evaluator) countOnly(name string, tx *types.Transaction) {
	err := verify(e.t, tx, e.height)
	stats.Case("", name)
	if err == nil {
		stats.Count("accepted:"+name, 1)
	} else {
		stats.Count("rejected:"+name, 1)
	}
}

// ---------- native transactions ----------

func refNativeHash(tx *types.Transaction) common.Hash {
	var sb strings.Builder
	sb.WriteString(tx.Data)
	sb.WriteString(strconv.FormatUint(tx.Nonce, 10))
	sb.WriteString(tx.Source)
	sb.WriteString(tx.Target)
	sb.WriteString(strconv.FormatInt(int64(tx.Type), 10))
	sb.WriteString(tx.Time)
	sb.WriteString(tx.ExtraData)
	sb.WriteString(tx.ChainId)
	h := sha256.Sum256([]byte(sb.String()))
	return common.Hash(h)
}

func drawNativeContent(t *rapid.T, k key, c chain) *types.Transaction {
	return &types.Transaction{
		Source:    k.addrHex,
		Target:    genText().Draw(t, "target"),
		Type:      genType().Draw(t, "type"),
		Time:      rapid.OneOf(rapid.Just(""), rapid.StringMatching(`20[0-9]{2}-[01][0-9]-[0-3][0-9] [0-2][0-9]:[0-5][0-9]:[0-5][0-9](\.[0-9]{1,9})?( \+0[0-9]00 UTC)?`), genText()).Draw(t, "time"),
		Data:      genText().Draw(t, "data"),
		ExtraData: genText().Draw(t, "extraData"),
		Nonce:     genU64().Draw(t, "nonce"),
		ChainId:   c.id,
		// not authenticated, carried along: must not matter
		RequestId:       rapid.Uint64Range(0, 3).Draw(t, "requestId"),
		SocketRequestId: rapid.SampledFrom([]string{"", "7"}).Draw(t, "socketRequestId"),
	}
}

func nativeBase(t *rapid.T, c chain) (*types.Transaction, key, string) {
	k := drawKey(t, "key")
	tx := drawNativeContent(t, k, c)
	tx.Hash = refNativeHash(tx)
	if g := tx.GenHash(); g != tx.Hash {
		t.Fatalf("C07 violated: GenHash is not the digest of the content: GenHash=%x, SHA-256(content)=%x\ntx=%s", g[:], tx.Hash[:], render(tx))
	}
	signer := "ref"
	if rapid.IntRange(0, 3).Draw(t, "signer") == 0 {
		// the node's own signer; its output must verify under the reference and recover to the key
		signer = "node"
		s := nodeKey(k).Sign(tx.Hash.Bytes())
		tx.Sign = &s
		b := s.Bytes()
		r, ss := new(big.Int).SetBytes(b[:32]), new(big.Int).SetBytes(b[32:64])
		if b[64] != 27 && b[64] != 28 {
			t.Fatalf("node signer: v=%d, want 27/28", b[64])
		}
		if !ref.SecpVerify(tx.Hash.Bytes(), r, ss, k.pub) {
			t.Fatalf("node signer produced a signature the reference ECDSA rejects: d=%x hash=%x sig=%x", k.d, tx.Hash[:], b)
		}
		q, ok := ref.SecpRecover(tx.Hash.Bytes(), r, ss, b[64]-27)
		if !ok || q.X.Cmp(k.pub.X) != 0 || q.Y.Cmp(k.pub.Y) != 0 {
			t.Fatalf("node signer: recovery id does not recover the signing key: d=%x hash=%x sig=%x", k.d, tx.Hash[:], b)
		}
		if !ref.SecpIsLowS(ss) {
			stats.Count("node_signer_high_s", 1)
		}
	} else {
		r, s, recid := refSign(t, tx.Hash.Bytes(), k, "sig")
		tx.Sign = common.BytesToSign(sig65(r, s, 27+recid))
	}
	// the node's address derivation must agree with the reference
	if a := nodeKey(k).GetPubKey(); a.GetAddress().GetHexString() != k.addrHex {
		t.Fatalf("address derivation differs: node %s, reference %s (d=%x)", a.GetAddress().GetHexString(), k.addrHex, k.d)
	}
	return tx, k, signer
}

func checkNative(t *rapid.T, hashBits, sigBits int) {
	c := drawChain(t)
	defer c.apply()()
	base, k, signer := nativeBase(t, c)
	stats.Case("", "native_honest", "native_honest_signer:"+signer, c.class())
	if err := verify(t, base, c.height); err != nil {
		t.Fatalf("C07 violated (completeness): honest native transaction rejected: %v\ntx=%s\nheight=%d chain=%s/%s fork=%d key d=%x",
			err, render(base), c.height, c.cur, c.orig, c.fork, k.d)
	}
	e := &evaluator{t: t, height: c.height, base: hex.EncodeToString(base.Hash[:])}
	e.otherEpoch(c, base, "native")
	rehash := func(tx *types.Transaction) *types.Transaction { tx.Hash = refNativeHash(tx); return tx }
	resign := func(tx *types.Transaction, by key, label string) *types.Transaction {
		r, s, recid := refSign(t, tx.Hash.Bytes(), by, label)
		tx.Sign = common.BytesToSign(sig65(r, s, 27+recid))
		return tx
	}

	// one authenticated field replaced; (a) hash and signature kept, (b) hash recomputed, signature kept
	other := drawKey(t, "otherKey")
	for other.addrHex == k.addrHex {
		other = drawKey(t, "otherKeyAgain")
	}
	fields := []struct {
		name string
		set  func(tx *types.Transaction)
	}{
		{"Data", func(tx *types.Transaction) { tx.Data = mutString(t, tx.Data, "mData") }},
		{"Nonce", func(tx *types.Transaction) { tx.Nonce = mutU64(t, tx.Nonce, "mNonce") }},
		{"Source", func(tx *types.Transaction) {
			switch rapid.IntRange(0, 2).Draw(t, "mSourceKind") {
			case 0:
				tx.Source = other.addrHex
			case 1:
				tx.Source = upperHex(tx.Source)
			default:
				tx.Source = mutString(t, tx.Source, "mSource")
			}
		}},
		{"Target", func(tx *types.Transaction) { tx.Target = mutString(t, tx.Target, "mTarget") }},
		{"Type", func(tx *types.Transaction) {
			for {
				v := rapid.OneOf(genType(), rapid.Just(int32(types.TransactionTypeETHTX)), rapid.Just(tx.Type+1), rapid.Just(tx.Type-1)).Draw(t, "mType")
				if v != tx.Type {
					tx.Type = v
					return
				}
			}
		}},
		{"Time", func(tx *types.Transaction) { tx.Time = mutString(t, tx.Time, "mTime") }},
		{"ExtraData", func(tx *types.Transaction) { tx.ExtraData = mutString(t, tx.ExtraData, "mExtra") }},
		{"ChainId", func(tx *types.Transaction) {
			cands := append(c.wrongIds(t), "", "0"+c.id, c.id+"0", " "+c.id, "+"+c.id)
			tx.ChainId = rapid.SampledFrom(cands).Draw(t, "mChainId")
		}},
	}
	for _, f := range fields {
		m := clone(base)
		f.set(m)
		e.mustReject("field:"+f.name, "native_field_"+f.name+"_hash_kept", m, "field changed, declared hash no longer the digest of the content")
		m2 := rehash(clone(m))
		e.mustReject("field:"+f.name, "native_field_"+f.name+"_rehashed_sig_kept", m2, "field changed and re-hashed, signature is for the old hash")
	}

	// honestly hashed and signed for another chain id (replay from the other epoch / another chain)
	for i, w := range c.wrongIds(t) {
		m := clone(base)
		m.ChainId = w
		resign(rehash(m), k, fmt.Sprintf("sigChain%d", i))
		e.mustReject("chainid", "native_chainid_wrong_honestly_signed", m, "chain id "+w+" is not the chain's ("+c.id+")")
	}

	// declared sender is not the signer
	m := clone(base)
	m.Source = other.addrHex
	resign(rehash(m), k, "sigSrc")
	e.mustReject("signer", "native_source_other_signed_by_base_key", m, "signature recovers to a key that is not the declared sender")
	m = resign(clone(base), other, "sigOther")
	e.mustReject("signer", "native_signed_by_other_key", m, "valid signature of another key")
	m = clone(base)
	m.Sign = nil
	e.mustReject("signer", "native_no_signature", m, "no signature")

	// single bits of the declared hash
	for _, p := range drawBits(t, 256, hashBits, "hashBit") {
		m := clone(base)
		m.Hash[p/8] ^= 1 << uint(p%8)
		e.mustReject("hashbit", "native_hash_bit", m, fmt.Sprintf("hash bit %d flipped", p))
	}
	// single bits of the signature: r, s (sampled), v (all 8)
	sb := base.Sign.Bytes()
	pos := drawBits(t, 512, sigBits, "sigBit")
	for i := 512; i < 520; i++ {
		pos = append(pos, i)
	}
	for _, p := range pos {
		b := append([]byte{}, sb...)
		b[p/8] ^= 1 << uint(p%8)
		part := "r"
		if p >= 512 {
			part = "v"
		} else if p >= 256 {
			part = "s"
		}
		m := clone(base)
		m.Sign = common.BytesToSign(b)
		e.mustReject("sigbit:"+part, "native_sig_"+part+"_bit", m, fmt.Sprintf("signature bit %d flipped", p))
	}

	// twins: other encodings / other valid signatures of the same key over the same hash - counted, not asserted
	r, s := new(big.Int).SetBytes(sb[:32]), new(big.Int).SetBytes(sb[32:64])
	tr, ts, tv := ref.SecpTwin(r, s, sb[64]-27)
	m = clone(base)
	m.Sign = common.BytesToSign(sig65(tr, ts, 27+tv))
	// the mirror signature (r, n-s, flipped recovery id) is a CHANGED signature of an accepted transaction: the
	// statement requires rejection, and the node's own verify rejects the high-s form
	e.mustReject("sigtwin", "native_twin_high_s", m, "signature replaced by its mirror (r, n-s, recovery id flipped): same recovered key, different signature bytes")
	m = clone(base)
	m.Sign = common.BytesToSign(sig65(r, s, sb[64]-27))
	e.countOnly("native_twin_v_0_1", m)
	// the last signature byte is part of the signature and not covered by the hash: every value other than the
	// recovery id in its two spellings (id, 27+id) is a changed signature. All values k*27 + (0..3), the
	// neighbours of the honest value and a generated handful of others are tried in every case.
	tryV := map[byte]bool{}
	for k := 0; k < 10; k++ {
		for j := 0; j < 4; j++ {
			if v := k*27 + j; v < 256 {
				tryV[byte(v)] = true
			}
		}
	}
	for _, d := range []int{-2, -1, 1, 2, 4, 8, 35, 36, 128} {
		tryV[byte(int(sb[64])+d)] = true
	}
	for i := 0; i < 6; i++ {
		tryV[rapid.Byte().Draw(t, "otherV")] = true
	}
	for v := 0; v < 256; v++ {
		if !tryV[byte(v)] || byte(v) == sb[64] || byte(v) == sb[64]-27 {
			continue
		}
		m = clone(base)
		m.Sign = common.BytesToSign(sig65(r, s, byte(v)))
		e.mustReject("sigv", "native_sig_v_value", m, fmt.Sprintf("last signature byte %d replaced by %d", sb[64], v))
	}
	m = clone(base)
	m.Source = upperHex(m.Source)
	resign(rehash(m), k, "sigUpper")
	e.countOnly("native_source_uppercase_alias_signed", m)
	// fields outside the authenticated set do not matter
	m = clone(base)
	m.RequestId, m.SocketRequestId, m.ExtraDataType = m.RequestId+1, m.SocketRequestId+"x", m.ExtraDataType+1
	e.countOnly("native_unauthenticated_fields_changed", m)

	stats.Count("mutants_asserted", int64(e.n))
	stats.Sample(map[string]interface{}{"kind": "native", "base": render(base), "height": c.height, "chain": c.cur + "/" + c.orig + "@" + strconv.FormatUint(c.fork, 10), "mutants": e.n})
}

func TestNative(t *testing.T) {
	stats.Check(t, 500, 5000, func(t *rapid.T) { checkNative(t, 6, 12) })
}

// every bit of hash and signature
func TestNativeAllBits(t *testing.T) {
	stats.Check(t, 10, 100, func(t *rapid.T) { checkNative(t, 256, 512) })
	stats.Exhaustive("per base: all 256 hash bits and all 520 signature bits (TestNativeAllBits)")
}

// ---------- wrapped Ethereum transactions ----------

type ethFields struct {
	nonce    uint64
	gasPrice *big.Int
	gas      uint64
	to       *[20]byte
	value    *big.Int
	data     []byte
}

var max256 = new(big.Int).Sub(new(big.Int).Lsh(big.NewInt(1), 256), big.NewInt(1))

func genBig256() *rapid.Generator[*big.Int] {
	e18 := new(big.Int).Exp(big.NewInt(10), big.NewInt(18), nil)
	return rapid.Custom(func(t *rapid.T) *big.Int {
		switch rapid.IntRange(0, 4).Draw(t, "bigKind") {
		case 0:
			return big.NewInt(int64(rapid.IntRange(0, 300).Draw(t, "small")))
		case 1:
			return new(big.Int).Mul(e18, big.NewInt(int64(rapid.IntRange(0, 1000).Draw(t, "ether"))))
		case 2:
			return new(big.Int).SetUint64(rapid.Uint64().Draw(t, "u64"))
		case 3:
			return new(big.Int).Set(rapid.SampledFrom([]*big.Int{max256, e18, big.NewInt(1000000000), new(big.Int).Sub(e18, big.NewInt(1)), new(big.Int).Lsh(big.NewInt(1), 255)}).Draw(t, "bigBoundary"))
		default:
			return new(big.Int).SetBytes(rapid.SliceOfN(rapid.Byte(), 0, 32).Draw(t, "bigBytes"))
		}
	})
}

func drawEthFields(t *rapid.T) ethFields {
	f := ethFields{
		nonce:    genU64().Draw(t, "ethNonce"),
		gasPrice: genBig256().Draw(t, "gasPrice"),
		gas:      genU64().Draw(t, "gas"),
		value:    genBig256().Draw(t, "value"),
	}
	if rapid.IntRange(0, 3).Draw(t, "toKind") != 0 {
		var a [20]byte
		switch rapid.IntRange(0, 4).Draw(t, "toAddrKind") {
		case 0: // zero address
		case 1:
			a[19] = byte(rapid.IntRange(1, 9).Draw(t, "toPrecompile"))
		default:
			copy(a[:], rapid.SliceOfN(rapid.Byte(), 20, 20).Draw(t, "to"))
		}
		f.to = &a
	}
	switch rapid.IntRange(0, 3).Draw(t, "dataKind") {
	case 0:
	case 1:
		f.data = []byte{byte(rapid.IntRange(0, 255).Draw(t, "data1"))}
	default:
		f.data = rapid.SliceOfN(rapid.Byte(), 2, 150).Draw(t, "ethData")
	}
	return f
}

func (f ethFields) items() []*ref.Item {
	to := ref.B(nil)
	if f.to != nil {
		to = ref.B(f.to[:])
	}
	return []*ref.Item{ref.U(f.nonce), ref.Big(f.gasPrice), ref.U(f.gas), to, ref.Big(f.value), ref.B(f.data)}
}

// sigHash: EIP-155 signing hash for chainId, or the legacy (unprotected) one when chainId == nil.
func (f ethFields) sigHash(chainId *big.Int) []byte {
	it := f.items()
	if chainId != nil {
		it = append(it, ref.Big(chainId), ref.U(0), ref.U(0))
	}
	h := ref.Keccak256(ref.RLPEncode(ref.L(it...)))
	return h[:]
}

func (f ethFields) payload(v, r, s *big.Int) []byte {
	it := append(f.items(), ref.Big(v), ref.Big(r), ref.Big(s))
	return ref.RLPEncode(ref.L(it...))
}

// sign returns the raw payload signed by k: EIP-155 for chainId, or unprotected (v=27/28) if chainId == nil.
func (f ethFields) sign(t *rapid.T, k key, chainId *big.Int, label string) (payload []byte, v, r, s *big.Int) {
	r, s, recid := refSign(t, f.sigHash(chainId), k, label)
	if chainId == nil {
		v = big.NewInt(27 + int64(recid))
	} else {
		v = new(big.Int).Lsh(chainId, 1)
		v.Add(v, big.NewInt(35+int64(recid)))
	}
	return f.payload(v, r, s), v, r, s
}

func hex0x(b []byte) string {
	if len(b) == 0 {
		return "0x0"
	}
	return "0x" + hex.EncodeToString(b)
}

func etherString(v *big.Int) string { // wei -> decimal with 18 fractional digits
	if v.Sign() == 0 {
		return "0"
	}
	s := v.String()
	if len(s) <= 18 {
		s = strings.Repeat("0", 19-len(s)) + s
	}
	return s[:len(s)-18] + "." + s[len(s)-18:]
}

func ethData(gasPrice *big.Int, gas uint64, value *big.Int, data []byte) string {
	return fmt.Sprintf(`{"gasPrice":"%s","gasLimit":"%d","transferValue":"%s","abiData":"%s"}`, gasPrice.String(), gas, etherString(value), hex0x(data))
}

// wrap: the node transaction carrying an Ethereum payload, built from the field list of the
// property (sender, target, nonce, value, gas, data, hash, raw payload; declared chain id).
func wrap(f ethFields, sender string, payload []byte, chainId string) *types.Transaction {
	tx := &types.Transaction{
		Source:    sender,
		Type:      types.TransactionTypeETHTX,
		Nonce:     f.nonce,
		ChainId:   chainId,
		Data:      ethData(f.gasPrice, f.gas, f.value, f.data),
		Hash:      common.Hash(ref.Keccak256(payload)),
		ExtraData: hex0x(payload),
	}
	if f.to != nil {
		tx.Target = "0x" + hex.EncodeToString(f.to[:])
	}
	return tx
}

func bigFromDec(s string) *big.Int {
	v, _ := new(big.Int).SetString(s, 10)
	return v
}

// unprotected: an unprotected (v = 27/28) payload wrapped the way the wrapper would
// (declared chain id "0").
func unprotected(t *rapid.T, f ethFields, k key, label string) (*types.Transaction, []byte) {
	p, _, _, _ := f.sign(t, k, nil, label)
	return wrap(f, k.addrHex, p, "0"), p
}

func checkEth(t *rapid.T, hashBits, payloadBits int) {
	c := drawChain(t)
	defer c.apply()()
	k := drawKey(t, "key")
	f := drawEthFields(t)
	cid := bigFromDec(c.id)
	payload, v, r, s := f.sign(t, k, cid, "sig")
	base := wrap(f, k.addrHex, payload, c.id)
	toClass := "eth_to:addr"
	if f.to == nil {
		toClass = "eth_to:create"
	}
	stats.Case("", "eth_honest", toClass, c.class(), fmt.Sprintf("eth_datalen:%d", min(len(f.data), 2)))

	// differential: the node's decoder / signer / wrapper against the independent construction
	ethTx := new(eth_tx.Transaction)
	if err := rlp.DecodeBytes(payload, ethTx); err != nil {
		t.Fatalf("node RLP decoder rejects a canonical legacy transaction %x: %v", payload, err)
	}
	signer := eth_tx.NewEIP155Signer(cid)
	if h := signer.Hash(ethTx); string(h[:]) != string(f.sigHash(cid)) {
		t.Fatalf("EIP-155 signing hash differs: node %x, reference %x (payload %x, chain %s)", h[:], f.sigHash(cid), payload, c.id)
	}
	sender, err := eth_tx.Sender(signer, ethTx)
	if err != nil || sender != common.Address(k.addr) {
		t.Fatalf("C07 violated (completeness): EIP-155 sender recovery: got %x err %v, want %x (payload %x, chain %s)", sender[:], err, k.addr[:], payload, c.id)
	}
	conv := eth_tx.ConvertTx(ethTx, sender, payload)
	if conv.Source != base.Source || conv.Target != base.Target || conv.Type != base.Type || conv.Nonce != base.Nonce || conv.ChainId != base.ChainId ||
		conv.Data != base.Data || conv.Hash != base.Hash || conv.ExtraData != base.ExtraData {
		t.Fatalf("ConvertTx does not wrap the payload field by field:\n node: %s\n want: %s", render(conv), render(base))
	}

	if err := verify(t, base, c.height); err != nil {
		t.Fatalf("C07 violated (completeness): honest EIP-155 transaction rejected: %v\ntx=%s\nheight=%d chain=%s/%s fork=%d key d=%x",
			err, render(base), c.height, c.cur, c.orig, c.fork, k.d)
	}
	e := &evaluator{t: t, height: c.height, base: hex.EncodeToString(base.Hash[:])}
	e.otherEpoch(c, base, "eth")
	other := drawKey(t, "otherKey")
	for other.addrHex == k.addrHex {
		other = drawKey(t, "otherKeyAgain")
	}

	// declared fields, one at a time
	m := clone(base)
	m.Source = other.addrHex
	e.mustReject("field:Source", "eth_field_Source", m, "declared sender is not the payload's signer")
	m = clone(base)
	if f.to == nil {
		m.Target = genHexAddr().Draw(t, "mTargetAddr")
	} else {
		for m.Target == base.Target {
			m.Target = rapid.OneOf(rapid.Just(""), genHexAddr(), rapid.Just(base.Target[:len(base.Target)-1])).Draw(t, "mTarget")
		}
	}
	e.mustReject("field:Target", "eth_field_Target", m, "declared target is not the payload's recipient")
	m = clone(base)
	m.Nonce = mutU64(t, m.Nonce, "mNonce")
	e.mustReject("field:Nonce", "eth_field_Nonce", m, "declared nonce is not the payload's")
	m = clone(base)
	for m.Type == base.Type {
		m.Type = genType().Draw(t, "mType")
	}
	e.mustReject("field:Type", "eth_field_Type", m, "not an ETH transaction any more; hash is not the native digest and there is no signature")
	for _, w := range append(c.wrongIds(t), "") {
		m = clone(base)
		m.ChainId = w
		e.mustReject("chainid", "eth_field_ChainId", m, "declared chain id "+w+" is not the payload's/chain's "+c.id)
	}
	var dataMut = []struct {
		name string
		data string
	}{
		{"value", ethData(f.gasPrice, f.gas, mutBig(t, f.value, "mValue"), f.data)},
		{"gasLimit", ethData(f.gasPrice, mutU64(t, f.gas, "mGas"), f.value, f.data)},
		{"gasPrice", ethData(mutBig(t, f.gasPrice, "mGasPrice"), f.gas, f.value, f.data)},
		{"abiData", ethData(f.gasPrice, f.gas, f.value, mutBytes(t, f.data, "mAbi"))},
	}
	for _, d := range dataMut {
		m = clone(base)
		m.Data = d.data
		e.mustReject("field:Data", "eth_field_Data_"+d.name, m, "declared "+d.name+" is not the payload's")
	}
	// declared hash bits
	for _, p := range drawBits(t, 256, hashBits, "hashBit") {
		m = clone(base)
		m.Hash[p/8] ^= 1 << uint(p%8)
		e.mustReject("hashbit", "eth_hash_bit", m, fmt.Sprintf("hash bit %d flipped", p))
	}
	// payload bits (declared fields kept)
	for _, p := range drawBits(t, len(payload)*8, payloadBits, "payloadBit") {
		b := append([]byte{}, payload...)
		b[p/8] ^= 1 << uint(p%8)
		m = clone(base)
		m.ExtraData = hex0x(b)
		region := "body"
		if p/8 >= len(payload)-67 {
			region = "vrs"
		} else if p/8 < 3 {
			region = "head"
		}
		e.mustReject("payloadbit:"+region, "eth_payload_bit_"+region, m, fmt.Sprintf("payload bit %d flipped; declared sender/hash/fields are those of the original payload", p))
	}
	// length-changing relatives of the signed payload (declared fields and hash kept): bytes appended, a second
	// copy appended, bytes prepended, the last byte cut off - the data is no longer exactly the signed RLP payload
	tail := rapid.SliceOfN(rapid.Byte(), 1, 5).Draw(t, "payloadTail")
	for _, v := range []struct {
		name string
		b    []byte
	}{
		{"tail_appended", append(append([]byte{}, payload...), tail...)},
		{"zero_byte_appended", append(append([]byte{}, payload...), 0)},
		{"payload_twice", append(append([]byte{}, payload...), payload...)},
		{"byte_prepended", append([]byte{tail[0]}, payload...)},
		{"last_byte_cut", append([]byte{}, payload[:len(payload)-1]...)},
	} {
		m = clone(base)
		m.ExtraData = hex0x(v.b)
		e.mustReject("payloadlen", "eth_payload_"+v.name, m, "the payload carried is not exactly the signed RLP transaction ("+v.name+")")
	}
	// other JSON texts for the declared Data that still contain the signed members: members added (also in
	// another letter case, which the executor's decoder would prefer), members reordered, white space around -
	// the declared data is not exactly what the signed payload determines
	{
		d := base.Data
		if strings.HasPrefix(d, "{") && strings.HasSuffix(d, "}") && len(d) > 2 {
			inner := d[1 : len(d)-1]
			parts := strings.Split(inner, ",\"")
			reordered := inner
			if len(parts) >= 2 {
				reordered = "\"" + parts[len(parts)-1] + "," + parts[0]
				for _, p := range parts[1 : len(parts)-1] {
					reordered += ",\"" + p
				}
			}
			for _, v := range []struct{ name, data string }{
				{"member_added", "{" + inner + `,"memo":"x"}`},
				{"member_added_other_case", "{" + inner + `,"TransferValue":"1000","AbiData":"0xffffffff"}`},
				{"member_duplicated", "{" + inner + `,"transferValue":"1000"}`},
				{"members_reordered", "{" + reordered + "}"},
				{"leading_blank", " " + d},
				{"trailing_newline", d + "\n"},
				{"inner_blank", "{ " + inner + "}"},
			} {
				if v.data == d {
					continue
				}
				m = clone(base)
				m.Data = v.data
				e.mustReject("datajson", "eth_data_json_"+v.name, m, "declared Data is another JSON text ("+v.name+") than the one the signed payload determines")
			}
		}
	}
	// payload replaced by another honestly signed payload of the same key (nonce changed)
	f2 := f
	f2.nonce = mutU64(t, f.nonce, "mNonce2")
	p2, _, _, _ := f2.sign(t, k, cid, "sig2")
	m = clone(base)
	m.ExtraData = hex0x(p2)
	e.mustReject("payload", "eth_payload_other_signed_payload", m, "payload is another signed transaction; declared nonce/hash are not its")
	// same content signed by another key, declared sender unchanged
	p3, _, _, _ := f.sign(t, other, cid, "sig3")
	m = wrap(f, k.addrHex, p3, c.id)
	e.mustReject("signer", "eth_signed_by_other_key", m, "payload signed by another key than the declared sender")

	// validly signed for another chain
	for i, w := range c.wrongIds(t) {
		if w == "0" {
			continue // chain id 0 under EIP-155 is not a protected form
		}
		pw, _, _, _ := f.sign(t, k, bigFromDec(w), fmt.Sprintf("sigChain%d", i))
		e.mustReject("chainid", "eth_signed_for_other_chain", wrap(f, k.addrHex, pw, w), "payload is EIP-155-signed for chain "+w+", not "+c.id)
		e.mustReject("chainid", "eth_signed_for_other_chain_declared_ours", wrap(f, k.addrHex, pw, c.id), "payload is EIP-155-signed for chain "+w+", not "+c.id)
	}
	// not replay protected at all
	mu, pu := unprotected(t, f, k, "sigUnprot")
	if stats.IsKnown(findingA) {
		stats.Exclude(findingA)
	} else {
		e.mustReject("unprotected", "eth_unprotected_v27_28", mu, "payload is signed without EIP-155 replay protection (v=27/28), it is not bound to this chain")
	}
	e.mustReject("unprotected", "eth_unprotected_declared_ours", wrap(f, k.addrHex, pu, c.id), "payload is signed without EIP-155 replay protection (v=27/28), it is not bound to this chain")

	// count-only: other valid signature / other spellings of the same content
	tr, ts, tv := ref.SecpTwin(r, s, byte(new(big.Int).Sub(v, new(big.Int).Add(new(big.Int).Lsh(cid, 1), big.NewInt(35))).Uint64()))
	vt := new(big.Int).Lsh(cid, 1)
	vt.Add(vt, big.NewInt(35+int64(tv)))
	e.mustReject("sigtwin", "eth_twin_high_s", wrap(f, k.addrHex, f.payload(vt, tr, ts), c.id), "payload signature replaced by its high-s mirror")
	m = clone(base)
	m.Source = upperHex(m.Source)
	e.countOnly("eth_alias_source_uppercase", m)
	m = clone(base)
	m.ExtraData = rapid.SampledFrom([]string{upperHex(base.ExtraData), base.ExtraData[2:], base.ExtraData + "zz", "0X" + base.ExtraData[2:]}).Draw(t, "extraAlias")
	e.countOnly("eth_alias_extradata_spelling", m)
	m = clone(base)
	m.Data = fmt.Sprintf(`{"abiData":"%s","gasLimit":"%d","gasPrice":"%s","transferValue":"%s"}`, hex0x(f.data), f.gas, f.gasPrice.String(), etherString(f.value))
	e.countOnly("eth_alias_data_key_order", m)
	m = clone(base)
	m.ChainId = "0" + m.ChainId
	e.countOnly("eth_alias_chainid_leading_zero", m)
	m = clone(base)
	m.Time, m.RequestId = "2021-01-01", m.RequestId+1
	e.countOnly("eth_unauthenticated_fields_changed", m)

	stats.Count("mutants_asserted", int64(e.n))
	stats.Sample(map[string]interface{}{"kind": "eth", "base": render(base), "height": c.height, "chain": c.cur + "/" + c.orig + "@" + strconv.FormatUint(c.fork, 10), "mutants": e.n})
}

func mutBig(t *rapid.T, old *big.Int, label string) *big.Int {
	for i := 0; ; i++ {
		var v *big.Int
		switch rapid.IntRange(0, 2).Draw(t, fmt.Sprintf("%sKind%d", label, i)) {
		case 0:
			v = new(big.Int).Add(old, big.NewInt(1))
		case 1:
			v = new(big.Int).Sub(old, big.NewInt(1))
		default:
			v = genBig256().Draw(t, label+"New")
		}
		if v.Sign() >= 0 && v.Cmp(max256) <= 0 && v.Cmp(old) != 0 {
			return v
		}
	}
}

func mutBytes(t *rapid.T, old []byte, label string) []byte {
	switch k := rapid.IntRange(0, 2).Draw(t, label+"Kind"); {
	case k == 0 && len(old) > 0:
		b := append([]byte{}, old...)
		p := rapid.IntRange(0, len(b)*8-1).Draw(t, label+"Bit")
		b[p/8] ^= 1 << uint(p%8)
		return b
	case k == 1 && len(old) > 0:
		return append([]byte{}, old[:len(old)-1]...)
	default:
		return append(append([]byte{}, old...), rapid.Byte().Draw(t, label+"App"))
	}
}

func TestEth(t *testing.T) {
	stats.Check(t, 500, 5000, func(t *rapid.T) { checkEth(t, 6, 20) })
}

// every bit of the declared hash and of the RLP payload
func TestEthAllBits(t *testing.T) {
	stats.Check(t, 8, 80, func(t *rapid.T) { checkEth(t, 256, 1<<20) })
	stats.Exhaustive("per base: all 256 declared-hash bits and all bits of the RLP payload (TestEthAllBits)")
}

// ---------- recorded finding ----------

// F-C07-a: a payload signed without EIP-155 replay protection (v = 27/28), wrapped with the
// declared chain id "0", is accepted.
func TestProbeFC07a(t *testing.T) {
	k := mkKey(big.NewInt(0x0c07))
	to := [20]byte{19: 0x42}
	f := ethFields{nonce: 7, gasPrice: big.NewInt(1000000000), gas: 21000, to: &to, value: big.NewInt(1), data: nil}
	r, s, recid, ok := ref.SecpSign(f.sigHash(nil), k.d, big.NewInt(0x5eed))
	if !ok {
		t.Fatalf("probe signature failed")
	}
	if !ref.SecpIsLowS(s) {
		r, s, recid = ref.SecpTwin(r, s, recid)
	}
	tx := wrap(f, k.addrHex, f.payload(big.NewInt(27+int64(recid)), r, s), "0")
	present := verify(t, tx, 1) == nil
	stats.Probe(t, findingA, "C07", present, "verifyETHTx accepts an Ethereum payload signed without EIP-155 replay protection (v=27/28, declared chain id \"0\"): "+
		"EIP155Signer.Sender falls back to Homestead recovery for unprotected signatures; e.g. "+render(tx))
}
