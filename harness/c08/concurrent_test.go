package c08

import (
	"bytes"
	"fmt"
	"sync"
	"testing"

	"com.tuntun.rangers/node/src/storage/rlp"
	"pgregory.net/rapid"

	"verifharness/internal/ref"
	"verifharness/internal/stats"
)

// Encoding and decoding are called from many goroutines of a node at once (block and transaction hashing, the
// trie hasher, the wire handlers), each on its own values: a generated set of values with reference encodings
// is encoded and decoded from several goroutines at the same time, many times over; every single encoding must
// be the reference encoding and every decoded value equal to the original.
func TestConcurrentCoding(t *testing.T) {
	stats.Check(t, 300, 6000, func(t *rapid.T) {
		n := rapid.IntRange(2, 6).Draw(t, "goroutines")
		type task struct {
			desc string
			once func() string // "" when encode gives the reference bytes and decode gives the value back
		}
		var tasks []task
		for i := 0; i < n; i++ {
			switch rapid.IntRange(0, 2).Draw(t, "kind") {
			case 0:
				v, tr := genMixed(t)
				want := ref.RLPEncode(tr)
				tasks = append(tasks, task{desc: "struct " + tr.String(), once: func() string {
					enc, err := rlp.EncodeToBytes(&v)
					if err != nil || !bytes.Equal(enc, want) {
						return fmt.Sprintf("encode: err=%v got %x want %x", err, enc, want)
					}
					var dec Mixed
					dec.O.Skip = v.O.Skip
					if err := rlp.DecodeBytes(enc, &dec); err != nil {
						return fmt.Sprintf("decode of %x: %v", enc, err)
					}
					if d := eqMixed(&v, &dec); d != "" {
						return "decoded value differs at " + d
					}
					return ""
				}})
			case 1:
				v, tr := genInner(t)
				want := ref.RLPEncode(tr)
				tasks = append(tasks, task{desc: "inner struct " + tr.String(), once: func() string {
					enc, err := rlp.EncodeToBytes(&v)
					if err != nil || !bytes.Equal(enc, want) {
						return fmt.Sprintf("encode: err=%v got %x want %x", err, enc, want)
					}
					var dec Inner
					if err := rlp.DecodeBytes(enc, &dec); err != nil {
						return fmt.Sprintf("decode of %x: %v", enc, err)
					}
					if d := eqInner(&v, &dec); d != "" {
						return "decoded value differs at " + d
					}
					return ""
				}})
			default:
				tr := genTree(4).Draw(t, "tree")
				want := ref.RLPEncode(tr)
				val := toIfc(tr)
				tasks = append(tasks, task{desc: "tree " + tr.String(), once: func() string {
					enc, err := rlp.EncodeToBytes(val)
					if err != nil || !bytes.Equal(enc, want) {
						return fmt.Sprintf("encode: err=%v got %x want %x", err, enc, want)
					}
					var out interface{}
					if err := rlp.DecodeBytes(enc, &out); err != nil {
						return fmt.Sprintf("decode of %x: %v", enc, err)
					}
					if !fromIfc(out).Equal(tr) {
						return fmt.Sprintf("decoded tree %s", fromIfc(out))
					}
					return ""
				}})
			}
			if why := tasks[i].once(); why != "" {
				t.Fatalf("alone: %s: %s", tasks[i].desc, why)
			}
		}
		reps := rapid.SampledFrom([]int{30, 200, 1000}).Draw(t, "repetitions")
		var wg sync.WaitGroup
		var mu sync.Mutex
		failure := ""
		start := make(chan struct{})
		for i := range tasks {
			wg.Add(1)
			go func(k task) {
				defer wg.Done()
				defer func() {
					if p := recover(); p != nil {
						mu.Lock()
						failure = fmt.Sprintf("%s: panic while %d other goroutines were encoding/decoding their own values: %v", k.desc, n-1, p)
						mu.Unlock()
					}
				}()
				<-start
				for r := 0; r < reps; r++ {
					if why := k.once(); why != "" {
						mu.Lock()
						failure = fmt.Sprintf("%s: correct alone, but while %d other goroutines were encoding/decoding their own values (repetition %d): %s", k.desc, n-1, r, why)
						mu.Unlock()
						return
					}
				}
			}(tasks[i])
		}
		close(start)
		wg.Wait()
		if failure != "" {
			t.Fatalf("%s", failure)
		}
		stats.Case(fmt.Sprintf("conc|%d|%s", n, tasks[0].desc), "E_concurrent", fmt.Sprintf("concurrent_goroutines:%d", n), fmt.Sprintf("concurrent_repetitions:%d", reps))
		stats.Count("concurrent_coding_rounds", int64(n*reps))
	})
}
