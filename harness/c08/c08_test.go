package c08

import (
	"bytes"
	"fmt"
	"math/big"
	"reflect"
	"runtime"
	"strings"
	"testing"

	"com.tuntun.rangers/node/src/common"
	"com.tuntun.rangers/node/src/eth_tx"
	"com.tuntun.rangers/node/src/storage/account"
	"com.tuntun.rangers/node/src/storage/rlp"
	"pgregory.net/rapid"

	"verifharness/internal/ref"
	"verifharness/internal/stats"
)

func TestMain(m *testing.M) {
	stats.SetRule("A: typed Go values (all uint widths, big ints, byte arrays/slices, strings, bools, raw values, nested structs with nil/tail/- tags, " +
		"interface trees, account.Account, eth_tx.Transaction) generated together with their expected RLP tree; non-trivial = nesting depth>=2 or a big int >=2^64. " +
		"B: byte strings = canonical encodings with one rule broken, or tag-biased random bytes, offered to 24 target types; non-trivial = accepted by the " +
		"strict reference parser or differing from a canonical encoding by exactly one mutation. distinct by hash of bytes (+target type)")
	stats.Assume("reference = Yellow-Paper appendix B encoder/strict parser in internal/ref (no node code)")
	stats.Main(m, "C08")
}

// ---------- typed value domain ----------

type Inner struct {
	A uint64
	B []byte
	C *big.Int
}

type Opt struct {
	X    uint32
	P    *Inner    `rlp:"nil"`
	Q    *[20]byte `rlp:"nil"`
	Skip int       `rlp:"-"`
	Tail []uint16  `rlp:"tail"`
}

type Mixed struct {
	U8   uint8
	U16  uint16
	U32  uint32
	U64  uint64
	U    uint
	Big  *big.Int
	BigV big.Int
	Bs   []byte
	A0   [0]byte
	A1   [1]byte
	A2   [2]byte
	A20  [20]byte
	A32  [32]byte
	S    string
	Bo   bool
	Raw  rlp.RawValue
	L    []Inner
	Arr  [2]uint32
	PI   *Inner
	LL   [][]byte
	Us   []uint64
	O    Opt
}

func genBig() *rapid.Generator[*big.Int] {
	return rapid.Custom(func(t *rapid.T) *big.Int {
		switch rapid.IntRange(0, 5).Draw(t, "bigkind") {
		case 0:
			return big.NewInt(int64(rapid.IntRange(0, 200).Draw(t, "small")))
		case 1:
			return new(big.Int).SetUint64(rapid.Uint64().Draw(t, "u64"))
		case 2:
			return new(big.Int).Sub(new(big.Int).Lsh(big.NewInt(1), 256), big.NewInt(1))
		case 3:
			return new(big.Int).Lsh(big.NewInt(1), uint(rapid.IntRange(0, 300).Draw(t, "shift")))
		default:
			return new(big.Int).SetBytes(rapid.SliceOfN(rapid.Byte(), 0, 40).Draw(t, "bigbytes"))
		}
	})
}

func genBytes(max int) *rapid.Generator[[]byte] {
	return rapid.Custom(func(t *rapid.T) []byte {
		switch rapid.IntRange(0, 6).Draw(t, "byteskind") {
		case 0:
			return []byte{}
		case 1:
			return []byte{rapid.SampledFrom([]byte{0, 1, 0x7f, 0x80, 0x81, 0xff}).Draw(t, "single")}
		case 2:
			n := rapid.SampledFrom([]int{54, 55, 56, 57, 255, 256, 257}).Draw(t, "edgeLen")
			if n > max {
				n = max
			}
			return bytes.Repeat([]byte{rapid.Byte().Draw(t, "fill")}, n)
		default:
			return rapid.SliceOfN(rapid.Byte(), 0, max).Draw(t, "bytes")
		}
	})
}

func genUint(bits int) *rapid.Generator[uint64] {
	return rapid.Custom(func(t *rapid.T) uint64 {
		var v uint64
		switch rapid.IntRange(0, 3).Draw(t, "ukind") {
		case 0:
			v = rapid.SampledFrom([]uint64{0, 1, 0x7f, 0x80, 0xff, 0x100, 0xffff, 0x10000, 1<<32 - 1, 1 << 32, 1<<63 - 1, 1 << 63, ^uint64(0)}).Draw(t, "edge")
		default:
			v = rapid.Uint64().Draw(t, "u") >> uint(rapid.IntRange(0, 63).Draw(t, "sh"))
		}
		if bits < 64 {
			v &= 1<<uint(bits) - 1
		}
		return v
	})
}

func genTree(depth int) *rapid.Generator[*ref.Item] {
	return rapid.Custom(func(t *rapid.T) *ref.Item {
		if depth == 0 || rapid.IntRange(0, 2).Draw(t, "leaf") == 0 {
			return ref.B(genBytes(70).Draw(t, "leafbytes"))
		}
		n := rapid.IntRange(0, 4).Draw(t, "nchild")
		it := &ref.Item{IsList: true, List: []*ref.Item{}}
		for i := 0; i < n; i++ {
			it.List = append(it.List, genTree(depth-1).Draw(t, "child"))
		}
		return it
	})
}

func genInner(t *rapid.T) (Inner, *ref.Item) {
	v := Inner{A: genUint(64).Draw(t, "A"), B: genBytes(60).Draw(t, "B"), C: genBig().Draw(t, "C")}
	return v, ref.L(ref.U(v.A), ref.B(v.B), ref.Big(v.C))
}

func genOpt(t *rapid.T) (Opt, *ref.Item) {
	v := Opt{X: uint32(genUint(32).Draw(t, "X")), Skip: rapid.Int().Draw(t, "skip")}
	tr := ref.L(ref.U(uint64(v.X)))
	if rapid.Bool().Draw(t, "hasP") {
		in, it := genInner(t)
		v.P = &in
		tr.List = append(tr.List, it)
	} else {
		tr.List = append(tr.List, ref.L()) // nil *struct encodes as empty list
	}
	if rapid.Bool().Draw(t, "hasQ") {
		var q [20]byte
		copy(q[:], rapid.SliceOfN(rapid.Byte(), 20, 20).Draw(t, "Q"))
		v.Q = &q
		tr.List = append(tr.List, ref.B(q[:]))
	} else {
		tr.List = append(tr.List, ref.B(nil)) // nil *[20]byte encodes as empty string
	}
	n := rapid.IntRange(0, 3).Draw(t, "ntail")
	v.Tail = []uint16{}
	for i := 0; i < n; i++ {
		x := uint16(genUint(16).Draw(t, "tail"))
		v.Tail = append(v.Tail, x)
		tr.List = append(tr.List, ref.U(uint64(x)))
	}
	return v, tr
}

func genMixed(t *rapid.T) (Mixed, *ref.Item) {
	var v Mixed
	tr := ref.L()
	add := func(it *ref.Item) { tr.List = append(tr.List, it) }
	v.U8 = uint8(genUint(8).Draw(t, "U8"))
	add(ref.U(uint64(v.U8)))
	v.U16 = uint16(genUint(16).Draw(t, "U16"))
	add(ref.U(uint64(v.U16)))
	v.U32 = uint32(genUint(32).Draw(t, "U32"))
	add(ref.U(uint64(v.U32)))
	v.U64 = genUint(64).Draw(t, "U64")
	add(ref.U(v.U64))
	v.U = uint(genUint(64).Draw(t, "U"))
	add(ref.U(uint64(v.U)))
	v.Big = genBig().Draw(t, "Big")
	add(ref.Big(v.Big))
	v.BigV = *genBig().Draw(t, "BigV")
	add(ref.Big(&v.BigV))
	v.Bs = genBytes(300).Draw(t, "Bs")
	add(ref.B(v.Bs))
	add(ref.B(nil)) // A0
	v.A1[0] = rapid.SampledFrom([]byte{0, 1, 0x7f, 0x80, 0xff}).Draw(t, "A1")
	add(ref.B(v.A1[:]))
	copy(v.A2[:], rapid.SliceOfN(rapid.Byte(), 2, 2).Draw(t, "A2"))
	add(ref.B(v.A2[:]))
	copy(v.A20[:], rapid.SliceOfN(rapid.Byte(), 20, 20).Draw(t, "A20"))
	add(ref.B(v.A20[:]))
	copy(v.A32[:], rapid.SliceOfN(rapid.Byte(), 32, 32).Draw(t, "A32"))
	add(ref.B(v.A32[:]))
	v.S = string(genBytes(80).Draw(t, "S"))
	add(ref.B([]byte(v.S)))
	v.Bo = rapid.Bool().Draw(t, "Bo")
	if v.Bo {
		add(ref.U(1))
	} else {
		add(ref.U(0))
	}
	rawTree := genTree(2).Draw(t, "rawtree")
	v.Raw = rlp.RawValue(ref.RLPEncode(rawTree))
	add(rawTree)
	nl := rapid.IntRange(0, 3).Draw(t, "nL")
	v.L = []Inner{}
	ll := ref.L()
	for i := 0; i < nl; i++ {
		in, it := genInner(t)
		v.L = append(v.L, in)
		ll.List = append(ll.List, it)
	}
	add(ll)
	v.Arr = [2]uint32{uint32(genUint(32).Draw(t, "arr0")), uint32(genUint(32).Draw(t, "arr1"))}
	add(ref.L(ref.U(uint64(v.Arr[0])), ref.U(uint64(v.Arr[1]))))
	in, it := genInner(t)
	v.PI = &in
	add(it)
	nll := rapid.IntRange(0, 3).Draw(t, "nLL")
	v.LL = [][]byte{}
	l2 := ref.L()
	for i := 0; i < nll; i++ {
		b := genBytes(60).Draw(t, "ll")
		v.LL = append(v.LL, b)
		l2.List = append(l2.List, ref.B(b))
	}
	add(l2)
	nus := rapid.IntRange(0, 4).Draw(t, "nUs")
	v.Us = []uint64{}
	l3 := ref.L()
	for i := 0; i < nus; i++ {
		x := genUint(64).Draw(t, "us")
		v.Us = append(v.Us, x)
		l3.List = append(l3.List, ref.U(x))
	}
	add(l3)
	o, ot := genOpt(t)
	v.O = o
	add(ot)
	return v, tr
}

// normalise makes decoded values comparable with generated ones: nil vs empty slices, big.Int
// internals, ignored fields.
func eqMixed(a, b *Mixed) string {
	x, y := *a, *b
	if x.Big.Cmp(y.Big) != 0 || x.BigV.Cmp(&y.BigV) != 0 {
		return "big"
	}
	x.Big, y.Big = nil, nil
	x.BigV, y.BigV = big.Int{}, big.Int{}
	if d := eqInner(x.PI, y.PI); d != "" {
		return "PI." + d
	}
	x.PI, y.PI = nil, nil
	if len(x.L) != len(y.L) {
		return "len L"
	}
	for i := range x.L {
		if d := eqInner(&x.L[i], &y.L[i]); d != "" {
			return fmt.Sprintf("L[%d].%s", i, d)
		}
	}
	x.L, y.L = nil, nil
	if d := eqOpt(&x.O, &y.O); d != "" {
		return "O." + d
	}
	x.O, y.O = Opt{}, Opt{}
	if !bytes.Equal(x.Bs, y.Bs) || !bytes.Equal(x.Raw, y.Raw) {
		return "bytes"
	}
	x.Bs, y.Bs, x.Raw, y.Raw = nil, nil, nil, nil
	if len(x.LL) != len(y.LL) || len(x.Us) != len(y.Us) {
		return "len"
	}
	for i := range x.LL {
		if !bytes.Equal(x.LL[i], y.LL[i]) {
			return "LL"
		}
	}
	for i := range x.Us {
		if x.Us[i] != y.Us[i] {
			return "Us"
		}
	}
	x.LL, y.LL, x.Us, y.Us = nil, nil, nil, nil
	if !reflect.DeepEqual(x, y) {
		return fmt.Sprintf("scalar fields: %+v vs %+v", x, y)
	}
	return ""
}

func eqInner(a, b *Inner) string {
	if (a == nil) != (b == nil) {
		return "nilness"
	}
	if a == nil {
		return ""
	}
	if a.A != b.A || !bytes.Equal(a.B, b.B) || a.C.Cmp(b.C) != 0 {
		return fmt.Sprintf("%+v vs %+v", a, b)
	}
	return ""
}

func eqOpt(a, b *Opt) string {
	if a.X != b.X {
		return "X"
	}
	if d := eqInner(a.P, b.P); d != "" {
		return "P." + d
	}
	if (a.Q == nil) != (b.Q == nil) || a.Q != nil && *a.Q != *b.Q {
		return "Q"
	}
	if len(a.Tail) != len(b.Tail) {
		return "tail len"
	}
	for i := range a.Tail {
		if a.Tail[i] != b.Tail[i] {
			return "tail"
		}
	}
	return ""
}

func safe(f func() error) (err error, panicked interface{}) {
	defer func() {
		if r := recover(); r != nil {
			panicked = r
		}
	}()
	return f(), nil
}

func hasBig64(it *ref.Item) bool {
	if !it.IsList {
		return len(it.Str) > 8 && len(it.Str) <= 40 && it.Str[0] != 0
	}
	for _, c := range it.List {
		if hasBig64(c) {
			return true
		}
	}
	return false
}

// A1: typed struct values: encode == reference encoding of the expected tree; decode returns an equal value.
func TestValuesRoundTrip(t *testing.T) {
	stats.Check(t, 4000, 40000, func(t *rapid.T) {
		v, tr := genMixed(t)
		want := ref.RLPEncode(tr)
		enc, err := rlp.EncodeToBytes(&v)
		key := ""
		if tr.Depth() >= 2 || hasBig64(tr) {
			key = "mixed:" + string(want)
		}
		stats.Case(key, "A_mixed")
		if err != nil {
			t.Fatalf("encode: %v", err)
		}
		if !bytes.Equal(enc, want) {
			t.Fatalf("encoding differs from reference\n got %x\nwant %x\ntree %s", enc, want, tr)
		}
		var dec Mixed
		dec.O.Skip = v.O.Skip // ignored field is not transported
		if err, p := safe(func() error { return rlp.DecodeBytes(enc, &dec) }); err != nil || p != nil {
			t.Fatalf("decode of own encoding failed: err=%v panic=%v enc=%x", err, p, enc)
		}
		if d := eqMixed(&v, &dec); d != "" {
			t.Fatalf("round trip differs at %s\nenc %x", d, enc)
		}
		if len(want) < 200 {
			stats.Sample(map[string]string{"domain": "A_mixed", "tree": tr.String(), "enc": fmt.Sprintf("%x", want)})
		}
		// encodings are data that callers keep (hashes, stored nodes, relayed payloads): bytes handed out earlier
		// must not change when another value is encoded, and a second decoder run must not disturb the first result
		v2, tr2 := genInner(t)
		enc2, err := rlp.EncodeToBytes(&v2)
		if err != nil || !bytes.Equal(enc2, ref.RLPEncode(tr2)) {
			t.Fatalf("second encode differs from reference: err=%v", err)
		}
		if !bytes.Equal(enc, want) {
			t.Fatalf("bytes returned by EncodeToBytes changed after a later EncodeToBytes call")
		}
		var dec2 Inner
		if err := rlp.DecodeBytes(enc2, &dec2); err != nil || eqInner(&v2, &dec2) != "" {
			t.Fatalf("second decode: err=%v diff=%s", err, eqInner(&v2, &dec2))
		}
		if d := eqMixed(&v, &dec); d != "" {
			t.Fatalf("a value decoded earlier changed after a later DecodeBytes call: %s", d)
		}
	})
}

func toIfc(it *ref.Item) interface{} {
	if !it.IsList {
		return it.Str
	}
	out := []interface{}{}
	for _, c := range it.List {
		out = append(out, toIfc(c))
	}
	return out
}

func fromIfc(v interface{}) *ref.Item {
	switch x := v.(type) {
	case []byte:
		return ref.B(x)
	case []interface{}:
		it := &ref.Item{IsList: true, List: []*ref.Item{}}
		for _, c := range x {
			it.List = append(it.List, fromIfc(c))
		}
		return it
	}
	panic(fmt.Sprintf("unexpected decoded type %T", v))
}

// A2: generic interface{} trees, RawValue, scalar top-level values.
func TestTreesRoundTrip(t *testing.T) {
	stats.Check(t, 8000, 80000, func(t *rapid.T) {
		tr := genTree(4).Draw(t, "tree")
		want := ref.RLPEncode(tr)
		enc, err := rlp.EncodeToBytes(toIfc(tr))
		key := ""
		if tr.Depth() >= 2 {
			key = "tree:" + string(want)
		}
		stats.Case(key, "A_tree")
		if err != nil || !bytes.Equal(enc, want) {
			t.Fatalf("tree encode: err=%v got %x want %x", err, enc, want)
		}
		var out interface{}
		if err, p := safe(func() error { return rlp.DecodeBytes(enc, &out) }); err != nil || p != nil {
			t.Fatalf("tree decode: err=%v panic=%v", err, p)
		}
		if !fromIfc(out).Equal(tr) {
			t.Fatalf("tree round trip: got %s want %s", fromIfc(out), tr)
		}
		var raw rlp.RawValue
		if err := rlp.DecodeBytes(enc, &raw); err != nil || !bytes.Equal(raw, want) {
			t.Fatalf("raw decode: err=%v got %x want %x", err, raw, want)
		}
		if re, err := rlp.EncodeToBytes(raw); err != nil || !bytes.Equal(re, want) {
			t.Fatalf("raw encode: err=%v got %x want %x", err, re, want)
		}
		// Split / CountValues agree with the reference on canonical input
		k, content, rest, err := rlp.Split(append(append([]byte{}, enc...), 0x01))
		rk, rc, rr, rerr := ref.RLPSplit(append(append([]byte{}, enc...), 0x01))
		if err != nil || rerr != nil || int(k) != rk || !bytes.Equal(content, rc) || !bytes.Equal(rest, rr) {
			t.Fatalf("Split disagrees with reference on %x: (%v,%x,%x,%v) vs (%v,%x,%x,%v)", enc, k, content, rest, err, rk, rc, rr, rerr)
		}
		if tr.IsList {
			n, err := rlp.CountValues(content)
			if err != nil || n != len(tr.List) {
				t.Fatalf("CountValues(%x)=%d,%v want %d", content, n, err, len(tr.List))
			}
		}
		if len(want) < 100 {
			stats.Sample(map[string]string{"domain": "A_tree", "tree": tr.String(), "enc": fmt.Sprintf("%x", want)})
		}
	})
}

// A3: concrete node types: account.Account and eth_tx.Transaction.
func TestNodeTypesRoundTrip(t *testing.T) {
	stats.Check(t, 4000, 40000, func(t *rapid.T) {
		// Account
		var a account.Account
		a.Nonce = genUint(64).Draw(t, "nonce")
		copy(a.Root[:], rapid.SliceOfN(rapid.Byte(), 32, 32).Draw(t, "root"))
		a.NFTSetDefinitionHash = genBytes(40).Draw(t, "codehash")
		wantA := ref.RLPEncode(ref.L(ref.U(a.Nonce), ref.B(a.Root[:]), ref.B(a.NFTSetDefinitionHash)))
		encA, err := rlp.EncodeToBytes(a)
		if err != nil || !bytes.Equal(encA, wantA) {
			t.Fatalf("account encode err=%v got %x want %x", err, encA, wantA)
		}
		var a2 account.Account
		if err := rlp.DecodeBytes(encA, &a2); err != nil || a2.Nonce != a.Nonce || a2.Root != a.Root || !bytes.Equal(a2.NFTSetDefinitionHash, a.NFTSetDefinitionHash) {
			t.Fatalf("account round trip err=%v %+v vs %+v", err, a2, a)
		}
		// eth transaction, built from its reference encoding
		nonce, gas := genUint(64).Draw(t, "txnonce"), genUint(64).Draw(t, "gas")
		price, amount := genBig().Draw(t, "price"), genBig().Draw(t, "amount")
		payload := genBytes(200).Draw(t, "payload")
		v, r, s := genBig().Draw(t, "v"), genBig().Draw(t, "r"), genBig().Draw(t, "s")
		var to []byte
		if rapid.Bool().Draw(t, "hasTo") {
			to = rapid.SliceOfN(rapid.Byte(), 20, 20).Draw(t, "to")
		}
		tr := ref.L(ref.U(nonce), ref.Big(price), ref.U(gas), ref.B(to), ref.Big(amount), ref.B(payload), ref.Big(v), ref.Big(r), ref.Big(s))
		want := ref.RLPEncode(tr)
		var tx eth_tx.Transaction
		if err, p := safe(func() error { return rlp.DecodeBytes(want, &tx) }); err != nil || p != nil {
			t.Fatalf("tx decode err=%v panic=%v enc=%x", err, p, want)
		}
		gv, gr, gs := tx.RawSignatureValues()
		if tx.Nonce() != nonce || tx.Gas() != gas || tx.GasPrice().Cmp(price) != 0 || tx.Value().Cmp(amount) != 0 || !bytes.Equal(tx.Data(), payload) ||
			gv.Cmp(v) != 0 || gr.Cmp(r) != 0 || gs.Cmp(s) != 0 || (tx.To() == nil) != (to == nil) || (to != nil && !bytes.Equal(tx.To().Bytes(), to)) {
			t.Fatalf("tx fields differ after decode of %x", want)
		}
		re, err := rlp.EncodeToBytes(&tx)
		if err != nil || !bytes.Equal(re, want) {
			t.Fatalf("tx re-encode err=%v got %x want %x", err, re, want)
		}
		key := ""
		if hasBig64(tr) {
			key = "tx:" + string(want)
		}
		stats.Case(key, "A_nodetypes")
		_ = common.Address{}
	})
}

// ---------- byte-string domain ----------

type target struct {
	name string
	mk   func() interface{}
}

type twoArr struct{ A, B [1]byte }
type optOnly struct {
	P *[20]byte `rlp:"nil"`
	N *Inner    `rlp:"nil"`
}

var targets = []target{
	{"uint8", func() interface{} { return new(uint8) }},
	{"uint16", func() interface{} { return new(uint16) }},
	{"uint32", func() interface{} { return new(uint32) }},
	{"uint64", func() interface{} { return new(uint64) }},
	{"uint", func() interface{} { return new(uint) }},
	{"bigint", func() interface{} { return new(big.Int) }},
	{"bytes", func() interface{} { return new([]byte) }},
	{"[0]byte", func() interface{} { return new([0]byte) }},
	{"[1]byte", func() interface{} { return new([1]byte) }},
	{"[2]byte", func() interface{} { return new([2]byte) }},
	{"[20]byte", func() interface{} { return new([20]byte) }},
	{"[32]byte", func() interface{} { return new([32]byte) }},
	{"string", func() interface{} { return new(string) }},
	{"bool", func() interface{} { return new(bool) }},
	{"raw", func() interface{} { return new(rlp.RawValue) }},
	{"[]uint64", func() interface{} { return new([]uint64) }},
	{"[2]uint32", func() interface{} { return new([2]uint32) }},
	{"[][]byte", func() interface{} { return new([][]byte) }},
	{"Inner", func() interface{} { return new(Inner) }},
	{"Opt", func() interface{} { return new(Opt) }},
	{"twoArr", func() interface{} { return new(twoArr) }},
	{"optOnly", func() interface{} { return new(optOnly) }},
	{"interface", func() interface{} { return new(interface{}) }},
	{"account", func() interface{} { return new(account.Account) }},
	{"ethtx", func() interface{} { return new(eth_tx.Transaction) }},
}

// shapes that make targets reachable
func genShapedTree(t *rapid.T) *ref.Item {
	switch rapid.IntRange(0, 9).Draw(t, "shape") {
	case 0:
		return ref.U(genUint(64).Draw(t, "u"))
	case 1:
		return ref.Big(genBig().Draw(t, "b"))
	case 2:
		n := rapid.SampledFrom([]int{0, 1, 2, 20, 32}).Draw(t, "alen")
		if n == 1 {
			return ref.B([]byte{rapid.SampledFrom([]byte{0, 1, 0x7f, 0x80, 0xff}).Draw(t, "a1")})
		}
		return ref.B(rapid.SliceOfN(rapid.Byte(), n, n).Draw(t, "arr"))
	case 3:
		_, it := genInner(t)
		return it
	case 4:
		_, it := genOpt(t)
		return it
	case 5: // twoArr
		return ref.L(ref.B([]byte{rapid.SampledFrom([]byte{0, 1, 0x7f, 0x80}).Draw(t, "x")}), ref.B([]byte{rapid.SampledFrom([]byte{0, 1, 0x7f, 0x80}).Draw(t, "y")}))
	case 6: // optOnly
		p := ref.B(nil)
		if rapid.Bool().Draw(t, "hasP") {
			p = ref.B(rapid.SliceOfN(rapid.Byte(), 20, 20).Draw(t, "p"))
		}
		n := ref.L()
		if rapid.Bool().Draw(t, "hasN") {
			_, n = genInner(t)
		}
		return ref.L(p, n)
	case 7: // eth tx
		to := []byte{}
		if rapid.Bool().Draw(t, "hasTo") {
			to = rapid.SliceOfN(rapid.Byte(), 20, 20).Draw(t, "to")
		}
		return ref.L(ref.U(genUint(64).Draw(t, "n")), ref.Big(genBig().Draw(t, "p")), ref.U(genUint(64).Draw(t, "g")), ref.B(to),
			ref.Big(genBig().Draw(t, "a")), ref.B(genBytes(40).Draw(t, "d")), ref.Big(genBig().Draw(t, "v")), ref.Big(genBig().Draw(t, "r")), ref.Big(genBig().Draw(t, "s")))
	case 8: // list of uints / byte strings
		n := rapid.IntRange(0, 4).Draw(t, "n")
		it := ref.L()
		for i := 0; i < n; i++ {
			it.List = append(it.List, ref.U(genUint(32).Draw(t, "e")))
		}
		return it
	default:
		return genTree(3).Draw(t, "tree")
	}
}

// one-rule-broken mutations of a canonical encoding. Returns mutated bytes and a label.
func mutate(t *rapid.T, enc []byte, tr *ref.Item) ([]byte, string) {
	cp := func() []byte { return append([]byte{}, enc...) }
	switch rapid.IntRange(0, 9).Draw(t, "mut") {
	case 0:
		return cp(), "canonical"
	case 1: // trailing bytes
		return append(cp(), genBytes(3).Draw(t, "trail")...), "trailing"
	case 2: // truncation
		if len(enc) < 1 {
			return cp(), "canonical"
		}
		return cp()[:rapid.IntRange(0, len(enc)-1).Draw(t, "cut")], "truncated"
	case 3: // inflate the top-level length prefix into long form
		k, content, _, err := ref.RLPSplit(enc)
		if err != nil || k == 0 || len(content) >= 56 {
			return cp(), "canonical"
		}
		base := byte(0xb7)
		if k == 2 {
			base = 0xf7
		}
		ll := rapid.IntRange(1, 8).Draw(t, "ll")
		h := []byte{base + byte(ll)}
		for i := ll - 1; i >= 0; i-- {
			h = append(h, byte(uint64(len(content))>>(8*uint(i))))
		}
		return append(h, content...), "inflated_len"
	case 4: // single byte wrapped as 0x81 xx somewhere
		for i, b := range enc {
			if b < 0x80 && rapid.IntRange(0, 2).Draw(t, "pick") == 0 {
				out := append(append(cp()[:i], 0x81), enc[i:]...)
				return out, "wrapped_single_byte(outer len not fixed)"
			}
		}
		if !tr.IsList && len(tr.Str) == 1 && tr.Str[0] < 0x80 {
			return []byte{0x81, tr.Str[0]}, "wrapped_single_byte"
		}
		return cp(), "canonical"
	case 5: // leading zero in an integer-like top-level string
		if !tr.IsList && len(tr.Str) > 0 && len(tr.Str) < 55 {
			s := append([]byte{0}, tr.Str...)
			return ref.RLPEncode(ref.B(s)), "leading_zero"
		}
		if tr.IsList && len(tr.List) > 0 && !tr.List[0].IsList {
			c := &ref.Item{IsList: true, List: append([]*ref.Item{ref.B(append([]byte{0}, tr.List[0].Str...))}, tr.List[1:]...)}
			return ref.RLPEncode(c), "leading_zero_first_elem"
		}
		return cp(), "canonical"
	case 6: // list/string tag swap
		if len(enc) == 0 {
			return cp(), "canonical"
		}
		out := cp()
		switch {
		case out[0] >= 0x80 && out[0] < 0xb8:
			out[0] += 0x40
		case out[0] >= 0xc0 && out[0] < 0xf8:
			out[0] -= 0x40
		case out[0] >= 0xb8 && out[0] < 0xc0:
			out[0] += 0x40
		case out[0] >= 0xf8:
			out[0] -= 0x40
		}
		return out, "tag_swap"
	case 7: // huge declared size
		if rapid.IntRange(0, 3).Draw(t, "cooperating") == 0 {
			// two oversized headers that agree with each other: an outer list header declaring more than the input
			// holds, some small elements, and an inner string (or list) header declaring a size that fits the bogus list
			outerLL := rapid.IntRange(3, 8).Draw(t, "outerLL")
			innerLL := rapid.IntRange(3, outerLL).Draw(t, "innerLL")
			full := ^uint64(0) >> uint(64-8*innerLL)
			inner := rapid.SampledFrom([]uint64{1 << 20, 64 << 20, full / 2, full - 1, full}).Draw(t, "innerSize")
			if inner > full {
				inner = full
			}
			nSmall := rapid.SampledFrom([]int{0, 1, 1, 1, 2, 3, 4, 4, 5, 5, 6, 9}).Draw(t, "nSmall") // the node's types have byte-string / big-integer fields at positions 1, 4 and 5
			var body []byte
			for i := 0; i < nSmall; i++ {
				body = append(body, byte(rapid.IntRange(1, 0x7f).Draw(t, "small")))
			}
			ib := rapid.SampledFrom([]byte{0xb7, 0xf7}).Draw(t, "innerBase")
			body = append(body, ib+byte(innerLL))
			for i := innerLL - 1; i >= 0; i-- {
				body = append(body, byte(inner>>(8*uint(i))))
			}
			outerFull := ^uint64(0) >> uint(64-8*outerLL)
			outer := inner + uint64(len(body)) + uint64(rapid.IntRange(0, 4).Draw(t, "outerSlack"))
			if outer < inner || outer > outerFull {
				outer = outerFull
			}
			out := []byte{0xf7 + byte(outerLL)}
			for i := outerLL - 1; i >= 0; i-- {
				out = append(out, byte(outer>>(8*uint(i))))
			}
			return append(out, body...), "huge_size_two_cooperating_headers"
		}
		ll := rapid.IntRange(1, 8).Draw(t, "ll")
		base := rapid.SampledFrom([]byte{0xb7, 0xf7}).Draw(t, "base")
		h := []byte{base + byte(ll)}
		if rapid.Bool().Draw(t, "edgeSize") {
			// declared sizes at the edges of the integer range: wrap-around candidates for "position + size"
			// arithmetic (2^(8*ll) - k), half range, and just past what is really there
			var v uint64
			full := ^uint64(0) >> uint(64-8*ll)
			switch rapid.IntRange(0, 3).Draw(t, "edgeKind") {
			case 0:
				v = full - uint64(rapid.IntRange(0, 20).Draw(t, "below"))
			case 1:
				v = full/2 + uint64(rapid.IntRange(0, 2).Draw(t, "half"))
			case 2:
				v = uint64(len(enc)) + uint64(rapid.IntRange(0, 3).Draw(t, "past"))
			default:
				v = full - uint64(len(enc)) - uint64(rapid.IntRange(0, 12).Draw(t, "belowLen"))
			}
			for i := ll - 1; i >= 0; i-- {
				h = append(h, byte(v>>(8*uint(i))))
			}
		} else {
			h = append(h, rapid.SliceOfN(rapid.Byte(), ll, ll).Draw(t, "size")...)
		}
		if rapid.Bool().Draw(t, "nested") {
			// the hostile header sits inside a well-formed list, optionally after some sibling elements
			inner := append([]byte{}, h...)
			inner = append(inner, enc...)
			var sib []byte
			for i, n := 0, rapid.IntRange(0, 3).Draw(t, "nSiblings"); i < n; i++ {
				sib = append(sib, byte(rapid.IntRange(0, 0x7f).Draw(t, "sibling")))
			}
			body := append(sib, inner...)
			if len(body) > 55 {
				body = body[:55]
			}
			out := append([]byte{0xc0 + byte(len(body))}, body...)
			if rapid.Bool().Draw(t, "doubleNest") {
				if len(out) > 55 {
					out = out[:55]
				}
				out = append([]byte{0xc0 + byte(len(out))}, out...)
			}
			return out, "huge_size_nested"
		}
		return append(h, enc...), "huge_size"
	case 8: // replace one element of a list by 0x80 / 0xc0 / 0x00
		if tr.IsList && len(tr.List) > 0 {
			i := rapid.IntRange(0, len(tr.List)-1).Draw(t, "idx")
			c := &ref.Item{IsList: true, List: append([]*ref.Item{}, tr.List...)}
			c.List[i] = rapid.SampledFrom([]*ref.Item{ref.B(nil), ref.L(), ref.B([]byte{0}), ref.B([]byte{0x80})}).Draw(t, "repl")
			return ref.RLPEncode(c), "elem_replaced"
		}
		return cp(), "canonical"
	default: // flip one byte
		if len(enc) == 0 {
			return cp(), "canonical"
		}
		out := cp()
		i := rapid.IntRange(0, len(enc)-1).Draw(t, "pos")
		out[i] ^= byte(1 << uint(rapid.IntRange(0, 7).Draw(t, "bit")))
		return out, "bitflip"
	}
}

func min(a, b int) int {
	if a < b {
		return a
	}
	return b
}

// (kept for reference) knownShape reports whether (target, input, re-encoding) is exactly the shape of a recorded finding.
func knownShapeNilBoth(b []byte, re []byte) bool {
	// F-C08-b: an `rlp:"nil"` pointer field accepts both 0x80 and 0xC0; re-encoding then swaps exactly
	// such bytes. Shape test: same length, and every differing position is 0x80<->0xC0.
	if len(b) != len(re) {
		return false
	}
	diff := 0
	for i := range b {
		if b[i] != re[i] {
			if !((b[i] == 0x80 && re[i] == 0xc0) || (b[i] == 0xc0 && re[i] == 0x80)) {
				return false
			}
			diff++
		}
	}
	return diff > 0
}

var hasNilTag = map[string]bool{"Opt": true, "optOnly": true, "ethtx": true}

type fataler interface{ Fatalf(string, ...interface{}) }

func checkBytes(t fataler, b []byte, label string) {
	refItem, refErr := ref.RLPParse(b)
	accepted := 0
	for _, tg := range targets {
		v := tg.mk()
		var ms0, ms1 runtime.MemStats
		measure := strings.HasPrefix(label, "huge_size")
		if measure {
			runtime.ReadMemStats(&ms0)
		}
		err, p := safe(func() error { return rlp.DecodeBytes(b, v) })
		if measure {
			runtime.ReadMemStats(&ms1)
			if d := ms1.TotalAlloc - ms0.TotalAlloc; d > uint64(64*len(b)+(256<<10)) {
				t.Fatalf("decoding %d hostile bytes into %s allocated %d bytes: %x", len(b), tg.name, d, b)
			}
		}
		if p != nil {
			t.Fatalf("DecodeBytes(%x, %s) panicked: %v", b, tg.name, p)
		}
		if tg.name == "interface" {
			// accepts exactly the canonical single items
			if (err == nil) != (refErr == nil) {
				t.Fatalf("DecodeBytes(%x, %s): err=%v but reference parser says %v", b, tg.name, err, refErr)
			}
			if err == nil && !fromIfc(*(v.(*interface{}))).Equal(refItem) {
				t.Fatalf("DecodeBytes(%x, interface) = %s, reference %s", b, fromIfc(*(v.(*interface{}))), refItem)
			}
		}
		if tg.name == "raw" {
			// RawValue validates the outer header only (its content is opaque by contract)
			_, _, rr, rerr := ref.RLPSplit(b)
			lax := len(b) == 2 && b[0] == 0x81 && b[1] < 0x80 // Stream.Raw passes a wrapped single byte through unchanged (opaque value, re-encodes identically)
			if want := rerr == nil && len(rr) == 0; (err == nil) != want && !lax {
				t.Fatalf("DecodeBytes(%x, raw): err=%v but reference header parser accepts=%v", b, err, want)
			}
			if err == nil && !bytes.Equal(*(v.(*rlp.RawValue)), b) {
				t.Fatalf("DecodeBytes(%x, raw) = %x", b, *(v.(*rlp.RawValue)))
			}
			continue
		}
		if err != nil {
			continue
		}
		accepted++
		if refErr != nil {
			t.Fatalf("DecodeBytes(%x, %s) accepted bytes that are not one canonical RLP item (%s)", b, tg.name, label)
		}
		re, err := rlp.EncodeToBytes(v)
		if err != nil {
			t.Fatalf("re-encode %s after decoding %x: %v", tg.name, b, err)
		}
		if !bytes.Equal(re, b) {
			t.Fatalf("canonicity: DecodeBytes(%x, %s) accepted, but the value re-encodes as %x (%s)", b, tg.name, re, label)
		}
		stats.Class("accepted_by:" + tg.name)
	}
	// raw helpers
	k, content, rest, err := rlp.Split(b)
	rk, rc, rr, rerr := ref.RLPSplit(b)
	if (err == nil) != (rerr == nil) || err == nil && (int(k) != rk || !bytes.Equal(content, rc) || !bytes.Equal(rest, rr)) {
		t.Fatalf("Split(%x) = (%v,%x,%x,%v), reference (%v,%x,%x,%v)", b, k, content, rest, err, rk, rc, rr, rerr)
	}
	if err == nil && len(content)+len(rest) > len(b) {
		t.Fatalf("Split(%x) returned more bytes than given", b)
	}
	key := ""
	if refErr == nil || (label != "canonical" && label != "random") {
		key = "B:" + string(b)
	}
	stats.Case(key, "B_"+label, fmt.Sprintf("B_accepted_by_%d_targets", min(accepted, 3)))
	if len(b) < 60 {
		stats.Sample(map[string]interface{}{"domain": "B", "mutation": label, "bytes": fmt.Sprintf("%x", b), "ref_accepts": refErr == nil, "targets_accepting": accepted})
	}
}

// B1: canonical encodings with exactly one rule broken, offered to every target type.
func TestBytesMutatedCanonical(t *testing.T) {
	stats.Check(t, 6000, 60000, func(t *rapid.T) {
		tr := genShapedTree(t)
		enc := ref.RLPEncode(tr)
		b, label := mutate(t, enc, tr)
		checkBytes(t, b, label)
	})
}

// B2: tag-biased random byte strings.
func TestBytesRandom(t *testing.T) {
	tagBytes := []byte{0x00, 0x01, 0x7f, 0x80, 0x81, 0x82, 0xb7, 0xb8, 0xb9, 0xbf, 0xc0, 0xc1, 0xc2, 0xc3, 0xf7, 0xf8, 0xf9, 0xff, 0x38, 0x37}
	stats.Check(t, 4000, 40000, func(t *rapid.T) {
		n := rapid.IntRange(0, 24).Draw(t, "n")
		b := make([]byte, n)
		for i := range b {
			if rapid.IntRange(0, 2).Draw(t, "biased") > 0 {
				b[i] = rapid.SampledFrom(tagBytes).Draw(t, "tag")
			} else {
				b[i] = rapid.Byte().Draw(t, "byte")
			}
		}
		checkBytes(t, b, "random")
	})
}

// Regression checks for the two repaired findings (fixed entries suppress nothing).
func TestRegressionFixedFindings(t *testing.T) {
	var a, b optOnly
	e1 := rlp.DecodeBytes([]byte{0xc2, 0x80, 0xc0}, &a) // canonical for (nil *[20]byte, nil *Inner)
	e2 := rlp.DecodeBytes([]byte{0xc2, 0xc0, 0x80}, &b) // kinds swapped
	if e1 != nil {
		t.Fatalf("canonical nil encodings rejected: %v", e1)
	}
	if e2 == nil {
		t.Fatalf(`F-C08-b: rlp:"nil" fields accept the wrong kind of empty value: c2c080 decodes and re-encodes as c280c0`)
	}
	var c twoArr
	if err := rlp.DecodeBytes([]byte{0xc1, 0x00}, &c); err == nil {
		t.Fatalf("F-C08-a: c100 decoded into struct{A,B [1]byte} (byte consumed twice)")
	}
	if err := rlp.DecodeBytes([]byte{0xc2, 0x00, 0x00}, &c); err != nil {
		t.Fatalf("c20000 rejected for struct{A,B [1]byte}: %v", err)
	}
}

// Native coverage-guided fuzzing over the same oracle (thorough tier; seeds = canonical encodings
// of a few shaped values plus hostile constants).
func FuzzDecode(f *testing.F) {
	for _, h := range [][]byte{{}, {0x00}, {0x80}, {0xc0}, {0x81, 0x00}, {0xc1, 0x00}, {0xc2, 0x80, 0xc0}, {0xc2, 0xc0, 0x80},
		{0xb8, 0x38}, {0xbf, 0xff, 0xff, 0xff, 0xff, 0xff, 0xff, 0xff, 0xff}, {0xff, 0x7f, 0xff, 0xff, 0xff, 0xff, 0xff, 0xff, 0xff},
		{0xf8, 0x00}, {0xb9, 0x00, 0x38},
		{0xc9, 0xbf, 0xff, 0xff, 0xff, 0xff, 0xff, 0xff, 0xff, 0xff}, {0xca, 0x01, 0xbf, 0xff, 0xff, 0xff, 0xff, 0xff, 0xff, 0xff, 0xfe},
		{0xc9, 0xff, 0xff, 0xff, 0xff, 0xff, 0xff, 0xff, 0xff, 0xf7}, {0xc5, 0xbb, 0xff, 0xff, 0xff, 0xff}, {0xc3, 0xb9, 0xff, 0xff}, {0xc3, 0x82, 0x00, 0x01}, {0xc8, 0x83, 0x01, 0x02, 0x03, 0xc3, 0x01, 0x80, 0xc0}} {
		f.Add(h)
	}
	f.Add(ref.RLPEncode(ref.L(ref.U(1), ref.B(make([]byte, 20)), ref.L(ref.U(7), ref.B([]byte("abc")), ref.U(1<<40)), ref.B(nil), ref.U(3))))
	f.Add(ref.RLPEncode(ref.L(ref.U(9), ref.U(1000000000), ref.U(21000), ref.B(make([]byte, 20)), ref.U(5), ref.B([]byte{1, 2}), ref.U(37), ref.U(77), ref.U(88))))
	f.Fuzz(func(t *testing.T, b []byte) {
		if len(b) > 4096 {
			return
		}
		checkBytes(t, b, "fuzz")
	})
}
