package c08

import (
	"bufio"
	"bytes"
	"fmt"
	"io"
	"math/big"
	"reflect"
	"testing"

	"com.tuntun.rangers/node/src/storage/rlp"
	"pgregory.net/rapid"

	"verifharness/internal/ref"
	"verifharness/internal/stats"
)

// Top-level values of every supported kind (not wrapped in a struct), encoded one after the other while all
// results are kept, as callers do with hashes, keys and payloads: after the last call every kept encoding
// must still be the reference encoding of its value and decode back to it.
type topVal struct {
	kind string
	val  interface{}                  // what is handed to the encoder
	tree *ref.Item                    // expected encoding
	dec  func(b []byte) (bool, error) // decode b into a fresh value of the same type; true if equal to val
}

func uintItem(v uint64) *ref.Item { return &ref.Item{Str: new(big.Int).SetUint64(v).Bytes()} }

func genTopVal(t *rapid.T, label string) topVal {
	switch rapid.IntRange(0, 9).Draw(t, label+"_kind") {
	case 0:
		v := rapid.OneOf(rapid.Uint64(), rapid.SampledFrom([]uint64{0, 1, 0x7f, 0x80, 0xff, 0x100, 1<<32 - 1, 1 << 32, 1<<64 - 1})).Draw(t, label+"_u64")
		return topVal{"uint64", v, uintItem(v), func(b []byte) (bool, error) { var o uint64; err := rlp.DecodeBytes(b, &o); return o == v, err }}
	case 1:
		v := rapid.Uint32().Draw(t, label+"_u32")
		return topVal{"uint32", v, uintItem(uint64(v)), func(b []byte) (bool, error) { var o uint32; err := rlp.DecodeBytes(b, &o); return o == v, err }}
	case 2:
		v := rapid.Uint8().Draw(t, label+"_u8")
		return topVal{"uint8", v, uintItem(uint64(v)), func(b []byte) (bool, error) { var o uint8; err := rlp.DecodeBytes(b, &o); return o == v, err }}
	case 3:
		v := rapid.Bool().Draw(t, label+"_bool")
		it := &ref.Item{Str: []byte{}}
		if v {
			it = &ref.Item{Str: []byte{1}}
		}
		return topVal{"bool", v, it, func(b []byte) (bool, error) { var o bool; err := rlp.DecodeBytes(b, &o); return o == v, err }}
	case 4:
		v := rapid.SliceOfN(rapid.Byte(), 0, 70).Draw(t, label+"_bytes")
		return topVal{"bytes", v, &ref.Item{Str: v}, func(b []byte) (bool, error) {
			var o []byte
			err := rlp.DecodeBytes(b, &o)
			return bytes.Equal(o, v), err
		}}
	case 5:
		v := rapid.StringN(0, 60, 60).Draw(t, label+"_string")
		return topVal{"string", v, &ref.Item{Str: []byte(v)}, func(b []byte) (bool, error) { var o string; err := rlp.DecodeBytes(b, &o); return o == v, err }}
	case 6:
		var v [20]byte
		copy(v[:], rapid.SliceOfN(rapid.Byte(), 20, 20).Draw(t, label+"_arr"))
		return topVal{"[20]byte", v, &ref.Item{Str: v[:]}, func(b []byte) (bool, error) { var o [20]byte; err := rlp.DecodeBytes(b, &o); return o == v, err }}
	case 7:
		v := new(big.Int).SetBytes(rapid.SliceOfN(rapid.Byte(), 0, 40).Draw(t, label+"_big"))
		return topVal{"*big.Int", v, &ref.Item{Str: v.Bytes()}, func(b []byte) (bool, error) {
			o := new(big.Int)
			err := rlp.DecodeBytes(b, o)
			return o.Cmp(v) == 0, err
		}}
	case 8:
		inner := &ref.Item{Str: rapid.SliceOfN(rapid.Byte(), 2, 60).Draw(t, label+"_rawstr")}
		if inner.Str[0] == 0 {
			inner.Str[0] = 1
		}
		raw := rlp.RawValue(ref.RLPEncode(inner))
		return topVal{"RawValue", raw, inner, func(b []byte) (bool, error) {
			var o rlp.RawValue
			err := rlp.DecodeBytes(b, &o)
			return bytes.Equal(o, raw), err
		}}
	default:
		v, tr := genInner(t)
		return topVal{"struct", &v, tr, func(b []byte) (bool, error) {
			var o Inner
			err := rlp.DecodeBytes(b, &o)
			return eqInner(&v, &o) == "", err
		}}
	}
}

func TestTopLevelBatches(t *testing.T) {
	stats.Check(t, 3000, 40000, func(t *rapid.T) {
		n := rapid.IntRange(2, 6).Draw(t, "n")
		var vals []topVal
		var encs [][]byte
		kinds := ""
		scalars := 0
		for i := 0; i < n; i++ {
			v := genTopVal(t, fmt.Sprintf("v%d", i))
			enc, err := rlp.EncodeToBytes(v.val)
			if err != nil {
				t.Fatalf("EncodeToBytes(%s %v): %v", v.kind, v.val, err)
			}
			want := ref.RLPEncode(v.tree)
			if !bytes.Equal(enc, want) {
				t.Fatalf("encoding of %s value %v differs from the reference: got %x want %x", v.kind, v.val, enc, want)
			}
			vals = append(vals, v)
			encs = append(encs, enc)
			kinds += v.kind + ","
			if v.kind != "struct" {
				scalars++
			}
		}
		for i, v := range vals {
			want := ref.RLPEncode(v.tree)
			if !bytes.Equal(encs[i], want) {
				t.Fatalf("the bytes EncodeToBytes returned for value %d (%s %v) changed after later encoder calls: now %x, were %x (batch: %s)",
					i, v.kind, reflect.ValueOf(v.val), encs[i], want, kinds)
			}
			same, err := v.dec(encs[i])
			if err != nil || !same {
				t.Fatalf("value %d (%s) does not decode back from its own encoding %x after the batch: equal=%v err=%v (batch: %s)", i, v.kind, encs[i], same, err, kinds)
			}
		}
		key := ""
		if scalars >= 2 {
			key = "batch:" + kinds + fmt.Sprintf("%x", encs[0])
		}
		stats.Case(key, "A_top_level_batch", fmt.Sprintf("batch_top_level_non_list_values_%d", scalars))
	})
}

// Self-referential types ("Recursive struct types are supported", rlp/encode.go): a linked list through an
// optional pointer and a tree through a slice of its own type.
type recList struct {
	Val  uint64
	Next *recList `rlp:"nil"`
}

type recTree struct {
	Tag  string
	Kids []recTree
}

func genRecList(t *rapid.T, depth int) (*recList, *ref.Item) {
	v := rapid.Uint64().Draw(t, "recVal")
	n := &recList{Val: v}
	it := &ref.Item{IsList: true, List: []*ref.Item{uintItem(v)}}
	if depth > 0 && rapid.IntRange(0, 3).Draw(t, "recMore") > 0 {
		nx, nit := genRecList(t, depth-1)
		n.Next = nx
		it.List = append(it.List, nit)
	} else {
		it.List = append(it.List, &ref.Item{IsList: true}) // nil pointer to a struct: empty list
	}
	return n, it
}

func genRecTree(t *rapid.T, depth int) (recTree, *ref.Item) {
	tag := rapid.StringN(0, 6, 6).Draw(t, "treeTag")
	n := recTree{Tag: tag, Kids: []recTree{}}
	kids := &ref.Item{IsList: true}
	if depth > 0 {
		for i, k := 0, rapid.IntRange(0, 3).Draw(t, "treeKids"); i < k; i++ {
			c, cit := genRecTree(t, depth-1)
			n.Kids = append(n.Kids, c)
			kids.List = append(kids.List, cit)
		}
	}
	return n, &ref.Item{IsList: true, List: []*ref.Item{{Str: []byte(tag)}, kids}}
}

func eqRecList(a, b *recList) bool {
	for a != nil && b != nil {
		if a.Val != b.Val {
			return false
		}
		a, b = a.Next, b.Next
	}
	return a == nil && b == nil
}

func eqRecTree(a, b *recTree) bool {
	if a.Tag != b.Tag || len(a.Kids) != len(b.Kids) {
		return false
	}
	for i := range a.Kids {
		if !eqRecTree(&a.Kids[i], &b.Kids[i]) {
			return false
		}
	}
	return true
}

func TestRecursiveTypes(t *testing.T) {
	stats.Check(t, 1500, 20000, func(t *rapid.T) {
		l, lit := genRecList(t, 4)
		want := ref.RLPEncode(lit)
		var enc []byte
		var err error
		if e, p := safe(func() error { enc, err = rlp.EncodeToBytes(l); return err }); e != nil || p != nil {
			t.Fatalf("encoding a linked list through an optional self pointer failed: err=%v panic=%v", e, p)
		}
		if !bytes.Equal(enc, want) {
			t.Fatalf("linked list: encoding differs from the reference: got %x want %x", enc, want)
		}
		var back recList
		if e, p := safe(func() error { return rlp.DecodeBytes(want, &back) }); e != nil || p != nil {
			t.Fatalf("decoding the canonical bytes %x into a self-referential list type failed: err=%v panic=%v", want, e, p)
		}
		if !eqRecList(l, &back) {
			t.Fatalf("linked list does not survive the round trip: %x", want)
		}
		tr, tit := genRecTree(t, 3)
		wantT := ref.RLPEncode(tit)
		if e, p := safe(func() error { enc, err = rlp.EncodeToBytes(&tr); return err }); e != nil || p != nil {
			t.Fatalf("encoding a tree through a slice of its own type failed: err=%v panic=%v", e, p)
		}
		if !bytes.Equal(enc, wantT) {
			t.Fatalf("tree: encoding differs from the reference: got %x want %x", enc, wantT)
		}
		var backT recTree
		if e, p := safe(func() error { return rlp.DecodeBytes(wantT, &backT) }); e != nil || p != nil {
			t.Fatalf("decoding the canonical bytes %x into a self-referential tree type failed: err=%v panic=%v", wantT, e, p)
		}
		if !eqRecTree(&tr, &backT) {
			t.Fatalf("tree does not survive the round trip: %x", wantT)
		}
		key := ""
		if l.Next != nil || len(tr.Kids) > 0 {
			key = fmt.Sprintf("rec:%x:%x", want, wantT)
		}
		stats.Case(key, "A_recursive_types")
	})
}

// TestLongStringsInScalarSlots: well-formed items in which a slot that the node's types fill with an integer, a
// bool or a fixed-size array holds a byte string far longer than the slot can take - lengths around the multiples
// of 256 (256q + m, m = 0..9), so that a length handled in a narrower integer somewhere would look like a legal
// short one. The string starts with what would be a canonical m-byte integer and continues with bytes that would
// each parse as an element. The input is canonical RLP, so a target may only accept it if it re-encodes to exactly
// these bytes (checkBytes); integer / bool / array slots must refuse it.
func TestLongStringsInScalarSlots(t *testing.T) {
	stats.Check(t, 1500, 20000, func(t *rapid.T) {
		q := rapid.SampledFrom([]int{1, 1, 2, 3, 16, 255, 256}).Draw(t, "q")
		m := rapid.IntRange(0, 9).Draw(t, "m")
		l := 256*q + m
		s := make([]byte, l)
		fill := rapid.SampledFrom([]byte{0x01, 0x05, 0x7f, 0x80, 0xc0}).Draw(t, "fill")
		for i := range s {
			s[i] = fill
		}
		if m > 0 {
			s[0] = byte(rapid.IntRange(0x80, 0xff).Draw(t, "lead")) // a canonical m-byte integer starts with a non-zero byte (>= 0x80 when alone)
		}
		item := ref.B(s)
		var tr *ref.Item
		switch rapid.IntRange(0, 3).Draw(t, "where") {
		case 0:
			tr = item
		case 1:
			tr = ref.L(item)
		case 2:
			tr = ref.L(uintItem(uint64(rapid.IntRange(0, 300).Draw(t, "before"))), item)
		default:
			var list []*ref.Item
			for i, n := 0, rapid.IntRange(0, 8).Draw(t, "pos"); i < n; i++ {
				list = append(list, uintItem(uint64(rapid.IntRange(1, 0x7f).Draw(t, "sib"))))
			}
			list = append(list, item)
			for i, n := 0, rapid.IntRange(0, 3).Draw(t, "after"); i < n; i++ {
				list = append(list, uintItem(uint64(rapid.IntRange(1, 0x7f).Draw(t, "sibAfter"))))
			}
			tr = ref.L(list...)
		}
		b := ref.RLPEncode(tr)
		checkBytes(t, b, fmt.Sprintf("long_string_in_scalar_slot_mod256_%d", m))
		for _, tg := range []string{"[]uint64", "[2]uint32", "uint64", "bool"} {
			for _, x := range targets {
				if x.name != tg {
					continue
				}
				v := x.mk()
				if err, p := safe(func() error { return rlp.DecodeBytes(b, v) }); err == nil && p == nil {
					t.Fatalf("DecodeBytes accepted a %d-byte string (256*%d+%d) where %s has room for at most 8 bytes: %x...", l, q, m, tg, b[:min(len(b), 24)])
				}
			}
		}
	})
}

// TestNestedEdgeSizes is the deterministic companion of the "huge_size_nested" mutation: an element header that
// declares a size at the edges of its length-of-length range (2^(8n) - k for k = 0..20, half range, and a little
// more than what is there), for every n = 1..8, as string and as list, placed inside a well-formed list after 0..3
// one-byte siblings (so that "position + size" arithmetic starts from different positions), optionally wrapped in a
// further list. Every such input goes through checkBytes (no panic, no hostile allocation, accepted only if it
// re-encodes to itself).
func TestNestedEdgeSizes(t *testing.T) {
	n := 0
	for ll := 1; ll <= 8; ll++ {
		full := ^uint64(0) >> uint(64-8*ll)
		var sizes []uint64
		for k := uint64(0); k <= 20 && k <= full; k++ {
			sizes = append(sizes, full-k)
		}
		sizes = append(sizes, full/2, full/2+1, full/2+2, 56, 57, 60)
		for _, v := range sizes {
			for _, base := range []byte{0xb7, 0xf7} {
				h := []byte{base + byte(ll)}
				for i := ll - 1; i >= 0; i-- {
					h = append(h, byte(v>>(8*uint(i))))
				}
				for nSib := 0; nSib <= 3; nSib++ {
					for _, tail := range [][]byte{nil, {0x80}, {0x01, 0x02}} {
						body := append(bytes.Repeat([]byte{0x05}, nSib), h...)
						body = append(body, tail...)
						out := append([]byte{0xc0 + byte(len(body))}, body...)
						checkBytes(t, out, "huge_size_nested_edge")
						wrapped := append([]byte{0xc0 + byte(len(out))}, out...)
						checkBytes(t, wrapped, "huge_size_nested_edge")
						n += 2
					}
				}
			}
		}
	}
	stats.Count("nested_edge_size_inputs", int64(n))
}

type plainReader struct{ r io.Reader }

func (p plainReader) Read(b []byte) (int, error) { return p.r.Read(b) }

type oneByteReader struct{ r io.Reader }

func (o oneByteReader) Read(b []byte) (int, error) {
	if len(b) == 0 {
		return 0, nil
	}
	return o.r.Read(b[:1])
}

// eofWithDataReader hands out its last bytes together with io.EOF (allowed by the io.Reader contract).
type eofWithDataReader struct{ b []byte }

func (e *eofWithDataReader) Read(p []byte) (int, error) {
	n := copy(p, e.b)
	e.b = e.b[n:]
	if len(e.b) == 0 {
		return n, io.EOF
	}
	return n, nil
}

// TestStreamEntryPoints: the decoder is also fed from readers (rlp.Decode / rlp.NewStream over buffers, buffered
// readers, connections that deliver byte by byte, readers that return their last bytes together with io.EOF,
// streams whose announced length is larger than what arrives). Through every such entry a complete canonical
// encoding decodes to the value DecodeBytes gives, and a strict prefix of it (the input cut anywhere) is
// refused with an error - never accepted with invented content.
func TestStreamEntryPoints(t *testing.T) {
	stats.Check(t, 1500, 20000, func(t *rapid.T) {
		tr := genTree(4).Draw(t, "tree")
		enc := ref.RLPEncode(tr)
		readers := []struct {
			name string
			mk   func(b []byte) io.Reader
		}{
			{"bytes.Buffer", func(b []byte) io.Reader { return bytes.NewBuffer(append([]byte{}, b...)) }},
			{"bufio.Reader", func(b []byte) io.Reader { return bufio.NewReader(bytes.NewReader(b)) }},
			{"plain io.Reader", func(b []byte) io.Reader { return plainReader{bytes.NewReader(b)} }},
			{"one byte at a time", func(b []byte) io.Reader { return oneByteReader{bytes.NewReader(b)} }},
			{"last bytes with io.EOF", func(b []byte) io.Reader { return &eofWithDataReader{append([]byte{}, b...)} }},
		}
		rd := rapid.SampledFrom(readers).Draw(t, "reader")
		via := rapid.SampledFrom([]string{"Decode", "NewStream(0)", "NewStream(len)", "NewStream(len+extra)"}).Draw(t, "via")
		decode := func(b []byte, announced uint64) (interface{}, error, interface{}) {
			var out interface{}
			var err error
			p := func() (p interface{}) {
				defer func() { p = recover() }()
				switch via {
				case "Decode":
					err = rlp.Decode(rd.mk(b), &out)
				case "NewStream(0)":
					err = rlp.NewStream(rd.mk(b), 0).Decode(&out)
				default:
					err = rlp.NewStream(rd.mk(b), announced).Decode(&out)
				}
				return nil
			}()
			return out, err, p
		}
		extra := uint64(rapid.SampledFrom([]int{1, 2, 100, 1 << 20}).Draw(t, "extra"))
		announced := uint64(len(enc))
		if via == "NewStream(len+extra)" {
			announced += extra
		}
		out, err, p := decode(enc, announced)
		if p != nil || err != nil {
			t.Fatalf("%s over %s: complete canonical encoding %x not decoded: err=%v panic=%v", via, rd.name, enc, err, p)
		}
		if !fromIfc(out).Equal(tr) {
			t.Fatalf("%s over %s: %x decoded to %s, want %s", via, rd.name, enc, fromIfc(out), tr)
		}
		cuts := 0
		if len(enc) >= 2 {
			for i, n := 0, rapid.IntRange(1, 4).Draw(t, "nCuts"); i < n; i++ {
				cut := rapid.IntRange(1, len(enc)-1).Draw(t, "cut")
				out, err, p := decode(enc[:cut], announced)
				if p != nil {
					t.Fatalf("%s over %s: input cut after %d of %d bytes: panic %v (%x)", via, rd.name, cut, len(enc), p, enc[:cut])
				}
				if err == nil {
					t.Fatalf("%s over %s: the input %x is the encoding %x cut after %d of %d bytes, and was ACCEPTED as %s", via, rd.name, enc[:cut], enc, cut, len(enc), fromIfc(out))
				}
				cuts++
			}
		}
		key := ""
		if tr.Depth() >= 1 && len(enc) > 3 {
			key = "stream|" + via + "|" + rd.name + "|" + string(enc)
		}
		stats.Case(key, "F_stream", "F_stream_via:"+via, "F_stream_reader:"+rd.name)
		stats.Count("stream_truncations_refused", int64(cuts))
	})
}
