package c05

import (
	"fmt"
	"testing"

	"pgregory.net/rapid"

	"com.tuntun.rangers/node/src/middleware/db"

	"verifharness/internal/boot"
	"verifharness/internal/stats"
)

// TestCrashDuringRecovery: a process can die again while it is repairing what the first death left behind.
// For a generated tree the swept delivery (as in TestCrashSweep) is interrupted at every store write n; whenever
// the following start-up makes more store writes than an undisturbed start-up (it repaired something), the
// scenario is repeated once per store write m of that start-up with write m and all later ones lost, followed
// by a third, undisturbed start. After it the store must satisfy the whole property again: head reachable
// from genesis, height and hash index exactly the head's chain, nothing above the head, head state opens, and the
// head is the old head, the new head or a block between them and their common ancestor.
func TestCrashDuringRecovery(t *testing.T) {
	stats.Check(t, 1, 8, func(t *rapid.T) {
		tr := buildTree(t)
		if len(tr.blocks) < 3 {
			t.Skip("tree too small")
		}
		target := len(tr.blocks) - 1
		for i := len(tr.blocks) - 1; i >= 1; i-- {
			if tr.blocks[i].parent != tr.blocks[i-1] {
				target = i
				break
			}
		}
		prefix := tr.blocks[:target]
		op := tr.blocks[target]
		type result struct {
			writes, dropped, restartWrites, dropped2 int64
			old, now                                 *mblock
		}
		run := func(crashAt, crash2 int64) (r result, err error) {
			n, e := boot.Start()
			if e != nil {
				return r, fmt.Errorf("VERIF-INCONCLUSIVE boot: %v", e)
			}
			defer n.Stop()
			refillPool(tr)
			for _, b := range prefix {
				if _, p := deliver(b); p != nil {
					return r, fmt.Errorf("prefix delivery of %s panicked: %v", b.name(), p)
				}
			}
			if r.old, e = checkInvariants(tr, "before the swept delivery", true); e != nil {
				return r, e
			}
			w0 := db.VerifWriteCount()
			if crashAt > 0 {
				db.VerifArmCrash(crashAt)
			}
			deliver(op)
			if crashAt > 0 {
				r.dropped = db.VerifDisarm()
			}
			r.writes = db.VerifWriteCount() - w0
			w1 := db.VerifWriteCount()
			if crash2 > 0 {
				db.VerifArmCrash(crash2)
			}
			e = n.Restart()
			if crash2 > 0 {
				r.dropped2 = db.VerifDisarm()
			}
			r.restartWrites = db.VerifWriteCount() - w1
			if e != nil {
				if crash2 > 0 {
					// the second death may leave the start-up unfinished in memory; only the third start counts
					e = nil
				} else {
					return r, fmt.Errorf("restart after crash at write %d of deliver %s failed: %v", crashAt, op.name(), e)
				}
			}
			if crash2 > 0 {
				if e := n.Restart(); e != nil {
					return r, fmt.Errorf("third start (after a crash at write %d of deliver %s and a second crash at write %d of the start-up that followed) failed: %v", crashAt, op.name(), crash2, e)
				}
			}
			refillPool(tr)
			r.now, err = checkInvariants(tr, fmt.Sprintf("after crash at write %d of deliver %s, a second crash at write %d of the following start-up, and a third, undisturbed start", crashAt, op.name(), crash2), false)
			return r, err
		}
		base, err := run(0, 0)
		if err != nil {
			t.Fatalf("%v\ntree: %s", err, tr.describe())
		}
		pairs, repairing := 0, 0
		for nth := int64(1); nth <= base.writes; nth++ {
			first, err := run(nth, 0)
			if err != nil {
				t.Fatalf("%v\ntree: %s", err, tr.describe())
			}
			if first.restartWrites <= base.restartWrites {
				continue // this start-up had nothing to repair
			}
			repairing++
			for m := int64(1); m <= first.restartWrites; m++ {
				r, err := run(nth, m)
				if err != nil {
					t.Fatalf("%v\ntree: %s\nswept delivery: %s (un-crashed: %d writes; start-up after the first crash: %d writes, an undisturbed one: %d)", err, tr.describe(), op.name(), base.writes, first.restartWrites, base.restartWrites)
				}
				f := lca(r.old, op)
				if !(isAncestor(f, r.now) && (isAncestor(r.now, r.old) || isAncestor(r.now, op) || isAncestor(op, r.now))) {
					t.Fatalf("crash at write %d/%d of deliver %s (old head %s), second crash at write %d/%d of the start-up: head after the third start is %s, neither old head, new head nor between them and %s\ntree: %s",
						nth, base.writes, op.name(), r.old.name(), m, first.restartWrites, r.now.name(), f.name(), tr.describe())
				}
				pairs++
				stats.NonTrivialOnly(fmt.Sprintf("recovery|%s|%s|%d|%d", tr.shape(), op.name(), nth, m))
				stats.Evals(1)
				if r.dropped2 > 0 {
					stats.Count("recovery_second_crash_points", 1)
				}
			}
		}
		stats.Case("recovery|"+tr.shape()+"|"+op.name(), fmt.Sprintf("recovery_first_crash_points_with_repair_%d", min(repairing, 9)), fmt.Sprintf("recovery_reorg_%v", !isAncestor(base.old, base.now)))
		stats.Count("recovery_crash_pairs", int64(pairs))
		stats.Sample(map[string]interface{}{"recovery_sweep_of": op.name(), "writes": base.writes, "first_crash_points_with_repair": repairing, "crash_pairs": pairs, "tree": tr.describe()})
	})
}
