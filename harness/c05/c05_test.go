package c05

import (
	"encoding/hex"
	"fmt"
	"math/big"
	"os"
	"os/exec"
	"sort"
	"strings"
	"testing"
	"time"

	"com.tuntun.rangers/node/src/common"
	"com.tuntun.rangers/node/src/middleware"
	"com.tuntun.rangers/node/src/middleware/db"
	"com.tuntun.rangers/node/src/middleware/types"
	"pgregory.net/rapid"

	"verifharness/internal/blockgen"
	"verifharness/internal/boot"
	"verifharness/internal/stats"
)

func TestMain(m *testing.M) {
	stats.SetRule("history = a block tree (3-9 blocks; extensions, siblings with lower/equal/higher cumulative QN, prove-value ties, height gaps, 0-2 pool txs per block, shared txs) " +
		"built with the node's own verifier path, then delivered to a FRESH node through AddBlockOnChain in a generated order with duplicates, orphans, restarts and " +
		"crash points (the n-th store write and all later ones dropped, then restart). Invariants checked after every step. non-trivial = history with >=1 reorg " +
		"(head moved to a non-descendant) or >=1 crash that dropped >=1 write; distinct by (tree shape, delivery order, crash points)")
	stats.Assume("consensus predicates (group signature, VRF, membership) are stubbed to true - they are C13-C16's subject")
	stats.Assume("crash model: a prefix of whole LevelDB write operations reaches the disk; LevelDB's own atomicity/ordering is trusted")
	stats.Assume("goroutine interleavings of AddBlockOnChain are serialised by the chain lock and not explored")
	boot.ConfigureForks = func() {
		c := &common.LocalChainConfig
		c.Proposal020Block, c.Proposal023Block, c.Proposal026Block = 0, 0, 1
	}
	stats.Main(m, "C05")
}

const faucet = "0x8744c51069589296fcb7faa2f891b1f513a0310c"

type mblock struct {
	id     int
	parent *mblock // nil for genesis
	hdr    *types.BlockHeader
	txs    []*types.Transaction
	raw    []byte // wire form, re-parsed for every delivery
}

func (b *mblock) name() string {
	if b.parent == nil {
		return "G"
	}
	return fmt.Sprintf("B%d", b.id)
}

type tree struct {
	genesis *mblock
	blocks  []*mblock // creation order, without genesis
	byHash  map[common.Hash]*mblock
	txs     []*types.Transaction
	// pool bookkeeping across the history
	everCanon   map[common.Hash]bool // transactions seen executed on the canonical chain at some check
	evictedEver map[common.Hash]bool // transactions some block of the tree evicted
	// model of the pending pool of the running node: mustPending[h] = the last thing that happened to
	// transaction h was a submission or the removal of the block that had executed it (and not its
	// execution or eviction by a block added to the chain since)
	mustPending map[common.Hash]bool
}

// cur is the tree the running node is fed from (set by refillPool); deliver keeps its pool model current.
var cur *tree

// noteHeadChange replays on the pool model what a head change does: the blocks from the old head
// down to the fork point are removed (their transactions are queued again), then the blocks of the new
// branch are added bottom-up (their transactions are executed, the ones they evict are dropped).
func (tr *tree) noteHeadChange(before, after common.Hash) {
	if before == after {
		return
	}
	a, b := tr.byHash[before], tr.byHash[after]
	if a == nil || b == nil {
		return // reported by checkInvariants
	}
	f := lca(a, b)
	for x := a; x != nil && x != f; x = x.parent {
		for _, tx := range x.txs {
			tr.mustPending[tx.Hash] = true
		}
	}
	for x := b; x != nil && x != f; x = x.parent {
		for _, tx := range x.txs {
			delete(tr.mustPending, tx.Hash)
		}
		for _, h := range x.hdr.EvictedTxs {
			delete(tr.mustPending, h)
		}
	}
}

// the first nOperator transactions are operator transfers from the faucet (each credits its own target);
// then one transfer that funds key K(0), and one wrapped Ethereum transaction of K(0): while K(0) is not funded
// on the path, a block that is handed the Ethereum transaction evicts it (the fee cannot be paid)
const nOperator = 8

func mkTx(i int) *types.Transaction {
	if i == nOperator {
		tx := &types.Transaction{Source: faucet, Type: types.TransactionTypeOperatorEvent, Time: "2024-05-01 00:01:00",
			ExtraData: fmt.Sprintf(`{"%s":{"balance":"5"}}`, blockgen.Addr(0)), Nonce: uint64(i + 1), ChainId: common.ChainId(1)}
		tx.Hash = tx.GenHash()
		return tx
	}
	if i == nOperator+1 {
		return blockgen.EthTransfer(0, 0, fmt.Sprintf("0x%040x", 0xb000), big.NewInt(0), 21000)
	}
	tx := &types.Transaction{
		Source:    faucet,
		Target:    "",
		Type:      types.TransactionTypeOperatorEvent,
		Time:      fmt.Sprintf("2024-05-01 00:00:%02d", i),
		ExtraData: fmt.Sprintf(`{"0x%040x":{"balance":"%d"}}`, 0xa000+i, i+1),
		Nonce:     uint64(i + 1),
		ChainId:   common.ChainId(1),
		Sign:      nil,
	}
	tx.Hash = tx.GenHash()
	return tx
}

func ancestors(b *mblock) []*mblock { // b, parent, ..., genesis
	var out []*mblock
	for x := b; x != nil; x = x.parent {
		out = append(out, x)
	}
	return out
}

func isAncestor(a, b *mblock) bool { // a is b or an ancestor of b
	for x := b; x != nil; x = x.parent {
		if x == a {
			return true
		}
	}
	return false
}

func lca(a, b *mblock) *mblock {
	seen := map[*mblock]bool{}
	for _, x := range ancestors(a) {
		seen[x] = true
	}
	for _, x := range ancestors(b) {
		if seen[x] {
			return x
		}
	}
	return nil
}

func childToward(f, x *mblock) *mblock { // first block after f on the path to x
	var prev *mblock
	for y := x; y != nil && y != f; y = y.parent {
		prev = y
	}
	return prev
}

func hashBig(h common.Hash) *big.Int { return new(big.Int).SetBytes(h.Bytes()) }

// weightNotLower: chain weight of n is not lower than o's (cumulative QN, then prove value, then
// hash of the first block after the fork point).
func weightNotLower(n, o *mblock) (bool, string) {
	if isAncestor(o, n) {
		return true, "descendant"
	}
	if n.hdr.TotalQN != o.hdr.TotalQN {
		return n.hdr.TotalQN > o.hdr.TotalQN, fmt.Sprintf("qn %d vs %d", n.hdr.TotalQN, o.hdr.TotalQN)
	}
	f := lca(n, o)
	n1, o1 := childToward(f, n), childToward(f, o)
	if n1 == nil { // n is an ancestor of o with the same QN: moving back is a weight loss unless equal chain
		return false, "moved back to an ancestor"
	}
	if c := n1.hdr.ProveValue.Cmp(o1.hdr.ProveValue); c != 0 {
		return c > 0, fmt.Sprintf("pv %v vs %v", n1.hdr.ProveValue, o1.hdr.ProveValue)
	}
	return hashBig(n1.hdr.Hash).Cmp(hashBig(o1.hdr.Hash)) >= 0, "hash tie-break"
}

func safely(f func()) (p interface{}) {
	defer func() { p = recover() }()
	f()
	return nil
}

// buildTree grows a block tree in a builder node. Every block's parent is canonical in the builder
// at the time it is built (the verifier path needs the parent state).
func buildTree(t *rapid.T) *tree {
	n, err := boot.Start()
	if err != nil {
		t.Fatalf("VERIF-INCONCLUSIVE boot: %v", err)
	}
	defer n.Stop()
	ch := boot.Chain()
	g := &mblock{hdr: ch.TopBlock()}
	tr := &tree{genesis: g, byHash: map[common.Hash]*mblock{g.hdr.Hash: g}, everCanon: map[common.Hash]bool{}, evictedEver: map[common.Hash]bool{}}
	for i := 0; i < nOperator+2; i++ {
		tr.txs = append(tr.txs, mkTx(i))
	}
	for _, tx := range tr.txs {
		boot.Pool().AddTransaction(tx)
	}
	nBlocks := rapid.IntRange(3, 9).Draw(t, "nBlocks")
	for i := 1; i <= nBlocks; i++ {
		head := tr.byHash[ch.TopBlock().Hash]
		canon := ancestors(head)
		// parent: mostly the head (extension), otherwise a canonical ancestor (sibling / fork)
		parent := head
		var forkChild *mblock // the canonical block right after the fork point
		if len(canon) > 1 && rapid.IntRange(0, 9).Draw(t, "fork") < 4 {
			d := rapid.IntRange(1, len(canon)-1).Draw(t, "forkDepth")
			parent = canon[d]
			forkChild = canon[d-1]
		}
		// when the canonical chain holds the Ethereum transaction in a block X above a block E that evicted it,
		// half of the time the next block forks off between E and X and is heavier: X is removed, E stays
		aimedReorg := false
		{
			eth := tr.txs[nOperator+1].Hash
			ix, ie := -1, -1
			for k, a := range canon {
				for _, tx := range a.txs {
					if tx.Hash == eth && ix < 0 {
						ix = k
					}
				}
				for _, h := range a.hdr.EvictedTxs {
					if h == eth && ix >= 0 && ie < 0 {
						ie = k
					}
				}
			}
			if ix >= 0 && ie > ix && rapid.Bool().Draw(t, "aimReorgOfOnceEvicted") {
				d := rapid.IntRange(ix+1, ie).Draw(t, "aimedForkDepth")
				parent, forkChild, aimedReorg = canon[d], canon[d-1], true
				stats.Class("build_heavier_fork_between_evicting_block_and_later_executing_block")
			}
		}
		height := parent.hdr.Height + 1
		if rapid.IntRange(0, 7).Draw(t, "gap") == 0 {
			height += uint64(rapid.IntRange(1, 2).Draw(t, "gapSize"))
		}
		// cumulative QN relative to the current head: lighter / equal / heavier
		target := int64(head.hdr.TotalQN) + int64(rapid.SampledFrom([]int{-1, 0, 0, 1, 1, 2}).Draw(t, "relQN"))
		if parent == head {
			target = int64(head.hdr.TotalQN) + int64(rapid.IntRange(0, 2).Draw(t, "qnInc"))
		}
		if aimedReorg {
			target = int64(head.hdr.TotalQN) + int64(rapid.IntRange(1, 2).Draw(t, "aimedQN"))
		}
		inc := target - int64(parent.hdr.TotalQN)
		if inc < 0 {
			inc = 0
		}
		pv := big.NewInt(int64(rapid.IntRange(1, 5).Draw(t, "pv")))
		// a fork two or more blocks deep with the same cumulative QN as the head is decided by the prove values at
		// the fork point: aim some of them between the prove value of the local block after the fork point and
		// that of the local tip, so that comparing with the wrong one of the two gives the opposite answer
		if forkChild != nil && forkChild != head && !aimedReorg && rapid.IntRange(0, 2).Draw(t, "aimEqualWeightFork") == 0 {
			target = int64(head.hdr.TotalQN)
			inc = target - int64(parent.hdr.TotalQN)
			if inc < 0 {
				inc = 0
			}
			a, b := forkChild.hdr.ProveValue.Int64(), head.hdr.ProveValue.Int64()
			if a > b {
				a, b = b, a
			}
			if b-a >= 2 {
				pv = big.NewInt(a + 1 + int64(rapid.IntRange(0, int(b-a-2)).Draw(t, "pvBetween")))
				stats.Class("build_equal_weight_deep_fork_pv_between_forkpoint_and_tip")
			}
		}
		// transactions: any not executed on the path genesis..parent
		used := map[common.Hash]bool{}
		for _, a := range ancestors(parent) {
			for _, tx := range a.txs {
				used[tx.Hash] = true
			}
		}
		var txs []*types.Transaction
		// candidates in a generated order; the funding transfer and the Ethereum transaction it enables first in
		// half of the blocks, so that "evicted, later executed, then reorged out" histories are common
		cands := rapid.Permutation(tr.txs).Draw(t, "candOrder")
		ethTx, fundTx := tr.txs[nOperator+1], tr.txs[nOperator]
		evictedOnPath := false
		for _, a := range ancestors(parent) {
			for _, h := range a.hdr.EvictedTxs {
				if h == ethTx.Hash {
					evictedOnPath = true
				}
			}
		}
		switch {
		case evictedOnPath && used[fundTx.Hash] && !used[ethTx.Hash]:
			cands = append([]*types.Transaction{ethTx}, cands...) // evicted earlier on this path, payable now
			// its sender submits it again; the builder node forgets what it evicted the way every node does when
			// it is restarted, so that the block can be built whatever the pool thinks of evicted transactions
			if err := n.Restart(); err != nil {
				t.Fatalf("VERIF-INCONCLUSIVE builder restart: %v", err)
			}
			ch = boot.Chain()
			refillPool(tr)
		case evictedOnPath && !used[fundTx.Hash]:
			cands = append([]*types.Transaction{fundTx}, cands...)
		case rapid.Bool().Draw(t, "ethFirst"):
			cands = append([]*types.Transaction{ethTx}, cands...)
		}
		taken := map[common.Hash]bool{}
		for i, tx := range cands {
			want := rapid.IntRange(0, 3).Draw(t, "takeTx") <= 1
			if i == 0 && evictedOnPath {
				want = rapid.IntRange(0, 3).Draw(t, "takeAimed") > 0
			}
			if !used[tx.Hash] && !taken[tx.Hash] && len(txs) < 2 && want {
				txs = append(txs, tx)
				taken[tx.Hash] = true
			}
		}
		sort.Sort(types.Transactions(txs))
		castor := []byte{byte(rapid.IntRange(1, 3).Draw(t, "castor"))}
		bh := boot.NewHeader(parent.hdr, height, uint64(inc), pv, txs, castor, []byte{7}, parent.hdr.CurTime.Add(time.Duration(height-parent.hdr.Height)*time.Second))
		var code int8
		if p := safely(func() { _, code = ch.VerifyBlock(bh) }); p != nil {
			t.Fatalf("VerifyBlock panicked while building block %d: %v", i, p)
		}
		if code != 0 {
			// e.g. a shared transaction that is executed on the builder's canonical chain: the node
			// refuses to verify such a block; not part of the tree.
			stats.Class(fmt.Sprintf("build_refused_code%d_ntx%d_ext%v", code, len(txs), parent == head))
			continue
		}
		if len(bh.EvictedTxs) > 0 { // evicted transactions are not part of the block
			stats.Class(fmt.Sprintf("build_block_with_evictions_%d_of_%d", len(bh.EvictedTxs), len(txs)))
			var kept []*types.Transaction
			for _, tx := range txs {
				ev := false
				for _, h := range bh.EvictedTxs {
					if h == tx.Hash {
						ev = true
						tr.evictedEver[h] = true
					}
				}
				if !ev {
					kept = append(kept, tx)
				}
			}
			txs = kept
		}
		if _, dup := tr.byHash[bh.Hash]; dup {
			// the same content drawn twice gives the very same block (same hash): not a new tree node
			stats.Class("build_identical_block_skipped")
			continue
		}
		for _, tx := range txs {
			if tx.Hash == tr.txs[nOperator+1].Hash {
				if tr.evictedEver[tx.Hash] {
					stats.Class("build_eth_tx_executed_after_having_been_evicted")
				} else {
					stats.Class("build_eth_tx_executed_never_evicted")
				}
			}
		}
		blk := &types.Block{Header: bh, Transactions: txs}
		raw, err := types.MarshalBlock(blk)
		if err != nil {
			t.Fatalf("marshal: %v", err)
		}
		mb := &mblock{id: i, parent: parent, hdr: bh, txs: txs, raw: raw}
		tr.blocks = append(tr.blocks, mb)
		tr.byHash[bh.Hash] = mb
		var res types.AddBlockResult
		if p := safely(func() { res = ch.AddBlockOnChain(blk) }); p != nil {
			t.Fatalf("AddBlockOnChain panicked in builder on %s: %v", mb.name(), p)
		}
		_ = res
	}
	return tr
}

func (tr *tree) describe() string {
	var sb strings.Builder
	for _, b := range tr.blocks {
		fmt.Fprintf(&sb, "%s<-%s h=%d qn=%d pv=%v tx=%d; ", b.name(), b.parent.name(), b.hdr.Height, b.hdr.TotalQN, b.hdr.ProveValue, len(b.txs))
	}
	return sb.String()
}

func (tr *tree) shape() string {
	var sb strings.Builder
	for _, b := range tr.blocks {
		fmt.Fprintf(&sb, "%s<%s:%d:%d:%v;", b.name(), b.parent.name(), b.hdr.Height-b.parent.hdr.Height, b.hdr.TotalQN, b.hdr.ProveValue)
	}
	return sb.String()
}

func (tr *tree) maxHeight() uint64 {
	var m uint64
	for _, b := range tr.blocks {
		if b.hdr.Height > m {
			m = b.hdr.Height
		}
	}
	return m
}

// checkInvariants verifies the store against the property at a quiescent point. strictPool: the
// pending/executed bookkeeping is asserted (no crash has happened since the pool was built).
func checkInvariants(tr *tree, where string, strictPool bool) (head *mblock, err error) {
	ch := boot.Chain()
	top := ch.TopBlock()
	if top == nil {
		return nil, fmt.Errorf("%s: no head", where)
	}
	head = tr.byHash[top.Hash]
	if head == nil {
		return nil, fmt.Errorf("%s: head %s (h=%d) is not a block of the tree", where, top.Hash.Hex(), top.Height)
	}
	// head reachable from genesis through parent links, via the hash index
	onChain := map[uint64]*mblock{}
	steps := 0
	for x := head; ; x = x.parent {
		blk := ch.QueryBlockByHash(x.hdr.Hash)
		if blk == nil || blk.Header == nil {
			return head, fmt.Errorf("%s: canonical block %s (h=%d) missing from the hash index", where, x.name(), x.hdr.Height)
		}
		if blk.Header.Hash != x.hdr.Hash || blk.Header.GenHash() != x.hdr.Hash {
			return head, fmt.Errorf("%s: hash index returns a different block for %s", where, x.name())
		}
		if !ch.HasBlockByHash(x.hdr.Hash) {
			return head, fmt.Errorf("%s: HasBlockByHash false for canonical %s", where, x.name())
		}
		if x.parent != nil && blk.Header.PreHash != x.parent.hdr.Hash {
			return head, fmt.Errorf("%s: parent link of %s broken", where, x.name())
		}
		if len(blk.Transactions) != len(x.txs) {
			return head, fmt.Errorf("%s: stored block %s has %d txs, want %d", where, x.name(), len(blk.Transactions), len(x.txs))
		}
		onChain[x.hdr.Height] = x
		if x.parent == nil {
			break
		}
		if steps++; steps > 1000 {
			return head, fmt.Errorf("%s: parent walk does not terminate", where)
		}
	}
	// height index: exactly the canonical chain up to the head, nothing above
	for h := uint64(0); h <= tr.maxHeight()+3; h++ {
		got := ch.QueryBlock(h)
		want := onChain[h]
		if h > head.hdr.Height {
			want = nil
		}
		switch {
		case want == nil && got != nil:
			return head, fmt.Errorf("%s: height index has %s at height %d but the canonical chain (head %s h=%d) has no block there",
				where, got.Header.Hash.Hex(), h, head.name(), head.hdr.Height)
		case want != nil && (got == nil || got.Header.Hash != want.hdr.Hash):
			return head, fmt.Errorf("%s: height index at %d does not return canonical block %s", where, h, want.name())
		}
		if hh := ch.GetBlockHash(h); want != nil && hh != want.hdr.Hash || want == nil && hh != (common.Hash{}) {
			return head, fmt.Errorf("%s: GetBlockHash(%d) inconsistent", where, h)
		}
	}
	if ch.Height() != head.hdr.Height || ch.TotalQN() != head.hdr.TotalQN {
		return head, fmt.Errorf("%s: Height/TotalQN disagree with the head", where)
	}
	// head's state root opens and is readable
	var sErr error
	if p := safely(func() {
		st, e := middleware.AccountDBManagerInstance.GetAccountDBByHash(head.hdr.StateTree)
		if e != nil {
			sErr = e
			return
		}
		if st.GetBalance(common.HexToAddress(faucet)).Sign() <= 0 {
			sErr = fmt.Errorf("faucet balance not readable")
		}
		// balances of transfer targets reflect exactly the canonical transactions
		for i, tx := range tr.txs[:nOperator] {
			executed := false
			for _, b := range onChain {
				for _, btx := range b.txs {
					if btx.Hash == tx.Hash {
						executed = true
					}
				}
			}
			bal := st.GetBalance(common.HexToAddress(fmt.Sprintf("0x%040x", 0xa000+i)))
			want := big.NewInt(0)
			if executed {
				want = new(big.Int).Mul(big.NewInt(int64(i+1)), big.NewInt(1000000000000000000))
			}
			if bal.Cmp(want) != 0 {
				sErr = fmt.Errorf("head state: target of tx%d has balance %s, want %s (executed on canonical chain: %v)", i, bal, want, executed)
				return
			}
		}
	}); p != nil {
		return head, fmt.Errorf("%s: opening head state panicked: %v", where, p)
	}
	if sErr != nil {
		return head, fmt.Errorf("%s: head state root %s: %v", where, head.hdr.StateTree.Hex(), sErr)
	}
	// pool bookkeeping
	pool := boot.Pool()
	for i, tx := range tr.txs {
		var in *mblock
		for _, b := range onChain {
			for _, btx := range b.txs {
				if btx.Hash == tx.Hash {
					in = b
				}
			}
		}
		ex := pool.GetExecuted(tx.Hash)
		if in != nil {
			tr.everCanon[tx.Hash] = true
			if ex == nil {
				return head, fmt.Errorf("%s: tx%d is in canonical block %s but has no executed record", where, i, in.name())
			}
			if ex.Receipt.BlockHash != in.hdr.Hash {
				return head, fmt.Errorf("%s: tx%d executed record points to block %s, canonical one is %s", where, i, ex.Receipt.BlockHash.Hex(), in.name())
			}
		} else if ex != nil {
			// executed records are durable: also after a crash + restart none may name a block that is not on the chain
			// (such a transaction could never be submitted or packed again)
			return head, fmt.Errorf("%s: tx%d is in no canonical block but still has an executed record (block %s)", where, i, ex.Receipt.BlockHash.Hex())
		} else if strictPool {
			if !pool.IsExisted(tx.Hash) {
				if !tr.mustPending[tx.Hash] {
					// evicted by a block added to the chain after its last submission / re-queueing: the pool
					// dropped it and nothing requires it back
					stats.Class("pool_evicted_tx_not_pending")
					continue
				}
				if tr.everCanon[tx.Hash] {
					return head, fmt.Errorf("%s: tx%d was executed in a block that has since been removed from the chain, and did not become pending again", where, i)
				}
				return head, fmt.Errorf("%s: tx%d is in no canonical block and is not pending either", where, i)
			}
			if tr.evictedEver[tx.Hash] && tr.everCanon[tx.Hash] {
				stats.Class("pool_tx_once_evicted_then_executed_then_removed_is_pending")
			}
			if got, e := pool.GetTransaction(tx.Hash); e != nil || got == nil || got.Hash != tx.Hash {
				return head, fmt.Errorf("%s: pending tx%d not retrievable", where, i)
			}
		}
	}
	return head, nil
}

func refillPool(tr *tree) {
	cur = tr
	tr.mustPending = map[common.Hash]bool{}
	for _, tx := range tr.txs {
		boot.Pool().AddTransaction(tx) // refused for executed ones
		tr.mustPending[tx.Hash] = true
	}
}

func deliver(b *mblock) (res types.AddBlockResult, p interface{}) {
	blk, err := types.UnMarshalBlock(b.raw)
	if err != nil {
		panic("harness: cannot re-parse own block: " + err.Error())
	}
	before := boot.Chain().TopBlock().Hash
	p = safely(func() { res = boot.Chain().AddBlockOnChain(blk) })
	if cur != nil {
		cur.noteHeadChange(before, boot.Chain().TopBlock().Hash)
	}
	return
}

// TestBlockTreeHistories is the main stateful property.
func TestBlockTreeHistories(t *testing.T) {
	stats.Check(t, 14, 60, func(t *rapid.T) {
		tr := buildTree(t)
		if len(tr.blocks) < 2 {
			t.Skip("tree too small")
		}
		n, err := boot.Start()
		if err != nil {
			t.Fatalf("VERIF-INCONCLUSIVE boot: %v", err)
		}
		defer n.Stop()
		if boot.Chain().TopBlock().Hash != tr.genesis.hdr.Hash {
			t.Fatalf("VERIF-INCONCLUSIVE genesis differs between two boots")
		}
		refillPool(tr)
		// delivery schedule: a permutation of the blocks plus some duplicates
		order := rapid.Permutation(tr.blocks).Draw(t, "order")
		nd := rapid.IntRange(0, 3).Draw(t, "nDup")
		for i := 0; i < nd; i++ {
			order = append(order, rapid.SampledFrom(tr.blocks).Draw(t, "dup"))
		}
		if rapid.Bool().Draw(t, "mostlyInOrder") {
			sort.SliceStable(order, func(i, j int) bool { return order[i].id < order[j].id })
		}
		// a third of the histories run in one process lifetime (what a node remembers in memory only, such
		// as the transactions recent blocks evicted, is then in force for the whole history)
		calm := rapid.IntRange(0, 2).Draw(t, "oneProcessLifetime") == 0
		head, err := checkInvariants(tr, "fresh node", true)
		if err != nil {
			t.Fatalf("%v", err)
		}
		reorgs, crashes, restarts, orphans := 0, 0, 0, 0
		strict := true
		var trace []string
		delivered := map[*mblock]bool{}
		for step, b := range order {
			action := "deliver"
			if !calm {
				action = rapid.SampledFrom([]string{"deliver", "deliver", "deliver", "deliver", "crash", "crash", "restart"}).Draw(t, "action")
			}
			old := head
			switch action {
			case "restart":
				if err := n.Restart(); err != nil {
					t.Fatalf("VERIF-INCONCLUSIVE restart: %v", err)
				}
				restarts++
				strict = true // the pending pool is in memory only, but every transaction is submitted again right below
				refillPool(tr)
				trace = append(trace, "restart")
				h2, err := checkInvariants(tr, fmt.Sprintf("step %d after restart", step), false)
				if err != nil {
					t.Fatalf("%v\ntree: %s\ntrace: %v", err, tr.describe(), trace)
				}
				if h2 != old {
					t.Fatalf("head changed across a clean restart: %s -> %s\ntree: %s\ntrace: %v", old.name(), h2.name(), tr.describe(), trace)
				}
				fallthrough
			case "deliver":
				if !delivered[b.parent] && b.parent.parent != nil {
					orphans++
				}
				res, p := deliver(b)
				delivered[b] = true
				trace = append(trace, fmt.Sprintf("deliver %s->%d", b.name(), res))
				if p != nil {
					t.Fatalf("AddBlockOnChain(%s) panicked: %v\ntree: %s\ntrace: %v", b.name(), p, tr.describe(), trace)
				}
				h2, err := checkInvariants(tr, fmt.Sprintf("step %d after deliver %s (result %d)", step, b.name(), res), strict)
				if err != nil {
					t.Fatalf("%v\ntree: %s\ntrace: %v", err, tr.describe(), trace)
				}
				if ok, why := weightNotLower(h2, old); !ok {
					t.Fatalf("head moved from %s to %s although the new chain is lighter (%s)\ntree: %s\ntrace: %v", old.name(), h2.name(), why, tr.describe(), trace)
				}
				if !isAncestor(old, h2) {
					reorgs++
				}
				head = h2
			case "crash":
				nth := int64(rapid.IntRange(1, 12).Draw(t, "crashAtWrite"))
				if rapid.IntRange(0, 4).Draw(t, "late") == 0 {
					nth += int64(rapid.IntRange(1, 20).Draw(t, "lateBy"))
				}
				db.VerifArmCrash(nth)
				res, p := deliver(b)
				dropped := db.VerifDisarm()
				_ = p // after the crash point the process is dead; whatever happened in memory is void
				trace = append(trace, fmt.Sprintf("deliver %s crash@%d(dropped %d)->%d", b.name(), nth, dropped, res))
				if err := n.Restart(); err != nil {
					t.Fatalf("restart after crash at write %d of deliver %s failed: %v\ntree: %s\ntrace: %v", nth, b.name(), err, tr.describe(), trace)
				}
				restarts++
				strict = true // as after a clean restart: everything is submitted again below
				if dropped > 0 {
					crashes++
					stats.Class(fmt.Sprintf("crash_at_write_%02d", nth))
				} else {
					delivered[b] = true
				}
				refillPool(tr)
				h2, err := checkInvariants(tr, fmt.Sprintf("step %d after crash at write %d of deliver %s + restart", step, nth, b.name()), false)
				if err != nil {
					t.Fatalf("%v\ntree: %s\ntrace: %v", err, tr.describe(), trace)
				}
				// allowed heads: on the old branch or the new branch from the fork point, or descendants of b
				f := lca(old, b)
				allowed := isAncestor(f, h2) && (isAncestor(h2, old) || isAncestor(h2, b) || isAncestor(b, h2))
				if !allowed {
					t.Fatalf("after a crash at write %d while delivering %s (old head %s) the head is %s: neither old head, new head nor a block between them and their common ancestor %s\ntree: %s\ntrace: %v",
						nth, b.name(), old.name(), h2.name(), f.name(), tr.describe(), trace)
				}
				if !isAncestor(old, h2) {
					reorgs++
				}
				head = h2
			}
		}
		key := ""
		if reorgs > 0 || crashes > 0 {
			key = tr.shape() + "|" + strings.Join(trace, ",")
		}
		stats.Case(key, fmt.Sprintf("reorgs_%d", min(reorgs, 3)), fmt.Sprintf("crashes_%d", min(crashes, 3)), fmt.Sprintf("orphans_%d", min(orphans, 2)), fmt.Sprintf("blocks_%d", len(tr.blocks)))
		stats.Count("restarts", int64(restarts))
		stats.Count("deliveries", int64(len(order)))
		stats.Count("crash_points_hit", int64(crashes))
		stats.Sample(map[string]interface{}{"tree": tr.describe(), "trace": trace, "final_head": head.name()})
	})
}

func min(a, b int) int {
	if a < b {
		return a
	}
	return b
}

var _ = hex.EncodeToString
var _ = os.Getenv
var _ = exec.Command

// TestCrashSweep enumerates EVERY crash point of one delivery: for a generated tree and schedule the
// last delivery (biased to be a reorg) is repeated on a fresh node once per store write n = 1..W,
// with write n and all later ones dropped, followed by a restart and the full invariant check.
func TestCrashSweep(t *testing.T) {
	stats.Check(t, 1, 6, func(t *rapid.T) {
		tr := buildTree(t)
		if len(tr.blocks) < 3 {
			t.Skip("tree too small")
		}
		// schedule: blocks in creation order; the swept operation is the delivery of the last block that
		// forks off (its parent is not the previously created block), else the last block
		target := len(tr.blocks) - 1
		for i := len(tr.blocks) - 1; i >= 1; i-- {
			if tr.blocks[i].parent != tr.blocks[i-1] {
				target = i
				break
			}
		}
		prefix := tr.blocks[:target]
		op := tr.blocks[target]
		run := func(crashAt int64) (writes int64, dropped int64, old, now *mblock, err error) {
			n, e := boot.Start()
			if e != nil {
				return 0, 0, nil, nil, fmt.Errorf("VERIF-INCONCLUSIVE boot: %v", e)
			}
			defer n.Stop()
			refillPool(tr)
			for _, b := range prefix {
				if _, p := deliver(b); p != nil {
					return 0, 0, nil, nil, fmt.Errorf("prefix delivery of %s panicked: %v", b.name(), p)
				}
			}
			old, e = checkInvariants(tr, "before the swept delivery", true)
			if e != nil {
				return 0, 0, nil, nil, e
			}
			w0 := db.VerifWriteCount()
			if crashAt > 0 {
				db.VerifArmCrash(crashAt)
			}
			deliver(op)
			if crashAt > 0 {
				dropped = db.VerifDisarm()
			}
			writes = db.VerifWriteCount() - w0
			if e := n.Restart(); e != nil {
				return writes, dropped, old, nil, fmt.Errorf("restart after crash at write %d of deliver %s failed: %v", crashAt, op.name(), e)
			}
			refillPool(tr)
			now, e = checkInvariants(tr, fmt.Sprintf("after crash at write %d of deliver %s + restart", crashAt, op.name()), false)
			return writes, dropped, old, now, e
		}
		w, _, old, final, err := run(0)
		if err != nil {
			t.Fatalf("%v\ntree: %s", err, tr.describe())
		}
		reorg := !isAncestor(old, final)
		for nth := int64(1); nth <= w; nth++ {
			_, dropped, old2, now, err := run(nth)
			if err != nil {
				t.Fatalf("%v\ntree: %s\nswept delivery: %s (un-crashed: %d writes, head %s -> %s)", err, tr.describe(), op.name(), w, old.name(), final.name())
			}
			f := lca(old2, op)
			if !(isAncestor(f, now) && (isAncestor(now, old2) || isAncestor(now, op) || isAncestor(op, now))) {
				t.Fatalf("crash at write %d/%d of deliver %s (old head %s): head after restart is %s, neither old head, new head nor between them and %s\ntree: %s",
					nth, w, op.name(), old2.name(), now.name(), f.name(), tr.describe())
			}
			stats.NonTrivialOnly(fmt.Sprintf("sweep|%s|%s|%d", tr.shape(), op.name(), nth))
			stats.Evals(1)
			if dropped > 0 {
				stats.Count("sweep_crash_points", 1)
			}
		}
		stats.Exhaustive("every store write of the swept delivery")
		stats.Case("sweep|"+tr.shape()+"|"+op.name(), fmt.Sprintf("sweep_reorg_%v", reorg), fmt.Sprintf("sweep_writes_%02d", w))
		stats.Sample(map[string]interface{}{"sweep_of": op.name(), "writes": w, "reorg": reorg, "tree": tr.describe()})
	})
}
