// Package c02 decides property C02: the root reported by storage/trie is the canonical
// Merkle-Patricia commitment of the trie's content, reads return the last write, iteration
// yields exactly the live pairs in ascending key order - after any history of
// update/delete/get/hash/commit/reopen/cache-limit operations.
//
// Oracle: internal/ref/mpt.go (Yellow-Paper appendix D definition evaluated on the model map;
// no node code), itself pinned by the public Ethereum trie vectors.
package c02

import (
	"bytes"
	"encoding/hex"
	"fmt"
	"os"
	"runtime/debug"
	"sort"
	"strconv"
	"strings"
	"testing"

	"com.tuntun.rangers/node/src/common"
	"com.tuntun.rangers/node/src/middleware/db"
	"com.tuntun.rangers/node/src/storage/trie"
	"pgregory.net/rapid"

	"verifharness/internal/ref"
	"verifharness/internal/stats"
)

const findingIterOrder = "F-C02-a"

func TestMain(m *testing.M) {
	stats.SetRule("case = one history of trie operations (update / delete / update-with-empty-value / get / hash / commit[+flush] / " +
		"reopen from the node cache / reopen from disk through a new NodeDatabase / SetCacheLimit 0..3 / NodeDatabase.Cap / iterate / iterate-from) " +
		"over collision-prone keys (1-4 byte keys over {00,01,10,11,ff}; 32-byte keys sharing 0..63 nibbles; variable-length keys that are " +
		"prefixes of one another incl. the empty key) and values of length 1,31,32,33,200 and 1..57. non-trivial = the history contains a delete " +
		"of a live key after which the canonical trie has fewer branch nodes (branch collapse / short-node merge), or a reopen followed by a " +
		"mutation; distinct by the sequence of operation kinds (with outcome class). Exhaustive tier: every sequence of <=N operations over " +
		"4 keys x (2 values + delete) + commit + reopen, two key sets, two observation modes")
	stats.Assume("reference = Yellow-Paper appendix C/D root computed from the sorted model map with ref.RLPEncode and x/crypto legacy Keccak-256 " +
		"(internal/ref/mpt.go), pinned by 8 public Ethereum trie vectors; it shares no code with /repo")
	stats.Assume("'ascending key order' is read as byte-lexicographic order of the keys")
	stats.Assume("the backing store is the node's MemDatabase; values/keys handed to the trie are never mutated afterwards (documented caller obligation)")
	stats.Main(m, "C02")
}

// ---------------------------------------------------------------------------------------------
// reference pinning
// ---------------------------------------------------------------------------------------------

func mustHex(s string) []byte {
	b, err := hex.DecodeString(s)
	if err != nil {
		panic(err)
	}
	return b
}

// Public vectors (ethereum/tests TrieTests/trietest.json + trieanyorder.json, also quoted in
// go-ethereum's trie tests). The reference must reproduce all of them.
func TestReferenceVectors(t *testing.T) {
	type vec struct {
		name string
		kv   map[string]string
		root string
	}
	vecs := []vec{
		{"empty", map[string]string{}, "56e81f171bcc55a6ff8345e692c0f86e5b48e01b996cadc001622fb5e363b421"},
		{"dogs", map[string]string{"doe": "reindeer", "dog": "puppy", "dogglesworth": "cat"},
			"8aad789dff2f538bca5d8ea56e8abe10f4c7ba3a5dea95fea4cd6e7c3a1168d3"},
		{"singleItem", map[string]string{"A": strings.Repeat("a", 50)},
			"d23786fb4a010da3ce639d66d5e904a11dbc02746d1ce25029e53290cabf28ab"},
		{"puppy", map[string]string{"do": "verb", "horse": "stallion", "doge": "coin", "dog": "puppy"},
			"5991bb8c6514148a29db676a14ac506cd2cd5775ace63c30a4fe457715e9ac84"},
		{"foo", map[string]string{"foo": "bar", "food": "bass"},
			"17beaa1648bafa633cda809c90c04af50fc8aed3cb40d16efbddee6fdf63c4c3"},
		{"smallValues", map[string]string{"be": "e", "dog": "puppy", "bed": "d"},
			"3f67c7a47520f79faa29255d2d3c084a7a6df0453116ed7232ff10277a8be68b"},
		{"testy", map[string]string{"test": "test", "te": "testy"},
			"8452568af70d8d140f58d941338542f645fcca50094b20f3c3d8c3df49337928"},
		{"hex", map[string]string{"\x00\x45": "\x01\x23\x45\x67\x89", "\x45\x00": "\x98\x76\x54\x32\x10"},
			"285505fcabe84badc8aa310e2aae17eddc7d120aabec8a476902c8184b3a3503"},
	}
	for _, v := range vecs {
		m := map[string][]byte{}
		for k, x := range v.kv {
			m[k] = []byte(x)
		}
		got := ref.MPTRoot(m)
		if hex.EncodeToString(got[:]) != v.root {
			t.Fatalf("reference MPT root for vector %s = %x, published %s", v.name, got, v.root)
		}
	}
	// hex-prefix examples of appendix C
	for _, c := range []struct {
		nib  []byte
		leaf bool
		want string
	}{
		{[]byte{1, 2, 3, 4, 5}, false, "112345"},
		{[]byte{0, 1, 2, 3, 4, 5}, false, "00012345"},
		{[]byte{0, 15, 1, 12, 11, 8}, true, "200f1cb8"},
		{[]byte{15, 1, 12, 11, 8}, true, "3f1cb8"},
		{nil, true, "20"},
		{nil, false, "00"},
	} {
		if got := hex.EncodeToString(ref.HexPrefix(c.nib, c.leaf)); got != c.want {
			t.Fatalf("HexPrefix(%v,%v)=%s want %s", c.nib, c.leaf, got, c.want)
		}
	}
	stats.Class("reference_vectors_ok")
}

// ---------------------------------------------------------------------------------------------
// the system under test behind a panic guard
// ---------------------------------------------------------------------------------------------

// guard turns a panic of the code under test into an error (a failure, never a pass).
func guard(what string, f func() error) (err error) {
	defer func() {
		if r := recover(); r != nil {
			err = fmt.Errorf("PANIC in %s: %v\n%s", what, r, debug.Stack())
		}
	}()
	return f()
}

type sut struct {
	disk  *db.MemDatabase
	tdb   *trie.NodeDatabase
	tr    *trie.Trie
	model map[string][]byte
	seen  map[string]bool // every key this history ever touched (read universe)
}

func newSut() (*sut, error) {
	s := &sut{model: map[string][]byte{}, seen: map[string]bool{}}
	err := guard("NewTrie", func() error {
		d, err := db.NewMemDatabase()
		if err != nil {
			return err
		}
		s.disk = d
		s.tdb = trie.NewDatabase(d)
		s.tr, err = trie.NewTrie(common.Hash{}, s.tdb)
		return err
	})
	return s, err
}

func cp(b []byte) []byte { return append([]byte{}, b...) }

func (s *sut) update(k, v []byte) error {
	s.seen[string(k)] = true
	if len(v) == 0 {
		delete(s.model, string(k))
	} else {
		s.model[string(k)] = cp(v)
	}
	return guard("TryUpdate", func() error { return s.tr.TryUpdate(cp(k), cp(v)) })
}

func (s *sut) del(k []byte) error {
	s.seen[string(k)] = true
	delete(s.model, string(k))
	return guard("TryDelete", func() error { return s.tr.TryDelete(cp(k)) })
}

func (s *sut) checkGet(k []byte) error {
	var got []byte
	if err := guard("TryGet", func() (e error) { got, e = s.tr.TryGet(cp(k)); return }); err != nil {
		return fmt.Errorf("TryGet(%x): %v", k, err)
	}
	want := s.model[string(k)]
	if !bytes.Equal(got, want) {
		return fmt.Errorf("TryGet(%x) = %x, last value written = %x (model has %d keys)", k, got, want, len(s.model))
	}
	return nil
}

func (s *sut) refRoot() common.Hash {
	r := ref.MPTRoot(s.model)
	return common.BytesToHash(r[:])
}

func (s *sut) checkHash() error {
	var got common.Hash
	if err := guard("Hash", func() error { got = s.tr.Hash(); return nil }); err != nil {
		return err
	}
	if want := s.refRoot(); got != want {
		return fmt.Errorf("Hash() = %x, canonical MPT root of the %d live pairs = %x\ncontent: %s", got, len(s.model), want, renderModel(s.model))
	}
	return nil
}

// commit = Trie.Commit (nodes into the NodeDatabase cache), optionally followed by
// NodeDatabase.Commit(root) (cache -> disk).
func (s *sut) commit(flush bool) (common.Hash, error) {
	var root common.Hash
	if err := guard("Trie.Commit", func() (e error) { root, e = s.tr.Commit(nil); return }); err != nil {
		return root, fmt.Errorf("Trie.Commit: %v", err)
	}
	if want := s.refRoot(); root != want {
		return root, fmt.Errorf("Commit() = %x, canonical MPT root of the %d live pairs = %x\ncontent: %s", root, len(s.model), want, renderModel(s.model))
	}
	if flush {
		if err := guard("NodeDatabase.Commit", func() error { return s.tdb.Commit(root, false) }); err != nil {
			return root, fmt.Errorf("NodeDatabase.Commit: %v", err)
		}
	}
	return root, nil
}

// reopen: commit, then continue on a trie freshly opened at the committed root - either on the
// same NodeDatabase (nodes come back from its cache) or on a new NodeDatabase over the same disk.
func (s *sut) reopen(disk bool) error {
	root, err := s.commit(disk)
	if err != nil {
		return err
	}
	return guard("NewTrie(root)", func() error {
		if disk {
			s.tdb = trie.NewDatabase(s.disk)
		}
		tr, err := trie.NewTrie(root, s.tdb)
		if err != nil {
			return fmt.Errorf("NewTrie(%x) after commit (disk=%v): %v", root, disk, err)
		}
		s.tr = tr
		return nil
	})
}

type pair struct{ k, v []byte }

func (s *sut) iterate(start []byte) ([]pair, error) {
	var out []pair
	err := guard("iterate", func() error {
		it := trie.NewIterator(s.tr.NodeIterator(start))
		for it.Next() {
			out = append(out, pair{cp(it.Key), cp(it.Value)})
			if len(out) > len(s.model)+8 {
				return fmt.Errorf("iterator yields more than %d pairs for %d live pairs", len(out), len(s.model))
			}
		}
		return it.Err
	})
	return out, err
}

func isPrefix(a, b []byte) bool { return len(a) <= len(b) && bytes.Equal(a, b[:len(a)]) }

// checkIter: exactly the live pairs, each once, ascending. Returns steered=true if an order
// inversion between two prefix-related keys was tolerated because F-C02-a is a listed finding.
func (s *sut) checkIter() (steered bool, err error) {
	got, err := s.iterate(nil)
	if err != nil {
		return false, fmt.Errorf("iteration: %v", err)
	}
	seen := map[string]bool{}
	for _, p := range got {
		want, live := s.model[string(p.k)]
		if !live {
			return false, fmt.Errorf("iterator yields key %x which is not live; yielded %s\ncontent: %s", p.k, renderPairs(got), renderModel(s.model))
		}
		if !bytes.Equal(want, p.v) {
			return false, fmt.Errorf("iterator yields %x=%x, last value written %x", p.k, p.v, want)
		}
		if seen[string(p.k)] {
			return false, fmt.Errorf("iterator yields key %x twice; yielded %s", p.k, renderPairs(got))
		}
		seen[string(p.k)] = true
	}
	if len(got) != len(s.model) {
		return false, fmt.Errorf("iterator yields %d pairs, %d are live; yielded %s\ncontent: %s", len(got), len(s.model), renderPairs(got), renderModel(s.model))
	}
	for i := 0; i < len(got); i++ {
		for j := i + 1; j < len(got); j++ {
			a, b := got[i].k, got[j].k
			if bytes.Compare(a, b) < 0 {
				continue
			}
			if (isPrefix(a, b) || isPrefix(b, a)) && stats.IsKnown(findingIterOrder) {
				steered = true
				continue
			}
			return steered, fmt.Errorf("iteration is not in ascending key order: %x is yielded before %x; yielded %s", a, b, renderPairs(got))
		}
	}
	return steered, nil
}

// checkIterFrom: the callers' contract of NodeIterator(prefix) (account.DataIterator seeks to a
// prefix and filters by it): every live key that has `start` as a byte prefix is yielded, and
// nothing but live pairs is yielded, none twice. Nothing else is asserted about the start key.
func (s *sut) checkIterFrom(start []byte) error {
	got, err := s.iterate(start)
	if err != nil {
		return fmt.Errorf("iteration from %x: %v", start, err)
	}
	seen := map[string]bool{}
	for _, p := range got {
		want, live := s.model[string(p.k)]
		if !live || !bytes.Equal(want, p.v) {
			return fmt.Errorf("iterator from %x yields %x=%x; live=%v last value written %x", start, p.k, p.v, live, want)
		}
		if seen[string(p.k)] {
			return fmt.Errorf("iterator from %x yields key %x twice", start, p.k)
		}
		seen[string(p.k)] = true
	}
	for k := range s.model {
		if isPrefix(start, []byte(k)) && !seen[k] {
			return fmt.Errorf("iterator positioned at prefix %x does not yield live key %x; yielded %s", start, k, renderPairs(got))
		}
	}
	return nil
}

// verify = the whole oracle: root, every read, iteration.
func (s *sut) verify() (steered bool, err error) {
	if err := s.checkHash(); err != nil {
		return false, err
	}
	keys := make([]string, 0, len(s.seen))
	for k := range s.seen {
		keys = append(keys, k)
	}
	sort.Strings(keys)
	for _, k := range keys {
		if err := s.checkGet([]byte(k)); err != nil {
			return false, err
		}
	}
	return s.checkIter()
}

func renderModel(m map[string][]byte) string {
	keys := make([]string, 0, len(m))
	for k := range m {
		keys = append(keys, k)
	}
	sort.Strings(keys)
	var sb strings.Builder
	sb.WriteString("{")
	for i, k := range keys {
		if i > 0 {
			sb.WriteString(", ")
		}
		fmt.Fprintf(&sb, "%x: %s", k, renderVal(m[k]))
	}
	sb.WriteString("}")
	return sb.String()
}

func renderVal(v []byte) string {
	if len(v) <= 4 {
		return fmt.Sprintf("%x", v)
	}
	return fmt.Sprintf("%02x*%d", v[0], len(v))
}

func renderPairs(ps []pair) string {
	var sb strings.Builder
	sb.WriteString("[")
	for i, p := range ps {
		if i > 0 {
			sb.WriteString(" ")
		}
		fmt.Fprintf(&sb, "%x", p.k)
	}
	sb.WriteString("]")
	return sb.String()
}

// ---------------------------------------------------------------------------------------------
// generators
// ---------------------------------------------------------------------------------------------

var (
	base32  = func() []byte { h := ref.MPTKeccak256([]byte("c02-base")); return h[:] }()
	spine   = []byte("abcdef")
	alpha5  = []byte{0x00, 0x01, 0x10, 0x11, 0xff}
	divNibs = []int{0, 1, 2, 3, 30, 31, 32, 33, 60, 61, 62, 63}
)

// genKey draws a key and the name of its family.
func genKey(t *rapid.T) ([]byte, string) {
	switch rapid.IntRange(0, 9).Draw(t, "keyFamily") {
	case 0, 1, 2: // fixed-length short keys over a 5-letter alphabet
		n := rapid.IntRange(1, 4).Draw(t, "shortLen")
		k := make([]byte, n)
		for i := range k {
			k[i] = rapid.SampledFrom(alpha5).Draw(t, "shortByte")
		}
		return k, "short" + strconv.Itoa(n)
	case 3, 4, 5: // 32-byte keys sharing exactly p nibbles with the base key
		k := cp(base32)
		if rapid.IntRange(0, 7).Draw(t, "isBase") == 0 {
			return k, "long32"
		}
		p := rapid.SampledFrom(divNibs).Draw(t, "divergeAt")
		d := byte(rapid.SampledFrom([]int{1, 2, 15}).Draw(t, "nibDelta"))
		nib := k[p/2]
		if p%2 == 0 {
			k[p/2] = ((((nib >> 4) + d) & 15) << 4) | (nib & 15)
		} else {
			k[p/2] = (nib & 0xf0) | (((nib & 15) + d) & 15)
		}
		if rapid.IntRange(0, 3).Draw(t, "altTail") == 0 { // different tail after the diverging nibble
			for i := p/2 + 1; i < 32; i++ {
				k[i] ^= 0x5a
			}
		}
		return k, "long32"
	case 6: // prefixes / extensions of the 32-byte base key
		switch rapid.IntRange(0, 3).Draw(t, "longVar") {
		case 0:
			return cp(base32[:31]), "longprefix"
		case 1:
			return cp(base32[:16]), "longprefix"
		case 2:
			return append(cp(base32), 0x00), "longprefix"
		default:
			return append(cp(base32), base32[0]), "longprefix"
		}
	default: // variable-length keys along one spine: prefixes of one another, plus siblings
		n := rapid.IntRange(0, 6).Draw(t, "spineLen")
		k := cp(spine[:n])
		if rapid.IntRange(0, 2).Draw(t, "sibling") == 0 {
			k = append(k, rapid.SampledFrom([]byte{0x00, 0x61, 0x6f, 0x71, 0xff}).Draw(t, "siblingByte"))
		}
		if len(k) == 0 {
			return k, "emptykey"
		}
		return k, "spine"
	}
}

func genValue(t *rapid.T) []byte {
	var n int
	switch rapid.IntRange(0, 10).Draw(t, "valLenKind") {
	case 10: // large values: a leaf or branch node far beyond the size of a full 16-child branch (~532 bytes of RLP)
		n = rapid.SampledFrom([]int{255, 256, 257, 500, 530, 545, 550, 551, 560, 600, 1024, 2000, 5000}).Draw(t, "valLenBig")
		v := bytes.Repeat([]byte{rapid.SampledFrom([]byte{0x00, 0x01, 0x7f, 0x80, 0xff}).Draw(t, "valFillBig")}, n)
		v[n-1] = rapid.Byte().Draw(t, "valLastByte") // two large values may differ in their last byte only
		if v[0] == 0 && rapid.Bool().Draw(t, "valFirstByte") {
			v[0] = 1
		}
		return v
	case 0, 1, 2, 3, 4:
		n = rapid.SampledFrom([]int{1, 31, 32, 33, 200}).Draw(t, "valLen")
	case 5, 6, 7, 8:
		n = rapid.IntRange(1, 40).Draw(t, "valLenR")
	default:
		n = rapid.SampledFrom([]int{55, 56, 57}).Draw(t, "valLenRLP")
	}
	fill := rapid.SampledFrom([]byte{0x00, 0x01, 0x7f, 0x80, 0xff}).Draw(t, "valFill")
	return bytes.Repeat([]byte{fill}, n)
}

func valClass(n int) string {
	switch {
	case n == 1:
		return "vlen=1"
	case n < 31:
		return "vlen=2..30"
	case n <= 33:
		return "vlen=" + strconv.Itoa(n)
	case n < 200:
		return "vlen=34..199"
	case n == 200:
		return "vlen=200"
	case n <= 540:
		return "vlen=255..540"
	default:
		return "vlen>540(node_larger_than_a_full_branch)"
	}
}

func sortedKeys(m map[string][]byte) []string {
	keys := make([]string, 0, len(m))
	for k := range m {
		keys = append(keys, k)
	}
	sort.Strings(keys)
	return keys
}

// pickKey: mostly a live key (so that overwrites, deletes and reads hit), else a fresh draw.
func pickKey(t *rapid.T, s *sut, liveBias int) ([]byte, string) {
	if len(s.model) > 0 && rapid.IntRange(0, 9).Draw(t, "useLive") < liveBias {
		keys := sortedKeys(s.model)
		return []byte(keys[rapid.IntRange(0, len(keys)-1).Draw(t, "liveIdx")]), "live"
	}
	return genKey(t)
}

func prefixRelated(m map[string][]byte) bool {
	keys := sortedKeys(m)
	for i := 0; i+1 < len(keys); i++ {
		if strings.HasPrefix(keys[i+1], keys[i]) {
			return true
		}
	}
	return false
}

// ---------------------------------------------------------------------------------------------
// the generated state machine
// ---------------------------------------------------------------------------------------------

func TestTrieHistories(t *testing.T) {
	stats.Check(t, 4000, 30000, func(t *rapid.T) {
		s, err := newSut()
		if err != nil {
			t.Fatalf("%v", err)
		}
		eager := rapid.Bool().Draw(t, "verifyAfterEveryStep")
		nsteps := rapid.IntRange(1, 60).Draw(t, "steps")
		var trace []string // operation kinds with outcome class = the distinctness fingerprint
		var human []string
		nonTrivial, steered := false, false
		reopened := false // a reopen happened and no mutation since
		classes := map[string]bool{}
		fail := func(step int, err error) {
			t.Fatalf("step %d: %v\nhistory: %s", step, err, strings.Join(human, " ; "))
		}
		noteShape := func() {
			_, sh := ref.MPTRootShape(s.model)
			if sh.Embedded > 0 {
				classes["shape:embedded_node"] = true
			}
			if sh.Hashed > 0 {
				classes["shape:hashed_node"] = true
			}
			if sh.Exact32 > 0 {
				classes["shape:node_rlp_exactly_32"] = true
			}
			if sh.BranchValues > 0 {
				classes["shape:branch_with_value"] = true
			}
			if sh.Extensions > 0 {
				classes["shape:extension"] = true
			}
			if sh.Depth >= 6 {
				classes["shape:depth>=6"] = true
			}
			if len(s.model) >= 10 {
				classes["size:>=10_live_keys"] = true
			}
			if prefixRelated(s.model) {
				classes["keys:prefix_related_set"] = true
			}
		}
		mutated := func() {
			if reopened {
				nonTrivial = true
				classes["nt:mutation_after_reopen"] = true
				reopened = false
			}
		}
		for step := 0; step < nsteps; step++ {
			op := rapid.IntRange(0, 99).Draw(t, "op")
			switch {
			case op < 36: // update
				k, fam := pickKey(t, s, 3)
				v := genValue(t)
				old, live := s.model[string(k)]
				tok := "U:new"
				if live && bytes.Equal(old, v) {
					tok = "U:same"
				} else if live {
					tok = "U:over"
				}
				trace = append(trace, tok)
				human = append(human, fmt.Sprintf("update(%x,%s)", k, renderVal(v)))
				classes["key:"+fam] = true
				classes[valClass(len(v))] = true
				classes["op:"+tok] = true
				if err := s.update(k, v); err != nil {
					fail(step, err)
				}
				mutated()
				noteShape()
			case op < 56: // delete / update with empty value
				k, fam := pickKey(t, s, 7)
				_, live := s.model[string(k)]
				_, before := ref.MPTRootShape(s.model)
				viaEmpty := op >= 50
				var err error
				name := "delete"
				if viaEmpty {
					name = "update-empty"
					var empty []byte
					if rapid.Bool().Draw(t, "nilValue") {
						empty = nil
					} else {
						empty = []byte{}
					}
					err = s.update(k, empty)
				} else {
					err = s.del(k)
				}
				_, after := ref.MPTRootShape(s.model)
				tok := "D:absent"
				if live {
					tok = "D:live"
					if after.Branches < before.Branches {
						tok = "D:collapse"
						nonTrivial = true
						classes["nt:delete_collapses_branch"] = true
						if after.Extensions != before.Extensions {
							classes["nt:collapse_changes_extensions"] = true
						}
					}
				}
				if viaEmpty {
					tok = "E" + tok[1:]
				}
				trace = append(trace, tok)
				human = append(human, fmt.Sprintf("%s(%x)", name, k))
				classes["key:"+fam] = true
				classes["op:"+tok] = true
				if err != nil {
					fail(step, err)
				}
				if live {
					mutated()
				}
				noteShape()
			case op < 63: // get
				k, _ := pickKey(t, s, 5)
				s.seen[string(k)] = true
				trace = append(trace, "G")
				human = append(human, fmt.Sprintf("get(%x)", k))
				if err := s.checkGet(k); err != nil {
					fail(step, err)
				}
			case op < 70: // hash
				trace = append(trace, "H")
				human = append(human, "hash")
				if err := s.checkHash(); err != nil {
					fail(step, err)
				}
			case op < 80: // commit
				flush := rapid.Bool().Draw(t, "flushToDisk")
				trace = append(trace, "C"+map[bool]string{true: "f", false: ""}[flush])
				human = append(human, fmt.Sprintf("commit(flush=%v)", flush))
				classes["op:commit"] = true
				if _, err := s.commit(flush); err != nil {
					fail(step, err)
				}
			case op < 84: // reopen on the same NodeDatabase
				trace = append(trace, "Rm")
				human = append(human, "reopen(cache)")
				classes["op:reopen_cache"] = true
				if err := s.reopen(false); err != nil {
					fail(step, err)
				}
				reopened = true
			case op < 89: // reopen from disk
				trace = append(trace, "Rd")
				human = append(human, "reopen(disk)")
				classes["op:reopen_disk"] = true
				if err := s.reopen(true); err != nil {
					fail(step, err)
				}
				reopened = true
			case op < 93: // cache limit
				l := rapid.IntRange(0, 3).Draw(t, "cacheLimit")
				trace = append(trace, "L"+strconv.Itoa(l))
				human = append(human, fmt.Sprintf("setCacheLimit(%d)", l))
				classes["op:cachelimit"] = true
				s.tr.SetCacheLimit(uint16(l))
			case op < 96: // evict the NodeDatabase cache to disk
				lim := rapid.SampledFrom([]int{0, 100, 500, 2000}).Draw(t, "capLimit")
				trace = append(trace, "Cap")
				human = append(human, fmt.Sprintf("cap(%d)", lim))
				classes["op:cap"] = true
				if err := guard("NodeDatabase.Cap", func() error { return s.tdb.Cap(common.StorageSize(lim)) }); err != nil {
					fail(step, err)
				}
			case op < 98: // iterate
				trace = append(trace, "I")
				human = append(human, "iterate")
				classes["op:iterate"] = true
				st, err := s.checkIter()
				steered = steered || st
				if err != nil {
					fail(step, err)
				}
			default: // iterate from a prefix
				k, _ := pickKey(t, s, 5)
				if len(k) > 0 && rapid.Bool().Draw(t, "truncate") {
					k = k[:rapid.IntRange(0, len(k)-1).Draw(t, "prefixLen")]
				}
				trace = append(trace, "If")
				human = append(human, fmt.Sprintf("iterateFrom(%x)", k))
				classes["op:iterate_from"] = true
				if err := s.checkIterFrom(k); err != nil {
					fail(step, err)
				}
			}
			if eager {
				st, err := s.verify()
				steered = steered || st
				if err != nil {
					fail(step, fmt.Errorf("(check after the step) %v", err))
				}
			}
		}
		st, err := s.verify()
		steered = steered || st
		if err != nil {
			fail(nsteps, fmt.Errorf("(final check) %v", err))
		}
		if steered {
			stats.Exclude(findingIterOrder)
		}
		key := ""
		if nonTrivial {
			key = "hist:" + strconv.FormatBool(eager) + ":" + strings.Join(trace, ",")
		}
		cl := make([]string, 0, len(classes)+2)
		for c := range classes {
			cl = append(cl, c)
		}
		sort.Strings(cl)
		cl = append(cl, "tier:generated", "mode:eager="+strconv.FormatBool(eager))
		stats.Case(key, cl...)
		if len(human) > 14 {
			human = append(human[:14], fmt.Sprintf("... (%d steps)", len(human)))
		}
		stats.Sample(map[string]interface{}{"tier": "generated", "eager": eager, "history": strings.Join(human, " ; "),
			"final_live_keys": len(s.model), "nontrivial": nonTrivial})
	})
}

// ---------------------------------------------------------------------------------------------
// exhaustive small tier
// ---------------------------------------------------------------------------------------------

type smallSpace struct {
	name string
	keys [4][]byte
	vals [2][]byte
}

func flipNibble(k []byte, p int) []byte {
	out := cp(k)
	if p%2 == 0 {
		out[p/2] ^= 0x10
	} else {
		out[p/2] ^= 0x01
	}
	return out
}

var spaces = []smallSpace{
	// prefix-related short keys: 1234/1235 share 3 nibbles (extension + branch), 12 is a prefix of
	// both (branch value slot), 2234 diverges at the first nibble. A 29-byte value makes the
	// two-item leaf under the 123x branch exactly 32 bytes of RLP (the embed/hash boundary).
	{"A:prefix-related-short", [4][]byte{{0x12, 0x34}, {0x12, 0x35}, {0x12}, {0x22, 0x34}},
		[2][]byte{{0x01}, bytes.Repeat([]byte{0xaa}, 29)}},
	// prefix-free 32-byte keys sharing 63 / 32 / 0 nibbles with the first one
	{"B:prefix-free-32byte", [4][]byte{cp(base32), flipNibble(base32, 63), flipNibble(base32, 32), flipNibble(base32, 0)},
		[2][]byte{{0x80}, bytes.Repeat([]byte{0xbb}, 33)}},
}

// alphabet: op = 3*key + {0: put v0, 1: put v1, 2: delete}; 12 = commit+flush; 13 = reopen from disk.
// delete is TryDelete for keys 0 and 2, TryUpdate(k, empty) for keys 1 and 3.
const nSmallOps = 14

func smallOpName(op int) string {
	switch {
	case op == 12:
		return "C"
	case op == 13:
		return "R"
	default:
		return fmt.Sprintf("k%d%s", op/3, []string{"=a", "=b", "-"}[op%3])
	}
}

type smallRef struct {
	done     bool
	branches int
}

func runSmall(sp *smallSpace, seq []int, eager bool, refCache map[string]smallRef) (nonTrivial, steered bool, err error) {
	s, err := newSut()
	if err != nil {
		return false, false, err
	}
	for _, k := range sp.keys {
		s.seen[string(k)] = true
	}
	branches := func() int {
		var sb strings.Builder
		for _, k := range sp.keys {
			v := s.model[string(k)]
			sb.WriteByte(byte(len(v)))
		}
		c, ok := refCache[sb.String()]
		if !ok {
			_, sh := ref.MPTRootShape(s.model)
			c = smallRef{true, sh.Branches}
			refCache[sb.String()] = c
		}
		return c.branches
	}
	reopened := false
	for i, op := range seq {
		switch {
		case op == 12:
			_, err = s.commit(true)
		case op == 13:
			err = s.reopen(true)
			reopened = true
		default:
			k := sp.keys[op/3]
			_, live := s.model[string(k)]
			changed := true
			switch op % 3 {
			case 2:
				before := branches()
				if (op/3)%2 == 0 {
					err = s.del(k)
				} else {
					err = s.update(k, nil)
				}
				if live && branches() < before {
					nonTrivial = true
				}
				changed = live
			default:
				err = s.update(k, sp.vals[op%3])
			}
			if changed && reopened {
				nonTrivial = true
				reopened = false
			}
		}
		if err != nil {
			return nonTrivial, steered, fmt.Errorf("step %d (%s): %v", i, smallOpName(op), err)
		}
		if eager || i == len(seq)-1 {
			st, err := s.verify()
			steered = steered || st
			if err != nil {
				return nonTrivial, steered, fmt.Errorf("after step %d (%s): %v", i, smallOpName(op), err)
			}
		}
	}
	return nonTrivial, steered, nil
}

func TestExhaustiveSmall(t *testing.T) {
	maxLen := stats.N(4, 5)
	if v := os.Getenv("C02_EXH_LEN"); v != "" {
		maxLen, _ = strconv.Atoi(v)
	}
	shard, _ := strconv.Atoi(os.Getenv("VERIF_SHARD"))
	shards, _ := strconv.Atoi(os.Getenv("VERIF_SHARDS"))
	if shards < 1 {
		shards, shard = 1, 0
	}
	var counter, ran int64
	for si := range spaces {
		sp := &spaces[si]
		refCache := map[string]smallRef{}
		// lazy mode: every sequence of length 1..maxLen, observed only at its end;
		// eager mode: every sequence of length maxLen, observed after every step (covers all its prefixes).
		for _, eager := range []bool{false, true} {
			lo := 1
			if eager {
				lo = maxLen
			}
			for n := lo; n <= maxLen; n++ {
				seq := make([]int, n)
				for {
					counter++
					if int(counter%int64(shards)) == shard {
						ran++
						nt, steered, err := runSmall(sp, seq, eager, refCache)
						names := make([]string, n)
						for i, op := range seq {
							names[i] = smallOpName(op)
						}
						desc := sp.name + " eager=" + strconv.FormatBool(eager) + " " + strings.Join(names, ",")
						if err != nil {
							t.Fatalf("exhaustive tier, space %s: %v\nsequence: %s\nkeys: %x values: %s / %s", sp.name, err, desc,
								sp.keys, renderVal(sp.vals[0]), renderVal(sp.vals[1]))
						}
						if steered {
							stats.Exclude(findingIterOrder)
						}
						key := ""
						if nt {
							key = "exh:" + desc
						}
						stats.Case(key, "tier:exhaustive", "exhaustive:"+sp.name)
						if ran%8192 == 1 {
							stats.Sample(map[string]interface{}{"tier": "exhaustive", "sequence": desc, "nontrivial": nt})
						}
					}
					// next sequence (odometer)
					i := n - 1
					for i >= 0 {
						seq[i]++
						if seq[i] < nSmallOps {
							break
						}
						seq[i] = 0
						i--
					}
					if i < 0 {
						break
					}
				}
			}
		}
		stats.Exhaustive(fmt.Sprintf("C02 small tier %s: all operation sequences of length <= %d over {4 keys x (2 values + delete), commit+flush, reopen-from-disk} "+
			"(14 operations), observed at the end (every length) and after every step (full length)", sp.name, maxLen))
	}
	stats.Count("exhaustive_sequences_run", ran)
	stats.Note("exhaustive_tier", fmt.Sprintf("max sequence length %d, %d sequence executions in this shard (%d/%d)", maxLen, ran, shard, shards))
}

// ---------------------------------------------------------------------------------------------
// probe for the recorded finding F-C02-a
// ---------------------------------------------------------------------------------------------

// Minimal case: keys "a" and "ab". Byte order is a < ab; the iterator yields ab first.
func TestProbeIterOrderPrefixKeys(t *testing.T) {
	s, err := newSut()
	if err != nil {
		t.Fatal(err)
	}
	if err := s.update([]byte("a"), []byte{1}); err != nil {
		t.Fatal(err)
	}
	if err := s.update([]byte("ab"), []byte{2}); err != nil {
		t.Fatal(err)
	}
	got, err := s.iterate(nil)
	if err != nil {
		t.Fatal(err)
	}
	if len(got) != 2 {
		t.Fatalf("iterator yields %d pairs for 2 live keys: %s", len(got), renderPairs(got))
	}
	present := bytes.Compare(got[0].k, got[1].k) > 0
	stats.Probe(t, findingIterOrder, "C02", present,
		fmt.Sprintf("trie iterator is not in ascending key order when one key is a prefix of another: keys {61, 6162} are yielded as %s "+
			"(a key comes after all keys it is a strict prefix of); pair set, values and order among non-prefix-related keys are correct",
			renderPairs(got)))
}
