package c02

import (
	"fmt"
	"sort"
	"sync"
	"testing"

	"pgregory.net/rapid"

	"verifharness/internal/stats"
)

// A node works on several tries at the same time (the account trie of the block being executed, storage tries,
// the state a query reads, a sibling block being verified), each with its own node database: generated
// scripts (update / delete / hash / commit / reopen from cache or disk) are run each on its own trie, first
// alone and then all at the same time from several goroutines, several times over. Every run must report
// the canonical root of its own content at every hash/commit point and read back its own last writes.

type cOp struct {
	kind byte // u update, d delete, h hash, c commit, r reopen (cache), R reopen (disk)
	k, v []byte
}

func runScript(ops []cOp) error {
	s, err := newSut()
	if err != nil {
		return err
	}
	for i, op := range ops {
		var e error
		switch op.kind {
		case 'u':
			e = s.update(op.k, op.v)
		case 'd':
			e = s.del(op.k)
		case 'h':
			e = s.checkHash()
		case 'c':
			_, e = s.commit(true)
		case 'r':
			e = s.reopen(false)
		case 'R':
			e = s.reopen(true)
		}
		if e != nil {
			return fmt.Errorf("op %d (%c %x): %v", i, op.kind, op.k, e)
		}
	}
	if err := s.checkHash(); err != nil {
		return err
	}
	keys := make([]string, 0, len(s.seen))
	for k := range s.seen {
		keys = append(keys, k)
	}
	sort.Strings(keys)
	for _, k := range keys {
		if err := s.checkGet([]byte(k)); err != nil {
			return err
		}
	}
	return nil
}

func TestConcurrentTries(t *testing.T) {
	stats.Check(t, 150, 3000, func(t *rapid.T) {
		n := rapid.IntRange(2, 5).Draw(t, "tries")
		scripts := make([][]cOp, n)
		for i := range scripts {
			var keys [][]byte
			for j, m := 0, rapid.IntRange(3, 25).Draw(t, "ops"); j < m; j++ {
				switch x := rapid.IntRange(0, 11).Draw(t, "op"); {
				case x <= 5 || len(keys) == 0:
					k, _ := genKey(t)
					keys = append(keys, k)
					scripts[i] = append(scripts[i], cOp{kind: 'u', k: k, v: genValue(t)})
				case x <= 7:
					scripts[i] = append(scripts[i], cOp{kind: 'd', k: rapid.SampledFrom(keys).Draw(t, "delKey")})
				case x == 8:
					scripts[i] = append(scripts[i], cOp{kind: 'h'})
				case x == 9:
					scripts[i] = append(scripts[i], cOp{kind: 'c'})
				case x == 10:
					scripts[i] = append(scripts[i], cOp{kind: 'r'})
				default:
					scripts[i] = append(scripts[i], cOp{kind: 'R'})
				}
			}
			if err := runScript(scripts[i]); err != nil {
				t.Fatalf("alone: script %d: %v", i, err)
			}
		}
		reps := rapid.SampledFrom([]int{3, 10, 40}).Draw(t, "repetitions")
		var wg sync.WaitGroup
		var mu sync.Mutex
		failure := ""
		start := make(chan struct{})
		for i := range scripts {
			wg.Add(1)
			go func(i int) {
				defer wg.Done()
				<-start
				for r := 0; r < reps; r++ {
					if err := runScript(scripts[i]); err != nil {
						mu.Lock()
						failure = fmt.Sprintf("script %d is correct when run alone, but while %d other tries (each with its own node database) were being worked on (repetition %d): %v", i, n-1, r, err)
						mu.Unlock()
						return
					}
				}
			}(i)
		}
		close(start)
		wg.Wait()
		if failure != "" {
			t.Fatalf("%s", failure)
		}
		stats.Case(fmt.Sprintf("conc|%d|%d|%x", n, len(scripts[0]), scripts[0][0].k), "concurrent_tries", fmt.Sprintf("concurrent_goroutines:%d", n), fmt.Sprintf("concurrent_repetitions:%d", reps))
		stats.Count("concurrent_script_runs", int64(n*reps))
	})
}
