package c13

import (
	"bytes"
	"crypto/sha256"
	"encoding/hex"
	"fmt"
	"math/big"
	"math/bits"
	"sort"
	"strings"
	"testing"

	"com.tuntun.rangers/node/src/common"
	"com.tuntun.rangers/node/src/consensus/base"
	"com.tuntun.rangers/node/src/consensus/groupsig"
	bn "com.tuntun.rangers/node/src/consensus/groupsig/bn256"
	"com.tuntun.rangers/node/src/consensus/logical"
	"com.tuntun.rangers/node/src/consensus/logical/group_create"
	"com.tuntun.rangers/node/src/consensus/model"
	"pgregory.net/rapid"

	"verifharness/internal/ref"
	"verifharness/internal/stats"
)

// C13: any threshold subset of group members yields the same valid group signature.
//
// One case = one group instance: n members with generated ids, n generated miner seeds, a
// generated group hash and message. The keys come from the node's own DKG code, driven through
// hook H3 (group_create.VerifDKGMember = newGroupInitContext / GenSharePieces / HandleSharePiece).
// For that instance EVERY subset S with |S| >= k is combined (exhaustive), in 3 arrival orders,
// through the three combiners the node has, and every (k-1)-subset is shown not to suffice.

func TestMain(m *testing.M) {
	stats.SetRule("one case = one DKG instance (n, member ids, miner seeds, group hash, message, history of 0-2 rounds of partial piece delivery followed by a generated set of members " +
		"re-creating their group-creation context from the same seed and dealing again) with ALL subsets of size >= k combined in 3 arrival orders " +
		"through model.GroupSignGenerator, round1's groupSignGenerator and groupsig.RecoverGroupSignature (supersets 4 runs), plus all (k-1)-subsets; " +
		"non-trivial = ids are not 1..n and n >= 6; distinct by (n, ids, seeds, group hash, message). " +
		"TestMessageSweep: one case = one small-group instance (3 smallest sizes) reused for 48 generated messages (random 0-200 B, 32-B hashes, beacon chain = previous group signature, " +
		"repeated bytes, counters, sparse), per message: all shares verify, two different threshold subsets in generated orders through both collectors agree byte-for-byte with " +
		"Sign(sum of secrets, msg) and verify; non-trivial = ids not 1..n and a non-empty message; distinct by (instance, hash of the message batch)")
	stats.Assume("member ids are non-zero integers < 2^256 and pairwise distinct modulo the group order r (two ids congruent mod r are the same evaluation point; for 256-bit hashes of " +
		"public keys a collision mod r is cryptographically infeasible); ids >= r (about 44% of uniformly distributed 256-bit ids) are generated, and style zero_mod_r has one member " +
		"whose id is a multiple of r (the node accepts it; its share is the group secret - sets of fewer than k members containing it are not asserted on, only counted)")
	stats.Assume("a dealer's secret is what its DKG context reports as its seed secret key (constant term); the expected group signature is " +
		"(sum of dealer secrets mod r) * H(msg), with the sum in math/big, r from the curve definition (internal/ref) and the scalar multiplication done both by " +
		"the package's Sign and by the big.Int reference curve arithmetic; H(msg) is taken from the implementation as Sign(1, msg)")
	stats.Assume("(k-1)-subsets: interpolating k-1 points of a degree k-1 polynomial gives the secret with probability 1/r per subset; treated as impossible")
	common.Init(0, "1.ini", "dev") // writes 1.ini/logs into the scratch cwd
	logical.InitConsensus()        // model.InitParam(...) the way the node does it
	group_create.VerifInitLoggers()
	stats.Main(m, "C13")
}

var (
	order  = ref.BNOrder
	two256 = new(big.Int).Lsh(big.NewInt(1), 256)
	g2gen  ref.G2Pt
)

func init() {
	if order.Cmp(bn.Order) != 0 {
		panic("reference group order differs from bn256.Order")
	}
	pt, cls := ref.G2DecodeStrict(bn.GetG2Base().Marshal())
	if cls != ref.EncPoint {
		panic("implementation's G2 generator does not decode on the reference twist: " + cls)
	}
	g2gen = pt
}

// refThreshold is ceil(51% of n) in integer arithmetic (anchor: "threshold = ceil(51% of members)").
func refThreshold(n int) int { return (n*51 + 99) / 100 }

// sizes: every group size any configuration of the node allows: the compiled-in constants
// (5..10) together with the limits of the running configuration (dev lowers the minimum to 3).
func sizes() (lo, hi int) {
	lo, hi = model.GROUP_MIN_MEMBERS, model.GROUP_MAX_MEMBERS
	if model.Param.GroupMemberMin > 0 && model.Param.GroupMemberMin < lo {
		lo = model.Param.GroupMemberMin
	}
	if model.Param.GroupMemberMax > hi {
		hi = model.Param.GroupMemberMax
	}
	return
}

// ---------- generators ----------

func mkID(v *big.Int) groupsig.ID {
	return groupsig.DeserializeID(v.FillBytes(make([]byte, 32)))
}

func genBig32(t *rapid.T, label string) *big.Int {
	return new(big.Int).SetBytes(rapid.SliceOfN(rapid.Byte(), 32, 32).Draw(t, label))
}

func genOneID(t *rapid.T, style string, i int) *big.Int {
	small := big.NewInt(int64(rapid.IntRange(1, 64).Draw(t, fmt.Sprintf("small%d", i))))
	switch style {
	case "hash":
		return genBig32(t, fmt.Sprintf("id%d", i))
	case "small":
		return small
	case "over_order": // r + small (2r > 2^256 for this curve)
		return new(big.Int).Add(order, small)
	case "near_order":
		return new(big.Int).Sub(order, small)
	case "top":
		return new(big.Int).Sub(two256, small)
	}
	panic("style " + style)
}

var idStyles = []string{"hash", "hash", "small", "over_order", "near_order", "top", "seq", "mixed", "mixed", "one_to_n", "zero_mod_r", "zero_mod_r"}

// zeroModR: every non-zero multiple of the group order that fits an id (32 bytes). Such an id is
// non-zero, so the node accepts it (ID.IsValid, newGroupInitContext); its share is f(0).
var zeroModR = func() []*big.Int {
	var l []*big.Int
	for v := new(big.Int).Set(ref.BNOrder); v.Cmp(new(big.Int).Lsh(big.NewInt(1), 256)) < 0; v = new(big.Int).Add(v, ref.BNOrder) {
		l = append(l, v)
	}
	return l
}()

// genIDs draws n member ids, non-zero as integers, pairwise distinct modulo r, all < 2^256. In
// style zero_mod_r exactly one id is a multiple of r; in all other styles every id is non-zero mod r.
func genIDs(t *rapid.T, n int) ([]*big.Int, string) {
	style := rapid.SampledFrom(idStyles).Draw(t, "idstyle")
	ids := make([]*big.Int, n)
	switch style {
	case "one_to_n":
		for i := range ids {
			ids[i] = big.NewInt(int64(i + 1))
		}
	case "seq":
		b := genBig32(t, "seqbase")
		b.Rsh(b, uint(rapid.IntRange(1, 200).Draw(t, "seqshift")))
		step := int64(rapid.IntRange(1, 3).Draw(t, "seqstep"))
		for i := range ids {
			ids[i] = new(big.Int).Add(b, big.NewInt(step*int64(i)+1))
		}
	case "mixed", "zero_mod_r":
		for i := range ids {
			s := rapid.SampledFrom([]string{"hash", "small", "over_order", "near_order", "top"}).Draw(t, fmt.Sprintf("style%d", i))
			ids[i] = genOneID(t, s, i)
		}
	default:
		for i := range ids {
			ids[i] = genOneID(t, style, i)
		}
	}
	// deterministic fix-up into the domain: non-zero and distinct mod r, < 2^256
	seen := map[string]bool{}
	zi := -1
	if style == "zero_mod_r" {
		zi = rapid.IntRange(0, n-1).Draw(t, "zero_member")
		ids[zi] = new(big.Int).Set(rapid.SampledFrom(zeroModR).Draw(t, "zero_multiple"))
	}
	for i := range ids {
		if i == zi {
			continue
		}
		for {
			if ids[i].Cmp(two256) >= 0 {
				ids[i].Sub(ids[i], order)
			}
			m := new(big.Int).Mod(ids[i], order)
			if m.Sign() != 0 && !seen[m.String()] {
				seen[m.String()] = true
				break
			}
			ids[i].Add(ids[i], big.NewInt(1))
		}
	}
	ids = rapid.Permutation(ids).Draw(t, "memberorder")
	return ids, style
}

func genMsg(t *rapid.T) []byte {
	switch rapid.IntRange(0, 5).Draw(t, "msgkind") {
	case 0:
		return []byte{}
	case 1:
		return rapid.SliceOfN(rapid.Byte(), 200, 200).Draw(t, "msg200")
	case 2: // a block hash
		return rapid.SliceOfN(rapid.Byte(), 32, 32).Draw(t, "msg32")
	default:
		return rapid.SliceOfN(rapid.Byte(), 1, 199).Draw(t, "msg")
	}
}

func isOneToN(ids []*big.Int) bool {
	s := make([]*big.Int, len(ids))
	copy(s, ids)
	sort.Slice(s, func(a, b int) bool { return s[a].Cmp(s[b]) < 0 })
	for i, v := range s {
		if v.Cmp(big.NewInt(int64(i+1))) != 0 {
			return false
		}
	}
	return true
}

// ---------- instance ----------

type instance struct {
	n, k    int
	idVals  []*big.Int
	ids     []groupsig.ID
	hexes   []string
	msg     []byte
	gpk     groupsig.Pubkey
	signSK  []groupsig.Seckey
	shares  []groupsig.Signature
	want    []byte // canonical encoding of the one valid group signature
	orders  [3][]int
	style   string
	secrets []*big.Int

	restarts     int    // member contexts re-created during key generation
	restartClass string // restart_rounds:N
	partial      bool   // a restarting dealer's pre-restart piece is held by a surviving receiver
	dups         int    // duplicate pieces offered to receivers

	zeroIdx   int               // index of the member whose id is 0 mod r, -1 if none
	sumKey    groupsig.Seckey   // sum of the dealer secrets mod r (harness-side)
	pubShares []groupsig.Pubkey // GeneratePubkey(member's share key)
}

func short(b []byte) string {
	h := hex.EncodeToString(b)
	if len(h) > 20 {
		return h[:8] + ".." + h[len(h)-8:] + fmt.Sprintf("(%dB)", len(b))
	}
	return h
}

// buildInstance runs the node's DKG for n members and checks the DKG-level statements.
// forceIDs, when set, makes buildInstance use these member ids instead of the generated ones.
var forceIDs []*big.Int

func buildInstance(t *rapid.T, n int) *instance {
	in := &instance{n: n}
	in.k = model.Param.GetGroupK(n)
	if want := refThreshold(n); in.k != want {
		t.Fatalf("threshold: GetGroupK(%d)=%d, ceil(51%% of %d)=%d", n, in.k, n, want)
	}
	// all size tests run from the same rapid seed: shift the stream by a size-dependent amount so
	// that they do not all draw the same id style / message kind sequence
	_ = rapid.SliceOfN(rapid.Byte(), 3*n, 3*n).Draw(t, "decorrelate")
	in.idVals, in.style = genIDs(t, n)
	if forceIDs != nil { // a second group with the same members
		in.idVals = forceIDs
	}
	in.zeroIdx = -1
	for i, v := range in.idVals {
		id := mkID(v)
		if !id.IsValid() {
			t.Fatalf("harness: generated id %s is not a valid node id", v.Text(16))
		}
		in.ids = append(in.ids, id)
		in.hexes = append(in.hexes, id.GetHexString())
		if new(big.Int).Mod(v, order).Sign() == 0 {
			in.zeroIdx = i
		}
	}
	var gh common.Hash
	copy(gh[:], rapid.SliceOfN(rapid.Byte(), 32, 32).Draw(t, "grouphash"))
	seeds := make([]base.Rand, n)
	for i := range seeds {
		copy(seeds[i][:], rapid.SliceOfN(rapid.Byte(), 32, 32).Draw(t, fmt.Sprintf("seed%d", i)))
	}
	in.msg = genMsg(t)

	// --- the node's DKG, with a generated history of dealer restarts ---
	// Rounds of (some pieces are delivered; a generated set of members loses its group-creation
	// context and re-creates it from the same miner seed and group hash, then deals again),
	// followed by every (current) dealer delivering to every receiver. Receivers apply the node's
	// own duplicate rule to pieces they already hold.
	members := make([]*group_create.VerifDKGMember, n)
	dealt := make([]map[string]model.SharePiece, n)
	has := make([][]bool, n) // has[j][d]: receiver j's current context holds a piece of dealer d
	cnt := make([]int, n)    // pieces held by receiver j's current context
	done := make([]bool, n)  // receiver j's current context reported completion
	create := func(i int, again bool) {
		memList := append([]groupsig.ID{}, in.ids...)
		m := group_create.VerifNewDKGMember(seeds[i], gh, memList)
		if m == nil {
			t.Fatalf("member %d: group init context not created for valid ids", i)
		}
		if th := m.Threshold(); th != in.k {
			t.Fatalf("member %d derives threshold %d for n=%d, GetGroupK gives %d", i, th, n, in.k)
		}
		pieces := m.GenSharePieces()
		if len(pieces) != n {
			t.Fatalf("dealer %d dealt %d pieces for %d members", i, len(pieces), n)
		}
		pub := m.SeedPubKey()
		if !pub.IsEqual(*groupsig.GeneratePubkey(m.SeedSecKey())) {
			t.Fatalf("dealer %d publishes a public key that is not the public key of its secret", i)
		}
		for _, h := range in.hexes {
			p, ok := pieces[h]
			if !ok {
				t.Fatalf("dealer %d dealt no piece for member %s", i, h)
			}
			if !p.Pub.IsEqual(pub) {
				t.Fatalf("dealer %d: piece for %s carries a different dealer public key", i, h)
			}
		}
		if again {
			// a member re-created for the same group (restart, context dropped and rebuilt) must
			// deal the very same polynomial, or members end up with shares of different ones
			old := members[i]
			if !bytes.Equal(old.SeedPubKey().Serialize(), pub.Serialize()) || old.SeedSecKey().GetBigInt().Cmp(m.SeedSecKey().GetBigInt()) != 0 {
				t.Fatalf("dealer %d re-created with the same miner seed and group hash deals a different secret / public key (%s, before %s)",
					i, short(pub.Serialize()), short(old.SeedPubKey().Serialize()))
			}
			for _, h := range in.hexes {
				o, p := dealt[i][h], pieces[h]
				if !bytes.Equal(o.Share.Serialize(), p.Share.Serialize()) || !bytes.Equal(o.Pub.Serialize(), p.Pub.Serialize()) {
					t.Fatalf("dealer %d re-created with the same miner seed and group hash deals a different piece to member %s", i, h)
				}
			}
		}
		members[i], dealt[i] = m, pieces
		has[i], cnt[i], done[i] = make([]bool, n), 0, false
	}
	dups := 0
	deliver := func(d, j int) {
		p := dealt[d][in.hexes[j]]
		r := members[j].HandleSharePiece(in.ids[d], &p)
		if has[j][d] {
			dups++ // duplicate: the statement does not fix the return value, only the outcome
			return
		}
		has[j][d] = true
		cnt[j]++
		want := 0
		if cnt[j] == n {
			want = 1
			done[j] = true
		}
		if r != want {
			t.Fatalf("receiver %d: HandleSharePiece of piece #%d (from dealer %d) returned %d, expected %d; DKG with honest pieces did not proceed normally", j, cnt[j], d, r, want)
		}
	}
	for i := 0; i < n; i++ {
		create(i, false)
	}
	rounds := rapid.SampledFrom([]int{0, 0, 1, 1, 2}).Draw(t, "restart_rounds")
	in.restarts = 0
	partial := false
	for rd := 0; rd < rounds; rd++ {
		early := rapid.SliceOfN(rapid.Bool(), n*n, n*n).Draw(t, fmt.Sprintf("early%d", rd))
		down := rapid.SliceOfN(rapid.Bool(), n, n).Draw(t, fmt.Sprintf("down%d", rd))
		forced := rapid.IntRange(0, n-1).Draw(t, fmt.Sprintf("down%d_one", rd))
		down[forced] = true
		for d := 0; d < n; d++ {
			got := 0
			for j := 0; j < n; j++ {
				if early[d*n+j] {
					deliver(d, j)
					if !down[j] {
						got++
					}
				}
			}
			if down[d] && got > 0 {
				partial = true // some surviving receiver holds a pre-restart piece of a restarting dealer
			}
		}
		for i := 0; i < n; i++ {
			if down[i] {
				create(i, true)
				in.restarts++
			}
		}
	}
	for j := 0; j < n; j++ {
		perm := make([]int, n)
		for i := range perm {
			perm[i] = i
		}
		perm = rapid.Permutation(perm).Draw(t, fmt.Sprintf("delivery%d", j))
		for _, d := range perm {
			deliver(d, j)
		}
		if !done[j] {
			t.Fatalf("receiver %d did not complete key generation after receiving a piece of every dealer", j)
		}
	}
	in.restartClass = fmt.Sprintf("restart_rounds:%d", rounds)
	in.partial = partial
	in.dups = dups
	sum := new(big.Int)
	for j := 0; j < n; j++ {
		sec := members[j].SeedSecKey().GetBigInt()
		in.secrets = append(in.secrets, sec)
		sum.Add(sum, sec)
		in.signSK = append(in.signSK, members[j].SignSecKey())
	}
	sum.Mod(sum, order)
	in.gpk = members[0].GroupPubKey()
	for j := 1; j < n; j++ {
		if g := members[j].GroupPubKey(); !bytes.Equal(g.Serialize(), in.gpk.Serialize()) {
			t.Fatalf("members 0 and %d computed different group public keys", j)
		}
	}
	// group public key = sum of dealers' public keys = (sum of secrets) * g2, independently
	if wantPK := ref.G2Encode(ref.G2Mul(g2gen, sum)); !bytes.Equal(in.gpk.Serialize(), wantPK) {
		t.Fatalf("group public key %s is not (sum of dealer secrets)*g2 = %s", short(in.gpk.Serialize()), short(wantPK))
	}

	// --- expected signature, independent of Lagrange recovery ---
	sumKey := groupsig.NewSeckeyFromBigInt(new(big.Int).Set(sum))
	in.sumKey = *sumKey
	exp := groupsig.Sign(*sumKey, in.msg)
	in.want = exp.Serialize()
	one := groupsig.NewSeckeyFromBigInt(big.NewInt(1))
	hm, cls := ref.G1DecodeStrict(groupsig.Sign(*one, in.msg).Serialize())
	if cls != ref.EncPoint {
		t.Fatalf("H(msg) is not a canonical curve point: %s", cls)
	}
	if refSig := ref.G1Encode(ref.G1Mul(hm, sum)); !bytes.Equal(refSig, in.want) {
		t.Fatalf("Sign(sum of secrets, msg)=%s, reference scalar multiplication gives %s", short(in.want), short(refSig))
	}
	if !groupsig.VerifySig(in.gpk, in.msg, exp) {
		t.Fatalf("Sign(sum of dealer secrets, msg) does not verify under the group public key")
	}

	// --- every member's share verifies under its public share ---
	for j := 0; j < n; j++ {
		if !in.signSK[j].IsValid() {
			t.Fatalf("member %d has no sign secret key after DKG", j)
		}
		sh := groupsig.Sign(in.signSK[j], in.msg)
		in.shares = append(in.shares, sh)
		in.pubShares = append(in.pubShares, *groupsig.GeneratePubkey(in.signSK[j]))
		if !groupsig.VerifySig(in.pubShares[j], in.msg, sh) {
			t.Fatalf("member %d: signature share does not verify under GeneratePubkey(share key)", j)
		}
	}

	// 3 generated arrival orders: rank permutations over the members
	for r := range in.orders {
		perm := make([]int, n)
		for i := range perm {
			perm[i] = i
		}
		in.orders[r] = rapid.Permutation(perm).Draw(t, fmt.Sprintf("arrival%d", r))
	}
	return in
}

// arrival: the members of subset mask in arrival order r (rank permutation, rotated by a
// subset-dependent offset so that the first-k prefix varies between subsets).
func (in *instance) arrival(mask uint, r int, idx int) []int {
	var out []int
	for _, m := range in.orders[r] {
		if mask&(1<<uint(m)) != 0 {
			out = append(out, m)
		}
	}
	rot := (idx + r) % len(out)
	return append(out[rot:], out[:rot]...)
}

func (in *instance) describe(mask uint, arr []int) string {
	var s []string
	for _, m := range arr {
		s = append(s, fmt.Sprintf("%d:%s", m, in.idVals[m].Text(16)))
	}
	return fmt.Sprintf("n=%d k=%d subset=%0*b arrival=[%s] msg=%s", in.n, in.k, in.n, mask, strings.Join(s, " "), short(in.msg))
}

type collector interface {
	AddWitnessSign(id groupsig.ID, sig groupsig.Signature) (bool, bool)
	GetGroupSign() groupsig.Signature
}

// feed adds the shares in arrival order to a collector the way round1 / the parent-group
// consensus do and returns the collector's group signature.
func (in *instance) feed(t *rapid.T, name string, c collector, mask uint, arr []int) []byte {
	for pos, m := range arr {
		c.AddWitnessSign(in.ids[m], in.shares[m])
		if pos+1 == in.k-1 {
			// k-1 shares collected: whatever the collector holds must not be a valid group signature
			g := c.GetGroupSign()
			if g.IsValid() && groupsig.VerifySig(in.gpk, in.msg, g) {
				t.Fatalf("%s: a valid group signature exists after only k-1=%d shares; %s", name, in.k-1, in.describe(mask, arr))
			}
		}
	}
	g := c.GetGroupSign()
	return g.Serialize()
}

func (in *instance) mustEqual(t *rapid.T, name string, got []byte, mask uint, arr []int, verified map[string]bool) {
	if !bytes.Equal(got, in.want) {
		t.Fatalf("%s: combined signature %s differs from Sign(sum of dealer secrets, msg) %s; %s", name, short(got), short(in.want), in.describe(mask, arr))
	}
	// byte-identical to a signature already verified under the group public key; verify the
	// recovered object itself once per combiner
	if !verified[name] {
		verified[name] = true
		if !groupsig.VerifySig(in.gpk, in.msg, *groupsig.DeserializeSign(got)) {
			t.Fatalf("%s: combined signature does not verify under the group public key; %s", name, in.describe(mask, arr))
		}
	}
}

func (in *instance) mapOf(arr []int) map[string]groupsig.Signature {
	m := make(map[string]groupsig.Signature, len(arr))
	for _, x := range arr {
		m[in.hexes[x]] = in.shares[x]
	}
	return m
}

// checkAllSubsets is the exhaustive part: all subsets with |S| >= k, and all with |S| = k-1.
func (in *instance) checkAllSubsets(t *rapid.T, fullVerifyBelow bool) (nSub, nBelow, nRec int) {
	verified := map[string]bool{}
	idx := 0
	for mask := uint(1); mask < 1<<uint(in.n); mask++ {
		sz := bits.OnesCount(mask)
		switch {
		case sz >= in.k:
			nSub++
			idx++
			for r := 0; r < 3; r++ {
				arr := in.arrival(mask, r, idx)
				in.mustEqual(t, "model.GroupSignGenerator", in.feed(t, "model.GroupSignGenerator", model.NewGroupSignGenerator(in.k), mask, arr), mask, arr, verified)
				in.mustEqual(t, "round1.groupSignGenerator", in.feed(t, "round1.groupSignGenerator", logical.VerifNewRoundSignGenerator(in.k), mask, arr), mask, arr, verified)
				nRec += 2
				if sz == in.k {
					sig := groupsig.RecoverGroupSignature(in.mapOf(arr), in.k)
					in.mustEqual(t, "RecoverGroupSignature", sig.Serialize(), mask, arr, verified)
					nRec++
				}
			}
			if sz > in.k {
				// the routine picks a random k-subset of what it is given: several runs
				for run := 0; run < 4; run++ {
					arr := in.arrival(mask, run%3, idx+run)
					sig := groupsig.RecoverGroupSignature(in.mapOf(arr), in.k)
					in.mustEqual(t, "RecoverGroupSignature(superset)", sig.Serialize(), mask, arr, verified)
					nRec++
				}
			}
		case sz == in.k-1 && sz >= 1:
			nBelow++
			if in.zeroIdx >= 0 && mask&(1<<uint(in.zeroIdx)) != 0 {
				// the member whose id is 0 mod r holds f(0), the group secret, as its share: any set
				// containing it determines the signature. The statement only speaks about sets of at
				// least threshold size, so nothing is asserted here; the observation is recorded.
				arr := in.arrival(mask, 0, nBelow)
				if bytes.Equal(groupsig.RecoverGroupSignature(in.mapOf(arr), sz).Serialize(), in.want) {
					stats.Count("obs_below_threshold_set_with_id_0_mod_r_recovers_group_signature", 1)
				} else {
					stats.Count("obs_below_threshold_set_with_id_0_mod_r_does_not_recover", 1)
				}
				nRec++
				continue
			}
			arr := in.arrival(mask, 0, nBelow)
			sig := groupsig.RecoverGroupSignature(in.mapOf(arr), sz)
			got := sig.Serialize()
			if bytes.Equal(got, in.want) {
				t.Fatalf("k-1=%d shares recover the group signature; %s", sz, in.describe(mask, arr))
			}
			if fullVerifyBelow || nBelow <= 3 {
				if groupsig.VerifySig(in.gpk, in.msg, *sig) {
					t.Fatalf("value recovered from k-1=%d shares verifies under the group public key; %s", sz, in.describe(mask, arr))
				}
			}
			nRec++
		}
	}
	return
}

func binom(n, k int) int {
	r := 1
	for i := 0; i < k; i++ {
		r = r * (n - i) / (i + 1)
	}
	return r
}

func runSize(t *testing.T, n, quick, thorough int) {
	stats.Check(t, quick, thorough, func(t *rapid.T) {
		in := buildInstance(t, n)
		key := ""
		if !isOneToN(in.idVals) && n >= 6 {
			var sb strings.Builder
			fmt.Fprintf(&sb, "%d|", n)
			for _, v := range in.idVals {
				sb.WriteString(v.Text(16) + ",")
			}
			for _, s := range in.secrets {
				sb.WriteString(s.Text(16) + ";")
			}
			sb.WriteString(hex.EncodeToString(in.msg))
			fmt.Fprintf(&sb, "|%s,%d,%d", in.restartClass, in.restarts, in.dups)
			key = sb.String()
		}
		over := 0
		for _, v := range in.idVals {
			if v.Cmp(order) >= 0 {
				over++
			}
		}
		ml := "msg:1-199"
		switch len(in.msg) {
		case 0:
			ml = "msg:empty"
		case 200:
			ml = "msg:200"
		}
		ov := "ids>=r:some"
		if over == 0 {
			ov = "ids>=r:none"
		} else if over == n {
			ov = "ids>=r:all"
		}
		rs := "dkg:no_restart"
		if in.restarts > 0 {
			rs = "dkg:restart_nothing_kept"
			if in.partial {
				rs = "dkg:restart_after_partial_delivery"
			}
		}
		stats.Case(key, fmt.Sprintf("n=%02d,k=%d", n, in.k), "ids:"+in.style, ml, ov, in.restartClass, rs)
		stats.Count("member_contexts_recreated", int64(in.restarts))
		stats.Count("duplicate_pieces_offered", int64(in.dups))
		var idS []string
		for _, v := range in.idVals {
			idS = append(idS, v.Text(16))
		}
		stats.Sample(map[string]string{"n": fmt.Sprint(n), "k": fmt.Sprint(in.k), "idstyle": in.style, "ids": strings.Join(idS, " "),
			"msg": short(in.msg), "group_sig": short(in.want),
			"dkg_history": fmt.Sprintf("%s, %d contexts re-created, %d duplicate pieces offered", in.restartClass, in.restarts, in.dups)})

		nSub, nBelow, nRec := in.checkAllSubsets(t, stats.Thorough())
		wantSub := 0
		for s := in.k; s <= n; s++ {
			wantSub += binom(n, s)
		}
		if nSub != wantSub || nBelow != binom(n, in.k-1) {
			t.Fatalf("harness: enumerated %d/%d subsets, expected %d/%d", nSub, nBelow, wantSub, binom(n, in.k-1))
		}
		stats.Count("subsets_ge_k_checked", int64(nSub))
		stats.Count("subsets_k_minus_1_checked", int64(nBelow))
		stats.Count("recoveries", int64(nRec))
		stats.Count(fmt.Sprintf("subsets_ge_k_total_n%02d", n), int64(nSub))
	})
}

// One test function per group size (so that a rapid fail file replays under its own name).
// Every size the node allows is run: the compiled-in limits 5..10 and the running (dev)
// configuration's lower minimum 3; sizes outside 3..10, should a configuration allow them, are
// covered by TestSizeOther.
func sizeTest(t *testing.T, n, quick, thorough int) {
	lo, hi := sizes()
	stats.Note("group_sizes", fmt.Sprintf("%d..%d (constants %d..%d, running configuration %d..%d)", lo, hi,
		model.GROUP_MIN_MEMBERS, model.GROUP_MAX_MEMBERS, model.Param.GroupMemberMin, model.Param.GroupMemberMax))
	stats.Exhaustive("per instance: all subsets S of the n members with |S| >= k (and all with |S| = k-1), n = every allowed group size")
	if n < lo || n > hi {
		t.Skipf("group size %d not allowed (%d..%d)", n, lo, hi)
	}
	runSize(t, n, quick, thorough)
}

func TestSizeN03(t *testing.T) { sizeTest(t, 3, 8, 60) }
func TestSizeN04(t *testing.T) { sizeTest(t, 4, 8, 60) }
func TestSizeN05(t *testing.T) { sizeTest(t, 5, 8, 60) }
func TestSizeN06(t *testing.T) { sizeTest(t, 6, 8, 60) }
func TestSizeN07(t *testing.T) { sizeTest(t, 7, 8, 60) }
func TestSizeN08(t *testing.T) { sizeTest(t, 8, 5, 40) }
func TestSizeN09(t *testing.T) { sizeTest(t, 9, 4, 40) }
func TestSizeN10(t *testing.T) { sizeTest(t, 10, 4, 40) }

// TestSizeOther covers group sizes outside 3..10 if the limits are ever changed (n drawn).
func TestSizeOther(t *testing.T) {
	lo, hi := sizes()
	var other []int
	for n := lo; n <= hi && n <= 14; n++ {
		if n < 3 || n > 10 {
			other = append(other, n)
		}
	}
	if len(other) == 0 {
		t.Skip("all allowed group sizes have their own test")
	}
	for _, n := range other {
		if n < 2 {
			continue
		}
		runSize(t, n, 1, 4)
	}
}

// ---------- message sweep ----------
//
// The property quantifies over every message, but the per-size tests sign one message per DKG
// instance. Here a small-group instance (same generator, same DKG driver incl. restart histories)
// is reused for a batch of generated messages; per message: every member's share verifies under
// its public share, two different threshold subsets in different generated arrival orders through
// the two production collectors give byte-identical signatures, equal to Sign(sum of dealer
// secrets, msg), which verifies under the group public key.

var msgKinds = []string{"random", "random", "hash32", "hash32", "beacon_chain", "beacon_chain", "repeated", "counter_be8", "counter_ascii", "prefix_counter", "sparse"}

// genSweepMsg draws one message; prev is the group signature recovered for the previous message
// of the batch (the random beacon signs the previous beacon value).
func genSweepMsg(t *rapid.T, i int, prev []byte, ctr *uint64) ([]byte, string) {
	kind := rapid.SampledFrom(msgKinds).Draw(t, fmt.Sprintf("kind%d", i))
	lbl := fmt.Sprintf("m%d", i)
	switch kind {
	case "random":
		return rapid.SliceOfN(rapid.Byte(), 0, 200).Draw(t, lbl), kind
	case "hash32":
		return rapid.SliceOfN(rapid.Byte(), 32, 32).Draw(t, lbl), kind
	case "beacon_chain":
		if len(prev) == 0 {
			return rapid.SliceOfN(rapid.Byte(), 64, 64).Draw(t, lbl), kind
		}
		return append([]byte{}, prev...), kind
	case "repeated":
		b := rapid.Byte().Draw(t, lbl+"b")
		return bytes.Repeat([]byte{b}, rapid.IntRange(1, 200).Draw(t, lbl+"len")), kind
	case "counter_be8", "counter_ascii", "prefix_counter":
		*ctr += uint64(rapid.IntRange(1, 3).Draw(t, lbl+"step"))
		be := make([]byte, 8)
		for k := 0; k < 8; k++ {
			be[7-k] = byte(*ctr >> (8 * uint(k)))
		}
		if kind == "counter_be8" {
			return be, kind
		}
		if kind == "counter_ascii" {
			return []byte(fmt.Sprint(*ctr)), kind
		}
		return append(rapid.SliceOfN(rapid.Byte(), 1, 32).Draw(t, lbl+"prefix"), be...), kind
	default: // sparse: zeros with one generated byte set
		m := make([]byte, rapid.IntRange(1, 200).Draw(t, lbl+"len"))
		m[rapid.IntRange(0, len(m)-1).Draw(t, lbl+"pos")] = rapid.Byte().Draw(t, lbl+"b")
		return m, kind
	}
}

func (in *instance) sweepMessage(t *rapid.T, i int, msg []byte) []byte {
	n, k := in.n, in.k
	desc := func() string {
		return fmt.Sprintf("message #%d %s (hex %s), n=%d k=%d", i, short(msg), hex.EncodeToString(msg), n, k)
	}
	shares := make([]groupsig.Signature, n)
	for j := 0; j < n; j++ {
		shares[j] = groupsig.Sign(in.signSK[j], msg)
		if !groupsig.VerifySig(in.pubShares[j], msg, shares[j]) {
			t.Fatalf("member %d: signature share does not verify under its public share; %s", j, desc())
		}
	}
	// two different threshold subsets, each in its own arrival order
	idx := make([]int, n)
	for j := range idx {
		idx[j] = j
	}
	a1 := rapid.Permutation(idx).Draw(t, fmt.Sprintf("arrA%d", i))[:k]
	p2 := rapid.Permutation(idx).Draw(t, fmt.Sprintf("arrB%d", i))
	k2 := k
	if rapid.IntRange(0, 3).Draw(t, fmt.Sprintf("more%d", i)) == 0 {
		k2 = rapid.IntRange(k, n).Draw(t, fmt.Sprintf("sizeB%d", i)) // late shares arriving after recovery
	}
	a2 := append([]int{}, p2[:k2]...)
	inA := map[int]bool{}
	for _, m := range a1 {
		inA[m] = true
	}
	same := k < n
	for _, m := range a2[:k] {
		if !inA[m] {
			same = false
		}
	}
	if same { // the collector uses the first k arrivals: make them a different set
		for _, m := range p2 {
			if !inA[m] {
				a2[k-1] = m
				break
			}
		}
		a2 = a2[:k]
	}
	var cA, cB collector = logical.VerifNewRoundSignGenerator(k), model.NewGroupSignGenerator(k)
	if i%2 == 1 {
		cA, cB = cB, cA
	}
	for _, m := range a1 {
		cA.AddWitnessSign(in.ids[m], shares[m])
	}
	for _, m := range a2 {
		cB.AddWitnessSign(in.ids[m], shares[m])
	}
	gA, gB := cA.GetGroupSign(), cB.GetGroupSign()
	sA, sB := gA.Serialize(), gB.Serialize()
	if !bytes.Equal(sA, sB) {
		t.Fatalf("subsets %v and %v recover different signatures %s / %s; %s", a1, a2, short(sA), short(sB), desc())
	}
	want := groupsig.Sign(in.sumKey, msg)
	if !bytes.Equal(sA, want.Serialize()) {
		t.Fatalf("subset %v recovers %s, Sign(sum of dealer secrets, msg) is %s; %s", a1, short(sA), short(want.Serialize()), desc())
	}
	if !groupsig.VerifySig(in.gpk, msg, gA) {
		t.Fatalf("recovered group signature does not verify under the group public key; subset %v; %s", a1, desc())
	}
	return sA
}

// TestMessageSweep: small groups (the three smallest allowed sizes), many messages per instance.
func TestMessageSweep(t *testing.T) {
	lo, hi := sizes()
	batch := 48
	stats.Check(t, 20, 70, func(t *rapid.T) {
		top := lo + 2
		if top > hi {
			top = hi
		}
		n := rapid.IntRange(lo, top).Draw(t, "n")
		in := buildInstance(t, n)
		var prev []byte
		ctr := uint64(rapid.Uint32().Draw(t, "counter_start"))
		seen := map[string]bool{}
		nonEmpty := 0
		all := sha256.New()
		for i := 0; i < batch; i++ {
			msg, kind := genSweepMsg(t, i, prev, &ctr)
			prev = in.sweepMessage(t, i, msg)
			stats.Class("sweep_msg:" + kind)
			fmt.Fprintf(all, "%d:", len(msg))
			all.Write(msg)
			if !seen[string(msg)] {
				seen[string(msg)] = true
				stats.Count("sweep_messages_distinct_within_instance", 1)
			}
			if len(msg) > 0 {
				nonEmpty++
			}
			stats.Count("sweep_messages", 1)
		}
		key := ""
		if !isOneToN(in.idVals) && nonEmpty > 0 {
			var sb strings.Builder
			fmt.Fprintf(&sb, "sweep|%d|", n)
			for _, v := range in.idVals {
				sb.WriteString(v.Text(16) + ",")
			}
			for _, x := range in.secrets {
				sb.WriteString(x.Text(16) + ";")
			}
			sb.WriteString(hex.EncodeToString(all.Sum(nil)))
			key = sb.String()
		}
		stats.Case(key, fmt.Sprintf("sweep:n=%02d,k=%d", n, in.k), "sweep:ids:"+in.style, "sweep:"+in.restartClass)
		stats.Sample(map[string]string{"test": "message sweep", "n": fmt.Sprint(n), "k": fmt.Sprint(in.k), "messages": fmt.Sprint(batch),
			"distinct": fmt.Sprint(len(seen)), "last_group_sig": short(prev)})
	})
}
