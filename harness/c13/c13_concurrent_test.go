package c13

import (
	"bytes"
	"fmt"
	"math/bits"
	"sync"
	"testing"

	"pgregory.net/rapid"

	"com.tuntun.rangers/node/src/consensus/groupsig"
	"com.tuntun.rangers/node/src/consensus/logical"
	"com.tuntun.rangers/node/src/consensus/model"

	"verifharness/internal/stats"
)

// A node combines shares for several blocks / groups at the same time (block signature and random beacon of one
// round, a parent-group signature next to a block round, two candidate blocks): two generated groups with their
// own keys and messages are combined from many goroutines at once - every goroutine its own collector objects
// and its own subsets of at least threshold size in its own arrival orders, many times over. Every single
// combination must be the one group signature of its group and message, as it is when the combinations are run
// one after the other.
func TestConcurrentRecovery(t *testing.T) {
	stats.Check(t, 6, 120, func(t *rapid.T) {
		var ins []*instance
		for i := 0; i < 2; i++ {
			ins = append(ins, buildInstance(t, rapid.IntRange(3, 7).Draw(t, "n")))
		}
		type job struct {
			in   *instance
			mask uint
			arr  []int
			via  int // 0 RecoverGroupSignature, 1 model generator, 2 round generator
		}
		var jobs []job
		for _, in := range ins {
			idx := 0
			for mask := uint(1); mask < 1<<uint(in.n); mask++ {
				if bits.OnesCount(mask) < in.k {
					continue
				}
				idx++
				for r := 0; r < 3; r++ {
					jobs = append(jobs, job{in: in, mask: mask, arr: in.arrival(mask, r, idx), via: r})
				}
			}
		}
		run := func(j job) []byte {
			switch j.via {
			case 0:
				return groupsig.RecoverGroupSignature(j.in.mapOf(j.arr), j.in.k).Serialize()
			case 1:
				c := model.NewGroupSignGenerator(j.in.k)
				for _, m := range j.arr {
					c.AddWitnessSign(j.in.ids[m], j.in.shares[m])
				}
				g := c.GetGroupSign()
				return g.Serialize()
			default:
				c := logical.VerifNewRoundSignGenerator(j.in.k)
				for _, m := range j.arr {
					c.AddWitnessSign(j.in.ids[m], j.in.shares[m])
				}
				g := c.GetGroupSign()
				return g.Serialize()
			}
		}
		// one after the other first
		for _, j := range jobs {
			if got := run(j); !bytes.Equal(got, j.in.want) {
				t.Fatalf("alone: combined signature %s differs from the group signature %s; %s", short(got), short(j.in.want), j.in.describe(j.mask, j.arr))
			}
		}
		nG := rapid.SampledFrom([]int{4, 16, 32}).Draw(t, "goroutines")
		rounds := rapid.SampledFrom([]int{1, 3}).Draw(t, "rounds")
		var wg sync.WaitGroup
		var mu sync.Mutex
		failure := ""
		start := make(chan struct{})
		for g := 0; g < nG; g++ {
			wg.Add(1)
			go func(g int) {
				defer wg.Done()
				defer func() {
					if p := recover(); p != nil {
						mu.Lock()
						failure = fmt.Sprintf("panic while %d other goroutines were combining their own shares: %v", nG-1, p)
						mu.Unlock()
					}
				}()
				<-start
				for r := 0; r < rounds; r++ {
					for x := range jobs {
						j := jobs[(x+g*7)%len(jobs)]
						if got := run(j); !bytes.Equal(got, j.in.want) {
							mu.Lock()
							ok := false
							if s := groupsig.DeserializeSign(got); s != nil {
								ok = groupsig.VerifySig(j.in.gpk, j.in.msg, *s)
							}
							failure = fmt.Sprintf("combined signature %s differs from the group signature %s (verifies under the group public key: %v) while %d other goroutines were combining their own shares; the same combination run alone gave the group signature; %s",
								short(got), short(j.in.want), ok, nG-1, j.in.describe(j.mask, j.arr))
							mu.Unlock()
							return
						}
					}
				}
			}(g)
		}
		close(start)
		wg.Wait()
		if failure != "" {
			t.Fatalf("%s", failure)
		}
		stats.Case(fmt.Sprintf("conc|%d|%d|%s", ins[0].n, ins[1].n, short(ins[0].want)), "concurrent_recovery", fmt.Sprintf("concurrent_goroutines:%d", nG), fmt.Sprintf("concurrent_sizes:%d+%d", ins[0].n, ins[1].n))
		stats.Count("concurrent_recoveries", int64(nG*rounds*len(jobs)))
	})
}
