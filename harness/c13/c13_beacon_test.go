package c13

import (
	"bytes"
	"fmt"
	"math/bits"
	"testing"

	"pgregory.net/rapid"

	"com.tuntun.rangers/node/src/common"
	"com.tuntun.rangers/node/src/consensus/groupsig"
	"com.tuntun.rangers/node/src/consensus/model"

	"verifharness/internal/stats"
)

// TestSharesThroughVerifyMessages: shares as the node's members produce them - a ConsensusVerifyMessage signed with
// the member's share key (block share) whose random-beacon share comes from GenRandomSign over the previous random -
// for TWO groups that have the same members (a miner holds a different share key in every group it belongs to)
// and verify proposals built on the same parent (same previous random), the messages of both groups produced
// alternately in one process. In each group every share must verify under that member's public share for that group,
// and every threshold subset must combine to the group's one beacon signature.
func TestSharesThroughVerifyMessages(t *testing.T) {
	stats.Check(t, 6, 120, func(t *rapid.T) {
		n := rapid.IntRange(3, 6).Draw(t, "n")
		a := buildInstance(t, n)
		forceIDs = a.idVals
		b := buildInstance(t, n)
		forceIDs = nil
		preRandom := rapid.SliceOfN(rapid.Byte(), 0, 64).Draw(t, "preRandom")
		var hashA, hashB common.Hash
		copy(hashA[:], rapid.SliceOfN(rapid.Byte(), 32, 32).Draw(t, "blockA"))
		copy(hashB[:], rapid.SliceOfN(rapid.Byte(), 32, 32).Draw(t, "blockB"))
		type grp struct {
			in     *instance
			hash   common.Hash
			name   string
			beacon []groupsig.Signature
			want   []byte
		}
		gs := []*grp{{in: a, hash: hashA, name: "first group"}, {in: b, hash: hashB, name: "second group"}}
		for _, g := range gs {
			g.beacon = make([]groupsig.Signature, n)
			g.want = groupsig.Sign(g.in.sumKey, preRandom).Serialize()
		}
		order := rapid.Permutation([]int{0, 1}).Draw(t, "groupOrder")
		for i := 0; i < n; i++ {
			for _, gi := range order {
				g := gs[gi]
				var cvm model.ConsensusVerifyMessage
				cvm.BlockHash = g.hash
				si, ok := model.NewSignInfo(g.in.signSK[i], g.in.ids[i], &cvm)
				if !ok {
					t.Fatalf("%s member %d: NewSignInfo failed", g.name, i)
				}
				cvm.SignInfo = si
				cvm.GenRandomSign(g.in.signSK[i], preRandom)
				if !cvm.SignInfo.VerifySign(g.in.pubShares[i]) {
					t.Fatalf("%s member %d: the block share of its verify message does not verify under its public share", g.name, i)
				}
				if !groupsig.VerifySig(g.in.pubShares[i], preRandom, cvm.RandomSign) {
					t.Fatalf("%s member %d (id %s): the random-beacon share of its verify message does not verify under its public share of this group (previous random %x; the member is in both groups with different share keys)", g.name, i, g.in.idVals[i].Text(16), preRandom)
				}
				g.beacon[i] = cvm.RandomSign
			}
		}
		subsets := 0
		for _, g := range gs {
			for mask := uint(1); mask < 1<<uint(n); mask++ {
				if bits.OnesCount(mask) != g.in.k {
					continue
				}
				m := map[string]groupsig.Signature{}
				for i := 0; i < n; i++ {
					if mask&(1<<uint(i)) != 0 {
						m[g.in.hexes[i]] = g.beacon[i]
					}
				}
				got := groupsig.RecoverGroupSignature(m, g.in.k).Serialize()
				if !bytes.Equal(got, g.want) {
					t.Fatalf("%s: beacon shares of subset %0*b combine to %s, the group's beacon signature is %s", g.name, n, mask, short(got), short(g.want))
				}
				subsets++
			}
		}
		stats.Case(fmt.Sprintf("twogroups|%d|%s|%x", n, short(gs[0].want), preRandom), "two_groups_same_members", fmt.Sprintf("n=%02d", n))
		stats.Count("two_group_beacon_subsets", int64(subsets))
	})
}
