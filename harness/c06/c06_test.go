package c06

import (
	"bytes"
	"encoding/json"
	"fmt"
	"math/big"
	"os"
	"regexp"
	"strconv"
	"strings"
	"testing"
	"time"

	"com.tuntun.rangers/node/src/common"
	"com.tuntun.rangers/node/src/middleware/types"
	"com.tuntun.rangers/node/src/service"
	"com.tuntun.rangers/node/src/storage/account"
	"com.tuntun.rangers/node/src/utility"
	"pgregory.net/rapid"

	"verifharness/internal/blockgen"
	"verifharness/internal/boot"
	"verifharness/internal/ref"
	"verifharness/internal/stats"
	"verifharness/internal/txgen"
)

var (
	node         *boot.Node
	genesisRoot  common.Hash
	wrpg         common.Address
	wrpgHex      string
	e18          = new(big.Int).Exp(big.NewInt(10), big.NewInt(18), nil)
	genesisIDs   [][]byte
	allowanceKey = map[string]string{}
	two256       = new(big.Int).Lsh(big.NewInt(1), 256)
)

func TestMain(m *testing.M) {
	stats.SetRule("history = funding/deploy block + 1-4 generated blocks of 1-8 transactions of every type (transfers with odd amount strings, miner apply/add/refund/change, " +
		"contract create/call with value and generated EVM programs doing CALL/CREATE/SELFDESTRUCT with value, token-contract transfer/approve/deposit/withdraw calls, " +
		"EIP-155 wrapped txs, tight/zero/huge gas limits). After every block the ledger total = sum of ALL balance slots of the bound token contract (every holder, " +
		"not a sampled universe) + locked stake + scheduled refunds/rewards is compared with the parent's: it may grow only by the block reward (measured on an empty " +
		"sibling block) and shrink only by self-destruct-to-self. non-trivial = block with a failing tx after partial value movement, a self-destruct, or a value " +
		"transfer into a contract; distinct by tx descriptions")
	stats.Assume("native balances are the balanceOf slots (position 3) of the genesis 'Wrapped RPG' contract; every storage entry of that contract other than slots 0-2 " +
		"and the allowance slots of the 12x12 universe pairs is a balance; an unknown slot kind would be reported as inconclusive, never ignored")
	stats.Assume("block reward is measured by executing the same header with an empty transaction list on the same parent (tolerance 1e6 wei for float64 share rounding)")
	boot.ConfigureForks = func() {
		c := &common.LocalChainConfig
		c.Proposal020Block, c.Proposal023Block, c.Proposal026Block = 0, 0, 1
	}
	var err error
	node, err = boot.Start()
	if err != nil {
		fmt.Println("VERIF-INCONCLUSIVE boot:", err)
		os.Exit(1)
	}
	genesisRoot = boot.Chain().TopBlock().StateTree
	st, _ := boot.OpenState(genesisRoot)
	_, wrpg, _, _ = st.GetERC20Binding(common.BLANCE_NAME)
	wrpgHex = wrpg.GetHexString()
	p, v := service.MinerManagerImpl.GetAllMinerIdAndAccount(1<<60, st)
	for k := range p {
		genesisIDs = append(genesisIDs, common.FromHex(k))
	}
	for k := range v {
		genesisIDs = append(genesisIDs, common.FromHex(k))
	}
	// allowance[owner][spender] lives at keccak(spender . keccak(owner . 4))
	var parties []common.Address
	for i := 0; i < blockgen.NKeys; i++ {
		parties = append(parties, common.HexToAddress(blockgen.Addr(i)))
	}
	for _, f := range txgen.Faucets {
		parties = append(parties, common.HexToAddress(f))
	}
	for _, o := range parties {
		inner := ref.Keccak256(append(pad32(o.Bytes()), pad32([]byte{4})...))
		for _, s := range parties {
			k := ref.Keccak256(append(pad32(s.Bytes()), inner[:]...))
			allowanceKey[string(k[:])] = o.GetHexString() + "->" + s.GetHexString()
		}
	}
	code := m.Run()
	stats.Flush("C06")
	node.Stop()
	os.Exit(code)
}

func pad32(b []byte) []byte {
	out := make([]byte, 32)
	copy(out[32-len(b):], b)
	return out
}

// ledger reads the whole balance mapping of the bound token contract.
type ledger struct {
	balances  *big.Int
	holders   int
	bad       string // slot whose value is out of range
	perHolder map[string]*big.Int
}

func readLedger(st *account.AccountDB) ledger {
	l := ledger{balances: new(big.Int), perHolder: map[string]*big.Int{}}
	it := st.DataIterator(wrpg, nil)
	for it != nil && it.Next() {
		k := it.Key
		if len(k) == 32 && bytes.Equal(k[:31], make([]byte, 31)) && k[31] <= 2 {
			continue // name, symbol, decimals
		}
		if _, ok := allowanceKey[string(k)]; ok {
			continue
		}
		v := new(big.Int).SetBytes(it.Value)
		if len(it.Value) > 32 || v.Cmp(two256) >= 0 {
			l.bad = fmt.Sprintf("slot %x holds %x (more than 256 bits)", k, it.Value)
		}
		l.balances.Add(l.balances, v)
		l.perHolder[string(k)] = v
		l.holders++
	}
	return l
}

func lockedStake(st *account.AccountDB, ids [][]byte) *big.Int {
	sum := new(big.Int)
	seen := map[string]bool{}
	for _, id := range ids {
		if seen[string(id)] {
			continue
		}
		seen[string(id)] = true
		for _, kind := range []byte{common.MinerTypeProposer, common.MinerTypeValidator} {
			if m := service.MinerManagerImpl.GetMinerById(id, kind, st); m != nil {
				sum.Add(sum, new(big.Int).Mul(new(big.Int).SetUint64(m.Stake), e18))
			}
		}
	}
	return sum
}

func scheduled(st *account.AccountDB, heights []uint64) *big.Int {
	sum := new(big.Int)
	for _, h := range heights {
		for _, v := range st.GetAllRefund(service.VerifRefundAddress(h)) {
			sum.Add(sum, v)
		}
	}
	return sum
}

func extended(st *account.AccountDB, ids [][]byte, heights []uint64) (*big.Int, string, ledger) {
	l := readLedger(st)
	lk, sc := lockedStake(st, ids), scheduled(st, heights)
	t := new(big.Int).Add(l.balances, lk)
	t.Add(t, sc)
	return t, fmt.Sprintf("balances=%s (%d holders) locked=%s scheduled=%s", l.balances, l.holders, lk, sc), l
}

var saltCounter int
var refundMsgRe = regexp.MustCompile(`height: (\d+)`)

func hdr(salt string, h uint64, castor byte, group []byte) *types.BlockHeader {
	return &types.BlockHeader{Height: h, Castor: []byte{castor, 1}, GroupId: group, CurTime: time.Date(2024, 5, 1, 0, 0, int(h%60), 0, time.UTC),
		Hash: common.BytesToHash(common.Sha256([]byte(fmt.Sprintf("%s-%d", salt, h))))}
}

func universe() []string {
	var u []string
	for i := 0; i < blockgen.NKeys; i++ {
		u = append(u, blockgen.Addr(i))
	}
	return u
}

// tokenCall builds a call on the bound token contract itself.
func tokenCall(t *rapid.T, src int, nonce uint64, salt string) blockgen.Tx {
	k := txgen.K(src)
	other := blockgen.Addr(rapid.IntRange(0, blockgen.NKeys-1).Draw(t, "tokOther"))
	amt := rapid.SampledFrom([]uint64{0, 1, 1000, 1000000000000000000}).Draw(t, "tokAmt")
	amtHex := fmt.Sprintf("%064x", amt)
	switch rapid.IntRange(0, 7).Draw(t, "tokAmtKind") {
	case 0:
		amtHex = strings.Repeat("f", 64)
	case 1, 2: // (almost) the sender's whole native balance, which is what the token contract holds for it
		bal := new(big.Int).Set(curBalance(k.Addr))
		bal.Sub(bal, new(big.Int).Mul(big.NewInt(int64(rapid.SampledFrom([]int{0, 1, 1000000, 2000000000}).Draw(t, "tokKeep"))), big.NewInt(1000000)))
		if bal.Sign() > 0 {
			amtHex = fmt.Sprintf("%064x", bal)
		}
	}
	arg := func(a string) string { return strings.Repeat("0", 24) + a[2:] }
	kind := rapid.SampledFrom([]string{"transfer", "approve", "transferFrom", "deposit", "withdraw", "fallback"}).Draw(t, "tokKind")
	value := "0"
	var input string
	switch kind {
	case "transfer":
		input = "0xa9059cbb" + arg(other) + amtHex
	case "approve":
		input = "0x095ea7b3" + arg(other) + amtHex
	case "transferFrom":
		input = "0x23b872dd" + arg(other) + arg(k.Addr) + amtHex
	case "deposit":
		input = "0xd0e30db0"
		value = rapid.SampledFrom([]string{"0", "0.000000000000000001", "1", "3"}).Draw(t, "depVal")
	case "withdraw":
		input = "0x2e1a7d4d" + amtHex
	case "fallback":
		input = "0x"
		value = rapid.SampledFrom([]string{"0", "0.000000000000000001", "2"}).Draw(t, "fbVal")
	}
	tx := txgen.Contract(k, k.Addr, wrpgHex, input, value, "30000000", "1000000000", nonce, salt)
	return blockgen.Tx{Tx: tx, Kind: "token_" + kind, Desc: fmt.Sprintf("token.%s(K%d,val=%s)", kind, src, value)}
}

var curRoot common.Hash

func curBalance(addr string) *big.Int {
	st, err := boot.OpenState(curRoot)
	if err != nil {
		return new(big.Int)
	}
	// the fee of this transaction and earlier ones of the block are not known here; callers subtract a margin
	b := st.GetBalance(common.HexToAddress(addr))
	fee := big.NewInt(1000000000000000)
	if b.Cmp(fee) > 0 {
		return new(big.Int).Sub(b, fee)
	}
	return b
}

func isMintShape(x blockgen.Tx) bool {
	// F-C06-a: value sent to the bound token contract, or its deposit/withdraw entry points
	if strings.ToLower(x.Tx.Target) != wrpgHex {
		return false
	}
	d := x.Tx.Data
	zeroVal := strings.Contains(d, `"transferValue":"0"`) || !strings.Contains(d, `"transferValue"`)
	return !zeroVal || strings.Contains(d, "0xd0e30db0") || strings.Contains(d, "0x2e1a7d4d")
}

func TestLedgerConservation(t *testing.T) {
	stats.Check(t, 900, 3000, func(t *rapid.T) {
		saltCounter++
		salt := fmt.Sprintf("c06-%d-%d", os.Getpid(), saltCounter)
		root, height := genesisRoot, uint64(0)
		nonces := map[int]uint64{}
		var contracts []string
		selfDestructors := map[string]bool{} // deployed contracts whose runtime names itself as beneficiary
		ids := append([][]byte{}, genesisIDs...)
		for i := 0; i < blockgen.NKeys; i++ {
			ids = append(ids, txgen.K(i).ID)
		}
		ids = append(ids, common.Sha256([]byte("idA")))
		var heights []uint64
		unknownGroup := []byte("no-such-group")
		genesisGroup := boot.Groups().LastGroup().Id

		// one case in four is a miner-management history (several accounts applying, topping up and refunding
		// in the same blocks), the others mix all transaction kinds
		minerFocus := rapid.IntRange(0, 3).Draw(t, "minerFocus") == 0
		if minerFocus {
			stats.Class("history:miner_focus")
		}

		// block 1: funding and deployments
		var b1 []*types.Transaction
		var b1meta []blockgen.Tx
		for i := 0; i < 4; i++ {
			funds := []string{"0.002", "5", "450", "2500", "100000"}
			if minerFocus {
				funds = []string{"450", "2500", "100000", "100000"}
			}
			amt := rapid.SampledFrom(funds).Draw(t, fmt.Sprintf("fund%d", i))
			b1 = append(b1, txgen.Transfer(txgen.Faucets[0], nil, [][2]string{{blockgen.Addr(i), amt}}, uint64(i+1), fmt.Sprintf("%s-f%d", salt, i)))
		}
		for i, n := 0, rapid.IntRange(0, 3).Draw(t, "nDeploy"); i < n; i++ {
			rt, d := blockgen.GenRuntime(t, universe(), fmt.Sprintf("dep%d", i))
			dtx := txgen.Contract(nil, txgen.Faucets[1], "", "0x"+fmt.Sprintf("%x", blockgen.InitCodeFor(rt)), rapid.SampledFrom([]string{"0", "1"}).Draw(t, "depVal"), "30000000", "1000000000", uint64(i+1), fmt.Sprintf("%s-d%d", salt, i))
			b1 = append(b1, dtx)
			b1meta = append(b1meta, blockgen.Tx{Tx: dtx, Kind: "contract_create", Desc: "create{" + d + "}"})
		}
		authDeploy := txgen.Contract(nil, txgen.Faucets[1], "", "0x"+fmt.Sprintf("%x", blockgen.InitCodeFor(authCallerRuntime())), "0", "30000000", "1000000000", 99, salt+"-authcaller")
		b1 = append(b1, authDeploy)
		b1meta = append(b1meta, blockgen.Tx{Tx: authDeploy, Kind: "contract_create", Desc: "create{authcaller}"})
		authCaller := ""
		blocks := [][]blockgen.Tx{nil}
		_ = blocks
		nBlocks := rapid.IntRange(1, 4).Draw(t, "nBlocks")
		var fingerprint []string
		nontrivial := false
		for b := 0; b <= nBlocks; b++ {
			curRoot = root
			var txs []*types.Transaction
			var meta []blockgen.Tx
			group := unknownGroup
			nextHeight := height + 1
			castor := byte(1)
			if b == 0 {
				txs = b1
				meta = b1meta
			} else {
				if minerFocus && b == 1 {
					// most accounts start the history with a miner of their own
					for src := 0; src < 4; src++ {
						if rapid.IntRange(0, 3).Draw(t, "ownApply") > 0 {
							nonces[src]++
							x := blockgen.OwnApply(t, src, nonces[src], fmt.Sprintf("%s-own%d", salt, src))
							meta = append(meta, x)
							txs = append(txs, x.Tx)
						}
					}
				}
				// plain transfers may name deployed contracts, except those that burn their balance (SELFDESTRUCT
				// naming themselves): the bound on burns below is what those held when the block started
				blockgen.ExtraTargets = nil
				for _, c := range contracts {
					if !selfDestructors[strings.ToLower(c)] {
						blockgen.ExtraTargets = append(blockgen.ExtraTargets, c)
					}
				}
				n := rapid.IntRange(1, 8).Draw(t, "nTx")
				for i := 0; i < n; i++ {
					src := rapid.IntRange(0, 3).Draw(t, "src")
					nonces[src]++
					s := fmt.Sprintf("%s-b%d-%d", salt, b, i)
					var x blockgen.Tx
					gen := func(exclude map[string]bool) blockgen.Tx {
						kinds := []string{"transfer", "transfer", "miner", "contract", "contract", "contract", "token", "token", "eth", "authcall"}
						if minerFocus {
							kinds = []string{"miner", "miner", "miner", "miner", "transfer", "contract"}
						}
						switch rapid.SampledFrom(kinds).Draw(t, "txKind") {
						case "authcall":
							if authCaller == "" {
								return blockgen.GenTransfer(t, src, nonces[src], s, false)
							}
							return authCallTx(t, src, nonces[src], s, authCaller, nextHeight)
						case "transfer":
							return blockgen.GenTransfer(t, src, nonces[src], s, false)
						case "miner":
							return blockgen.GenMiner(t, src, nonces[src], s)
						case "contract":
							return blockgen.GenContract(t, src, nonces[src], s, append(append([]string{}, contracts...), wrpgHex), universe(), exclude)
						case "token":
							if exclude != nil {
								k := txgen.K(src)
								other := blockgen.Addr(rapid.IntRange(0, blockgen.NKeys-1).Draw(t, "tokOther2"))
								tx := txgen.Contract(k, k.Addr, wrpgHex, "0xa9059cbb"+strings.Repeat("0", 24)+other[2:]+fmt.Sprintf("%064x", rapid.SampledFrom([]uint64{0, 1, 1000}).Draw(t, "tokAmt2")), "0", "30000000", "1000000000", nonces[src], s)
								return blockgen.Tx{Tx: tx, Kind: "token_transfer", Desc: fmt.Sprintf("token.transfer(K%d)", src)}
							}
							return tokenCall(t, src, nonces[src], s)
						default:
							st, _ := boot.OpenState(root)
							return blockgen.GenEthTx(t, src, st.GetNonce(common.HexToAddress(blockgen.Addr(src))), append(append([]string{}, contracts...), wrpgHex), universe(), exclude)
						}
					}
					x = gen(nil)
					if isMintShape(x) || (x.Kind == "eth" && strings.Contains(strings.ToLower(x.Desc), wrpgHex[:10]) && !strings.Contains(x.Desc, "val=0,")) {
						if stats.IsKnown("F-C06-a") {
							stats.Exclude("F-C06-a")
							x = gen(map[string]bool{wrpgHex: true})
						}
					}
					dup := false
					for _, o := range meta {
						if o.Tx.Hash == x.Tx.Hash {
							dup = true
						}
					}
					if !dup {
						meta = append(meta, x)
						txs = append(txs, x.Tx)
					}
				}
				if rapid.Bool().Draw(t, "rewardedBlock") {
					group = genesisGroup
				}
				nextHeight = height + rapid.SampledFrom([]uint64{1, 1, 1, 350, 36000}).Draw(t, "heightInc")
				// or exactly a height at which refunds / rewards recorded so far fall due
				var due []uint64
				for _, hh := range heights {
					if hh > height {
						due = append(due, hh)
					}
				}
				if len(due) > 0 && rapid.IntRange(0, 2).Draw(t, "jumpToDue") == 0 {
					nextHeight = rapid.SampledFrom(due).Draw(t, "dueHeight")
					stats.Class("block_at_due_height")
				}
				castor = byte(rapid.IntRange(1, 3).Draw(t, "castor"))
			}
			h := hdr(salt, nextHeight, castor, group)
			heights = appendUniq(heights, service.RewardCalculatorImpl.NextRewardHeight(nextHeight))
			heights = appendUniq(heights, nextHeight)

			pre, err := boot.OpenState(root)
			if err != nil {
				t.Fatalf("open: %v", err)
			}
			// reward of this block = growth of the extended total on an empty sibling block
			empty := boot.Exec(root, height, h, nil, "fullverify")
			if empty.Panic != nil {
				t.Fatalf("empty block panicked: %v", empty.Panic)
			}
			res := boot.Exec(root, height, h, txs, "fullverify")
			if res.Panic != nil {
				t.Fatalf("block executor panicked: %v\nblock: %s", res.Panic, descs(meta))
			}
			// refund heights announced by receipts
			burn := new(big.Int)
			for _, r := range res.Receipts {
				if mm := refundMsgRe.FindStringSubmatch(r.Msg); mm != nil && strings.HasPrefix(r.Msg, "refund") {
					hh, _ := strconv.ParseUint(mm[1], 10, 64)
					heights = appendUniq(heights, hh)
				}
			}
			// read totals from cold re-opened states (a finalised state object is not meant to be read further)
			emptyRoot, err := boot.Persist(empty.State)
			if err != nil {
				t.Fatalf("persist: %v", err)
			}
			newRoot, err := boot.Persist(res.State)
			if err != nil {
				t.Fatalf("persist: %v", err)
			}
			emptyCold, _ := boot.OpenState(emptyRoot)
			cold, _ := boot.OpenState(newRoot)
			before, beforeParts, _ := extended(pre, ids, heights)
			afterEmpty, _, _ := extended(emptyCold, ids, heights)
			after, afterParts, led := extended(cold, ids, heights)
			if led.bad != "" {
				t.Fatalf("balance out of range after block %d: %s\nblock: %s", b, led.bad, descs(meta))
			}
			reward := new(big.Int).Sub(afterEmpty, before)
			if reward.Sign() < 0 {
				t.Fatalf("an empty block shrank the ledger total by %s", reward)
			}
			// the empty block itself: the total may grow only by what is newly scheduled as reward; paying out
			// due refunds/rewards moves value from 'scheduled' to balances and must be neutral
			rh := service.RewardCalculatorImpl.NextRewardHeight(nextHeight)
			if rh != nextHeight {
				newly := new(big.Int).Sub(scheduled(emptyCold, []uint64{rh}), scheduled(pre, []uint64{rh}))
				if reward.Cmp(newly) != 0 {
					t.Fatalf("an empty block at height %d changed the ledger total by %s but scheduled only %s as reward (payout of due refunds/rewards is not neutral)\nbefore: %s",
						nextHeight, reward, newly, beforeParts)
				}
			} else {
				stats.Class("reward_due_in_same_block")
			}
			delta := new(big.Int).Sub(after, before)
			excess := new(big.Int).Sub(delta, reward)
			tol := big.NewInt(1000000)
			// a contract that self-destructs naming itself burns its balance: the only allowed decrease. Bound it
			// by what such contracts held before the block plus the value this block's transactions sent them.
			allowedBurn := new(big.Int)
			for _, m := range meta {
				v, perr := utility.StrToBigInt(valueOf(m.Tx))
				if perr != nil || v.Sign() < 0 {
					v = new(big.Int)
				}
				if strings.Contains(m.Desc, "SELFDESTRUCT(self)") && m.Tx.Target == "" {
					allowedBurn.Add(allowedBurn, v) // init code or fresh contract destroying its endowment
				}
				if selfDestructors[strings.ToLower(m.Tx.Target)] {
					allowedBurn.Add(allowedBurn, v)
					allowedBurn.Add(allowedBurn, pre.GetBalance(common.HexToAddress(m.Tx.Target)))
				}
			}
			if excess.Cmp(tol) > 0 {
				t.Fatalf("block %d increased the ledger total by %s beyond the block reward %s\nbefore: %s\nafter:  %s\nblock: %s\n%s",
					b, excess, reward, beforeParts, afterParts, descs(meta), localise(root, height, h, meta, ids, heights, before))
			}
			if new(big.Int).Add(excess, allowedBurn).Cmp(new(big.Int).Neg(tol)) < 0 {
				t.Fatalf("block %d decreased the ledger total by %s; self-destructs naming themselves account for at most %s (reward %s)\nbefore: %s\nafter:  %s\nblock: %s",
					b, new(big.Int).Neg(excess), allowedBurn, reward, beforeParts, afterParts, descs(meta))
			}
			if allowedBurn.Sign() > 0 && excess.Sign() < 0 {
				stats.Class("burn_by_selfdestruct_to_self")
			}
			_ = burn
			// continue
			for _, r := range res.Receipts {
				if (r.ContractAddress != common.Address{}) && r.Status == types.ReceiptStatusSuccessful {
					if r.TxHash == authDeploy.Hash {
						authCaller = r.ContractAddress.GetHexString()
						continue
					}
					contracts = append(contracts, r.ContractAddress.GetHexString())
					for _, m := range meta {
						if m.Tx.Hash == r.TxHash && strings.Contains(m.Desc, "SELFDESTRUCT(self)") {
							selfDestructors[strings.ToLower(r.ContractAddress.GetHexString())] = true
						}
					}
				}
			}
			failedAfterMove := false
			for i, r := range res.Receipts {
				if r.Status != types.ReceiptStatusSuccessful && i < len(meta) && (strings.Contains(meta[i].Desc, "CALL(") || strings.Contains(meta[i].Desc, "targets")) {
					failedAfterMove = true
				}
			}
			okRefunds := 0
			for _, r := range res.Receipts {
				for _, m := range meta {
					if os.Getenv("VERIF_DEBUG_C06") != "" && m.Tx.Hash == r.TxHash && m.Kind == "miner_refund" && r.Status != types.ReceiptStatusSuccessful {
						msg := r.Msg
						if i := strings.Index(msg, "err:"); i >= 0 {
							msg = msg[i:]
						}
						if len(msg) > 60 {
							msg = msg[:60]
						}
						stats.Class("dbg_refund_fail:" + msg)
					}
					if m.Tx.Hash == r.TxHash && strings.HasPrefix(m.Kind, "miner_") && r.Status == types.ReceiptStatusSuccessful {
						stats.Class("tx_" + m.Kind + "_ok")
						if m.Kind == "miner_refund" {
							okRefunds++
						}
					}
				}
			}
			if okRefunds >= 2 {
				stats.Class("block:two_or_more_successful_refunds")
			}
			for _, m := range meta {
				stats.Class("tx_" + m.Kind)
				if strings.Contains(m.Desc, "SELFDESTRUCT") || (strings.HasPrefix(m.Kind, "contract") && !strings.Contains(m.Desc, "val=0,") && !strings.Contains(m.Desc, "val=,")) {
					nontrivial = true
				}
				fingerprint = append(fingerprint, m.Desc)
			}
			if failedAfterMove {
				nontrivial = true
			}
			root, height = newRoot, nextHeight
			stats.Count("blocks", 1)
		}
		key := ""
		if nontrivial {
			key = strings.Join(fingerprint, ";")
		}
		stats.Case(key, fmt.Sprintf("blocks_%d", nBlocks))
		if len(fingerprint) <= 6 {
			stats.Sample(map[string]interface{}{"txs": fingerprint})
		}
	})
}

// valueOf extracts the declared transfer value of a contract / wrapped transaction.
func valueOf(tx *types.Transaction) string {
	var cd types.ContractData
	if json.Unmarshal([]byte(tx.Data), &cd) != nil {
		return "0"
	}
	return cd.TransferValue
}

func appendUniq(l []uint64, h uint64) []uint64 {
	for _, x := range l {
		if x == h {
			return l
		}
	}
	return append(l, h)
}

func descs(m []blockgen.Tx) string {
	var s []string
	for _, x := range m {
		s = append(s, x.Desc)
	}
	return strings.Join(s, "; ")
}

// Probe for the recorded finding F-C06-a: value sent to the bound token contract is credited twice.
func TestProbeValueToBoundTokenContract(t *testing.T) {
	salt := fmt.Sprintf("c06-probe-%d", os.Getpid())
	k := txgen.K(0)
	fund := []*types.Transaction{txgen.Transfer(txgen.Faucets[0], nil, [][2]string{{k.Addr, "100"}}, 1, salt+"f")}
	r1 := boot.Exec(genesisRoot, 0, hdr(salt, 1, 1, []byte("x")), fund, "fullverify")
	if r1.Panic != nil {
		t.Fatalf("funding: %v", r1.Panic)
	}
	root, err := boot.Persist(r1.State)
	if err != nil {
		t.Fatal(err)
	}
	pre, _ := boot.OpenState(root)
	before := readLedger(pre).balances
	tx := txgen.Contract(k, k.Addr, wrpgHex, "0xd0e30db0", "1", "30000000", "1000000000", 1, salt+"dep")
	r2 := boot.Exec(root, 1, hdr(salt, 2, 1, []byte("x")), []*types.Transaction{tx}, "fullverify")
	if r2.Panic != nil {
		t.Fatalf("exec: %v", r2.Panic)
	}
	nr, err := boot.Persist(r2.State)
	if err != nil {
		t.Fatal(err)
	}
	post, _ := boot.OpenState(nr)
	after := readLedger(post).balances
	grew := new(big.Int).Sub(after, before)
	stats.Probe(t, "F-C06-a", "C06", grew.Cmp(e18) == 0 && r2.Receipts[0].Status == types.ReceiptStatusSuccessful,
		"a contract transaction sending 1 token to the bound 'Wrapped RPG' contract (deposit) raises the sum of all balances by exactly 1 token: the contract is credited and balanceOf[sender] gets the value back")
}

// localise re-executes growing prefixes of the block to name the transaction at which the total jumps.
func localise(root common.Hash, height uint64, h *types.BlockHeader, meta []blockgen.Tx, ids [][]byte, heights []uint64, before *big.Int) string {
	var sb strings.Builder
	prev := new(big.Int)
	sorted := make([]*types.Transaction, 0, len(meta))
	for _, m := range meta {
		sorted = append(sorted, m.Tx)
	}
	full := boot.Exec(root, height, h, sorted, "fullverify")
	order := full.Executed
	for i := 1; i <= len(order); i++ {
		res := boot.Exec(root, height, h, order[:i], "fullverify")
		if res.Panic != nil {
			return sb.String() + fmt.Sprintf("prefix %d panicked: %v", i, res.Panic)
		}
		r, err := boot.Persist(res.State)
		if err != nil {
			return sb.String()
		}
		cold, _ := boot.OpenState(r)
		tot, _, _ := extended(cold, ids, heights)
		d := new(big.Int).Sub(tot, before)
		step := new(big.Int).Sub(d, prev)
		prev = d
		var desc string
		for _, m := range meta {
			if m.Tx.Hash == order[i-1].Hash {
				desc = m.Desc
			}
		}
		last := res.Receipts[len(res.Receipts)-1]
		fmt.Fprintf(&sb, "  after tx %d %-60s status=%d gas=%d total moves by %s (msg %.80q)\n", i, desc, last.Status, last.GasUsed, step, last.Msg)
	}
	return sb.String()
}
