package c06

import (
	"fmt"
	"math/big"
	"strings"

	"com.tuntun.rangers/node/src/common"
	"pgregory.net/rapid"

	"verifharness/internal/blockgen"
	"verifharness/internal/boot"
	"verifharness/internal/ref"
	"verifharness/internal/txgen"
)

// authCallerRuntime: a contract that takes (v, r, s, commit, authority, to, value, nonce) from call data,
// runs AUTH(authority, mem[0:128]) and then AUTHCALL(nonce, gas all, to, value) - node opcodes 0xf6/0xf7.
// The value of an AUTHCALL is paid by the transaction origin (the "sponsor").
func authCallerRuntime() []byte {
	a := &blockgen.Asm{}
	a.PushU(256).PushU(0).PushU(0).Op(0x37)       // CALLDATACOPY(0,0,256)
	a.PushU(128).PushU(0).PushU(128).Op(0x51)     // length, offset, MLOAD(128)=authority
	a.Op(0xf6).Op(0x50)                           // AUTH POP
	a.PushU(0).PushU(0).PushU(0).PushU(0).PushU(0) // retLen retOff argsLen argsOff valueExt
	a.PushU(192).Op(0x51)                         // value
	a.PushU(160).Op(0x51)                         // to
	a.PushU(0)                                    // gas
	a.PushU(224).Op(0x51)                         // authorized nonce
	a.Op(0xf7).Op(0x50).Op(0x00)                  // AUTHCALL POP STOP
	return a.Bytes()
}

func w32(v *big.Int) string { return fmt.Sprintf("%064x", v) }

// authCallTx: K[src] (sponsor, pays) calls the deployed auth-caller so that it acts for authority K[auth].
func authCallTx(t *rapid.T, src int, nonce uint64, salt string, authCaller string, height uint64) blockgen.Tx {
	k := txgen.K(src)
	auth := txgen.K(rapid.IntRange(0, 3).Draw(t, "authority"))
	to := blockgen.Addr(rapid.IntRange(0, blockgen.NKeys-1).Draw(t, "authTo"))
	var commit [32]byte
	commit[31] = byte(rapid.IntRange(0, 3).Draw(t, "commit"))
	// AUTH message: keccak(0x03 || chainId || invoker contract || commit)
	msg := make([]byte, 97)
	msg[0] = 0x03
	common.GetChainId(height).FillBytes(msg[1:33])
	copy(msg[33+12:65], common.FromHex(authCaller))
	copy(msg[65:], commit[:])
	h := ref.Keccak256(msg)
	d := auth.SK.PrivKey.D
	r, s, recid, ok := ref.SecpSign(h[:], d, new(big.Int).Add(d, big.NewInt(0x5151)))
	if !ok {
		panic("auth sign")
	}
	if !ref.SecpIsLowS(s) {
		r, s, recid = ref.SecpTwin(r, s, recid)
	}
	if rapid.IntRange(0, 7).Draw(t, "badSig") == 0 {
		r = new(big.Int).Add(r, big.NewInt(1))
	}
	st, _ := boot.OpenState(curRoot)
	authNonce := st.GetNonce(common.HexToAddress(auth.Addr))
	switch rapid.IntRange(0, 5).Draw(t, "nonceSkew") {
	case 0:
		authNonce++
	}
	sponsorBal := st.GetBalance(common.HexToAddress(k.Addr))
	value := rapid.SampledFrom([]*big.Int{big.NewInt(0), big.NewInt(1), big.NewInt(1000000000000000000),
		new(big.Int).Add(sponsorBal, big.NewInt(1)), new(big.Int).Mul(big.NewInt(300), big.NewInt(1000000000000000000))}).Draw(t, "authValue")
	input := "0x" + w32(big.NewInt(int64(recid))) + w32(r) + w32(s) + fmt.Sprintf("%064x", commit[:]) +
		strings.Repeat("0", 24) + auth.Addr[2:] + strings.Repeat("0", 24) + to[2:] + w32(value) + w32(new(big.Int).SetUint64(authNonce))
	tx := txgen.Contract(k, k.Addr, authCaller, input, "0", "30000000", "1000000000", nonce, salt)
	return blockgen.Tx{Tx: tx, Kind: "authcall", Desc: fmt.Sprintf("authcall(sponsor K%d, authority K%d, to %s, value %s)", src, auth.Idx, to[:8], value)}
}
