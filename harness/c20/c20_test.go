package c20

import (
	"bytes"
	"encoding/hex"
	"fmt"
	"math"
	"math/big"
	"os"
	"regexp"
	"sort"
	"strconv"
	"strings"
	"testing"
	"time"

	"com.tuntun.rangers/node/src/common"
	"com.tuntun.rangers/node/src/middleware/types"
	"com.tuntun.rangers/node/src/service"
	"com.tuntun.rangers/node/src/storage/account"
	"pgregory.net/rapid"

	"verifharness/internal/boot"
	"verifharness/internal/stats"
	"verifharness/internal/txgen"
)

var (
	node        *boot.Node
	genesisRoot common.Hash
	e18         = new(big.Int).Exp(big.NewInt(10), big.NewInt(18), nil)
)

func TestMain(m *testing.M) {
	stats.SetRule("history = funding block + 1-5 blocks of 1-5 miner transactions (apply / add-stake / refund / change-account; ids derived, explicit, " +
		"aliases sha256^k(id) of other ids, genesis ids; stakes below/at/above the minimum; refunds of part/all/MaxUint64/more; accounts own/other/occupied) " +
		"executed block-wise by the node's block executor on the dev genesis state; after every block the registry (lookup by id, by account, iteration, " +
		"totals) is compared with a model driven by the receipts, on the live state and on a cold reopen. non-trivial = a block with >=2 miner txs touching " +
		"the same id or account; distinct by the sequence of (type,id-class,account-class,amount-class,outcome)")
	stats.Assume("blocks use a group id unknown to the group chain, so no block reward is scheduled and the conservation sum is exact")
	stats.Assume("model is driven by the node's own success/failure verdicts (receipts); acceptance rules are asserted only where the property states them")
	boot.ConfigureForks = func() {
		c := &common.LocalChainConfig
		c.Proposal020Block, c.Proposal023Block, c.Proposal026Block = 0, 0, 1
	}
	var err error
	node, err = boot.Start()
	if err != nil {
		fmt.Println("VERIF-INCONCLUSIVE boot:", err)
		os.Exit(1)
	}
	genesisRoot = boot.Chain().TopBlock().StateTree
	code := m.Run()
	stats.Flush("C20")
	node.Stop()
	os.Exit(code)
}

// ---------- model ----------

type rec struct {
	id      []byte
	typ     byte
	account []byte
	stake   uint64
	active  bool
	genesis bool
}

type model struct {
	recs      map[string]*rec                // by hex id
	scheduled map[uint64]map[string]*big.Int // height -> account hex -> amount
}

func minStake(typ byte) uint64 {
	if typ == common.MinerTypeProposer {
		return common.ProposerStake
	}
	return common.ValidatorStake
}

func hx(b []byte) string { return hex.EncodeToString(b) }

var universeAddrs []common.Address

func init() {
	for i := 0; i < 6; i++ {
		universeAddrs = append(universeAddrs, common.HexToAddress(txgen.K(i).Addr))
	}
	for _, f := range txgen.Faucets {
		universeAddrs = append(universeAddrs, common.HexToAddress(f))
	}
	universeAddrs = append(universeAddrs, common.FeeAccount)
}

// total = liquid balances of the universe + locked stake of the given ids + scheduled refunds at the known heights
func total(st *account.AccountDB, ids [][]byte, heights []uint64) (*big.Int, string) {
	sum := new(big.Int)
	var parts []string
	liquid := new(big.Int)
	for _, a := range universeAddrs {
		liquid.Add(liquid, st.GetBalance(a))
	}
	locked := new(big.Int)
	seen := map[string]bool{}
	for _, id := range ids {
		if seen[string(id)] {
			continue
		}
		seen[string(id)] = true
		for _, kind := range []byte{common.MinerTypeProposer, common.MinerTypeValidator} {
			if m := service.MinerManagerImpl.GetMinerById(id, kind, st); m != nil {
				locked.Add(locked, new(big.Int).Mul(new(big.Int).SetUint64(m.Stake), e18))
			}
		}
	}
	sched := new(big.Int)
	for _, h := range heights {
		for _, v := range st.GetAllRefund(service.VerifRefundAddress(h)) {
			sched.Add(sched, v)
		}
	}
	sum.Add(liquid, locked)
	sum.Add(sum, sched)
	parts = append(parts, "liquid="+liquid.String(), "locked="+locked.String(), "scheduled="+sched.String())
	return sum, strings.Join(parts, " ")
}

// ---------- generator ----------

type mtx struct {
	tx      *types.Transaction
	kind    string // apply add refund change
	src     *txgen.Key
	id      []byte // explicit id ("" => derived from the signer)
	account []byte
	typ     byte
	stake   uint64
	amount  string
	idClass string
	desc    string
}

var saltCounter int

func sha(b []byte) []byte { return common.Sha256(b) }

var refundMsgRe = regexp.MustCompile(`height: (\d+)`)

func TestMinerRegistryHistories(t *testing.T) {
	genesisIDs := genesisMinerIDs()
	stats.Check(t, 1500, 6000, func(t *rapid.T) {
		saltCounter++
		salt := fmt.Sprintf("c20-%d-%d", os.Getpid(), saltCounter)
		md := &model{recs: map[string]*rec{}, scheduled: map[uint64]map[string]*big.Int{}}
		for _, g := range genesisRecords() {
			c := *g
			md.recs[hx(g.id)] = &c
		}
		// --- funding block
		amounts := []string{"100", "399.5", "400.001", "801", "2000.001", "2600", "5000", "9000"}
		var fund []*types.Transaction
		for i := 0; i < 4; i++ {
			a := rapid.SampledFrom(amounts).Draw(t, fmt.Sprintf("fund%d", i))
			fund = append(fund, txgen.Transfer(txgen.Faucets[0], nil, [][2]string{{txgen.K(i).Addr, a}}, uint64(i+1), fmt.Sprintf("%s-f%d", salt, i)))
		}
		parentRoot, parentHeight := genesisRoot, uint64(0)
		hdr := func(h uint64) *types.BlockHeader {
			return &types.BlockHeader{Height: h, Castor: []byte{9, 9}, GroupId: []byte("no-such-group"), CurTime: time.Date(2024, 5, 1, 0, 0, int(h%60), 0, time.UTC),
				Hash: common.BytesToHash(sha([]byte(fmt.Sprintf("%s-%d", salt, h))))}
		}
		res := boot.Exec(parentRoot, parentHeight, hdr(1), fund, "fullverify")
		if res.Panic != nil {
			t.Fatalf("funding block panicked: %v", res.Panic)
		}
		for _, r := range res.Receipts {
			if r.Status != types.ReceiptStatusSuccessful {
				t.Fatalf("VERIF-INCONCLUSIVE funding transfer failed: %s", r.Msg)
			}
		}
		root, err := boot.Persist(res.State)
		if err != nil {
			t.Fatalf("persist: %v", err)
		}
		parentRoot, parentHeight = root, 1

		var knownHeights []uint64
		var harnessIDs [][]byte
		addID := func(id []byte) {
			for _, x := range harnessIDs {
				if bytes.Equal(x, id) {
					return
				}
			}
			harnessIDs = append(harnessIDs, append([]byte{}, id...))
		}
		explicit := [][]byte{sha([]byte("idA")), sha([]byte("idB")), []byte{0xaa, 0xbb}}
		nonces := map[int]uint64{}
		var fingerprint []string
		nontrivial := false
		nBlocks := rapid.IntRange(1, 5).Draw(t, "nBlocks")
		for b := 0; b < nBlocks; b++ {
			height := parentHeight + 1
			nTx := rapid.IntRange(1, 5).Draw(t, "nTx")
			var batch []*mtx
			accountsClaimedInBlock := map[string]int{}
			for i := 0; i < nTx; i++ {
				k := txgen.K(rapid.IntRange(0, 3).Draw(t, "src"))
				nonces[k.Idx]++
				s := fmt.Sprintf("%s-b%d-t%d", salt, b, i)
				// id choice
				var id []byte
				idClass := rapid.SampledFrom([]string{"derived", "derived", "explicit", "explicit", "existing", "existing", "existing", "alias", "genesis"}).Draw(t, "idClass")
				switch idClass {
				case "derived":
					id = nil
				case "explicit":
					id = rapid.SampledFrom(explicit).Draw(t, "explicitId")
				case "existing":
					if len(harnessIDs) == 0 {
						id, idClass = nil, "derived"
					} else {
						id = rapid.SampledFrom(harnessIDs).Draw(t, "existingId")
					}
				case "alias":
					if len(harnessIDs) == 0 {
						id, idClass = nil, "derived"
					} else {
						base := rapid.SampledFrom(harnessIDs).Draw(t, "aliasBase")
						id = sha(base)
						for n := rapid.IntRange(0, 2).Draw(t, "aliasDepth"); n > 0; n-- {
							id = sha(id)
						}
					}
				case "genesis":
					id = rapid.SampledFrom(genesisIDs).Draw(t, "genesisId")
				}
				effID := id
				if id == nil {
					effID = k.ID
				}
				m := &mtx{src: k, id: id, idClass: idClass}
				switch rapid.SampledFrom([]string{"apply", "apply", "apply", "add", "refund", "refund", "change"}).Draw(t, "kind") {
				case "apply":
					m.kind = "apply"
					m.typ = rapid.SampledFrom([]byte{0, 0, 1, 1, 2}).Draw(t, "type")
					ms := minStake(m.typ)
					m.stake = rapid.SampledFrom([]uint64{0, ms - 1, ms, ms, ms + 1, 2 * ms, 1 << 40}).Draw(t, "stake")
					accClass := rapid.SampledFrom([]string{"own", "own", "otherKey", "fresh"}).Draw(t, "accClass")
					switch accClass {
					case "own":
						m.account = nil
					case "otherKey":
						m.account = common.FromHex(txgen.K(rapid.IntRange(0, 5).Draw(t, "accKey")).Addr)
					case "fresh":
						m.account = common.FromHex(txgen.K(4 + rapid.IntRange(0, 1).Draw(t, "freshKey")).Addr)
					}
					effAcc := m.account
					if effAcc == nil {
						effAcc = common.FromHex(k.Addr)
					}
					if stats.IsKnown("F-C20-a") && accountsClaimedInBlock[hx(effAcc)] > 0 {
						// recorded finding: a second miner tx in the same block claiming the same account
						stats.Exclude("F-C20-a")
						m.account = common.FromHex(fmt.Sprintf("0x%040x", 0xc20000+saltCounter*100+b*10+i))
						effAcc = m.account
					}
					accountsClaimedInBlock[hx(effAcc)]++
					md := txgen.MinerData{Type: m.typ, Stake: m.stake, PublicKey: "0x0102", VrfPublicKey: []byte{3, 4}}
					if rapid.IntRange(0, 11).Draw(t, "noPk") == 0 {
						md.PublicKey = ""
					}
					if id != nil {
						md.Id = common.ToHex(id)
					}
					if m.account != nil {
						md.Account = common.ToHex(m.account)
					}
					m.tx = txgen.MinerApply(k, md, nonces[k.Idx], s)
					m.desc = fmt.Sprintf("apply(src=K%d id=%s type=%d stake=%d acc=%s)", k.Idx, idClass, m.typ, m.stake, accClass)
				case "add":
					m.kind = "add"
					m.stake = rapid.SampledFrom([]uint64{0, 1, 100, 400, 1 << 40}).Draw(t, "addStake")
					if own := ownedRecords(md); len(own) > 0 && rapid.IntRange(0, 9).Draw(t, "aimedAdd") < 6 {
						r := rapid.SampledFrom(own).Draw(t, "addTarget")
						effID, id, idClass = r.id, r.id, "owned"
						m.idClass = idClass
						m.id = id
					}
					idHex := ""
					if id != nil {
						idHex = common.ToHex(id)
					}
					m.tx = txgen.MinerAdd(k, idHex, m.stake, nonces[k.Idx], s)
					m.desc = fmt.Sprintf("add(src=K%d id=%s stake=%d)", k.Idx, idClass, m.stake)
				case "refund":
					m.kind = "refund"
					m.amount = rapid.SampledFrom([]string{"0", "1", "100", "400", "401", "2000", "18446744073709551615", "999999999", "abc", "-1"}).Draw(t, "refundAmount")
					// mostly aim at a miner this history created, from the key that owns it, with amounts around what it
					// holds: to the minimum exactly, just below it (aborts the miner), a further part of an aborted one, all
					if own := ownedRecords(md); len(own) > 0 && rapid.IntRange(0, 9).Draw(t, "aimedRefund") < 7 {
						r := rapid.SampledFrom(own).Draw(t, "refundTarget")
						k = keyOfAccount(r.account)
						nonces[k.Idx]++
						m.src = k
						effID, id, idClass = r.id, r.id, "owned"
						m.idClass = idClass
						ms := minStake(r.typ)
						var opts []uint64
						if r.stake > ms {
							opts = append(opts, r.stake-ms, r.stake-ms+1)
						}
						if r.stake > 1 {
							opts = append(opts, 1, r.stake/2, r.stake-1)
						}
						opts = append(opts, r.stake, r.stake+1)
						m.amount = strconv.FormatUint(rapid.SampledFrom(opts).Draw(t, "aimedAmount"), 10)
					}
					m.tx = txgen.MinerRefund(k, common.ToHex(effID), m.amount, nonces[k.Idx], s)
					m.id = effID
					m.desc = fmt.Sprintf("refund(src=K%d id=%s amount=%s)", k.Idx, idClass, m.amount)
				case "change":
					m.kind = "change"
					m.account = common.FromHex(txgen.K(rapid.IntRange(0, 5).Draw(t, "newAcc")).Addr)
					if own := ownedRecords(md); len(own) > 0 && rapid.IntRange(0, 9).Draw(t, "aimedChange") < 7 {
						r := rapid.SampledFrom(own).Draw(t, "changeTarget")
						k = keyOfAccount(r.account)
						nonces[k.Idx]++
						m.src = k
						effID, id, idClass = r.id, r.id, "owned"
						m.idClass = idClass
					}
					if stats.IsKnown("F-C20-a") && accountsClaimedInBlock[hx(m.account)] > 0 {
						stats.Exclude("F-C20-a")
						m.account = common.FromHex(fmt.Sprintf("0x%040x", 0xc20000+saltCounter*100+b*10+i))
					}
					accountsClaimedInBlock[hx(m.account)]++
					m.tx = txgen.MinerChangeAccount(k, common.ToHex(effID), common.ToHex(m.account), nonces[k.Idx], s)
					m.id = effID
					m.desc = fmt.Sprintf("change(src=K%d id=%s)", k.Idx, idClass)
				}
				batch = append(batch, m)
			}
			var txs []*types.Transaction
			byHash := map[common.Hash]*mtx{}
			for _, m := range batch {
				txs = append(txs, m.tx)
				byHash[m.tx.Hash] = m
			}
			pre, err := boot.OpenState(parentRoot)
			if err != nil {
				t.Fatalf("open parent: %v", err)
			}
			allIDs := append(append([][]byte{}, harnessIDs...), genesisIDs...)
			for _, m := range batch { // ids this block may create or clobber
				eff := m.id
				if eff == nil {
					eff = m.src.ID
				}
				allIDs = append(allIDs, eff)
			}
			before, beforeParts := total(pre, allIDs, knownHeights)

			res := boot.Exec(parentRoot, parentHeight, hdr(height), txs, "fullverify")
			if res.Panic != nil {
				t.Fatalf("block executor panicked on block %d: %v\ntxs: %s", b, res.Panic, descs(batch))
			}
			// --- drive the model with the receipts, in execution order
			touched := map[string]int{}
			for i, r := range res.Receipts {
				m := byHash[r.TxHash]
				if m == nil {
					t.Fatalf("receipt %d for an unknown tx", i)
				}
				ok := r.Status == types.ReceiptStatusSuccessful
				eff := m.id
				if eff == nil {
					eff = m.src.ID
				}
				key := hx(eff)
				touched[key]++
				if m.account != nil {
					touched["acc:"+hx(m.account)]++
				} else if m.kind == "apply" {
					touched["acc:"+hx(common.FromHex(m.src.Addr))]++
				}
				outcome := "fail"
				if ok {
					outcome = "ok"
				}
				fingerprint = append(fingerprint, fmt.Sprintf("%s/%s/%s", m.kind, m.idClass, outcome))
				stats.Class("tx_" + m.kind + "_" + outcome)
				if !ok {
					continue
				}
				cur := md.recs[key]
				switch m.kind {
				case "apply":
					if cur != nil && (cur.active || cur.stake > 0) {
						t.Fatalf("apply for id %s accepted although that miner already exists\nblock: %s", key, descs(batch))
					}
					acc := m.account
					if acc == nil {
						acc = common.FromHex(m.src.Addr)
					}
					for _, o := range md.recs {
						// an aborted miner (stake left below the minimum) still exists and still belongs to its account
						if (o.active || o.stake > 0) && bytes.Equal(o.account, acc) {
							t.Fatalf("apply accepted for account %s which already controls miner %s (stake %d, active %v) - an account controls at most one miner\nblock: %s", hx(acc), hx(o.id), o.stake, o.active, descs(batch))
						}
					}
					if m.stake < minStake(m.typ) || m.typ > 1 {
						t.Fatalf("apply accepted with type %d stake %d (below the minimum or unknown type)\nblock: %s", m.typ, m.stake, descs(batch))
					}
					md.recs[key] = &rec{id: eff, typ: m.typ, account: acc, stake: m.stake, active: true}
					addID(eff)
				case "add":
					if cur == nil {
						if m.stake == 0 {
							continue // adding nothing to nobody is accepted as a no-op
						}
						t.Fatalf("add-stake accepted for unknown miner %s\nblock: %s", key, descs(batch))
					}
					if cur != nil {
						cur.stake += m.stake
						if cur.stake > minStake(cur.typ) {
							cur.active = true
						}
					}
				case "refund":
					if cur == nil {
						t.Fatalf("refund accepted for unknown miner %s\nblock: %s", key, descs(batch))
					}
					amt, perr := strconv.ParseUint(m.amount, 10, 64)
					if perr != nil {
						t.Fatalf("refund with unparsable amount %q accepted\nblock: %s", m.amount, descs(batch))
					}
					if amt == math.MaxUint64 {
						amt = cur.stake
					}
					if amt > cur.stake {
						t.Fatalf("refund of %d accepted with stake %d\nblock: %s", amt, cur.stake, descs(batch))
					}
					if !bytes.Equal(cur.account, common.FromHex(m.src.Addr)) {
						t.Fatalf("refund accepted from %s which is not the miner's account %s\nblock: %s", m.src.Addr, hx(cur.account), descs(batch))
					}
					cur.stake -= amt
					if cur.stake < minStake(cur.typ) {
						cur.active = false
					}
					mm := refundMsgRe.FindStringSubmatch(r.Msg)
					if amt == 0 {
						// nothing is scheduled for a zero refund
					} else if mm != nil {
						h, _ := strconv.ParseUint(mm[1], 10, 64)
						knownHeights = appendUniq(knownHeights, h)
						if md.scheduled[h] == nil {
							md.scheduled[h] = map[string]*big.Int{}
						}
						a := hx(cur.account)
						if md.scheduled[h][a] == nil {
							md.scheduled[h][a] = new(big.Int)
						}
						md.scheduled[h][a].Add(md.scheduled[h][a], new(big.Int).Mul(new(big.Int).SetUint64(amt), e18))
					} else {
						stats.Class("refund_height_not_reported")
					}
				case "change":
					if cur == nil {
						t.Fatalf("change-account accepted for unknown miner %s\nblock: %s", key, descs(batch))
					}
					if !bytes.Equal(cur.account, common.FromHex(m.src.Addr)) {
						t.Fatalf("change-account accepted from %s which is not the miner's account %s\nblock: %s", m.src.Addr, hx(cur.account), descs(batch))
					}
					for _, o := range md.recs {
						if o != cur && (o.active || o.stake > 0) && bytes.Equal(o.account, m.account) {
							t.Fatalf("change-account to %s accepted although it controls miner %s\nblock: %s", hx(m.account), hx(o.id), descs(batch))
						}
					}
					cur.account = m.account
				}
			}
			for _, n := range touched {
				if n >= 2 {
					nontrivial = true
				}
			}
			// --- registry vs model, on the live post-state and on a cold reopen
			root, err := boot.Persist(res.State)
			if err != nil {
				t.Fatalf("persist: %v", err)
			}
			if root != res.Root {
				t.Fatalf("committed root %s differs from the executor's root %s", root.Hex(), res.Root.Hex())
			}
			cold, err := boot.OpenState(root)
			if err != nil {
				t.Fatalf("reopen: %v", err)
			}
			for name, st := range map[string]*account.AccountDB{"live": res.State, "cold": cold} {
				if msg := compareRegistry(st, md, genesisIDs, harnessIDs); msg != "" {
					t.Fatalf("after block %d (%s state): %s\nblock: %s", b, name, msg, descs(batch))
				}
			}
			// --- conservation: liquid + locked + scheduled is constant (no reward is scheduled in these blocks)
			for _, m := range batch {
				eff := m.id
				if eff == nil {
					eff = m.src.ID
				}
				allIDs = append(allIDs, eff)
			}
			after, afterParts := total(cold, allIDs, knownHeights)
			if before.Cmp(after) != 0 {
				t.Fatalf("liquid + locked stake + scheduled refunds changed across block %d: %s -> %s (delta %s)\nbefore: %s\nafter:  %s\nblock: %s",
					b, before, after, new(big.Int).Sub(after, before), beforeParts, afterParts, descs(batch))
			}
			// scheduled refunds are exactly what the model expects
			for h, accs := range md.scheduled {
				got := cold.GetAllRefund(service.VerifRefundAddress(h))
				for a, want := range accs {
					g := got[common.HexToAddress("0x"+a)]
					if g == nil || g.Cmp(want) != 0 {
						t.Fatalf("scheduled refund at height %d for %s is %v, want %s\nblock: %s", h, a, g, want, descs(batch))
					}
				}
			}
			parentRoot, parentHeight = root, height
			stats.Count("blocks", 1)
			stats.Count("txs", int64(len(batch)))
		}
		key := ""
		if nontrivial {
			key = strings.Join(fingerprint, ",")
		}
		stats.Case(key, fmt.Sprintf("blocks_%d", nBlocks))
		stats.Sample(map[string]interface{}{"fingerprint": fingerprint})
	})
}

func appendUniq(l []uint64, h uint64) []uint64 {
	for _, x := range l {
		if x == h {
			return l
		}
	}
	return append(l, h)
}

func descs(b []*mtx) string {
	var s []string
	for _, m := range b {
		s = append(s, m.desc)
	}
	return strings.Join(s, "; ")
}

const farHeight = uint64(1) << 60

func genesisMinerIDs() [][]byte {
	st, err := boot.OpenState(genesisRoot)
	if err != nil {
		panic(err)
	}
	p, v := service.MinerManagerImpl.GetAllMinerIdAndAccount(farHeight, st)
	var out [][]byte
	var keys []string
	for k := range p {
		keys = append(keys, k)
	}
	for k := range v {
		keys = append(keys, k)
	}
	sort.Strings(keys)
	for _, k := range keys {
		out = append(out, common.FromHex(k))
	}
	return out
}

var genesisRecs []*rec

// genesisRecords reads the miners of the dev genesis once; they are ordinary records of the model.
func genesisRecords() []*rec {
	if genesisRecs != nil {
		return genesisRecs
	}
	g, err := boot.OpenState(genesisRoot)
	if err != nil {
		panic(err)
	}
	for _, id := range genesisMinerIDs() {
		m := service.MinerManagerImpl.GetMiner(id, g)
		if m == nil {
			continue
		}
		genesisRecs = append(genesisRecs, &rec{id: id, typ: m.Type, account: m.Account, stake: m.Stake, active: m.Status == common.MinerStatusNormal, genesis: true})
	}
	return genesisRecs
}

// compareRegistry checks lookup by id, by account and by iteration against the model.
func compareRegistry(st *account.AccountDB, md *model, genesisIDs, harnessIDs [][]byte) string {
	mm := service.MinerManagerImpl
	proposers, validators := mm.GetAllMinerIdAndAccount(farHeight, st)
	totalStake, detail := mm.GetProposerTotalStakeWithDetail(farHeight, st)
	wantTotal := uint64(0)
	wantProposers := 0
	seenAccount := map[string]string{}
	var keys []string
	for k := range md.recs {
		keys = append(keys, k)
	}
	sort.Strings(keys)
	for _, k := range keys {
		r := md.recs[k]
		got := mm.GetMiner(r.id, st)
		hexID := common.ToHex(r.id)
		inIter := false
		var iterAcc common.Address
		if a, ok := proposers[hexID]; ok {
			inIter, iterAcc = true, a
			if r.typ != common.MinerTypeProposer {
				return fmt.Sprintf("miner %s is a validator but iterates as proposer", k)
			}
		}
		if a, ok := validators[hexID]; ok {
			inIter, iterAcc = true, a
			if r.typ != common.MinerTypeValidator {
				return fmt.Sprintf("miner %s is a proposer but iterates as validator", k)
			}
		}
		if r.active {
			if got == nil {
				return fmt.Sprintf("active miner %s (stake %d) not found by id", k, r.stake)
			}
			if got.Stake != r.stake {
				return fmt.Sprintf("miner %s: stake by id is %d, applied+added-refunded is %d", k, got.Stake, r.stake)
			}
			if !bytes.Equal(got.Account, r.account) {
				return fmt.Sprintf("miner %s: account by id is %s, want %s", k, hx(got.Account), hx(r.account))
			}
			if got.Type != r.typ || got.Status != common.MinerStatusNormal {
				return fmt.Sprintf("miner %s: type/status by id is %d/%d, want %d/normal", k, got.Type, got.Status, r.typ)
			}
			if !inIter {
				return fmt.Sprintf("active miner %s is missing from registry iteration", k)
			}
			if !bytes.Equal(iterAcc.Bytes(), common.BytesToAddress(r.account).Bytes()) {
				return fmt.Sprintf("miner %s: iteration reports account %s, want %s", k, iterAcc.GetHexString(), hx(r.account))
			}
			byAcc := mm.GetMinerIdByAccount(r.account, st)
			if other, dup := seenAccount[hx(r.account)]; dup && !r.genesis {
				return fmt.Sprintf("account %s controls two miners: %s and %s", hx(r.account), other, k)
			}
			if !r.genesis {
				seenAccount[hx(r.account)] = k
			}
			if byAcc == nil {
				return fmt.Sprintf("miner %s not found by its account %s", k, hx(r.account))
			}
			if !bytes.Equal(byAcc, r.id) && !r.genesis { // the dev genesis deliberately registers several miners under one account
				// another registry entry with the same account would make this ambiguous: that is the violation
				return fmt.Sprintf("lookup by account %s returns miner %s, but the account belongs to miner %s", hx(r.account), hx(byAcc), k)
			}
			if r.typ == common.MinerTypeProposer {
				wantTotal += r.stake
				wantProposers++
				if detail[hexID] != r.stake {
					return fmt.Sprintf("proposer %s: stake in election detail is %d, want %d", k, detail[hexID], r.stake)
				}
			}
		} else {
			if got != nil && got.Status == common.MinerStatusNormal && got.Stake >= minStake(r.typ) {
				return fmt.Sprintf("miner %s should be inactive (stake %d) but lookup by id reports an active record with stake %d", k, r.stake, got.Stake)
			}
			if got != nil && got.Stake != r.stake {
				return fmt.Sprintf("inactive miner %s: remaining stake by id is %d, want %d", k, got.Stake, r.stake)
			}
			if r.stake > 0 && !r.genesis {
				// aborted, not removed: the record is still there under its id and under its account
				if got == nil {
					return fmt.Sprintf("aborted miner %s (stake %d left) not found by id", k, r.stake)
				}
				if !bytes.Equal(got.Account, r.account) {
					return fmt.Sprintf("aborted miner %s: account by id is %s, want %s", k, hx(got.Account), hx(r.account))
				}
				if other, dup := seenAccount[hx(r.account)]; dup {
					return fmt.Sprintf("account %s controls two miners: %s and (aborted) %s", hx(r.account), other, k)
				}
				seenAccount[hx(r.account)] = k
				if byAcc := mm.GetMinerIdByAccount(r.account, st); byAcc == nil || !bytes.Equal(byAcc, r.id) {
					return fmt.Sprintf("lookup by account %s returns %s, but the account belongs to the aborted miner %s (stake %d left), which lookup by id still returns", hx(r.account), hx(byAcc), k, r.stake)
				}
			}
			if inIter {
				return fmt.Sprintf("inactive miner %s still appears in registry iteration", k)
			}
			if _, ok := detail[hexID]; ok {
				return fmt.Sprintf("inactive miner %s still counted in the election total", k)
			}
		}
	}
	if totalStake != wantTotal {
		return fmt.Sprintf("total proposer stake is %d, sum over active records is %d", totalStake, wantTotal)
	}
	if len(detail) != wantProposers {
		return fmt.Sprintf("proposer count is %d, active proposer records: %d", len(detail), wantProposers)
	}
	// nothing else in the iteration: every iterated id is a genesis or a model miner
	for _, set := range []map[string]common.Address{proposers, validators} {
		for idHex := range set {
			k := hx(common.FromHex(idHex))
			if _, ok := md.recs[k]; ok {
				continue
			}
			return fmt.Sprintf("registry iteration yields miner %s which no accepted transaction created", idHex)
		}
	}
	return ""
}

// Probe for the recorded finding F-C20-a: two applies in ONE block naming the same account both
// succeed, because the account-uniqueness check iterates the storage trie, which does not yet
// contain the first miner (dirty slots reach the trie only when the block is finalised).
func TestProbeSameBlockSameAccount(t *testing.T) {
	salt := fmt.Sprintf("c20-probe-%d", os.Getpid())
	k0, k1 := txgen.K(0), txgen.K(1)
	fund := []*types.Transaction{
		txgen.Transfer(txgen.Faucets[0], nil, [][2]string{{k0.Addr, "1000"}}, 1, salt+"f0"),
		txgen.Transfer(txgen.Faucets[0], nil, [][2]string{{k1.Addr, "1000"}}, 2, salt+"f1"),
	}
	h1 := &types.BlockHeader{Height: 1, Castor: []byte{9}, GroupId: []byte("no-such-group"), CurTime: time.Date(2024, 5, 1, 0, 0, 0, 0, time.UTC)}
	r1 := boot.Exec(genesisRoot, 0, h1, fund, "fullverify")
	if r1.Panic != nil {
		t.Fatalf("funding: %v", r1.Panic)
	}
	root, err := boot.Persist(r1.State)
	if err != nil {
		t.Fatal(err)
	}
	acc := txgen.K(4).Addr
	a := txgen.MinerApply(k0, txgen.MinerData{Type: 0, Stake: 400, PublicKey: "0x01", VrfPublicKey: []byte{1}, Account: acc}, 1, salt+"a")
	b := txgen.MinerApply(k1, txgen.MinerData{Type: 0, Stake: 400, PublicKey: "0x01", VrfPublicKey: []byte{1}, Account: acc}, 1, salt+"b")
	h2 := &types.BlockHeader{Height: 2, Castor: []byte{9}, GroupId: []byte("no-such-group"), CurTime: time.Date(2024, 5, 1, 0, 0, 1, 0, time.UTC)}
	r2 := boot.Exec(root, 1, h2, []*types.Transaction{a, b}, "fullverify")
	if r2.Panic != nil {
		t.Fatalf("exec: %v", r2.Panic)
	}
	both := len(r2.Receipts) == 2 && r2.Receipts[0].Status == types.ReceiptStatusSuccessful && r2.Receipts[1].Status == types.ReceiptStatusSuccessful
	stats.Probe(t, "F-C20-a", "C20", both,
		"two miner-apply transactions in one block naming the same account both succeed (service.MinerManager.GetMinerIdByAccount iterates the storage trie, which lacks the first miner until the block is finalised): one account controls two miners")
}

// Probe for F-C20-d (the reverse direction of F-C20-b): a miner whose id is sha256(id') of a miner that does
// not exist yet is accepted; when id' applies later, its stake slot sha256(id') is the first miner's record.
func TestProbeReverseAliasId(t *testing.T) {
	salt := fmt.Sprintf("c20-probe-rev-%d", os.Getpid())
	k0, k1 := txgen.K(0), txgen.K(1)
	fund := []*types.Transaction{
		txgen.Transfer(txgen.Faucets[0], nil, [][2]string{{k0.Addr, "1000"}}, 1, salt+"f0"),
		txgen.Transfer(txgen.Faucets[0], nil, [][2]string{{k1.Addr, "1000"}}, 2, salt+"f1"),
	}
	h1 := &types.BlockHeader{Height: 1, Castor: []byte{9}, GroupId: []byte("no-such-group"), CurTime: time.Date(2024, 5, 1, 0, 0, 0, 0, time.UTC)}
	r1 := boot.Exec(genesisRoot, 0, h1, fund, "fullverify")
	if r1.Panic != nil {
		t.Fatalf("funding: %v", r1.Panic)
	}
	root, err := boot.Persist(r1.State)
	if err != nil {
		t.Fatal(err)
	}
	x := common.Sha256(k1.ID)
	a := txgen.MinerApply(k0, txgen.MinerData{Id: common.ToHex(x), Type: 0, Stake: 400, PublicKey: "0x01", VrfPublicKey: []byte{1}}, 1, salt+"a")
	h2 := &types.BlockHeader{Height: 2, Castor: []byte{9}, GroupId: []byte("no-such-group"), CurTime: time.Date(2024, 5, 1, 0, 0, 1, 0, time.UTC)}
	r2 := boot.Exec(root, 1, h2, []*types.Transaction{a}, "fullverify")
	if r2.Panic != nil || len(r2.Receipts) != 1 {
		t.Fatalf("exec: %v", r2.Panic)
	}
	root2, err := boot.Persist(r2.State)
	if err != nil {
		t.Fatal(err)
	}
	b := txgen.MinerApply(k1, txgen.MinerData{Type: 0, Stake: 400, PublicKey: "0x01", VrfPublicKey: []byte{1}}, 1, salt+"b")
	h3 := &types.BlockHeader{Height: 3, Castor: []byte{9}, GroupId: []byte("no-such-group"), CurTime: time.Date(2024, 5, 1, 0, 0, 2, 0, time.UTC)}
	r3 := boot.Exec(root2, 2, h3, []*types.Transaction{b}, "fullverify")
	if r3.Panic != nil || len(r3.Receipts) != 1 {
		t.Fatalf("exec: %v", r3.Panic)
	}
	root3, err := boot.Persist(r3.State)
	if err != nil {
		t.Fatal(err)
	}
	st, err := boot.OpenState(root3)
	if err != nil {
		t.Fatal(err)
	}
	firstOK := r2.Receipts[0].Status == types.ReceiptStatusSuccessful
	secondOK := r3.Receipts[0].Status == types.ReceiptStatusSuccessful
	got := service.MinerManagerImpl.GetMiner(x, st)
	lost := firstOK && (got == nil || got.Stake != 400)
	stats.Probe(t, "F-C20-d", "C20", lost, fmt.Sprintf(
		"apply(K0, id=sha256(id of K1), stake 400) succeeds (%v); a later apply(K1, derived id, stake 400) succeeds (%v) and writes its stake into the slot holding the first miner's record: looking the first miner up by id now gives %v",
		firstOK, secondOK, got))
}

// ownedRecords lists the miners of this history (active or aborted with stake left) whose account is one of the
// harness keys, in a stable order.
func ownedRecords(md *model) []*rec {
	var keys []string
	for k, r := range md.recs {
		if !r.genesis && (r.active || r.stake > 0) && keyOfAccount(r.account) != nil {
			keys = append(keys, k)
		}
	}
	sort.Strings(keys)
	var out []*rec
	for _, k := range keys {
		out = append(out, md.recs[k])
	}
	return out
}

func keyOfAccount(acc []byte) *txgen.Key {
	for i := 0; i < 6; i++ {
		if bytes.Equal(common.FromHex(txgen.K(i).Addr), acc) {
			return txgen.K(i)
		}
	}
	return nil
}
