// Package c16: "VRF proofs are complete, mutation-proof and survive header transport".
//
// Code under test: common/ed25519 (ECVRFProve/ECVRFVerify), consensus/vrf (wrappers,
// VRFProof2Hash), consensus/logical (validateProve/calQn, vrfWorker.genProve, verifyBlockVRF),
// middleware/types header (un)marshalling of BlockHeader.ProveValue.
//
// The harness acts as honest prover (public API), as an independent re-implementation of the
// prover from exported primitives (hook H5) and as an adversarial prover that shifts the output
// point Gamma by every 8-torsion point and searches a nonce for which the challenge is
// consistent. The qualification rule is re-computed in exact rational arithmetic.
package c16

import (
	"bytes"
	"crypto/sha256"
	"crypto/sha512"
	"encoding/hex"
	"fmt"
	"math/big"
	"sort"
	"testing"
	"time"

	"com.tuntun.rangers/node/src/common"
	"com.tuntun.rangers/node/src/common/ed25519"
	"com.tuntun.rangers/node/src/common/ed25519/edwards25519"
	"com.tuntun.rangers/node/src/consensus/logical"
	"com.tuntun.rangers/node/src/consensus/model"
	"com.tuntun.rangers/node/src/consensus/vrf"
	"com.tuntun.rangers/node/src/middleware/types"
	"pgregory.net/rapid"

	"verifharness/internal/stats"
)

const findingA = "F-C16-a"

func TestMain(m *testing.M) {
	stats.SetRule("non-trivial = an honest proof whose 80-byte encoding starts with >=1 zero byte (searched for by drawing messages; " +
		"carried through big.Int + header marshal/unmarshal), or an adversarially constructed proof (Gamma shifted by an 8-torsion point, " +
		"nonce searched) that VRFVerify accepts; for the qualification rule: a case where the proof qualifies (ok) or lies within 2^-30 " +
		"(relative) of a qn step. Distinct by (kind, first proof bytes / stake inputs).")
	stats.Assume("key pairs are honestly generated (ed25519.GenerateKey from a 32-byte seed); public keys are not adversarial")
	stats.Assume("'accepted proof' = accepted by vrf.VRFVerify; 1<=qn<=MaxQN is asserted only for such proofs; for synthetic Gamma bytes only determinism " +
		"and agreement with the exact rational re-computation outside the float64 rounding window (2^-40 relative) are asserted")
	stats.Assume("qualification inputs respect workingMiners <= totalStake once the difficulty fork is active (otherwise step=0 and big.Rat.Quo panics) " +
		"and the exact comparison is limited to inputs without uint64 overflow in totalStake*20 and difficulty*potentialProposal")
	common.Init(0, "1.ini", "dev") // writes 1.ini/logs into the scratch cwd
	logical.InitConsensus()        // loggers + model.Param (MaxQN, PotentialProposal*)
	initCurve()
	stats.Main(m, "C16")
}

// ------------------------------------------------------------------------------------------
// curve helpers (built only on the exported edwards25519 group operations)

type point = edwards25519.ExtendedGroupElement

var (
	fieldP = new(big.Int).Sub(new(big.Int).Lsh(big.NewInt(1), 255), big.NewInt(19))
	groupL = func() *big.Int {
		v, _ := new(big.Int).SetString("27742317777372353535851937790883648493", 10)
		return v.Add(v, new(big.Int).Lsh(big.NewInt(1), 252))
	}()
	ellLE    [32]byte
	identEnc = [32]byte{1}
	tors     [8]*point   // tors[j] = j*Q, Q a generator of the 8-torsion subgroup
	torsEnc  [8][32]byte // their encodings
	torsOrd  = [8]int{1, 8, 4, 8, 2, 8, 4, 8}
	two256m1 = new(big.Int).Sub(new(big.Int).Lsh(big.NewInt(1), 256), big.NewInt(1))
	two256   = new(big.Int).Lsh(big.NewInt(1), 256)
	two64    = new(big.Int).Lsh(big.NewInt(1), 64)
	two63    = new(big.Int).Lsh(big.NewInt(1), 63)
)

// the eight small-order encodings as published (libsodium blacklist); used only to cross-check
// the torsion subgroup derived by computation in initCurve.
var publishedSmallOrder = []string{
	"0100000000000000000000000000000000000000000000000000000000000000",
	"ecffffffffffffffffffffffffffffffffffffffffffffffffffffffffffff7f",
	"0000000000000000000000000000000000000000000000000000000000000000",
	"0000000000000000000000000000000000000000000000000000000000000080",
	"26e8958fc2b227b045c3f489f2ef98f0d5dfac05d3c63339b13802886d53fc05",
	"26e8958fc2b227b045c3f489f2ef98f0d5dfac05d3c63339b13802886d53fc85",
	"c7176a703d4dd84fba3c0b760d10670f2a2053fa2c39ccc64ec7fd7792ac037a",
	"c7176a703d4dd84fba3c0b760d10670f2a2053fa2c39ccc64ec7fd7792ac03fa",
}

func le32(v *big.Int) (out [32]byte) {
	b := v.Bytes()
	if len(b) > 32 {
		panic("le32: value too large")
	}
	for i := range b {
		out[i] = b[len(b)-1-i]
	}
	return
}

func fromLE(b []byte) *big.Int {
	r := make([]byte, len(b))
	for i := range b {
		r[i] = b[len(b)-1-i]
	}
	return new(big.Int).SetBytes(r)
}

func small(k int) *[32]byte { return &[32]byte{byte(k)} }

func dec(b [32]byte) (*point, bool) {
	p := new(point)
	ok := p.FromBytes(&b)
	return p, ok
}

func enc(p *point) (s [32]byte) { p.ToBytes(&s); return }

func smul(p *point, k *[32]byte) *point { return edwards25519.GeScalarMult(p, k) }

func psub(p, q *point) *point {
	var c edwards25519.CachedGroupElement
	var r edwards25519.CompletedGroupElement
	q.ToCached(&c)
	edwards25519.GeSub(&r, p, &c)
	out := new(point)
	r.ToExtended(out)
	return out
}

// padd(p, j) = p + tors[j] (the exported API has subtraction only; -tors[j] = tors[8-j]).
func paddTors(p *point, j int) *point { return psub(p, tors[(8-j)%8]) }

func initCurve() {
	ellLE = le32(groupL)
	for i := 0; ; i++ {
		h := sha256.Sum256([]byte(fmt.Sprintf("verif-c16-torsion-%d", i)))
		h[31] &= 0x7f
		p, ok := dec(h)
		if !ok {
			continue
		}
		q := smul(p, &ellLE) // kills the prime-order component
		if enc(smul(q, small(4))) == identEnc {
			continue // order divides 4
		}
		if enc(smul(q, small(8))) != identEnc {
			panic("initCurve: 8*l*P != identity")
		}
		for j := 0; j < 8; j++ {
			tors[j] = smul(q, small(j))
			torsEnc[j] = enc(tors[j])
		}
		break
	}
	var got, want []string
	for j := 0; j < 8; j++ {
		got = append(got, hex.EncodeToString(torsEnc[j][:]))
		// order check
		if enc(smul(tors[j], small(torsOrd[j]))) != identEnc {
			panic("initCurve: torsion order table wrong")
		}
	}
	want = append(want, publishedSmallOrder...)
	sort.Strings(got)
	sort.Strings(want)
	for i := range got {
		if got[i] != want[i] {
			panic("initCurve: derived torsion subgroup differs from the published small-order encodings")
		}
	}
}

// ------------------------------------------------------------------------------------------
// provers

type keyPair struct {
	pk vrf.VRFPublicKey
	sk vrf.VRFPrivateKey
}

func genKey(t *rapid.T) keyPair {
	seed := rapid.SliceOfN(rapid.Byte(), 32, 32).Draw(t, "seed")
	pk, sk, err := vrf.VRFGenerateKey(bytes.NewReader(seed))
	if err != nil {
		t.Fatalf("VRFGenerateKey: %v", err)
	}
	return keyPair{pk, sk}
}

func genMsg() *rapid.Generator[[]byte] {
	return rapid.Custom(func(t *rapid.T) []byte {
		switch rapid.IntRange(0, 5).Draw(t, "msgkind") {
		case 0:
			n := rapid.IntRange(0, 2).Draw(t, "n")
			return rapid.SliceOfN(rapid.Byte(), n, n).Draw(t, "tiny")
		case 1:
			return rapid.SliceOfN(rapid.Byte(), 32, 32).Draw(t, "hash32") // the shape consensus uses (previous Random / its hash)
		case 2:
			n := rapid.IntRange(0, 100).Draw(t, "n")
			b := rapid.SampledFrom([]byte{0x00, 0xff}).Draw(t, "fill")
			return bytes.Repeat([]byte{b}, n)
		case 3:
			n := 33 + rapid.IntRange(0, 67).Draw(t, "n")
			return rapid.SliceOfN(rapid.Byte(), n, n).Draw(t, "long")
		default:
			return rapid.SliceOfN(rapid.Byte(), 0, 100).Draw(t, "msg")
		}
	})
}

// refProve re-implements the honest prover from the exported primitives (Gamma = x*H,
// U = k*B, V = k*H, c = H2(H,Gamma,U,V), s = c*x + k) with the implementation's nonce.
func refProve(kp keyPair, m []byte) []byte {
	x, trunc := ed25519.VerifExpandSecret(ed25519.PrivateKey(kp.sk))
	h := ed25519.VerifHashToCurve(m, ed25519.PublicKey(kp.pk))
	hp, _ := dec(h)
	gamma := smul(hp, x)
	k := ed25519.VerifNonce(*trunc, h)
	kb := new(point)
	edwards25519.GeScalarMultBase(kb, k)
	kh := smul(hp, k)
	c := ed25519.VerifHashPoints(*hp, *gamma, *kb, *kh)
	var cs, s [32]byte
	copy(cs[:], c[:])
	edwards25519.ScMulAdd(&s, &cs, x, k)
	g := enc(gamma)
	out := append([]byte{}, g[:]...)
	out = append(out, c[:]...)
	return append(out, s[:]...)
}

// advProve builds a proof whose output point is Gamma + tors[j]. With s = c*x + k the verifier
// computes U = k*B and V = k*H - c*tors[j]; c*tors[j] only depends on (c*j mod 8), so for every
// nonce each of the ord(tors[j]) possible values e is tried: V_e = k*H - tors[e], c = H2(H,Gamma',U,V_e),
// consistent iff c*j mod 8 == e. Returns nil if no nonce among maxNonces worked.
func advProve(kp keyPair, m []byte, j int, salt []byte, maxNonces int) (pi []byte, nonces int) {
	x, trunc := ed25519.VerifExpandSecret(ed25519.PrivateKey(kp.sk))
	h := ed25519.VerifHashToCurve(m, ed25519.PublicKey(kp.pk))
	hp, _ := dec(h)
	gamma := smul(hp, x)
	gp := paddTors(gamma, j)
	for n := 0; n < maxNonces; n++ {
		hs := sha512.New()
		hs.Write(trunc[:])
		hs.Write(h[:])
		hs.Write([]byte("verif-adversarial-nonce"))
		hs.Write(salt)
		hs.Write([]byte{byte(j), byte(n), byte(n >> 8)})
		var wide [64]byte
		copy(wide[:], hs.Sum(nil))
		var k [32]byte
		edwards25519.ScReduce(&k, &wide)
		kb := new(point)
		edwards25519.GeScalarMultBase(kb, &k)
		kh := smul(hp, &k)
		for g := 0; g < torsOrd[j]; g++ {
			e := (g * j) % 8
			v := psub(kh, tors[e])
			c := ed25519.VerifHashPoints(*hp, *gp, *kb, *v)
			if (int(c[0]&7)*j)%8 != e {
				continue
			}
			var cs, s [32]byte
			copy(cs[:], c[:])
			edwards25519.ScMulAdd(&s, &cs, x, &k)
			ge := enc(gp)
			out := append([]byte{}, ge[:]...)
			out = append(out, c[:]...)
			return append(out, s[:]...), n + 1
		}
	}
	return nil, maxNonces
}

// ------------------------------------------------------------------------------------------
// observation points

func verify(pk vrf.VRFPublicKey, pi []byte, m []byte) bool {
	ok, _ := vrf.VRFVerify(pk, vrf.VRFProve(pi), m)
	return ok
}

// lottery output as the verifier derives it: left-pad to 80 bytes (validateProve), then VRFProof2Hash.
func output(pi []byte) []byte {
	return append([]byte{}, vrf.VRFProof2Hash(logical.VerifTryZeroPadding(vrf.VRFProve(pi)))...)
}

var (
	t0        = time.Date(2024, 5, 1, 12, 0, 0, 0, time.UTC)
	someHash  = common.BytesToHash(bytes.Repeat([]byte{0xab}, 32))
	someHash2 = common.BytesToHash(bytes.Repeat([]byte{0x17}, 32))
)

func headerWith(pv *big.Int, height, totalQN uint64, cur time.Time) *types.BlockHeader {
	return &types.BlockHeader{
		Hash: someHash, Height: height, PreHash: someHash2, PreTime: t0, CurTime: cur,
		ProveValue: pv, TotalQN: totalQN, Castor: []byte{1, 2, 3}, GroupId: []byte{4, 5}, Signature: []byte{6},
		Nonce: 7, Transactions: []common.Hashes{}, EvictedTxs: []common.Hash{}, Random: []byte{9, 9},
		RequestIds: map[string]uint64{},
	}
}

type fataler interface {
	Fatalf(format string, args ...any)
}

// transportHeader carries a proof the way CastBlock / the wire / verifyBlockVRF do:
// pi -> big.Int -> header -> protobuf bytes -> header; the caller takes .ProveValue.Bytes().
func transportHeader(t fataler, bh *types.BlockHeader) *types.BlockHeader {
	raw, err := types.MarshalBlockHeader(bh)
	if err != nil || raw == nil {
		t.Fatalf("MarshalBlockHeader: %v", err)
	}
	back, err := types.UnMarshalBlockHeader(raw)
	if err != nil || back == nil {
		t.Fatalf("UnMarshalBlockHeader: %v", err)
	}
	if back.ProveValue == nil {
		t.Fatalf("ProveValue lost in header transport (sent %x)", bh.ProveValue.Bytes())
	}
	return back
}

func transport(t fataler, pi []byte) []byte {
	bh := headerWith(vrf.VRFProve(pi).Big(), 10, 3, t0.Add(time.Second))
	return transportHeader(t, bh).ProveValue.Bytes()
}

// pad80 is the harness' own left-padding (independent of the two tryZeroPadding under test).
func pad80(pi []byte) []byte {
	if len(pi) >= 80 {
		return append([]byte{}, pi...)
	}
	return append(make([]byte, 80-len(pi)), pi...)
}

func leadingZeros(b []byte) int {
	n := 0
	for n < len(b) && b[n] == 0 {
		n++
	}
	return n
}

func flipBit(b []byte, i int) []byte {
	c := append([]byte{}, b...)
	c[i/8] ^= 1 << uint(i%8)
	return c
}

func short(b []byte) string {
	if len(b) > 12 {
		return hex.EncodeToString(b[:12]) + "…"
	}
	return hex.EncodeToString(b)
}

// ------------------------------------------------------------------------------------------
// exact reference for the qualification rule

type stakeIn struct{ height, wm, ts uint64 }

func (s stakeIn) String() string { return fmt.Sprintf("h=%d wm=%d ts=%d", s.height, s.wm, s.ts) }

type qres struct {
	precond  bool // inputs inside the rule's domain (no division by zero)
	exact    bool // no uint64 overflow in the implementation's integer part => exact comparison meaningful
	ok       bool
	qn       uint64
	window   bool // within 2^-40 (relative) of a decision boundary: float64 rounding may legitimately differ
	nearStep bool // within 2^-30 of a qn step or the threshold (coverage only)
	topShape bool // exact quotient >= MaxQN*(1-2^-40): the only place where rounding can yield MaxQN+1
}

func forkHeight() uint64 { return common.LocalChainConfig.Proposal025Block + common.GetRewardBlocks() }

func relClose(a, b *big.Rat, bits uint) bool { // |a-b| <= 2^-bits * max(|b|, tiny)
	d := new(big.Rat).Sub(a, b)
	d.Abs(d)
	bound := new(big.Rat).Abs(b)
	bound.Quo(bound, new(big.Rat).SetInt(new(big.Int).Lsh(big.NewInt(1), bits)))
	return d.Cmp(bound) <= 0
}

// refQualify: ok = value/(2^256-1) < stakeRatio, qn = floor(value_ratio / (min(stakeRatio,1)/MaxQN)) + 1,
// stakeRatio = difficulty * clamp(totalStake*idx/100, PotentialProposal, PotentialProposalMax) / totalStake,
// difficulty = totalStake/workingMiners after the fork (if workingMiners != 0), else 1. All in big.Int/big.Rat.
func refQualify(gamma32 []byte, in stakeIn) qres {
	var r qres
	if in.ts == 0 {
		return qres{precond: true, exact: true, ok: false}
	}
	par := model.Param
	ts := new(big.Int).SetUint64(in.ts)
	diff := big.NewInt(1)
	if in.wm != 0 && in.height > forkHeight() {
		diff = new(big.Int).Quo(ts, new(big.Int).SetUint64(in.wm))
	}
	if diff.Sign() == 0 {
		return qres{precond: false}
	}
	r.precond = true
	prod := new(big.Int).Mul(ts, big.NewInt(int64(par.PotentialProposalIndex)))
	pp := new(big.Int).Quo(prod, big.NewInt(100))
	if pp.Cmp(new(big.Int).SetUint64(par.PotentialProposal)) < 0 {
		pp.SetUint64(par.PotentialProposal)
	}
	if pp.Cmp(new(big.Int).SetUint64(par.PotentialProposalMax)) > 0 {
		pp.SetUint64(par.PotentialProposalMax)
	}
	num := new(big.Int).Mul(diff, pp)
	r.exact = prod.Cmp(two64) < 0 && num.Cmp(two63) < 0
	stakeRatio := new(big.Rat).SetFrac(num, ts)
	ratio := new(big.Rat).SetFrac(new(big.Int).SetBytes(gamma32), two256m1)
	r.ok = ratio.Cmp(stakeRatio) < 0
	sr := new(big.Rat).Set(stakeRatio)
	one := big.NewRat(1, 1)
	if sr.Cmp(one) > 0 {
		sr.Set(one)
	}
	maxQN := big.NewRat(int64(par.MaxQN), 1)
	q := new(big.Rat).Quo(new(big.Rat).Mul(ratio, maxQN), sr)
	fl := new(big.Int).Quo(q.Num(), q.Denom())
	if fl.IsUint64() {
		r.qn = fl.Uint64() + 1
	} else {
		r.qn = ^uint64(0)
	}
	// windows
	lo := new(big.Rat).SetInt(fl)
	hi := new(big.Rat).SetInt(new(big.Int).Add(fl, big.NewInt(1)))
	qq := q
	if q.Cmp(one) < 0 {
		qq = one // absolute 2^-40 below 1
	}
	near := func(bits uint) bool {
		d1 := new(big.Rat).Sub(q, lo)
		d2 := new(big.Rat).Sub(hi, q)
		bound := new(big.Rat).Quo(qq, new(big.Rat).SetInt(new(big.Int).Lsh(big.NewInt(1), bits)))
		return d1.Cmp(bound) <= 0 || d2.Cmp(bound) <= 0 || relClose(ratio, stakeRatio, bits)
	}
	r.window = near(40)
	r.nearStep = near(30)
	top := new(big.Rat).Mul(maxQN, new(big.Rat).SetFrac(new(big.Int).Sub(new(big.Int).Lsh(big.NewInt(1), 40), big.NewInt(1)), new(big.Int).Lsh(big.NewInt(1), 40)))
	r.topShape = q.Cmp(top) >= 0
	return r
}

// checkQualification evaluates validateProve on proof bytes and compares with the reference.
// verified = the proof was accepted by VRFVerify (then the property's range claim applies).
func checkQualification(t fataler, pi []byte, in stakeIn, verified bool) (ok bool, qn uint64, ref qres) {
	padded := pad80(pi)
	ref = refQualify(padded[:32], in)
	if !ref.precond {
		stats.Class("qual:precondition_wm_gt_totalstake(not called)")
		return false, 0, ref
	}
	ok, qn = logical.VerifValidateProve(vrf.VRFProve(pi), in.height, in.wm, in.ts)
	ok2, qn2 := logical.VerifValidateProve(vrf.VRFProve(append([]byte{}, pi...)), in.height, in.wm, in.ts)
	if ok != ok2 || qn != qn2 {
		t.Fatalf("validateProve not deterministic: (%v,%d) then (%v,%d) for gamma=%x %v", ok, qn, ok2, qn2, padded[:32], in)
	}
	maxQN := uint64(model.Param.MaxQN)
	if verified && ok && (qn < 1 || qn > maxQN) {
		t.Fatalf("accepted proof qualifies with qn=%d outside [1,%d]: gamma=%x %v", qn, maxQN, padded[:32], in)
	}
	if !ref.exact {
		stats.Class("qual:uint64_overflow_inputs(only determinism/range)")
		return
	}
	if ref.window {
		stats.Class("qual:float_rounding_window")
		if ok && qn > maxQN {
			stats.Count("qual_window_ok_qn_exceeds_max(observation)", 1)
		}
		if ok && ref.ok && qn != ref.qn {
			stats.Count("qual_window_qn_differs_from_exact(observation)", 1)
		}
		return
	}
	if ok != ref.ok {
		t.Fatalf("validateProve ok=%v, exact rule says %v: gamma=%x %v", ok, ref.ok, padded[:32], in)
	}
	if ok {
		if qn != ref.qn {
			t.Fatalf("validateProve qn=%d, exact rule says %d: gamma=%x %v", qn, ref.qn, padded[:32], in)
		}
		if qn < 1 || qn > maxQN {
			t.Fatalf("qn=%d outside [1,%d] (outside the rounding window): gamma=%x %v", qn, maxQN, padded[:32], in)
		}
	}
	return
}

func genStake() *rapid.Generator[stakeIn] {
	return rapid.Custom(func(t *rapid.T) stakeIn {
		fh := forkHeight()
		heights := []uint64{0, 1, fh - 1, fh, fh + 1, fh + 2, fh + 1000000, ^uint64(0)}
		stakes := []uint64{1, 2, 3, 4, 5, 7, 10, 14, 15, 16, 24, 25, 26, 30, 100, 250, 1000, 12345, 1 << 20, 1<<32 - 1, 1 << 32, 1<<32 + 1,
			1<<53 - 1, 1 << 53, 1<<53 + 1, 1<<60 + 12345, 1<<63 - 1, 1 << 63, 1<<63 + 1, ^uint64(0)}
		var in stakeIn
		in.height = rapid.SampledFrom(heights).Draw(t, "height")
		if rapid.IntRange(0, 3).Draw(t, "stakekind") == 0 {
			in.ts = rapid.Uint64().Draw(t, "ts")
		} else {
			in.ts = rapid.SampledFrom(stakes).Draw(t, "ts")
		}
		switch rapid.IntRange(0, 4).Draw(t, "wmkind") {
		case 0:
			in.wm = 0
		case 1:
			in.wm = 1
		case 2:
			in.wm = rapid.Uint64Range(1, 64).Draw(t, "wm")
		case 3: // a divisor-ish fraction of the stake
			in.wm = in.ts / rapid.Uint64Range(1, 1000).Draw(t, "perMiner")
		default:
			in.wm = rapid.Uint64().Draw(t, "wm")
		}
		return in
	})
}

// stake inputs under which qualification is likely, for use with real proofs.
func genLikelyStake() *rapid.Generator[stakeIn] {
	return rapid.Custom(func(t *rapid.T) stakeIn {
		fh := forkHeight()
		in := stakeIn{}
		in.height = rapid.SampledFrom([]uint64{1, 1000, fh - 1, fh, fh + 1, fh + 50}).Draw(t, "height")
		in.ts = rapid.SampledFrom([]uint64{1, 2, 3, 4, 5, 6, 8, 10, 15, 25, 40, 100, 1000, 1 << 32, 1 << 53, 1<<63 - 1}).Draw(t, "ts")
		in.wm = rapid.SampledFrom([]uint64{0, 1, 2, 3, 5, 8}).Draw(t, "wm")
		if in.wm > in.ts {
			in.wm = in.ts
		}
		return in
	})
}

// ------------------------------------------------------------------------------------------
// the oracle for "all accepted proofs of one (pk, m) carry the same output"

// checkUniqueness is called for a proof that VRFVerify accepted. honestOut is the honest output.
// shiftedBy != 0 marks the shape of finding F-C16-a (Gamma + small-order point).
func checkUniqueness(t fataler, what string, pi []byte, honestPi []byte, shiftedBy int) {
	out, honestOut := output(pi), output(honestPi)
	if bytes.Equal(out, honestOut) {
		return
	}
	if shiftedBy != 0 && stats.IsKnown(findingA) {
		// steer around exactly the recorded shape, but keep what is still true: the outputs of
		// all accepted proofs agree after clearing the cofactor (at most 8 outputs per (pk, m)).
		stats.Exclude(findingA)
		var a, b [32]byte
		copy(a[:], out)
		copy(b[:], honestOut)
		pa, oka := dec(a)
		pb, okb := dec(b)
		if !oka || !okb || enc(smul(pa, small(8))) != enc(smul(pb, small(8))) {
			t.Fatalf("%s: accepted proof %x has output %x that is not (honest output %x + small-order point)", what, pi, out, honestOut)
		}
		return
	}
	t.Fatalf("%s: two accepted proofs for one (pk, m) with different VRFProof2Hash: %x vs honest %x (proof %x)", what, out, honestOut, pi)
}

// altEncodings: other 32-byte strings that decode to the same point as g (possible only if
// y < 19, where y+p still fits into 255 bits, or x == 0, where the sign bit is free).
func altEncodings(g [32]byte) [][32]byte {
	var alts [][32]byte
	p, ok := dec(g)
	if !ok {
		return nil
	}
	canon := enc(p)
	yb := canon
	yb[31] &= 0x7f
	y := fromLE(yb[:])
	cands := [][32]byte{}
	for _, sign := range []byte{0, 0x80} {
		c := yb
		c[31] |= sign
		cands = append(cands, c)
		if y.Cmp(big.NewInt(19)) < 0 {
			c2 := le32(new(big.Int).Add(y, fieldP))
			c2[31] |= sign
			cands = append(cands, c2)
		}
	}
	for _, c := range cands {
		if c == g {
			continue
		}
		q := new(point)
		if ed25519.VerifStringToPoint(q, c) && enc(q) == canon {
			alts = append(alts, c)
		}
	}
	return alts
}

// checkAltEncodings: does a second encoding of the same Gamma give a second accepted proof with a
// different output? (isCanonical never rejects, so non-canonical y is decodable.)
func checkAltEncodings(t fataler, kp keyPair, m, pi, honestPi []byte) {
	var g [32]byte
	copy(g[:], logical.VerifTryZeroPadding(vrf.VRFProve(pi))[:32])
	alts := altEncodings(g)
	if len(alts) == 0 {
		stats.Class("alt_gamma_encoding:none_exists")
		return
	}
	for _, a := range alts {
		p2 := append(append([]byte{}, a[:]...), logical.VerifTryZeroPadding(vrf.VRFProve(pi))[32:]...)
		stats.Class("alt_gamma_encoding:candidate")
		if verify(kp.pk, p2, m) {
			stats.Class("alt_gamma_encoding:accepted")
			checkUniqueness(t, "alternative encoding of Gamma", p2, honestPi, 0)
		}
	}
}

// ------------------------------------------------------------------------------------------
// shared per-proof checks

// honestBasics: completeness, determinism, construction, transport. Returns the transported bytes.
func honestBasics(t *rapid.T, kp keyPair, m []byte) (pi, carried []byte) {
	p1, err := vrf.VRFGenProve(kp.pk, kp.sk, m)
	if err != nil {
		t.Fatalf("VRFGenProve: %v", err)
	}
	p2, err := vrf.VRFGenProve(kp.pk, kp.sk, append([]byte{}, m...))
	if err != nil || !bytes.Equal(p1, p2) {
		t.Fatalf("proof generation not deterministic: %x vs %x (err %v)", p1, p2, err)
	}
	pi = append([]byte{}, p1...)
	if len(pi) != ed25519.ProveSize {
		t.Fatalf("proof length %d", len(pi))
	}
	if rp := refProve(kp, m); !bytes.Equal(rp, pi) {
		t.Fatalf("ECVRFProve differs from the construction Gamma=xH, c=H2(H,Gamma,kB,kH), s=cx+k: %x vs %x", pi, rp)
	}
	if !verify(kp.pk, pi, m) {
		t.Fatalf("completeness: honest proof rejected pk=%x m=%x pi=%x", kp.pk, m, pi)
	}
	carried = transport(t, pi)
	lz := leadingZeros(pi)
	if len(carried) != len(pi)-lz {
		t.Fatalf("transport: expected %d bytes after dropping %d leading zeros, got %d", len(pi)-lz, lz, len(carried))
	}
	if !verify(kp.pk, carried, m) {
		t.Fatalf("completeness after header transport: proof %x arrives as %x (%d bytes) and is rejected; pk=%x m=%x", pi, carried, len(carried), kp.pk, m)
	}
	if !bytes.Equal(output(carried), pi[:32]) {
		t.Fatalf("lottery output changed in transport: %x -> %x", pi[:32], output(carried))
	}
	if !bytes.Equal(logical.VerifTryZeroPadding(vrf.VRFProve(carried)), pi) || !bytes.Equal(ed25519.VerifTryZeroPadding(ed25519.VRFProve(carried)), pi) {
		t.Fatalf("re-padding the carried proof does not restore it: %x vs %x", carried, pi)
	}
	return
}

// rejectMutant asserts that a single-bit mutant is not accepted (optionally after transport).
func rejectMutant(t *rapid.T, what string, bit int, pk vrf.VRFPublicKey, pi, m []byte, viaTransport bool) {
	p := pi
	if viaTransport {
		p = new(big.Int).SetBytes(pi).Bytes() // what the header field keeps of it
	}
	if verify(pk, p, m) {
		t.Fatalf("single-bit mutant accepted: %s bit %d; pk=%x m=%x pi=%x (transport=%v)", what, bit, pk, m, pi, viaTransport)
	}
}

// adversarial classes around one honest proof; returns the number of accepted torsion-shifted proofs.
func adversarial(t *rapid.T, kp keyPair, m, pi []byte, js []int, salt []byte, in stakeIn) (accepted int, firstAdv []byte) {
	for _, j := range js {
		ap, nonces := advProve(kp, m, j, salt, 64)
		if ap == nil {
			stats.Class("adv_torsion:no_nonce_found_in_64")
			continue
		}
		stats.Class(fmt.Sprintf("adv_torsion:order%d_built", torsOrd[j]))
		stats.Count("adv_nonces_tried", int64(nonces))
		for _, form := range [][]byte{ap, transport(t, ap)} {
			if !verify(kp.pk, form, m) {
				stats.Class("adv_torsion:rejected")
				continue
			}
			stats.Class(fmt.Sprintf("adv_torsion:order%d_accepted", torsOrd[j]))
			if firstAdv == nil {
				firstAdv = ap
			}
			accepted++
			checkUniqueness(t, fmt.Sprintf("Gamma+T(order %d)", torsOrd[j]), form, pi, j)
			checkQualification(t, form, in, true)
			checkAltEncodings(t, kp, m, form, pi)
		}
	}
	// non-reduced s: s + k*l, as long as it fits into 32 bytes. Acceptance is not asserted.
	s := fromLE(pi[48:80])
	for k := int64(1); k <= 15; k++ {
		s2 := new(big.Int).Add(s, new(big.Int).Mul(groupL, big.NewInt(k)))
		if s2.Cmp(two256) >= 0 {
			break
		}
		if k != 1 && k != 7 && k != 14 {
			continue
		}
		e := le32(s2)
		p2 := append(append([]byte{}, pi[:48]...), e[:]...)
		if verify(kp.pk, p2, m) {
			stats.Class("nonreduced_s:accepted")
			checkUniqueness(t, "s+k*l", p2, pi, 0)
		} else {
			stats.Class("nonreduced_s:rejected")
		}
	}
	// over-long encodings. Acceptance is not asserted.
	extra := rapid.SliceOfN(rapid.Byte(), 1, 40).Draw(t, "extra")
	for _, ol := range []struct {
		name string
		p2   []byte
	}{
		{"overlong:suffix", append(append([]byte{}, pi...), extra...)},
		{"overlong:zero_prefix", append([]byte{0}, pi...)},
		{"overlong:prefix", append(append([]byte{}, extra...), pi...)},
	} {
		name, p2 := ol.name, ol.p2
		for fi, form := range [][]byte{p2, new(big.Int).SetBytes(p2).Bytes()} {
			if verify(kp.pk, form, m) {
				stats.Class(fmt.Sprintf("%s:accepted(form%d)", name, fi))
				checkUniqueness(t, name, form, pi, 0)
			} else {
				stats.Class(fmt.Sprintf("%s:rejected(form%d)", name, fi))
			}
		}
	}
	return
}

// ------------------------------------------------------------------------------------------
// Test 1: many keys, light per-key work

func TestHonestAndAdversarialProofs(t *testing.T) {
	stats.Check(t, 260, 2500, func(t *rapid.T) {
		kp := genKey(t)
		m := genMsg().Draw(t, "m")
		pi, carried := honestBasics(t, kp, m)
		lz := leadingZeros(pi)

		// single-bit mutants: a drawn sample here (the exhaustive sweep is in TestLeadingZeroProofs)
		via := rapid.Bool().Draw(t, "mutantsViaTransport")
		for _, b := range rapid.SliceOfNDistinct(rapid.IntRange(0, 639), 24, 24, rapid.ID[int]).Draw(t, "proofBits") {
			rejectMutant(t, "proof", b, kp.pk, flipBit(pi, b), m, via)
		}
		for _, b := range rapid.SliceOfNDistinct(rapid.IntRange(0, 255), 12, 12, rapid.ID[int]).Draw(t, "pkBits") {
			rejectMutant(t, "public key", b, vrf.VRFPublicKey(flipBit(kp.pk, b)), pi, m, via)
		}
		if len(m) > 0 {
			n := 12
			if 8*len(m) < n {
				n = 8 * len(m)
			}
			for _, b := range rapid.SliceOfNDistinct(rapid.IntRange(0, 8*len(m)-1), n, n, rapid.ID[int]).Draw(t, "msgBits") {
				rejectMutant(t, "message", b, kp.pk, pi, flipBit(m, b), via)
			}
		}

		in := genLikelyStake().Draw(t, "stake")
		ok, qn, _ := checkQualification(t, pi, in, true)
		ok2, qn2, _ := checkQualification(t, carried, in, true)
		if ok != ok2 || qn != qn2 {
			t.Fatalf("qualification differs before/after transport: (%v,%d) vs (%v,%d) pi=%x %v", ok, qn, ok2, qn2, pi, in)
		}
		checkAltEncodings(t, kp, m, pi, pi)

		j := rapid.IntRange(1, 7).Draw(t, "torsionIndex")
		acc, adv := adversarial(t, kp, m, pi, []int{j}, nil, in)

		key := ""
		classes := []string{"light", fmt.Sprintf("msglen:%s", lenClass(len(m)))}
		if acc > 0 {
			key = "adv:" + hex.EncodeToString(adv[:16])
			classes = append(classes, "nontrivial:adversarial_accepted")
		}
		if lz > 0 {
			key = "lz:" + hex.EncodeToString(pi[:16])
			classes = append(classes, "nontrivial:leading_zero_proof")
		}
		if ok {
			classes = append(classes, fmt.Sprintf("honest_qualifies:qn%d", qn))
		} else {
			classes = append(classes, "honest_not_qualified")
		}
		stats.Case(key, classes...)
		stats.Sample(map[string]string{"test": "light", "pk": short(kp.pk), "m": short(m), "pi": short(pi), "torsion_order": fmt.Sprint(torsOrd[j]),
			"adv_accepted": fmt.Sprint(acc), "stake": in.String(), "ok_qn": fmt.Sprintf("%v/%d", ok, qn)})
	})
}

func lenClass(n int) string {
	switch {
	case n == 0:
		return "0"
	case n < 8:
		return "1-7"
	case n <= 32:
		return "8-32"
	default:
		return "33-100"
	}
}

// ------------------------------------------------------------------------------------------
// Test 2: proofs whose encoding starts with a zero byte; exhaustive single-bit sweep; all
// torsion shifts; proposer -> header -> wire -> verifier end to end.

func TestLeadingZeroProofs(t *testing.T) {
	stats.Check(t, 40, 200, func(t *rapid.T) { deepCase(t, 1, 6000) })
}

// Thorough tier only: one proof per shard whose encoding starts with TWO zero bytes (1 in 65536).
func TestTwoLeadingZeroBytes(t *testing.T) {
	if !stats.Thorough() {
		t.Skip("thorough tier only (expected 65536 proofs per hit)")
	}
	stats.Check(t, 1, 1, func(t *rapid.T) { deepCase(t, 2, 300000) })
}

func deepCase(t *rapid.T, zerosWanted, maxSearch int) {
	{
		kp := genKey(t)
		random := genMsg().Draw(t, "random") // plays the role of preBH.Random
		deltaSecs := rapid.SampledFrom([]int{0, 1, 2, 3, 5}).Draw(t, "secondsSincePre")
		castTime := t0.Add(time.Duration(deltaSecs) * time.Second)
		delta := logical.CalDeltaByTime(castTime, t0)

		// draw messages until the proof encoding starts with a zero byte (expected 256 tries)
		var m, rnd []byte
		found := false
		tries := 0
		for ctr := 0; ctr < maxSearch; ctr++ {
			rnd = append(append([]byte{}, random...), byte(ctr), byte(ctr>>8), byte(ctr>>16))
			m = logical.VerifGenVrfMsg(rnd, delta)
			p, err := vrf.VRFGenProve(kp.pk, kp.sk, m)
			if err != nil {
				t.Fatalf("VRFGenProve: %v", err)
			}
			tries++
			if leadingZeros(p) >= zerosWanted {
				found = true
				break
			}
		}
		stats.Count("leading_zero_search_proofs", int64(tries))
		pi, carried := honestBasics(t, kp, m)
		lz := leadingZeros(pi)
		if found && len(carried) >= ed25519.ProveSize {
			t.Fatalf("leading-zero proof %x did not shrink in transport", pi)
		}

		// exhaustive single-bit sweep: all 640 proof bits, all 256 key bits, all message bits (<=128) or 96 drawn ones
		via := rapid.Bool().Draw(t, "mutantsViaTransport")
		for b := 0; b < 640; b++ {
			rejectMutant(t, "proof", b, kp.pk, flipBit(pi, b), m, via)
		}
		for b := 0; b < 256; b++ {
			rejectMutant(t, "public key", b, vrf.VRFPublicKey(flipBit(kp.pk, b)), pi, m, via)
		}
		msgBits := 0
		if 8*len(m) <= 128 {
			for b := 0; b < 8*len(m); b++ {
				rejectMutant(t, "message", b, kp.pk, pi, flipBit(m, b), via)
				msgBits++
			}
		} else {
			for _, b := range rapid.SliceOfNDistinct(rapid.IntRange(0, 8*len(m)-1), 96, 96, rapid.ID[int]).Draw(t, "msgBits") {
				rejectMutant(t, "message", b, kp.pk, pi, flipBit(m, b), via)
				msgBits++
			}
		}
		stats.Count("single_bit_mutants_rejected", int64(640+256+msgBits))

		// proposer -> header -> wire -> verifier, with the real genProve / verifyBlockVRF
		in := genLikelyStake().Draw(t, "stake")
		fh := forkHeight()
		if in.height == fh { // proposer evaluates the rule at the base height, the verifier at base+1: keep both on one side of the fork
			in.height = fh + 1
		}
		base := headerWith(big.NewInt(1), in.height, 17, t0)
		base.Random = rnd
		miner := &model.SelfMinerInfo{VrfSK: kp.sk}
		miner.VrfPK = kp.pk
		miner.WorkingMiners = in.wm
		gp, gqn, gerr := logical.VerifGenProve(miner, base, in.height+1, castTime, in.ts)
		ok, qn, _ := checkQualification(t, pi, in, true)
		if (gerr == nil) != ok || (ok && (gqn != qn || !bytes.Equal(gp, pi))) {
			t.Fatalf("genProve (%x,%d,%v) disagrees with prove+validateProve (%x,%v,%d)", gp, gqn, gerr, pi, ok, qn)
		}
		e2e := "e2e:proposer_not_qualified"
		if ok {
			bh := headerWith(gp.Big(), in.height+1, base.TotalQN+gqn, castTime)
			got := transportHeader(t, bh)
			castor := &model.MinerInfo{VrfPK: kp.pk, WorkingMiners: in.wm}
			vin := in
			vin.height = in.height + 1
			vok, _, _ := checkQualification(t, got.ProveValue.Bytes(), vin, true)
			accepted, err := logical.VerifVerifyBlockVRF(got, base, castor, in.ts)
			if !vok {
				t.Fatalf("verifier-side rule disqualifies the carried proof that qualified at the proposer: %x %v", pi, in)
			}
			if !accepted {
				t.Fatalf("verifyBlockVRF rejects an honest block after transport: %v; proof %x carried as %d bytes; %v qn=%d", err, pi, len(got.ProveValue.Bytes()), in, gqn)
			}
			e2e = fmt.Sprintf("e2e:accepted_qn%d", gqn)
			// a wrong TotalQN must be refused
			got.TotalQN++
			if acc2, _ := logical.VerifVerifyBlockVRF(got, base, castor, in.ts); acc2 {
				t.Fatalf("verifyBlockVRF accepts TotalQN off by one")
			}
		}

		checkAltEncodings(t, kp, m, pi, pi)
		acc, _ := adversarial(t, kp, m, pi, []int{1, 2, 3, 4, 5, 6, 7}, []byte{1}, in)

		key := ""
		classes := []string{"deep", e2e, fmt.Sprintf("delta:%d", delta), fmt.Sprintf("leading_zero_bytes:%d", lz)}
		if lz > 0 {
			key = "lz:" + hex.EncodeToString(pi[:16])
			classes = append(classes, "nontrivial:leading_zero_proof")
		} else if acc > 0 {
			key = "adv:" + hex.EncodeToString(pi[:16])
		}
		if acc > 0 {
			classes = append(classes, "nontrivial:adversarial_accepted")
		}
		stats.Case(key, classes...)
		stats.Sample(map[string]string{"test": "leading-zero", "pk": short(kp.pk), "m": short(m), "pi": short(pi), "carried_len": fmt.Sprint(len(carried)),
			"search_tries": fmt.Sprint(tries), "adv_accepted_forms": fmt.Sprint(acc), "stake": in.String(), "e2e": e2e, "via_transport": fmt.Sprint(via)})
	}
}

// ------------------------------------------------------------------------------------------
// Test 3: the qualification rule on synthetic Gamma bytes against the exact rational rule

func TestQualificationRule(t *testing.T) {
	stats.Check(t, 6000, 60000, func(t *rapid.T) {
		in := genStake().Draw(t, "stake")
		if in.ts == 0 {
			in.ts = 1
		}
		// value: random / boundary of a qn step / extremes
		var val *big.Int
		kind := rapid.SampledFrom([]string{"random", "step", "step", "step", "prefix"}).Draw(t, "valkind")
		switch kind {
		case "random":
			val = new(big.Int).SetBytes(rapid.SliceOfN(rapid.Byte(), 32, 32).Draw(t, "val"))
		case "prefix":
			n := rapid.IntRange(1, 32).Draw(t, "n")
			b := bytes.Repeat([]byte{rapid.SampledFrom([]byte{0x00, 0xff}).Draw(t, "fill")}, n)
			b = append(b, rapid.SliceOfN(rapid.Byte(), 32-n, 32-n).Draw(t, "rest")...)
			val = new(big.Int).SetBytes(b)
		default:
			// around stakeRatio*j/MaxQN (exact, from the reference), offset by 0, +-small or +-2^k
			ref := refQualify(make([]byte, 32), in)
			val = big.NewInt(0)
			if ref.precond {
				j := rapid.IntRange(1, model.Param.MaxQN).Draw(t, "j")
				sr := exactStakeRatio(in)
				if sr.Cmp(big.NewRat(1, 1)) > 0 {
					sr = big.NewRat(1, 1)
				}
				x := new(big.Rat).Mul(sr, big.NewRat(int64(j), int64(model.Param.MaxQN)))
				x.Mul(x, new(big.Rat).SetInt(two256m1))
				val = new(big.Int).Quo(x.Num(), x.Denom())
				off := big.NewInt(int64(rapid.IntRange(-3, 3).Draw(t, "off"))) // inside the rounding window
				if rapid.IntRange(0, 3).Draw(t, "reloff") != 0 {
					// relative offset 2^-r: r < 40 is outside the window (exact agreement asserted), r >= 40 inside
					off = new(big.Int).Rsh(val, uint(rapid.IntRange(6, 56).Draw(t, "r")))
					if rapid.Bool().Draw(t, "neg") {
						off.Neg(off)
					}
				}
				val.Add(val, off)
			}
		}
		if val.Sign() < 0 {
			val.SetInt64(0)
		}
		if val.Cmp(two256m1) > 0 {
			val.Set(two256m1)
		}
		g := make([]byte, 32)
		val.FillBytes(g)
		// restrict to Gamma encodings the decoder accepts: nudge the two least significant bytes of the
		// big-endian value (they hold the top of y and the sign bit; relative change < 2^-240)
		decodable := false
		for i := 0; i < 64 && !decodable; i++ {
			var a [32]byte
			copy(a[:], g)
			if ed25519.VerifStringToPoint(new(point), a) {
				decodable = true
				break
			}
			g[31] ^= byte(i*37 + 1)
			g[30] ^= byte(i)
		}
		pi := append(append([]byte{}, g...), rapid.SliceOfN(rapid.Byte(), 48, 48).Draw(t, "cs")...)
		if rapid.IntRange(0, 9).Draw(t, "carried") == 0 {
			pi = new(big.Int).SetBytes(pi).Bytes()
		}
		ok, qn, ref := checkQualification(t, pi, in, false)
		key := ""
		if ref.precond && (ok || ref.nearStep) {
			key = fmt.Sprintf("q:%x:%v", g[:12], in)
		}
		cl := []string{"qual", "qual:value_" + kind, fmt.Sprintf("qual:decodable_%v", decodable)}
		if in.wm != 0 && in.height > forkHeight() {
			cl = append(cl, "qual:difficulty_fork_active")
		}
		if ok {
			cl = append(cl, fmt.Sprintf("qual:ok_qn%d", qn))
		} else if ref.precond {
			cl = append(cl, "qual:not_ok")
		}
		if ref.topShape && ok {
			cl = append(cl, "qual:top_of_range_and_ok")
		}
		stats.Case(key, cl...)
		stats.Sample(map[string]string{"test": "qualification", "gamma": short(g), "stake": in.String(), "impl": fmt.Sprintf("%v/%d", ok, qn),
			"exact": fmt.Sprintf("%v/%d window=%v", ref.ok, ref.qn, ref.window)})
	})
}

func exactStakeRatio(in stakeIn) *big.Rat {
	par := model.Param
	ts := new(big.Int).SetUint64(in.ts)
	diff := big.NewInt(1)
	if in.wm != 0 && in.height > forkHeight() {
		diff = new(big.Int).Quo(ts, new(big.Int).SetUint64(in.wm))
	}
	pp := new(big.Int).Quo(new(big.Int).Mul(ts, big.NewInt(int64(par.PotentialProposalIndex))), big.NewInt(100))
	if pp.Cmp(new(big.Int).SetUint64(par.PotentialProposal)) < 0 {
		pp.SetUint64(par.PotentialProposal)
	}
	if pp.Cmp(new(big.Int).SetUint64(par.PotentialProposalMax)) > 0 {
		pp.SetUint64(par.PotentialProposalMax)
	}
	return new(big.Rat).SetFrac(new(big.Int).Mul(diff, pp), ts)
}

// ------------------------------------------------------------------------------------------
// Test 4: byte level - any 80-byte string with k leading zero bytes is restored by the two
// paddings after transport (covers k >= 2, which honest proofs reach once in 65536)

func TestZeroPaddingRestoresCarriedBytes(t *testing.T) {
	stats.Check(t, 3000, 30000, func(t *rapid.T) {
		k := rapid.IntRange(0, 79).Draw(t, "zeros")
		if rapid.IntRange(0, 3).Draw(t, "fewzeros") != 0 {
			k = rapid.IntRange(0, 4).Draw(t, "k")
		}
		rest := rapid.SliceOfN(rapid.Byte(), 80-k, 80-k).Draw(t, "rest")
		if rest[0] == 0 {
			rest[0] = 1
		}
		pi := append(make([]byte, k), rest...)
		carried := transport(t, pi)
		if len(carried) != 80-k {
			t.Fatalf("carried length %d, want %d", len(carried), 80-k)
		}
		a := logical.VerifTryZeroPadding(vrf.VRFProve(carried))
		b := ed25519.VerifTryZeroPadding(ed25519.VRFProve(carried))
		if !bytes.Equal(a, pi) || !bytes.Equal(b, pi) {
			t.Fatalf("padding does not restore %x: logical %x ed25519 %x", pi, a, b)
		}
		// the verifier must treat both forms alike (random bytes: both rejected, never a panic)
		pk := rapid.SliceOfN(rapid.Byte(), 32, 32).Draw(t, "pk")
		m := rapid.SliceOfN(rapid.Byte(), 0, 40).Draw(t, "m")
		r1, e1 := vrf.VRFVerify(pk, pi, m)
		r2, e2 := vrf.VRFVerify(pk, carried, m)
		if r1 != r2 || (e1 == nil) != (e2 == nil) {
			t.Fatalf("verifier treats %x and its carried form differently: (%v,%v) vs (%v,%v)", pi, r1, e1, r2, e2)
		}
		key := ""
		if k > 0 {
			key = fmt.Sprintf("pad:%d:%s", k, short(rest))
		}
		stats.Case(key, "padding_bytes", fmt.Sprintf("padding_zeros:%s", zeroClass(k)))
	})
}

func zeroClass(k int) string {
	switch {
	case k == 0:
		return "0"
	case k == 1:
		return "1"
	case k <= 4:
		return "2-4"
	case k <= 31:
		return "5-31"
	default:
		return "32-79"
	}
}

// ------------------------------------------------------------------------------------------
// Probe for the recorded finding F-C16-a (deterministic minimal reproduction)

func probeCase() (keyPair, []byte) {
	seed := sha256.Sum256([]byte("verif-c16-probe"))
	pk, sk, _ := vrf.VRFGenerateKey(bytes.NewReader(seed[:]))
	return keyPair{pk, sk}, []byte("m")
}

func TestProbeF_C16_a(t *testing.T) {
	kp, m := probeCase()
	pi, err := vrf.VRFGenProve(kp.pk, kp.sk, m)
	if err != nil || !verify(kp.pk, pi, m) {
		t.Fatalf("probe setup: honest proof invalid (%v)", err)
	}
	present := false
	what := ""
	for j := 4; j >= 1 && !present; j-- { // order-2 point first
		ap, _ := advProve(kp, m, j, nil, 64)
		if ap != nil && verify(kp.pk, ap, m) && !bytes.Equal(output(ap), output(pi)) {
			present = true
			what = fmt.Sprintf("VRFVerify accepts a second proof for one (pk,m) whose VRFProof2Hash differs: Gamma shifted by the order-%d point %x "+
				"(seed sha256(\"verif-c16-probe\"), m=\"m\"): honest output %x, shifted output %x; up to 8 lottery values per message for the key holder",
				torsOrd[j], torsEnc[j], output(pi), output(ap))
		}
	}
	stats.Probe(t, findingA, "C16", present, what)
}

// Observation (not asserted): the decoder accepts non-canonical encodings because isCanonical
// never returns 0. Recorded in the evidence notes so that a change is visible.
func TestObserveNonCanonicalDecoding(t *testing.T) {
	n, acc := 0, 0
	for y := int64(0); y < 19; y++ {
		for _, sign := range []byte{0, 0x80} {
			e := le32(new(big.Int).Add(big.NewInt(y), fieldP))
			e[31] |= sign
			n++
			if ed25519.VerifStringToPoint(new(point), e) {
				acc++
			}
		}
	}
	var ff [32]byte
	for i := range ff {
		ff[i] = 0xff
	}
	stats.Note("observation_noncanonical_decoding", fmt.Sprintf("stringToPoint accepts %d of the %d encodings with y in [p, 2^255) ; isCanonical(ff*32)=%d; "+
		"no honest or torsion-shifted Gamma met in this run had an alternative encoding (see classes alt_gamma_encoding:*)", acc, n, ed25519.VerifIsCanonical(ff)))
}
