package c16

import (
	"bytes"
	"fmt"
	"sync"
	"testing"

	"pgregory.net/rapid"

	"com.tuntun.rangers/node/src/consensus/vrf"

	"verifharness/internal/stats"
)

// Proposers prove and verifiers check proofs from many goroutines of a node at once (one per message being
// processed), each on its own key, message and proof. A generated set of (key, message) pairs is proved and
// verified from several goroutines at the same time, many times over: every proof must be the one the
// reference prover computes, must verify, must give the reference lottery output, and a proof with one
// flipped bit must be rejected - exactly as when each pair is handled alone.
func TestConcurrentProveVerify(t *testing.T) {
	stats.Check(t, 60, 1500, func(t *rapid.T) {
		n := rapid.IntRange(2, 6).Draw(t, "goroutines")
		type task struct {
			kp      keyPair
			m       []byte
			want    []byte
			out     []byte
			flipped []byte
		}
		var tasks []task
		once := func(k task) string {
			pi, err := vrf.VRFGenProve(k.kp.pk, k.kp.sk, append([]byte{}, k.m...))
			if err != nil {
				return fmt.Sprintf("prove: %v", err)
			}
			if !bytes.Equal(pi, k.want) {
				return fmt.Sprintf("proof %x, reference prover gives %x", []byte(pi), k.want)
			}
			if !verify(k.kp.pk, append([]byte{}, pi...), append([]byte{}, k.m...)) {
				return fmt.Sprintf("honest proof %x rejected", []byte(pi))
			}
			if o := output(pi); !bytes.Equal(o, k.out) {
				return fmt.Sprintf("lottery output %x, reference %x", o, k.out)
			}
			if verify(k.kp.pk, append([]byte{}, k.flipped...), append([]byte{}, k.m...)) {
				return fmt.Sprintf("proof with one flipped bit accepted: %x", k.flipped)
			}
			return ""
		}
		for i := 0; i < n; i++ {
			kp := genKey(t)
			m := genMsg().Draw(t, "msg")
			want := refProve(kp, m)
			k := task{kp: kp, m: m, want: want, flipped: flipBit(want, rapid.IntRange(0, 80*8-1).Draw(t, "flip"))}
			k.out = output(want)
			if why := once(k); why != "" {
				t.Fatalf("alone: key %x msg %x: %s", []byte(kp.pk), m, why)
			}
			tasks = append(tasks, k)
		}
		reps := rapid.SampledFrom([]int{5, 20, 60}).Draw(t, "repetitions")
		var wg sync.WaitGroup
		var mu sync.Mutex
		failure := ""
		start := make(chan struct{})
		for i := range tasks {
			wg.Add(1)
			go func(k task) {
				defer wg.Done()
				defer func() {
					if p := recover(); p != nil {
						mu.Lock()
						failure = fmt.Sprintf("key %x msg %x: panic while %d other goroutines were proving/verifying their own pairs: %v", []byte(k.kp.pk), k.m, n-1, p)
						mu.Unlock()
					}
				}()
				<-start
				for r := 0; r < reps; r++ {
					if why := once(k); why != "" {
						mu.Lock()
						failure = fmt.Sprintf("key %x msg %x: correct alone, but while %d other goroutines were proving/verifying their own pairs (repetition %d): %s", []byte(k.kp.pk), k.m, n-1, r, why)
						mu.Unlock()
						return
					}
				}
			}(tasks[i])
		}
		close(start)
		wg.Wait()
		if failure != "" {
			t.Fatalf("%s", failure)
		}
		stats.Case(fmt.Sprintf("conc|%d|%x", n, tasks[0].want[:8]), "concurrent_prove_verify", fmt.Sprintf("concurrent_goroutines:%d", n), fmt.Sprintf("concurrent_repetitions:%d", reps))
		stats.Count("concurrent_prove_verify_rounds", int64(n*reps))
	})
}
