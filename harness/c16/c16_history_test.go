package c16

// Verdicts are a function of (public key bytes, proof bytes, message bytes) only, at the entry
// points the node really uses: vrf.VRFVerify (called by verifyBlockVRF) and the header path
// (ProveValue as big integer -> verifyBlockVRF). Around honest triples the harness builds
// length-changing relatives (field boundaries moved, zero bytes appended / prepended to each
// field, cross-message pairs, big-integer forms, torsion-shifted proofs), verifies all of them
// several times in a generated interleaving and requires
//   - the same verdict for every occurrence of the same triple, whatever was verified before,
//   - honest triples (also in their carried form, same message) accepted,
//   - every accepted candidate under the honest key to carry the honest lottery output of the
//     message it was accepted for ("verifies for exactly that message" / output uniqueness);
//     a candidate whose output is not the honest one for its message must therefore be rejected.

import (
	"bytes"
	"encoding/hex"
	"fmt"
	"math/big"
	"testing"

	"com.tuntun.rangers/node/src/common/ed25519"
	"com.tuntun.rangers/node/src/consensus/logical"
	"com.tuntun.rangers/node/src/consensus/model"
	"com.tuntun.rangers/node/src/consensus/vrf"
	"pgregory.net/rapid"

	"verifharness/internal/stats"
)

type triple struct {
	label  string
	pk     []byte
	pi     []byte
	m      []byte
	honest bool // must be accepted (honest proof for exactly m under pk, possibly in carried form)
	shift  int  // != 0: built by the torsion-shifting prover (shape of F-C16-a)
}

func (c triple) id() string {
	return fmt.Sprintf("%d:%x|%d:%x|%d:%x", len(c.pk), c.pk, len(c.pi), c.pi, len(c.m), c.m)
}

func (c triple) String() string {
	return fmt.Sprintf("%s pk(%d)=%x pi(%d)=%x m(%d)=%x", c.label, len(c.pk), c.pk, len(c.pi), c.pi, len(c.m), c.m)
}

func cat(parts ...[]byte) []byte {
	var out []byte
	for _, p := range parts {
		out = append(out, p...)
	}
	if out == nil {
		out = []byte{}
	}
	return out
}

func bigForm(pi []byte) []byte { return new(big.Int).SetBytes(pi).Bytes() }

// honestGamma is the honest lottery output for (key, m): x * hashToCurve(m, pk), computed by the harness.
func honestGamma(kp keyPair, m []byte) []byte {
	x, _ := ed25519.VerifExpandSecret(ed25519.PrivateKey(kp.sk))
	h := ed25519.VerifHashToCurve(m, ed25519.PublicKey(kp.pk))
	hp, _ := dec(h)
	g := enc(smul(hp, x))
	return g[:]
}

// relatives builds the length-changing relatives of one honest triple.
func relatives(kp keyPair, pi, m []byte, tag string) []triple {
	pk := []byte(kp.pk)
	var out []triple
	add := func(label string, pk2, pi2, m2 []byte) {
		out = append(out, triple{label: tag + label, pk: pk2, pi: pi2, m: m2})
	}
	// proof/message boundary moved to the right: proof swallows message prefix bytes
	for k := 1; k <= 3 && k <= len(m); k++ {
		add(fmt.Sprintf("proof+msg[:%d]|msg[%d:]", k, k), pk, cat(pi, m[:k]), cat(m[k:]))
	}
	if len(m) > 3 {
		add("proof+msg|empty", pk, cat(pi, m), []byte{})
	}
	// ... and to the left: proof truncated, cut bytes moved to the message front
	for _, k := range []int{1, 2, 3, 16, 48} {
		add(fmt.Sprintf("proof[:%d]|proof[%d:]+msg", 80-k, 80-k), pk, cat(pi[:80-k]), cat(pi[80-k:], m))
	}
	// key/proof boundary moved
	for _, k := range []int{1, 2} {
		add(fmt.Sprintf("key+proof[:%d]|proof[%d:]", k, k), cat(pk, pi[:k]), cat(pi[k:]), m)
		add(fmt.Sprintf("key[:%d]|key[%d:]+proof", 32-k, 32-k), cat(pk[:32-k]), cat(pk[32-k:], pi), m)
	}
	// zero bytes appended / prepended to each of the three fields
	z := []byte{0}
	add("key+00", cat(pk, z), pi, m)
	add("00+key", cat(z, pk), pi, m)
	add("proof+00", pk, cat(pi, z), m)
	add("00+proof", pk, cat(z, pi), m)
	add("msg+00", pk, pi, cat(m, z))
	add("00+msg", pk, pi, cat(z, m))
	add("proof+00|msg+00", pk, cat(pi, z), cat(m, z))
	// a leading-zero proof in carried form combined with boundary moves (same length as a proof again)
	if pi[0] == 0 && len(m) > 0 {
		add("carried+msg[0]|msg[1:]", pk, cat(pi[1:], m[:1]), cat(m[1:]))
		add("carried|msg(other)", pk, cat(pi[1:]), cat(m, z))
	}
	// message truncated / extended without touching the proof
	if len(m) > 0 {
		add("msg[1:]", pk, pi, cat(m[1:]))
		add("msg[:-1]", pk, pi, cat(m[:len(m)-1]))
	}
	return out
}

func TestVerdictsIndependentOfHistory(t *testing.T) {
	stats.Check(t, 150, 1500, func(t *rapid.T) {
		kp := genKey(t)
		m := genMsg().Draw(t, "m")
		if len(m) < 4 && rapid.IntRange(0, 3).Draw(t, "extend") != 0 {
			m = cat(m, rapid.SliceOfN(rapid.Byte(), 4, 8).Draw(t, "more"))
		}
		wantLZ := rapid.IntRange(0, 7).Draw(t, "searchLeadingZero") == 0
		if wantLZ {
			for ctr := 0; ctr < 3000; ctr++ {
				m2 := cat(m, []byte{byte(ctr), byte(ctr >> 8)})
				p, err := vrf.VRFGenProve(kp.pk, kp.sk, m2)
				if err == nil && p[0] == 0 {
					m = m2
					break
				}
			}
		}
		// a second, related message with its own honest proof
		var m2 []byte
		switch rapid.IntRange(0, 4).Draw(t, "m2kind") {
		case 0:
			m2 = cat(m[min(1, len(m)):])
		case 1:
			m2 = cat([]byte{0}, m)
		case 2:
			m2 = cat(m, []byte{0})
		case 3:
			m2 = cat(m, m)
		default:
			m2 = genMsg().Draw(t, "m2")
		}
		prove := func(msg []byte) []byte {
			p, err := vrf.VRFGenProve(kp.pk, kp.sk, msg)
			if err != nil {
				t.Fatalf("VRFGenProve: %v", err)
			}
			return cat(p)
		}
		pi, pi2 := prove(m), prove(m2)
		pk := []byte(kp.pk)

		var cands []triple
		cands = append(cands,
			triple{label: "honest", pk: pk, pi: pi, m: m, honest: true},
			triple{label: "honest(carried)", pk: pk, pi: bigForm(pi), m: m, honest: true},
			triple{label: "honest2", pk: pk, pi: pi2, m: m2, honest: true},
			triple{label: "honest2(carried)", pk: pk, pi: bigForm(pi2), m: m2, honest: true},
		)
		if !bytes.Equal(m, m2) {
			cands = append(cands,
				triple{label: "proof(m)|m2", pk: pk, pi: pi, m: m2},
				triple{label: "proof(m2)|m", pk: pk, pi: pi2, m: m})
		}
		rel := append(relatives(kp, pi, m, ""), relatives(kp, pi2, m2, "2:")...)
		// keep a drawn subset of the relatives (all of them in most cases), plus their big-integer forms
		keepAll := rapid.IntRange(0, 2).Draw(t, "keepAll") != 0
		keep := rapid.SliceOfN(rapid.Bool(), len(rel), len(rel)).Draw(t, "keep")
		for i, c := range rel {
			if !keepAll && !keep[i] {
				continue
			}
			cands = append(cands, c)
			if bf := bigForm(c.pi); !bytes.Equal(bf, c.pi) && len(bf) > 0 {
				cands = append(cands, triple{label: c.label + "(carried)", pk: c.pk, pi: bf, m: c.m})
			}
		}
		j := rapid.IntRange(1, 7).Draw(t, "torsionIndex")
		if ap, _ := advProve(kp, m, j, []byte{2}, 64); ap != nil {
			cands = append(cands, triple{label: fmt.Sprintf("Gamma+T(order %d)", torsOrd[j]), pk: pk, pi: ap, m: m, shift: j})
			if len(m) > 0 {
				cands = append(cands, triple{label: "Gamma+T,proof+msg[:1]|msg[1:]", pk: pk, pi: cat(ap, m[:1]), m: cat(m[1:]), shift: j})
			}
		}
		// de-duplicate identical triples (e.g. m2 == m[1:] makes some relatives coincide); honest wins
		byID := map[string]int{}
		var uniq []triple
		for _, c := range cands {
			if k, ok := byID[c.id()]; ok {
				if c.honest {
					uniq[k].honest = true
				}
				continue
			}
			byID[c.id()] = len(uniq)
			uniq = append(uniq, c)
		}
		cands = uniq

		// schedule: every triple 2-3 times, in a generated order; some occurrences through the header path
		var sched []int
		extra := rapid.SliceOfN(rapid.IntRange(0, 1), len(cands), len(cands)).Draw(t, "thirdVerification")
		for i := range cands {
			n := 2 + extra[i]
			for r := 0; r < n; r++ {
				sched = append(sched, i)
			}
		}
		perm := rapid.Permutation(sched).Draw(t, "order")
		verdicts := make([][]bool, len(cands))
		firstPos := make([]int, len(cands))
		headerUsed := 0
		path := rapid.SliceOfN(rapid.IntRange(0, 3), len(perm), len(perm)).Draw(t, "path(0=header)")
		for pos, i := range perm {
			c := cands[i]
			var v bool
			viaHeader := len(c.pi) > 0 && c.pi[0] != 0 && path[pos] == 0
			if viaHeader {
				// header path: ProveValue is a big integer (so only proofs without leading zero byte keep their
				// bytes), message = preBH.Random (delta 1), totalStake 1 => every output qualifies
				headerUsed++
				okq, qn := logical.VerifValidateProve(vrf.VRFProve(cat(c.pi)), 5, 0, 1)
				if !okq {
					t.Fatalf("validateProve with totalStake=1 does not qualify %s", c)
				}
				base := headerWith(big.NewInt(1), 5, 17, t0)
				base.Random = cat(c.m)
				bh := headerWith(new(big.Int).SetBytes(c.pi), 6, 17+qn, t0)
				got := transportHeader(t, bh)
				castor := &model.MinerInfo{VrfPK: vrf.VRFPublicKey(cat(c.pk))}
				v, _ = logical.VerifVerifyBlockVRF(got, base, castor, 1)
			} else {
				v = verify(vrf.VRFPublicKey(cat(c.pk)), cat(c.pi), cat(c.m))
			}
			if len(verdicts[i]) == 0 {
				firstPos[i] = pos
			}
			verdicts[i] = append(verdicts[i], v)
		}

		accepted, rejected, shapes := 0, 0, map[string]bool{}
		for i, c := range cands {
			vs := verdicts[i]
			for _, v := range vs[1:] {
				if v != vs[0] {
					t.Fatalf("verdict depends on what was verified before: %s got %v at its successive verifications (first at position %d of %d)", c, vs, firstPos[i], len(perm))
				}
			}
			v := vs[0]
			if c.honest && !v {
				t.Fatalf("honest triple rejected (whatever was rejected before): %s", c)
			}
			if v {
				accepted++
			} else {
				rejected++
			}
			if !c.honest {
				stats.Class(fmt.Sprintf("relative:%s:%s", labelClass(c.label), map[bool]string{true: "accepted", false: "rejected"}[v]))
				shapes[labelClass(c.label)] = true
			}
			if v && bytes.Equal(c.pk, pk) {
				// accepted under the honest key: must carry the honest output of the message it was accepted for
				ref := cat(honestGamma(kp, c.m), make([]byte, 48))
				checkUniqueness(t, "accepted relative ["+c.String()+"]", c.pi, ref, c.shift)
			}
		}
		key := fmt.Sprintf("hist:%s:%d", hex.EncodeToString(pi[:12]), len(perm))
		cl := []string{"history", fmt.Sprintf("history:schedule_len_%s", schedClass(len(perm)))}
		if pi[0] == 0 || pi2[0] == 0 {
			cl = append(cl, "history:with_leading_zero_proof")
		}
		stats.Count("history_verifications", int64(len(perm)))
		stats.Count("history_verifications_via_header_path", int64(headerUsed))
		stats.Count("history_relatives_rejected", int64(rejected))
		stats.Case(key, cl...)
		stats.Sample(map[string]string{"test": "history", "pk": short(pk), "m": short(m), "m2": short(m2), "triples": fmt.Sprint(len(cands)),
			"verifications": fmt.Sprint(len(perm)), "accepted": fmt.Sprint(accepted), "rejected": fmt.Sprint(rejected), "via_header": fmt.Sprint(headerUsed)})
	})
}

func labelClass(l string) string {
	if len(l) > 2 && l[:2] == "2:" {
		l = l[2:]
	}
	return l
}

func schedClass(n int) string {
	switch {
	case n < 40:
		return "<40"
	case n < 100:
		return "40-99"
	default:
		return ">=100"
	}
}
