package c16

// Message-length axis: "for every message" and "flipping any single bit of the message makes
// verification fail". Hash-to-curve hashes suite||0x01||pk||m, so block boundaries of the hash
// (and any buffer an implementation may use) sit at message lengths k*64 - small header. Each
// case sweeps EVERY message length 0..L (L = 400 in the quick tier, 1000 in thorough) with a
// drawn key and drawn message content, through vrf.VRFVerify:
//   honest proof verifies, also after big-integer/header transport; prove is deterministic;
//   a bit flipped in the first byte, in a middle byte and each of the 8 bits of the last byte,
//   the message with its last byte cut off, and with one byte (00 / drawn) appended: rejected;
//   the message with another last byte has a different proof and a different lottery output.

import (
	"bytes"
	"fmt"
	"testing"

	"com.tuntun.rangers/node/src/consensus/vrf"
	"pgregory.net/rapid"

	"verifharness/internal/stats"
)

func sweepMax() int {
	if stats.Thorough() {
		return 1000
	}
	return 400
}

func TestMessageLengthSweep(t *testing.T) {
	stats.Note("message_length_sweep", "every message length 0..400 bytes in every quick run (0..1000 in thorough); key and content are drawn, only the length axis is enumerated")
	stats.Check(t, 2, 2, func(t *rapid.T) {
		kp := genKey(t)
		L := sweepMax()
		base := rapid.SliceOfN(rapid.Byte(), L+8, L+8).Draw(t, "content")
		switch rapid.IntRange(0, 3).Draw(t, "fill") {
		case 0:
			for i := range base {
				base[i] = 0
			}
		case 1:
			for i := range base {
				base[i] = 0xff
			}
		}
		bitFirst := rapid.IntRange(0, 7).Draw(t, "bitInFirstByte")
		bitMid := rapid.IntRange(0, 7).Draw(t, "bitInMiddleByte")
		appendByte := rapid.Byte().Draw(t, "appendedByte")
		lastXor := byte(rapid.IntRange(1, 255).Draw(t, "lastByteXor"))
		prove := func(msg []byte) []byte {
			p, err := vrf.VRFGenProve(kp.pk, kp.sk, msg)
			if err != nil {
				t.Fatalf("VRFGenProve(len %d): %v", len(msg), err)
			}
			return cat(p)
		}
		mutants := 0
		reject := func(what string, n int, pi, m2 []byte) {
			mutants++
			if verify(kp.pk, pi, m2) {
				t.Fatalf("message length %d: proof still verifies for %s; pk=%x proof=%x changed message=%x", n, what, kp.pk, pi, m2)
			}
		}
		for n := 0; n <= L; n++ {
			off := n % 8
			m := cat(base[off : off+n])
			pi := prove(m)
			if again := prove(cat(m)); !bytes.Equal(pi, again) {
				t.Fatalf("message length %d: proof generation not deterministic", n)
			}
			if !verify(kp.pk, pi, m) {
				t.Fatalf("message length %d: honest proof rejected; pk=%x m=%x pi=%x", n, kp.pk, m, pi)
			}
			if carried := transport(t, pi); !verify(kp.pk, carried, m) {
				t.Fatalf("message length %d: honest proof rejected after header transport; pk=%x m=%x pi=%x", n, kp.pk, m, pi)
			}
			if n > 0 {
				reject(fmt.Sprintf("bit %d of the first byte flipped", bitFirst), n, pi, flipBit(m, bitFirst))
				reject(fmt.Sprintf("bit %d of middle byte %d flipped", bitMid, n/2), n, pi, flipBit(m, 8*(n/2)+bitMid))
				for b := 0; b < 8; b++ {
					reject(fmt.Sprintf("bit %d of the last byte flipped", b), n, pi, flipBit(m, 8*(n-1)+b))
				}
				reject("the last byte cut off", n, pi, cat(m[:n-1]))
				// another last byte: different proof, different output, and no cross acceptance
				m2 := cat(m)
				m2[n-1] ^= lastXor
				pi2 := prove(m2)
				if bytes.Equal(pi2[:32], pi[:32]) {
					t.Fatalf("message length %d: two messages differing only in the last byte (%02x vs %02x) have the same lottery output %x; pk=%x m=%x", n, m[n-1], m2[n-1], pi[:32], kp.pk, m)
				}
				reject("its last byte replaced (proof of the original)", n, pi, m2)
				reject("its last byte replaced (proof of the variant against the original)", n, pi2, m)
			}
			reject("a 00 byte appended", n, pi, cat(m, []byte{0}))
			reject(fmt.Sprintf("byte %02x appended", appendByte), n, pi, cat(m, []byte{appendByte}))
			stats.NonTrivialOnly(fmt.Sprintf("msglen:%d:%x", n, kp.pk[:6]))
			stats.Class("msglen_sweep:" + sweepClass(n))
		}
		stats.Count("msglen_sweep_lengths", int64(L+1))
		stats.Count("msglen_sweep_message_mutants_rejected", int64(mutants))
		stats.Case(fmt.Sprintf("sweep:%x", kp.pk[:8]), "msglen_sweep_case")
		stats.Sample(map[string]string{"test": "message-length sweep", "pk": short(kp.pk), "lengths": fmt.Sprintf("0..%d", L), "mutants_rejected": fmt.Sprint(mutants)})
	})
}

func sweepClass(n int) string {
	lo := n / 64 * 64
	return fmt.Sprintf("len_%03d-%03d", lo, lo+63)
}
