package c19

import (
	"bytes"
	"crypto/sha256"
	"encoding/hex"
	"fmt"
	"os"
	"strings"
	"sync"
	"testing"
	"time"

	"com.tuntun.rangers/node/src/common"
	"com.tuntun.rangers/node/src/core"
	"com.tuntun.rangers/node/src/middleware"
	"com.tuntun.rangers/node/src/middleware/db"
	"com.tuntun.rangers/node/src/middleware/mysql"
	"com.tuntun.rangers/node/src/middleware/types"
	"com.tuntun.rangers/node/src/service"
	"pgregory.net/rapid"

	"verifharness/internal/boot"
	"verifharness/internal/stats"
)

const (
	findingA = "F-C19-a" // remove leaves stale height-index entries at/above the count
	findingB = "F-C19-b" // save/remove are four independent writes: a crash between them is not recovered
)

func TestMain(m *testing.M) {
	stats.SetRule("history = 6-26 operations on the group chain of a FRESH booted node: add (valid: PreGroup = last id, Parent = a listed group, fresh id; " +
		"re-add of a removed group whose links fit; invalid: wrong predecessor, unknown parent, duplicate id, nil), remove-last (the fork switch's remove), " +
		"remove-last + add of a different group at the same height, the node's own fork-switch rollback (removeFromCommonAncestor to an ancestor 0-4 groups below the tip, " +
		"then 0-3 adds of a different branch), a whole group fork switch (groupChainFork: receive a generated branch, verify on fork, triggerOnChain, destroy; branch valid / " +
		"with a parent among the rolled-back groups / with a broken predecessor link), clean restart, crash at the n-th store write inside an add / a remove / a rollback / a " +
		"fork switch followed by restart (a multi-step operation must leave one of its sequential intermediate chains), and a failure of the secondary (sqlite) group index " +
		"at a generated DeleteGroup call inside a rollback / fork switch over 1-4 heights (if the node panics it is restarted like after a crash; either way the chain must " +
		"be one of the operation's sequential intermediate chains, live and after restart). " +
		"After every operation the whole observable state (LastGroup, Count, predecessor walk, Iterator, height index up to count+3, by-id lookups of listed and " +
		"removed groups, GetSyncGroupsById / GetSyncGroupsByHeight) is compared with a model slice. non-trivial = history with >=1 remove followed later by an " +
		"add of a different group; distinct by the operation trace. Second family 'two concurrent group-chain operations': AddGroup(X) (valid next / parent = last / " +
		"wrong predecessor / predecessor = second last / unknown parent) runs in a goroutine and is parked inside the consensus CheckGroup call (the point where a node " +
		"spends time outside any lock) while Y (add of a sibling, of the same group, of a child of X, remove-last, remove + add of a different group) runs to completion; " +
		"X is released and joined; results and store must equal SOME sequential order of X and Y's steps, also after a restart. non-trivial there = X was parked and Y " +
		"moved the tip meanwhile; distinct by (chain length, X kind, Y kind) sequence")
	stats.Assume("consensus CheckGroup is stubbed to true (group signature / membership validity is C13-C16's subject); group ids are 32-byte values as produced by consensus")
	stats.Assume("crash model: a prefix of whole LevelDB write operations reaches the disk (LevelDB's own atomicity/ordering trusted); the sqlite group index is a derived cache and not asserted")
	stats.Assume("concurrency: only the interleaving 'one AddGroup sits in CheckGroup while one other add/remove sequence completes' is explored (the harness owns it through the stub helper's hook); other schedules are not")
	stats.Main(m, "C19")
}

// ---------------------------------------------------------------- model

// mgroup is the model's own record of a group (never aliased with what the chain holds).
type mgroup struct {
	name    string
	id      []byte
	pre     []byte
	parent  []byte
	hash    common.Hash
	extends string
	create  uint64
	members [][]byte
	pubkey  []byte
	cbh     []byte // CreateBlockHash: must name a block the node has (the fork path looks it up)
}

// createBlockHash is the hash of the genesis block of the booted node (the same in every boot).
var createBlockHash = []byte{1, 2, 3}

type model struct {
	list    []*mgroup       // genesis first
	absent  []*mgroup       // groups that were removed (or never got on chain) and are not listed now
	dirty   map[uint64]bool // heights the known defect F-C19-a may have left stale (only used when it is listed as known)
	masked  int             // number of assertions skipped because of dirty heights
	genesis int             // number of genesis groups (never removed)
}

func (m *model) last() *mgroup { return m.list[len(m.list)-1] }

func (m *model) clone() *model {
	c := &model{genesis: m.genesis, masked: m.masked, dirty: map[uint64]bool{}}
	c.list = append(c.list, m.list...)
	c.absent = append(c.absent, m.absent...)
	for k, v := range m.dirty {
		c.dirty[k] = v
	}
	return c
}

func (m *model) listed(id []byte) bool {
	for _, g := range m.list {
		if bytes.Equal(g.id, id) {
			return true
		}
	}
	return false
}

func (m *model) dropAbsent(id []byte) {
	out := m.absent[:0:0]
	for _, g := range m.absent {
		if !bytes.Equal(g.id, id) {
			out = append(out, g)
		}
	}
	m.absent = out
}

func (m *model) add(g *mgroup) {
	m.dropAbsent(g.id)
	delete(m.dirty, uint64(len(m.list)))
	m.list = append(m.list, g)
}

func (m *model) removeLast() *mgroup {
	n := len(m.list)
	g := m.list[n-1]
	m.list = m.list[:n-1]
	m.dropAbsent(g.id)
	m.absent = append(m.absent, g)
	// the shape of F-C19-a: remove writes index[count] and leaves index[count-1] behind
	m.dirty[uint64(n-1)] = true
	m.dirty[uint64(n)] = true
	return g
}

func (m *model) names() string {
	var s []string
	for _, g := range m.list {
		s = append(s, g.name)
	}
	return strings.Join(s, ",")
}

func short(b []byte) string {
	if len(b) == 0 {
		return "<empty>"
	}
	h := hex.EncodeToString(b)
	if len(h) > 10 {
		h = h[:10]
	}
	return h
}

// newGroup makes a fresh model group. seq makes id and header unique.
func newGroup(seq int, pre, parent []byte) *mgroup {
	g := &mgroup{
		name:    fmt.Sprintf("g%d", seq),
		pre:     append([]byte(nil), pre...),
		parent:  append([]byte(nil), parent...),
		extends: fmt.Sprintf("verif-%d", seq),
		create:  uint64(10 + seq),
		members: [][]byte{{byte(seq), 1}, {byte(seq), 2}, {byte(seq), 3}},
		pubkey:  []byte{0xaa, byte(seq)},
		cbh:     append([]byte(nil), createBlockHash...),
	}
	hdr := g.header()
	g.hash = hdr.GenHash()
	id := sha256.Sum256(append([]byte("c19-group-id"), g.hash.Bytes()...))
	g.id = id[:]
	return g
}

func (g *mgroup) header() *types.GroupHeader {
	return &types.GroupHeader{
		Parent:          append([]byte(nil), g.parent...),
		PreGroup:        append([]byte(nil), g.pre...),
		CreateBlockHash: append([]byte(nil), g.cbh...),
		BeginTime:       time.Date(2024, 5, 1, 0, 0, 0, 0, time.UTC),
		CreateHeight:    g.create,
		ReadyHeight:     g.create + 5,
		Extends:         g.extends,
	}
}

// wire builds a fresh types.Group (deep copy) to hand to the chain.
func (g *mgroup) wire() *types.Group {
	hdr := g.header()
	hdr.Hash = g.hash
	var mem [][]byte
	for _, x := range g.members {
		mem = append(mem, append([]byte(nil), x...))
	}
	return &types.Group{
		Header:    hdr,
		Id:        append([]byte(nil), g.id...),
		PubKey:    append([]byte(nil), g.pubkey...),
		Signature: []byte{9, 9},
		Members:   mem,
	}
}

func fromChain(name string, g *types.Group) *mgroup {
	m := &mgroup{name: name, id: append([]byte(nil), g.Id...), pubkey: append([]byte(nil), g.PubKey...)}
	if g.Header != nil {
		m.pre = append([]byte(nil), g.Header.PreGroup...)
		m.parent = append([]byte(nil), g.Header.Parent...)
		m.hash = g.Header.Hash
		m.extends = g.Header.Extends
		m.create = g.Header.CreateHeight
	}
	for _, x := range g.Members {
		m.members = append(m.members, append([]byte(nil), x...))
	}
	return m
}

// same compares what the chain returned with the model record.
func same(got *types.Group, want *mgroup, height int) error {
	if got == nil {
		return fmt.Errorf("got no group, want %s", want.name)
	}
	if got.Header == nil {
		return fmt.Errorf("group without header, want %s", want.name)
	}
	switch {
	case !bytes.Equal(got.Id, want.id):
		return fmt.Errorf("got group id %s, want %s (id %s)", short(got.Id), want.name, short(want.id))
	case !bytes.Equal(got.Header.PreGroup, want.pre):
		return fmt.Errorf("%s: predecessor link %s, want %s", want.name, short(got.Header.PreGroup), short(want.pre))
	case !bytes.Equal(got.Header.Parent, want.parent):
		return fmt.Errorf("%s: parent %s, want %s", want.name, short(got.Header.Parent), short(want.parent))
	case got.Header.Hash != want.hash:
		return fmt.Errorf("%s: header hash differs", want.name)
	case got.Header.Extends != want.extends || got.Header.CreateHeight != want.create:
		return fmt.Errorf("%s: header content differs", want.name)
	case !bytes.Equal(got.PubKey, want.pubkey):
		return fmt.Errorf("%s: public key differs", want.name)
	case len(got.Members) != len(want.members):
		return fmt.Errorf("%s: %d members, want %d", want.name, len(got.Members), len(want.members))
	}
	for i := range want.members {
		if !bytes.Equal(got.Members[i], want.members[i]) {
			return fmt.Errorf("%s: member %d differs", want.name, i)
		}
	}
	if height >= 0 && got.GroupHeight != uint64(height) {
		return fmt.Errorf("%s: recorded group height %d, want %d", want.name, got.GroupHeight, height)
	}
	return nil
}

type byHeight interface {
	GetSyncGroupsByHeight(height uint64, limit int) []*types.Group
}

func safely(f func()) (p interface{}) {
	defer func() { p = recover() }()
	f()
	return nil
}

// checkState compares everything the property talks about with the model. mask: heights in
// m.dirty are not asserted to be empty (steering around F-C19-a while it is listed as known).
func checkState(m *model, where string, mask bool) (err error) {
	defer func() {
		if p := recover(); p != nil {
			err = fmt.Errorf("%s: panic while reading the group chain: %v", where, p)
		}
	}()
	gc := boot.Groups()
	n := len(m.list)
	if c := gc.Count(); c != uint64(n) {
		return fmt.Errorf("%s: Count() = %d, the list has %d groups [%s]", where, c, n, m.names())
	}
	last := gc.LastGroup()
	if e := same(last, m.last(), n-1); e != nil {
		return fmt.Errorf("%s: LastGroup(): %v", where, e)
	}
	// predecessor walk through the id index: exactly n groups, ending at the genesis group
	cur := last
	for i := n - 1; i >= 0; i-- {
		if e := same(cur, m.list[i], i); e != nil {
			return fmt.Errorf("%s: predecessor walk from the last group, position %d: %v", where, i, e)
		}
		cur = gc.GetGroupById(cur.Header.PreGroup)
		if i > 0 && cur == nil {
			return fmt.Errorf("%s: predecessor walk stops at %s (height %d): its predecessor is not retrievable", where, m.list[i].name, i)
		}
	}
	if cur != nil {
		return fmt.Errorf("%s: predecessor walk does not end at the genesis group after Count()=%d steps (found %s below it)", where, n, short(cur.Id))
	}
	// the chain's own iterator
	it := gc.Iterator()
	g := it.Current()
	for i := n - 1; i >= 0; i-- {
		if e := same(g, m.list[i], i); e != nil {
			return fmt.Errorf("%s: Iterator position %d: %v", where, i, e)
		}
		g = it.MovePre()
	}
	if g != nil {
		return fmt.Errorf("%s: Iterator yields more than Count()=%d groups", where, n)
	}
	// height index
	for i := 0; i < n; i++ {
		if e := same(gc.GetGroupByHeight(uint64(i)), m.list[i], i); e != nil {
			return fmt.Errorf("%s: GetGroupByHeight(%d): %v", where, i, e)
		}
	}
	for h := uint64(n); h <= uint64(n)+3; h++ {
		if mask && m.dirty[h] {
			m.masked++
			continue
		}
		if got := gc.GetGroupByHeight(h); got != nil {
			return fmt.Errorf("%s: GetGroupByHeight(%d) returns group %s (recorded height %d) although Count() = %d [%s]",
				where, h, short(got.Id), got.GroupHeight, n, m.names())
		}
	}
	// id index
	for i, x := range m.list {
		if e := same(gc.GetGroupById(x.id), x, i); e != nil {
			return fmt.Errorf("%s: GetGroupById(%s): %v", where, x.name, e)
		}
	}
	for _, x := range m.absent {
		if got := gc.GetGroupById(x.id); got != nil {
			return fmt.Errorf("%s: GetGroupById(%s) still returns the group although it is not on the chain [%s]", where, x.name, m.names())
		}
		if got := gc.GetSyncGroupsById(x.id); len(got) != 0 {
			return fmt.Errorf("%s: GetSyncGroupsById(%s) returns %d groups for a group that is not on the chain", where, x.name, len(got))
		}
	}
	// sync views
	cmpSync := func(what string, got []*types.Group, from, limit int) error {
		end := from + limit
		if end > n {
			end = n
		}
		wantLen := 0
		if end > from {
			wantLen = end - from
		}
		if mask && len(got) != wantLen {
			// a stale entry at a dirty height makes the scan run on: compare the listed part only
			stale := false
			for h := n; h < from+limit; h++ {
				if m.dirty[uint64(h)] {
					stale = true
				}
			}
			if stale && len(got) > wantLen {
				m.masked++
				got = got[:wantLen]
			}
		}
		if len(got) != wantLen {
			var ids []string
			for _, x := range got {
				if x == nil {
					ids = append(ids, "<nil>")
				} else {
					ids = append(ids, short(x.Id))
				}
			}
			return fmt.Errorf("%s: %s returns %d entries %v, want the %d listed groups from height %d [%s]", where, what, len(got), ids, wantLen, from, m.names())
		}
		for k := 0; k < wantLen; k++ {
			if e := same(got[k], m.list[from+k], from+k); e != nil {
				return fmt.Errorf("%s: %s entry %d: %v", where, what, k, e)
			}
		}
		return nil
	}
	for i, x := range m.list {
		if e := cmpSync(fmt.Sprintf("GetSyncGroupsById(%s)", x.name), gc.GetSyncGroupsById(x.id), i+1, 5); e != nil {
			return e
		}
	}
	if bh, ok := gc.(byHeight); ok {
		for h := 0; h <= n+2; h++ {
			for _, limit := range []int{1, 3, 5} {
				if e := cmpSync(fmt.Sprintf("GetSyncGroupsByHeight(%d,%d)", h, limit), bh.GetSyncGroupsByHeight(uint64(h), limit), h, limit); e != nil {
					return e
				}
			}
		}
	}
	return nil
}

// ---------------------------------------------------------------- node helpers

// forceDown closes whatever a failed boot left open, so that later cases of the same process
// start from a clean slate (boot.Node.Stop does nothing when the boot panicked half way).
func forceDown() {
	safely(func() { core.GetBlockChain().Close() })
	safely(func() { core.GetGroupChain().Close() })
	safely(func() { service.Close() })
	safely(func() { middleware.Close() })
	safely(func() { core.VerifResetChain() })
	safely(func() { service.VerifResetPool() })
}

func startNode(fatalf func(string, ...interface{})) (*boot.Node, *model) {
	n, err := boot.Start()
	if err != nil {
		fatalf("VERIF-INCONCLUSIVE boot: %v", err)
	}
	gc := boot.Groups()
	if top := boot.Chain().TopBlock(); top != nil {
		createBlockHash = top.Hash.Bytes()
	}
	m := &model{dirty: map[uint64]bool{}}
	cnt := gc.Count()
	if cnt < 1 || cnt > 4 {
		n.Stop()
		fatalf("VERIF-INCONCLUSIVE fresh node has %d groups", cnt)
	}
	for i := uint64(0); i < cnt; i++ {
		g := gc.GetGroupByHeight(i)
		if g == nil {
			n.Stop()
			fatalf("fresh node: no group at height %d although Count() = %d", i, cnt)
		}
		m.list = append(m.list, fromChain(fmt.Sprintf("G%d", i), g))
	}
	m.genesis = int(cnt)
	return n, m
}

var writesPer = map[string]int64{} // physical writes of one uncrashed add / remove, learnt while running

func doAdd(g *mgroup) (err error, p interface{}) {
	p = safely(func() { err = boot.Groups().AddGroup(g.wire()) })
	return
}

func doRemove() (ok bool, p interface{}) {
	p = safely(func() { ok = core.VerifGroupChainRemoveLast() })
	return
}

// ---------------------------------------------------------------- the property

func TestGroupChainHistories(t *testing.T) {
	knownA := stats.IsKnown(findingA)
	knownB := stats.IsKnown(findingB)
	stats.Check(t, 18, 300, func(t *rapid.T) {
		n, m := startNode(t.Fatalf)
		failedBoot := false
		defer func() {
			if failedBoot {
				forceDown()
			}
			n.Stop()
		}()
		seq := 0
		var trace []string
		fail := func(format string, a ...interface{}) {
			t.Helper()
			t.Fatalf("%s\ntrace: %v", fmt.Sprintf(format, a...), trace)
		}
		check := func(where string) {
			t.Helper()
			if e := checkState(m, where, knownA); e != nil {
				fail("%v", e)
			}
		}
		check("fresh node")

		removes, readds, diffAdds, invalids, restarts, crashesInside, crashesEdge, excludedB := 0, 0, 0, 0, 0, 0, 0, 0
		removedSomething := false
		nontrivial := false
		forkDirty := false

		pickListed := func(label string) *mgroup {
			return m.list[rapid.IntRange(0, len(m.list)-1).Draw(t, label)]
		}
		freshValid := func() *mgroup {
			seq++
			// parent: mostly the last or the genesis group, sometimes any listed one
			var parent *mgroup
			switch rapid.IntRange(0, 3).Draw(t, "parentKind") {
			case 0:
				parent = m.list[0]
			case 1:
				parent = m.last()
			default:
				parent = pickListed("parent")
			}
			return newGroup(seq, m.last().id, parent.id)
		}
		addValid := func(g *mgroup, label string) {
			w0 := db.VerifWriteCount()
			err, p := doAdd(g)
			trace = append(trace, fmt.Sprintf("%s %s->%v", label, g.name, err))
			if p != nil {
				fail("AddGroup(%s) panicked: %v", g.name, p)
			}
			if err != nil {
				fail("AddGroup refused a valid group %s (PreGroup = last group %s, parent listed): %v", g.name, m.last().name, err)
			}
			writesPer["add"] = db.VerifWriteCount() - w0
			m.add(g)
			if removedSomething && label != "readd" {
				nontrivial = true
			}
		}
		removeLast := func() {
			w0 := db.VerifWriteCount()
			ok, p := doRemove()
			trace = append(trace, fmt.Sprintf("remove %s->%v", m.last().name, ok))
			if p != nil {
				fail("remove(%s) panicked: %v", m.last().name, p)
			}
			if !ok {
				fail("remove(%s) reported failure", m.last().name)
			}
			writesPer["remove"] = db.VerifWriteCount() - w0
			m.removeLast()
			removes++
			removedSomething = true
		}
		// reAddable: a removed group whose links fit the current chain
		reAddable := func() *mgroup {
			for i := len(m.absent) - 1; i >= 0; i-- {
				x := m.absent[i]
				if bytes.Equal(x.pre, m.last().id) && m.listed(x.parent) {
					return x
				}
			}
			return nil
		}
		restart := func(why string) {
			if err := n.Restart(); err != nil {
				failedBoot = true
				fail("node does not start again %s: %v", why, err)
			}
			restarts++
		}

		// ---- the node's own fork-switch rollback and the whole group fork switch
		depthClass := func(k int) string {
			if k >= 3 {
				return "3plus"
			}
			return fmt.Sprint(k)
		}
		pickDepth := func(atLeastOne bool) int {
			maxk := len(m.list) - 1 // the ancestor may be the genesis group
			if maxk > 4 {
				maxk = 4
			}
			lo := 0
			if atLeastOne && maxk >= 1 {
				lo = 1
			}
			return rapid.IntRange(lo, maxk).Draw(t, "rollbackDepth")
		}
		ancestorOnChain := func(aIdx int) *types.Group {
			// the fork switch takes the common ancestor from the local chain (getFirstGroupBelowHeight)
			var g *types.Group
			if p := safely(func() { g = boot.Groups().GetGroupById(m.list[aIdx].id) }); p != nil || g == nil {
				fail("common ancestor %s (height %d) is not retrievable by id (panic: %v)", m.list[aIdx].name, aIdx, p)
			}
			return g
		}
		// buildBranch: nb groups linked on top of the ancestor, as a peer on another fork would send them
		buildBranch := func(aIdx, k, nb int, kind string) (branch []*mgroup, verified int) {
			pre := m.list[aIdx].id
			bad := -1
			if kind != "valid" && nb > 0 {
				bad = rapid.IntRange(0, nb-1).Draw(t, "badIdx")
			}
			verified = nb
			for i := 0; i < nb; i++ {
				seq++
				parent := m.list[0].id
				switch rapid.IntRange(0, 2).Draw(t, "branchParent") {
				case 1:
					parent = m.list[aIdx].id
				case 2:
					if i > 0 {
						parent = branch[i-1].id
					}
				}
				p := pre
				if i == bad {
					if kind == "parentRolledBack" {
						parent = m.list[aIdx+1+rapid.IntRange(0, k-1).Draw(t, "rolledBackParent")].id
					} else {
						p = []byte{0xde, 0xad, byte(seq)}
						verified = i
					}
				}
				g := newGroup(seq, p, parent)
				g.name = "f" + g.name[1:]
				branch = append(branch, g)
				pre = g.id
			}
			return
		}
		// planSwitch: the chain after each sequential step of "roll back k groups, add the branch
		// until the first group that does not fit"
		planSwitch := func(k int, branch []*mgroup) (cands []*model, added int) {
			c := m.clone()
			cands = append(cands, c.clone())
			for j := 0; j < k; j++ {
				c.removeLast()
				cands = append(cands, c.clone())
			}
			for _, g := range branch {
				if c.listed(g.id) || !c.listed(g.parent) || !bytes.Equal(g.pre, c.last().id) {
					break
				}
				c.add(g)
				added++
				cands = append(cands, c.clone())
			}
			for _, cand := range cands {
				for _, g := range branch {
					if !cand.listed(g.id) {
						cand.dropAbsent(g.id)
						cand.absent = append(cand.absent, g)
					}
				}
			}
			return
		}
		branchWires := func(aIdx int, branch []*mgroup) []*types.Group {
			var ws []*types.Group
			for i, g := range branch {
				w := g.wire()
				w.GroupHeight = uint64(aIdx + 1 + i) // as recorded by the sending peer
				ws = append(ws, w)
			}
			return ws
		}
		adopt := func(next *model, k, added int) {
			m = next
			if k > 0 {
				removes += k
				removedSomething = true
			}
			if added > 0 && removedSomething {
				nontrivial = true
			}
		}
		drawSwitch := func(atLeastOne bool) (k, aIdx int, kind string, branch []*mgroup, verified int) {
			k = pickDepth(atLeastOne)
			aIdx = len(m.list) - 1 - k
			nb := rapid.IntRange(0, 3).Draw(t, "branchLen")
			kind = rapid.SampledFrom([]string{"valid", "valid", "valid", "valid", "valid", "parentRolledBack", "brokenLink"}).Draw(t, "branchKind")
			if nb == 0 || (kind == "parentRolledBack" && k == 0) {
				kind = "valid"
			}
			branch, verified = buildBranch(aIdx, k, nb, kind)
			return
		}
		// afterCrash: the restarted store must be one of the sequential intermediate chains
		afterCrash := func(where, what string, cands []*model, nth, total, dropped int64, k int) {
			var errs []string
			matched := -1
			for i, c := range cands {
				e := checkState(c, where, knownA)
				if e == nil {
					matched = i
					break
				}
				errs = append(errs, fmt.Sprintf("vs step %d [%s]: %v", i, c.names(), e))
			}
			last := len(cands) - 1
			switch {
			case matched < 0:
				fail("crash at write %d of the %d writes of %s, then restart: the store equals none of the %d chains the operation passes through\n  %s",
					nth, total, what, len(cands), strings.Join(errs, "\n  "))
			case dropped == 0 && matched != last:
				fail("all %d writes of %s reached the store, yet after the restart the chain is [%s], not the operation's result [%s]", total, what, cands[matched].names(), cands[last].names())
			case dropped == total && matched != 0 && cands[matched].names() != cands[0].names():
				fail("no write of %s reached the store, yet after the restart the chain is [%s], not [%s]", what, cands[matched].names(), cands[0].names())
			}
			switch {
			case matched == 0 && last > 0:
				stats.Class("crash_multi_left_initial_chain")
			case matched == last:
				stats.Class("crash_multi_left_final_chain")
			case matched < k:
				stats.Class("crash_multi_left_partial_rollback")
			case matched == k:
				stats.Class("crash_multi_left_full_rollback_no_adds")
			default:
				stats.Class("crash_multi_left_partial_branch")
			}
			added := 0
			if matched > k {
				added = matched - k
			}
			rolled := matched
			if rolled > k {
				rolled = k
			}
			adopt(cands[matched], rolled, added)
		}

		steps := rapid.IntRange(6, 26).Draw(t, "steps")
		for step := 0; step < steps; step++ {
			canRemove := len(m.list) > m.genesis
			action := rapid.SampledFrom([]string{
				"add", "add", "add", "add", "readd", "invalid", "invalid",
				"remove", "remove", "replace", "replace", "restart", "crashAdd", "crashRemove",
				"rollback", "rollback", "forkSwitch", "forkSwitch", "forkSwitch", "crashRollback", "crashForkSwitch",
				"faultRollback", "faultForkSwitch",
			}).Draw(t, "action")
			if !canRemove && (action == "remove" || action == "replace" || action == "crashRemove") {
				action = "add"
			}
			if restarts >= 30 && (action == "restart" || strings.HasPrefix(action, "crash") || strings.HasPrefix(action, "fault")) {
				action = "add"
			}
			where := fmt.Sprintf("step %d (%s)", step, action)
			switch action {
			case "add":
				addValid(freshValid(), "add")
				check(where)
			case "readd":
				g := reAddable()
				if g == nil {
					addValid(freshValid(), "add")
				} else {
					addValid(g, "readd")
					readds++
				}
				check(where)
			case "remove":
				removeLast()
				check(where)
			case "rollback":
				k := pickDepth(false)
				aIdx := len(m.list) - 1 - k
				anc := ancestorOnChain(aIdx)
				p := safely(func() { core.VerifGroupChainRollbackTo(anc) })
				trace = append(trace, fmt.Sprintf("rollback to %s (%d groups)", m.list[aIdx].name, k))
				if p != nil {
					fail("removeFromCommonAncestor(%s) panicked: %v", m.list[aIdx].name, p)
				}
				cands, _ := planSwitch(k, nil)
				adopt(cands[k], k, 0)
				stats.Class("rollback_depth_" + depthClass(k))
				check(where)
				for i, nb := 0, rapid.IntRange(0, 3).Draw(t, "branchLen"); i < nb; i++ {
					addValid(freshValid(), "add-different")
					if k > 0 && i == 0 {
						diffAdds++
					}
					check(where + " branch add")
				}
			case "forkSwitch":
				k, aIdx, kind, branch, _ := drawSwitch(false)
				anc := ancestorOnChain(aIdx)
				cands, added := planSwitch(k, branch)
				var forkErr error
				var onChain bool
				p := safely(func() { forkErr, onChain = core.VerifGroupForkSwitch(anc, branchWires(aIdx, branch)) })
				trace = append(trace, fmt.Sprintf("forkSwitch at %s (roll back %d, branch %d %s) -> forkErr=%v onChain=%v", m.list[aIdx].name, k, len(branch), kind, forkErr, onChain))
				if p != nil {
					fail("group fork switch at %s panicked: %v", m.list[aIdx].name, p)
				}
				adopt(cands[len(cands)-1], k, added)
				forkDirty = false
				if k > 0 && added > 0 {
					diffAdds++
				}
				stats.Class("forkswitch_depth_" + depthClass(k))
				stats.Class(fmt.Sprintf("forkswitch_branch_%d_added_%d", len(branch), added))
				stats.Class("forkswitch_kind_" + kind)
				check(where)
			case "crashRollback", "crashForkSwitch":
				var k, aIdx, verified int
				kind := "valid"
				var branch []*mgroup
				if action == "crashRollback" {
					k = pickDepth(true)
					aIdx = len(m.list) - 1 - k
				} else {
					k, aIdx, kind, branch, verified = drawSwitch(true)
				}
				anc := ancestorOnChain(aIdx)
				cands, added := planSwitch(k, branch)
				var nth int64
				if action == "crashRollback" {
					nth = int64(rapid.IntRange(1, k+1).Draw(t, "crashAtWrite"))
				} else {
					// writes before the first group-chain batch: fork database reset (about 4) and one
					// 3-write insert for the ancestor and every verified branch group
					setup := 4 + 3*(1+verified)
					if forkDirty { // an interrupted switch left fork-database entries that the next reset deletes first
						setup += rapid.IntRange(0, 8).Draw(t, "resetSlack")
					}
					if rapid.IntRange(0, 3).Draw(t, "anywhere") == 0 {
						nth = int64(rapid.IntRange(1, setup+k+added+8).Draw(t, "crashAtWrite"))
					} else {
						nth = int64(setup + rapid.IntRange(1, k+added+1).Draw(t, "crashAtBatch"))
					}
				}
				what := fmt.Sprintf("the rollback of %d groups to %s", k, m.list[aIdx].name)
				if action == "crashForkSwitch" {
					what = fmt.Sprintf("the fork switch at %s (roll back %d, branch %d %s)", m.list[aIdx].name, k, len(branch), kind)
				}
				w0 := db.VerifWriteCount()
				db.VerifArmCrash(nth)
				safely(func() { // the process is dead from the crash point on: results are void
					if action == "crashRollback" {
						core.VerifGroupChainRollbackTo(anc)
					} else {
						core.VerifGroupForkSwitch(anc, branchWires(aIdx, branch))
					}
				})
				dropped := db.VerifDisarm()
				total := db.VerifWriteCount() - w0
				trace = append(trace, fmt.Sprintf("%s: %s crash@%d (writes %d, dropped %d)", action, what, nth, total, dropped))
				restart(fmt.Sprintf("after a crash at write %d of %d of %s", nth, total, what))
				stats.Class(action + "_depth_" + depthClass(k))
				if action == "crashForkSwitch" {
					forkDirty = dropped > 0
				}
				afterCrash(where, what, cands, nth, total, dropped, k)
			case "faultRollback", "faultForkSwitch":
				// the secondary store (sqlite group index) fails once inside a multi-height rollback
				for len(m.list) < 4 {
					addValid(freshValid(), "add")
				}
				maxk := len(m.list) - 1
				if maxk > 4 {
					maxk = 4
				}
				lo := 2
				if rapid.IntRange(0, 3).Draw(t, "shallow") == 0 {
					lo = 1
				}
				k := rapid.IntRange(lo, maxk).Draw(t, "rollbackDepth")
				aIdx := len(m.list) - 1 - k
				var branch []*mgroup
				if action == "faultForkSwitch" {
					branch, _ = buildBranch(aIdx, k, rapid.IntRange(0, 3).Draw(t, "branchLen"), "valid")
				}
				anc := ancestorOnChain(aIdx)
				cands, _ := planSwitch(k, branch)
				failAt := rapid.IntRange(1, k+1).Draw(t, "failDeleteGroupCall") // k+1: armed, never reached
				what := fmt.Sprintf("the rollback of %d groups to %s", k, m.list[aIdx].name)
				if action == "faultForkSwitch" {
					what = fmt.Sprintf("the fork switch at %s (roll back %d, branch %d)", m.list[aIdx].name, k, len(branch))
				}
				mysql.VerifFailDeleteGroup(failAt)
				p := safely(func() {
					if action == "faultRollback" {
						core.VerifGroupChainRollbackTo(anc)
					} else {
						core.VerifGroupForkSwitch(anc, branchWires(aIdx, branch))
					}
				})
				hits := mysql.VerifDisarmDeleteGroup()
				trace = append(trace, fmt.Sprintf("%s: %s, group-index delete #%d fails (hit %d) -> panic=%v", action, what, failAt, hits, p != nil))
				stats.Class("sqlite_fault_armed")
				if hits > 0 {
					stats.Class("sqlite_fault_hit")
					if k >= 2 {
						stats.Class("sqlite_fault_hit_in_rollback_of_2plus_heights")
					}
					if p != nil {
						stats.Class("sqlite_fault_panic_observed")
					} else {
						stats.Class("sqlite_fault_survived_without_panic")
					}
				}
				if p != nil && hits == 0 {
					fail("%s panicked although no fault was injected: %v", what, p)
				}
				if p != nil {
					// the process died at the failing index update: what is on disk is what counts
					restart(fmt.Sprintf("after the process died in %s (group-index delete #%d failed)", what, failAt))
				}
				matchCands := func(stage string) int {
					var errs []string
					for i, c := range cands {
						e := checkState(c, where+" "+stage, knownA)
						if e == nil {
							return i
						}
						errs = append(errs, fmt.Sprintf("vs step %d [%s]: %v", i, c.names(), e))
					}
					fail("group-index delete #%d failed inside %s (node panicked: %v); %s the chain equals none of the %d chains the operation passes through\n  %s",
						failAt, what, p != nil, stage, len(cands), strings.Join(errs, "\n  "))
					return -1
				}
				matched := matchCands("afterwards")
				if hits == 0 && matched != len(cands)-1 {
					fail("no fault was reached in %s, yet the chain is [%s], not the operation's result [%s]", what, cands[matched].names(), cands[len(cands)-1].names())
				}
				if hits > 0 && p == nil {
					// the node carried on: what it keeps must also be what it finds after a restart
					restart("after " + what + " with a failed group-index delete")
					if again := matchCands("after a restart"); again != matched {
						fail("after %s with a failed group-index delete the live chain was [%s] but after a restart it is [%s]", what, cands[matched].names(), cands[again].names())
					}
				}
				stats.Class(fmt.Sprintf("sqlite_fault_left_step_%d_of_%d", matched, len(cands)-1))
				rolled, addedNow := matched, 0
				if matched > k {
					rolled, addedNow = k, matched-k
				}
				adopt(cands[matched], rolled, addedNow)
			case "replace":
				old := m.last()
				removeLast()
				check(where + " after the remove")
				g := freshValid()
				if bytes.Equal(g.id, old.id) {
					fail("harness: replacement group is not different")
				}
				addValid(g, "add-different")
				diffAdds++
				check(where)
			case "invalid":
				kind := rapid.SampledFrom([]string{"wrongPreListed", "wrongPreRemoved", "wrongPreUnknown", "wrongPreOtherSpelling", "unknownParent", "removedParent", "dupSame", "dupIdOther", "nil"}).Draw(t, "invalidKind")
				seq++
				var g *mgroup
				switch kind {
				case "wrongPreListed":
					if len(m.list) < 2 {
						kind = "wrongPreUnknown"
						g = newGroup(seq, []byte{0xde, 0xad, byte(seq)}, m.list[0].id)
					} else {
						g = newGroup(seq, m.list[rapid.IntRange(0, len(m.list)-2).Draw(t, "preIdx")].id, m.list[0].id)
					}
				case "wrongPreRemoved":
					if len(m.absent) == 0 {
						kind = "wrongPreUnknown"
						g = newGroup(seq, []byte{0xde, 0xad, byte(seq)}, m.list[0].id)
					} else {
						g = newGroup(seq, m.absent[rapid.IntRange(0, len(m.absent)-1).Draw(t, "preIdx")].id, m.list[0].id)
					}
				case "wrongPreUnknown":
					g = newGroup(seq, []byte{0xde, 0xad, byte(seq)}, m.list[0].id)
				case "wrongPreOtherSpelling":
					// ids are byte strings: another spelling of the same number (a byte in front, leading zero bytes
					// dropped or added, a byte appended) is not the id of the last group
					last := m.last().id
					var pre []byte
					switch rapid.IntRange(0, 4).Draw(t, "spelling") {
					case 0:
						pre = append([]byte{0x00}, last...)
					case 1:
						pre = append([]byte{byte(1 + rapid.IntRange(0, 254).Draw(t, "frontByte"))}, last...)
					case 2:
						pre = append(append([]byte{}, last...), 0x00)
					case 3:
						pre = bytes.TrimLeft(last, "\x00")
						if len(pre) == len(last) {
							pre = last[1:]
						}
					default:
						pre = append(bytes.Repeat([]byte{0xab}, 32), last...)
					}
					g = newGroup(seq, pre, m.list[0].id)
				case "unknownParent":
					unk := sha256.Sum256([]byte{0xbe, 0xef, byte(seq)})
					g = newGroup(seq, m.last().id, unk[:])
				case "removedParent":
					if len(m.absent) == 0 {
						kind = "unknownParent"
						unk := sha256.Sum256([]byte{0xbe, 0xef, byte(seq)})
						g = newGroup(seq, m.last().id, unk[:])
					} else {
						g = newGroup(seq, m.last().id, m.absent[rapid.IntRange(0, len(m.absent)-1).Draw(t, "parIdx")].id)
					}
				case "dupSame":
					g = pickListed("dup")
				case "dupIdOther":
					g = newGroup(seq, m.last().id, m.list[0].id)
					g.id = append([]byte(nil), pickListed("dup").id...)
				}
				var err error
				var p interface{}
				if kind == "nil" {
					p = safely(func() { err = boot.Groups().AddGroup(nil) })
				} else {
					err, p = doAdd(g)
				}
				trace = append(trace, fmt.Sprintf("invalid:%s->%v", kind, err != nil))
				if p != nil {
					fail("AddGroup(%s group) panicked: %v", kind, p)
				}
				if err == nil {
					fail("AddGroup accepted an invalid group (%s): pre=%s parent=%s id=%s, last group is %s", kind, short(g.pre), short(g.parent), short(g.id), m.last().name)
				}
				if kind != "nil" && !m.listed(g.id) {
					m.dropAbsent(g.id)
					m.absent = append(m.absent, g) // refused: must not be retrievable
				}
				invalids++
				stats.Class("invalid_" + kind)
				check(where)
			case "restart":
				restart("after a clean stop")
				trace = append(trace, "restart")
				check(where)
			case "crashAdd", "crashRemove":
				op := "add"
				if action == "crashRemove" {
					op = "remove"
				}
				w, learnt := writesPer[op]
				nth := int64(rapid.IntRange(1, 6).Draw(t, "crashAtWrite"))
				if !learnt {
					nth = 99 // nothing known about this operation yet: let it complete, then restart
				} else {
					nth = (nth-1)%(w+1) + 1 // every write of the operation and "just after it" equally likely
				}
				if knownB && learnt && nth > 1 && nth <= w {
					// F-C19-b: a crash strictly inside the write sequence is the recorded defect
					excludedB++
					if rapid.Bool().Draw(t, "edge") {
						nth = 1
					} else {
						nth = w + 1
					}
				}
				before := m.clone()
				var g *mgroup
				if op == "add" {
					g = freshValid()
				}
				w0 := db.VerifWriteCount()
				db.VerifArmCrash(nth)
				if op == "add" {
					doAdd(g) // the process is dead from the crash point on: results are void
				} else {
					doRemove()
				}
				dropped := db.VerifDisarm()
				total := db.VerifWriteCount() - w0
				trace = append(trace, fmt.Sprintf("%s crash@%d (writes %d, dropped %d)", action, nth, total, dropped))
				if learnt {
					stats.Class(fmt.Sprintf("crash_%s_at_write_%d_of_%d", op, nth, total))
				}
				after := before.clone()
				if op == "add" {
					after.add(g)
					before.absent = append(before.absent, g)
				} else {
					after.removeLast()
				}
				restart(fmt.Sprintf("after a crash at write %d of %d of %s", nth, total, op))
				eb := checkState(before, where+" vs state before", knownA)
				ea := checkState(after, where+" vs state after", knownA)
				switch {
				case dropped == 0:
					if ea != nil {
						fail("all %d writes of the %s reached the store, yet after the restart: %v", total, op, ea)
					}
					m = after
				case dropped == total:
					if eb != nil {
						fail("no write of the %s reached the store, yet after the restart: %v", op, eb)
					}
					m = before
				default:
					crashesInside++
					stats.Class(fmt.Sprintf("crash_inside_%s_at_%d_of_%d", op, nth, total))
					if ea != nil && eb != nil {
						fail("crash at write %d of the %d writes of %s, then restart: the store equals neither the state before nor after the operation\n  vs before: %v\n  vs after:  %v", nth, total, op, eb, ea)
					}
					if ea == nil {
						m = after
					} else {
						m = before
					}
				}
				if dropped == 0 || dropped == total {
					crashesEdge++
				}
				if len(m.list) < len(before.list) {
					removes++
					removedSomething = true
				} else if len(m.list) > len(before.list) && removedSomething {
					nontrivial = true
				}
			}
		}
		// final: a clean restart must reproduce the same chain
		if rapid.IntRange(0, 2).Draw(t, "finalRestart") == 0 {
			restart("after a clean stop at the end")
			trace = append(trace, "restart")
			check("after the final restart")
		}

		key := ""
		if nontrivial {
			key = strings.Join(trace, ";")
		}
		if m.masked > 0 {
			stats.Exclude(findingA)
		}
		for i := 0; i < excludedB; i++ {
			stats.Exclude(findingB)
		}
		stats.Case(key,
			fmt.Sprintf("removes_%d", min(removes, 4)), fmt.Sprintf("add_different_after_remove_%d", min(diffAdds, 3)),
			fmt.Sprintf("readd_removed_%d", min(readds, 2)), fmt.Sprintf("invalid_adds_%d", min(invalids, 3)),
			fmt.Sprintf("restarts_%d", min(restarts, 5)), fmt.Sprintf("crash_inside_op_%d", min(crashesInside, 3)),
			fmt.Sprintf("crash_at_edge_%d", min(crashesEdge, 3)), fmt.Sprintf("final_len_%d", min(len(m.list), 8)))
		stats.Count("operations", int64(len(trace)))
		stats.Count("restarts", int64(restarts))
		stats.Count("masked_assertions_F-C19-a", int64(m.masked))
		stats.Sample(map[string]interface{}{"trace": trace, "final_chain": m.names()})
	})
}

func min(a, b int) int {
	if a < b {
		return a
	}
	return b
}

// ---------------------------------------------------------------- two concurrent operations

type cop struct {
	kind string // "add" | "remove" | "rollback" (the fork switch's rollback of k groups, one step: it holds the chain lock)
	g    *mgroup
	k    int
}

func (o cop) String() string {
	switch o.kind {
	case "remove":
		return "remove-last"
	case "rollback":
		return fmt.Sprintf("rollback-%d", o.k)
	}
	return "add " + o.g.name
}

// simulate runs ops sequentially on a copy of m by the rules the property's mechanism states:
// an add succeeds iff the id is not on the chain, the parent is listed and PreGroup is the
// current last group; remove-last succeeds iff something above the genesis groups is left.
func simulate(m *model, ops []cop) (*model, []bool) {
	c := m.clone()
	var res []bool
	for _, o := range ops {
		switch o.kind {
		case "add":
			ok := !c.listed(o.g.id) && c.listed(o.g.parent) && bytes.Equal(o.g.pre, c.last().id)
			if ok {
				c.add(o.g)
			} else if !c.listed(o.g.id) {
				c.dropAbsent(o.g.id)
				c.absent = append(c.absent, o.g)
			}
			res = append(res, ok)
		case "remove":
			ok := len(c.list) > c.genesis
			if ok {
				c.removeLast()
			}
			res = append(res, ok)
		case "rollback":
			// the ancestor is fixed when the operation starts: everything above it goes
			for len(c.list) > o.k && len(c.list) > c.genesis {
				c.removeLast()
			}
			res = append(res, true)
		}
	}
	return c, res
}

const pairTimeout = 300 * time.Second

type addRes struct {
	err error
	p   interface{}
}

// runPair starts AddGroup(x) in a goroutine, parks it inside CheckGroup (if it gets there),
// runs yops to completion meanwhile, releases and joins x. stuck != "" means a timeout.
func runPair(x *mgroup, yops []cop) (parked bool, xr addRes, yres []bool, yPanic interface{}, stuck string) {
	xw := x.wire()
	parkedCh := make(chan struct{})
	release := make(chan struct{})
	var once, relOnce sync.Once
	doRelease := func() { relOnce.Do(func() { close(release) }) }
	boot.CheckGroupHook = func(g *types.Group) (bool, error) {
		if g == xw {
			once.Do(func() {
				close(parkedCh)
				<-release
			})
		}
		return true, nil
	}
	xDone := make(chan addRes, 1)
	yDone := make(chan struct{})
	joinedX, joinedY := false, true
	defer func() {
		doRelease() // never leave the parked goroutine behind
		if !joinedX {
			select {
			case xr = <-xDone:
			case <-time.After(pairTimeout):
			}
		}
		if !joinedY {
			select {
			case <-yDone:
			case <-time.After(pairTimeout):
			}
		}
		boot.CheckGroupHook = nil
	}()
	go func() {
		var r addRes
		r.p = safely(func() { r.err = boot.Groups().AddGroup(xw) })
		xDone <- r
	}()
	select {
	case <-parkedCh:
		parked = true
	case xr = <-xDone: // refused (or finished) without reaching CheckGroup
		joinedX = true
	case <-time.After(pairTimeout):
		return parked, xr, nil, nil, "AddGroup(X) neither reached CheckGroup nor returned"
	}
	joinedY = false
	var yr []bool
	var yp interface{}
	go func() {
		defer close(yDone)
		yp = safely(func() {
			for _, o := range yops {
				if o.kind == "remove" {
					yr = append(yr, core.VerifGroupChainRemoveLast())
				} else if o.kind == "rollback" {
					core.VerifGroupChainRollbackTo(boot.Groups().GetGroupByHeight(uint64(o.k - 1)))
					yr = append(yr, true)
				} else {
					yr = append(yr, boot.Groups().AddGroup(o.g.wire()) == nil)
				}
			}
		})
	}()
	select {
	case <-yDone:
		joinedY = true
		yres, yPanic = yr, yp
	case <-time.After(pairTimeout):
		return parked, xr, nil, nil, "operation Y did not finish while AddGroup(X) was parked inside CheckGroup"
	}
	doRelease()
	if !joinedX {
		select {
		case xr = <-xDone:
			joinedX = true
		case <-time.After(pairTimeout):
			return parked, xr, yres, yPanic, "AddGroup(X) did not return after its CheckGroup call was released"
		}
	}
	return
}

func TestConcurrentPairs(t *testing.T) {
	stats.Check(t, 10, 150, func(t *rapid.T) {
		n, m := startNode(t.Fatalf)
		failedBoot := false
		defer func() {
			boot.CheckGroupHook = nil
			if failedBoot {
				forceDown()
			}
			n.Stop()
		}()
		seq := 0
		var trace []string
		fail := func(format string, a ...interface{}) {
			t.Helper()
			t.Fatalf("%s\ntrace: %v", fmt.Sprintf(format, a...), trace)
		}
		fresh := func(pre, parent []byte) *mgroup {
			seq++
			return newGroup(seq, pre, parent)
		}
		// a short sequential prefix
		for i, k := 0, rapid.IntRange(1, 3).Draw(t, "prefix"); i < k; i++ {
			g := fresh(m.last().id, m.list[0].id)
			if err, p := doAdd(g); err != nil || p != nil {
				fail("prefix add refused: %v %v", err, p)
			}
			m.add(g)
			trace = append(trace, "add "+g.name)
		}
		if e := checkState(m, "after the prefix", false); e != nil {
			fail("%v", e)
		}
		rounds := rapid.IntRange(1, 4).Draw(t, "rounds")
		var keyParts []string
		interesting := 0
		for r := 0; r < rounds; r++ {
			n0 := len(m.list)
			xKinds := []string{"validNext", "validNext", "validNext", "validParentLast", "wrongPre", "unknownParent"}
			if n0 >= 2 {
				xKinds = append(xKinds, "preSecondLast", "preSecondLast")
			}
			yKinds := []string{"addSibling", "addSibling", "addSame", "addOnTopOfX"}
			if n0 > m.genesis {
				yKinds = append(yKinds, "removeLast", "removeLast", "replace", "replace")
			}
			if n0 >= 3 {
				yKinds = append(yKinds, "rollback2", "rollback2")
			}
			xKind := rapid.SampledFrom(xKinds).Draw(t, "xKind")
			yKind := rapid.SampledFrom(yKinds).Draw(t, "yKind")
			last := m.last()
			var x *mgroup
			validAlone := false
			switch xKind {
			case "validNext":
				x, validAlone = fresh(last.id, m.list[0].id), true
			case "validParentLast":
				x, validAlone = fresh(last.id, last.id), true
			case "wrongPre":
				x = fresh([]byte{0xde, 0xad, byte(seq)}, m.list[0].id)
			case "unknownParent":
				unk := sha256.Sum256([]byte{0xbe, 0xef, byte(seq)})
				x = fresh(last.id, unk[:])
			case "preSecondLast":
				x = fresh(m.list[n0-2].id, m.list[0].id)
			}
			x.name = "X" + x.name
			var yops []cop
			switch yKind {
			case "addSibling":
				yops = []cop{{kind: "add", g: fresh(last.id, m.list[0].id)}}
			case "addSame":
				yops = []cop{{kind: "add", g: x}}
			case "addOnTopOfX":
				yops = []cop{{kind: "add", g: fresh(x.id, m.list[0].id)}}
			case "removeLast":
				yops = []cop{{kind: "remove"}}
			case "replace":
				yops = []cop{{kind: "remove"}, {kind: "add", g: fresh(m.list[n0-2].id, m.list[0].id)}}
			case "rollback2":
				// k = number of groups that stay: the ancestor is the group at height n0-3
				yops = []cop{{kind: "rollback", k: n0 - 2}}
			}
			desc := fmt.Sprintf("len%d X=%s(valid alone %v) || Y=%s", n0, xKind, validAlone, yKind)
			parked, xr, yres, yPanic, stuck := runPair(x, yops)
			if stuck != "" {
				t.Fatalf("VERIF-INCONCLUSIVE concurrent pair timed out (%s): %s\ntrace: %v", desc, stuck, trace)
			}
			if xr.p != nil {
				fail("%s: AddGroup(X) panicked: %v", desc, xr.p)
			}
			if yPanic != nil {
				fail("%s: operation Y panicked: %v", desc, yPanic)
			}
			obsX := xr.err == nil
			trace = append(trace, fmt.Sprintf("{%s parked=%v -> X ok=%v Y ok=%v}", desc, parked, obsX, yres))
			// every sequential order: X before step p of Y
			matched := -1
			var final *model
			var why []string
			for p := 0; p <= len(yops); p++ {
				var ops []cop
				ops = append(ops, yops[:p]...)
				ops = append(ops, cop{kind: "add", g: x})
				ops = append(ops, yops[p:]...)
				fm, res := simulate(m, ops)
				wantX := res[p]
				wantY := append(append([]bool{}, res[:p]...), res[p+1:]...)
				if wantX != obsX || fmt.Sprint(wantY) != fmt.Sprint(yres) {
					why = append(why, fmt.Sprintf("order %v: expects X ok=%v, Y ok=%v", ops, wantX, wantY))
					continue
				}
				if e := checkState(fm, "state", false); e != nil {
					why = append(why, fmt.Sprintf("order %v: results agree, but %v", ops, e))
					continue
				}
				if matched < 0 {
					matched, final = p, fm
				}
			}
			if matched < 0 {
				fail("two concurrent group-chain operations (%s; X was parked inside CheckGroup: %v) ended with X ok=%v (%v), Y ok=%v, and results + store equal no sequential order of them:\n  %s",
					desc, parked, obsX, xr.err, yres, strings.Join(why, "\n  "))
			}
			m = final
			tipMoved := false
			for _, ok := range yres {
				tipMoved = tipMoved || ok
			}
			if parked && tipMoved {
				interesting++
			}
			stats.Class("pair_X_" + xKind)
			stats.Class("pair_Y_" + yKind)
			stats.Class(fmt.Sprintf("pair_parked_%v_tipMoved_%v", parked, tipMoved))
			stats.Class(fmt.Sprintf("pair_X_ok_%v", obsX))
			if matched == 0 {
				stats.Class("pair_explained_by_X_first")
			} else {
				stats.Class("pair_explained_by_Y_first_or_between")
			}
			keyParts = append(keyParts, desc)
			if rapid.IntRange(0, 3).Draw(t, "restartAfterRound") == 0 || r == rounds-1 {
				if err := n.Restart(); err != nil {
					failedBoot = true
					fail("node does not start again after the concurrent pair: %v", err)
				}
				trace = append(trace, "restart")
				if e := checkState(m, "after the restart following "+desc, false); e != nil {
					fail("%v", e)
				}
			}
		}
		key := ""
		if interesting > 0 {
			key = "pairs:" + strings.Join(keyParts, ";")
		}
		stats.Case(key, fmt.Sprintf("pair_rounds_%d", rounds), fmt.Sprintf("pair_tip_moved_while_parked_%d", min(interesting, 3)))
		stats.Count("concurrent_pairs", int64(rounds))
		stats.Sample(map[string]interface{}{"family": "concurrent pairs", "trace": trace, "final_chain": m.names()})
	})
}

// ---------------------------------------------------------------- probes for recorded findings

func shard0() bool { s := os.Getenv("VERIF_SHARD"); return s == "" || s == "0" }

// TestProbeStaleHeightIndexAfterRemove: genesis + A + B, remove B => height 2 must be empty.
func TestProbeStaleHeightIndexAfterRemove(t *testing.T) {
	n, m := startNode(t.Fatalf)
	defer n.Stop()
	for i := 1; i <= 2; i++ {
		g := newGroup(100+i, m.last().id, m.list[0].id)
		if err, p := doAdd(g); err != nil || p != nil {
			t.Fatalf("probe setup: add failed: %v %v", err, p)
		}
		m.add(g)
	}
	if ok, p := doRemove(); !ok || p != nil {
		t.Fatalf("probe setup: remove failed: %v", p)
	}
	m.removeLast()
	gc := boot.Groups()
	cnt := gc.Count()
	var seen []string
	present := false
	for h := uint64(0); h <= cnt+2; h++ {
		g := gc.GetGroupByHeight(h)
		if g == nil {
			seen = append(seen, "nil")
		} else {
			seen = append(seen, short(g.Id))
			if h >= cnt {
				present = true
			}
		}
	}
	var sync []string
	if bh, ok := gc.(byHeight); ok {
		for _, g := range bh.GetSyncGroupsByHeight(cnt, 5) {
			present = true
			if g == nil {
				sync = append(sync, "<nil>")
			} else {
				sync = append(sync, short(g.Id))
			}
		}
	}
	// the complete oracle agrees?
	if e := checkState(m, "probe", false); (e != nil) != present {
		t.Fatalf("probe and oracle disagree: present=%v oracle=%v", present, e)
	}
	stats.Probe(t, findingA, "C19", present, fmt.Sprintf(
		"groupChain.remove writes index[count]=predecessor and never clears index[count-1]: genesis+A+B, remove B => Count()=%d but heights 0..%d read %v and GetSyncGroupsByHeight(%d,5) = %v",
		cnt, cnt+2, seen, cnt, sync))
}

// TestProbeCrashInsideSaveAndRemove enumerates every crash point strictly inside one add and one
// remove (fresh node each) and reports those after which the restarted store equals neither the
// state before nor the state after.
func TestProbeCrashInsideSaveAndRemove(t *testing.T) {
	if !shard0() {
		t.Skip("probe runs on shard 0 only")
	}
	var broken []string
	tried := 0
	for _, op := range []string{"add", "remove"} {
		// learn the number of writes
		total := int64(0)
		for nth := int64(2); nth == 2 || nth <= total; nth++ {
			n, m := startNode(t.Fatalf)
			a := newGroup(200, m.last().id, m.list[0].id)
			if err, p := doAdd(a); err != nil || p != nil {
				t.Fatalf("probe setup: %v %v", err, p)
			}
			m.add(a)
			before := m.clone()
			after := m.clone()
			b := newGroup(201, m.last().id, m.list[0].id)
			w0 := db.VerifWriteCount()
			db.VerifArmCrash(nth)
			if op == "add" {
				doAdd(b)
				after.add(b)
				before.absent = append(before.absent, b)
			} else {
				doRemove()
				after.removeLast()
			}
			dropped := db.VerifDisarm()
			total = db.VerifWriteCount() - w0
			if dropped == 0 || dropped == total {
				n.Stop()
				continue
			}
			tried++
			if err := n.Restart(); err != nil {
				broken = append(broken, fmt.Sprintf("%s crash at write %d/%d: node does not start again (%v)", op, nth, total, err))
				forceDown()
				n.Stop()
				continue
			}
			eb := checkState(before, "before", false)
			ea := checkState(after, "after", true) // F-C19-a's stale heights are not this probe's subject
			if eb != nil && ea != nil {
				broken = append(broken, fmt.Sprintf("%s crash at write %d/%d: vs state before {%v} vs state after {%v}", op, nth, total,
					strings.TrimPrefix(eb.Error(), "before: "), strings.TrimPrefix(ea.Error(), "after: ")))
			}
			n.Stop()
		}
	}
	stats.Count("probe_crash_points_inside", int64(tried))
	stats.Probe(t, findingB, "C19", len(broken) > 0, fmt.Sprintf(
		"groupChain.save / remove issue independent store writes (group, gcurrent, height index, gcount) with no intent record: %d of %d crash points strictly inside one AddGroup / one remove leave a store that a restart does not repair: %s",
		len(broken), tried, strings.Join(broken, " | ")))
}
