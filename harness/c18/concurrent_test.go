package c18

import (
	"fmt"
	"math/big"
	"sync"
	"testing"

	"pgregory.net/rapid"

	"com.tuntun.rangers/node/src/utility"

	"verifharness/internal/stats"
)

// The conversions are called from many goroutines of a node at once (balance queries of the RPC server, the
// transaction pool's checks, the block executor), each with its own arguments: what one call returns is a
// function of its arguments alone. A generated set of conversions with exactly known results (parse of a
// formatted amount; ledger -> token unit and back for amounts that are representable; several decimal
// counts side by side) is run from several goroutines at the same time, many times over; every single
// result must be the exact value.

type convTask struct {
	desc string
	run  func() (*big.Int, error)
	want *big.Int
}

func genConvTask(t *rapid.T) convTask {
	v := genUint256().Draw(t, "amount")
	d := int64(rapid.SampledFrom([]int{18, 18, 18, 6, 8, 0, 12, 17}).Draw(t, "decimals"))
	unit := new(big.Int).Exp(ten, big.NewInt(18-d), nil)
	switch rapid.SampledFrom([]string{"parse", "erc20", "rocket", "rocket"}).Draw(t, "entry") {
	case "parse":
		text := utility.BigIntToStr(v)
		return convTask{desc: fmt.Sprintf("StrToBigInt(%q)", text), want: v, run: func() (*big.Int, error) { return utility.StrToBigInt(text) }}
	case "erc20":
		m := new(big.Int).Quo(v, unit)
		w := new(big.Int).Mul(m, unit) // representable in the token's unit
		return convTask{desc: fmt.Sprintf("FormatDecimalForERC20(%s,%d)", w, d), want: m, run: func() (*big.Int, error) { return utility.FormatDecimalForERC20(new(big.Int).Set(w), d), nil }}
	default:
		m := new(big.Int).Quo(v, unit)
		return convTask{desc: fmt.Sprintf("FormatDecimalForRocket(%s,%d)", m, d), want: new(big.Int).Mul(m, unit), run: func() (*big.Int, error) { return utility.FormatDecimalForRocket(new(big.Int).Set(m), d), nil }}
	}
}

func TestConcurrentConversions(t *testing.T) {
	stats.Check(t, 300, 6000, func(t *rapid.T) {
		n := rapid.IntRange(2, 6).Draw(t, "goroutines")
		var tasks []convTask
		for i := 0; i < n; i++ {
			k := genConvTask(t)
			// alone first: the exact value (otherwise a wrong result below says nothing about concurrency)
			got, err := k.run()
			if err != nil || got == nil || got.Cmp(k.want) != 0 {
				t.Fatalf("%s returned %v (err %v) when called alone, exact value %s", k.desc, got, err, k.want)
			}
			tasks = append(tasks, k)
		}
		reps := rapid.SampledFrom([]int{50, 300, 1500}).Draw(t, "repetitions")
		var wg sync.WaitGroup
		var mu sync.Mutex
		failure := ""
		start := make(chan struct{})
		for i := range tasks {
			wg.Add(1)
			go func(k convTask) {
				defer wg.Done()
				defer func() {
					if p := recover(); p != nil {
						mu.Lock()
						failure = fmt.Sprintf("%s panicked while %d other conversions were running: %v", k.desc, n-1, p)
						mu.Unlock()
					}
				}()
				<-start
				for r := 0; r < reps; r++ {
					got, err := k.run()
					if err != nil || got == nil || got.Cmp(k.want) != 0 {
						mu.Lock()
						failure = fmt.Sprintf("%s returned %v (err %v) while %d other conversions were running in other goroutines (repetition %d); exact value, and the result when called alone: %s", k.desc, got, err, n-1, r, k.want)
						mu.Unlock()
						return
					}
				}
			}(tasks[i])
		}
		close(start)
		wg.Wait()
		if failure != "" {
			var all []string
			for _, k := range tasks {
				all = append(all, k.desc)
			}
			t.Fatalf("%s\nall conversions of the case: %v", failure, all)
		}
		key := ""
		if n >= 2 {
			key = fmt.Sprintf("conc|%s|%s|%d", tasks[0].desc, tasks[1].desc, n)
		}
		stats.Case(key, "law:concurrent_conversions", fmt.Sprintf("concurrent_goroutines:%d", n), fmt.Sprintf("concurrent_repetitions:%d", reps))
		stats.Count("concurrent_conversion_calls", int64(n*reps))
	})
}
