package c18

import (
	"crypto/ecdsa"
	"encoding/json"
	"fmt"
	"math/big"
	"strings"
	"testing"

	"com.tuntun.rangers/node/src/common"
	"com.tuntun.rangers/node/src/eth_crypto"
	"com.tuntun.rangers/node/src/eth_tx"
	"com.tuntun.rangers/node/src/executor"
	"com.tuntun.rangers/node/src/middleware/types"
	"com.tuntun.rangers/node/src/storage/rlp"
	"com.tuntun.rangers/node/src/utility"
	"pgregory.net/rapid"

	"verifharness/internal/stats"
)

func TestMain(m *testing.M) {
	stats.SetRule("integers: boundary-biased over [-(2^256-1), 2^256-1]; strings: sign? 1-78 int digits, optional '.', 0-18 fractional digits; " +
		"non-trivial = value with >=40 significant digits or >=1 fractional digit; distinct by (law, value/string)")
	stats.Assume("reference = exact big.Int arithmetic on decimal digit strings (no floats), written in the harness")
	common.Init(0, "1.ini", "dev") // writes 1.ini/logs into the scratch cwd
	stats.Main(m, "C18")
}

var (
	ten   = big.NewInt(10)
	e18   = new(big.Int).Exp(ten, big.NewInt(18), nil)
	max   = new(big.Int).Sub(new(big.Int).Lsh(big.NewInt(1), 256), big.NewInt(1))
	bound = func() []*big.Int {
		var l []*big.Int
		l = append(l, big.NewInt(0), big.NewInt(1), big.NewInt(2), new(big.Int).Set(max))
		for k := 0; k <= 78; k++ {
			p := new(big.Int).Exp(ten, big.NewInt(int64(k)), nil)
			l = append(l, p, new(big.Int).Sub(p, big.NewInt(1)), new(big.Int).Add(p, big.NewInt(1)))
		}
		for _, s := range []uint{8, 53, 63, 64, 65, 127, 128, 255, 256} {
			p := new(big.Int).Lsh(big.NewInt(1), s)
			l = append(l, p, new(big.Int).Sub(p, big.NewInt(1)), new(big.Int).Add(p, big.NewInt(1)))
		}
		var out []*big.Int
		for _, x := range l {
			if x.Sign() >= 0 && x.Cmp(max) <= 0 {
				out = append(out, x)
			}
		}
		return out
	}()
)

// genUint256 draws a boundary-biased value in [0, 2^256-1].
func genUint256() *rapid.Generator[*big.Int] {
	return rapid.Custom(func(t *rapid.T) *big.Int {
		switch rapid.IntRange(0, 3).Draw(t, "kind") {
		case 0:
			return new(big.Int).Set(rapid.SampledFrom(bound).Draw(t, "boundary"))
		case 1: // random digit string of generated length
			n := rapid.IntRange(1, 78).Draw(t, "ndigits")
			ds := rapid.StringOfN(rapid.RuneFrom([]rune("0123456789")), n, n, -1).Draw(t, "digits")
			v, _ := new(big.Int).SetString(ds, 10)
			if v.Cmp(max) > 0 {
				v.Mod(v, max)
			}
			return v
		case 2: // digits with long runs of 0 / 9 (carry chains)
			n := rapid.IntRange(1, 77).Draw(t, "ndigits")
			ds := rapid.StringOfN(rapid.RuneFrom([]rune("099")), n, n, -1).Draw(t, "digits09")
			v, _ := new(big.Int).SetString("1"+ds, 10)
			if v.Cmp(max) > 0 {
				v.Mod(v, max)
			}
			return v
		default:
			b := rapid.SliceOfN(rapid.Byte(), 0, 32).Draw(t, "bytes")
			return new(big.Int).SetBytes(b)
		}
	})
}

func sigDigits(v *big.Int) int { return len(strings.TrimLeft(new(big.Int).Abs(v).String(), "0")) }

func ntKey(law string, v *big.Int) string {
	if sigDigits(v) >= 40 || new(big.Int).Mod(new(big.Int).Abs(v), e18).Sign() != 0 {
		return law + ":" + v.String()
	}
	return ""
}

// refParse: exact value of a decimal string scaled by 10^18 (<=18 fractional digits).
func refParse(s string) *big.Int {
	neg := false
	if strings.HasPrefix(s, "-") {
		neg, s = true, s[1:]
	} else if strings.HasPrefix(s, "+") {
		s = s[1:]
	}
	ip, fp := s, ""
	if i := strings.IndexByte(s, '.'); i >= 0 {
		ip, fp = s[:i], s[i+1:]
	}
	fp = fp + strings.Repeat("0", 18-len(fp))
	if ip == "" {
		ip = "0"
	}
	v, ok := new(big.Int).SetString(ip+fp, 10)
	if !ok {
		panic("refParse: bad digits " + s)
	}
	if neg {
		v.Neg(v)
	}
	return v
}

// Law 1: StrToBigInt(BigIntToStr(n)) == n, for the full signed range, and the string is the
// exact decimal rendering (checked against the reference parser too).
func TestFormatParseRoundTrip(t *testing.T) {
	stats.Check(t, 20000, 200000, func(t *rapid.T) {
		n := genUint256().Draw(t, "n")
		if rapid.IntRange(0, 4).Draw(t, "neg") == 0 {
			n = new(big.Int).Neg(n)
		}
		s := utility.BigIntToStr(n)
		got, err := utility.StrToBigInt(s)
		stats.Case(ntKey("rt", n), "roundtrip")
		stats.Sample(map[string]string{"law": "roundtrip", "n": n.String(), "str": s})
		if err != nil {
			t.Fatalf("StrToBigInt(BigIntToStr(%s)=%q) error: %v", n, s, err)
		}
		if got.Cmp(n) != 0 {
			t.Fatalf("round trip: n=%s str=%q parsed=%s", n, s, got)
		}
		if refParse(s).Cmp(n) != 0 {
			t.Fatalf("BigIntToStr(%s)=%q does not denote n (reference reads %s)", n, s, refParse(s))
		}
		if w := utility.BigIntToStrWithoutDot(n); n.Sign() != 0 {
			q := new(big.Int).Quo(n, e18) // truncation toward zero
			want := q.String()
			if q.Sign() == 0 && n.Sign() < 0 {
				want = "-0"
			}
			if w != want {
				t.Fatalf("BigIntToStrWithoutDot(%s)=%q want %q", n, w, want)
			}
		}
		if bs := utility.BigIntBytesToStr(new(big.Int).Abs(n).Bytes()); bs != utility.BigIntToStr(new(big.Int).Abs(n)) {
			t.Fatalf("BigIntBytesToStr mismatch for %s: %q", n, bs)
		}
	})
}

func genDecString() *rapid.Generator[string] {
	digits := []rune("0123456789")
	return rapid.Custom(func(t *rapid.T) string {
		sign := rapid.SampledFrom([]string{"", "", "", "-", "+"}).Draw(t, "sign")
		ni := rapid.IntRange(0, 78).Draw(t, "nint")
		nf := rapid.IntRange(0, 18).Draw(t, "nfrac")
		style := rapid.IntRange(0, 3).Draw(t, "style")
		alphabet := digits
		if style == 1 {
			alphabet = []rune("09")
		} else if style == 2 {
			alphabet = []rune("0001")
		}
		ip := rapid.StringOfN(rapid.RuneFrom(alphabet), ni, ni, -1).Draw(t, "int")
		fp := rapid.StringOfN(rapid.RuneFrom(alphabet), nf, nf, -1).Draw(t, "frac")
		dot := nf > 0 || rapid.Bool().Draw(t, "trailingdot")
		if ip == "" && fp == "" {
			ip = "0"
		}
		s := sign + ip
		if dot {
			s += "." + fp
		}
		return s
	})
}

// Law 2: parsing a decimal string with <=18 fractional digits gives exactly the integer it denotes.
func TestParseExact(t *testing.T) {
	stats.Check(t, 20000, 200000, func(t *rapid.T) {
		s := genDecString().Draw(t, "s")
		want := refParse(s)
		got, err := utility.StrToBigInt(s)
		key := ""
		if strings.Contains(s, ".") && !strings.HasSuffix(s, ".") || sigDigits(want) >= 40 {
			key = "parse:" + s
		}
		stats.Case(key, "parse")
		stats.Sample(map[string]string{"law": "parse", "s": s, "want": want.String()})
		if err != nil {
			t.Fatalf("StrToBigInt(%q) error %v, reference %s", s, err, want)
		}
		if got.Cmp(want) != 0 {
			t.Fatalf("StrToBigInt(%q)=%s, exact value %s", s, got, want)
		}
	})
}

// Law 3: 18-decimal rescaling is the identity; d-decimal rescaling is exact on multiples of 10^(18-d).
func TestRescale(t *testing.T) {
	stats.Check(t, 15000, 150000, func(t *rapid.T) {
		n := genUint256().Draw(t, "n")
		d := int64(rapid.IntRange(0, 18).Draw(t, "d"))
		stats.Case(ntKey(fmt.Sprintf("rescale%d", d), n), fmt.Sprintf("rescale_d%02d", d))
		if a := utility.FormatDecimalForERC20(n, 18); a.Cmp(n) != 0 {
			t.Fatalf("FormatDecimalForERC20(%s,18)=%s", n, a)
		}
		if a := utility.FormatDecimalForRocket(n, 18); a.Cmp(n) != 0 {
			t.Fatalf("FormatDecimalForRocket(%s,18)=%s", n, a)
		}
		unit := new(big.Int).Exp(ten, big.NewInt(18-d), nil)
		// token -> ledger is multiplication by 10^(18-d), exact, for any token amount that fits
		m := new(big.Int).Quo(n, unit) // a token amount whose ledger value fits 256 bits
		back := utility.FormatDecimalForRocket(m, d)
		if want := new(big.Int).Mul(m, unit); back.Cmp(want) != 0 {
			t.Fatalf("FormatDecimalForRocket(%s,%d)=%s want %s", m, d, back, want)
		}
		// round trip on multiples
		mult := new(big.Int).Mul(m, unit)
		if tok := utility.FormatDecimalForERC20(mult, d); tok.Cmp(m) != 0 {
			t.Fatalf("FormatDecimalForERC20(%s,%d)=%s want %s", mult, d, tok, m)
		}
		if rt := utility.FormatDecimalForRocket(utility.FormatDecimalForERC20(mult, d), d); rt.Cmp(mult) != 0 {
			t.Fatalf("rescale round trip n=%s d=%d got %s", mult, d, rt)
		}
	})
}

var key1, _ = eth_crypto.HexToECDSA("b71c71a67e1177ad4e901695e1b4b9ee17ae16c6668d313eac2f96dbcda3f291")

// Law 4 (end to end): the value of an EIP-155 transaction reaches the EVM unchanged through
// eth_tx.ConvertTx -> JSON -> contractExecutor.decodeContractData.
func TestEthValueEndToEnd(t *testing.T) {
	chainID := big.NewInt(9500)
	signer := eth_tx.NewEIP155Signer(chainID)
	stats.Check(t, 3000, 30000, func(t *rapid.T) {
		v := genUint256().Draw(t, "value")
		gas := rapid.Uint64Range(1, 1<<40).Draw(t, "gas")
		var tx *eth_tx.Transaction
		if rapid.Bool().Draw(t, "create") {
			tx = eth_tx.NewContractCreation(rapid.Uint64().Draw(t, "nonce"), v, gas, big.NewInt(1000000000), []byte{1, 2})
		} else {
			tx = eth_tx.NewTransaction(rapid.Uint64().Draw(t, "nonce"), common.HexToAddress("0x1111111111111111111111111111111111111111"), v, gas, big.NewInt(1000000000), nil)
		}
		stx, err := eth_tx.SignTx(tx, signer, (*ecdsa.PrivateKey)(key1))
		if err != nil {
			t.Fatalf("sign: %v", err)
		}
		enc, err := rlp.EncodeToBytes(stx)
		if err != nil {
			t.Fatalf("rlp: %v", err)
		}
		var dec eth_tx.Transaction
		if err := rlp.DecodeBytes(enc, &dec); err != nil {
			t.Fatalf("rlp decode: %v", err)
		}
		sender, err := eth_tx.Sender(signer, &dec)
		if err != nil {
			t.Fatalf("sender: %v", err)
		}
		wrapped := eth_tx.ConvertTx(&dec, sender, enc)
		var cd types.ContractData
		if err := json.Unmarshal([]byte(wrapped.Data), &cd); err != nil {
			t.Fatalf("json: %v", err)
		}
		raw, msg := executor.VerifDecodeContractData(wrapped.Data)
		stats.Case(ntKey("e2e", v), "e2e")
		stats.Sample(map[string]string{"law": "e2e", "value": v.String(), "transferValue": cd.TransferValue})
		if raw == nil {
			t.Fatalf("decodeContractData rejected %q: %s", wrapped.Data, msg)
		}
		if raw.TransferValue.Cmp(v) != 0 {
			t.Fatalf("value %s reached the EVM as %s (string %q)", v, raw.TransferValue, cd.TransferValue)
		}
		if raw.GasLimit != gas {
			t.Fatalf("gas %d reached the EVM as %d", gas, raw.GasLimit)
		}
	})
}

// Law 5 (histories): every conversion is a function of its arguments only. Sequences of conversions over a
// small pool of amounts, so that the same amount (and the same decimal text) comes back under different
// decimal counts and through different entry points; each result is compared with integer arithmetic.
func TestConversionSequences(t *testing.T) {
	stats.Check(t, 3000, 40000, func(t *rapid.T) {
		pool := []*big.Int{}
		for i, n := 0, rapid.IntRange(1, 3).Draw(t, "poolSize"); i < n; i++ {
			v := genUint256().Draw(t, "amount")
			if rapid.Bool().Draw(t, "roundAmount") {
				// a multiple of 10^18: exact under every decimal count
				v = new(big.Int).Mul(new(big.Int).Quo(v, new(big.Int).Exp(ten, big.NewInt(18), nil)), new(big.Int).Exp(ten, big.NewInt(18), nil))
			}
			pool = append(pool, v)
		}
		var trace []string
		sameTextOtherDecimal := false
		lastText, lastDec := "", int64(-1)
		steps := rapid.IntRange(2, 8).Draw(t, "steps")
		for i := 0; i < steps; i++ {
			v := rapid.SampledFrom(pool).Draw(t, "which")
			d := int64(rapid.SampledFrom([]int{18, 18, 6, 8, 0, 12, 17}).Draw(t, "decimals"))
			unit := new(big.Int).Exp(ten, big.NewInt(18-d), nil)
			var got, want *big.Int
			var text string
			var parsedAt int64
			switch rapid.SampledFrom([]string{"parse", "erc20", "rocket", "bytes"}).Draw(t, "entry") {
			case "parse":
				text, parsedAt = utility.BigIntToStr(v), 18
				g, err := utility.StrToBigInt(text)
				if err != nil {
					t.Fatalf("StrToBigInt(%q): %v\nearlier calls: %v", text, err, trace)
				}
				got, want = g, v
				trace = append(trace, fmt.Sprintf("StrToBigInt(BigIntToStr(%s))", v))
			case "erc20":
				text, parsedAt = utility.BigIntToStr(v), d
				got = utility.FormatDecimalForERC20(v, d)
				want = new(big.Int).Quo(v, unit) // ledger -> token unit; exact on multiples, truncating otherwise
				if new(big.Int).Mod(v, unit).Sign() != 0 {
					want = nil // the statement is silent on non-representable amounts
				}
				trace = append(trace, fmt.Sprintf("FormatDecimalForERC20(%s,%d)", v, d))
			case "rocket":
				m := new(big.Int).Quo(v, unit) // a token amount whose ledger value fits
				text, parsedAt = "", 18
				got = utility.FormatDecimalForRocket(m, d)
				want = new(big.Int).Mul(m, unit)
				trace = append(trace, fmt.Sprintf("FormatDecimalForRocket(%s,%d)", m, d))
			default:
				text, parsedAt = utility.BigIntToStr(v), 18
				if s := utility.BigIntBytesToStr(v.Bytes()); s != text {
					t.Fatalf("BigIntBytesToStr(%x)=%q, BigIntToStr gives %q\nearlier calls: %v", v.Bytes(), s, text, trace)
				}
				g, err := utility.StrToBigInt(text)
				if err != nil {
					t.Fatalf("StrToBigInt(%q): %v\nearlier calls: %v", text, err, trace)
				}
				got, want = g, v
				trace = append(trace, fmt.Sprintf("StrToBigInt(BigIntBytesToStr(%s))", v))
			}
			if text != "" && text == lastText && parsedAt != lastDec && v.Sign() != 0 {
				sameTextOtherDecimal = true
			}
			if text != "" {
				lastText, lastDec = text, parsedAt
			} else {
				lastText, lastDec = "", -1
			}
			if want != nil && got.Cmp(want) != 0 {
				t.Fatalf("call %d of the sequence returned %s, exact value %s\ncalls so far: %v", i+1, got, want, trace)
			}
		}
		key := ""
		if sameTextOtherDecimal {
			key = fmt.Sprintf("seq|%v", trace)
		}
		cls := "seq:no_repeated_text"
		if sameTextOtherDecimal {
			cls = "seq:same_text_parsed_under_another_decimal_count_next"
		}
		stats.Case(key, "law:sequences", cls)
		if len(trace) <= 3 {
			stats.Sample(map[string]interface{}{"law": "sequences", "calls": trace})
		}
	})
}
