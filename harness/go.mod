module verifharness

go 1.23

require (
	com.tuntun.rangers/node v0.0.0
	github.com/gogo/protobuf v1.3.1
	golang.org/x/crypto v0.0.0-20210711020723-a769d52b0f97
	pgregory.net/rapid v1.3.0
)

require (
	github.com/VictoriaMetrics/fastcache v1.5.7 // indirect
	github.com/cespare/xxhash/v2 v2.1.1 // indirect
	github.com/cihub/seelog v0.0.0-20170130134532-f561c5e57575 // indirect
	github.com/glacjay/goini v0.0.0-20161120062552-fd3024d87ee2 // indirect
	github.com/gogf/gf v1.16.9 // indirect
	github.com/golang/protobuf v1.4.2 // indirect
	github.com/golang/snappy v0.0.1 // indirect
	github.com/gorilla/websocket v1.4.2 // indirect
	github.com/hashicorp/golang-lru v0.5.4 // indirect
	github.com/holiman/uint256 v1.1.1 // indirect
	github.com/mattn/go-sqlite3 v1.10.0 // indirect
	github.com/minio/sha256-simd v0.1.1 // indirect
	github.com/oleiade/lane v1.0.1 // indirect
	github.com/pkg/errors v0.9.1 // indirect
	github.com/syndtr/goleveldb v1.0.0 // indirect
	golang.org/x/sys v0.0.0-20210806184541-e5e7981a1069 // indirect
	google.golang.org/protobuf v1.23.0 // indirect
)

replace com.tuntun.rangers/node => /repo
