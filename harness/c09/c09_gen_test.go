package c09

// Generators for domain A (node-producible values) and domain B (arbitrary in-memory values),
// and the field-by-field comparison used by every law.

import (
	"bytes"
	"fmt"
	"math/big"
	"time"

	"com.tuntun.rangers/node/src/common"
	"com.tuntun.rangers/node/src/middleware/types"
	"pgregory.net/rapid"
)

// ---------- primitive generators ----------

func genU64(t *rapid.T, label string) uint64 {
	switch rapid.IntRange(0, 3).Draw(t, label+"_k") {
	case 0:
		return rapid.SampledFrom([]uint64{0, 1, 0x7f, 0x80, 1<<32 - 1, 1 << 32, 1<<63 - 1, 1 << 63, ^uint64(0)}).Draw(t, label+"_edge")
	default:
		return rapid.Uint64().Draw(t, label) >> uint(rapid.IntRange(0, 63).Draw(t, label+"_sh"))
	}
}

func genI32(t *rapid.T, label string) int32 {
	switch rapid.IntRange(0, 2).Draw(t, label+"_k") {
	case 0:
		return rapid.SampledFrom([]int32{0, 1, -1, 2, 99, 100, 188, 200, 600, 612, 1<<31 - 1, -1 << 31}).Draw(t, label+"_edge")
	default:
		return rapid.Int32().Draw(t, label)
	}
}

func genHash(t *rapid.T, label string) common.Hash {
	var h common.Hash
	switch rapid.IntRange(0, 5).Draw(t, label+"_k") {
	case 0: // zero
	case 1:
		for i := range h {
			h[i] = 0xff
		}
	case 2: // leading zero bytes
		n := rapid.IntRange(1, 31).Draw(t, label+"_lz")
		copy(h[n:], rapid.SliceOfN(rapid.Byte(), 32-n, 32-n).Draw(t, label+"_tail"))
	default:
		copy(h[:], rapid.SliceOfN(rapid.Byte(), 32, 32).Draw(t, label))
	}
	return h
}

// byte field: absent (nil) / empty / short / leading zeros / random
func genBytesField(t *rapid.T, label string, max int) []byte {
	switch rapid.IntRange(0, 6).Draw(t, label+"_k") {
	case 0:
		return nil
	case 1:
		return []byte{}
	case 2:
		return []byte{0}
	case 3:
		n := rapid.IntRange(1, max).Draw(t, label+"_n")
		b := make([]byte, n)
		copy(b[n/2:], rapid.SliceOfN(rapid.Byte(), n-n/2, n-n/2).Draw(t, label+"_tail"))
		return b
	default:
		return rapid.SliceOfN(rapid.Byte(), 1, max).Draw(t, label)
	}
}

var asciiHex = []rune("0123456789abcdef")

func genAddr(t *rapid.T, label string) string {
	switch rapid.IntRange(0, 5).Draw(t, label+"_k") {
	case 0:
		return ""
	case 1:
		return rapid.String().Draw(t, label+"_uni")
	default:
		return "0x" + rapid.StringOfN(rapid.SampledFrom(asciiHex), 40, 40, -1).Draw(t, label)
	}
}

func genText(t *rapid.T, label string) string {
	switch rapid.IntRange(0, 5).Draw(t, label+"_k") {
	case 0:
		return ""
	case 1:
		return `{"gasLimit":"200000","transferValue":"1.5","abiData":"0xa9059cbb"}`
	case 2:
		return rapid.SampledFrom([]string{"汉字 テスト", "\u0000", "a b", "é", "\U0001F600 x", " ", "�"}).Draw(t, label+"_uni")
	default:
		return rapid.String().Draw(t, label)
	}
}

// zone offsets (seconds east of UTC). cls describes the class for the histogram.
func genZone(t *rapid.T, label string, exotic bool) (*time.Location, string) {
	k := rapid.IntRange(0, 9).Draw(t, label+"_k")
	switch {
	case k <= 1:
		return time.UTC, "utc"
	case k <= 4:
		return time.FixedZone("CST", 8*3600), "cst+8" // what utility.GetTime() produces
	case k <= 6:
		q := rapid.IntRange(-48, 56).Draw(t, label+"_q") // -12:00 .. +14:00 in quarter hours
		if q == 0 {
			return time.FixedZone("Z0", 0), "fixed0"
		}
		return time.FixedZone("", q*900), "quarter_hour"
	case k == 7:
		return time.FixedZone("", rapid.IntRange(1, 14*3600).Draw(t, label+"_ps")), "positive_with_seconds"
	case k == 8 && exotic:
		return time.FixedZone("", -rapid.IntRange(1, 12*3600).Draw(t, label+"_ns")), "negative_any"
	default:
		return time.FixedZone("", -60*rapid.IntRange(2, 720).Draw(t, label+"_nm")), "negative_minutes"
	}
}

// realistic instants: year 1 .. 9999 so that the JSON form (RFC 3339) of the header exists
const minSec, maxSec = -62135596800 + 86400, 253402300799 - 86400*2

func genTime(t *rapid.T, label string, exotic bool) (time.Time, string) {
	if rapid.IntRange(0, 9).Draw(t, label+"_zero") == 0 {
		if rapid.Bool().Draw(t, label+"_zeroInZone") {
			// the zero instant shown in a zone: IsZero() is true, yet it is not the value time.Time{} (other offset,
			// other text form, other header hash)
			loc, zc := genZone(t, label+"_zz", exotic)
			return time.Time{}.In(loc), "zero_instant_in_zone_" + zc
		}
		return time.Time{}, "zero_time"
	}
	var sec int64
	switch rapid.IntRange(0, 3).Draw(t, label+"_sk") {
	case 0:
		sec = rapid.Int64Range(minSec, maxSec).Draw(t, label+"_sec")
	case 1:
		sec = rapid.SampledFrom([]int64{0, -1, 1, minSec, maxSec, 1638835200}).Draw(t, label+"_secedge")
	default:
		sec = rapid.Int64Range(1500000000, 1900000000).Draw(t, label+"_now")
	}
	var nsec int64
	switch rapid.IntRange(0, 3).Draw(t, label+"_nk") {
	case 0:
		nsec = 0
	case 1:
		nsec = rapid.SampledFrom([]int64{1, 999999999, 1000000, 500, 123456789}).Draw(t, label+"_nsedge")
	default:
		nsec = rapid.Int64Range(0, 999999999).Draw(t, label+"_ns")
	}
	loc, zc := genZone(t, label+"_z", exotic)
	cls := zc
	if nsec != 0 {
		cls += "+subsecond"
	}
	return time.Unix(sec, nsec).In(loc), cls
}

// timeCodecFaithful: does Go's own binary time codec (which the wire format uses) preserve this
// instant and zone offset? Defines the shape of F-C09-c independently of the node code.
func timeCodecFaithful(x time.Time) bool {
	b, err := x.MarshalBinary()
	if err != nil {
		return false
	}
	var y time.Time
	if y.UnmarshalBinary(b) != nil {
		return false
	}
	_, ox := x.Zone()
	_, oy := y.Zone()
	return x.Equal(y) && ox == oy
}

func genProve(t *rapid.T) (*big.Int, string) {
	switch rapid.IntRange(0, 7).Draw(t, "pv_k") {
	case 0:
		return big.NewInt(0), "pv_zero"
	case 1:
		return new(big.Int).SetUint64(genU64(t, "pv_small")), "pv_small"
	case 2, 3: // 80-byte proof with leading zero bytes: big.Int drops them
		n := rapid.IntRange(1, 12).Draw(t, "pv_lz")
		b := make([]byte, 80)
		copy(b[n:], rapid.SliceOfN(rapid.Byte(), 80-n, 80-n).Draw(t, "pv_tail"))
		if b[n] == 0 {
			b[n] = 1
		}
		return new(big.Int).SetBytes(b), "pv_80byte_leading_zeros"
	case 4:
		return nil, "pv_nil"
	default:
		b := rapid.SliceOfN(rapid.Byte(), 80, 80).Draw(t, "pv")
		return new(big.Int).SetBytes(b), "pv_80byte"
	}
}

func genRequestIds(t *rapid.T) map[string]uint64 {
	switch rapid.IntRange(0, 4).Draw(t, "rid_k") {
	case 0:
		return nil
	case 1:
		return map[string]uint64{}
	}
	n := rapid.IntRange(1, 4).Draw(t, "rid_n")
	m := map[string]uint64{}
	for i := 0; i < n; i++ {
		k := rapid.SampledFrom([]string{"fixed", "", "0x2c616a97d3d10e008f901b392986b1a65e0abbb7", "键", "a b", "\"q\"", "<>&"}).Draw(t, "rid_key")
		if rapid.Bool().Draw(t, "rid_rand") {
			k = rapid.String().Draw(t, "rid_rkey")
		}
		m[k] = genU64(t, "rid_v")
	}
	return m
}

// ---------- domain A: node-producible values ----------

func genHeaderA(t *rapid.T, exotic bool) (*types.BlockHeader, []string) {
	var cls []string
	h := &types.BlockHeader{}
	h.Height = genU64(t, "height")
	h.PreHash = genHash(t, "prehash")
	var c1, c2 string
	h.PreTime, c1 = genTime(t, "pretime", exotic)
	h.CurTime, c2 = genTime(t, "curtime", exotic)
	cls = append(cls, "A_time:"+c1, "A_time:"+c2)
	var pc string
	h.ProveValue, pc = genProve(t)
	cls = append(cls, "A_"+pc)
	h.TotalQN = genU64(t, "totalqn")
	h.Castor = genBytesField(t, "castor", 32)
	h.GroupId = genBytesField(t, "groupid", 32)
	h.Signature = genBytesField(t, "signature", 33)
	h.Nonce = genU64(t, "nonce")
	h.RequestIds = genRequestIds(t)
	h.Transactions = []common.Hashes{} // the node never leaves these nil ("important!!" in genesis_block.go)
	for i, n := 0, rapid.IntRange(0, 4).Draw(t, "ntx"); i < n; i++ {
		h.Transactions = append(h.Transactions, common.Hashes{genHash(t, "txh"), genHash(t, "txsub")})
	}
	h.EvictedTxs = []common.Hash{}
	for i, n := 0, rapid.IntRange(0, 3).Draw(t, "nev"); i < n; i++ {
		h.EvictedTxs = append(h.EvictedTxs, genHash(t, "ev"))
	}
	h.TxTree = genHash(t, "txtree")
	h.ReceiptTree = genHash(t, "receipttree")
	h.StateTree = genHash(t, "statetree")
	h.ExtraData = genBytesField(t, "extra", 40)
	h.Random = genBytesField(t, "random", 33)
	h.Hash = h.GenHash()
	return h, cls
}

func genSubTxs(t *rapid.T) []types.UserData {
	switch rapid.IntRange(0, 3).Draw(t, "sub_k") {
	case 0:
		return nil
	case 1:
		return []types.UserData{}
	}
	genMap := func(label string) map[string]string {
		if rapid.Bool().Draw(t, label+"_nil") {
			return nil
		}
		m := map[string]string{}
		for i, n := 0, rapid.IntRange(1, 3).Draw(t, label+"_n"); i < n; i++ {
			m[genText(t, label+"_k")] = genText(t, label+"_v")
		}
		return m
	}
	var out []types.UserData
	for i, n := 0, rapid.IntRange(1, 3).Draw(t, "sub_n"); i < n; i++ {
		u := types.UserData{Address: genU64(t, "sub_addr")}
		u.Balance = rapid.SampledFrom([]string{"", "1", "0.000000001", "-3"}).Draw(t, "sub_bal")
		u.Coin = genMap("sub_coin")
		u.FT = genMap("sub_ft")
		u.Assets = genMap("sub_assets")
		out = append(out, u)
	}
	return out
}

func genSign(t *rapid.T) *common.Sign {
	b := make([]byte, 65)
	switch rapid.IntRange(0, 3).Draw(t, "sign_k") {
	case 0: // r and s with leading zero bytes
		copy(b[3:32], rapid.SliceOfN(rapid.Byte(), 29, 29).Draw(t, "sign_r"))
		copy(b[40:64], rapid.SliceOfN(rapid.Byte(), 24, 24).Draw(t, "sign_s"))
	case 1: // all zero
	default:
		copy(b, rapid.SliceOfN(rapid.Byte(), 65, 65).Draw(t, "sign"))
	}
	b[64] = rapid.SampledFrom([]byte{0, 1, 2, 3, 27, 28, 255}).Draw(t, "sign_v")
	return common.BytesToSign(b)
}

func genTxA(t *rapid.T) (*types.Transaction, []string) {
	tx := &types.Transaction{}
	tx.Source = genAddr(t, "source")
	tx.Target = genAddr(t, "target")
	tx.Type = genI32(t, "type")
	tx.Time = rapid.SampledFrom([]string{"", "1556076659050692000", "2024-01-02 03:04:05", "时间"}).Draw(t, "time")
	tx.Data = genText(t, "data")
	tx.ExtraData = genText(t, "extradata")
	tx.ExtraDataType = genI32(t, "extradatatype")
	tx.SubTransactions = genSubTxs(t)
	tx.SubHash = genHash(t, "subhash")
	tx.Nonce = genU64(t, "nonce")
	tx.RequestId = genU64(t, "requestid")
	tx.ChainId = rapid.SampledFrom([]string{"", "2025", "9527", "0x7e9"}).Draw(t, "chainid")
	tx.Hash = tx.GenHash()
	cls := []string{}
	if rapid.IntRange(0, 2).Draw(t, "hasSign") > 0 {
		tx.Sign = genSign(t)
		cls = append(cls, "A_tx_signed")
	} else {
		cls = append(cls, "A_tx_unsigned")
	}
	if len(tx.SubTransactions) > 0 {
		cls = append(cls, "A_tx_with_subtx")
	}
	return tx, cls
}

func genGroupA(t *rapid.T, exotic bool) (*types.Group, []string) {
	gh := &types.GroupHeader{}
	gh.Parent = genBytesField(t, "parent", 32)
	gh.PreGroup = genBytesField(t, "pregroup", 32)
	gh.CreateBlockHash = genBytesField(t, "createblockhash", 32)
	var tc string
	gh.BeginTime, tc = genTime(t, "begintime", exotic)
	gh.MemberRoot = genHash(t, "memberroot")
	gh.CreateHeight = genU64(t, "createheight")
	gh.Extends = genText(t, "extends")
	// derived heights: not on the wire by design (AddGroup recomputes them from CreateHeight)
	gh.ReadyHeight = genU64(t, "ready")
	gh.WorkHeight = genU64(t, "work")
	gh.DismissHeight = genU64(t, "dismiss")
	gh.Hash = gh.GenHash()
	g := &types.Group{Header: gh}
	g.Id = genBytesField(t, "gid", 32)
	g.PubKey = genBytesField(t, "gpk", 128)
	g.Signature = genBytesField(t, "gsig", 33)
	n := rapid.IntRange(0, 10).Draw(t, "nmem")
	for i := 0; i < n; i++ {
		g.Members = append(g.Members, rapid.SliceOfN(rapid.Byte(), 0, 32).Draw(t, "member"))
	}
	g.GroupHeight = genU64(t, "groupheight")
	return g, []string{"A_time:" + tc, fmt.Sprintf("A_group_members_%d", bucket(n))}
}

func bucket(n int) int {
	switch {
	case n <= 1:
		return n
	case n <= 4:
		return 2
	default:
		return 5
	}
}

// ---------- comparison ----------

func eqBytesStrict(a, b []byte) bool { return bytes.Equal(a, b) && (a == nil) == (b == nil) }

func eqTime(a, b time.Time) bool {
	_, oa := a.Zone()
	_, ob := b.Zone()
	return a.Equal(b) && oa == ob
}

func eqBig(a, b *big.Int) bool {
	if a == nil || b == nil {
		return a == nil && b == nil
	}
	return a.Cmp(b) == 0
}

func eqStrMap(a, b map[string]string) bool { // empty == nil: same content
	if len(a) != len(b) {
		return false
	}
	for k, v := range a {
		if w, ok := b[k]; !ok || w != v {
			return false
		}
	}
	return true
}

// eqHeader: "" when equal, else the first differing field.
func eqHeader(a, b *types.BlockHeader) string {
	if a == nil || b == nil {
		if a == nil && b == nil {
			return ""
		}
		return "nilness"
	}
	switch {
	case a.Hash != b.Hash:
		return "Hash"
	case a.Height != b.Height:
		return "Height"
	case a.PreHash != b.PreHash:
		return "PreHash"
	case !eqTime(a.PreTime, b.PreTime):
		return fmt.Sprintf("PreTime %v vs %v", a.PreTime, b.PreTime)
	case !eqBig(a.ProveValue, b.ProveValue):
		return fmt.Sprintf("ProveValue %v vs %v", a.ProveValue, b.ProveValue)
	case a.TotalQN != b.TotalQN:
		return "TotalQN"
	case !eqTime(a.CurTime, b.CurTime):
		return fmt.Sprintf("CurTime %v vs %v", a.CurTime, b.CurTime)
	case !eqBytesStrict(a.Castor, b.Castor):
		return fmt.Sprintf("Castor %#v vs %#v", a.Castor, b.Castor)
	case !eqBytesStrict(a.GroupId, b.GroupId):
		return fmt.Sprintf("GroupId %#v vs %#v", a.GroupId, b.GroupId)
	case !eqBytesStrict(a.Signature, b.Signature):
		return fmt.Sprintf("Signature %#v vs %#v", a.Signature, b.Signature)
	case a.Nonce != b.Nonce:
		return "Nonce"
	case a.TxTree != b.TxTree:
		return "TxTree"
	case a.ReceiptTree != b.ReceiptTree:
		return "ReceiptTree"
	case a.StateTree != b.StateTree:
		return "StateTree"
	case !eqBytesStrict(a.ExtraData, b.ExtraData):
		return fmt.Sprintf("ExtraData %#v vs %#v", a.ExtraData, b.ExtraData)
	case !eqBytesStrict(a.Random, b.Random):
		return fmt.Sprintf("Random %#v vs %#v", a.Random, b.Random)
	}
	if (a.RequestIds == nil) != (b.RequestIds == nil) || len(a.RequestIds) != len(b.RequestIds) {
		return fmt.Sprintf("RequestIds %#v vs %#v", a.RequestIds, b.RequestIds)
	}
	for k, v := range a.RequestIds {
		if w, ok := b.RequestIds[k]; !ok || v != w {
			return fmt.Sprintf("RequestIds[%q] %#v vs %#v", k, a.RequestIds, b.RequestIds)
		}
	}
	if (a.Transactions == nil) != (b.Transactions == nil) || len(a.Transactions) != len(b.Transactions) {
		return fmt.Sprintf("Transactions nil/len %v/%d vs %v/%d", a.Transactions == nil, len(a.Transactions), b.Transactions == nil, len(b.Transactions))
	}
	for i := range a.Transactions {
		if a.Transactions[i] != b.Transactions[i] {
			return fmt.Sprintf("Transactions[%d] %x vs %x", i, a.Transactions[i], b.Transactions[i])
		}
	}
	if (a.EvictedTxs == nil) != (b.EvictedTxs == nil) || len(a.EvictedTxs) != len(b.EvictedTxs) {
		return "EvictedTxs nil/len"
	}
	for i := range a.EvictedTxs {
		if a.EvictedTxs[i] != b.EvictedTxs[i] {
			return fmt.Sprintf("EvictedTxs[%d]", i)
		}
	}
	return ""
}

func eqSign(a, b *common.Sign) bool {
	if a == nil || b == nil {
		return a == nil && b == nil
	}
	return bytes.Equal(a.Bytes(), b.Bytes())
}

// eqTx compares every field the wire format transports. SocketRequestId is a node-local
// correlation id of the client connection: the encoder never writes it (documented assumption).
func eqTx(a, b *types.Transaction) string {
	switch {
	case a.Source != b.Source:
		return fmt.Sprintf("Source %q vs %q", a.Source, b.Source)
	case a.Target != b.Target:
		return fmt.Sprintf("Target %q vs %q", a.Target, b.Target)
	case a.Type != b.Type:
		return fmt.Sprintf("Type %d vs %d", a.Type, b.Type)
	case a.Time != b.Time:
		return fmt.Sprintf("Time %q vs %q", a.Time, b.Time)
	case a.Data != b.Data:
		return fmt.Sprintf("Data %q vs %q", a.Data, b.Data)
	case a.ExtraData != b.ExtraData:
		return fmt.Sprintf("ExtraData %q vs %q", a.ExtraData, b.ExtraData)
	case a.ExtraDataType != b.ExtraDataType:
		return "ExtraDataType"
	case a.SubHash != b.SubHash:
		return fmt.Sprintf("SubHash %x vs %x", a.SubHash, b.SubHash)
	case a.Hash != b.Hash:
		return "Hash"
	case !eqSign(a.Sign, b.Sign):
		return "Sign"
	case a.Nonce != b.Nonce:
		return fmt.Sprintf("Nonce %d vs %d", a.Nonce, b.Nonce)
	case a.RequestId != b.RequestId:
		return fmt.Sprintf("RequestId %d vs %d", a.RequestId, b.RequestId)
	case a.ChainId != b.ChainId:
		return fmt.Sprintf("ChainId %q vs %q", a.ChainId, b.ChainId)
	}
	if len(a.SubTransactions) != len(b.SubTransactions) {
		return fmt.Sprintf("SubTransactions len %d vs %d", len(a.SubTransactions), len(b.SubTransactions))
	}
	for i := range a.SubTransactions {
		x, y := a.SubTransactions[i], b.SubTransactions[i]
		if x.Address != y.Address || x.Balance != y.Balance || !eqStrMap(x.Coin, y.Coin) || !eqStrMap(x.FT, y.FT) || !eqStrMap(x.Assets, y.Assets) {
			return fmt.Sprintf("SubTransactions[%d] %+v vs %+v", i, x, y)
		}
	}
	return ""
}

func eqTxs(a, b []*types.Transaction) string {
	if len(a) != len(b) {
		return fmt.Sprintf("len %d vs %d", len(a), len(b))
	}
	for i := range a {
		if (a[i] == nil) != (b[i] == nil) {
			return fmt.Sprintf("[%d] nilness", i)
		}
		if a[i] != nil {
			if d := eqTx(a[i], b[i]); d != "" {
				return fmt.Sprintf("[%d].%s", i, d)
			}
		}
	}
	return ""
}

func eqBlock(a, b *types.Block) string {
	if d := eqHeader(a.Header, b.Header); d != "" {
		return "Header." + d
	}
	if d := eqTxs(a.Transactions, b.Transactions); d != "" {
		return "Transactions" + d
	}
	return ""
}

// eqGroup ignores ReadyHeight/WorkHeight/DismissHeight (derived, deliberately not transported).
func eqGroup(a, b *types.Group) string {
	x, y := a.Header, b.Header
	switch {
	case x.Hash != y.Hash:
		return "Header.Hash"
	case !eqBytesStrict(x.Parent, y.Parent):
		return "Header.Parent"
	case !eqBytesStrict(x.PreGroup, y.PreGroup):
		return "Header.PreGroup"
	case !eqBytesStrict(x.CreateBlockHash, y.CreateBlockHash):
		return "Header.CreateBlockHash"
	case !eqTime(x.BeginTime, y.BeginTime):
		return fmt.Sprintf("Header.BeginTime %v vs %v", x.BeginTime, y.BeginTime)
	case x.MemberRoot != y.MemberRoot:
		return "Header.MemberRoot"
	case x.CreateHeight != y.CreateHeight:
		return "Header.CreateHeight"
	case x.Extends != y.Extends:
		return fmt.Sprintf("Header.Extends %q vs %q", x.Extends, y.Extends)
	case !eqBytesStrict(a.Id, b.Id):
		return "Id"
	case !eqBytesStrict(a.PubKey, b.PubKey):
		return "PubKey"
	case !eqBytesStrict(a.Signature, b.Signature):
		return "Signature"
	case a.GroupHeight != b.GroupHeight:
		return "GroupHeight"
	case len(a.Members) != len(b.Members):
		return fmt.Sprintf("Members len %d vs %d", len(a.Members), len(b.Members))
	}
	for i := range a.Members {
		if !bytes.Equal(a.Members[i], b.Members[i]) {
			return fmt.Sprintf("Members[%d]", i)
		}
	}
	return ""
}
