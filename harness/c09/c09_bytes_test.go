package c09

// Domain C: byte strings offered to the parsers.

import (
	"fmt"
	"testing"
	"time"

	pb "com.tuntun.rangers/node/src/middleware/pb"
	"com.tuntun.rangers/node/src/middleware/types"
	"github.com/gogo/protobuf/proto"
	"pgregory.net/rapid"

	"verifharness/internal/ref"
	"verifharness/internal/stats"
)

// ---------- schema of the wire messages (from x.proto), used only to assemble inputs ----------

type fkind int

const (
	kVarint fkind = iota
	kBytes
	kString
	kHash
	kTime
	kBig
	kSign
	kJSONIds
	kJSONSub
	kMsg
)

type fdesc struct {
	num  int
	name string
	kind fkind
	sub  *mdesc
	rep  bool
}

type mdesc struct {
	name   string
	fields []fdesc
}

var (
	mdTxHash = &mdesc{"TransactionHash", []fdesc{{1, "hash", kHash, nil, false}, {2, "subHash", kHash, nil, false}}}
	mdHashes = &mdesc{"Hashes", []fdesc{{1, "hashes", kHash, nil, true}}}
	mdTx     = &mdesc{"Transaction", []fdesc{
		{1, "Data", kString, nil, false}, {2, "Nonce", kVarint, nil, false}, {3, "Source", kString, nil, false}, {4, "Target", kString, nil, false},
		{5, "Type", kVarint, nil, false}, {6, "Hash", kHash, nil, false}, {7, "ExtraData", kString, nil, false}, {8, "ExtraDataType", kVarint, nil, false},
		{9, "Sign", kSign, nil, false}, {10, "Time", kString, nil, false}, {11, "RequestId", kVarint, nil, false}, {12, "SocketRequestId", kString, nil, false},
		{13, "SubTransactions", kJSONSub, nil, false}, {14, "SubHash", kHash, nil, false}, {15, "ChainId", kString, nil, false}}}
	mdTxSlice = &mdesc{"TransactionSlice", []fdesc{{1, "transactions", kMsg, mdTx, true}}}
	mdHeader  = &mdesc{"BlockHeader", []fdesc{
		{1, "Hash", kHash, nil, false}, {2, "Height", kVarint, nil, false}, {3, "PreHash", kHash, nil, false}, {4, "PreTime", kTime, nil, false},
		{5, "ProveValue", kBig, nil, false}, {6, "TotalQN", kVarint, nil, false}, {7, "CurTime", kTime, nil, false}, {8, "Castor", kBytes, nil, false},
		{9, "GroupId", kBytes, nil, false}, {10, "Signature", kBytes, nil, false}, {11, "Nonce", kVarint, nil, false}, {12, "transactions", kMsg, mdTxHash, true},
		{13, "TxTree", kHash, nil, false}, {14, "ReceiptTree", kHash, nil, false}, {15, "StateTree", kHash, nil, false}, {16, "ExtraData", kBytes, nil, false},
		{17, "Random", kBytes, nil, false}, {18, "ProveRoot", kHash, nil, false}, {19, "EvictedTxs", kMsg, mdHashes, false}, {20, "RequestIds", kJSONIds, nil, false}}}
	mdBlock       = &mdesc{"Block", []fdesc{{1, "Header", kMsg, mdHeader, false}, {2, "transactions", kMsg, mdTx, true}}}
	mdGroupHeader = &mdesc{"GroupHeader", []fdesc{
		{1, "Hash", kHash, nil, false}, {2, "Parent", kBytes, nil, false}, {3, "PreGroup", kBytes, nil, false}, {4, "CreateBlockHash", kBytes, nil, false},
		{5, "BeginTime", kTime, nil, false}, {6, "MemberRoot", kHash, nil, false}, {7, "CreateHeight", kVarint, nil, false}, {8, "Extends", kString, nil, false}}}
	mdGroup = &mdesc{"Group", []fdesc{
		{1, "Header", kMsg, mdGroupHeader, false}, {2, "Id", kBytes, nil, false}, {3, "PubKey", kBytes, nil, false}, {4, "Signature", kBytes, nil, false},
		{5, "Members", kBytes, nil, true}, {6, "GroupHeight", kVarint, nil, false}}}
)

// ---------- payload generators ----------

func genTimeBytes(t *rapid.T) []byte {
	be := func(b []byte, v uint64, n int) []byte {
		for i := n - 1; i >= 0; i-- {
			b = append(b, byte(v>>(8*uint(i))))
		}
		return b
	}
	sec := uint64(rapid.Int64Range(62135596800, 62135596800+4000000000).Draw(t, "tb_sec")) // internal seconds since year 1
	nsec := uint64(rapid.Uint32Range(0, 999999999).Draw(t, "tb_nsec"))
	off := uint64(uint16(int16(rapid.SampledFrom([]int{-1, -1, 480, 480, 0, 60, -300, 345}).Draw(t, "tb_off"))))
	k := rapid.IntRange(-20, 19).Draw(t, "tb_k")
	switch {
	case k <= 9: // what MarshalBinary writes
		stats.Class("C_time:valid_v1")
		return be(be(be([]byte{1}, sec, 8), nsec, 4), off, 2)
	case k == 10: // version 2 with a seconds byte
		stats.Class("C_time:v2")
		return append(be(be(be([]byte{2}, sec, 8), nsec, 4), off, 2), rapid.Byte().Draw(t, "tb_offsec"))
	case k == 11: // odd offsets around the UTC marker
		stats.Class("C_time:odd_offset")
		o := uint64(uint16(int16(rapid.SampledFrom([]int{-2, -3, 1, 32767, -32768, 1440, -1441}).Draw(t, "tb_oddoff"))))
		if rapid.Bool().Draw(t, "tb_v2") {
			return append(be(be(be([]byte{2}, sec, 8), nsec, 4), o, 2), rapid.Byte().Draw(t, "tb_offsec2"))
		}
		return be(be(be([]byte{1}, sec, 8), nsec, 4), o, 2)
	case k == 12: // out-of-range nanoseconds (the decoder does not validate them)
		stats.Class("C_time:wild_nsec")
		return be(be(be([]byte{1}, sec, 8), uint64(rapid.Uint32().Draw(t, "tb_wildns")), 4), off, 2)
	case k == 13: // any instant
		stats.Class("C_time:wild_sec")
		return be(be(be([]byte{1}, rapid.Uint64().Draw(t, "tb_wildsec"), 8), nsec, 4), off, 2)
	case k == 14:
		stats.Class("C_time:bad_version")
		return be(be(be([]byte{rapid.SampledFrom([]byte{0, 3, 0xff}).Draw(t, "tb_ver")}, sec, 8), nsec, 4), off, 2)
	case k == 15:
		stats.Class("C_time:bad_length")
		b := be(be(be([]byte{rapid.SampledFrom([]byte{1, 2}).Draw(t, "tb_ver2")}, sec, 8), nsec, 4), off, 2)
		return b[:rapid.IntRange(1, 14).Draw(t, "tb_cut")]
	case k == 16:
		stats.Class("C_time:empty")
		return []byte{}
	case k == 17: // RFC 3339 text instead of the binary form
		stats.Class("C_time:text")
		return []byte("2021-12-07T00:00:00Z")
	default:
		stats.Class("C_time:random")
		return rapid.SliceOfN(rapid.Byte(), 1, 17).Draw(t, "tb_rand")
	}
}

var jsonIds = []string{`{}`, `null`, `{"fixed":1}`, `{"a":18446744073709551615,"b":0}`, `{"a":18446744073709551616}`, `{"a":-1}`, `{"a":1,"b":"x","c":3}`, `{"a":1,"a":2}`,
	`{"a":1.5}`, `[]`, `[1]`, `"s"`, `{`, ``, `{"\ud800":1}`, "{\"\xff\xfe\":7}", `{"a":1}{"b":2}`, `{"a":1e3}`, `  {"k" : 2 } `, `{"":0}`, `7`, `{"a":{"b":1}}`}

var jsonSubs = []string{`null`, `[]`, `[{"address":1,"balance":"1","coin":{"a":"b"},"ft":{"x":"1"},"Assets":{"k":"v"}}]`, `[{"address":18446744073709551615}]`,
	`[{"address":1},{"address":"x"},{"address":3}]`, `[{"address":-1}]`, `[{"Address":2,"BALANCE":"9"}]`, `{}`, `[null]`, `[{"coin":{}}]`, `[{"coin":null,"Assets":{}}]`,
	`[{"assets":{"a":"b"},"Assets":{"c":"d"}}]`, `[`, ``, `[{"balance":1}]`, "[{\"balance\":\"\xff\"}]", `[{"address":1}] x`, `[[]]`, `"x"`, `[{"coin":{"a":1}}]`, `[{"address":1,"address":2}]`}

func genPayload(t *rapid.T, f fdesc, depth int) []byte {
	switch f.kind {
	case kBytes:
		return rapid.SliceOfN(rapid.Byte(), 0, 40).Draw(t, "p_bytes")
	case kString:
		switch rapid.IntRange(0, 3).Draw(t, "p_strk") {
		case 0:
			return []byte{}
		case 1:
			return rapid.SliceOfN(rapid.Byte(), 1, 12).Draw(t, "p_rawstr") // possibly invalid UTF-8
		default:
			return []byte(genText(t, "p_str"))
		}
	case kHash:
		n := rapid.SampledFrom([]int{32, 32, 32, 32, 32, 32, 0, 1, 31, 33, 64}).Draw(t, "p_hashlen")
		return rapid.SliceOfN(rapid.Byte(), n, n).Draw(t, "p_hash")
	case kTime:
		return genTimeBytes(t)
	case kBig:
		n := rapid.SampledFrom([]int{0, 1, 8, 32, 80, 80, 80, 81}).Draw(t, "p_biglen")
		b := rapid.SliceOfN(rapid.Byte(), n, n).Draw(t, "p_big")
		if n > 4 && rapid.Bool().Draw(t, "p_biglz") {
			b[0], b[1] = 0, 0
		}
		return b
	case kSign:
		n := rapid.SampledFrom([]int{65, 65, 65, 65, 0, 1, 64, 66, 130}).Draw(t, "p_signlen")
		b := rapid.SliceOfN(rapid.Byte(), n, n).Draw(t, "p_sign")
		if n == 65 && rapid.Bool().Draw(t, "p_signlz") {
			b[0], b[1], b[32] = 0, 0, 0
		}
		return b
	case kJSONIds:
		return []byte(rapid.SampledFrom(jsonIds).Draw(t, "p_ids"))
	case kJSONSub:
		return []byte(rapid.SampledFrom(jsonSubs).Draw(t, "p_sub"))
	case kMsg:
		return genMsg(t, f.sub, depth+1)
	}
	return nil
}

func genVarintValue(t *rapid.T) uint64 { return genU64(t, "p_varint") }

// field emission modes
const (
	mPresent = iota
	mAbsent
	mDup
	mWrongWire
	mBadLen
	mEmpty
	nModes
)

func emitField(t *rapid.T, b []byte, f fdesc, mode int, depth int) []byte {
	one := func(b []byte) []byte {
		if f.kind == kVarint {
			return ref.PBAppendVarintField(b, f.num, genVarintValue(t))
		}
		return ref.PBAppendBytesField(b, f.num, genPayload(t, f, depth))
	}
	switch mode {
	case mAbsent:
		return b
	case mDup:
		return one(one(b))
	case mEmpty:
		if f.kind == kVarint {
			return ref.PBAppendVarintField(b, f.num, 0)
		}
		return ref.PBAppendBytesField(b, f.num, nil)
	case mWrongWire:
		switch rapid.IntRange(0, 5).Draw(t, "ww") {
		case 0:
			if f.kind == kVarint {
				return ref.PBAppendBytesField(b, f.num, rapid.SliceOfN(rapid.Byte(), 0, 9).Draw(t, "ww_bytes"))
			}
			return ref.PBAppendVarintField(b, f.num, genVarintValue(t))
		case 1:
			return ref.PBAppendFixed64Field(b, f.num, rapid.Uint64().Draw(t, "ww_f64"))
		case 2:
			return ref.PBAppendFixed32Field(b, f.num, rapid.Uint32().Draw(t, "ww_f32"))
		case 3: // group start, closed properly
			return ref.PBAppendTag(ref.PBAppendTag(b, f.num, ref.PBStartG), f.num, ref.PBEndG)
		case 4: // unmatched group end or start
			return ref.PBAppendTag(b, f.num, rapid.SampledFrom([]int{ref.PBStartG, ref.PBEndG}).Draw(t, "ww_grp"))
		default: // wire types 6 and 7 do not exist
			return ref.PBAppendTag(b, f.num, rapid.SampledFrom([]int{6, 7}).Draw(t, "ww_inv"))
		}
	case mBadLen:
		if f.kind == kVarint { // overlong / unterminated varint
			b = ref.PBAppendTag(b, f.num, ref.PBVarint)
			if rapid.Bool().Draw(t, "bl_pad") {
				return ref.PBAppendVarintPadded(b, genVarintValue(t)&0xffff, rapid.IntRange(4, 10).Draw(t, "bl_n"))
			}
			for i, n := 0, rapid.IntRange(1, 11).Draw(t, "bl_unterminated"); i < n; i++ {
				b = append(b, 0xff)
			}
			return b
		}
		p := genPayload(t, f, depth)
		decl := rapid.SampledFrom([]uint64{uint64(len(p)) + 1, uint64(len(p)) + 100, 1 << 31, 1<<63 - 1, ^uint64(0)}).Draw(t, "bl_decl")
		if len(p) > 0 && rapid.Bool().Draw(t, "bl_short") {
			decl = uint64(len(p)) - 1 // the tail of the payload is then read as further fields
		}
		return ref.PBAppendBytesFieldLen(b, f.num, decl, p)
	default:
		if f.rep {
			for i, n := 0, rapid.IntRange(0, 3).Draw(t, "nrep"); i < n; i++ {
				b = one(b)
			}
			return b
		}
		return one(b)
	}
}

// genMsg assembles one message. Profiles: clean / one defect / independent absence (every subset of
// fields) / few defects / heavy.
func genMsg(t *rapid.T, md *mdesc, depth int) []byte {
	profiles := []string{"clean", "one_defect", "one_defect", "subset_absent", "subset_absent", "few_defects", "heavy"}
	if depth > 0 { // nested messages are mostly well-formed so that the enclosing message is still reached
		profiles = []string{"clean", "clean", "clean", "clean", "clean", "clean", "one_defect", "one_defect", "subset_absent", "few_defects"}
	}
	profile := rapid.SampledFrom(profiles).Draw(t, md.name+"_profile")
	if depth == 0 {
		stats.Class("C_profile:" + profile)
	}
	modes := make([]int, len(md.fields))
	switch profile {
	case "one_defect":
		modes[rapid.IntRange(0, len(md.fields)-1).Draw(t, "defect_at")] = rapid.IntRange(1, nModes-1).Draw(t, "defect")
	case "subset_absent":
		p := rapid.SampledFrom([]int{2, 4, 8}).Draw(t, "absent_1_in")
		for i := range modes {
			if rapid.IntRange(1, p).Draw(t, "absent") == 1 {
				modes[i] = mAbsent
			}
		}
	case "few_defects", "heavy":
		p := 8
		if profile == "heavy" {
			p = 2
		}
		for i := range modes {
			if rapid.IntRange(1, p).Draw(t, "defective") == 1 {
				modes[i] = rapid.IntRange(1, nModes-1).Draw(t, "defect")
			}
		}
	}
	order := make([]int, len(md.fields))
	for i := range order {
		order[i] = i
	}
	if rapid.IntRange(0, 5).Draw(t, "shuffle") == 0 {
		order = rapid.Permutation(order).Draw(t, "order")
	}
	var b []byte
	for _, i := range order {
		b = emitField(t, b, md.fields[i], modes[i], depth)
		if depth == 0 && modes[i] != mPresent {
			stats.Class(fmt.Sprintf("C_mode:%d", modes[i]))
		}
	}
	if rapid.IntRange(0, 9).Draw(t, "unknown") == 0 { // a field the schema does not know
		b = ref.PBAppendBytesField(b, rapid.SampledFrom([]int{21, 30, 1000, 1 << 28}).Draw(t, "unknown_num"), []byte("zz"))
	}
	return b
}

func genWire(t *rapid.T, md *mdesc) ([]byte, string) {
	b := genMsg(t, md, 0)
	switch rapid.IntRange(0, 19).Draw(t, "post") {
	case 0:
		if len(b) > 0 {
			return b[:rapid.IntRange(0, len(b)-1).Draw(t, "cut")], "assembled_truncated"
		}
	case 1:
		return append(b, rapid.SliceOfN(rapid.Byte(), 1, 4).Draw(t, "trail")...), "assembled_trailing"
	case 2:
		if len(b) > 0 {
			i := rapid.IntRange(0, len(b)-1).Draw(t, "flip")
			b[i] ^= 1 << uint(rapid.IntRange(0, 7).Draw(t, "bit"))
			return b, "assembled_bitflip"
		}
	}
	return b, "assembled"
}

func genTagBiased(t *rapid.T, md *mdesc) []byte {
	n := rapid.IntRange(0, 40).Draw(t, "n")
	b := make([]byte, 0, n)
	for len(b) < n {
		switch rapid.IntRange(0, 3).Draw(t, "rk") {
		case 0, 1: // a tag of this message with any wire type
			f := md.fields[rapid.IntRange(0, len(md.fields)-1).Draw(t, "rf")]
			b = ref.PBAppendTag(b, f.num, rapid.IntRange(0, 7).Draw(t, "rwt"))
		case 2: // small length / small varint
			b = append(b, byte(rapid.IntRange(0, 20).Draw(t, "rlen")))
		default:
			b = append(b, rapid.Byte().Draw(t, "rb"))
		}
	}
	return b
}

// ---------- classification by the protobuf layer (non-triviality and the shapes of known findings) ----------

func timeBad(b []byte) bool {
	var x time.Time
	return x.UnmarshalBinary(b) != nil
}

func pbUnmarshal(b []byte, m proto.Message) (ok bool) {
	defer func() {
		if recover() != nil {
			ok = false
		}
	}()
	return proto.Unmarshal(b, m) == nil
}

// shapes: absent optional scalar that the converter dereferences (a); header time bytes that time.UnmarshalBinary rejects (b)
func txShapeA(p *pb.Transaction) bool {
	return p != nil && (p.Nonce == nil || p.RequestId == nil || p.ExtraDataType == nil || p.Time == nil || p.ChainId == nil)
}
func hdrShapeB(p *pb.BlockHeader) bool { return p != nil && (timeBad(p.PreTime) || timeBad(p.CurTime)) }
func hdrShapeA(p *pb.BlockHeader) bool {
	return p != nil && !hdrShapeB(p) && (p.Height == nil || p.Nonce == nil || p.TotalQN == nil)
}
func grpShapeA(p *pb.Group) bool {
	return p != nil && (p.GroupHeight == nil || (p.Header != nil && p.Header.Extends == nil))
}
func anyTxShapeA(ps []*pb.Transaction) bool {
	for _, p := range ps {
		if txShapeA(p) {
			return true
		}
	}
	return false
}

// steer decides whether a case has the shape of a recorded, unrepaired finding. If so the parser is
// still run, but only the recorded outcome is tolerated (nil dereference; nil object without error).
func steer(shapeA, shapeB bool) (skipA, skipB bool) {
	if shapeA && stats.IsKnown(fA) {
		stats.Exclude(fA)
		skipA = true
	}
	if shapeB && stats.IsKnown(fB) {
		stats.Exclude(fB)
		skipB = true
	}
	return
}

func tolerated(t fataler, what string, b []byte, p interface{}, skipA bool) {
	if p == nil {
		return
	}
	if skipA && isNilDeref(p) {
		return
	}
	t.Fatalf("%s(%x) panicked: %v", what, b, p)
}

// ---------- the oracle for bytes ----------

func checkHeaderBytes(t fataler, b []byte, label string) {
	var m pb.BlockHeader
	accepted := pbUnmarshal(b, &m)
	skipA, skipB := false, false
	if accepted {
		skipA, skipB = steer(hdrShapeA(&m), hdrShapeB(&m))
	}
	var h *types.BlockHeader
	var err error
	p := call(func() { h, err = types.UnMarshalBlockHeader(b) })
	key := ""
	if accepted {
		key = "Chdr:" + string(b)
	}
	stats.Case(key, "C_header_"+label, fmt.Sprintf("C_header_pb_accepts_%v", accepted))
	tolerated(t, "UnMarshalBlockHeader", b, p, skipA)
	if p != nil {
		return
	}
	if err != nil {
		stats.Class("C_header_error")
		return
	}
	if h == nil {
		if skipB {
			return
		}
		t.Fatalf("UnMarshalBlockHeader(%x) returned neither an object nor an error", b)
	}
	stats.Class("C_header_object")
	if steerC(hdrTimesFaithful(h)) {
		return
	}
	lawHeader(t, h, false, fmt.Sprintf("C: object parsed from %x", b))
}

func checkBlockBytes(t fataler, b []byte, label string) {
	var m pb.Block
	accepted := pbUnmarshal(b, &m)
	skipA, skipB := false, false
	if accepted {
		skipA, skipB = steer(hdrShapeA(m.Header) || anyTxShapeA(m.Transactions), hdrShapeB(m.Header))
	}
	var bl *types.Block
	var err error
	p := call(func() { bl, err = types.UnMarshalBlock(b) })
	key := ""
	if accepted {
		key = "Cblk:" + string(b)
	}
	stats.Case(key, "C_block_"+label, fmt.Sprintf("C_block_pb_accepts_%v", accepted))
	tolerated(t, "UnMarshalBlock", b, p, skipA)
	if p != nil {
		return
	}
	if err != nil {
		stats.Class("C_block_error")
		return
	}
	if bl == nil || bl.Header == nil {
		if skipB {
			return
		}
		t.Fatalf("UnMarshalBlock(%x) returned no error and block=%v with a nil header", b, bl != nil)
	}
	stats.Class("C_block_object")
	if steerC(hdrTimesFaithful(bl.Header)) {
		return
	}
	lawBlock(t, bl, false, fmt.Sprintf("C: object parsed from %x", b))
}

func checkTxBytes(t fataler, b []byte, label string) {
	var m pb.Transaction
	accepted := pbUnmarshal(b, &m)
	skipA := false
	if accepted {
		skipA, _ = steer(txShapeA(&m), false)
	}
	var tx types.Transaction
	var err error
	p := call(func() { tx, err = types.UnMarshalTransaction(b) })
	key := ""
	if accepted {
		key = "Ctx:" + string(b)
	}
	stats.Case(key, "C_tx_"+label, fmt.Sprintf("C_tx_pb_accepts_%v", accepted))
	tolerated(t, "UnMarshalTransaction", b, p, skipA)
	if p != nil {
		return
	}
	if err != nil {
		stats.Class("C_tx_error")
		return
	}
	stats.Class("C_tx_object")
	lawTx(t, &tx, false, fmt.Sprintf("C: object parsed from %x", b))
}

func checkTxsBytes(t fataler, b []byte, label string) {
	var m pb.TransactionSlice
	accepted := pbUnmarshal(b, &m)
	skipA := false
	if accepted {
		skipA, _ = steer(anyTxShapeA(m.Transactions), false)
	}
	var txs []*types.Transaction
	var err error
	p := call(func() { txs, err = types.UnMarshalTransactions(b) })
	key := ""
	if accepted {
		key = "Ctxs:" + string(b)
	}
	stats.Case(key, "C_txs_"+label, fmt.Sprintf("C_txs_pb_accepts_%v", accepted))
	tolerated(t, "UnMarshalTransactions", b, p, skipA)
	if p != nil {
		return
	}
	if err != nil {
		stats.Class("C_txs_error")
		return
	}
	if txs == nil {
		t.Fatalf("UnMarshalTransactions(%x) returned neither a list nor an error", b)
	}
	for i, x := range txs {
		if x == nil {
			t.Fatalf("UnMarshalTransactions(%x) returned a nil element at %d", b, i)
		}
	}
	stats.Class(fmt.Sprintf("C_txs_object_len_%d", bucket(len(txs))))
	lawTxs(t, txs, fmt.Sprintf("C: list parsed from %x", b))
}

func checkGroupBytes(t fataler, b []byte, label string) {
	var m pb.Group
	accepted := pbUnmarshal(b, &m)
	skipA := false
	if accepted {
		skipA, _ = steer(grpShapeA(&m), false)
	}
	var g *types.Group
	var err error
	p := call(func() { g, err = types.UnMarshalGroup(b) })
	key := ""
	if accepted {
		key = "Cgrp:" + string(b)
	}
	stats.Case(key, "C_group_"+label, fmt.Sprintf("C_group_pb_accepts_%v", accepted))
	tolerated(t, "UnMarshalGroup", b, p, skipA)
	if p != nil {
		return
	}
	if err != nil {
		stats.Class("C_group_error")
		return
	}
	if g == nil || g.Header == nil {
		t.Fatalf("UnMarshalGroup(%x) returned no error and group=%v with a nil header", b, g != nil)
	}
	stats.Class("C_group_object")
	if steerC(timeCodecFaithful(g.Header.BeginTime)) {
		return
	}
	lawGroup(t, g, false, fmt.Sprintf("C: object parsed from %x", b))
}

type target struct {
	name  string
	md    *mdesc
	check func(fataler, []byte, string)
}

var targets = []target{
	{"header", mdHeader, checkHeaderBytes},
	{"block", mdBlock, checkBlockBytes},
	{"tx", mdTx, checkTxBytes},
	{"txs", mdTxSlice, checkTxsBytes},
	{"group", mdGroup, checkGroupBytes},
}

func sampleBytes(kind, label string, b []byte) {
	if len(b) < 90 {
		stats.Sample(map[string]string{"domain": "C_" + kind, "how": label, "bytes": fmt.Sprintf("%x", b)})
	}
}

// C1: messages assembled field by field with the harness' own wire writer.
func TestBytesAssembled(t *testing.T) {
	stats.Check(t, 20000, 200000, func(t *rapid.T) {
		tg := targets[rapid.IntRange(0, len(targets)-1).Draw(t, "target")]
		b, label := genWire(t, tg.md)
		tg.check(t, b, label)
		sampleBytes(tg.name, label, b)
	})
}

// C2: tag-biased random bytes.
func TestBytesRandom(t *testing.T) {
	stats.Check(t, 10000, 100000, func(t *rapid.T) {
		tg := targets[rapid.IntRange(0, len(targets)-1).Draw(t, "target")]
		b := genTagBiased(t, tg.md)
		tg.check(t, b, "random")
	})
}

// C3: the node's own serialisations with a local mutation (bit flip / cut / splice): stays close to accepted input.
func TestBytesMutatedSerialisation(t *testing.T) {
	stats.Check(t, 4000, 40000, func(t *rapid.T) {
		var b []byte
		var tg target
		switch rapid.IntRange(0, 3).Draw(t, "kind") {
		case 0:
			h, _ := genHeaderA(t, false)
			b, _ = types.MarshalBlockHeader(h)
			tg = targets[0]
		case 1:
			h, _ := genHeaderA(t, false)
			tx, _ := genTxA(t)
			b, _ = types.MarshalBlock(&types.Block{Header: h, Transactions: []*types.Transaction{tx}})
			tg = targets[1]
		case 2:
			tx, _ := genTxA(t)
			b, _ = types.MarshalTransaction(tx)
			tg = targets[2]
		default:
			g, _ := genGroupA(t, false)
			b, _ = types.MarshalGroup(g)
			tg = targets[4]
		}
		label := "serialised"
		if len(b) > 0 {
			switch rapid.IntRange(0, 3).Draw(t, "mut") {
			case 0:
				i := rapid.IntRange(0, len(b)-1).Draw(t, "pos")
				b[i] ^= 1 << uint(rapid.IntRange(0, 7).Draw(t, "bit"))
				label = "serialised_bitflip"
			case 1:
				b = b[:rapid.IntRange(0, len(b)-1).Draw(t, "cut")]
				label = "serialised_truncated"
			case 2:
				i := rapid.IntRange(0, len(b)-1).Draw(t, "del")
				b = append(append([]byte{}, b[:i]...), b[i+1:]...)
				label = "serialised_byte_deleted"
			}
		}
		tg.check(t, b, label)
	})
}

// ---------- probes for recorded findings (deterministic minimal cases) ----------

func TestProbeFC09a(t *testing.T) {
	// Transaction with only the required Type; BlockHeader with valid times but no Height/Nonce/TotalQN;
	// Group with a complete header but no GroupHeight.
	zero, _ := time.Time{}.MarshalBinary()
	hdr := ref.PBAppendBytesField(ref.PBAppendBytesField(nil, 4, zero), 7, zero)
	gh := ref.PBAppendVarintField(ref.PBAppendBytesField(nil, 6, make([]byte, 32)), 7, 1)
	gh = ref.PBAppendBytesField(gh, 8, []byte("x"))
	sites := []string{}
	if p := call(func() { types.UnMarshalTransaction([]byte{0x28, 0x01}) }); p != nil {
		sites = append(sites, "UnMarshalTransaction(2801)")
	}
	if p := call(func() { types.UnMarshalBlockHeader(hdr) }); p != nil {
		sites = append(sites, fmt.Sprintf("UnMarshalBlockHeader(%x)", hdr))
	}
	if p := call(func() { types.UnMarshalBlock(ref.PBAppendBytesField(nil, 1, hdr)) }); p != nil {
		sites = append(sites, "UnMarshalBlock(header without Height)")
	}
	if p := call(func() { types.UnMarshalGroup(ref.PBAppendBytesField(nil, 1, gh)) }); p != nil {
		sites = append(sites, "UnMarshalGroup(no GroupHeight)")
	}
	stats.Probe(t, fA, "C09", len(sites) > 0, fmt.Sprintf("parsers panic (nil pointer dereference) when an optional scalar field is absent from an otherwise valid message: %v", sites))
}

func TestProbeFC09b(t *testing.T) {
	h, err := types.UnMarshalBlockHeader(nil)
	present := h == nil && err == nil
	var bl *types.Block
	var err2 error
	p := call(func() { bl, err2 = types.UnMarshalBlock([]byte{0x0a, 0x00}) })
	present = present || (p == nil && err2 == nil && (bl == nil || bl.Header == nil))
	stats.Probe(t, fB, "C09", present, "UnMarshalBlockHeader(empty input / unparsable PreTime or CurTime) returns (nil, nil); UnMarshalBlock(0a00) returns a block with a nil Header and no error")
}

func TestProbeFC09c(t *testing.T) {
	h := &types.BlockHeader{Transactions: nil, CurTime: time.Unix(1700000000, 0).In(time.FixedZone("", -90))}
	b1, e1 := types.MarshalBlockHeader(h)
	refused := b1 == nil && e1 == nil
	h.CurTime = time.Unix(1700000000, 0).In(time.FixedZone("", -150))
	want := h.GenHash()
	h2, prob := passHeader(h)
	changed := prob == "" && (h2.GenHash() != want || !eqTime(h.CurTime, h2.CurTime))
	stats.Probe(t, fC, "C09", refused || changed, fmt.Sprintf("header/group times whose zone offset is negative with a seconds part, or within (-2min,-1min], do not survive the codec "+
		"(offset -90s: MarshalBlockHeader returns (nil,nil) = %v; offset -150s comes back as +106s and GenHash changes = %v)", refused, changed))
}

// ---------- native fuzz targets (thorough tier) ----------

func seedCorpus(f *testing.F, kind int) {
	f.Add([]byte{})
	f.Add([]byte{0x0a, 0x00})
	f.Add([]byte{0x28, 0x01})
	for i := 1; i <= 6; i++ {
		var b []byte
		switch kind {
		case 0:
			b, _ = types.MarshalBlockHeader(rapid.Custom(func(t *rapid.T) *types.BlockHeader { h, _ := genHeaderA(t, false); return h }).Example(i))
		case 1:
			bl := rapid.Custom(func(t *rapid.T) *types.Block {
				h, _ := genHeaderA(t, false)
				tx, _ := genTxA(t)
				return &types.Block{Header: h, Transactions: []*types.Transaction{tx}}
			}).Example(i)
			b, _ = types.MarshalBlock(bl)
		case 2:
			tx := rapid.Custom(func(t *rapid.T) *types.Transaction { x, _ := genTxA(t); return x }).Example(i)
			b, _ = types.MarshalTransaction(tx)
			l, _ := types.MarshalTransactions([]*types.Transaction{tx, tx})
			f.Add(l)
		default:
			b, _ = types.MarshalGroup(rapid.Custom(func(t *rapid.T) *types.Group { g, _ := genGroupA(t, false); return g }).Example(i))
		}
		f.Add(b)
	}
}

func FuzzUnMarshalBlockHeader(f *testing.F) {
	seedCorpus(f, 0)
	f.Fuzz(func(t *testing.T, b []byte) {
		if len(b) <= 8192 {
			checkHeaderBytes(t, b, "fuzz")
		}
	})
}

func FuzzUnMarshalBlock(f *testing.F) {
	seedCorpus(f, 1)
	f.Fuzz(func(t *testing.T, b []byte) {
		if len(b) <= 8192 {
			checkBlockBytes(t, b, "fuzz")
		}
	})
}

func FuzzUnMarshalTransaction(f *testing.F) {
	seedCorpus(f, 2)
	f.Fuzz(func(t *testing.T, b []byte) {
		if len(b) <= 8192 {
			checkTxBytes(t, b, "fuzz")
			checkTxsBytes(t, b, "fuzz")
		}
	})
}

func FuzzUnMarshalGroup(f *testing.F) {
	seedCorpus(f, 3)
	f.Fuzz(func(t *testing.T, b []byte) {
		if len(b) <= 8192 {
			checkGroupBytes(t, b, "fuzz")
		}
	})
}
