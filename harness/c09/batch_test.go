package c09

import (
	"bytes"
	"fmt"
	"sync"
	"testing"

	"com.tuntun.rangers/node/src/common"
	"com.tuntun.rangers/node/src/middleware/types"
	"pgregory.net/rapid"

	"verifharness/internal/stats"
)

// TestBatchSerialiseThenParse: serialised bytes are data that is stored, queued and relayed - they are held
// while other objects are serialised. Several values of every kind are serialised first; only then is each
// byte string checked to be unchanged and parsed back. A serialiser that hands out memory it reuses later
// passes every immediate round trip and fails here.
func TestBatchSerialiseThenParse(t *testing.T) {
	stats.Check(t, 1200, 12000, func(t *rapid.T) {
		type item struct {
			kind  string
			bytes []byte
			copy  []byte
			check func(b []byte) string
			again func() ([]byte, error) // serialise the same value once more
		}
		var items []item
		n := rapid.IntRange(2, 5).Draw(t, "nItems")
		for i := 0; i < n; i++ {
			switch rapid.SampledFrom([]string{"header", "block", "block", "tx", "txs", "group"}).Draw(t, "kind") {
			case "header":
				h, _ := genHeaderA(t, false)
				if !hdrTimesFaithful(h) {
					continue
				}
				b, err := types.MarshalBlockHeader(h)
				if err != nil || b == nil {
					t.Fatalf("MarshalBlockHeader: %v", err)
				}
				items = append(items, item{"header", b, append([]byte{}, b...), func(b []byte) string {
					out, err := types.UnMarshalBlockHeader(b)
					if err != nil || out == nil {
						return fmt.Sprintf("parse error %v", err)
					}
					return eqHeader(h, out)
				}, func() ([]byte, error) { return types.MarshalBlockHeader(h) }})
			case "block":
				h, _ := genHeaderA(t, false)
				if !hdrTimesFaithful(h) {
					continue
				}
				bl := &types.Block{Header: h}
				h.Transactions = []common.Hashes{}
				for j, m := 0, rapid.IntRange(0, 3).Draw(t, "nbody"); j < m; j++ {
					tx, _ := genTxA(t)
					bl.Transactions = append(bl.Transactions, tx)
					h.Transactions = append(h.Transactions, tx.GenHashes())
				}
				h.Hash = h.GenHash()
				b, err := types.MarshalBlock(bl)
				if err != nil || b == nil {
					t.Fatalf("MarshalBlock: %v", err)
				}
				items = append(items, item{"block", b, append([]byte{}, b...), func(b []byte) string {
					out, err := types.UnMarshalBlock(b)
					if err != nil || out == nil {
						return fmt.Sprintf("parse error %v", err)
					}
					if out.Header.GenHash() != h.Hash {
						return fmt.Sprintf("block came back with hash %s, was serialised with hash %s (height %d vs %d)", out.Header.GenHash().Hex(), h.Hash.Hex(), out.Header.Height, h.Height)
					}
					return eqBlock(bl, out)
				}, func() ([]byte, error) { return types.MarshalBlock(bl) }})
			case "tx":
				tx, _ := genTxA(t)
				b, err := types.MarshalTransaction(tx)
				if err != nil {
					t.Fatalf("MarshalTransaction: %v", err)
				}
				items = append(items, item{"tx", b, append([]byte{}, b...), func(b []byte) string {
					out, err := types.UnMarshalTransaction(b)
					if err != nil {
						return fmt.Sprintf("parse error %v", err)
					}
					return eqTx(tx, &out)
				}, func() ([]byte, error) { return types.MarshalTransaction(tx) }})
			case "txs":
				var txs []*types.Transaction
				for j, m := 0, rapid.IntRange(1, 3).Draw(t, "ntxs"); j < m; j++ {
					tx, _ := genTxA(t)
					txs = append(txs, tx)
				}
				b, err := types.MarshalTransactions(txs)
				if err != nil {
					t.Fatalf("MarshalTransactions: %v", err)
				}
				items = append(items, item{"txs", b, append([]byte{}, b...), func(b []byte) string {
					out, err := types.UnMarshalTransactions(b)
					if err != nil {
						return fmt.Sprintf("parse error %v", err)
					}
					return eqTxs(txs, out)
				}, func() ([]byte, error) { return types.MarshalTransactions(txs) }})
			case "group":
				g, _ := genGroupA(t, false)
				if !timeCodecFaithful(g.Header.BeginTime) {
					continue
				}
				b, err := types.MarshalGroup(g)
				if err != nil {
					t.Fatalf("MarshalGroup: %v", err)
				}
				items = append(items, item{"group", b, append([]byte{}, b...), func(b []byte) string {
					out, err := types.UnMarshalGroup(b)
					if err != nil || out == nil {
						return fmt.Sprintf("parse error %v", err)
					}
					return eqGroup(g, out)
				}, func() ([]byte, error) { return types.MarshalGroup(g) }})
			}
		}
		kinds := ""
		for i, it := range items {
			kinds += it.kind + ","
			if !bytes.Equal(it.bytes, it.copy) {
				t.Fatalf("the bytes returned for %s #%d changed after later values were serialised (%d bytes; first difference at %d)", it.kind, i, len(it.bytes), firstDiff(it.bytes, it.copy))
			}
			if d := it.check(it.bytes); d != "" {
				t.Fatalf("%s #%d, parsed after %d later serialisations: %s", it.kind, i, len(items)-1-i, d)
			}
		}
		// the same values from several goroutines at once (network handlers, block and transaction relays and the
		// stores all serialise and parse concurrently): each goroutine serialises its own value again and parses
		// the result, many times over; every parse must give the value back, as it did alone
		if len(items) >= 2 && rapid.IntRange(0, 3).Draw(t, "concurrently") == 0 {
			reps := rapid.SampledFrom([]int{20, 200}).Draw(t, "repetitions")
			var wg sync.WaitGroup
			var mu sync.Mutex
			failure := ""
			for i := range items {
				wg.Add(1)
				go func(i int) {
					defer wg.Done()
					defer func() {
						if p := recover(); p != nil {
							mu.Lock()
							failure = fmt.Sprintf("%s #%d: panic while %d other goroutines were serialising/parsing their own values: %v", items[i].kind, i, len(items)-1, p)
							mu.Unlock()
						}
					}()
					for r := 0; r < reps; r++ {
						b, err := items[i].again()
						if err != nil || b == nil {
							mu.Lock()
							failure = fmt.Sprintf("%s #%d: serialising again failed (%v) while other goroutines were at work", items[i].kind, i, err)
							mu.Unlock()
							return
						}
						if d := items[i].check(b); d != "" {
							mu.Lock()
							failure = fmt.Sprintf("%s #%d: correct alone, but serialised and parsed while %d other goroutines were serialising/parsing their own values (repetition %d): %s", items[i].kind, i, len(items)-1, r, d)
							mu.Unlock()
							return
						}
					}
				}(i)
			}
			wg.Wait()
			if failure != "" {
				t.Fatalf("%s", failure)
			}
			stats.Class("A_batch_concurrent")
			stats.Count("concurrent_serialise_parse_rounds", int64(len(items)*reps))
		}
		key := ""
		if len(items) >= 2 {
			key = "batch:" + kinds + fmt.Sprint(len(items[0].bytes))
		}
		stats.Case(key, "A_batch", fmt.Sprintf("A_batch_items_%d", len(items)))
	})
}

func firstDiff(a, b []byte) int {
	for i := range a {
		if i >= len(b) || a[i] != b[i] {
			return i
		}
	}
	return len(a)
}
