package c09

import (
	"bytes"
	"fmt"
	"testing"

	"com.tuntun.rangers/node/src/common"
	"com.tuntun.rangers/node/src/middleware/types"
	"pgregory.net/rapid"

	"verifharness/internal/stats"
)

// TestBatchSerialiseThenParse: serialised bytes are data that is stored, queued and relayed - they are held
// while other objects are serialised. Several values of every kind are serialised first; only then is each
// byte string checked to be unchanged and parsed back. A serialiser that hands out memory it reuses later
// passes every immediate round trip and fails here.
func TestBatchSerialiseThenParse(t *testing.T) {
	stats.Check(t, 1200, 12000, func(t *rapid.T) {
		type item struct {
			kind  string
			bytes []byte
			copy  []byte
			check func(b []byte) string
		}
		var items []item
		n := rapid.IntRange(2, 5).Draw(t, "nItems")
		for i := 0; i < n; i++ {
			switch rapid.SampledFrom([]string{"header", "block", "block", "tx", "txs", "group"}).Draw(t, "kind") {
			case "header":
				h, _ := genHeaderA(t, false)
				if !hdrTimesFaithful(h) {
					continue
				}
				b, err := types.MarshalBlockHeader(h)
				if err != nil || b == nil {
					t.Fatalf("MarshalBlockHeader: %v", err)
				}
				items = append(items, item{"header", b, append([]byte{}, b...), func(b []byte) string {
					out, err := types.UnMarshalBlockHeader(b)
					if err != nil || out == nil {
						return fmt.Sprintf("parse error %v", err)
					}
					return eqHeader(h, out)
				}})
			case "block":
				h, _ := genHeaderA(t, false)
				if !hdrTimesFaithful(h) {
					continue
				}
				bl := &types.Block{Header: h}
				h.Transactions = []common.Hashes{}
				for j, m := 0, rapid.IntRange(0, 3).Draw(t, "nbody"); j < m; j++ {
					tx, _ := genTxA(t)
					bl.Transactions = append(bl.Transactions, tx)
					h.Transactions = append(h.Transactions, tx.GenHashes())
				}
				h.Hash = h.GenHash()
				b, err := types.MarshalBlock(bl)
				if err != nil || b == nil {
					t.Fatalf("MarshalBlock: %v", err)
				}
				items = append(items, item{"block", b, append([]byte{}, b...), func(b []byte) string {
					out, err := types.UnMarshalBlock(b)
					if err != nil || out == nil {
						return fmt.Sprintf("parse error %v", err)
					}
					if out.Header.GenHash() != h.Hash {
						return fmt.Sprintf("block came back with hash %s, was serialised with hash %s (height %d vs %d)", out.Header.GenHash().Hex(), h.Hash.Hex(), out.Header.Height, h.Height)
					}
					return eqBlock(bl, out)
				}})
			case "tx":
				tx, _ := genTxA(t)
				b, err := types.MarshalTransaction(tx)
				if err != nil {
					t.Fatalf("MarshalTransaction: %v", err)
				}
				items = append(items, item{"tx", b, append([]byte{}, b...), func(b []byte) string {
					out, err := types.UnMarshalTransaction(b)
					if err != nil {
						return fmt.Sprintf("parse error %v", err)
					}
					return eqTx(tx, &out)
				}})
			case "txs":
				var txs []*types.Transaction
				for j, m := 0, rapid.IntRange(1, 3).Draw(t, "ntxs"); j < m; j++ {
					tx, _ := genTxA(t)
					txs = append(txs, tx)
				}
				b, err := types.MarshalTransactions(txs)
				if err != nil {
					t.Fatalf("MarshalTransactions: %v", err)
				}
				items = append(items, item{"txs", b, append([]byte{}, b...), func(b []byte) string {
					out, err := types.UnMarshalTransactions(b)
					if err != nil {
						return fmt.Sprintf("parse error %v", err)
					}
					return eqTxs(txs, out)
				}})
			case "group":
				g, _ := genGroupA(t, false)
				if !timeCodecFaithful(g.Header.BeginTime) {
					continue
				}
				b, err := types.MarshalGroup(g)
				if err != nil {
					t.Fatalf("MarshalGroup: %v", err)
				}
				items = append(items, item{"group", b, append([]byte{}, b...), func(b []byte) string {
					out, err := types.UnMarshalGroup(b)
					if err != nil || out == nil {
						return fmt.Sprintf("parse error %v", err)
					}
					return eqGroup(g, out)
				}})
			}
		}
		kinds := ""
		for i, it := range items {
			kinds += it.kind + ","
			if !bytes.Equal(it.bytes, it.copy) {
				t.Fatalf("the bytes returned for %s #%d changed after later values were serialised (%d bytes; first difference at %d)", it.kind, i, len(it.bytes), firstDiff(it.bytes, it.copy))
			}
			if d := it.check(it.bytes); d != "" {
				t.Fatalf("%s #%d, parsed after %d later serialisations: %s", it.kind, i, len(items)-1-i, d)
			}
		}
		key := ""
		if len(items) >= 2 {
			key = "batch:" + kinds + fmt.Sprint(len(items[0].bytes))
		}
		stats.Case(key, "A_batch", fmt.Sprintf("A_batch_items_%d", len(items)))
	})
}

func firstDiff(a, b []byte) int {
	for i := range a {
		if i >= len(b) || a[i] != b[i] {
			return i
		}
	}
	return len(a)
}
