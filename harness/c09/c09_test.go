package c09

import (
	"fmt"
	"math/big"
	"strings"
	"testing"
	"time"

	"com.tuntun.rangers/node/src/common"
	"com.tuntun.rangers/node/src/middleware/types"
	"pgregory.net/rapid"

	"verifharness/internal/stats"
)

const (
	fA = "F-C09-a" // nil dereference of absent optional protobuf fields
	fB = "F-C09-b" // (nil,nil) / nil header on unparsable header time
	fC = "F-C09-c" // zone offsets that Go's binary time codec does not preserve
)

func TestMain(m *testing.M) {
	types.InitSerialzation() // the package logger the parsers write to (InitMiddleware does this in the node)
	stats.SetRule("A: generated node-producible headers/blocks/transactions/transaction lists/groups; law parse(serialise(v)) == v field by field, GenHash preserved and == stored Hash; " +
		"non-trivial = header/block with >=1 tx hash and a non-UTC or sub-second time, tx with Sign or sub-transactions, group with >=1 member. " +
		"B: unrestricted in-memory values; law f(f(v)) == f(v) and same GenHash for f = parse.serialise; non-trivial = value outside domain A in at least one field. " +
		"C: byte strings (field-wise assembled protobuf messages with absent/duplicated/wrong-wire-type/truncated fields, tag-biased random bytes); oracle = (object,nil) or (error), never a panic, " +
		"and law A for every returned object; non-trivial = the protobuf layer accepts the bytes (conversion code reached). distinct by hash of the serialised form / input bytes")
	stats.Assume("Transaction.SocketRequestId (connection-local correlation id; the encoder never writes it, it is not part of GenHash) and GroupHeader.Ready/Work/DismissHeight (derived; AddGroup recomputes them) are not transported by design and are excluded from the comparison")
	stats.Assume("domain A = what the node builds: non-nil Transactions/EvictedTxs, non-negative ProveValue, years 1..9999, Sign with r,s < 2^256, no nil list elements")
	stats.Assume("nil and empty maps inside sub-transactions, and nil/empty Block.Transactions and Group.Members, count as the same content")
	stats.Main(m, "C09")
}

type fataler interface {
	Fatalf(string, ...interface{})
}

// call runs f and converts a panic into a returned description (never into a pass).
func call(f func()) (panicked interface{}) {
	defer func() {
		if r := recover(); r != nil {
			panicked = r
		}
	}()
	f()
	return nil
}

func isNilDeref(p interface{}) bool {
	e, ok := p.(error)
	return ok && strings.Contains(e.Error(), "nil pointer dereference")
}

// ---------- one serialise/parse pass (f) per type ----------

func passHeader(h *types.BlockHeader) (out *types.BlockHeader, problem string) {
	var b []byte
	var err error
	if p := call(func() { b, err = types.MarshalBlockHeader(h) }); p != nil {
		return nil, fmt.Sprintf("MarshalBlockHeader panicked: %v", p)
	}
	if err != nil || b == nil {
		return nil, fmt.Sprintf("serialise refused: bytes=%v err=%v", b != nil, err)
	}
	if p := call(func() { out, err = types.UnMarshalBlockHeader(b) }); p != nil {
		return nil, fmt.Sprintf("UnMarshalBlockHeader panicked on the node's own serialisation %x: %v", b, p)
	}
	if err != nil || out == nil {
		return nil, fmt.Sprintf("UnMarshalBlockHeader rejected the node's own serialisation %x: obj=%v err=%v", b, out != nil, err)
	}
	return out, ""
}

func passBlock(bl *types.Block) (out *types.Block, problem string) {
	var b []byte
	var err error
	if p := call(func() { b, err = types.MarshalBlock(bl) }); p != nil {
		return nil, fmt.Sprintf("MarshalBlock panicked: %v", p)
	}
	if err != nil || b == nil {
		return nil, fmt.Sprintf("serialise refused: bytes=%v err=%v", b != nil, err)
	}
	if p := call(func() { out, err = types.UnMarshalBlock(b) }); p != nil {
		return nil, fmt.Sprintf("UnMarshalBlock panicked on the node's own serialisation %x: %v", b, p)
	}
	if err != nil || out == nil || out.Header == nil {
		return nil, fmt.Sprintf("UnMarshalBlock rejected the node's own serialisation %x: obj=%v err=%v", b, out != nil, err)
	}
	return out, ""
}

func passTx(tx *types.Transaction) (out *types.Transaction, problem string) {
	var b []byte
	var err error
	if p := call(func() { b, err = types.MarshalTransaction(tx) }); p != nil {
		return nil, fmt.Sprintf("MarshalTransaction panicked: %v", p)
	}
	if err != nil || b == nil {
		return nil, fmt.Sprintf("serialise refused: bytes=%v err=%v", b != nil, err)
	}
	var v types.Transaction
	if p := call(func() { v, err = types.UnMarshalTransaction(b) }); p != nil {
		return nil, fmt.Sprintf("UnMarshalTransaction panicked on the node's own serialisation %x: %v", b, p)
	}
	if err != nil {
		return nil, fmt.Sprintf("UnMarshalTransaction rejected the node's own serialisation %x: %v", b, err)
	}
	return &v, ""
}

func passTxs(txs []*types.Transaction) (out []*types.Transaction, problem string) {
	var b []byte
	var err error
	if p := call(func() { b, err = types.MarshalTransactions(txs) }); p != nil {
		return nil, fmt.Sprintf("MarshalTransactions panicked: %v", p)
	}
	if err != nil {
		return nil, fmt.Sprintf("serialise refused: err=%v", err)
	}
	if p := call(func() { out, err = types.UnMarshalTransactions(b) }); p != nil {
		return nil, fmt.Sprintf("UnMarshalTransactions panicked on the node's own serialisation %x: %v", b, p)
	}
	if err != nil || out == nil {
		return nil, fmt.Sprintf("UnMarshalTransactions rejected the node's own serialisation %x: obj=%v err=%v", b, out != nil, err)
	}
	return out, ""
}

func passGroup(g *types.Group) (out *types.Group, problem string) {
	var b []byte
	var err error
	if p := call(func() { b, err = types.MarshalGroup(g) }); p != nil {
		return nil, fmt.Sprintf("MarshalGroup panicked: %v", p)
	}
	if err != nil || b == nil {
		return nil, fmt.Sprintf("serialise refused: bytes=%v err=%v", b != nil, err)
	}
	if p := call(func() { out, err = types.UnMarshalGroup(b) }); p != nil {
		return nil, fmt.Sprintf("UnMarshalGroup panicked on the node's own serialisation %x: %v", b, p)
	}
	if err != nil || out == nil || out.Header == nil {
		return nil, fmt.Sprintf("UnMarshalGroup rejected the node's own serialisation %x: obj=%v err=%v", b, out != nil, err)
	}
	return out, ""
}

// ---------- law A: lossless round trip + hash preserved ----------

func lawHeader(t fataler, h *types.BlockHeader, storedHash bool, what string) {
	want := h.GenHash()
	h2, prob := passHeader(h)
	if prob != "" {
		t.Fatalf("%s: header round trip: %s\nheader %s", what, prob, h.ToString())
	}
	if d := eqHeader(h, h2); d != "" {
		t.Fatalf("%s: header round trip changes %s\nheader %s", what, d, h.ToString())
	}
	if got := h2.GenHash(); got != want {
		t.Fatalf("%s: header GenHash changes across the codec: %x -> %x\nbefore %s\nafter  %s", what, want, got, h.ToString(), h2.ToString())
	}
	if storedHash && h2.Hash != want {
		t.Fatalf("%s: reparsed header: stored Hash %x != GenHash %x", what, h2.Hash, want)
	}
}

func lawTx(t fataler, tx *types.Transaction, storedHash bool, what string) {
	want := tx.GenHash()
	tx2, prob := passTx(tx)
	if prob != "" {
		t.Fatalf("%s: transaction round trip: %s\ntx %+v", what, prob, *tx)
	}
	if d := eqTx(tx, tx2); d != "" {
		t.Fatalf("%s: transaction round trip changes %s\ntx %+v", what, d, *tx)
	}
	if got := tx2.GenHash(); got != want {
		t.Fatalf("%s: transaction GenHash changes across the codec: %x -> %x", what, want, got)
	}
	if storedHash && tx2.Hash != want {
		t.Fatalf("%s: reparsed transaction: stored Hash %x != GenHash %x", what, tx2.Hash, want)
	}
}

func lawTxs(t fataler, txs []*types.Transaction, what string) {
	out, prob := passTxs(txs)
	if prob != "" {
		t.Fatalf("%s: transaction list round trip: %s", what, prob)
	}
	if d := eqTxs(txs, out); d != "" {
		t.Fatalf("%s: transaction list round trip changes %s", what, d)
	}
	for i := range txs {
		if txs[i].GenHash() != out[i].GenHash() {
			t.Fatalf("%s: transaction list: GenHash of element %d changes", what, i)
		}
	}
}

func lawBlock(t fataler, bl *types.Block, storedHash bool, what string) {
	want := bl.Header.GenHash()
	b2, prob := passBlock(bl)
	if prob != "" {
		t.Fatalf("%s: block round trip: %s\nheader %s", what, prob, bl.Header.ToString())
	}
	if d := eqBlock(bl, b2); d != "" {
		t.Fatalf("%s: block round trip changes %s\nheader %s", what, d, bl.Header.ToString())
	}
	if got := b2.Header.GenHash(); got != want {
		t.Fatalf("%s: block header GenHash changes across the codec: %x -> %x", what, want, got)
	}
	if storedHash && b2.Header.Hash != want {
		t.Fatalf("%s: reparsed block: stored Hash %x != GenHash %x", what, b2.Header.Hash, want)
	}
	for i := range bl.Transactions {
		if bl.Transactions[i].GenHash() != b2.Transactions[i].GenHash() {
			t.Fatalf("%s: block: GenHash of transaction %d changes", what, i)
		}
	}
}

func lawGroup(t fataler, g *types.Group, storedHash bool, what string) {
	want := g.Header.GenHash()
	g2, prob := passGroup(g)
	if prob != "" {
		t.Fatalf("%s: group round trip: %s\ngroup %+v header %+v", what, prob, *g, *g.Header)
	}
	if d := eqGroup(g, g2); d != "" {
		t.Fatalf("%s: group round trip changes %s\ngroup %+v header %+v", what, d, *g, *g.Header)
	}
	if got := g2.Header.GenHash(); got != want {
		t.Fatalf("%s: group header GenHash changes across the codec: %x -> %x", what, want, got)
	}
	if storedHash && g2.Header.Hash != want {
		t.Fatalf("%s: reparsed group: stored Hash %x != GenHash %x", what, g2.Header.Hash, want)
	}
}

func hdrTimesFaithful(h *types.BlockHeader) bool {
	return timeCodecFaithful(h.PreTime) && timeCodecFaithful(h.CurTime)
}

func interestingTime(x time.Time) bool {
	_, off := x.Zone()
	return off != 0 || x.Nanosecond() != 0
}

// steerC: a value whose zone offset Go's binary time codec cannot carry is the recorded shape F-C09-c.
func steerC(faithful bool) bool {
	if faithful || !stats.IsKnown(fC) {
		return false
	}
	stats.Exclude(fC)
	return true
}

// ---------- domain A ----------

func TestHeaderRoundTrip(t *testing.T) {
	stats.Check(t, 3000, 30000, func(t *rapid.T) {
		h, cls := genHeaderA(t, true)
		if steerC(hdrTimesFaithful(h)) {
			stats.Case("", "A_header_excluded_"+fC)
			return
		}
		key := ""
		if len(h.Transactions) >= 1 && (interestingTime(h.PreTime) || interestingTime(h.CurTime)) {
			key = "hdr:" + h.ToString() + fmt.Sprint(h.RequestIds)
		}
		stats.Case(key, append(cls, "A_header", fmt.Sprintf("A_header_txhashes_%d", bucket(len(h.Transactions))), fmt.Sprintf("A_header_requestids_%d", bucket(len(h.RequestIds))))...)
		lawHeader(t, h, true, "A")
		stats.Sample(map[string]string{"domain": "A_header", "header": h.ToString(), "requestIds": fmt.Sprint(h.RequestIds), "hash": h.Hash.Hex()})
	})
}

func TestTransactionRoundTrip(t *testing.T) {
	stats.Check(t, 2500, 25000, func(t *rapid.T) {
		tx, cls := genTxA(t)
		key := ""
		if tx.Sign != nil || len(tx.SubTransactions) > 0 {
			key = fmt.Sprintf("tx:%+v|%v", *tx, tx.Sign != nil)
			if tx.Sign != nil {
				key += tx.Sign.GetHexString()
			}
		}
		stats.Case(key, append(cls, "A_tx")...)
		lawTx(t, tx, true, "A")
		// the list codec carries the same element unchanged, alone and next to others
		n := rapid.IntRange(0, 2).Draw(t, "others")
		list := []*types.Transaction{tx}
		for i := 0; i < n; i++ {
			o, _ := genTxA(t)
			list = append(list, o)
		}
		lawTxs(t, list, "A")
		if len(tx.Data) < 80 {
			stats.Sample(map[string]string{"domain": "A_tx", "tx": fmt.Sprintf("%+v", *tx)})
		}
	})
}

func TestBlockRoundTrip(t *testing.T) {
	stats.Check(t, 1500, 15000, func(t *rapid.T) {
		h, cls := genHeaderA(t, true)
		bl := &types.Block{Header: h}
		switch rapid.IntRange(0, 3).Draw(t, "body") {
		case 0: // header-only block (nil body), as sent by the caster
		case 1:
			bl.Transactions = []*types.Transaction{}
		default: // body consistent with the header's hash list
			h.Transactions = []common.Hashes{}
			n := rapid.IntRange(1, 3).Draw(t, "nbody")
			if rapid.IntRange(0, 19).Draw(t, "fullBlock") == 0 {
				// a block as full as the pool packs it (200 transactions), one short of it, and beyond
				n = rapid.SampledFrom([]int{64, 199, 200, 201, 256, 300}).Draw(t, "nbodyFull")
			}
			var proto *types.Transaction
			for i := 0; i < n; i++ {
				var tx *types.Transaction
				if n > 3 && i > 2 {
					// large bodies: generated head, then cheap variations of one generated transaction
					c := *proto
					c.Nonce = uint64(i)
					c.Hash = c.GenHash()
					tx = &c
				} else {
					tx, _ = genTxA(t)
					proto = tx
				}
				bl.Transactions = append(bl.Transactions, tx)
				h.Transactions = append(h.Transactions, tx.GenHashes())
			}
			h.Hash = h.GenHash()
		}
		if steerC(hdrTimesFaithful(h)) {
			stats.Case("", "A_block_excluded_"+fC)
			return
		}
		key := ""
		if len(h.Transactions) >= 1 && (interestingTime(h.PreTime) || interestingTime(h.CurTime)) {
			key = "blk:" + h.ToString() + fmt.Sprint(len(bl.Transactions))
		}
		stats.Case(key, append(cls, "A_block", fmt.Sprintf("A_block_body_%d", bucket(len(bl.Transactions))))...)
		lawBlock(t, bl, true, "A")
	})
}

func TestGroupRoundTrip(t *testing.T) {
	stats.Check(t, 1500, 15000, func(t *rapid.T) {
		g, cls := genGroupA(t, true)
		if steerC(timeCodecFaithful(g.Header.BeginTime)) {
			stats.Case("", "A_group_excluded_"+fC)
			return
		}
		key := ""
		if len(g.Members) >= 1 {
			key = fmt.Sprintf("grp:%+v|%+v", *g, *g.Header)
		}
		stats.Case(key, append(cls, "A_group")...)
		lawGroup(t, g, true, "A")
		if len(g.Members) <= 2 {
			stats.Sample(map[string]string{"domain": "A_group", "group": fmt.Sprintf("%x members=%d height=%d", g.Id, len(g.Members), g.GroupHeight), "header": fmt.Sprintf("%+v", *g.Header)})
		}
	})
}

// ---------- domain B: arbitrary in-memory values, fixed point after one pass ----------

func genAnyString(t *rapid.T, label string) string {
	if rapid.Bool().Draw(t, label+"_raw") {
		return string(rapid.SliceOfN(rapid.Byte(), 0, 12).Draw(t, label+"_bytes")) // may be invalid UTF-8
	}
	return genText(t, label)
}

func genAnyTime(t *rapid.T, label string) time.Time {
	switch rapid.IntRange(0, 3).Draw(t, label+"_k") {
	case 0:
		x, _ := genTime(t, label, true)
		return x
	case 1: // any instant, any offset
		return time.Unix(rapid.Int64().Draw(t, label+"_sec")>>uint(rapid.IntRange(0, 40).Draw(t, label+"_sh")), rapid.Int64Range(0, 999999999).Draw(t, label+"_ns")).
			In(time.FixedZone("", rapid.IntRange(-100000, 100000).Draw(t, label+"_off")))
	case 2: // offsets around the -1 minute hole of the binary codec
		return time.Unix(1700000000, 5).In(time.FixedZone("", rapid.IntRange(-200, 200).Draw(t, label+"_small")))
	default:
		return time.Unix(rapid.Int64Range(253402300800, 1<<40).Draw(t, label+"_far"), 0).UTC() // year > 9999: no JSON form
	}
}

func unrestrictHeader(t *rapid.T, h *types.BlockHeader) (changed bool) {
	if rapid.Bool().Draw(t, "nilTxs") {
		h.Transactions, changed = nil, true
	}
	if rapid.Bool().Draw(t, "nilEvicted") {
		h.EvictedTxs, changed = nil, true
	}
	if rapid.Bool().Draw(t, "negPv") {
		h.ProveValue, changed = new(big.Int).Neg(new(big.Int).SetUint64(genU64(t, "negpv")+1)), true
	}
	if rapid.Bool().Draw(t, "rawKeys") {
		h.RequestIds = map[string]uint64{}
		for i, n := 0, rapid.IntRange(1, 3).Draw(t, "nraw"); i < n; i++ {
			h.RequestIds[string(rapid.SliceOfN(rapid.Byte(), 0, 6).Draw(t, "rawkey"))] = genU64(t, "rawval")
		}
		changed = true
	}
	if rapid.Bool().Draw(t, "anyTimes") {
		h.PreTime, h.CurTime, changed = genAnyTime(t, "anypre"), genAnyTime(t, "anycur"), true
	}
	return
}

func unrestrictTx(t *rapid.T, tx *types.Transaction) (changed bool) {
	if rapid.Bool().Draw(t, "rawStrings") {
		tx.Source, tx.Target, tx.Data = genAnyString(t, "bsource"), genAnyString(t, "btarget"), genAnyString(t, "bdata")
		tx.ExtraData, tx.Time, tx.ChainId = genAnyString(t, "bextra"), genAnyString(t, "btime"), genAnyString(t, "bchain")
		tx.SocketRequestId = genAnyString(t, "bsock")
		changed = true
	}
	if rapid.Bool().Draw(t, "rawSub") {
		tx.SubTransactions = []types.UserData{{Address: genU64(t, "baddr"), Assets: map[string]string{genAnyString(t, "bak"): genAnyString(t, "bav")},
			TransferData: types.TransferData{Balance: genAnyString(t, "bbal"), Coin: map[string]string{}, FT: map[string]string{genAnyString(t, "bfk"): ""}}}}
		changed = true
	}
	if rapid.Bool().Draw(t, "wrongHash") {
		tx.Hash, changed = genHash(t, "bhash"), true
	}
	return
}

func TestFixedPointArbitraryValues(t *testing.T) {
	stats.Check(t, 3000, 30000, func(t *rapid.T) {
		switch rapid.IntRange(0, 3).Draw(t, "kind") {
		case 0: // header
			h, _ := genHeaderA(t, true)
			changed := unrestrictHeader(t, h)
			if rapid.Bool().Draw(t, "staleHash") {
				h.Hash, changed = genHash(t, "stale"), true
			}
			v1, prob := passHeader(h)
			if strings.HasPrefix(prob, "serialise refused") {
				stats.Case("", "B_header_serialise_refused")
				return
			}
			key := ""
			if changed {
				key = "Bhdr:" + h.ToString() + fmt.Sprint(h.RequestIds)
			}
			stats.Case(key, "B_header")
			if prob != "" {
				t.Fatalf("B: %s\nheader %s", prob, h.ToString())
			}
			if steerC(hdrTimesFaithful(v1)) {
				return
			}
			lawHeader(t, v1, false, "B (second pass over f(v))")
		case 1: // transaction
			tx, _ := genTxA(t)
			changed := unrestrictTx(t, tx)
			v1, prob := passTx(tx)
			if strings.HasPrefix(prob, "serialise refused") {
				stats.Case("", "B_tx_serialise_refused")
				return
			}
			key := ""
			if changed {
				key = fmt.Sprintf("Btx:%+v", *tx)
			}
			stats.Case(key, "B_tx")
			if prob != "" {
				t.Fatalf("B: %s\ntx %+v", prob, *tx)
			}
			lawTx(t, v1, false, "B (second pass over f(v))")
		case 2: // block
			h, _ := genHeaderA(t, true)
			changed := unrestrictHeader(t, h)
			bl := &types.Block{Header: h}
			for i, n := 0, rapid.IntRange(0, 2).Draw(t, "nbody"); i < n; i++ {
				tx, _ := genTxA(t)
				if unrestrictTx(t, tx) {
					changed = true
				}
				bl.Transactions = append(bl.Transactions, tx)
			}
			v1, prob := passBlock(bl)
			if strings.HasPrefix(prob, "serialise refused") {
				stats.Case("", "B_block_serialise_refused")
				return
			}
			key := ""
			if changed {
				key = "Bblk:" + h.ToString() + fmt.Sprint(h.RequestIds, len(bl.Transactions))
			}
			stats.Case(key, "B_block")
			if prob != "" {
				t.Fatalf("B: %s\nheader %s", prob, h.ToString())
			}
			if steerC(hdrTimesFaithful(v1.Header)) {
				return
			}
			lawBlock(t, v1, false, "B (second pass over f(v))")
		default: // group
			g, _ := genGroupA(t, true)
			changed := false
			if rapid.Bool().Draw(t, "nilMember") && len(g.Members) > 0 {
				g.Members[0], changed = nil, true
			}
			if rapid.Bool().Draw(t, "rawExtends") {
				g.Header.Extends, changed = genAnyString(t, "bext"), true
			}
			if rapid.Bool().Draw(t, "anyBegin") {
				g.Header.BeginTime, changed = genAnyTime(t, "anybegin"), true
			}
			if rapid.Bool().Draw(t, "staleHash") {
				g.Header.Hash, changed = genHash(t, "stale"), true
			}
			v1, prob := passGroup(g)
			if strings.HasPrefix(prob, "serialise refused") {
				stats.Case("", "B_group_serialise_refused")
				return
			}
			key := ""
			if changed {
				key = fmt.Sprintf("Bgrp:%+v|%+v", *g, *g.Header)
			}
			stats.Case(key, "B_group")
			if prob != "" {
				t.Fatalf("B: %s\ngroup %+v", prob, *g.Header)
			}
			if steerC(timeCodecFaithful(v1.Header.BeginTime)) {
				return
			}
			lawGroup(t, v1, false, "B (second pass over f(v))")
		}
	})
}
