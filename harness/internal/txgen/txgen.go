// Package txgen builds honestly hashed and signed node transactions from harness-owned keys.
package txgen

import (
	"encoding/json"
	"fmt"
	"sort"
	"strings"

	"com.tuntun.rangers/node/src/common"
	"com.tuntun.rangers/node/src/middleware/types"
)

// Faucets are the accounts funded by the dev genesis (keys unknown to the harness).
var Faucets = []string{
	"0x8744c51069589296fcb7faa2f891b1f513a0310c",
	"0x2f4f09b722a6e5b77be17c9a99c785fa7035a09f",
	"0x42c8c9b13fc0573d18028b3398a887c4297ff646",
	"0x25716527aad0ae1dd24bd247af9232dae78595b0",
}

type Key struct {
	Idx  int
	SK   *common.PrivateKey
	Addr string // 0x-prefixed lower-case hex, as the node derives it
	ID   []byte // 32-byte miner id derived from the public key
}

var keys = map[int]*Key{}

// K returns the i-th deterministic harness key.
func K(i int) *Key {
	if k, ok := keys[i]; ok {
		return k
	}
	sk := common.HexStringToSecKey(fmt.Sprintf("0x%064x", 0x1000+i*7919))
	pk := sk.GetPubKey()
	k := &Key{Idx: i, SK: sk, Addr: pk.GetAddress().GetHexString(), ID: pk.GetID()}
	keys[i] = k
	return k
}

// Finish sets chain id, hash and (if k != nil) an honest signature.
func Finish(tx *types.Transaction, k *Key) *types.Transaction {
	if tx.ChainId == "" {
		tx.ChainId = common.ChainId(1)
	}
	tx.Hash = tx.GenHash()
	if k != nil {
		s := k.SK.Sign(tx.Hash.Bytes())
		tx.Sign = &s
	}
	return tx
}

// Transfer builds an asset-transfer transaction; targets maps address -> decimal amount string.
// The JSON object is rendered with keys in the given order (JSON object order is irrelevant to
// the node, which unmarshals into a map).
func Transfer(source string, k *Key, targets [][2]string, nonce uint64, salt string) *types.Transaction {
	var sb strings.Builder
	sb.WriteString("{")
	for i, t := range targets {
		if i > 0 {
			sb.WriteString(",")
		}
		fmt.Fprintf(&sb, `%q:{"balance":%q}`, t[0], t[1])
	}
	sb.WriteString("}")
	tx := &types.Transaction{Source: source, Type: types.TransactionTypeOperatorEvent, Time: salt, ExtraData: sb.String(), Nonce: nonce}
	return Finish(tx, k)
}

type MinerData struct {
	Id           string `json:"id,omitempty"`
	PublicKey    string `json:"publicKey,omitempty"`
	VrfPublicKey []byte `json:"vrfPublicKey,omitempty"`
	Type         byte   `json:"type,omitempty"`
	Stake        uint64 `json:"stake,omitempty"`
	Account      string `json:"account,omitempty"`
}

func minerJSON(m MinerData) string {
	b, _ := json.Marshal(m)
	return string(b)
}

func MinerApply(k *Key, m MinerData, nonce uint64, salt string) *types.Transaction {
	tx := &types.Transaction{Source: k.Addr, Type: types.TransactionTypeMinerApply, Time: salt, Data: minerJSON(m), Nonce: nonce}
	return Finish(tx, k)
}

func MinerAdd(k *Key, id string, stake uint64, nonce uint64, salt string) *types.Transaction {
	tx := &types.Transaction{Source: k.Addr, Type: types.TransactionTypeMinerAdd, Time: salt, Data: minerJSON(MinerData{Id: id, Stake: stake}), Nonce: nonce}
	return Finish(tx, k)
}

func MinerRefund(k *Key, id string, amount string, nonce uint64, salt string) *types.Transaction {
	d, _ := json.Marshal(map[string]string{"Amount": amount, "MinerId": id})
	tx := &types.Transaction{Source: k.Addr, Type: types.TransactionTypeMinerRefund, Time: salt, Data: string(d), Nonce: nonce}
	return Finish(tx, k)
}

func MinerChangeAccount(k *Key, id string, account string, nonce uint64, salt string) *types.Transaction {
	tx := &types.Transaction{Source: k.Addr, Type: types.TransactionTypeMinerChangeAccount, Time: salt, Data: minerJSON(MinerData{Id: id, Account: account}), Nonce: nonce}
	return Finish(tx, k)
}

// Contract builds a native contract transaction (create when target is empty).
func Contract(k *Key, source, target string, abiHex, value, gasLimit, gasPrice string, nonce uint64, salt string) *types.Transaction {
	cd := types.ContractData{AbiData: abiHex, TransferValue: value, GasLimit: gasLimit, GasPrice: gasPrice}
	b, _ := json.Marshal(cd)
	tx := &types.Transaction{Source: source, Target: target, Type: types.TransactionTypeContract, Time: salt, Data: string(b), Nonce: nonce}
	return Finish(tx, k)
}

// SortForBlock orders txs the way a proposer does.
func SortForBlock(txs []*types.Transaction) {
	sort.Sort(types.Transactions(txs))
}
