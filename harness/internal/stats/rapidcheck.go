package stats

import (
	"flag"
	"strconv"
	"testing"

	"pgregory.net/rapid"
)

// Check runs a rapid property with a per-test, per-tier case count (rapid only has one
// global -rapid.checks flag; it is read when Check starts, so it is set here).
func Check(t *testing.T, quick, thorough int, prop func(*rapid.T)) {
	t.Helper()
	n := N(quick, thorough)
	_ = flag.Set("rapid.checks", strconv.Itoa(n))
	_ = flag.Set("rapid.steps", "30")
	rapid.Check(t, prop)
}

// CheckSteps is Check with an explicit average number of state-machine steps.
func CheckSteps(t *testing.T, quick, thorough, steps int, prop func(*rapid.T)) {
	t.Helper()
	n := N(quick, thorough)
	_ = flag.Set("rapid.checks", strconv.Itoa(n))
	_ = flag.Set("rapid.steps", strconv.Itoa(steps))
	rapid.Check(t, prop)
}
