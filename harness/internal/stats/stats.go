// Package stats collects what a check actually explored (case counts, the set of
// distinct non-trivial case fingerprints, per-class histograms, samples) and the
// known-findings list. Each test process writes one JSON file into $VERIF_OUT; the
// driver merges the files of all shards into evidence/<ID>.json.
package stats

import (
	"bufio"
	"crypto/sha256"
	"encoding/hex"
	"encoding/json"
	"fmt"
	"os"
	"path/filepath"
	"sort"
	"strconv"
	"sync"
	"testing"
	"time"
)

type Rec struct {
	mu         sync.Mutex
	Property   string            `json:"property_id"`
	Evals      int64             `json:"evaluations"`
	NonTrivial map[string]bool   `json:"-"`
	NTKeys     []string          `json:"nontrivial_keys"`
	Classes    map[string]int64  `json:"classes"`
	Samples    []interface{}     `json:"samples"`
	Excluded   map[string]int64  `json:"excluded_known"`
	Counters   map[string]int64  `json:"counters"`
	Rule       string            `json:"rule"`
	Assume     []string          `json:"assumptions"`
	Known      []string          `json:"known_findings_printed"`
	Exhaustive map[string]bool   `json:"exhaustive_subspaces"`
	Notes      map[string]string `json:"notes"`
	maxSamples int
	sampleSeen int64
	start      time.Time
}

var R = &Rec{
	NonTrivial: map[string]bool{}, Classes: map[string]int64{}, Excluded: map[string]int64{},
	Counters: map[string]int64{}, Exhaustive: map[string]bool{}, Notes: map[string]string{},
	maxSamples: 8, start: time.Now(),
}

// Case records one executed case. ntKey != "" means the case is non-trivial by the
// property's rule; the key is its distinctness fingerprint.
func Case(ntKey string, classes ...string) {
	R.mu.Lock()
	defer R.mu.Unlock()
	R.Evals++
	if ntKey != "" {
		h := sha256.Sum256([]byte(ntKey))
		R.NonTrivial[hex.EncodeToString(h[:8])] = true
	}
	for _, c := range classes {
		R.Classes[c]++
	}
}

// Evals adds n executed sub-cases (e.g. adversarial candidates checked inside one generated case) to
// the evaluation count, so that evaluations >= distinct non-trivial keys recorded with NonTrivialOnly.
func Evals(n int64) { R.mu.Lock(); R.Evals += n; R.mu.Unlock() }

func Class(c string)          { R.mu.Lock(); R.Classes[c]++; R.mu.Unlock() }
func Count(c string, n int64) { R.mu.Lock(); R.Counters[c] += n; R.mu.Unlock() }
func Exclude(finding string)  { R.mu.Lock(); R.Excluded[finding]++; R.mu.Unlock() }
func SetRule(s string)        { R.mu.Lock(); R.Rule = s; R.mu.Unlock() }
func Assume(s string)         { R.mu.Lock(); R.Assume = append(R.Assume, s); R.mu.Unlock() }
func Exhaustive(space string) { R.mu.Lock(); R.Exhaustive[space] = true; R.mu.Unlock() }
func Note(k, v string)        { R.mu.Lock(); R.Notes[k] = v; R.mu.Unlock() }
func NonTrivialOnly(key string) {
	R.mu.Lock()
	h := sha256.Sum256([]byte(key))
	R.NonTrivial[hex.EncodeToString(h[:8])] = true
	R.mu.Unlock()
}

// Sample keeps a few of the cases verbatim (first ones plus a deterministic thinning).
func Sample(v interface{}) {
	R.mu.Lock()
	defer R.mu.Unlock()
	R.sampleSeen++
	if len(R.Samples) < R.maxSamples {
		R.Samples = append(R.Samples, v)
		return
	}
	// deterministic replacement: every 2^k-th sample replaces slot k mod max
	n := R.sampleSeen
	if n&(n-1) == 0 {
		k := 0
		for m := n; m > 1; m >>= 1 {
			k++
		}
		R.Samples[k%R.maxSamples] = v
	}
}

// Flush writes the per-process statistics file. Called from TestMain.
func Flush(property string) {
	R.mu.Lock()
	defer R.mu.Unlock()
	R.Property = property
	R.NTKeys = R.NTKeys[:0]
	for k := range R.NonTrivial {
		R.NTKeys = append(R.NTKeys, k)
	}
	sort.Strings(R.NTKeys)
	dir := os.Getenv("VERIF_OUT")
	if dir == "" {
		return
	}
	b, err := json.Marshal(R)
	if err != nil {
		fmt.Fprintln(os.Stderr, "stats marshal:", err)
		return
	}
	name := filepath.Join(dir, fmt.Sprintf("stats-%s-%d.json", property, os.Getpid()))
	_ = os.WriteFile(name, b, 0o644)
}

// Main is the common TestMain body.
func Main(m *testing.M, property string) {
	code := m.Run()
	Flush(property)
	os.Exit(code)
}

// ---------- tiers / sizes ----------

func Thorough() bool { return os.Getenv("VERIF_TIER") == "thorough" }

// N picks a case count by tier; VERIF_SCALE (float) scales both.
func N(quick, thorough int) int {
	n := quick
	if Thorough() {
		n = thorough
	}
	if s := os.Getenv("VERIF_SCALE"); s != "" {
		if f, err := strconv.ParseFloat(s, 64); err == nil && f > 0 {
			n = int(float64(n) * f)
			if n < 1 {
				n = 1
			}
		}
	}
	return n
}

// ---------- known findings ----------

type Finding struct {
	ID       string `json:"id"`
	Property string `json:"property"`
	Status   string `json:"status"` // "known" | "fixed"
	What     string `json:"what"`
	Commit   string `json:"commit,omitempty"`
}

var (
	kfOnce sync.Once
	kf     map[string]Finding
)

func loadKF() {
	kf = map[string]Finding{}
	p := os.Getenv("VERIF_KNOWN")
	if p == "" {
		p = "/verif/known_findings.jsonl"
	}
	f, err := os.Open(p)
	if err != nil {
		return
	}
	defer f.Close()
	sc := bufio.NewScanner(f)
	sc.Buffer(make([]byte, 1<<20), 1<<20)
	for sc.Scan() {
		var x Finding
		if json.Unmarshal(sc.Bytes(), &x) == nil && x.ID != "" {
			kf[x.ID] = x
		}
	}
}

// IsKnown reports whether the finding is listed as an unrepaired known finding. Only then
// may a generator steer around its shape (and must count it with Exclude).
func IsKnown(id string) bool {
	kfOnce.Do(loadKF)
	x, ok := kf[id]
	return ok && x.Status == "known"
}

// Probe runs the minimal reproduction of a recorded finding. present reports whether the
// defect is still there. Listed-as-known + present → KNOWN-FINDING line, pass. Present but
// not listed (or listed as fixed) → test failure (= VIOLATION). Absent → pass silently.
func Probe(t *testing.T, id, property string, present bool, what string) {
	t.Helper()
	if !present {
		Class("probe_absent:" + id)
		return
	}
	if IsKnown(id) {
		fmt.Printf("KNOWN-FINDING: property=%s %s %s\n", property, id, what)
		R.mu.Lock()
		R.Known = append(R.Known, id)
		R.mu.Unlock()
		return
	}
	t.Fatalf("finding %s reproduced but not listed as known: %s", id, what)
}
