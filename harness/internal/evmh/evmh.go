// Package evmh is the shared harness helper for the checks that drive the node's EVM directly
// (C10, C11, C12): it boots the process globals the VM needs, selects the fork configuration,
// builds an in-memory account state, installs code and runs vm.NewEVM(ctx, state).Call/Create
// the same way src/executor/contract_executor.go does, with Go panics recovered and reported
// separately from EVM errors (a panic is never a pass; the caller decides how to fail).
package evmh

import (
	"errors"
	"fmt"
	"math"
	"math/big"
	"reflect"
	"runtime/debug"
	"strconv"
	"strings"
	"sync"
	"time"

	"com.tuntun.rangers/node/src/common"
	"com.tuntun.rangers/node/src/middleware/db"
	"com.tuntun.rangers/node/src/middleware/types"
	"com.tuntun.rangers/node/src/storage/account"
	"com.tuntun.rangers/node/src/vm"
)

// Height is the block height the helper executes at (ctx.BlockNumber and the process-global
// common.GetBlockHeight(), which the proposal predicates read).
const Height uint64 = 1000

var (
	bootOnce sync.Once

	// Origin / Contract are the default externally-owned caller and the default address code is
	// installed at.
	Origin   = common.HexToAddress("0x1000000000000000000000000000000000000001")
	Contract = common.HexToAddress("0x2000000000000000000000000000000000000002")
	Coinbase = common.HexToAddress("0x3000000000000000000000000000000000000003")
)

// Boot initialises the node globals the VM reads (config, loggers) and activates every proposal.
// It writes 1.ini / logs/ into the current directory (the driver runs tests in a scratch cwd).
// Idempotent.
func Boot() {
	bootOnce.Do(func() {
		common.Init(0, "1.ini", "dev")
		vm.InitVM()
		SetAllProposalsActive()
	})
}

// SetProposals sets every common.LocalChainConfig.ProposalNNNBlock: proposals for which active(n)
// is true become active at height 0, the others never (MaxUint64). It also sets the process-global
// block height to Height. The EVM jump table is chosen from ctx.BlockNumber against Proposal014 /
// 022 / 026; gas magnification and some gas functions read the global height.
func SetProposals(active func(n int) bool) {
	v := reflect.ValueOf(&common.LocalChainConfig).Elem()
	t := v.Type()
	for i := 0; i < t.NumField(); i++ {
		name := t.Field(i).Name
		if !strings.HasPrefix(name, "Proposal") || !strings.HasSuffix(name, "Block") {
			continue
		}
		n, err := strconv.Atoi(name[len("Proposal") : len(name)-len("Block")])
		if err != nil || !v.Field(i).CanSet() || v.Field(i).Kind() != reflect.Uint64 {
			continue
		}
		if active(n) {
			v.Field(i).SetUint(0)
		} else {
			v.Field(i).SetUint(math.MaxUint64)
		}
	}
	common.SetBlockHeight(Height)
}

// SetAllProposalsActive is the "all proposals active" fork configuration.
func SetAllProposalsActive() { SetProposals(func(int) bool { return true }) }

// SetProposalsUpTo activates proposals 1..n and disables the later ones
// (n=13: pre-014 jump table; 14; 22: +PUSH0/MCOPY/TLOAD...; 26: gas x30).
func SetProposalsUpTo(n int) { SetProposals(func(k int) bool { return k <= n }) }

// NewState returns an empty account state over an in-memory key-value store.
func NewState() *account.AccountDB {
	mem, err := db.NewMemDatabase()
	if err != nil {
		panic(err)
	}
	st, err := account.NewAccountDB(common.Hash{}, account.NewDatabase(mem))
	if err != nil {
		panic(err)
	}
	return st
}

// Install creates the account (if needed) and sets its code.
func Install(st *account.AccountDB, addr common.Address, code []byte) {
	if !st.Exist(addr) {
		st.CreateAccount(addr)
	}
	st.SetCode(addr, code)
}

// NewContext builds the vm.Context the way contractExecutor.Execute does (constant difficulty 123,
// gas price 1 gwei-like constant, block hash function over the height).
func NewContext(origin common.Address, gasLimit uint64) vm.Context {
	return vm.Context{
		CanTransfer: vm.CanTransfer,
		Transfer:    vm.Transfer,
		GetHash: func(n uint64) common.Hash {
			var h common.Hash
			copy(h[:], []byte(fmt.Sprintf("blockhash-%020d", n)))
			return h
		},
		Origin:      origin,
		GasPrice:    big.NewInt(1000000000),
		Coinbase:    Coinbase,
		GasLimit:    gasLimit,
		BlockNumber: new(big.Int).SetUint64(Height),
		Time:        big.NewInt(1700000000),
		Difficulty:  big.NewInt(123),
	}
}

// Result of one top-level EVM invocation.
type Result struct {
	Ret     []byte
	GasLeft uint64
	Logs    []*types.Log
	Err     error          // error value returned by the EVM (nil on success)
	Addr    common.Address // created address (Create only)
	Panic   interface{}    // non-nil iff a Go panic escaped the EVM; Err/Ret are then meaningless
	// TimedOut: the run was still going when the Watchdog fired and had to be stopped through EVM.Cancel
	TimedOut bool
	Stack    string // goroutine stack of the panic
}

// Watchdog, when > 0, bounds the wall-clock time of one top-level invocation: a run that is still going after
// that long is stopped through EVM.Cancel and reported with TimedOut. Every run is bounded by its gas, so a
// harness sets this to a value orders of magnitude above what its largest gas budget can take.
var Watchdog time.Duration

// guarded runs f (one top-level EVM invocation filling a Result) under the Watchdog. Without a Watchdog it is a
// plain call. With one, f runs in its own goroutine; if it has not returned in time the EVM is cancelled (which
// only stops frames that execute >= 1000 instructions) and, should it still not return within a further second,
// the goroutine is abandoned (it keeps burning a core until the process ends) and TimedOut is reported.
func guarded(evm *vm.EVM, f func() Result) Result {
	if Watchdog <= 0 {
		return f()
	}
	done := make(chan Result, 1)
	go func() {
		var r Result
		defer func() {
			if p := recover(); p != nil {
				r.Panic = p
				r.Stack = string(debug.Stack())
			}
			done <- r
		}()
		r = f()
	}()
	select {
	case r := <-done:
		return r
	case <-time.After(Watchdog):
	}
	evm.Cancel()
	select {
	case r := <-done:
		r.TimedOut = true
		return r
	case <-time.After(time.Second):
		return Result{TimedOut: true}
	}
}

// Panicked reports whether a Go panic escaped.
func (r *Result) Panicked() bool { return r.Panic != nil }

// Call runs vm.NewEVMWithNFT(ctx, st, st).Call(caller -> addr) like the contract executor.
func Call(st *account.AccountDB, ctx vm.Context, caller, addr common.Address, input []byte, gas uint64, value *big.Int) (res Result) {
	defer func() {
		if p := recover(); p != nil {
			res.Panic = p
			res.Stack = string(debug.Stack())
		}
	}()
	if value == nil {
		value = new(big.Int)
	}
	evm := vm.NewEVMWithNFT(ctx, st, st)
	return guarded(evm, func() (r Result) {
		r.Ret, r.GasLeft, r.Logs, r.Err = evm.Call(vm.AccountRef(caller), addr, input, gas, value)
		return r
	})
}

// Create runs vm.NewEVMWithNFT(ctx, st, st).Create(caller, initcode).
func Create(st *account.AccountDB, ctx vm.Context, caller common.Address, initcode []byte, gas uint64, value *big.Int) (res Result) {
	defer func() {
		if p := recover(); p != nil {
			res.Panic = p
			res.Stack = string(debug.Stack())
		}
	}()
	if value == nil {
		value = new(big.Int)
	}
	evm := vm.NewEVMWithNFT(ctx, st, st)
	return guarded(evm, func() (r Result) {
		r.Ret, r.Addr, r.GasLeft, r.Logs, r.Err = evm.Create(vm.AccountRef(caller), initcode, gas, value)
		return r
	})
}

// StaticCall runs vm.NewEVMWithNFT(ctx, st, st).StaticCall(caller -> addr): the top-level frame itself is
// read-only, so a write attempt surfaces as the error of this call (added for C11).
func StaticCall(st *account.AccountDB, ctx vm.Context, caller, addr common.Address, input []byte, gas uint64) (res Result) {
	defer func() {
		if p := recover(); p != nil {
			res.Panic = p
			res.Stack = string(debug.Stack())
		}
	}()
	evm := vm.NewEVMWithNFT(ctx, st, st)
	return guarded(evm, func() (r Result) {
		r.Ret, r.GasLeft, r.Logs, r.Err = evm.StaticCall(vm.AccountRef(caller), addr, input, gas)
		return r
	})
}

// RunCode is the one-shot convenience: fresh state, code installed at Contract, called by Origin
// with zero value.
func RunCode(code, input []byte, gas uint64) Result {
	Boot()
	st := NewState()
	Install(st, Contract, code)
	return Call(st, NewContext(Origin, gas), Origin, Contract, input, gas, nil)
}

// Runner amortises state construction over many runs of storage-free code: the same in-memory
// state is reused (code re-installed at Contract for every run) and replaced every 256 runs.
// Use RunCode instead when the code under test writes state.
type Runner struct {
	st *account.AccountDB
	n  int
}

func (r *Runner) Run(code, input []byte, gas uint64) Result {
	Boot()
	if r.st == nil || r.n >= 256 {
		r.st, r.n = NewState(), 0
	}
	r.n++
	Install(r.st, Contract, code)
	return Call(r.st, NewContext(Origin, gas), Origin, Contract, input, gas, nil)
}

// Failure kinds of the documented error surface.
const (
	KindOK             = "ok"
	KindRevert         = "revert"
	KindBadJump        = "badjump"
	KindStackUnderflow = "underflow"
	KindStackOverflow  = "overflow"
	KindInvalidOpcode  = "invalid"
	KindOutOfGas       = "oog" // out of gas or gas/memory-size uint64 overflow
	KindWriteProtect   = "writeprotect"
	KindReturnDataOOB  = "returndata_oob"
	KindDepth          = "depth"
	KindBalance        = "insufficient_balance"
	KindOther          = "other" // an error this helper cannot attribute to a documented kind
)

// Kind maps an EVM error to its documented kind. Unknown errors map to KindOther, which callers
// must treat as "some failure" and never as a specific one.
func Kind(err error) string {
	if err == nil {
		return KindOK
	}
	var (
		su *vm.ErrStackUnderflow
		so *vm.ErrStackOverflow
		io *vm.ErrInvalidOpCode
	)
	switch {
	case errors.Is(err, vm.ErrExecutionReverted):
		return KindRevert
	case errors.Is(err, vm.ErrInvalidJump):
		return KindBadJump
	case errors.As(err, &su):
		return KindStackUnderflow
	case errors.As(err, &so):
		return KindStackOverflow
	case errors.As(err, &io):
		return KindInvalidOpcode
	case errors.Is(err, vm.ErrOutOfGas), errors.Is(err, vm.ErrGasUintOverflow):
		return KindOutOfGas
	case errors.Is(err, vm.ErrWriteProtection):
		return KindWriteProtect
	case errors.Is(err, vm.ErrReturnDataOutOfBounds):
		return KindReturnDataOOB
	case errors.Is(err, vm.ErrDepth):
		return KindDepth
	case errors.Is(err, vm.ErrInsufficientBalance):
		return KindBalance
	}
	return KindOther
}

// ---- additions for C12 (state that can be committed and reopened cold) ----

// NewStateDB is NewState that also returns the backing account database, so that the state can be
// committed and reopened at its root (the way a block executor opens the parent state).
func NewStateDB() (*account.AccountDB, account.AccountDatabase) {
	mem, err := db.NewMemDatabase()
	if err != nil {
		panic(err)
	}
	adb := account.NewDatabase(mem)
	st, err := account.NewAccountDB(common.Hash{}, adb)
	if err != nil {
		panic(err)
	}
	return st, adb
}

// Reopen commits st and returns a fresh AccountDB opened at the committed root over the same
// database: no cached account objects, empty journal, empty per-transaction scratch state.
func Reopen(st *account.AccountDB, adb account.AccountDatabase) (*account.AccountDB, common.Hash, error) {
	root, err := st.Commit(true)
	if err != nil {
		return nil, root, err
	}
	st2, err := account.NewAccountDB(root, adb)
	return st2, root, err
}
