// Package boot starts the node core (chain, group chain, tx pool, state manager, executors)
// inside the test process, in a scratch directory, with a stub consensus helper. It also
// offers an in-process restart over the same stores and block-building helpers.
package boot

import (
	"fmt"
	"math/big"
	"os"
	"time"

	"com.tuntun.rangers/node/src/common"
	"com.tuntun.rangers/node/src/consensus/logical/group_create"
	"com.tuntun.rangers/node/src/core"
	"com.tuntun.rangers/node/src/middleware"
	"com.tuntun.rangers/node/src/middleware/types"
	"com.tuntun.rangers/node/src/service"
	"com.tuntun.rangers/node/src/storage/account"
	"com.tuntun.rangers/node/src/vm"
)

// Helper is the stub consensus helper: every signature / VRF / membership predicate is true
// (those are the business of C13–C16); genesis info is the node's own dev genesis.
type Helper struct{}

func (Helper) GenerateGenesisInfo() []*types.GenesisInfo { return group_create.GetGenesisInfo() }
func (Helper) VRFProve2Value(p *big.Int) *big.Int         { return new(big.Int).Set(p) }
func (Helper) ProposalBonus() *big.Int                     { return big.NewInt(0) }
func (Helper) PackBonus() *big.Int                         { return big.NewInt(0) }
func (Helper) VerifyHash(b *types.Block) common.Hash       { return b.Header.Hash }
func (Helper) CheckProveRoot(*types.BlockHeader) (bool, error) {
	return true, nil
}
func (Helper) VerifyNewBlock(*types.BlockHeader, *types.BlockHeader) (bool, error) { return true, nil }
func (Helper) VerifyBlockHeader(*types.BlockHeader) (bool, error)                   { return true, nil }
func (Helper) VerifyGroupSign([]byte, common.Hash, []byte) (bool, error)            { return true, nil }
func (Helper) CheckGroup(g *types.Group) (bool, error) {
	if h := CheckGroupHook; h != nil {
		return h(g)
	}
	return true, nil
}
func (Helper) VerifyMemberInfo(*types.BlockHeader, *types.BlockHeader) (bool, error) {
	return true, nil
}
func (Helper) VerifyGroupForFork(*types.Group, *types.Group, *types.Group, *types.Block) (bool, error) {
	return true, nil
}

// CheckGroupHook, when set, is called by the stub consensus helper inside AddGroup's group check - the one
// point of AddGroup at which real nodes spend time (signature verification) outside any lock. A test can block
// there to own the interleaving of two concurrent group-chain operations.
var CheckGroupHook func(*types.Group) (bool, error)

type Node struct {
	Dir     string
	oldCwd  string
	started bool
}

var current *Node

// ConfigureForks sets the fork configuration used by all booted-node checks: every proposal
// active from height 1 (the dev preset has several at 0; Proposal026 at 0 makes the dev
// genesis contracts run out of gas).
var ConfigureForks = func() {
	c := &common.LocalChainConfig
	c.Proposal026Block = 1
}

// Start boots a fresh node in a new temporary directory (becomes the cwd).
func Start() (*Node, error) {
	if current != nil {
		return nil, fmt.Errorf("boot: a node is already running in this process")
	}
	dir, err := os.MkdirTemp("", "node-")
	if err != nil {
		return nil, err
	}
	n := &Node{Dir: dir}
	n.oldCwd, _ = os.Getwd()
	if err := os.Chdir(dir); err != nil {
		return nil, err
	}
	common.Init(0, "1.ini", "dev")
	account.VerifResetProcessCaches()
	ConfigureForks()
	if err := n.up(); err != nil {
		return nil, err
	}
	current = n
	return n, nil
}

// StartAt boots a node over an EXISTING node directory (e.g. a copy of another node's stores): the
// chain, state and pool are loaded from disk exactly as after a process restart.
func StartAt(dir string) (*Node, error) {
	if current != nil {
		return nil, fmt.Errorf("boot: a node is already running in this process")
	}
	n := &Node{Dir: dir}
	n.oldCwd, _ = os.Getwd()
	if err := os.Chdir(dir); err != nil {
		return nil, err
	}
	common.Init(0, "1.ini", "dev")
	account.VerifResetProcessCaches()
	ConfigureForks()
	if err := n.up(); err != nil {
		return nil, err
	}
	current = n
	return n, nil
}

func (n *Node) up() (err error) {
	defer func() {
		if r := recover(); r != nil {
			err = fmt.Errorf("boot panic: %v", r)
		}
	}()
	if err = middleware.InitMiddleware(); err != nil {
		return err
	}
	service.InitService()
	vm.InitVM()
	sk := common.GenerateKey("")
	if err = core.InitCore(Helper{}, sk, "verif"); err != nil {
		return err
	}
	n.started = true
	return nil
}

func (n *Node) down() {
	if !n.started {
		return
	}
	func() {
		defer func() { recover() }()
		core.GetBlockChain().Close()
	}()
	func() {
		defer func() { recover() }()
		core.GetGroupChain().Close()
	}()
	func() {
		defer func() { recover() }()
		service.Close()
	}()
	func() {
		defer func() { recover() }()
		middleware.Close()
	}()
	core.VerifResetChain()
	service.VerifResetPool()
	n.started = false
}

// Restart closes every store, forgets all singletons and runs the ordinary init sequence
// again over the same directory.
func (n *Node) Restart() error {
	t0 := time.Now()
	n.down()
	t1 := time.Now()
	err := n.up()
	if os.Getenv("VERIF_BOOT_TIMING") != "" {
		fmt.Printf("restart: down %v up %v\n", t1.Sub(t0), time.Since(t1))
	}
	return err
}

// Stop closes the node and removes its directory.
func (n *Node) Stop() {
	n.down()
	if n.oldCwd != "" {
		_ = os.Chdir(n.oldCwd)
	}
	_ = os.RemoveAll(n.Dir)
	current = nil
}

func Chain() core.BlockChain           { return core.GetBlockChain() }
func Groups() core.GroupChain          { return core.GetGroupChain() }
func Pool() service.TransactionPool    { return service.GetTransactionPool() }

// NewHeader builds a child header of parent. The node's own VerifyBlock completes roots,
// evicted list and hash (the verifier path).
func NewHeader(parent *types.BlockHeader, height uint64, qnInc uint64, prove *big.Int, txs []*types.Transaction, castor, group []byte, curTime time.Time) *types.BlockHeader {
	bh := &types.BlockHeader{
		Height:     height,
		PreHash:    parent.Hash,
		PreTime:    parent.CurTime,
		CurTime:    curTime,
		ProveValue: prove,
		TotalQN:    parent.TotalQN + qnInc,
		Castor:     castor,
		GroupId:    group,
		RequestIds: map[string]uint64{},
		EvictedTxs: []common.Hash{},
		Random:     []byte{1},
		Signature:  []byte{1},
	}
	for k, v := range parent.RequestIds {
		bh.RequestIds[k] = v
	}
	var maxReq uint64
	for _, tx := range txs {
		if tx.RequestId > maxReq {
			maxReq = tx.RequestId
		}
	}
	if maxReq != 0 && maxReq > bh.RequestIds["fixed"] {
		bh.RequestIds["fixed"] = maxReq
	}
	if len(txs) > 0 { // as the proposer does (core.calcTxTree)
		var buf []byte
		for _, tx := range txs {
			if tx.Type != 0 {
				buf = append(buf, tx.Hash.Bytes()...)
			}
		}
		bh.TxTree = common.BytesToHash(common.Sha256(buf))
	}
	bh.Transactions = make([]common.Hashes, 0, len(txs))
	for _, tx := range txs {
		var h common.Hashes
		h[0], h[1] = tx.Hash, tx.SubHash
		bh.Transactions = append(bh.Transactions, h)
	}
	return bh
}

// ExecResult is what one run of the block executor produced.
type ExecResult struct {
	State    *account.AccountDB
	Root     common.Hash
	Evicted  []common.Hash
	Executed []*types.Transaction
	Receipts []*types.Receipt
	Panic    interface{}
}

// Exec runs the node's block executor (the same code path as block verification) for header/txs
// on a fresh AccountDB opened at parentRoot. The process-global height is set to parentHeight
// first, as it is when a node verifies the child of its head. Nothing is written to disk.
func Exec(parentRoot common.Hash, parentHeight uint64, header *types.BlockHeader, txs []*types.Transaction, situation string) (res ExecResult) {
	return ExecWith(parentRoot, parentHeight, header, txs, situation, nil)
}

// ExecWith is Exec with a hook that may read from the fresh state object before the block is
// executed (to vary the order in which accounts are first touched).
func ExecWith(parentRoot common.Hash, parentHeight uint64, header *types.BlockHeader, txs []*types.Transaction, situation string, pre func(*account.AccountDB)) (res ExecResult) {
	st, err := middleware.AccountDBManagerInstance.GetAccountDBByHash(parentRoot)
	if err != nil {
		res.Panic = fmt.Errorf("open state %s: %v", parentRoot.Hex(), err)
		return
	}
	common.SetBlockHeight(parentHeight)
	if pre != nil {
		pre(st)
	}
	list := make([]*types.Transaction, len(txs))
	for i, tx := range txs { // the executor sorts its list in place; keep the caller's slice intact
		c := *tx
		list[i] = &c
	}
	blk := &types.Block{Header: header, Transactions: list}
	func() {
		defer func() {
			if r := recover(); r != nil {
				res.Panic = r
			}
		}()
		res.Root, res.Evicted, res.Executed, res.Receipts = core.VerifExecuteBlock(st, blk, situation)
	}()
	res.State = st
	return
}

// Persist commits an executed state so that its root can be opened again.
func Persist(st *account.AccountDB) (common.Hash, error) {
	root, err := st.Commit(true)
	if err != nil {
		return root, err
	}
	return root, middleware.AccountDBManagerInstance.GetTrieDB().Commit(root, false)
}

// OpenState opens a cold AccountDB at root.
func OpenState(root common.Hash) (*account.AccountDB, error) {
	return middleware.AccountDBManagerInstance.GetAccountDBByHash(root)
}
