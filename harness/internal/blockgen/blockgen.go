// Package blockgen generates block contents over every executor type: asset transfers with
// arbitrary JSON target maps, miner management, native contract create/call with small EVM
// programs, and wrapped Ethereum transactions. All choices are rapid draws.
package blockgen

import (
	"crypto/ecdsa"
	"encoding/hex"
	"fmt"
	"math/big"
	"strings"

	"com.tuntun.rangers/node/src/common"
	"com.tuntun.rangers/node/src/eth_tx"
	"com.tuntun.rangers/node/src/middleware/types"
	"com.tuntun.rangers/node/src/storage/rlp"
	"pgregory.net/rapid"

	"verifharness/internal/txgen"
)

// Universe is the closed set of externally owned accounts used by the generators.
const NKeys = 6

func Addr(i int) string { return txgen.K(i).Addr }

// ---------- tiny EVM assembler ----------

type Asm struct{ b []byte }

func (a *Asm) Op(ops ...byte) *Asm { a.b = append(a.b, ops...); return a }
func (a *Asm) Push(v *big.Int) *Asm {
	bs := v.Bytes()
	if len(bs) == 0 {
		bs = []byte{0}
	}
	a.b = append(a.b, byte(0x5f+len(bs)))
	a.b = append(a.b, bs...)
	return a
}
func (a *Asm) PushU(v uint64) *Asm  { return a.Push(new(big.Int).SetUint64(v)) }
func (a *Asm) PushB(bs []byte) *Asm { return a.Push(new(big.Int).SetBytes(bs)) }
func (a *Asm) PushAddr(hexAddr string) *Asm {
	return a.PushB(common.FromHex(hexAddr))
}
func (a *Asm) Bytes() []byte { return a.b }

const (
	STOP, ADD, MUL                       = 0x00, 0x01, 0x02
	KECCAK256                            = 0x20
	ADDRESS, BALANCE, ORIGIN, CALLER     = 0x30, 0x31, 0x32, 0x33
	CALLVALUE, CALLDATALOAD, CODECOPY    = 0x34, 0x35, 0x39
	GASPRICE, BLOCKHASH, COINBASE        = 0x3a, 0x40, 0x41
	TIMESTAMP, NUMBER, DIFFICULTY        = 0x42, 0x43, 0x44
	GASLIMIT, CHAINID, SELFBALANCE       = 0x45, 0x46, 0x47
	BASEFEE, BLOBHASH, BLOBBASEFEE       = 0x48, 0x49, 0x4a
	POP, MLOAD, MSTORE, SLOAD, SSTORE    = 0x50, 0x51, 0x52, 0x54, 0x55
	GAS, JUMPDEST                        = 0x5a, 0x5b
	DUP1, LOG0, LOG1, LOG2               = 0x80, 0xa0, 0xa1, 0xa2
	CREATE, CALL, RETURN, DELEGATECALL   = 0xf0, 0xf1, 0xf3, 0xf4
	CREATE2, STATICCALL, REVERT, INVALID = 0xf5, 0xfa, 0xfd, 0xfe
	SELFDESTRUCT                         = 0xff
)

// InitCodeFor wraps runtime code into init code that returns it.
func InitCodeFor(runtime []byte) []byte {
	a := &Asm{}
	// CODECOPY(destOffset=0, offset=<len(prefix)>, size=len(runtime)); RETURN(0, len)
	prefixLen := 0
	for {
		p := (&Asm{}).PushU(uint64(len(runtime))).PushU(uint64(prefixLen)).PushU(0).Op(CODECOPY).PushU(uint64(len(runtime))).PushU(0).Op(RETURN)
		if len(p.b) == prefixLen {
			a = p
			break
		}
		prefixLen = len(p.b)
	}
	return append(a.b, runtime...)
}

// GenRuntime draws a small runtime program from a family of effectful templates. universe
// lists addresses (hex) the program may name.
func GenRuntime(t *rapid.T, universe []string, label string) ([]byte, string) {
	a := &Asm{}
	var desc []string
	n := rapid.IntRange(1, 4).Draw(t, label+"_nFrag")
	for i := 0; i < n; i++ {
		switch rapid.SampledFrom([]string{"sstore", "sstore", "log", "env", "callvalue", "balance", "create", "selfdestruct", "revert", "invalid", "sload_add", "mem_read_fresh", "mem_fill", "log_fresh_mem"}).Draw(t, label+"_frag") {
		case "mem_read_fresh":
			// memory the frame never wrote reads as zero, whatever earlier frames of the process left behind
			off := rapid.SampledFrom([]uint64{0, 32, 64, 96, 1000, 4000}).Draw(t, label+"_moff")
			if rapid.Bool().Draw(t, label+"_hash") {
				a.PushU(64).PushU(off).Op(KECCAK256).PushU(9).Op(SSTORE)
				desc = append(desc, fmt.Sprintf("SSTORE(9,KECCAK(mem[%d:+64]))", off))
			} else {
				a.PushU(off).Op(MLOAD).PushU(9).Op(SSTORE)
				desc = append(desc, fmt.Sprintf("SSTORE(9,MLOAD(%d))", off))
			}
		case "mem_fill":
			off := rapid.SampledFrom([]uint64{0, 32, 64, 96, 1000, 4000}).Draw(t, label+"_foff")
			a.Push(new(big.Int).Sub(new(big.Int).Lsh(big.NewInt(1), 256), big.NewInt(1))).PushU(off).Op(MSTORE)
			desc = append(desc, fmt.Sprintf("MSTORE(%d,ff..ff)", off))
		case "log_fresh_mem":
			off := rapid.SampledFrom([]uint64{0, 64, 1000}).Draw(t, label+"_loff")
			a.PushU(uint64(rapid.IntRange(0, 255).Draw(t, label+"_ltopic"))).PushU(64).PushU(off).Op(LOG1)
			desc = append(desc, fmt.Sprintf("LOG1(mem[%d:+64])", off))
		case "sstore":
			k, v := rapid.IntRange(0, 3).Draw(t, label+"_k"), rapid.IntRange(0, 3).Draw(t, label+"_v")
			a.PushU(uint64(v)).PushU(uint64(k)).Op(SSTORE)
			desc = append(desc, fmt.Sprintf("SSTORE(%d,%d)", k, v))
		case "sload_add":
			k := rapid.IntRange(0, 3).Draw(t, label+"_k")
			a.PushU(uint64(k)).Op(SLOAD).PushU(1).Op(ADD).PushU(uint64(k)).Op(SSTORE)
			desc = append(desc, fmt.Sprintf("SSTORE(%d,SLOAD+1)", k))
		case "log":
			a.PushU(uint64(rapid.IntRange(0, 255).Draw(t, label+"_topic"))).PushU(0).PushU(0).Op(LOG1)
			desc = append(desc, "LOG1")
		case "env":
			op := rapid.SampledFrom([]byte{TIMESTAMP, NUMBER, COINBASE, DIFFICULTY, GASLIMIT, CHAINID, GASPRICE, ORIGIN, CALLER, GAS, SELFBALANCE, BASEFEE, BLOBBASEFEE, BLOBHASH}).Draw(t, label+"_envop")
			slot := rapid.IntRange(4, 7).Draw(t, label+"_slot")
			if op == BLOBHASH {
				a.PushU(0)
			}
			a.Op(op).PushU(uint64(slot)).Op(SSTORE)
			desc = append(desc, fmt.Sprintf("SSTORE(%d,env %#x)", slot, op))
		case "balance":
			who := rapid.SampledFrom(universe).Draw(t, label+"_who")
			a.PushAddr(who).Op(BALANCE).PushU(8).Op(SSTORE)
			desc = append(desc, "SSTORE(8,BALANCE("+who[:8]+"))")
		case "callvalue":
			to := rapid.SampledFrom(universe).Draw(t, label+"_to")
			v := rapid.SampledFrom([]uint64{0, 1, 1000, 1000000000000000000}).Draw(t, label+"_val")
			// CALL(gas, to, value, 0,0,0,0); one in four calls goes to the contract itself (bounded gas: the callee
			// is this very program)
			if rapid.IntRange(0, 3).Draw(t, label+"_selfcall") == 0 {
				a.PushU(0).PushU(0).PushU(0).PushU(0).PushU(v).Op(ADDRESS).PushU(200000).Op(CALL).Op(POP)
				desc = append(desc, fmt.Sprintf("CALL(self,%d)", v))
				break
			}
			a.PushU(0).PushU(0).PushU(0).PushU(0).PushU(v).PushAddr(to).Op(GAS).Op(CALL).Op(POP)
			desc = append(desc, fmt.Sprintf("CALL(%s,%d)", to[:8], v))
		case "create":
			child := (&Asm{}).PushU(uint64(rapid.IntRange(0, 3).Draw(t, label+"_cv"))).PushU(0).Op(SSTORE).Op(STOP).Bytes()
			// store child init code in memory word 0 (right-aligned), CREATE(value, offset, size)
			a.PushB(child).PushU(0).Op(MSTORE).PushU(uint64(len(child))).PushU(uint64(32 - len(child))).PushU(uint64(rapid.SampledFrom([]uint64{0, 1}).Draw(t, label+"_cval"))).Op(CREATE).Op(POP)
			desc = append(desc, "CREATE")
		case "selfdestruct":
			to := rapid.SampledFrom(universe).Draw(t, label+"_ben")
			if rapid.IntRange(0, 3).Draw(t, label+"_self") == 0 {
				a.Op(ADDRESS).Op(SELFDESTRUCT)
				desc = append(desc, "SELFDESTRUCT(self)")
			} else {
				a.PushAddr(to).Op(SELFDESTRUCT)
				desc = append(desc, "SELFDESTRUCT("+to[:8]+")")
			}
		case "revert":
			a.PushU(0).PushU(0).Op(REVERT)
			desc = append(desc, "REVERT")
		case "invalid":
			a.Op(INVALID)
			desc = append(desc, "INVALID")
		}
	}
	a.Op(STOP)
	return a.Bytes(), strings.Join(desc, ";")
}

// ---------- transactions ----------

type Tx struct {
	Tx   *types.Transaction
	Kind string
	Desc string
}

var amountStrings = []string{"0", "1", "0.000000000000000001", "0.5", "1.0000000000000000019", "7", "100", "-1", "1000000000000000000000000000000000000000000000000000000000000", "", "abc", "1e3", "0x10"}

// ExtraTargets: further transfer targets (deployed contracts), set by the caller for the current case.
var ExtraTargets []string

// GenTransfer draws an asset transfer with 1..6 targets, including self targets and the same
// address in different letter case.
func GenTransfer(t *rapid.T, srcIdx int, nonce uint64, salt string, known bool) Tx {
	k := txgen.K(srcIdx)
	n := rapid.IntRange(1, 6).Draw(t, "nTargets")
	var targets [][2]string
	seenAddr := map[string]bool{}
	selfOrDup := false
	for i := 0; i < n; i++ {
		var addr string
		switch rapid.IntRange(0, 7).Draw(t, "targetKind") {
		case 0:
			addr = k.Addr // self
		case 1:
			addr = strings.ToUpper(Addr(rapid.IntRange(0, NKeys-1).Draw(t, "upperIdx")))
			addr = "0x" + addr[2:]
		case 2:
			addr = fmt.Sprintf("0x%040x", 0xbeef00+rapid.IntRange(0, 3).Draw(t, "freshIdx"))
		case 3:
			// a deployed contract (paid without running its code; it may have self-destructed earlier in the block)
			if len(ExtraTargets) > 0 {
				addr = rapid.SampledFrom(ExtraTargets).Draw(t, "contractTarget")
			} else {
				addr = Addr(rapid.IntRange(0, NKeys-1).Draw(t, "targetIdx"))
			}
		default:
			addr = Addr(rapid.IntRange(0, NKeys-1).Draw(t, "targetIdx"))
		}
		canon := strings.ToLower(addr)
		if canon == strings.ToLower(k.Addr) || seenAddr[canon] {
			selfOrDup = true
		}
		dupKey := false
		for _, x := range targets {
			if x[0] == addr {
				dupKey = true
			}
		}
		if dupKey {
			continue
		}
		seenAddr[canon] = true
		targets = append(targets, [2]string{addr, rapid.SampledFrom(amountStrings).Draw(t, "amount")})
	}
	desc := fmt.Sprintf("transfer(K%d->%d targets%s)", srcIdx, len(targets), map[bool]string{true: ",self/dup", false: ""}[selfOrDup])
	if known && selfOrDup && len(targets) > 1 {
		// caller steers around a recorded finding: keep only targets that are neither the source nor a
		// case-variant duplicate
		var clean [][2]string
		seen := map[string]bool{}
		for _, x := range targets {
			c := strings.ToLower(x[0])
			if c == strings.ToLower(k.Addr) || seen[c] {
				continue
			}
			seen[c] = true
			clean = append(clean, x)
		}
		if len(clean) == 0 {
			clean = [][2]string{{fmt.Sprintf("0x%040x", 0xbeef00), "1"}}
		}
		targets = clean
		desc += "[steered]"
	}
	return Tx{Tx: txgen.Transfer(k.Addr, k, targets, nonce, salt), Kind: "transfer", Desc: desc}
}

// GenMiner draws a miner-management transaction over a small id universe.
func GenMiner(t *rapid.T, srcIdx int, nonce uint64, salt string) Tx {
	k := txgen.K(srcIdx)
	ids := []string{"", common.ToHex(txgen.K(0).ID), common.ToHex(txgen.K(1).ID), common.ToHex(common.Sha256([]byte("idA")))}
	id := rapid.SampledFrom(ids).Draw(t, "minerId")
	// half of the transactions stay within "the source's own miner" (id derived from its key, account =
	// source): only those histories reach authorised refunds and account changes
	own := rapid.Bool().Draw(t, "ownMiner")
	if own {
		id = ""
	}
	switch rapid.SampledFrom([]string{"apply", "apply", "add", "refund", "change"}).Draw(t, "minerKind") {
	case "apply":
		typ := rapid.SampledFrom([]byte{0, 1}).Draw(t, "minerType")
		stake := rapid.SampledFrom([]uint64{399, 400, 800, 2000}).Draw(t, "minerStake")
		md := txgen.MinerData{Id: id, Type: typ, Stake: stake, PublicKey: "0x0102", VrfPublicKey: []byte{3, 4}}
		if !own && rapid.Bool().Draw(t, "otherAccount") {
			md.Account = Addr(rapid.IntRange(0, NKeys-1).Draw(t, "minerAccount"))
		}
		return Tx{Tx: txgen.MinerApply(k, md, nonce, salt), Kind: "miner_apply", Desc: fmt.Sprintf("apply(K%d,type%d,stake%d)", srcIdx, typ, stake)}
	case "add":
		return Tx{Tx: txgen.MinerAdd(k, id, rapid.SampledFrom([]uint64{0, 1, 100}).Draw(t, "addStake"), nonce, salt), Kind: "miner_add", Desc: fmt.Sprintf("add(K%d)", srcIdx)}
	case "refund":
		if id == "" {
			id = common.ToHex(k.ID)
		}
		return Tx{Tx: txgen.MinerRefund(k, id, rapid.SampledFrom([]string{"1", "100", "400", "401", "1600", "18446744073709551615", "x"}).Draw(t, "refundAmt"), nonce, salt), Kind: "miner_refund", Desc: fmt.Sprintf("refund(K%d)", srcIdx)}
	default:
		if id == "" {
			id = common.ToHex(k.ID)
		}
		return Tx{Tx: txgen.MinerChangeAccount(k, id, Addr(rapid.IntRange(0, NKeys-1).Draw(t, "newAccount")), nonce, salt), Kind: "miner_change", Desc: fmt.Sprintf("change(K%d)", srcIdx)}
	}
}

// OwnApply makes source K(srcIdx) apply for its own miner (id derived from its key, account = source).
func OwnApply(t *rapid.T, srcIdx int, nonce uint64, salt string) Tx {
	k := txgen.K(srcIdx)
	typ := rapid.SampledFrom([]byte{0, 1}).Draw(t, "ownType")
	stake := rapid.SampledFrom([]uint64{400, 401, 800, 2000}).Draw(t, "ownStake")
	md := txgen.MinerData{Type: typ, Stake: stake, PublicKey: "0x0102", VrfPublicKey: []byte{3, 4}}
	return Tx{Tx: txgen.MinerApply(k, md, nonce, salt), Kind: "miner_apply", Desc: fmt.Sprintf("apply(K%d,type%d,stake%d)", srcIdx, typ, stake)}
}

var gasLimits = []string{"", "0", "21000", "630000", "1000000", "30000000", "900000000", "99999999999"}
var values = []string{"", "0", "0.000000000000000001", "1", "0.5", "1000000", "-1", "abc"}

// GenContract draws a native contract create or call. contracts lists deployed contract addresses.
func GenContract(t *rapid.T, srcIdx int, nonce uint64, salt string, contracts []string, universe []string, excludeTargets map[string]bool) Tx {
	k := txgen.K(srcIdx)
	gas := rapid.SampledFrom(gasLimits).Draw(t, "gasLimit")
	val := rapid.SampledFrom(values).Draw(t, "value")
	if len(contracts) == 0 || rapid.IntRange(0, 3).Draw(t, "createOrCall") == 0 {
		rt, d := GenRuntime(t, universe, "rt")
		var code []byte
		if rapid.IntRange(0, 4).Draw(t, "rawInit") == 0 {
			code = rt // init code with direct effects
		} else {
			code = InitCodeFor(rt)
		}
		return Tx{Tx: txgen.Contract(k, k.Addr, "", "0x"+hex.EncodeToString(code), val, gas, "1000000000", nonce, salt), Kind: "contract_create", Desc: "create{" + d + "}"}
	}
	var pool []string
	for _, c := range append(append([]string{}, contracts...), universe...) {
		if !excludeTargets[strings.ToLower(c)] {
			pool = append(pool, c)
		}
	}
	target := rapid.SampledFrom(pool).Draw(t, "callTarget")
	input := rapid.SampledFrom([]string{"", "0x", "0x0", "0xd0e30db0", "0x2e1a7d4d0000000000000000000000000000000000000000000000000000000000000001", "0xa9059cbb" + strings.Repeat("0", 24) + Addr(1)[2:] + strings.Repeat("0", 63) + "5"}).Draw(t, "input")
	return Tx{Tx: txgen.Contract(k, k.Addr, target, input, val, gas, "1000000000", nonce, salt), Kind: "contract_call", Desc: fmt.Sprintf("call(K%d->%s,val=%s,gas=%s)", srcIdx, target[:10], val, gas)}
}

// GenEthTx draws a wrapped Ethereum transaction signed under EIP-155, converted exactly as the
// node's RPC layer does (eth_tx.ConvertTx).
func GenEthTx(t *rapid.T, srcIdx int, stateNonce uint64, contracts []string, universe []string, excludeTargets map[string]bool) Tx {
	k := txgen.K(srcIdx)
	chainID, _ := new(big.Int).SetString(common.ChainId(1), 10)
	signer := eth_tx.NewEIP155Signer(chainID)
	nonce := stateNonce
	switch rapid.IntRange(0, 5).Draw(t, "ethNonceSkew") {
	case 0:
		nonce++
	case 1:
		if nonce > 0 {
			nonce--
		}
	}
	gas := rapid.SampledFrom([]uint64{21000, 630000, 3000000, 30000000}).Draw(t, "ethGas")
	value := rapid.SampledFrom([]*big.Int{big.NewInt(0), big.NewInt(1), big.NewInt(1000000000000000000), new(big.Int).Lsh(big.NewInt(1), 200)}).Draw(t, "ethValue")
	var raw *eth_tx.Transaction
	var pool []string
	for _, c := range append(append([]string{}, contracts...), universe...) {
		if !excludeTargets[strings.ToLower(c)] {
			pool = append(pool, c)
		}
	}
	desc := ""
	if rapid.IntRange(0, 3).Draw(t, "ethCreate") == 0 || len(pool) == 0 {
		rt, d := GenRuntime(t, universe, "ethrt")
		raw = eth_tx.NewContractCreation(nonce, value, gas, big.NewInt(1000000000), InitCodeFor(rt))
		desc = "ethcreate{" + d + "}"
	} else {
		to := rapid.SampledFrom(pool).Draw(t, "ethTo")
		raw = eth_tx.NewTransaction(nonce, common.HexToAddress(to), value, gas, big.NewInt(1000000000), nil)
		desc = fmt.Sprintf("ethcall(K%d->%s,val=%s,nonce%+d)", srcIdx, to[:10], value, int64(nonce)-int64(stateNonce))
	}
	priv := &ecdsa.PrivateKey{PublicKey: k.SK.PrivKey.PublicKey, D: k.SK.PrivKey.D}
	signed, err := eth_tx.SignTx(raw, signer, priv)
	if err != nil {
		panic(err)
	}
	enc, err := rlp.EncodeToBytes(signed)
	if err != nil {
		panic(err)
	}
	sender, err := eth_tx.Sender(signer, signed)
	if err != nil {
		panic(err)
	}
	wrapped := eth_tx.ConvertTx(signed, sender, enc)
	s := k.SK.Sign(wrapped.Hash.Bytes())
	wrapped.Sign = &s
	return Tx{Tx: wrapped, Kind: "eth", Desc: desc}
}

// EthTransfer builds a wrapped EIP-155 value transfer from key K(srcIdx) (no generated choices).
func EthTransfer(srcIdx int, nonce uint64, to string, value *big.Int, gas uint64) *types.Transaction {
	k := txgen.K(srcIdx)
	chainID, _ := new(big.Int).SetString(common.ChainId(1), 10)
	signer := eth_tx.NewEIP155Signer(chainID)
	raw := eth_tx.NewTransaction(nonce, common.HexToAddress(to), value, gas, big.NewInt(1000000000), nil)
	priv := &ecdsa.PrivateKey{PublicKey: k.SK.PrivKey.PublicKey, D: k.SK.PrivKey.D}
	signed, err := eth_tx.SignTx(raw, signer, priv)
	if err != nil {
		panic(err)
	}
	enc, err := rlp.EncodeToBytes(signed)
	if err != nil {
		panic(err)
	}
	sender, err := eth_tx.Sender(signer, signed)
	if err != nil {
		panic(err)
	}
	wrapped := eth_tx.ConvertTx(signed, sender, enc)
	s := k.SK.Sign(wrapped.Hash.Bytes())
	wrapped.Sign = &s
	return wrapped
}
