package ref

// Tiny protobuf wire-format writer (independent of any protobuf library): enough to assemble
// well-formed and deliberately ill-formed messages field by field.

const (
	PBVarint  = 0
	PBFixed64 = 1
	PBBytes   = 2
	PBStartG  = 3
	PBEndG    = 4
	PBFixed32 = 5
)

// PBAppendVarint appends the minimal base-128 encoding of v.
func PBAppendVarint(b []byte, v uint64) []byte {
	for v >= 0x80 {
		b = append(b, byte(v)|0x80)
		v >>= 7
	}
	return append(b, byte(v))
}

// PBAppendVarintPadded appends v as exactly n bytes (n >= minimal length) using continuation
// bytes with zero payload: a non-minimal but (for n<=10) legal varint.
func PBAppendVarintPadded(b []byte, v uint64, n int) []byte {
	for i := 0; i < n-1; i++ {
		b = append(b, byte(v)|0x80)
		v >>= 7
	}
	return append(b, byte(v)&0x7f)
}

func PBAppendTag(b []byte, field int, wt int) []byte {
	return PBAppendVarint(b, uint64(field)<<3|uint64(wt&7))
}

func PBAppendVarintField(b []byte, field int, v uint64) []byte {
	return PBAppendVarint(PBAppendTag(b, field, PBVarint), v)
}

func PBAppendBytesField(b []byte, field int, payload []byte) []byte {
	b = PBAppendVarint(PBAppendTag(b, field, PBBytes), uint64(len(payload)))
	return append(b, payload...)
}

// PBAppendBytesFieldLen writes a length-delimited field whose declared length differs from the
// payload actually written.
func PBAppendBytesFieldLen(b []byte, field int, declared uint64, payload []byte) []byte {
	b = PBAppendVarint(PBAppendTag(b, field, PBBytes), declared)
	return append(b, payload...)
}

func PBAppendFixed64Field(b []byte, field int, v uint64) []byte {
	b = PBAppendTag(b, field, PBFixed64)
	for i := 0; i < 8; i++ {
		b = append(b, byte(v>>(8*uint(i))))
	}
	return b
}

func PBAppendFixed32Field(b []byte, field int, v uint32) []byte {
	b = PBAppendTag(b, field, PBFixed32)
	for i := 0; i < 4; i++ {
		b = append(b, byte(v>>(8*uint(i))))
	}
	return b
}
