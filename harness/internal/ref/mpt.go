package ref

// Merkle-Patricia trie root, written from the Yellow Paper, appendix C (hex-prefix encoding)
// and appendix D (trie). Nothing of the node's trie/rlp code is used: RLP is ref.RLPEncode,
// Keccak-256 is golang.org/x/crypto/sha3 (legacy padding).
//
// The function is the recursive *definition* (it never inserts or deletes): the root of a
// key/value set is computed from the whole sorted set each time.

import (
	"sort"

	"golang.org/x/crypto/sha3"
)

func MPTKeccak256(b []byte) [32]byte {
	h := sha3.NewLegacyKeccak256()
	h.Write(b)
	var out [32]byte
	h.Sum(out[:0])
	return out
}

// HexPrefix is HP(x, t) of appendix C: nibbles -> bytes, flag nibble 2*t + parity.
func HexPrefix(nibbles []byte, leaf bool) []byte {
	f := byte(0)
	if leaf {
		f = 2
	}
	var out []byte
	if len(nibbles)%2 == 1 {
		out = append(out, (f+1)<<4|nibbles[0])
		nibbles = nibbles[1:]
	} else {
		out = append(out, f<<4)
	}
	for i := 0; i < len(nibbles); i += 2 {
		out = append(out, nibbles[i]<<4|nibbles[i+1])
	}
	return out
}

func toNibbles(k string) []byte {
	out := make([]byte, 0, 2*len(k))
	for i := 0; i < len(k); i++ {
		out = append(out, k[i]>>4, k[i]&15)
	}
	return out
}

// MPTShape describes the structure of the canonical trie of a set (what the definition
// produces, not what any implementation holds in memory).
type MPTShape struct {
	Leaves, Extensions, Branches int
	BranchValues                 int // branches whose 17th slot is occupied (a key ends there)
	Embedded                     int // non-root nodes whose RLP is < 32 bytes (inlined into the parent)
	Hashed                       int // non-root nodes referenced by hash
	Exact32                      int // non-root nodes whose RLP is exactly 32 bytes (the boundary)
	Depth                        int // longest chain of nodes
}

type mptPair struct {
	k []byte // nibbles
	v []byte
}

// MPTRoot returns TRIE(J) = KEC(RLP(c(J,0))) for J = the pairs of kv. Keys are arbitrary
// byte strings (a key may be a prefix of another, the empty key is allowed); values must be
// non-empty (an empty value means "absent" in the trie's interface and must not be in kv).
func MPTRoot(kv map[string][]byte) [32]byte {
	r, _ := MPTRootShape(kv)
	return r
}

func MPTRootShape(kv map[string][]byte) ([32]byte, MPTShape) {
	var sh MPTShape
	if len(kv) == 0 {
		return MPTKeccak256(RLPEncode(B(nil))), sh
	}
	keys := make([]string, 0, len(kv))
	for k := range kv {
		keys = append(keys, k)
	}
	sort.Strings(keys)
	J := make([]mptPair, 0, len(keys))
	for _, k := range keys {
		if len(kv[k]) == 0 {
			panic("ref.MPTRoot: empty value in content map")
		}
		J = append(J, mptPair{toNibbles(k), kv[k]})
	}
	d := 0
	root := mptC(J, 0, &sh, 1, &d)
	sh.Depth = d
	return MPTKeccak256(RLPEncode(root)), sh
}

// mptN is n(J,i): empty string, the node structure itself when its RLP is shorter than 32
// bytes, its Keccak hash otherwise.
func mptN(J []mptPair, i int, sh *MPTShape, depth int, maxDepth *int) *Item {
	if len(J) == 0 {
		return B(nil)
	}
	c := mptC(J, i, sh, depth, maxDepth)
	enc := RLPEncode(c)
	if len(enc) == 32 {
		sh.Exact32++
	}
	if len(enc) < 32 {
		sh.Embedded++
		return c
	}
	sh.Hashed++
	h := MPTKeccak256(enc)
	return B(h[:])
}

// mptC is c(J,i): the structural composition. J is sorted by key, all keys share their first
// i nibbles.
func mptC(J []mptPair, i int, sh *MPTShape, depth int, maxDepth *int) *Item {
	if depth > *maxDepth {
		*maxDepth = depth
	}
	if len(J) == 1 {
		sh.Leaves++
		return L(B(HexPrefix(J[0].k[i:], true)), B(J[0].v))
	}
	// j = length of the longest prefix common to all keys of J (J sorted => first vs last)
	a, b := J[0].k, J[len(J)-1].k
	j := 0
	for j < len(a) && j < len(b) && a[j] == b[j] {
		j++
	}
	if j > i {
		sh.Extensions++
		return L(B(HexPrefix(a[i:j], false)), mptN(J, j, sh, depth+1, maxDepth))
	}
	sh.Branches++
	items := make([]*Item, 17)
	rest := J
	var v []byte
	if len(rest[0].k) == i { // a key ends exactly here (sorted: the shortest comes first)
		v = rest[0].v
		rest = rest[1:]
		sh.BranchValues++
	}
	for x := 0; x < 16; x++ {
		n := 0
		for n < len(rest) && rest[n].k[i] == byte(x) {
			n++
		}
		items[x] = mptN(rest[:n], i+1, sh, depth+1, maxDepth)
		rest = rest[n:]
	}
	if len(rest) != 0 {
		panic("ref.MPTRoot: keys not sorted")
	}
	items[16] = B(v)
	return L(items...)
}
