package ref

// Raw walker over a hash-addressed node store holding Merkle-Patricia tries in the
// Yellow-Paper appendix D encoding (branch = list of 17, leaf/extension = list of 2 with a
// hex-prefix key, children < 32 bytes embedded, otherwise referenced by Keccak-256).
// Written from the specification; uses only ref.RLPParse and Keccak. It never consults the
// node's trie code, so it can serve as the independent reader of a disk image.

import (
	"bytes"
	"fmt"
)

// NodeGetter returns the blob stored under a 32-byte hash and whether it is present.
type NodeGetter func(hash [32]byte) ([]byte, bool)

// EmptyTrieRoot is Keccak256(RLP("")), the root of the empty trie.
var EmptyTrieRoot = MPTKeccak256([]byte{0x80})

// WalkStats counts what a walk touched.
type WalkStats struct {
	HashedNodes   int // nodes fetched from the store
	EmbeddedNodes int // nodes inlined in their parent
	Leaves        int
	Bytes         int // total size of fetched blobs
}

// MissingNodeError names the first unresolved reference of a walk.
type MissingNodeError struct {
	Hash [32]byte
	Path []byte // nibbles from the root of the trie being walked
	Why  string
}

func (e *MissingNodeError) Error() string {
	return fmt.Sprintf("node %x at nibble path %x: %s", e.Hash, e.Path, e.Why)
}

// WalkTrie visits the whole trie under root and calls leaf(key, value) for every key/value
// pair (key rebuilt from the nibble path). Every referenced node must be present in the
// store and hash to its reference. A zero root or EmptyTrieRoot is the empty trie.
func WalkTrie(get NodeGetter, root [32]byte, st *WalkStats, leaf func(key, value []byte) error) error {
	if root == ([32]byte{}) || root == EmptyTrieRoot {
		return nil
	}
	if st == nil {
		st = &WalkStats{}
	}
	return walkRef(get, root, nil, st, leaf)
}

func walkRef(get NodeGetter, h [32]byte, path []byte, st *WalkStats, leaf func(key, value []byte) error) error {
	blob, ok := get(h)
	if !ok {
		return &MissingNodeError{Hash: h, Path: append([]byte{}, path...), Why: "not in store"}
	}
	if MPTKeccak256(blob) != h {
		return &MissingNodeError{Hash: h, Path: append([]byte{}, path...), Why: "stored blob does not hash to its key"}
	}
	st.HashedNodes++
	st.Bytes += len(blob)
	it, err := RLPParse(blob)
	if err != nil {
		return &MissingNodeError{Hash: h, Path: append([]byte{}, path...), Why: "stored blob is not canonical RLP"}
	}
	return walkNode(get, it, h, path, st, leaf)
}

func walkChild(get NodeGetter, c *Item, parent [32]byte, path []byte, st *WalkStats, leaf func(key, value []byte) error) error {
	if c.IsList {
		st.EmbeddedNodes++
		return walkNode(get, c, parent, path, st, leaf)
	}
	switch len(c.Str) {
	case 0:
		return nil
	case 32:
		var h [32]byte
		copy(h[:], c.Str)
		return walkRef(get, h, path, st, leaf)
	}
	return &MissingNodeError{Hash: parent, Path: append([]byte{}, path...), Why: fmt.Sprintf("child reference of %d bytes", len(c.Str))}
}

func walkNode(get NodeGetter, it *Item, self [32]byte, path []byte, st *WalkStats, leaf func(key, value []byte) error) error {
	bad := func(why string) error {
		return &MissingNodeError{Hash: self, Path: append([]byte{}, path...), Why: why}
	}
	if !it.IsList {
		return bad("node is not a list")
	}
	switch len(it.List) {
	case 17:
		for i := 0; i < 16; i++ {
			if err := walkChild(get, it.List[i], self, append(append([]byte{}, path...), byte(i)), st, leaf); err != nil {
				return err
			}
		}
		v := it.List[16]
		if v.IsList {
			return bad("branch value slot holds a list")
		}
		if len(v.Str) > 0 {
			k, ok := nibblesToKey(path)
			if !ok {
				return bad("value at odd nibble depth")
			}
			st.Leaves++
			return leaf(k, v.Str)
		}
		return nil
	case 2:
		hp := it.List[0]
		if hp.IsList || len(hp.Str) == 0 {
			return bad("short node without hex-prefix key")
		}
		flag := hp.Str[0] >> 4
		if flag > 3 {
			return bad("hex-prefix flag > 3")
		}
		var nib []byte
		if flag&1 == 1 {
			nib = append(nib, hp.Str[0]&15)
		} else if hp.Str[0]&15 != 0 {
			return bad("hex-prefix padding nibble not zero")
		}
		for _, b := range hp.Str[1:] {
			nib = append(nib, b>>4, b&15)
		}
		full := append(append([]byte{}, path...), nib...)
		if flag&2 == 2 { // leaf
			v := it.List[1]
			if v.IsList {
				return bad("leaf value is a list")
			}
			k, ok := nibblesToKey(full)
			if !ok {
				return bad("leaf at odd nibble depth")
			}
			st.Leaves++
			return leaf(k, v.Str)
		}
		if len(nib) == 0 {
			return bad("extension with empty key")
		}
		return walkChild(get, it.List[1], self, full, st, leaf)
	}
	return bad(fmt.Sprintf("node list of %d items", len(it.List)))
}

func nibblesToKey(n []byte) ([]byte, bool) {
	if len(n)%2 != 0 {
		return nil, false
	}
	out := make([]byte, len(n)/2)
	for i := range out {
		out[i] = n[2*i]<<4 | n[2*i+1]
	}
	return out, true
}

// SortedPairs is a helper for comparing leaf sets.
type Pair struct{ K, V []byte }

func PairsEqual(a, b []Pair) bool {
	if len(a) != len(b) {
		return false
	}
	for i := range a {
		if !bytes.Equal(a[i].K, b[i].K) || !bytes.Equal(a[i].V, b[i].V) {
			return false
		}
	}
	return true
}
