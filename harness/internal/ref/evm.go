package ref

// Reference interpreter for the computational subset of the EVM, written from the Yellow Paper
// (appendix H), EIP-145 (SHL/SHR/SAR), EIP-3855 (PUSH0) and EIP-5656 (MCOPY). Words are
// *big.Int values kept in [0, 2^256) with every reduction written out explicitly; nothing here
// shares code with the node's VM or with holiman/uint256, and Keccak-256 is implemented below
// from the Keccak-f[1600] specification.
//
// Gas is not modelled. Memory expansion is classified instead: a frame whose memory would grow
// beyond MemHard bytes must fail for lack of gas under any realistic gas limit; one that stays
// within MemSoft always has enough (the caller supplies ample gas); in between the outcome depends
// on gas and the run is reported as Indeterminate.

import (
	"math/big"
)

// Outcome kinds.
const (
	EVMStop          = "stop"      // STOP or running off the end of the code: success, empty output
	EVMReturn        = "return"    // RETURN: success with output
	EVMRevert        = "revert"    // REVERT: failure with output
	EVMBadJump       = "badjump"   // JUMP/JUMPI to something that is not a JUMPDEST instruction
	EVMUnderflow     = "underflow" // fewer stack items than the instruction removes
	EVMOverflow      = "overflow"  // more than 1024 stack items
	EVMInvalid       = "invalid"   // undefined / INVALID instruction
	EVMOutOfGas      = "oog"       // memory expansion beyond any payable size
	EVMIndeterminate = "indeterminate"
	EVMStepLimit     = "steplimit"
	EVMUnsupported   = "unsupported" // defined instruction outside the modelled subset
)

type EVMConfig struct {
	CallData  []byte
	MemSoft   uint64 // memory sizes <= MemSoft bytes are always affordable
	MemHard   uint64 // memory sizes  > MemHard bytes are never affordable
	StepLimit int
	NoPush0   bool // PUSH0 undefined (pre EIP-3855)
	NoMcopy   bool // MCOPY undefined (pre EIP-5656)
	NoShifts  bool // SHL/SHR/SAR undefined (pre EIP-145)
	ProbePC   int  // if >= 0: record the stack depth the first time pc == ProbePC
}

type EVMResult struct {
	Kind       string
	Output     []byte
	Steps      int
	TakenJumps int
	ProbeDepth int      // stack depth when ProbePC was first reached, -1 if never
	Ops        []byte   // executed opcodes in order (capped)
	FinalStack []string // hex, bottom first (diagnostics)
	MemSize    uint64
	FailPC     int
	FailOp     byte
}

var (
	two256   = new(big.Int).Lsh(big.NewInt(1), 256)
	two255   = new(big.Int).Lsh(big.NewInt(1), 255)
	wordMask = new(big.Int).Sub(two256, big.NewInt(1))
	bigOne   = big.NewInt(1)
)

// wrap reduces any integer into [0, 2^256).
func wrap(x *big.Int) *big.Int { return x.Mod(x, two256) } // Mod is Euclidean: result >= 0

// signed interprets a word as a two's-complement number.
func signed(x *big.Int) *big.Int {
	if x.Cmp(two255) >= 0 {
		return new(big.Int).Sub(x, two256)
	}
	return new(big.Int).Set(x)
}

func boolWord(b bool) *big.Int {
	if b {
		return big.NewInt(1)
	}
	return new(big.Int)
}

// EVMJumpDests is the set D(c) of the Yellow Paper: positions holding a JUMPDEST instruction,
// where positions covered by PUSH data are not instructions.
func EVMJumpDests(code []byte) map[int]bool {
	d := map[int]bool{}
	for i := 0; i < len(code); {
		op := code[i]
		switch {
		case op == 0x5b:
			d[i] = true
			i++
		case op >= 0x60 && op <= 0x7f:
			i += int(op-0x60) + 2
		default:
			i++
		}
	}
	return d
}

type evmMem struct {
	b    []byte
	cfg  *EVMConfig
	fail string
}

// touch performs the memory expansion for an access of length n at offset off (words).
// Returns false if the frame cannot continue (oog / indeterminate recorded in m.fail).
func (m *evmMem) touch(off, n *big.Int) bool {
	if n.Sign() == 0 {
		return true // zero-length accesses never expand memory, whatever the offset
	}
	end := new(big.Int).Add(off, n)
	if !end.IsUint64() || end.Uint64() > m.cfg.MemHard {
		m.fail = EVMOutOfGas
		return false
	}
	e := end.Uint64()
	if e > m.cfg.MemSoft {
		m.fail = EVMIndeterminate
		return false
	}
	need := (e + 31) / 32 * 32
	for uint64(len(m.b)) < need {
		m.b = append(m.b, 0)
	}
	return true
}

// paddedSlice returns src[off:off+n] with zeros where src has no byte (n is small: already
// bounded by a successful touch).
func paddedSlice(src []byte, off *big.Int, n uint64) []byte {
	out := make([]byte, n)
	if !off.IsUint64() {
		return out
	}
	o := off.Uint64()
	for i := uint64(0); i < n; i++ {
		p := o + i
		if p < o { // wrapped
			break
		}
		if p < uint64(len(src)) {
			out[i] = src[p]
		}
	}
	return out
}

func wordBytes(x *big.Int) []byte {
	out := make([]byte, 32)
	b := x.Bytes()
	copy(out[32-len(b):], b)
	return out
}

// RunEVM executes code in a fresh frame.
func RunEVM(code []byte, cfg EVMConfig) (res EVMResult) {
	if cfg.StepLimit == 0 {
		cfg.StepLimit = 100000
	}
	res.ProbeDepth = -1
	dests := EVMJumpDests(code)
	mem := &evmMem{cfg: &cfg}
	var st []*big.Int
	pc := 0

	finish := func(kind string, out []byte) EVMResult {
		res.Kind = kind
		res.Output = out
		res.MemSize = uint64(len(mem.b))
		for _, w := range st {
			res.FinalStack = append(res.FinalStack, w.Text(16))
		}
		return res
	}
	pop := func() *big.Int {
		v := st[len(st)-1]
		st = st[:len(st)-1]
		return v
	}
	push := func(v *big.Int) { st = append(st, v) }

	for {
		if cfg.ProbePC >= 0 && pc == cfg.ProbePC && res.ProbeDepth < 0 {
			res.ProbeDepth = len(st)
		}
		if pc >= len(code) {
			return finish(EVMStop, nil) // bytes beyond the code are STOP
		}
		if res.Steps >= cfg.StepLimit {
			return finish(EVMStepLimit, nil)
		}
		res.Steps++
		op := code[pc]
		if len(res.Ops) < 4096 {
			res.Ops = append(res.Ops, op)
		}
		res.FailPC, res.FailOp = pc, op

		// delta (removed) / alpha (added) of the instruction
		var delta, alpha int
		switch {
		case op == 0x00: // STOP
		case op >= 0x01 && op <= 0x07, op == 0x0a, op == 0x0b: // ADD..SMOD, EXP, SIGNEXTEND
			delta, alpha = 2, 1
		case op == 0x08 || op == 0x09: // ADDMOD MULMOD
			delta, alpha = 3, 1
		case op >= 0x10 && op <= 0x14, op >= 0x16 && op <= 0x18, op == 0x1a: // LT GT SLT SGT EQ AND OR XOR BYTE
			delta, alpha = 2, 1
		case op == 0x15 || op == 0x19: // ISZERO NOT
			delta, alpha = 1, 1
		case op >= 0x1b && op <= 0x1d:
			if cfg.NoShifts {
				return finish(EVMInvalid, nil)
			}
			delta, alpha = 2, 1
		case op == 0x20: // KECCAK256
			delta, alpha = 2, 1
		case op == 0x35: // CALLDATALOAD
			delta, alpha = 1, 1
		case op == 0x36, op == 0x38, op == 0x3d, op == 0x58, op == 0x59: // CALLDATASIZE CODESIZE RETURNDATASIZE PC MSIZE
			delta, alpha = 0, 1
		case op == 0x37 || op == 0x39: // CALLDATACOPY CODECOPY
			delta, alpha = 3, 0
		case op == 0x50: // POP
			delta, alpha = 1, 0
		case op == 0x51: // MLOAD
			delta, alpha = 1, 1
		case op == 0x52 || op == 0x53: // MSTORE MSTORE8
			delta, alpha = 2, 0
		case op == 0x56: // JUMP
			delta, alpha = 1, 0
		case op == 0x57: // JUMPI
			delta, alpha = 2, 0
		case op == 0x5b: // JUMPDEST
		case op == 0x5e: // MCOPY
			if cfg.NoMcopy {
				return finish(EVMInvalid, nil)
			}
			delta, alpha = 3, 0
		case op == 0x5f: // PUSH0
			if cfg.NoPush0 {
				return finish(EVMInvalid, nil)
			}
			delta, alpha = 0, 1
		case op >= 0x60 && op <= 0x7f: // PUSH1..32
			delta, alpha = 0, 1
		case op >= 0x80 && op <= 0x8f: // DUPn
			delta, alpha = int(op-0x80)+1, int(op-0x80)+2
		case op >= 0x90 && op <= 0x9f: // SWAPn
			delta, alpha = int(op-0x90)+2, int(op-0x90)+2
		case op == 0xf3 || op == 0xfd: // RETURN REVERT
			delta, alpha = 2, 0
		case op == 0xfe: // INVALID
			return finish(EVMInvalid, nil)
		default:
			return finish(EVMUnsupported, nil)
		}
		if len(st) < delta {
			return finish(EVMUnderflow, nil)
		}
		if len(st)-delta+alpha > 1024 {
			return finish(EVMOverflow, nil)
		}

		next := pc + 1
		switch {
		case op == 0x00:
			return finish(EVMStop, nil)
		case op == 0x01: // ADD
			a, b := pop(), pop()
			push(wrap(new(big.Int).Add(a, b)))
		case op == 0x02: // MUL
			a, b := pop(), pop()
			push(wrap(new(big.Int).Mul(a, b)))
		case op == 0x03: // SUB
			a, b := pop(), pop()
			push(wrap(new(big.Int).Sub(a, b)))
		case op == 0x04: // DIV
			a, b := pop(), pop()
			if b.Sign() == 0 {
				push(new(big.Int))
			} else {
				push(new(big.Int).Quo(a, b))
			}
		case op == 0x05: // SDIV: truncated signed division, 0 for divisor 0, -2^255 / -1 = -2^255
			a, b := signed(pop()), signed(pop())
			if b.Sign() == 0 {
				push(new(big.Int))
			} else {
				push(wrap(new(big.Int).Quo(a, b))) // Quo truncates toward zero; 2^255 wraps to -2^255
			}
		case op == 0x06: // MOD
			a, b := pop(), pop()
			if b.Sign() == 0 {
				push(new(big.Int))
			} else {
				push(new(big.Int).Rem(a, b))
			}
		case op == 0x07: // SMOD: sgn(a) * (|a| mod |b|)
			a, b := signed(pop()), signed(pop())
			if b.Sign() == 0 {
				push(new(big.Int))
			} else {
				r := new(big.Int).Rem(new(big.Int).Abs(a), new(big.Int).Abs(b))
				if a.Sign() < 0 {
					r.Neg(r)
				}
				push(wrap(r))
			}
		case op == 0x08: // ADDMOD: intermediate not reduced modulo 2^256
			a, b, n := pop(), pop(), pop()
			if n.Sign() == 0 {
				push(new(big.Int))
			} else {
				s := new(big.Int).Add(a, b)
				push(s.Rem(s, n))
			}
		case op == 0x09: // MULMOD
			a, b, n := pop(), pop(), pop()
			if n.Sign() == 0 {
				push(new(big.Int))
			} else {
				s := new(big.Int).Mul(a, b)
				push(s.Rem(s, n))
			}
		case op == 0x0a: // EXP
			a, b := pop(), pop()
			push(new(big.Int).Exp(a, b, two256))
		case op == 0x0b: // SIGNEXTEND(b, x): extend the sign bit of the (b+1)-byte value x
			b, x := pop(), pop()
			if b.IsUint64() && b.Uint64() < 31 {
				bit := uint(8*b.Uint64() + 7) // position of the sign bit counted from the LSB
				low := new(big.Int).Lsh(bigOne, bit+1)
				low.Sub(low, bigOne) // mask of the kept low bits
				v := new(big.Int).And(x, low)
				if x.Bit(int(bit)) == 1 {
					high := new(big.Int).Xor(wordMask, low)
					v.Or(v, high)
				}
				push(v)
			} else {
				push(new(big.Int).Set(x))
			}
		case op == 0x10:
			a, b := pop(), pop()
			push(boolWord(a.Cmp(b) < 0))
		case op == 0x11:
			a, b := pop(), pop()
			push(boolWord(a.Cmp(b) > 0))
		case op == 0x12:
			a, b := signed(pop()), signed(pop())
			push(boolWord(a.Cmp(b) < 0))
		case op == 0x13:
			a, b := signed(pop()), signed(pop())
			push(boolWord(a.Cmp(b) > 0))
		case op == 0x14:
			a, b := pop(), pop()
			push(boolWord(a.Cmp(b) == 0))
		case op == 0x15:
			a := pop()
			push(boolWord(a.Sign() == 0))
		case op == 0x16:
			a, b := pop(), pop()
			push(new(big.Int).And(a, b))
		case op == 0x17:
			a, b := pop(), pop()
			push(new(big.Int).Or(a, b))
		case op == 0x18:
			a, b := pop(), pop()
			push(new(big.Int).Xor(a, b))
		case op == 0x19: // NOT: 2^256 - 1 - a
			a := pop()
			push(new(big.Int).Sub(wordMask, a))
		case op == 0x1a: // BYTE(i, x): i-th byte counted from the most significant
			i, x := pop(), pop()
			if i.IsUint64() && i.Uint64() < 32 {
				sh := uint(8 * (31 - i.Uint64()))
				v := new(big.Int).Rsh(x, sh)
				push(v.And(v, big.NewInt(0xff)))
			} else {
				push(new(big.Int))
			}
		case op == 0x1b: // SHL(shift, value)
			s, v := pop(), pop()
			if s.IsUint64() && s.Uint64() < 256 {
				push(wrap(new(big.Int).Lsh(v, uint(s.Uint64()))))
			} else {
				push(new(big.Int))
			}
		case op == 0x1c: // SHR
			s, v := pop(), pop()
			if s.IsUint64() && s.Uint64() < 256 {
				push(new(big.Int).Rsh(v, uint(s.Uint64())))
			} else {
				push(new(big.Int))
			}
		case op == 0x1d: // SAR: floor(signed(value) / 2^shift); shift >= 256 gives 0 or -1
			s, v := pop(), signed(pop())
			if s.IsUint64() && s.Uint64() < 256 {
				// floor division by a power of two, written with Div (Euclidean; divisor > 0 => floor)
				d := new(big.Int).Lsh(bigOne, uint(s.Uint64()))
				push(wrap(new(big.Int).Div(v, d)))
			} else if v.Sign() < 0 {
				push(new(big.Int).Set(wordMask))
			} else {
				push(new(big.Int))
			}
		case op == 0x20: // KECCAK256(offset, size)
			off, n := pop(), pop()
			if !mem.touch(off, n) {
				return finish(mem.fail, nil)
			}
			var data []byte
			if n.Sign() != 0 {
				data = mem.b[off.Uint64() : off.Uint64()+n.Uint64()]
			}
			h := Keccak256(data)
			push(new(big.Int).SetBytes(h[:]))
		case op == 0x35: // CALLDATALOAD
			i := pop()
			push(new(big.Int).SetBytes(paddedSlice(cfg.CallData, i, 32)))
		case op == 0x36:
			push(big.NewInt(int64(len(cfg.CallData))))
		case op == 0x38:
			push(big.NewInt(int64(len(code))))
		case op == 0x3d:
			push(new(big.Int)) // no call was made in this frame: return data buffer is empty
		case op == 0x37 || op == 0x39: // CALLDATACOPY / CODECOPY (memOff, srcOff, len)
			mo, so, n := pop(), pop(), pop()
			if !mem.touch(mo, n) {
				return finish(mem.fail, nil)
			}
			if n.Sign() != 0 {
				src := cfg.CallData
				if op == 0x39 {
					src = code
				}
				copy(mem.b[mo.Uint64():], paddedSlice(src, so, n.Uint64()))
			}
		case op == 0x50:
			pop()
		case op == 0x51: // MLOAD
			off := pop()
			if !mem.touch(off, big.NewInt(32)) {
				return finish(mem.fail, nil)
			}
			push(new(big.Int).SetBytes(mem.b[off.Uint64() : off.Uint64()+32]))
		case op == 0x52: // MSTORE
			off, v := pop(), pop()
			if !mem.touch(off, big.NewInt(32)) {
				return finish(mem.fail, nil)
			}
			copy(mem.b[off.Uint64():], wordBytes(v))
		case op == 0x53: // MSTORE8: low byte
			off, v := pop(), pop()
			if !mem.touch(off, bigOne) {
				return finish(mem.fail, nil)
			}
			mem.b[off.Uint64()] = byte(new(big.Int).And(v, big.NewInt(0xff)).Uint64())
		case op == 0x56: // JUMP
			d := pop()
			if !d.IsUint64() || d.Uint64() >= uint64(len(code)) || !dests[int(d.Uint64())] {
				return finish(EVMBadJump, nil)
			}
			next = int(d.Uint64())
			res.TakenJumps++
		case op == 0x57: // JUMPI(dest, cond)
			d, c := pop(), pop()
			if c.Sign() != 0 {
				if !d.IsUint64() || d.Uint64() >= uint64(len(code)) || !dests[int(d.Uint64())] {
					return finish(EVMBadJump, nil)
				}
				next = int(d.Uint64())
				res.TakenJumps++
			}
		case op == 0x58:
			push(big.NewInt(int64(pc)))
		case op == 0x59:
			push(big.NewInt(int64(len(mem.b))))
		case op == 0x5b:
		case op == 0x5e: // MCOPY(dst, src, len): both ranges expand memory; overlapping copy as if via a buffer
			d, s, n := pop(), pop(), pop()
			hi := d
			if s.Cmp(d) > 0 {
				hi = s
			}
			if !mem.touch(hi, n) {
				return finish(mem.fail, nil)
			}
			if n.Sign() != 0 {
				tmp := make([]byte, n.Uint64())
				copy(tmp, mem.b[s.Uint64():s.Uint64()+n.Uint64()])
				copy(mem.b[d.Uint64():], tmp)
			}
		case op == 0x5f:
			push(new(big.Int))
		case op >= 0x60 && op <= 0x7f: // PUSHn: bytes past the end of the code read as zero
			n := int(op-0x60) + 1
			data := make([]byte, n)
			for i := 0; i < n; i++ {
				if pc+1+i < len(code) {
					data[i] = code[pc+1+i]
				}
			}
			push(new(big.Int).SetBytes(data))
			next = pc + 1 + n
		case op >= 0x80 && op <= 0x8f:
			n := int(op-0x80) + 1
			push(new(big.Int).Set(st[len(st)-n]))
		case op >= 0x90 && op <= 0x9f:
			n := int(op-0x90) + 1
			top := len(st) - 1
			st[top], st[top-n] = st[top-n], st[top]
		case op == 0xf3 || op == 0xfd:
			off, n := pop(), pop()
			if !mem.touch(off, n) {
				return finish(mem.fail, nil)
			}
			var out []byte
			if n.Sign() != 0 {
				out = append(out, mem.b[off.Uint64():off.Uint64()+n.Uint64()]...)
			}
			if op == 0xf3 {
				return finish(EVMReturn, out)
			}
			return finish(EVMRevert, out)
		}
		pc = next
	}
}

// ---------- Keccak-256 (original Keccak padding 0x01, rate 136), from the Keccak reference ----------

var keccakRC = func() [24]uint64 {
	// round constants from the LFSR x^8+x^6+x^5+x^4+1
	var rc [24]uint64
	r := byte(1)
	for i := 0; i < 24; i++ {
		for j := 0; j < 7; j++ {
			if r&1 == 1 {
				rc[i] ^= 1 << ((1 << uint(j)) - 1)
			}
			if r&0x80 != 0 {
				r = r<<1 ^ 0x71
			} else {
				r <<= 1
			}
		}
	}
	return rc
}()

func rotl64(x uint64, n uint) uint64 {
	n %= 64
	if n == 0 {
		return x
	}
	return x<<n | x>>(64-n)
}

func keccakF(a *[25]uint64) { // a[x+5y]
	for round := 0; round < 24; round++ {
		// theta
		var c [5]uint64
		for x := 0; x < 5; x++ {
			c[x] = a[x] ^ a[x+5] ^ a[x+10] ^ a[x+15] ^ a[x+20]
		}
		for x := 0; x < 5; x++ {
			d := c[(x+4)%5] ^ rotl64(c[(x+1)%5], 1)
			for y := 0; y < 5; y++ {
				a[x+5*y] ^= d
			}
		}
		// rho + pi
		var b [25]uint64
		x, y := 1, 0
		b[0] = a[0]
		for t := 0; t < 24; t++ {
			r := uint((t + 1) * (t + 2) / 2)
			nx, ny := y, (2*x+3*y)%5
			b[nx+5*ny] = rotl64(a[x+5*y], r)
			x, y = nx, ny
		}
		// chi
		for y := 0; y < 5; y++ {
			for x := 0; x < 5; x++ {
				a[x+5*y] = b[x+5*y] ^ (^b[(x+1)%5+5*y] & b[(x+2)%5+5*y])
			}
		}
		// iota
		a[0] ^= keccakRC[round]
	}
}

// Keccak256 is the hash used by the KECCAK256 (SHA3) instruction.
func Keccak256(data []byte) [32]byte {
	const rate = 136
	var a [25]uint64
	absorb := func(block []byte) {
		for i := 0; i < rate/8; i++ {
			var w uint64
			for j := 0; j < 8; j++ {
				w |= uint64(block[8*i+j]) << (8 * uint(j))
			}
			a[i] ^= w
		}
		keccakF(&a)
	}
	for len(data) >= rate {
		absorb(data[:rate])
		data = data[rate:]
	}
	last := make([]byte, rate)
	copy(last, data)
	last[len(data)] ^= 0x01
	last[rate-1] ^= 0x80
	absorb(last)
	var out [32]byte
	for i := 0; i < 4; i++ {
		for j := 0; j < 8; j++ {
			out[8*i+j] = byte(a[i] >> (8 * uint(j)))
		}
	}
	return out
}
