// Package ref holds independent reference models written from the specifications
// (Yellow Paper appendices B/C/D, EIPs). Nothing here imports the node's code.
package ref

import (
	"errors"
	"fmt"
	"math/big"
)

// Item is an RLP tree: a byte string (List == nil, IsList false) or a list.
type Item struct {
	IsList bool
	Str    []byte
	List   []*Item
}

func B(b []byte) *Item        { return &Item{Str: append([]byte{}, b...)} }
func L(items ...*Item) *Item  { return &Item{IsList: true, List: items} }
func U(v uint64) *Item        { return B(new(big.Int).SetUint64(v).Bytes()) }
func Big(v *big.Int) *Item    { return B(v.Bytes()) }

func (it *Item) String() string {
	if !it.IsList {
		return fmt.Sprintf("%x", it.Str)
	}
	s := "["
	for i, c := range it.List {
		if i > 0 {
			s += " "
		}
		s += c.String()
	}
	return s + "]"
}

func (it *Item) Depth() int {
	if !it.IsList {
		return 0
	}
	d := 0
	for _, c := range it.List {
		if x := c.Depth(); x > d {
			d = x
		}
	}
	return d + 1
}

func (a *Item) Equal(b *Item) bool {
	if a.IsList != b.IsList {
		return false
	}
	if !a.IsList {
		return string(a.Str) == string(b.Str)
	}
	if len(a.List) != len(b.List) {
		return false
	}
	for i := range a.List {
		if !a.List[i].Equal(b.List[i]) {
			return false
		}
	}
	return true
}

func beBytes(n uint64) []byte {
	var out []byte
	for n > 0 {
		out = append([]byte{byte(n)}, out...)
		n >>= 8
	}
	return out
}

func header(short, long byte, n uint64) []byte {
	if n < 56 {
		return []byte{short + byte(n)}
	}
	l := beBytes(n)
	return append([]byte{long + byte(len(l))}, l...)
}

// RLPEncode is the Yellow Paper appendix B function.
func RLPEncode(it *Item) []byte {
	if !it.IsList {
		if len(it.Str) == 1 && it.Str[0] < 0x80 {
			return []byte{it.Str[0]}
		}
		return append(header(0x80, 0xb7, uint64(len(it.Str))), it.Str...)
	}
	var body []byte
	for _, c := range it.List {
		body = append(body, RLPEncode(c)...)
	}
	return append(header(0xc0, 0xf7, uint64(len(body))), body...)
}

var ErrRLP = errors.New("ref rlp: not canonical")

// RLPParseOne strictly parses one canonical item from the front of b.
func RLPParseOne(b []byte) (it *Item, rest []byte, err error) {
	if len(b) == 0 {
		return nil, nil, ErrRLP
	}
	t := b[0]
	readLen := func(ll int) (uint64, error) {
		if len(b) < 1+ll {
			return 0, ErrRLP
		}
		if b[1] == 0 {
			return 0, ErrRLP
		}
		var n uint64
		for _, x := range b[1 : 1+ll] {
			n = n<<8 | uint64(x)
		}
		if n < 56 {
			return 0, ErrRLP
		}
		return n, nil
	}
	var off int
	var n uint64
	list := false
	switch {
	case t < 0x80:
		return B(b[:1]), b[1:], nil
	case t < 0xb8:
		off, n = 1, uint64(t-0x80)
	case t < 0xc0:
		ll := int(t - 0xb7)
		n, err = readLen(ll)
		if err != nil {
			return nil, nil, err
		}
		off = 1 + ll
	case t < 0xf8:
		off, n, list = 1, uint64(t-0xc0), true
	default:
		ll := int(t - 0xf7)
		n, err = readLen(ll)
		if err != nil {
			return nil, nil, err
		}
		off, list = 1+ll, true
	}
	if uint64(len(b)-off) < n {
		return nil, nil, ErrRLP
	}
	body, rest := b[off:off+int(n)], b[off+int(n):]
	if !list {
		if n == 1 && body[0] < 0x80 {
			return nil, nil, ErrRLP
		}
		return B(body), rest, nil
	}
	out := &Item{IsList: true, List: []*Item{}}
	for len(body) > 0 {
		var c *Item
		c, body, err = RLPParseOne(body)
		if err != nil {
			return nil, nil, err
		}
		out.List = append(out.List, c)
	}
	return out, rest, nil
}

// RLPParse accepts exactly one canonical item with no trailing bytes.
func RLPParse(b []byte) (*Item, error) {
	it, rest, err := RLPParseOne(b)
	if err != nil {
		return nil, err
	}
	if len(rest) != 0 {
		return nil, ErrRLP
	}
	return it, nil
}

// RLPSplit strictly parses only the header of the first item (list content is not inspected).
// kind: 0 = single byte, 1 = string, 2 = list.
func RLPSplit(b []byte) (kind int, content, rest []byte, err error) {
	if len(b) == 0 {
		return 0, nil, nil, ErrRLP
	}
	t := b[0]
	if t < 0x80 {
		return 0, b[:1], b[1:], nil
	}
	var off int
	var n uint64
	k := 1
	long := func(ll int) error {
		if len(b) < 1+ll || b[1] == 0 {
			return ErrRLP
		}
		n = 0
		for _, x := range b[1 : 1+ll] {
			n = n<<8 | uint64(x)
		}
		if n < 56 {
			return ErrRLP
		}
		off = 1 + ll
		return nil
	}
	switch {
	case t < 0xb8:
		off, n = 1, uint64(t-0x80)
	case t < 0xc0:
		if err := long(int(t - 0xb7)); err != nil {
			return 0, nil, nil, err
		}
	case t < 0xf8:
		off, n, k = 1, uint64(t-0xc0), 2
	default:
		k = 2
		if err := long(int(t - 0xf7)); err != nil {
			return 0, nil, nil, err
		}
	}
	if uint64(len(b)-off) < n {
		return 0, nil, nil, ErrRLP
	}
	if k == 1 && n == 1 && b[off] < 0x80 {
		return 0, nil, nil, ErrRLP
	}
	return k, b[off : off+int(n)], b[off+int(n):], nil
}
