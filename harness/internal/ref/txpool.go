package ref

import "fmt"

// Reference rules for a packed transaction batch (property C17). No node imports: the
// harness projects real transactions to PoolTx.

type PoolTx struct {
	Hash      string
	Sender    string // canonical account key (lower-case hex address)
	Nonce     uint64
	RequestId uint64 // 0 = nonce-checked ("json rpc") transaction
}

// CheckBatch checks a packed batch, in batch order, against the property text:
// duplicate-free, at most limit entries, and for every sender the nonce-checked transactions
// (RequestId 0) in ascending nonce order, none ahead of the sender's next expected nonce
// (state nonce plus the sender's already placed in-sequence transactions).
func CheckBatch(batch []PoolTx, state map[string]uint64, limit int) error {
	if len(batch) > limit {
		return fmt.Errorf("batch has %d transactions, per-block limit is %d", len(batch), limit)
	}
	seen := map[string]int{}
	expected := map[string]uint64{}
	last := map[string]uint64{}
	hasLast := map[string]bool{}
	for i, tx := range batch {
		if j, dup := seen[tx.Hash]; dup {
			return fmt.Errorf("transaction %s occurs twice in the batch (positions %d and %d)", tx.Hash, j, i)
		}
		seen[tx.Hash] = i
		if tx.RequestId != 0 {
			continue
		}
		exp, ok := expected[tx.Sender]
		if !ok {
			exp = state[tx.Sender]
		}
		if hasLast[tx.Sender] && tx.Nonce < last[tx.Sender] {
			return fmt.Errorf("position %d: sender %s nonce %d placed after nonce %d (not ascending)", i, tx.Sender, tx.Nonce, last[tx.Sender])
		}
		if tx.Nonce > exp {
			return fmt.Errorf("position %d: sender %s nonce %d is ahead of the next expected nonce %d (state nonce %d + %d in-sequence placed)",
				i, tx.Sender, tx.Nonce, exp, state[tx.Sender], exp-state[tx.Sender])
		}
		if tx.Nonce == exp {
			exp++
		}
		expected[tx.Sender] = exp
		last[tx.Sender], hasLast[tx.Sender] = tx.Nonce, true
	}
	return nil
}

// Packable returns the hashes of the pending transactions that are not ahead of nonce when
// every pending transaction of a sender is offered in ascending nonce order (the set does not
// depend on the order among equal nonces), and the number of nonce-checked transactions that
// are withheld as "ahead". Only meaningful as a must-include set when len(pending) <= limit.
func Packable(pending []PoolTx, state map[string]uint64) (ok map[string]bool, ahead int) {
	ok = map[string]bool{}
	bySender := map[string][]PoolTx{}
	for _, tx := range pending {
		if tx.RequestId != 0 {
			ok[tx.Hash] = true
			continue
		}
		bySender[tx.Sender] = append(bySender[tx.Sender], tx)
	}
	for s, l := range bySender {
		// insertion sort by nonce (small lists, no dependence on sort package stability)
		for i := 1; i < len(l); i++ {
			for j := i; j > 0 && l[j].Nonce < l[j-1].Nonce; j-- {
				l[j], l[j-1] = l[j-1], l[j]
			}
		}
		exp := state[s]
		for _, tx := range l {
			if tx.Nonce > exp {
				ahead++
				continue
			}
			if tx.Nonce == exp {
				exp++
			}
			ok[tx.Hash] = true
		}
	}
	return ok, ahead
}
