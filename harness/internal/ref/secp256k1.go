package ref

// Reference secp256k1 ECDSA (sign with caller-supplied nonce, verify, public-key recovery) in
// plain math/big affine arithmetic, written from SEC 2 (curve constants) and SEC 1 §4.1
// (ECDSA, recovery §4.1.6). No code shared with the node (which uses libsecp256k1 via cgo).
// Slow (≈1–2 ms per scalar multiplication) – used to build honest inputs, not in inner loops.

import "math/big"

func hexBig(s string) *big.Int {
	v, ok := new(big.Int).SetString(s, 16)
	if !ok {
		panic("bad constant")
	}
	return v
}

var (
	SecpP  = hexBig("FFFFFFFFFFFFFFFFFFFFFFFFFFFFFFFFFFFFFFFFFFFFFFFFFFFFFFFEFFFFFC2F")
	SecpN  = hexBig("FFFFFFFFFFFFFFFFFFFFFFFFFFFFFFFEBAAEDCE6AF48A03BBFD25E8CD0364141")
	SecpGx = hexBig("79BE667EF9DCBBAC55A06295CE870B07029BFCDB2DCE28D959F2815B16F81798")
	SecpGy = hexBig("483ADA7726A3C4655DA4FBFC0E1108A8FD17B448A68554199C47D08FFB10D4B8")
	secpB  = big.NewInt(7)
)

// SecpPoint is an affine point; Inf marks the point at infinity.
type SecpPoint struct {
	X, Y *big.Int
	Inf  bool
}

func secpMod(v *big.Int) *big.Int { return v.Mod(v, SecpP) }

// SecpOnCurve reports y^2 == x^3 + 7 (mod p) with 0 <= x,y < p.
func SecpOnCurve(p SecpPoint) bool {
	if p.Inf {
		return false
	}
	if p.X.Sign() < 0 || p.Y.Sign() < 0 || p.X.Cmp(SecpP) >= 0 || p.Y.Cmp(SecpP) >= 0 {
		return false
	}
	l := new(big.Int).Mul(p.Y, p.Y)
	secpMod(l)
	r := new(big.Int).Mul(p.X, p.X)
	r.Mul(r, p.X)
	r.Add(r, secpB)
	secpMod(r)
	return l.Cmp(r) == 0
}

func SecpAdd(a, b SecpPoint) SecpPoint {
	if a.Inf {
		return b
	}
	if b.Inf {
		return a
	}
	var lam *big.Int
	if a.X.Cmp(b.X) == 0 {
		ys := new(big.Int).Add(a.Y, b.Y)
		secpMod(ys)
		if ys.Sign() == 0 { // a == -b
			return SecpPoint{Inf: true}
		}
		// doubling: lambda = 3x^2 / 2y
		num := new(big.Int).Mul(a.X, a.X)
		num.Mul(num, big.NewInt(3))
		den := new(big.Int).Lsh(a.Y, 1)
		secpMod(den)
		den.ModInverse(den, SecpP)
		lam = secpMod(num.Mul(num, den))
	} else {
		num := new(big.Int).Sub(b.Y, a.Y)
		den := new(big.Int).Sub(b.X, a.X)
		secpMod(den)
		den.ModInverse(den, SecpP)
		lam = secpMod(num.Mul(num, den))
	}
	x := new(big.Int).Mul(lam, lam)
	x.Sub(x, a.X)
	x.Sub(x, b.X)
	secpMod(x)
	y := new(big.Int).Sub(a.X, x)
	y.Mul(y, lam)
	y.Sub(y, a.Y)
	secpMod(y)
	return SecpPoint{X: x, Y: y}
}

func SecpNeg(a SecpPoint) SecpPoint {
	if a.Inf {
		return a
	}
	y := new(big.Int).Sub(SecpP, a.Y)
	secpMod(y)
	return SecpPoint{X: new(big.Int).Set(a.X), Y: y}
}

// SecpMul computes k*P by left-to-right double-and-add (k >= 0).
func SecpMul(k *big.Int, p SecpPoint) SecpPoint {
	acc := SecpPoint{Inf: true}
	for i := k.BitLen() - 1; i >= 0; i-- {
		acc = SecpAdd(acc, acc)
		if k.Bit(i) == 1 {
			acc = SecpAdd(acc, p)
		}
	}
	return acc
}

func SecpG() SecpPoint { return SecpPoint{X: new(big.Int).Set(SecpGx), Y: new(big.Int).Set(SecpGy)} }

// SecpPub returns d*G for a private scalar 1 <= d < n.
func SecpPub(d *big.Int) SecpPoint { return SecpMul(d, SecpG()) }

// SecpSign produces the ECDSA signature of the 32-byte digest z under private key d with the
// caller's nonce k (1 <= k < n): r = (kG).x mod n, s = k^-1 (z + r d) mod n. recid is the
// recovery id of exactly this (r, s): bit0 = parity of (kG).y, bit1 = (kG).x >= n. ok is false
// when r or s is zero (caller draws another k). s is NOT normalised to the low half.
func SecpSign(z []byte, d, k *big.Int) (r, s *big.Int, recid byte, ok bool) {
	R := SecpMul(k, SecpG())
	if R.Inf {
		return nil, nil, 0, false
	}
	r = new(big.Int).Mod(R.X, SecpN)
	if r.Sign() == 0 {
		return nil, nil, 0, false
	}
	e := new(big.Int).SetBytes(z)
	s = new(big.Int).Mul(r, d)
	s.Add(s, e)
	kinv := new(big.Int).ModInverse(k, SecpN)
	s.Mul(s, kinv)
	s.Mod(s, SecpN)
	if s.Sign() == 0 {
		return nil, nil, 0, false
	}
	recid = byte(R.Y.Bit(0))
	if R.X.Cmp(SecpN) >= 0 {
		recid |= 2
	}
	return r, s, recid, true
}

// SecpTwin returns the other signature with the same r: (r, n-s, recid^1).
func SecpTwin(r, s *big.Int, recid byte) (*big.Int, *big.Int, byte) {
	return new(big.Int).Set(r), new(big.Int).Sub(SecpN, s), recid ^ 1
}

// SecpIsLowS reports s <= n/2.
func SecpIsLowS(s *big.Int) bool {
	half := new(big.Int).Rsh(SecpN, 1)
	return s.Cmp(half) <= 0
}

// SecpVerify is plain ECDSA verification (no low-s rule).
func SecpVerify(z []byte, r, s *big.Int, q SecpPoint) bool {
	if r.Sign() <= 0 || s.Sign() <= 0 || r.Cmp(SecpN) >= 0 || s.Cmp(SecpN) >= 0 || !SecpOnCurve(q) {
		return false
	}
	e := new(big.Int).SetBytes(z)
	w := new(big.Int).ModInverse(s, SecpN)
	u1 := new(big.Int).Mul(e, w)
	u1.Mod(u1, SecpN)
	u2 := new(big.Int).Mul(r, w)
	u2.Mod(u2, SecpN)
	p := SecpAdd(SecpMul(u1, SecpG()), SecpMul(u2, q))
	if p.Inf {
		return false
	}
	return new(big.Int).Mod(p.X, SecpN).Cmp(r) == 0
}

// SecpRecover returns the public key Q with (r, s) valid for z and recovery id recid (0..3).
func SecpRecover(z []byte, r, s *big.Int, recid byte) (SecpPoint, bool) {
	if r.Sign() <= 0 || s.Sign() <= 0 || r.Cmp(SecpN) >= 0 || s.Cmp(SecpN) >= 0 || recid > 3 {
		return SecpPoint{}, false
	}
	x := new(big.Int).Set(r)
	if recid&2 != 0 {
		x.Add(x, SecpN)
		if x.Cmp(SecpP) >= 0 {
			return SecpPoint{}, false
		}
	}
	// y = sqrt(x^3+7); p ≡ 3 (mod 4) so sqrt(a) = a^((p+1)/4)
	a := new(big.Int).Mul(x, x)
	a.Mul(a, x)
	a.Add(a, secpB)
	secpMod(a)
	exp := new(big.Int).Add(SecpP, big.NewInt(1))
	exp.Rsh(exp, 2)
	y := new(big.Int).Exp(a, exp, SecpP)
	if new(big.Int).Exp(y, big.NewInt(2), SecpP).Cmp(a) != 0 {
		return SecpPoint{}, false
	}
	if y.Bit(0) != uint(recid&1) {
		y.Sub(SecpP, y)
	}
	R := SecpPoint{X: x, Y: y}
	// Q = r^-1 (s R - e G)
	e := new(big.Int).SetBytes(z)
	rinv := new(big.Int).ModInverse(r, SecpN)
	sR := SecpMul(s, R)
	eG := SecpMul(new(big.Int).Mod(e, SecpN), SecpG())
	q := SecpMul(rinv, SecpAdd(sR, SecpNeg(eG)))
	if q.Inf {
		return SecpPoint{}, false
	}
	return q, true
}

// SecpXY returns the 64-byte X||Y big-endian encoding.
func SecpXY(p SecpPoint) []byte {
	out := make([]byte, 64)
	p.X.FillBytes(out[:32])
	p.Y.FillBytes(out[32:])
	return out
}

// SecpEthAddress is the last 20 bytes of Keccak-256(X||Y).
func SecpEthAddress(p SecpPoint) [20]byte {
	h := Keccak256(SecpXY(p))
	var a [20]byte
	copy(a[:], h[12:])
	return a
}
