package ref

// Reference arithmetic for the 256-bit Barreto-Naehrig curve used by the node's BLS code
// (the "dclxvi" parameters: u = 1868033^3). Written from the curve definition with math/big
// only: affine short-Weierstrass formulas, no Montgomery form, no projective coordinates.
//
//   G1: y^2 = x^3 + 3            over F_p
//   G2: y^2 = x^3 + 3/(i+3)      over F_p^2 = F_p[i]/(i^2+1)   (sextic twist)
//
// Byte encodings (big-endian 32-byte words): G1 = x || y ; G2 = x.i || x.re || y.i || y.re ;
// the point at infinity of G1 is 64 zero bytes.

import (
	"math/big"
)

var (
	BNu     = bnBig("6518589491078791937")
	BNP     = bnPoly(36, 36, 24, 6, 1) // 36u^4+36u^3+24u^2+6u+1
	BNOrder = bnPoly(36, 36, 18, 6, 1) // 36u^4+36u^3+18u^2+6u+1
	bnThree = big.NewInt(3)
	// twist constant 3/(3+i) = 3(3-i)/10
	BNTwistB = func() Fp2 {
		inv10 := new(big.Int).ModInverse(big.NewInt(10), BNP)
		re := new(big.Int).Mul(big.NewInt(9), inv10)
		im := new(big.Int).Mul(big.NewInt(-3), inv10)
		return Fp2{Re: re.Mod(re, BNP), Im: im.Mod(im, BNP)}
	}()
)

func bnBig(s string) *big.Int { n, _ := new(big.Int).SetString(s, 10); return n }

func bnPoly(c4, c3, c2, c1, c0 int64) *big.Int {
	u := bnBig("6518589491078791937")
	r := big.NewInt(c4)
	for _, c := range []int64{c3, c2, c1, c0} {
		r.Mul(r, u)
		r.Add(r, big.NewInt(c))
	}
	return r
}

func fpMod(x *big.Int) *big.Int { return new(big.Int).Mod(x, BNP) }

// ---------- G1 ----------

type G1Pt struct {
	X, Y *big.Int
	Inf  bool
}

func G1Gen() G1Pt { return G1Pt{X: big.NewInt(1), Y: fpMod(big.NewInt(-2))} }

// G1OnCurve: coordinates must already be reduced.
func G1OnCurve(x, y *big.Int) bool {
	l := new(big.Int).Mul(y, y)
	r := new(big.Int).Mul(x, x)
	r.Mul(r, x).Add(r, bnThree)
	return fpMod(l).Cmp(fpMod(r)) == 0
}

func G1Neg(a G1Pt) G1Pt {
	if a.Inf {
		return a
	}
	return G1Pt{X: new(big.Int).Set(a.X), Y: fpMod(new(big.Int).Neg(a.Y))}
}

func G1Add(a, b G1Pt) G1Pt {
	if a.Inf {
		return b
	}
	if b.Inf {
		return a
	}
	var lam *big.Int
	if a.X.Cmp(b.X) == 0 {
		if fpMod(new(big.Int).Add(a.Y, b.Y)).Sign() == 0 {
			return G1Pt{Inf: true}
		}
		num := new(big.Int).Mul(a.X, a.X)
		num.Mul(num, bnThree)
		den := new(big.Int).Lsh(a.Y, 1)
		lam = num.Mul(num, new(big.Int).ModInverse(fpMod(den), BNP))
	} else {
		num := new(big.Int).Sub(b.Y, a.Y)
		den := fpMod(new(big.Int).Sub(b.X, a.X))
		lam = num.Mul(num, new(big.Int).ModInverse(den, BNP))
	}
	lam = fpMod(lam)
	x := new(big.Int).Mul(lam, lam)
	x.Sub(x, a.X).Sub(x, b.X)
	x = fpMod(x)
	y := new(big.Int).Sub(a.X, x)
	y.Mul(y, lam).Sub(y, a.Y)
	return G1Pt{X: x, Y: fpMod(y)}
}

// G1Mul computes k*a for k >= 0 (double-and-add, MSB first).
func G1Mul(a G1Pt, k *big.Int) G1Pt {
	acc := G1Pt{Inf: true}
	for i := k.BitLen() - 1; i >= 0; i-- {
		acc = G1Add(acc, acc)
		if k.Bit(i) == 1 {
			acc = G1Add(acc, a)
		}
	}
	return acc
}

func G1Encode(a G1Pt) []byte {
	out := make([]byte, 64)
	if a.Inf {
		return out
	}
	a.X.FillBytes(out[:32])
	a.Y.FillBytes(out[32:])
	return out
}

// G1 decode classes for a byte string.
const (
	EncBadLength  = "bad_length"   // not exactly the fixed size
	EncOutOfRange = "out_of_range" // some coordinate >= p
	EncOffCurve   = "off_curve"    // reduced coordinates, not on the curve
	EncIdentity   = "identity"     // all-zero encoding
	EncPoint      = "point"        // canonical encoding of a finite curve point
)

// G1DecodeStrict classifies b under the strict reading (exact length, coordinates < p).
func G1DecodeStrict(b []byte) (G1Pt, string) {
	if len(b) != 64 {
		return G1Pt{}, EncBadLength
	}
	x, y := new(big.Int).SetBytes(b[:32]), new(big.Int).SetBytes(b[32:])
	if x.Cmp(BNP) >= 0 || y.Cmp(BNP) >= 0 {
		return G1Pt{}, EncOutOfRange
	}
	if x.Sign() == 0 && y.Sign() == 0 {
		return G1Pt{Inf: true}, EncIdentity
	}
	if !G1OnCurve(x, y) {
		return G1Pt{}, EncOffCurve
	}
	return G1Pt{X: x, Y: y}, EncPoint
}

// G1DecodeLenient reads the first 64 bytes and reduces the coordinates mod p: the most
// permissive reading any decoder could apply. ok=false if shorter than 64 bytes or the reduced
// point is not on the curve.
func G1DecodeLenient(b []byte) (G1Pt, bool) {
	if len(b) < 64 {
		return G1Pt{}, false
	}
	x, y := fpMod(new(big.Int).SetBytes(b[:32])), fpMod(new(big.Int).SetBytes(b[32:64]))
	if x.Sign() == 0 && y.Sign() == 0 {
		return G1Pt{Inf: true}, true
	}
	if !G1OnCurve(x, y) {
		return G1Pt{}, false
	}
	return G1Pt{X: x, Y: y}, true
}

// G1FromX returns a curve point with the given x (reduced) if x^3+3 is a square.
func G1FromX(x *big.Int, odd bool) (G1Pt, bool) {
	x = fpMod(x)
	t := new(big.Int).Mul(x, x)
	t.Mul(t, x).Add(t, bnThree)
	t = fpMod(t)
	y := new(big.Int).ModSqrt(t, BNP)
	if y == nil {
		return G1Pt{}, false
	}
	if (y.Bit(0) == 1) != odd {
		y = fpMod(new(big.Int).Neg(y))
	}
	return G1Pt{X: x, Y: y}, true
}

func (a G1Pt) Equal(b G1Pt) bool {
	if a.Inf || b.Inf {
		return a.Inf == b.Inf
	}
	return a.X.Cmp(b.X) == 0 && a.Y.Cmp(b.Y) == 0
}

// ---------- F_p^2 ----------

type Fp2 struct{ Re, Im *big.Int } // Re + Im*i, both reduced

func Fp2Zero() Fp2             { return Fp2{Re: new(big.Int), Im: new(big.Int)} }
func (a Fp2) IsZero() bool     { return a.Re.Sign() == 0 && a.Im.Sign() == 0 }
func (a Fp2) Equal(b Fp2) bool { return a.Re.Cmp(b.Re) == 0 && a.Im.Cmp(b.Im) == 0 }
func Fp2Add(a, b Fp2) Fp2 {
	return Fp2{fpMod(new(big.Int).Add(a.Re, b.Re)), fpMod(new(big.Int).Add(a.Im, b.Im))}
}
func Fp2Sub(a, b Fp2) Fp2 {
	return Fp2{fpMod(new(big.Int).Sub(a.Re, b.Re)), fpMod(new(big.Int).Sub(a.Im, b.Im))}
}
func Fp2Neg(a Fp2) Fp2          { return Fp2Sub(Fp2Zero(), a) }
func Fp2Small(re, im int64) Fp2 { return Fp2{fpMod(big.NewInt(re)), fpMod(big.NewInt(im))} }

func Fp2Mul(a, b Fp2) Fp2 {
	re := new(big.Int).Mul(a.Re, b.Re)
	re.Sub(re, new(big.Int).Mul(a.Im, b.Im))
	im := new(big.Int).Mul(a.Re, b.Im)
	im.Add(im, new(big.Int).Mul(a.Im, b.Re))
	return Fp2{fpMod(re), fpMod(im)}
}

func Fp2Inv(a Fp2) Fp2 {
	n := new(big.Int).Mul(a.Re, a.Re)
	n.Add(n, new(big.Int).Mul(a.Im, a.Im))
	ni := new(big.Int).ModInverse(fpMod(n), BNP)
	return Fp2{fpMod(new(big.Int).Mul(a.Re, ni)), fpMod(new(big.Int).Mul(new(big.Int).Neg(a.Im), ni))}
}

// Fp2Sqrt returns a square root of a if one exists (verified by squaring).
func Fp2Sqrt(a Fp2) (Fp2, bool) {
	if a.IsZero() {
		return Fp2Zero(), true
	}
	if a.Im.Sign() == 0 {
		if r := new(big.Int).ModSqrt(a.Re, BNP); r != nil {
			return Fp2{r, new(big.Int)}, true
		}
		// sqrt(-|a|) = i*sqrt(|a|)
		if r := new(big.Int).ModSqrt(fpMod(new(big.Int).Neg(a.Re)), BNP); r != nil {
			return Fp2{new(big.Int), r}, true
		}
		return Fp2{}, false
	}
	n := new(big.Int).Mul(a.Re, a.Re)
	n.Add(n, new(big.Int).Mul(a.Im, a.Im))
	s := new(big.Int).ModSqrt(fpMod(n), BNP)
	if s == nil {
		return Fp2{}, false
	}
	inv2 := new(big.Int).ModInverse(big.NewInt(2), BNP)
	for _, sg := range []int64{1, -1} {
		t := new(big.Int).Mul(s, big.NewInt(sg))
		t.Add(t, a.Re).Mul(t, inv2)
		t = fpMod(t)
		x0 := new(big.Int).ModSqrt(t, BNP)
		if x0 == nil || x0.Sign() == 0 {
			continue
		}
		x1 := new(big.Int).Lsh(x0, 1)
		x1.ModInverse(fpMod(x1), BNP).Mul(x1, a.Im)
		r := Fp2{x0, fpMod(x1)}
		if Fp2Mul(r, r).Equal(a) {
			return r, true
		}
	}
	return Fp2{}, false
}

// ---------- G2 (points of the twist; the group G2 proper is its order-n subgroup) ----------

type G2Pt struct {
	X, Y Fp2
	Inf  bool
}

func G2OnTwist(x, y Fp2) bool {
	l := Fp2Mul(y, y)
	r := Fp2Add(Fp2Mul(Fp2Mul(x, x), x), BNTwistB)
	return l.Equal(r)
}

func G2Neg(a G2Pt) G2Pt {
	if a.Inf {
		return a
	}
	return G2Pt{X: a.X, Y: Fp2Neg(a.Y)}
}

func G2Add(a, b G2Pt) G2Pt {
	if a.Inf {
		return b
	}
	if b.Inf {
		return a
	}
	var lam Fp2
	if a.X.Equal(b.X) {
		if Fp2Add(a.Y, b.Y).IsZero() {
			return G2Pt{Inf: true}
		}
		num := Fp2Mul(Fp2Mul(a.X, a.X), Fp2Small(3, 0))
		lam = Fp2Mul(num, Fp2Inv(Fp2Add(a.Y, a.Y)))
	} else {
		lam = Fp2Mul(Fp2Sub(b.Y, a.Y), Fp2Inv(Fp2Sub(b.X, a.X)))
	}
	x := Fp2Sub(Fp2Sub(Fp2Mul(lam, lam), a.X), b.X)
	y := Fp2Sub(Fp2Mul(lam, Fp2Sub(a.X, x)), a.Y)
	return G2Pt{X: x, Y: y}
}

func G2Mul(a G2Pt, k *big.Int) G2Pt {
	acc := G2Pt{Inf: true}
	for i := k.BitLen() - 1; i >= 0; i-- {
		acc = G2Add(acc, acc)
		if k.Bit(i) == 1 {
			acc = G2Add(acc, a)
		}
	}
	return acc
}

// G2Encode: x.i || x.re || y.i || y.re (the node's layout). Infinity has no 128-byte encoding
// produced by the node (its Marshal returns a single zero byte); here it is 128 zero bytes.
func G2Encode(a G2Pt) []byte {
	out := make([]byte, 128)
	if a.Inf {
		return out
	}
	a.X.Im.FillBytes(out[0:32])
	a.X.Re.FillBytes(out[32:64])
	a.Y.Im.FillBytes(out[64:96])
	a.Y.Re.FillBytes(out[96:128])
	return out
}

func g2words(b []byte) [4]*big.Int {
	var w [4]*big.Int
	for i := range w {
		w[i] = new(big.Int).SetBytes(b[32*i : 32*i+32])
	}
	return w
}

// G2DecodeStrict classifies b: exact length 128, all four words < p, on the twist.
// (Membership in the order-n subgroup is reported separately by G2InSubgroup.)
func G2DecodeStrict(b []byte) (G2Pt, string) {
	if len(b) != 128 {
		return G2Pt{}, EncBadLength
	}
	w := g2words(b)
	for _, v := range w {
		if v.Cmp(BNP) >= 0 {
			return G2Pt{}, EncOutOfRange
		}
	}
	x, y := Fp2{Re: w[1], Im: w[0]}, Fp2{Re: w[3], Im: w[2]}
	if x.IsZero() && y.IsZero() {
		return G2Pt{Inf: true}, EncIdentity
	}
	if !G2OnTwist(x, y) {
		return G2Pt{}, EncOffCurve
	}
	return G2Pt{X: x, Y: y}, EncPoint
}

// G2DecodeLenient: first 128 bytes, words reduced mod p.
func G2DecodeLenient(b []byte) (G2Pt, bool) {
	if len(b) < 128 {
		return G2Pt{}, false
	}
	w := g2words(b[:128])
	for i := range w {
		w[i] = fpMod(w[i])
	}
	x, y := Fp2{Re: w[1], Im: w[0]}, Fp2{Re: w[3], Im: w[2]}
	if x.IsZero() && y.IsZero() {
		return G2Pt{Inf: true}, true
	}
	if !G2OnTwist(x, y) {
		return G2Pt{}, false
	}
	return G2Pt{X: x, Y: y}, true
}

func G2InSubgroup(a G2Pt) bool { return G2Mul(a, BNOrder).Inf }

// G2FromX returns a twist point with the given x if x^3+b' is a square in F_p^2.
func G2FromX(x Fp2, neg bool) (G2Pt, bool) {
	t := Fp2Add(Fp2Mul(Fp2Mul(x, x), x), BNTwistB)
	y, ok := Fp2Sqrt(t)
	if !ok {
		return G2Pt{}, false
	}
	if neg {
		y = Fp2Neg(y)
	}
	return G2Pt{X: x, Y: y}, true
}

func (a G2Pt) Equal(b G2Pt) bool {
	if a.Inf || b.Inf {
		return a.Inf == b.Inf
	}
	return a.X.Equal(b.X) && a.Y.Equal(b.Y)
}
