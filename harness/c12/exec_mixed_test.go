package c12

// Blocks that MIX every transaction type reaching the EVM or the per-transaction scratch state,
// executed by the real block executor (core.VerifExecuteBlock):
//   - contract calls (type 200): generated writers (TSTORE / LOG / SSTORE), TLOAD observers, and calls
//     into the main-node contract stub ("lock" = TSTORE(0,1)+LOG1, "observe" = TLOAD 0..3);
//   - operator-node transactions (type 7): not a contract transaction, but its executor calls
//     common.MainNodeContract() with selector 0x412a5a6d through the EVM and expects 4 logs; the stub
//     installed there reverts if TLOAD(0) != 0;
//   - plain transfers (type 100) and miner add-stake transactions (type 5) as separators.
// Oracles: (1) what the stub / the writers must produce; (2) every receipt and the final state root of
// the block equal those obtained by executing the transactions ONE BY ONE, each on a fresh state object
// reopened from the committed state of its predecessors (empty scratch state by construction);
// (3) the state object files under every transaction hash exactly the logs of its receipt.

import (
	"bytes"
	"encoding/hex"
	"encoding/json"
	"fmt"
	"math/big"
	"strings"
	"testing"

	"com.tuntun.rangers/node/src/common"
	"com.tuntun.rangers/node/src/middleware/types"
	"com.tuntun.rangers/node/src/service"
	"com.tuntun.rangers/node/src/storage/account"
	"pgregory.net/rapid"

	"verifharness/internal/boot"
	"verifharness/internal/stats"
	"verifharness/internal/txgen"
)

const opEQ, opCALLER, opLOG1 = 0x14, 0x33, 0xa1

// mainNodeStub: calldata of 4 bytes -> require(tload(0)==0); 4 x LOG0(data = caller+1 as a word);
// 2 bytes -> tstore(0,1); LOG1(topic 0xAA); 1 byte -> return tload(0..3).
func mainNodeStub() []byte {
	a := newAsm()
	a.op(opCALLDATASIZE)
	a.push(4)
	a.op(opEQ)
	a.pushLabel("main")
	a.op(opJUMPI)
	a.op(opCALLDATASIZE)
	a.push(1)
	a.op(opEQ)
	a.pushLabel("obs")
	a.op(opJUMPI)
	// lock
	a.push(1)
	a.push(0)
	a.op(opTSTORE)
	a.push(0xAA)
	a.push(0)
	a.push(0)
	a.op(opLOG1, opSTOP)
	a.label("main")
	a.push(0)
	a.op(opTLOAD)
	a.pushLabel("locked")
	a.op(opJUMPI)
	a.push(1)
	a.op(opCALLER, opADD)
	a.push(0)
	a.op(opMSTORE)
	for i := 0; i < 4; i++ {
		a.push(32)
		a.push(0)
		a.op(opLOG0)
	}
	a.op(opSTOP)
	a.label("locked")
	a.push(0)
	a.push(0)
	a.op(opREVERT)
	a.label("obs")
	for s := uint64(0); s < nSlots; s++ {
		a.push(s)
		a.op(opTLOAD)
		a.push(32 * s)
		a.op(opMSTORE)
	}
	a.push(32 * nSlots)
	a.push(0)
	a.op(opRETURN)
	return a.finish()
}

type mixTx struct {
	tx    *types.Transaction
	kind  string // call obs lock obsmain opnode transfer mineradd
	w     int
	owner int
	desc  string
}

func rawTx(source string, typ int32, data, extra string, nonce uint64, salt string) *types.Transaction {
	return txgen.Finish(&types.Transaction{Source: source, Type: typ, Data: data, ExtraData: extra, Nonce: nonce, Time: salt}, nil)
}

type logView struct {
	Addr   common.Address
	Topics []common.Hash
	Data   string
	Tx     common.Hash
}

func viewLogs(ls []*types.Log) []logView {
	var v []logView
	for _, l := range ls {
		v = append(v, logView{l.Address, l.Topics, hex.EncodeToString(l.Data), l.TxHash})
	}
	return v
}

func sameLogs(a, b []logView) bool {
	if len(a) != len(b) {
		return false
	}
	for i := range a {
		if a[i].Addr != b[i].Addr || a[i].Data != b[i].Data || a[i].Tx != b[i].Tx || len(a[i].Topics) != len(b[i].Topics) {
			return false
		}
		for k := range a[i].Topics {
			if a[i].Topics[k] != b[i].Topics[k] {
				return false
			}
		}
	}
	return true
}

func TestExecMixedBlocks(t *testing.T) {
	if !*execMode {
		t.Skip("runs in its own process with -c12.exec")
	}
	mainNode := common.MainNodeContract()
	stub := mainNodeStub()
	rpg := func(n int64) *big.Int {
		return new(big.Int).Mul(big.NewInt(n), new(big.Int).Exp(big.NewInt(10), big.NewInt(18), nil))
	}
	stats.Check(t, 150, 1500, func(t *rapid.T) {
		execSalt++
		salt := fmt.Sprintf("c12m-%d", execSalt)
		// owners of miners: addresses below and above the faucets, so that the executor's ordering by
		// source puts operator-node transactions before, between and after the contract transactions
		var owners []common.Address
		var minerIDs [][]byte
		for j := 0; j < 3; j++ {
			var a common.Address
			a[0] = byte(rapid.SampledFrom([]int{0x01, 0x01, 0x20, 0x30, 0x60, 0xf0}).Draw(t, "ownerHigh"))
			a[1], a[18], a[19] = 0xc1, byte(execSalt), byte(j+1)
			owners = append(owners, a)
			minerIDs = append(minerIDs, common.Sha256([]byte(fmt.Sprintf("%s-miner-%d", salt, j))))
		}
		pre := func(st *account.AccountDB) {
			st.SetNonce(mainNode, 1)
			st.SetCode(mainNode, stub)
			for j, o := range owners {
				st.AddBalance(o, rpg(5000))
				service.MinerManagerImpl.InsertMiner(&types.Miner{Id: minerIDs[j], Type: common.MinerTypeValidator, Stake: common.ValidatorStake, Account: o.Bytes()}, st)
			}
		}
		// writers
		nW := rapid.IntRange(1, 2).Draw(t, "nWriters")
		var writers []*node
		var deploy []*types.Transaction
		for k := 0; k < nW; k++ {
			w := &node{kind: kCall, out: oReturn}
			for i, n := 0, rapid.IntRange(1, 4).Draw(t, "nsteps"); i < n; i++ {
				switch rapid.IntRange(0, 3).Draw(t, "step") {
				case 0:
					w.steps = append(w.steps, step{k: sSstore, slot: uint64(rapid.IntRange(0, 3).Draw(t, "slot")), val: uint64(rapid.IntRange(1, 9).Draw(t, "val"))})
				case 1, 2:
					w.steps = append(w.steps, step{k: sTstore, slot: uint64(rapid.IntRange(0, 3).Draw(t, "slot")), val: uint64(rapid.IntRange(1, 9).Draw(t, "val"))})
				default:
					w.steps = append(w.steps, step{k: sLog, data: uint64(rapid.IntRange(1, 1<<20).Draw(t, "data")), topics: []uint64{uint64(k*100 + i)}})
				}
			}
			if rapid.IntRange(0, 4).Draw(t, "wFails") == 0 {
				w.out = oRevert
			}
			w.number(k * 16)
			w.deposit = 1
			writers = append(writers, w)
			deploy = append(deploy, txgen.Contract(nil, txgen.Faucets[1], "", "0x"+hex.EncodeToString(deployer(newCompiler().body(w))), "0", "30000000", "1000000000", uint64(k+1), fmt.Sprintf("%s-d%d", salt, k)))
		}
		r1 := boot.ExecWith(execGenesisRoot, 0, execHdr(salt, 1), deploy, "fullverify", pre)
		if r1.Panic != nil {
			t.Fatalf("VERIF-INCONCLUSIVE setup block panicked: %v", r1.Panic)
		}
		addrOf := map[common.Hash]common.Address{}
		for _, r := range r1.Receipts {
			if r.Status != types.ReceiptStatusSuccessful {
				t.Fatalf("VERIF-INCONCLUSIVE deployment failed: %s", r.Msg)
			}
			addrOf[r.TxHash] = r.ContractAddress
		}
		var wAddr []common.Address
		for _, d := range deploy {
			wAddr = append(wAddr, addrOf[d.Hash])
		}
		root1, err := boot.Persist(r1.State)
		if err != nil {
			t.Fatalf("persist: %v", err)
		}
		if st, err := boot.OpenState(root1); err != nil || service.MinerManagerImpl.GetMinerIdByAccount(owners[0].Bytes(), st) == nil || len(st.GetCode(mainNode)) == 0 {
			t.Fatalf("VERIF-INCONCLUSIVE setup: miner or main-node stub missing (%v)", err)
		}
		// ---- block 2: the mix
		nonces := map[string]uint64{txgen.Faucets[1]: uint64(nW)}
		next := func(src string) uint64 { nonces[src]++; return nonces[src] }
		var txs []*mixTx
		ntx := rapid.IntRange(2, 7).Draw(t, "ntx")
		for i := 0; i < ntx; i++ {
			s := fmt.Sprintf("%s-t%d", salt, i)
			src := rapid.SampledFrom(txgen.Faucets[1:]).Draw(t, "src")
			x := &mixTx{}
			switch rapid.IntRange(0, 11).Draw(t, "txKind") {
			case 0, 1:
				x.kind, x.w = "call", rapid.IntRange(0, nW-1).Draw(t, "w")
				x.tx = txgen.Contract(nil, src, wAddr[x.w].GetHexString(), "0x", "0", "30000000", "1000000000", next(src), s)
				x.desc = fmt.Sprintf("contract call W%d from %s", x.w, src[:8])
			case 2:
				x.kind, x.w = "obs", rapid.IntRange(0, nW-1).Draw(t, "w")
				x.tx = txgen.Contract(nil, src, wAddr[x.w].GetHexString(), "0x00", "0", "30000000", "1000000000", next(src), s)
				x.desc = fmt.Sprintf("contract call W%d (TLOAD observer) from %s", x.w, src[:8])
			case 3, 4, 5:
				x.kind = "lock"
				x.tx = txgen.Contract(nil, src, mainNode.GetHexString(), "0x0102", "0", "30000000", "1000000000", next(src), s)
				x.desc = fmt.Sprintf("contract call main-node stub: TSTORE(0,1); LOG1 from %s", src[:8])
			case 6:
				x.kind = "obsmain"
				x.tx = txgen.Contract(nil, src, mainNode.GetHexString(), "0x00", "0", "30000000", "1000000000", next(src), s)
				x.desc = fmt.Sprintf("contract call main-node stub (TLOAD observer) from %s", src[:8])
			case 7, 8, 9:
				x.kind, x.owner = "opnode", rapid.IntRange(0, len(owners)-1).Draw(t, "owner")
				o := owners[x.owner].GetHexString()
				x.tx = rawTx(o, types.TransactionTypeOperatorNode, "", "", next(o), s)
				x.desc = fmt.Sprintf("operator-node tx (type 7) of owner %d %s", x.owner, o[:8])
			case 10:
				x.kind = "transfer"
				x.tx = txgen.Transfer(txgen.Faucets[0], nil, [][2]string{{eoas[0].GetHexString(), "1.5"}}, next(txgen.Faucets[0]), s)
				x.desc = "transfer (type 100)"
			default:
				x.kind, x.owner = "mineradd", rapid.IntRange(0, len(owners)-1).Draw(t, "owner")
				o := owners[x.owner].GetHexString()
				d, _ := json.Marshal(txgen.MinerData{Id: common.ToHex(minerIDs[x.owner]), Stake: 10})
				x.tx = rawTx(o, types.TransactionTypeMinerAdd, string(d), "", next(o), s)
				x.desc = fmt.Sprintf("miner add-stake tx (type 5) of owner %d", x.owner)
			}
			txs = append(txs, x)
		}
		var list []*types.Transaction
		byHash := map[common.Hash]*mixTx{}
		for _, x := range txs {
			list = append(list, x.tx)
			byHash[x.tx.Hash] = x
		}
		blk := boot.Exec(root1, 1, execHdr(salt, 2), list, "fullverify")
		if blk.Panic != nil {
			t.Fatalf("block executor panicked: %v", blk.Panic)
		}
		if len(blk.Executed) != len(list) || len(blk.Receipts) != len(list) {
			t.Fatalf("VERIF-INCONCLUSIVE %d of %d transactions executed", len(blk.Executed), len(list))
		}
		var order []*mixTx
		for _, e := range blk.Executed {
			order = append(order, byHash[e.Hash])
		}
		render := func() string {
			var l []string
			for k, w := range writers {
				l = append(l, fmt.Sprintf("W%d=%s: %s", k, wAddr[k].GetHexString(), w))
			}
			for i, x := range order {
				l = append(l, fmt.Sprintf("tx%d %s: %s", i, x.tx.Hash.Hex()[:10], x.desc))
			}
			return "block (in execution order):\n    " + strings.Join(l, "\n    ")
		}
		// ---- (1) expectations from the programs
		controls := []bool{true, true, true}
		evmBefore, scratchBefore := false, false
		nontrivial := false
		var key []string
		for i, x := range order {
			r := blk.Receipts[i]
			if r.TxHash != x.tx.Hash {
				t.Fatalf("VERIF-INCONCLUSIVE receipt order")
			}
			ok := r.Status == types.ReceiptStatusSuccessful
			key = append(key, x.kind)
			var want []logView
			switch x.kind {
			case "opnode":
				if scratchBefore || evmBefore {
					nontrivial = true
				}
				if scratchBefore {
					stats.Class("mixed:operator_node_tx_after_TSTORE_or_LOG_tx")
				}
				if controls[x.owner] != ok {
					t.Fatalf("C12 violated (real block executor): %s: success=%v (%s), but on its own it must be %v: the main-node contract only requires TLOAD(0)==0 at the start of the transaction\n%s",
						x.desc, ok, r.Msg, controls[x.owner], render())
				}
				if ok {
					controls[x.owner] = false
					w := new(big.Int).Add(new(big.Int).SetBytes(owners[x.owner].Bytes()), big.NewInt(1))
					for k := 0; k < 4; k++ {
						want = append(want, logView{mainNode, nil, hex.EncodeToString(word(w)), x.tx.Hash})
					}
				}
				evmBefore = true
			case "lock":
				if !ok {
					t.Fatalf("VERIF-INCONCLUSIVE lock call failed: %s\n%s", r.Msg, render())
				}
				want = []logView{{mainNode, []common.Hash{hashOfU(0xAA)}, "", x.tx.Hash}}
				evmBefore, scratchBefore = true, true
			case "obsmain", "obs":
				if evmBefore {
					nontrivial = true
				}
				if !ok {
					t.Fatalf("VERIF-INCONCLUSIVE observer call failed: %s\n%s", r.Msg, render())
				}
				var rj execResultJSON
				_ = json.Unmarshal([]byte(r.Msg), &rj)
				out, _ := hex.DecodeString(strings.TrimPrefix(rj.Result, "0x"))
				if len(out) != 32*nSlots || !bytes.Equal(out, make([]byte, 32*nSlots)) {
					t.Fatalf("C12 violated (real block executor): %s read %x with TLOAD(0..3): transient storage of an earlier transaction\n%s", x.desc, out, render())
				}
				evmBefore = true
			case "call":
				w := writers[x.w]
				if ok && w.out != oReturn {
					t.Fatalf("C12 violated (real block executor): %s succeeded although the program reverts\n%s", x.desc, render())
				}
				if ok {
					for _, s := range w.steps {
						if s.k == sLog {
							var tp []common.Hash
							for _, v := range s.topics {
								tp = append(tp, hashOfU(v))
							}
							want = append(want, logView{wAddr[x.w], tp, hex.EncodeToString(logData(s.data)), x.tx.Hash})
						}
					}
				}
				evmBefore, scratchBefore = true, true
			default: // transfer, mineradd: never emit logs
			}
			if got := viewLogs(r.Logs); !sameLogs(got, want) {
				t.Fatalf("C12 violated (real block executor): receipt of tx%d (%s) carries %d logs %v, the transaction itself emitted %d %v\n%s", i, x.desc, len(got), got, len(want), want, render())
			}
			// (3) the state object files exactly these logs under the transaction's hash
			if got := viewLogs(blk.State.GetLogs(x.tx.Hash)); !sameLogs(got, want) {
				t.Fatalf("C12 violated (real block executor): the state keeps %d logs %v under the hash of tx%d (%s), the transaction emitted %d\n%s", len(got), got, i, x.desc, len(want), render())
			}
		}
		if extra := blk.State.GetLogs(common.Hash{}); len(extra) != 0 {
			t.Fatalf("C12 violated (real block executor): %d logs filed under the zero transaction hash\n%s", len(extra), render())
		}
		// ---- (2) the same transactions one by one, each on a fresh state object
		root := root1
		for i, x := range order {
			one := boot.Exec(root, 1, execHdr(salt, 2), []*types.Transaction{x.tx}, "fullverify")
			if one.Panic != nil {
				t.Fatalf("executor panicked on tx%d alone: %v\n%s", i, one.Panic, render())
			}
			if len(one.Receipts) != 1 {
				t.Fatalf("VERIF-INCONCLUSIVE tx%d alone: %d receipts", i, len(one.Receipts))
			}
			a, b := blk.Receipts[i], one.Receipts[0]
			msgA, msgB := a.Msg, b.Msg
			gasA, gasB := a.GasUsed, b.GasUsed
			if types.IsContractTx(x.tx.Type) { // the message embeds the logs with their block-wide positions
				msgA, msgB = "", ""
			} else {
				// core/vmexecutor.go never clears context["gasUsed"]: the receipt of a non-contract transaction repeats the
				// gas figure of the last contract transaction before it. The property speaks about logs and scratch state
				// only, so this is counted, not asserted.
				if gasA != gasB {
					stats.Class("mixed:noncontract_receipt_repeats_previous_gasUsed(not asserted)")
				}
				gasA, gasB = 0, 0
			}
			if a.Status != b.Status || gasA != gasB || msgA != msgB || a.ContractAddress != b.ContractAddress || !sameLogs(viewLogs(a.Logs), viewLogs(b.Logs)) {
				t.Fatalf("C12 violated (real block executor): tx%d (%s) inside the block: status %d gas %d msg %q logs %v;\n  the same transaction executed alone on the committed state of its predecessors: status %d gas %d msg %q logs %v\n%s",
					i, x.desc, a.Status, a.GasUsed, a.Msg, viewLogs(a.Logs), b.Status, b.GasUsed, b.Msg, viewLogs(b.Logs), render())
			}
			if root, err = boot.Persist(one.State); err != nil {
				t.Fatalf("persist: %v", err)
			}
		}
		if blk.Root != root {
			rootB, _ := boot.Persist(blk.State)
			if rootB != root {
				t.Fatalf("C12 violated (real block executor): state root of the block %s differs from the root %s reached by executing its transactions one by one on fresh state objects (all receipts equal)\n%s", rootB.Hex(), root.Hex(), render())
			}
		}
		stats.Class("mixed:roots_compared")
		for _, x := range order {
			stats.Class("mixed:tx_" + x.kind)
		}
		k := ""
		if nontrivial {
			k = "mixed|" + strings.Join(key, "|")
		}
		stats.Case(k, "exec:mixed_block_through_VMExecutor")
		stats.Sample(map[string]interface{}{"mixed": render()})
	})
}
