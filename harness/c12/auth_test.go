package c12

// AUTH / AUTHCALL (node-specific opcodes 0xf6 / 0xf7, proposal 014) inside a static frame.

import (
	"fmt"
	"math/big"
	"testing"

	"com.tuntun.rangers/node/src/common"

	"verifharness/internal/evmh"
	"verifharness/internal/ref"
	"verifharness/internal/stats"
)

const (
	opAUTH     = 0xf6
	opAUTHCALL = 0xf7
)

// authSig signs the AUTH message keccak(0x03 || chainId || contract || commit) with key d.
func authSig(d *big.Int, chainID *big.Int, contract common.Address, commit [32]byte) (authority common.Address, v byte, r, s *big.Int) {
	msg := make([]byte, 97)
	msg[0] = 0x03
	chainID.FillBytes(msg[1:33])
	copy(msg[33+12:65], contract[:])
	copy(msg[65:], commit[:])
	h := ref.Keccak256(msg)
	k := new(big.Int).Add(d, big.NewInt(0x5151))
	r, s, recid, ok := ref.SecpSign(h[:], d, k)
	if !ok {
		panic("sign")
	}
	if !ref.SecpIsLowS(s) {
		r, s, recid = ref.SecpTwin(r, s, recid)
	}
	authority = common.Address(ref.SecpEthAddress(ref.SecpPub(d)))
	return authority, recid, r, s
}

type sigKey struct {
	key int
	ctx common.Address
}

type sigVal struct {
	authority common.Address
	v         byte
	r, s      *big.Int
}

var sigCache = map[sigKey]sigVal{}

func authKeyD(key int) *big.Int { return big.NewInt(int64(0xA0000 + key)) }

var authorityCache = map[int]common.Address{}

func authorityOf(key int) common.Address {
	if a, ok := authorityCache[key]; ok {
		return a
	}
	a := common.Address(ref.SecpEthAddress(ref.SecpPub(authKeyD(key))))
	authorityCache[key] = a
	return a
}

// authFor returns the (cached) AUTH signature of authority key `key` for the invoking contract ctx.
func authFor(key int, ctx common.Address) (common.Address, byte, *big.Int, *big.Int) {
	k := sigKey{key, ctx}
	if v, ok := sigCache[k]; ok {
		return v.authority, v.v, v.r, v.s
	}
	var commit [32]byte
	commit[31] = 1
	a, v, r, s := authSig(authKeyD(key), common.GetChainId(evmh.Height), ctx, commit)
	sigCache[k] = sigVal{a, v, r, s}
	authorityCache[key] = a
	return a, v, r, s
}

func word(v *big.Int) []byte { b := make([]byte, 32); v.FillBytes(b); return b }

// authCallCode: AUTH(authority, mem[0:128]) ; AUTHCALL(nonce 0, to, value) ; return the two status words.
func authCallCode(authority common.Address, v byte, r, s *big.Int, commit [32]byte, to common.Address, value uint64) []byte {
	a := newAsm()
	for i, w := range [][]byte{word(big.NewInt(int64(v))), word(r), word(s), commit[:]} {
		a.pushN(w)
		a.push(uint64(32 * i))
		a.op(opMSTORE)
	}
	a.push(128)
	a.push(0)
	a.pushAddr(authority)
	a.op(opAUTH)
	a.push(0x100)
	a.op(opMSTORE)
	a.push(0) // retLength
	a.push(0) // retOffset
	a.push(0) // argsLength
	a.push(0) // argsOffset
	a.push(0) // valueExt
	a.push(value)
	a.pushAddr(to)
	a.push(0) // gas: all but 1/64
	a.push(0) // authorized nonce
	a.op(opAUTHCALL)
	a.push(0x120)
	a.op(opMSTORE)
	a.push(64)
	a.push(0x100)
	a.op(opRETURN)
	return a.finish()
}

// F-C12-c: AUTHCALL is not flagged `writes` and evm.AuthCall has no read-only guard: executed
// below a STATICCALL it bumps the authority's nonce and moves value from the transaction origin.
func TestProbeAuthCallInsideStaticCall(t *testing.T) {
	skipIfExec(t)
	evmh.Boot()
	st := evmh.NewState()
	st.AddBalance(evmh.Origin, big.NewInt(1_000_000))
	inner, outer := codeAddr(1), codeAddr(0)
	var commit [32]byte
	commit[31] = 1
	chainID := common.GetChainId(evmh.Height)
	authority, v, r, s := authSig(big.NewInt(0xA11CE), chainID, inner, commit)
	to := eoas[1]
	evmh.Install(st, inner, authCallCode(authority, v, r, s, commit, to, 5))
	// outer: STATICCALL(inner) and return its status + its return data
	a := newAsm()
	a.push(64)
	a.push(32)
	a.push(0)
	a.push(0)
	a.pushAddr(inner)
	a.push(50_000_000)
	a.op(opSTATICCALL)
	a.push(0)
	a.op(opMSTORE)
	a.push(96)
	a.push(0)
	a.op(opRETURN)
	evmh.Install(st, outer, a.finish())
	st.Prepare(txHashOf(0), common.Hash{}, 0)
	before := [3]string{st.GetBalance(evmh.Origin).String(), st.GetBalance(to).String(), fmt.Sprint(st.GetNonce(authority))}
	res := evmh.Call(st, evmh.NewContext(evmh.Origin, 100_000_000), evmh.Origin, outer, nil, 100_000_000, new(big.Int))
	if res.Panicked() || res.Err != nil || len(res.Ret) != 96 {
		t.Fatalf("VERIF-INCONCLUSIVE outer call: err=%v panic=%v ret=%x", res.Err, res.Panic, res.Ret)
	}
	after := [3]string{st.GetBalance(evmh.Origin).String(), st.GetBalance(to).String(), fmt.Sprint(st.GetNonce(authority))}
	staticOK := new(big.Int).SetBytes(res.Ret[:32]).Sign() != 0
	authOK := new(big.Int).SetBytes(res.Ret[32:64]).Sign() != 0
	authCallOK := new(big.Int).SetBytes(res.Ret[64:96]).Sign() != 0
	present := before != after
	stats.Probe(t, "F-C12-c", "C12", present, fmt.Sprintf("origin -> CALL outer -> STATICCALL inner: inner runs AUTH (ok=%v) and AUTHCALL(value 5 to %s) (ok=%v), STATICCALL status %v; (origin balance, target balance, authority nonce) before %v after %v - state modified inside a static call",
		authOK, to.GetHexString(), authCallOK, staticOK, before, after))
	if !present && !(authOK) {
		t.Logf("note: AUTH did not accept the signature (authOK=%v), the probe is vacuous", authOK)
	}
}
